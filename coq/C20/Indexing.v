(* C20/Indexing.v -- NumpyTensor.__getitem__ / DiscretizedSpaceElement.__getitem__ with basic
   indices (a tuple of ints and slices, at most one per axis): NumPy basic indexing on the
   C-ordered data, then either the scalar (all axes indexed by ints) or an element of a NEW
   space with the shape of the selection, the same dtype and the weighting of the source
   (constants / custom / matrix weightings as they are, an array weighting restricted to the
   selection: a new array object).  Definitions only. *)
From Coq Require Import ZArith List Bool.
From Verif Require Import Base.Num Base.Check C20.Syntax C20.Model Gen.C20Tables C20.Derived.
Import ListNotations.

Section I.
Context {T : Type} `{Num T}.
Variable dv : dvariants.

Definition zprod (l : list Z) : Z := fold_right Z.mul 1%Z l.

(* the k-th block of [size] consecutive entries *)
Definition block {A} (size : nat) (k : nat) (l : list A) : list A := firstn size (skipn (k * size) l).

(* shape of a[idx]; validates every index (IndexError: int out of range or too many indices;
   ValueError: slice step 0) *)
Fixpoint index_shape (shape : list Z) (idx : list idx1) {struct idx} : res (list Z) :=
  match idx with
  | [] => Ok shape
  | i :: idx' =>
      match shape with
      | [] => ErrIndex
      | n :: sh' =>
          match i with
          | XInt k => rbind (norm_index n k) (fun _ => index_shape sh' idx')
          | XSlice s => rbind (slice_positions n s) (fun ps =>
                          rmap (cons (Z.of_nat (length ps))) (index_shape sh' idx'))
          | XBad => ErrType
          end
      end
  end.

(* the selected entries in C order (indices already validated by index_shape) *)
Fixpoint index_data (shape : list Z) (idx : list idx1) (data : list T) {struct idx} : list T :=
  match idx with
  | [] => data
  | i :: idx' =>
      match shape with
      | [] => data
      | n :: sh' =>
          let size := Z.to_nat (zprod sh') in
          match i with
          | XInt k => match norm_index n k with
                      | Ok j => index_data sh' idx' (block size (Z.to_nat j) data)
                      | _ => []
                      end
          | XSlice s => match slice_positions n s with
                        | Ok ps => flat_map (fun p => index_data sh' idx' (block size (Z.to_nat p) data)) ps
                        | _ => []
                        end
          | XBad => []
          end
      end
  end.

Definition all_ints (shape : list Z) (idx : list idx1) : bool :=
  Nat.eqb (length idx) (length shape) && forallb (fun i => match i with XInt _ => true | _ => false end) idx.

Inductive gres := GScalar (x : T) | GTens (t : tsp T) (data : list T).

Definition tens_getitem (t : tsp T) (data : list T) (idx : list idx1) : res gres :=
  rbind (index_shape (ts_shape t) idx) (fun sh =>
    let d := index_data (ts_shape t) idx data in
    if all_ints (ts_shape t) idx then
      match d with x :: _ => Ok (GScalar x) | [] => ErrIndex end
    else
      let w := if is_numeric (ts_dtype t)
               then Some (match ts_w t with WArray _ _ e => WArray KNpy fresh_id e | w => w end)
               else None in
      rmap (fun t' => GTens t' d) (mk_tsp sh (ts_dtype t) w)).
End I.
