(* C20/FloatBytes.v -- the one place where the real-number idealisation hides something the
   code relies on: RectGrid.__eq__ compares coordinate vectors with float ==, RectGrid.__hash__
   hashes (cv + 0.0).tobytes().  Over ALL binary64 floats (signed zeros, infinities, NaN):
   a == b implies that a + 0.0 and b + 0.0 are the same float (the same bits), so equal grids
   hash equal bytes; without the + 0.0 this fails for 0.0 == -0.0.
   Uses the specification axioms of Coq's primitive floats (Coq.Floats.FloatAxioms). *)
From Coq Require Import ZArith Floats Bool.
Local Open Scope float_scope.

Lemma SFadd_zero_r prec emax (x : spec_float) :
  SFadd prec emax x (S754_zero false) =
  match x with S754_zero _ => S754_zero false | _ => x end.
Proof. destruct x as [s| s| |s m e]; try reflexivity. destruct s; reflexivity. Qed.

Lemma SFcompare_Eq_add_zero prec emax (x y : spec_float) :
  SFcompare x y = Some Eq ->
  SFadd prec emax x (S754_zero false) = SFadd prec emax y (S754_zero false).
Proof.
  rewrite !SFadd_zero_r.
  destruct x as [sx|sx| |sx mx ex], y as [sy|sy| |sy my ey]; cbn; intro E; try discriminate; try reflexivity;
    try (destruct sx; discriminate); try (destruct sy; discriminate).
  - destruct sx, sy; try discriminate; reflexivity.
  - destruct sx, sy; try discriminate;
      (destruct (Z.compare ex ey) eqn:Ee; try discriminate;
       apply Z.compare_eq in Ee; subst;
       destruct (Pos.compare_cont Eq mx my) eqn:Em; try discriminate;
       change (Pos.compare_cont Eq mx my) with (Pos.compare mx my) in Em;
       apply Pos.compare_eq in Em; subst; reflexivity).
Qed.

(* float == implies identical floats after + 0.0 *)
Theorem float_eq_same_bytes_after_plus_zero : forall a b : float,
  (a =? b) = true -> a + 0 = b + 0.
Proof.
  intros a b E. apply Prim2SF_inj. rewrite !FloatAxioms.add_spec. unfold SF64add.
  replace (Prim2SF 0) with (S754_zero false) by reflexivity.
  apply SFcompare_Eq_add_zero. rewrite FloatAxioms.eqb_spec in E. unfold SFeqb in E.
  destruct (SFcompare (Prim2SF a) (Prim2SF b)) as [[| |]|]; try discriminate. reflexivity.
Qed.
Print Assumptions float_eq_same_bytes_after_plus_zero.

(* without the + 0.0 the implication fails: 0.0 == -0.0 are different floats *)
Theorem float_eq_same_bytes_refuted : exists a b : float, (a =? b) = true /\ a <> b.
Proof.
  exists 0, (-0). split; [reflexivity|]. intro E. apply (f_equal Prim2SF) in E. discriminate E.
Qed.
