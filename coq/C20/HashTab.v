(* C20/HashTab.v -- syntax of the hash field tables that translate/c20_tables.py reads
   from every __hash__ method (hand-written, fixed), and their interpretation as keys. *)
From Coq Require Import ZArith List Bool String.
From Verif Require Import C20.Syntax.
Import ListNotations.

(* one element of the tuple given to hash(...) *)
Inductive hitem :=
| HType                       (* type(self) *)
| HClass                      (* a fixed class object (Weighting) *)
| HSuper                      (* super(C, self).__hash__() *)
| HAttr (a : string)          (* self.a *)
| HTupleOf (a : string)       (* tuple(self.a) *)
| HSetOf (a : string)         (* frozenset(self.a) *)
| HBytes (a : string)         (* self.a.tobytes() *)
| HBytesEach (a : string)            (* tuple(v.tobytes() for v in self.a) *)
| HBytesEachPlusZero (a : string).   (* tuple((v + 0.0).tobytes() for v in self.a) *)

Section Interp.
Context {T : Type}.
(* [ty]: key of type(self); [cls]: key of the fixed class; [super]: key of the inherited
   hash; [attr]: key of an attribute access in the given form (None: the model does not know it) *)
Variables (ty cls super : key T) (attr : hitem -> option (key T)).

Definition item_key (h : hitem) : key T :=
  match h with
  | HType => ty | HClass => cls | HSuper => super
  | _ => match attr h with Some k => k | None => KUnhashable end
  end.

(* hash(x) for a single item, hash((x1, ..., xn)) otherwise *)
Definition interp (l : list hitem) : key T :=
  match l with [h] => item_key h | _ => KTup (map item_key l) end.
End Interp.
