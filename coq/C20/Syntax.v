(* C20/Syntax.v -- descriptors of the objects whose __eq__/__hash__/__contains__
   the property speaks about (hand-written, fixed).  One descriptor = what the
   paired methods can observe of an object: class, constructor data, and an
   identity (Z) wherever the code compares by identity (weighting arrays,
   user callables).  T is the numeric carrier (R in proofs, Q when run). *)
From Coq Require Import ZArith List Bool.
Import ListNotations.

(* numpy scalar types that NumpyTensorSpace.available_dtypes() offers (float128/
   complex256 left out), plus the two non-numeric families *)
Inductive dtype := DBool | DInt8 | DInt16 | DInt32 | DInt64 | DUInt8 | DUInt16 | DUInt32 | DUInt64
  | DFloat16 | DFloat32 | DFloat64 | DComplex64 | DComplex128 | DStr | DObj.

Definition all_dtypes := [DBool; DInt8; DInt16; DInt32; DInt64; DUInt8; DUInt16; DUInt32; DUInt64;
  DFloat16; DFloat32; DFloat64; DComplex64; DComplex128; DStr; DObj].

Definition dtype_idx (d : dtype) : Z :=
  match d with DBool => 0 | DInt8 => 1 | DInt16 => 2 | DInt32 => 3 | DInt64 => 4 | DUInt8 => 5
  | DUInt16 => 6 | DUInt32 => 7 | DUInt64 => 8 | DFloat16 => 9 | DFloat32 => 10 | DFloat64 => 11
  | DComplex64 => 12 | DComplex128 => 13 | DStr => 14 | DObj => 15 end%Z.
Definition dtype_eqb (a b : dtype) : bool := Z.eqb (dtype_idx a) (dtype_idx b).

(* class family of a weighting object: NumpyTensorSpace*Weighting / ProductSpace*Weighting.
   Weighting.__eq__ never looks at it; two __hash__ implementations do. *)
Inductive wkind := KNpy | KPs.

(* the field attribute of a LinearSpace *)
Inductive ofield := FReal | FComplex | FNone.

Section Syn.
Context {T : Type}.

(* interval end points: floats incl. +-inf (NaN is rejected by IntervalProd.__init__) *)
Inductive ext := NInf | Fin (x : T) | PInf.

(* Weighting.exponent: a positive float or inf *)
Inductive expo := EFin (p : T) | EInf.

(* what a FiniteSet can hold (as far as ==/hash/in can tell): numbers (int, float and
   bool compare and hash alike), strings (by content id), None, and lists of numbers
   (compare by value, unhashable) *)
Inductive atom := ANum (x : T) | AStr (s : Z) | ANone | AList (l : list T).

Inductive weighting :=
| WConst (k : wkind) (c : T) (e : expo)        (* ConstWeighting *)
| WArray (k : wkind) (aid : Z) (e : expo)      (* ArrayWeighting: the array OBJECT aid *)
| WInner (k : wkind) (fid : Z)                 (* CustomInner, exponent 2.0 *)
| WNorm (k : wkind) (fid : Z)                  (* CustomNorm,  exponent 1.0 *)
| WDist (k : wkind) (fid : Z)                  (* CustomDist,  exponent 1.0 *)
| WMatrix (mid : Z) (e : expo).                (* MatrixWeighting (dense): the matrix OBJECT mid *)

(* NumpyTensorSpace(shape, dtype, weighting) *)
Record tsp := { ts_shape : list Z; ts_dtype : dtype; ts_w : weighting }.

(* RectPartition(IntervalProd(mins, maxs), RectGrid(p_grid)); p_intv = per-axis (min, max) *)
Record part := { p_intv : list (ext * ext); p_grid : list (list T) }.

Inductive obj :=
| OEmpty | OUniv | OStrings (n : Z) | OComplex | OReal | OInt
| OCart (l : list obj) | OUnion (l : list obj) | OInter (l : list obj)
| OFinite (els : list atom)
| OIntv (ends : list (ext * ext))              (* IntervalProd: per-axis (min, max) *)
| OGrid (vecs : list (list T))                 (* RectGrid *)
| OTensor (t : tsp)                            (* NumpyTensorSpace *)
| ODiscr (p : part) (t : tsp)                  (* DiscretizedSpace(partition, tspace) *)
| OProd (l : list obj) (w : weighting) (f : ofield).   (* ProductSpace *)

(* induction principle that reaches through the lists *)
Section Ind.
  Variable P : obj -> Prop.
  Hypothesis HEmpty : P OEmpty.
  Hypothesis HUniv : P OUniv.
  Hypothesis HStrings : forall n, P (OStrings n).
  Hypothesis HComplex : P OComplex.
  Hypothesis HReal : P OReal.
  Hypothesis HInt : P OInt.
  Hypothesis HCart : forall l, Forall P l -> P (OCart l).
  Hypothesis HUnion : forall l, Forall P l -> P (OUnion l).
  Hypothesis HInter : forall l, Forall P l -> P (OInter l).
  Hypothesis HFinite : forall els, P (OFinite els).
  Hypothesis HIntv : forall e, P (OIntv e).
  Hypothesis HGrid : forall v, P (OGrid v).
  Hypothesis HTensor : forall t, P (OTensor t).
  Hypothesis HDiscr : forall p t, P (ODiscr p t).
  Hypothesis HProd : forall l w f, Forall P l -> P (OProd l w f).

  Fixpoint obj_ind' (a : obj) : P a :=
    let fix go (l : list obj) : Forall P l :=
      match l with
      | [] => Forall_nil P
      | x :: l' => Forall_cons x (obj_ind' x) (go l')
      end in
    match a with
    | OEmpty => HEmpty | OUniv => HUniv | OStrings n => HStrings n
    | OComplex => HComplex | OReal => HReal | OInt => HInt
    | OCart l => HCart l (go l) | OUnion l => HUnion l (go l) | OInter l => HInter l (go l)
    | OFinite e => HFinite e | OIntv a => HIntv a | OGrid v => HGrid v
    | OTensor t => HTensor t | ODiscr p t => HDiscr p t
    | OProd l w f => HProd l w f (go l)
    end.
End Ind.

(* elements of spaces: the space descriptor they carry, an object identity, the data *)
Inductive elem :=
| ETens (sp : obj) (eid : Z) (data : list T)        (* NumpyTensor / DiscretizedSpaceElement *)
| EProd (sp : obj) (eid : Z) (parts : list elem).   (* ProductSpaceElement *)

Definition space_of (x : elem) : obj :=
  match x with ETens sp _ _ => sp | EProd sp _ _ => sp end.

(* the tuples the __hash__ methods build *)
Inductive key :=
| KTag (t : Z)            (* a class object or a fixed string such as impl='numpy' *)
| KNum (x : T) | KPInf | KNInf
| KZ (z : Z) | KStr (s : Z) | KNone
| KFun (fid : Z)          (* a callable, hashed by identity *)
| KBytes (aid : Z)        (* array.tobytes() of the array object aid *)
| KDType (d : dtype)
| KTup (l : list key)
| KSet (l : list key)     (* frozenset *)
| KUnhashable.            (* hash() raises TypeError *)

Section KInd.
  Variable P : key -> Prop.
  Hypothesis HLeaf : forall k, (forall l, k <> KTup l) -> (forall l, k <> KSet l) -> P k.
  Hypothesis HTup : forall l, Forall P l -> P (KTup l).
  Hypothesis HSet : forall l, Forall P l -> P (KSet l).
  Fixpoint key_ind' (k : key) : P k.
  Proof.
    refine (let fix go (l : list key) : Forall P l :=
      match l with [] => Forall_nil P | x :: l' => Forall_cons x (key_ind' x) (go l') end in _).
    destruct k; try (apply HLeaf; intros; discriminate).
    - apply HTup, go.
    - apply HSet, go.
  Defined.
End KInd.

End Syn.

Arguments ext T : clear implicits.
Arguments expo T : clear implicits.
Arguments atom T : clear implicits.
Arguments weighting T : clear implicits.
Arguments tsp T : clear implicits.
Arguments part T : clear implicits.
Arguments obj T : clear implicits.
Arguments elem T : clear implicits.
Arguments key T : clear implicits.

(* three-valued outcome of evaluating  a == b : True, False, or an exception *)
Inductive tri := TT | FF | EE.
Definition tri_of (b : bool) : tri := if b then TT else FF.
Definition andt (a b : tri) : tri := match a with TT => b | FF => FF | EE => EE end.
Definition tri_eqb (a b : tri) : bool :=
  match a, b with TT, TT | FF, FF | EE, EE => true | _, _ => false end.

(* class tags used inside hash keys *)
Definition tEmptySet := 1%Z. Definition tUniversalSet := 2%Z. Definition tStrings := 3%Z.
Definition tComplex := 4%Z. Definition tReal := 5%Z. Definition tIntegers := 6%Z.
Definition tCart := 7%Z. Definition tUnion := 8%Z. Definition tInter := 9%Z.
Definition tFinite := 10%Z. Definition tIntv := 11%Z. Definition tGrid := 12%Z.
Definition tNpyTensorSpace := 13%Z. Definition tDiscr := 14%Z. Definition tProd := 15%Z.
Definition tWeighting := 16%Z. Definition tImplNumpy := 17%Z. Definition tPartition := 18%Z.
Definition tNpyArrayWeighting := 19%Z.
