(* C20/EqTab.v -- syntax of the comparison tables that translate/c20_tables.py reads from
   every __eq__ / __contains__ method (hand-written, fixed), and their interpretation.

   An __eq__ has the form   [if other is self: return True  [elif <guard>: return False]*]
                            return c1 and c2 and ... and cn
   with conjuncts from the small grammar below; anything else is a TranslateError. *)
From Coq Require Import ZArith List Bool String.
From Verif Require Import C20.Syntax.
Import ListNotations.

Inductive eatom :=
| ESameType                              (* type(self) == type(other) / type(other) is type(self) *)
| EIsInstance (c : string)               (* isinstance(other, c) *)
| ESuper                                 (* super(C, self).__eq__(other) *)
| ELenEq                                 (* len(self) == len(other) *)
| EAttrEq (a : string) (self_first : bool)   (* self.a == other.a  /  other.a == self.a : exact == *)
| EAttrEqGetattr (a : string)            (* self.a == getattr(other, 'a', None) *)
| EAttrIs (a : string)                   (* self.a is getattr(other, 'a', None) *)
| ENpAllEq (a : string)                  (* np.all(self.a == other.a) *)
| EZipAllEq (a : string)                 (* all(x == y for x, y in zip(self.a, other.a)) *)
| EZipArrayEqual (a : string)            (* all(np.array_equal(u, v) for u, v in zip(self.a, other.a)) *)
| EAllIn (a : string) (self_in_other : bool)  (* all(s in other.a for s in self.a) / the converse *)
| EAllInObj (self_in_other : bool).      (* all(el in other for el in self) / the converse *)

Inductive eguard := GNone (* elif other is None: return False *) | GNot (a : eatom) (* elif not a: return False *).

Record eqtab := { eq_shortcut : bool (* if other is self: return True *);
                  eq_guards : list eguard; eq_atoms : list eatom }.

(* __contains__ *)
Inductive ctab := CSpaceEqSelf.          (* return getattr(other, 'space', None) == self *)

(* sequential conjunction; [sem] gives the outcome of each conjunct on the pair at hand
   (None: the model does not know this conjunct -> no lemma can be proved) *)
Fixpoint conj_t (sem : eatom -> option tri) (l : list eatom) : tri :=
  match l with
  | [] => TT
  | [a] => match sem a with Some t => t | None => EE end
  | a :: r => match sem a with Some t => andt t (conj_t sem r) | None => EE end
  end.

Definition guard_atoms (g : list eguard) : list eatom :=
  flat_map (fun x => match x with GNone => [] | GNot a => [a] end) g.

(* for two objects (so `other is None` is false); the `is` shortcut does not change the outcome
   because every class's == is reflexive (theorem eq_reflexive) *)
Definition interp_eq (sem : eatom -> option tri) (t : eqtab) : tri :=
  conj_t sem (guard_atoms (eq_guards t) ++ eq_atoms t).

(* every __eq__ begins by testing the class of other *)
Definition is_class_test (a : eatom) : bool :=
  match a with ESameType | EIsInstance _ | ESuper => true | _ => false end.
Definition has_class_test (t : eqtab) : bool :=
  match guard_atoms (eq_guards t) ++ eq_atoms t with a :: _ => is_class_test a | [] => false end.
