(* C20/Proofs.v -- lemmas about C20/Model.v (at the R instance). *)
From Coq Require Import ZArith List Bool Reals Lia Lra.
From Verif Require Import Base.Num Base.Check C20.Syntax C20.Model.
Import ListNotations.

(* ------------------------------------------------------------ leaves at R *)
Lemma Reqb_refl x : Reqb x x = true.
Proof. destruct (Reqb_spec x x); congruence. Qed.
Lemma Reqb_true x y : Reqb x y = true <-> x = y.
Proof. destruct (Reqb_spec x y); split; congruence. Qed.
Lemma neqb_R x y : @neqb R _ x y = true <-> x = y.
Proof. numR. apply Reqb_true. Qed.

Lemma all2_eq {A} (f : A -> A -> bool) :
  (forall x y, f x y = true <-> x = y) -> forall l m, all2 f l m = true <-> l = m.
Proof.
  intros Hf l; induction l as [|a l IH]; intros [|b m]; cbn; split; intro E; try congruence.
  - apply andb_true_iff in E as [E1 E2]. apply Hf in E1. apply IH in E2. congruence.
  - inversion E; subst. apply andb_true_iff; split; [apply Hf | apply IH]; reflexivity.
Qed.

Lemma dtype_eqb_eq a b : dtype_eqb a b = true <-> a = b.
Proof. destruct a, b; cbn; split; intro E; congruence. Qed.

Lemma Zs_eqb_eq a b : Zs_eqb a b = true <-> a = b.
Proof. apply all2_eq. intros; apply Z.eqb_eq. Qed.

Lemma ext_eqb_eq (a b : ext R) : ext_eqb a b = true <-> a = b.
Proof.
  destruct a, b; cbn; split; intro E; try congruence.
  - apply neqb_R in E; congruence.
  - inversion E; subst. apply neqb_R; reflexivity.
Qed.

Lemma expo_eqb_eq (a b : expo R) : expo_eqb a b = true <-> a = b.
Proof.
  destruct a, b; cbn; split; intro E; try congruence.
  - apply neqb_R in E; congruence.
  - inversion E; subst. apply neqb_R; reflexivity.
Qed.

Lemma atom_eqb_eq (a b : atom R) : atom_eqb a b = true <-> a = b.
Proof.
  destruct a, b; cbn; split; intro E; try congruence.
  - apply neqb_R in E; congruence.
  - inversion E; subst. apply neqb_R; reflexivity.
  - apply Z.eqb_eq in E; congruence.
  - inversion E; subst. apply Z.eqb_refl.
  - apply (all2_eq _ neqb_R) in E; congruence.
  - inversion E; subst. apply (all2_eq _ neqb_R); reflexivity.
Qed.

(* ------------------------------------------------------------ weightings *)
(* Weighting equality ignores the class family: it is equality of the stripped descriptor *)
Definition w_strip (w : weighting R) : weighting R :=
  match w with
  | WConst _ c e => WConst KNpy c e
  | WArray _ i e => WArray KNpy i e
  | WInner _ f => WInner KNpy f
  | WNorm _ f => WNorm KNpy f
  | WDist _ f => WDist KNpy f
  | WMatrix i e => WMatrix i e
  end.

Lemma one_ne_two : (IZR 1 <> IZR 2)%R.
Proof. intro E. apply eq_IZR in E. discriminate. Qed.

Lemma w_eqb_strip a b : w_eqb a b = true <-> w_strip a = w_strip b.
Proof.
  unfold w_eqb. rewrite andb_true_iff, expo_eqb_eq.
  destruct a, b; cbn; split; intro E; try (destruct E; congruence); try congruence.
  all: try (destruct E as [E1 E2]; first [apply neqb_R in E2 | apply Z.eqb_eq in E2]; congruence).
  all: try (inversion E; subst; split; [reflexivity | first [apply neqb_R | apply Z.eqb_refl]; reflexivity]).
Qed.

Definition tsp_strip (t : tsp R) : tsp R :=
  {| ts_shape := ts_shape t; ts_dtype := ts_dtype t; ts_w := w_strip (ts_w t) |}.

Lemma tsp_eqb_strip a b : tsp_eqb a b = true <-> tsp_strip a = tsp_strip b.
Proof.
  unfold tsp_eqb, tsp_strip. rewrite !andb_true_iff, Zs_eqb_eq, dtype_eqb_eq, w_eqb_strip.
  destruct a, b; cbn. split; [intros [[-> ->] ->]; reflexivity | intro E; inversion E; auto].
Qed.

Lemma tsp_eqb_refl a : tsp_eqb a a = true.
Proof. apply tsp_eqb_strip; reflexivity. Qed.
Lemma tsp_eqb_sym a b : tsp_eqb a b = tsp_eqb b a.
Proof.
  destruct (tsp_eqb a b) eqn:E1, (tsp_eqb b a) eqn:E2; try reflexivity.
  - apply tsp_eqb_strip in E1. symmetry in E1. apply tsp_eqb_strip in E1. congruence.
  - apply tsp_eqb_strip in E2. symmetry in E2. apply tsp_eqb_strip in E2. congruence.
Qed.

(* ------------------------------------------------------------ grids, intervals, partitions *)
Lemma map_length_eq {A} (a b : list (list A)) :
  all2 Nat.eqb (map (@length A) a) (map (@length A) b) = true -> length a = length b.
Proof.
  revert b; induction a as [|x a IH]; intros [|y b]; cbn; try congruence.
  intro E. apply andb_true_iff in E as [_ E]. f_equal; auto.
Qed.

Lemma grid_eqb_eq (a b : list (list R)) : grid_eqb a b = true <-> a = b.
Proof.
  unfold grid_eqb. split.
  - intro E. apply andb_true_iff in E as [_ E].
    apply (all2_eq _ (all2_eq _ neqb_R)) in E. exact E.
  - intros ->. apply andb_true_iff; split.
    + induction b as [|x b IH]; cbn; [reflexivity|]. rewrite Nat.eqb_refl. exact IH.
    + apply (all2_eq _ (all2_eq _ neqb_R)). reflexivity.
Qed.

Lemma map_fst_snd_eq {A B} (a b : list (A * B)) :
  map fst a = map fst b -> map snd a = map snd b -> a = b.
Proof.
  revert b; induction a as [|[x y] a IH]; intros [|[x' y'] b]; cbn; intros E1 E2; try congruence.
  inversion E1; inversion E2; subst. f_equal. auto.
Qed.

Section Guard.
Variable v : variants.
Hypothesis Hg : v_intv_guard v = true.

Lemma intv_eqt_TT (a b : list (ext R * ext R)) : intv_eqt v a b = TT <-> a = b.
Proof.
  unfold intv_eqt. rewrite Hg. split.
  - destruct (Nat.eqb (length a) (length b)); [|discriminate].
    destruct (all2 ext_eqb (map fst a) (map fst b)) eqn:E1; [|discriminate].
    destruct (all2 ext_eqb (map snd a) (map snd b)) eqn:E2; [|discriminate].
    intros _. apply (all2_eq _ ext_eqb_eq) in E1, E2. apply map_fst_snd_eq; assumption.
  - intros ->. rewrite Nat.eqb_refl.
    replace (all2 ext_eqb (map fst b) (map fst b)) with true by (symmetry; apply (all2_eq _ ext_eqb_eq); reflexivity).
    replace (all2 ext_eqb (map snd b) (map snd b)) with true by (symmetry; apply (all2_eq _ ext_eqb_eq); reflexivity).
    reflexivity.
Qed.

Lemma intv_eqt_noraise (a b : list (ext R * ext R)) : intv_eqt v a b <> EE.
Proof.
  unfold intv_eqt. rewrite Hg. destruct (Nat.eqb _ _); [|discriminate].
  destruct (_ && _); discriminate.
Qed.

Lemma part_eqt_TT (p q : part R) : part_eqt v p q = TT <-> p = q.
Proof.
  unfold part_eqt. destruct p as [pi pg], q as [qi qg]; cbn. split.
  - destruct (intv_eqt v pi qi) eqn:E1; cbn; try discriminate.
    destruct (grid_eqb pg qg) eqn:E2; cbn; try discriminate.
    intros _. apply intv_eqt_TT in E1. apply grid_eqb_eq in E2. congruence.
  - intro E; inversion E; subst.
    replace (intv_eqt v qi qi) with TT by (symmetry; apply intv_eqt_TT; reflexivity).
    replace (grid_eqb qg qg) with true by (symmetry; apply grid_eqb_eq; reflexivity). reflexivity.
Qed.

Lemma part_eqt_noraise (p q : part R) : part_eqt v p q <> EE.
Proof.
  unfold part_eqt. pose proof (intv_eqt_noraise (p_intv p) (p_intv q)).
  destruct (intv_eqt v _ _); cbn; try congruence. destruct (grid_eqb _ _); discriminate.
Qed.

End Guard.

(* ------------------------------------------------------------ the recursive part: unfolding lemmas *)
Section Unfold.
Variable v : variants.
Notation eqR := (@eqt R Num_R v).

(* sequential all(...) / any(...) over tri-valued tests *)
Fixpoint allt {A} (f : A -> tri) (l : list A) : tri :=
  match l with [] => TT | x :: l' => match f x with TT => allt f l' | r => r end end.
Fixpoint anyt {A} (f : A -> tri) (l : list A) : tri :=
  match l with [] => FF | x :: l' => match f x with FF => anyt f l' | r => r end end.
(* tuple comparison: items up to the shorter length, then the lengths *)
Fixpoint tupt {A} (f : A -> A -> tri) (l1 l2 : list A) : tri :=
  match l1, l2 with
  | [], [] => TT
  | [], _ :: _ => FF
  | _ :: _, [] => FF
  | x :: l1', y :: l2' => match f x y with TT => tupt f l1' l2' | r => r end
  end.
(* all(x == y for x, y in zip(l1, l2)) *)
Fixpoint zipt {A} (f : A -> A -> tri) (l1 l2 : list A) : tri :=
  match l1, l2 with
  | x :: l1', y :: l2' => match f x y with TT => zipt f l1' l2' | r => r end
  | _, _ => TT
  end.

Definition setlike_eqt (l1 l2 : list (obj R)) : tri :=
  andt (allt (fun s => anyt (fun t => eqR s t) l2) l1)
       (allt (fun t => anyt (fun s => eqR s t) l1) l2).

Lemma eqt_cart l1 l2 : eqR (OCart l1) (OCart l2) = tupt eqR l1 l2.
Proof.
  cbn [eqt]. revert l2. induction l1 as [|x l1 IH]; intros [|y l2]; cbn [tupt]; try reflexivity.
  destruct (eqR x y); try reflexivity. apply IH.
Qed.

Lemma setlike_unfold l1 l2 :
  andt
    ((fix all1 (l1 : list (obj R)) : tri :=
        match l1 with
        | [] => TT
        | s :: l1' =>
            match (fix any2 (l2 : list (obj R)) : tri :=
                     match l2 with
                     | [] => FF
                     | t :: l2' => match eqR s t with FF => any2 l2' | r => r end
                     end) l2
            with TT => all1 l1' | r => r end
        end) l1)
    ((fix all2' (l2 : list (obj R)) : tri :=
        match l2 with
        | [] => TT
        | t :: l2' =>
            match (fix any1 (l1 : list (obj R)) : tri :=
                     match l1 with
                     | [] => FF
                     | s :: l1' => match eqR s t with FF => any1 l1' | r => r end
                     end) l1
            with TT => all2' l2' | r => r end
        end) l2)
  = setlike_eqt l1 l2.
Proof.
  unfold setlike_eqt. f_equal.
  - induction l1 as [|s l1 IH]; cbn [allt]; [reflexivity|].
    assert (E : (fix any2 (l2 : list (obj R)) : tri :=
                   match l2 with [] => FF | t :: l2' => match eqR s t with FF => any2 l2' | r => r end end) l2
                = anyt (fun t => eqR s t) l2).
    { clear. induction l2 as [|t l2 IH]; cbn [anyt]; [reflexivity|]. destruct (eqR s t); try reflexivity. apply IH. }
    rewrite E. destruct (anyt _ l2); try reflexivity. apply IH.
  - induction l2 as [|t l2 IH]; cbn [allt]; [reflexivity|].
    assert (E : (fix any1 (l1 : list (obj R)) : tri :=
                   match l1 with [] => FF | s :: l1' => match eqR s t with FF => any1 l1' | r => r end end) l1
                = anyt (fun s => eqR s t) l1).
    { clear. induction l1 as [|s l1 IH]; cbn [anyt]; [reflexivity|]. destruct (eqR s t); try reflexivity. apply IH. }
    rewrite E. destruct (anyt _ l1); try reflexivity. apply IH.
Qed.

Lemma eqt_union l1 l2 : eqR (OUnion l1) (OUnion l2) = setlike_eqt l1 l2.
Proof. cbn [eqt]. apply setlike_unfold. Qed.
Lemma eqt_inter l1 l2 : eqR (OInter l1) (OInter l2) = setlike_eqt l1 l2.
Proof. cbn [eqt]. apply setlike_unfold. Qed.

Lemma eqt_prod l1 w1 f1 l2 w2 f2 :
  eqR (OProd l1 w1 f1) (OProd l2 w2 f2) =
  if negb (Nat.eqb (length l1) (length l2)) then FF
  else if negb (w_eqb w1 w2) then FF else zipt eqR l1 l2.
Proof.
  cbn [eqt]. destruct (negb (Nat.eqb _ _)); [reflexivity|]. destruct (negb (w_eqb _ _)); [reflexivity|].
  revert l2. induction l1 as [|x l1 IH]; intros [|y l2]; cbn [zipt]; try reflexivity.
  destruct (eqR x y); try reflexivity. apply IH.
Qed.

(* ---- generic facts about the sequential combinators ---- *)
Lemma allt_TT {A} (f : A -> tri) l : allt f l = TT <-> Forall (fun x => f x = TT) l.
Proof.
  induction l as [|x l IH]; cbn; split; intro E; auto.
  - destruct (f x) eqn:Ex; try discriminate. constructor; [assumption | apply IH, E].
  - inversion E as [|? ? Ex El]; subst. rewrite Ex. apply IH, El.
Qed.

Lemma anyt_TT_ex {A} (f : A -> tri) l : anyt f l = TT -> Exists (fun x => f x = TT) l.
Proof.
  induction l as [|x l IH]; cbn; [discriminate|].
  destruct (f x) eqn:Ex; intro E; try discriminate.
  - left; assumption.
  - right; auto.
Qed.

Lemma anyt_ex_TT {A} (f : A -> tri) l :
  Forall (fun x => f x <> EE) l -> Exists (fun x => f x = TT) l -> anyt f l = TT.
Proof.
  induction l as [|x l IH]; cbn; intros Hn He; [inversion He|].
  inversion Hn as [|? ? Hx Hl]; subst.
  destruct (f x) eqn:Ex; try congruence.
  inversion He as [? ? E|? ? E]; subst; [congruence | auto].
Qed.

Lemma allt_noraise {A} (f : A -> tri) l : Forall (fun x => f x <> EE) l -> allt f l <> EE.
Proof.
  induction l as [|x l IH]; cbn; intro Hn; [discriminate|].
  inversion Hn as [|? ? Hx Hl]; subst. destruct (f x); try congruence. auto.
Qed.
Lemma anyt_noraise {A} (f : A -> tri) l : Forall (fun x => f x <> EE) l -> anyt f l <> EE.
Proof.
  induction l as [|x l IH]; cbn; intro Hn; [discriminate|].
  inversion Hn as [|? ? Hx Hl]; subst. destruct (f x); try congruence. auto.
Qed.

End Unfold.

(* ------------------------------------------------------------ equivalence under the ndim guard *)
Section Equiv.
Variable v : variants.
Hypothesis Hg : v_intv_guard v = true.
Notation eqR := (@eqt R Num_R v).

Lemma tri_of_noraise b : tri_of b <> EE.
Proof. destruct b; discriminate. Qed.
Lemma tri_of_TT b : tri_of b = TT <-> b = true.
Proof. destruct b; cbn; split; congruence. Qed.
Lemma andt_noraise a b : a <> EE -> b <> EE -> andt a b <> EE.
Proof. destruct a; cbn; congruence. Qed.
Lemma andt_TT a b : andt a b = TT <-> a = TT /\ b = TT.
Proof. destruct a; cbn; split; intro E; try tauto; try (destruct E; congruence); try congruence. Qed.

Lemma tupt_noraise (l1 : list (obj R)) :
  Forall (fun x => forall y, eqR x y <> EE) l1 -> forall l2, tupt eqR l1 l2 <> EE.
Proof.
  induction 1 as [|x l1 Hx Hl IH]; intros [|y l2]; cbn [tupt]; try discriminate.
  specialize (Hx y). destruct (eqR x y); try congruence; try apply IH.
Qed.
Lemma zipt_noraise (l1 : list (obj R)) :
  Forall (fun x => forall y, eqR x y <> EE) l1 -> forall l2, zipt eqR l1 l2 <> EE.
Proof.
  induction 1 as [|x l1 Hx Hl IH]; intros [|y l2]; cbn [zipt]; try discriminate.
  specialize (Hx y). destruct (eqR x y); try congruence; try apply IH.
Qed.

Lemma setlike_noraise (l1 l2 : list (obj R)) :
  Forall (fun x => forall y, eqR x y <> EE) l1 -> setlike_eqt v l1 l2 <> EE.
Proof.
  intro H1. unfold setlike_eqt. apply andt_noraise.
  - apply allt_noraise. rewrite Forall_forall in *. intros s Hs.
    apply anyt_noraise. rewrite Forall_forall. intros t _. apply H1, Hs.
  - apply allt_noraise. rewrite Forall_forall. intros t _.
    apply anyt_noraise. rewrite Forall_forall in *. intros s Hs. apply H1, Hs.
Qed.

Lemma eqt_noraise : forall a b : obj R, eqR a b <> EE.
Proof.
  induction a as [| |n| | | |l IH|l IH|l IH|els|e|g|t|p t|l w f IH] using obj_ind'; intro b;
    destruct b; try (cbn; discriminate).
  - cbn. apply tri_of_noraise.
  - rewrite eqt_cart. apply tupt_noraise, IH.
  - rewrite eqt_union. apply setlike_noraise, IH.
  - rewrite eqt_inter. apply setlike_noraise, IH.
  - cbn. apply tri_of_noraise.
  - cbn. apply intv_eqt_noraise, Hg.
  - cbn. apply tri_of_noraise.
  - cbn. apply tri_of_noraise.
  - cbn [eqt]. apply andt_noraise; [apply tri_of_noraise|].
    apply andt_noraise; [apply tri_of_noraise | apply part_eqt_noraise, Hg].
  - rewrite eqt_prod. destruct (negb _); [discriminate|]. destruct (negb _); [discriminate|].
    apply zipt_noraise, IH.
Qed.

(* ---- reflexivity ---- *)
Lemma tupt_refl (l : list (obj R)) : Forall (fun x => eqR x x = TT) l -> tupt eqR l l = TT.
Proof. induction 1 as [|x l Hx Hl IH]; cbn; [reflexivity|]. rewrite Hx. exact IH. Qed.
Lemma zipt_refl (l : list (obj R)) : Forall (fun x => eqR x x = TT) l -> zipt eqR l l = TT.
Proof. induction 1 as [|x l Hx Hl IH]; cbn; [reflexivity|]. rewrite Hx. exact IH. Qed.

Lemma Forall_all_noraise (l : list (obj R)) (f : obj R -> obj R -> tri) :
  (forall a b, f a b <> EE) -> forall t, Forall (fun s => f s t <> EE) l.
Proof. intros Hf t. apply Forall_forall. intros; apply Hf. Qed.

Lemma setlike_refl (l : list (obj R)) : Forall (fun x => eqR x x = TT) l -> setlike_eqt v l l = TT.
Proof.
  intro Hl. unfold setlike_eqt. apply andt_TT; split; apply allt_TT; rewrite Forall_forall in *; intros s Hs.
  - apply anyt_ex_TT.
    + apply Forall_forall; intros; apply eqt_noraise.
    + apply Exists_exists. exists s; split; [assumption | apply Hl, Hs].
  - apply anyt_ex_TT.
    + apply Forall_forall; intros; apply eqt_noraise.
    + apply Exists_exists. exists s; split; [assumption | apply Hl, Hs].
Qed.

Lemma existsb_refl_atom (els : list (atom R)) x : In x els -> existsb (fun y => atom_eqb y x) els = true.
Proof. intro Hx. apply existsb_exists. exists x; split; [assumption | apply atom_eqb_eq; reflexivity]. Qed.

Lemma eqt_refl : forall a : obj R, eqR a a = TT.
Proof.
  induction a as [| |n| | | |l IH|l IH|l IH|els|e|g|t|p t|l w f IH] using obj_ind'; try reflexivity.
  - cbn. rewrite Z.eqb_refl. reflexivity.
  - rewrite eqt_cart. apply tupt_refl, IH.
  - rewrite eqt_union. apply setlike_refl, IH.
  - rewrite eqt_inter. apply setlike_refl, IH.
  - cbn. apply tri_of_TT, andb_true_iff; split; apply forallb_forall; intros x Hx; apply existsb_refl_atom, Hx.
  - cbn. apply (intv_eqt_TT v Hg). reflexivity.
  - cbn. apply tri_of_TT, grid_eqb_eq. reflexivity.
  - cbn. apply tri_of_TT, tsp_eqb_refl.
  - cbn [eqt]. apply andt_TT; split.
    + apply tri_of_TT, andb_true_iff; split; [apply Zs_eqb_eq | apply dtype_eqb_eq]; reflexivity.
    + apply andt_TT; split; [apply tri_of_TT, tsp_eqb_refl | apply (part_eqt_TT v Hg); reflexivity].
  - rewrite eqt_prod. rewrite Nat.eqb_refl. cbn [negb].
    replace (w_eqb w w) with true by (symmetry; apply w_eqb_strip; reflexivity). cbn [negb].
    apply zipt_refl, IH.
Qed.

(* ---- symmetry ---- *)
Lemma w_eqb_sym (a b : weighting R) : w_eqb a b = w_eqb b a.
Proof.
  destruct (w_eqb a b) eqn:E1, (w_eqb b a) eqn:E2; try reflexivity.
  - apply w_eqb_strip in E1. symmetry in E1. apply w_eqb_strip in E1. congruence.
  - apply w_eqb_strip in E2. symmetry in E2. apply w_eqb_strip in E2. congruence.
Qed.

Lemma tupt_sym (l1 : list (obj R)) :
  Forall (fun x => forall y, eqR x y = TT -> eqR y x = TT) l1 ->
  forall l2, tupt eqR l1 l2 = TT -> tupt eqR l2 l1 = TT.
Proof.
  induction 1 as [|x l1 Hx Hl IH]; intros [|y l2]; cbn [tupt]; try discriminate; auto.
  destruct (eqR x y) eqn:E; try discriminate. intro E2. rewrite (Hx _ E). apply IH, E2.
Qed.
Lemma zipt_sym (l1 : list (obj R)) :
  Forall (fun x => forall y, eqR x y = TT -> eqR y x = TT) l1 ->
  forall l2, zipt eqR l1 l2 = TT -> zipt eqR l2 l1 = TT.
Proof.
  induction 1 as [|x l1 Hx Hl IH]; intros [|y l2]; cbn [zipt]; try discriminate; auto.
  destruct (eqR x y) eqn:E; try discriminate. intro E2. rewrite (Hx _ E). apply IH, E2.
Qed.

(* the meaning of the two-sided membership test once nothing raises *)
Lemma setlike_TT (l1 l2 : list (obj R)) :
  setlike_eqt v l1 l2 = TT <->
  (forall s, In s l1 -> exists t, In t l2 /\ eqR s t = TT) /\
  (forall t, In t l2 -> exists s, In s l1 /\ eqR s t = TT).
Proof.
  unfold setlike_eqt. rewrite andt_TT, !allt_TT, !Forall_forall. split; intros [H1 H2]; split.
  - intros s Hs. apply H1, anyt_TT_ex, Exists_exists in Hs. exact Hs.
  - intros t Ht. apply H2, anyt_TT_ex, Exists_exists in Ht. exact Ht.
  - intros s Hs. apply anyt_ex_TT; [apply Forall_forall; intros; apply eqt_noraise|].
    apply Exists_exists, H1, Hs.
  - intros t Ht. apply anyt_ex_TT; [apply Forall_forall; intros; apply eqt_noraise|].
    apply Exists_exists, H2, Ht.
Qed.

Lemma setlike_sym (l1 l2 : list (obj R)) :
  Forall (fun x => forall y, eqR x y = TT -> eqR y x = TT) l1 ->
  setlike_eqt v l1 l2 = TT -> setlike_eqt v l2 l1 = TT.
Proof.
  intro IH. rewrite Forall_forall in IH. rewrite !setlike_TT. intros [H1 H2]; split.
  - intros t Ht. destruct (H2 t Ht) as [s [Hs E]]. exists s; split; [assumption | apply IH; assumption].
  - intros s Hs. destruct (H1 s Hs) as [t [Ht E]]. exists t; split; [assumption | apply IH; assumption].
Qed.

Lemma eqt_sym_TT : forall a b : obj R, eqR a b = TT -> eqR b a = TT.
Proof.
  induction a as [| |n| | | |l IH|l IH|l IH|els|e|g|t|p t|l w f IH] using obj_ind'; intro b;
    destruct b; try (cbn; discriminate); try (cbn; reflexivity).
  - cbn. rewrite Z.eqb_sym. auto.
  - rewrite !eqt_cart. apply tupt_sym, IH.
  - rewrite !eqt_union. apply setlike_sym, IH.
  - rewrite !eqt_inter. apply setlike_sym, IH.
  - cbn. rewrite andb_comm. auto.
  - cbn. rewrite !(intv_eqt_TT v Hg). congruence.
  - cbn. rewrite !tri_of_TT, !grid_eqb_eq. congruence.
  - cbn. rewrite (tsp_eqb_sym t). auto.
  - cbn [eqt]. rewrite !andt_TT, !tri_of_TT, !(part_eqt_TT v Hg), !andb_true_iff, !Zs_eqb_eq, !dtype_eqb_eq.
    rewrite (tsp_eqb_sym t0 t). intuition congruence.
  - rewrite !eqt_prod. rewrite (Nat.eqb_sym (length l0)), (w_eqb_sym w0).
    destruct (negb _); [discriminate|]. destruct (negb _); [discriminate|]. apply zipt_sym, IH.
Qed.

Theorem eqt_sym (a b : obj R) : eqR a b = eqR b a.
Proof.
  pose proof (eqt_noraise a b). pose proof (eqt_noraise b a).
  destruct (eqR a b) eqn:E1, (eqR b a) eqn:E2; try congruence.
  - apply eqt_sym_TT in E1. congruence.
  - apply eqt_sym_TT in E2. congruence.
Qed.

(* ---- transitivity ---- *)
Lemma w_eqb_trans (a b c : weighting R) : w_eqb a b = true -> w_eqb b c = true -> w_eqb a c = true.
Proof. rewrite !w_eqb_strip. congruence. Qed.
Lemma tsp_eqb_trans (a b c : tsp R) : tsp_eqb a b = true -> tsp_eqb b c = true -> tsp_eqb a c = true.
Proof. rewrite !tsp_eqb_strip. congruence. Qed.

Lemma tupt_trans (l1 : list (obj R)) :
  Forall (fun x => forall y z, eqR x y = TT -> eqR y z = TT -> eqR x z = TT) l1 ->
  forall l2 l3, tupt eqR l1 l2 = TT -> tupt eqR l2 l3 = TT -> tupt eqR l1 l3 = TT.
Proof.
  induction 1 as [|x l1 Hx Hl IH]; intros [|y l2] [|z l3]; cbn [tupt]; try discriminate; auto.
  destruct (eqR x y) eqn:E; try discriminate. destruct (eqR y z) eqn:E'; try discriminate.
  intros E2 E3. rewrite (Hx _ _ E E'). eapply IH; eassumption.
Qed.
Lemma zipt_len_trans (l1 : list (obj R)) :
  Forall (fun x => forall y z, eqR x y = TT -> eqR y z = TT -> eqR x z = TT) l1 ->
  forall l2 l3, length l1 = length l2 -> zipt eqR l1 l2 = TT -> zipt eqR l2 l3 = TT -> zipt eqR l1 l3 = TT.
Proof.
  induction 1 as [|x l1 Hx Hl IH]; intros [|y l2] [|z l3]; cbn [zipt length]; try discriminate; auto.
  intro L. destruct (eqR x y) eqn:E; try discriminate. destruct (eqR y z) eqn:E'; try discriminate.
  intros E2 E3. rewrite (Hx _ _ E E'). eapply IH; try eassumption. lia.
Qed.

Lemma setlike_trans (l1 l2 l3 : list (obj R)) :
  Forall (fun x => forall y z, eqR x y = TT -> eqR y z = TT -> eqR x z = TT) l1 ->
  setlike_eqt v l1 l2 = TT -> setlike_eqt v l2 l3 = TT -> setlike_eqt v l1 l3 = TT.
Proof.
  intro IH. rewrite Forall_forall in IH. rewrite !setlike_TT. intros [A1 A2] [B1 B2]; split.
  - intros s Hs. destruct (A1 s Hs) as [t [Ht E]]. destruct (B1 t Ht) as [u [Hu E']].
    exists u; split; [assumption | eapply IH; eassumption].
  - intros u Hu. destruct (B2 u Hu) as [t [Ht E']]. destruct (A2 t Ht) as [s [Hs E]].
    exists s; split; [assumption | eapply IH; eassumption].
Qed.

Lemma finite_TT (e1 e2 : list (atom R)) :
  forallb (fun x => existsb (fun y => atom_eqb y x) e2) e1 &&
  forallb (fun y => existsb (fun x => atom_eqb x y) e1) e2 = true <->
  (forall x, In x e1 <-> In x e2).
Proof.
  rewrite andb_true_iff, !forallb_forall. split.
  - intros [H1 H2] x; split; intro Hx.
    + apply H1, existsb_exists in Hx. destruct Hx as [y [Hy E]]. apply atom_eqb_eq in E. congruence.
    + apply H2, existsb_exists in Hx. destruct Hx as [y [Hy E]]. apply atom_eqb_eq in E. congruence.
  - intro Hx. split; intros x Hin; apply existsb_exists; exists x; (split; [apply Hx, Hin | apply atom_eqb_eq; reflexivity]).
Qed.

Theorem eqt_trans : forall a b c : obj R, eqR a b = TT -> eqR b c = TT -> eqR a c = TT.
Proof.
  induction a as [| |n| | | |l IH|l IH|l IH|els|e|g|t|p t|l w f IH] using obj_ind'; intros b c;
    destruct b; try (cbn; discriminate); destruct c; try (cbn; discriminate); try (cbn; reflexivity).
  - cbn. rewrite !tri_of_TT, !Z.eqb_eq. congruence.
  - rewrite !eqt_cart. apply tupt_trans, IH.
  - rewrite !eqt_union. apply setlike_trans, IH.
  - rewrite !eqt_inter. apply setlike_trans, IH.
  - cbn. rewrite !tri_of_TT, !finite_TT. intros A B x. rewrite A. apply B.
  - cbn. rewrite !(intv_eqt_TT v Hg). congruence.
  - cbn. rewrite !tri_of_TT, !grid_eqb_eq. congruence.
  - cbn. rewrite !tri_of_TT. apply tsp_eqb_trans.
  - cbn [eqt]. rewrite !andt_TT, !tri_of_TT, !(part_eqt_TT v Hg), !andb_true_iff, !Zs_eqb_eq, !dtype_eqb_eq.
    intros [[A1 A2] [A3 A4]] [[B1 B2] [B3 B4]]. repeat split; try congruence.
    eapply tsp_eqb_trans; eassumption.
  - rewrite !eqt_prod.
    destruct (Nat.eqb (length l) (length l0)) eqn:L1; [|discriminate].
    destruct (Nat.eqb (length l0) (length l1)) eqn:L2; [|discriminate].
    apply Nat.eqb_eq in L1, L2. replace (Nat.eqb (length l) (length l1)) with true by (symmetry; apply Nat.eqb_eq; lia).
    cbn [negb]. destruct (w_eqb w w0) eqn:W1; [|discriminate]. destruct (w_eqb w0 w1) eqn:W2; [|discriminate].
    rewrite (w_eqb_trans _ _ _ W1 W2). cbn [negb]. apply zipt_len_trans; assumption.
Qed.

End Equiv.

(* ------------------------------------------------------------ hash keys *)
Section Keys.
Notation keqR := (@key_eqv R Num_R).

Lemma key_eqv_tup l1 l2 : keqR (KTup l1) (KTup l2) = all2 keqR l1 l2.
Proof.
  cbn [key_eqv]. revert l2. induction l1 as [|x l1 IH]; intros [|y l2]; cbn [all2]; try reflexivity.
  rewrite IH. reflexivity.
Qed.

Definition kset_eqv (l1 l2 : list (key R)) : bool :=
  forallb (fun s => existsb (fun t => keqR s t) l2) l1 && forallb (fun t => existsb (fun s => keqR s t) l1) l2.

Lemma key_eqv_set l1 l2 : keqR (KSet l1) (KSet l2) = kset_eqv l1 l2.
Proof. reflexivity. Qed.

Lemma all2_refl {A} (f : A -> A -> bool) l : Forall (fun x => f x x = true) l -> all2 f l l = true.
Proof. induction 1 as [|x l Hx Hl IH]; cbn; [reflexivity|]. rewrite Hx. exact IH. Qed.

Lemma key_eqv_refl : forall k : key R, keqR k k = true.
Proof.
  induction k as [k Ht Hs|l IH|l IH] using key_ind'.
  - destruct k; try (exfalso; eapply Ht; reflexivity); try (exfalso; eapply Hs; reflexivity);
      cbn; try reflexivity; try apply Z.eqb_refl;
      try (apply neqb_R; reflexivity); try (apply dtype_eqb_eq; reflexivity).
  - rewrite key_eqv_tup. apply all2_refl, IH.
  - rewrite key_eqv_set. unfold kset_eqv. rewrite Forall_forall in IH.
    apply andb_true_iff; split; apply forallb_forall; intros x Hx; apply existsb_exists; exists x; auto.
Qed.

Lemma key_eqv_of_eq (a b : key R) : a = b -> keqR a b = true.
Proof. intros ->. apply key_eqv_refl. Qed.

End Keys.

Section HashConsistency.
Variable v : variants.
Hypothesis Hg : v_intv_guard v = true.
Hypothesis Hh : v_arrw_hash_type v = false.
Notation eqR := (@eqt R Num_R v).
Notation keqR := (@key_eqv R Num_R).
Notation hk := (@hash_key R Num_R v).

Lemma w_key_strip (w : weighting R) : w_key v w = w_key v (w_strip w).
Proof. destruct w as [k c e|k i e|k f|k f|k f|i e]; try reflexivity. destruct k; cbn; rewrite ?Hh; reflexivity. Qed.

Lemma w_eqb_key (a b : weighting R) : w_eqb a b = true -> w_key v a = w_key v b.
Proof. intro E. apply w_eqb_strip in E. rewrite (w_key_strip a), (w_key_strip b), E. reflexivity. Qed.

Lemma tsp_eqb_key (a b : tsp R) : tsp_eqb a b = true -> tsp_key v a = tsp_key v b.
Proof.
  unfold tsp_eqb, tsp_key. rewrite !andb_true_iff, Zs_eqb_eq, dtype_eqb_eq.
  intros [[-> ->] E]. rewrite (w_eqb_key _ _ E). reflexivity.
Qed.

Lemma tupt_keys (l1 : list (obj R)) :
  Forall (fun x => forall y, eqR x y = TT -> keqR (hk x) (hk y) = true) l1 ->
  forall l2, tupt eqR l1 l2 = TT -> all2 keqR (map hk l1) (map hk l2) = true.
Proof.
  induction 1 as [|x l1 Hx Hl IH]; intros [|y l2]; cbn [tupt map all2]; try discriminate; auto.
  destruct (eqR x y) eqn:E; try discriminate. intro E2. rewrite (Hx _ E). apply IH, E2.
Qed.
Lemma zipt_keys (l1 : list (obj R)) :
  Forall (fun x => forall y, eqR x y = TT -> keqR (hk x) (hk y) = true) l1 ->
  forall l2, length l1 = length l2 -> zipt eqR l1 l2 = TT -> all2 keqR (map hk l1) (map hk l2) = true.
Proof.
  induction 1 as [|x l1 Hx Hl IH]; intros [|y l2]; cbn [zipt map all2 length]; try discriminate; auto.
  intro L. destruct (eqR x y) eqn:E; try discriminate. intro E2. rewrite (Hx _ E). apply IH; [lia | exact E2].
Qed.

Lemma setlike_keys (l1 l2 : list (obj R)) :
  Forall (fun x => forall y, eqR x y = TT -> keqR (hk x) (hk y) = true) l1 ->
  setlike_eqt v l1 l2 = TT -> kset_eqv (map hk l1) (map hk l2) = true.
Proof.
  intro IH. rewrite Forall_forall in IH. rewrite (setlike_TT v Hg). intros [H1 H2].
  unfold kset_eqv. apply andb_true_iff; split; apply forallb_forall; intros k Hk;
    apply in_map_iff in Hk; destruct Hk as [x [<- Hx]]; apply existsb_exists.
  - destruct (H1 x Hx) as [t [Ht E]]. exists (hk t); split; [apply in_map, Ht | apply IH; assumption].
  - destruct (H2 x Hx) as [s [Hs E]]. exists (hk s); split; [apply in_map, Hs | apply IH; assumption].
Qed.

Theorem eqt_hash_key : forall a b : obj R, eqR a b = TT -> keqR (hk a) (hk b) = true.
Proof.
  induction a as [| |n| | | |l IH|l IH|l IH|els|e|g|t|p t|l w f IH] using obj_ind'; intro b;
    destruct b; try (cbn; discriminate); try (cbn; reflexivity).
  - cbn [eqt]. rewrite tri_of_TT, Z.eqb_eq. intros ->. apply key_eqv_refl.
  - rewrite eqt_cart. intro E. cbn [hash_key]. rewrite key_eqv_tup. cbn [all2].
    rewrite key_eqv_tup, (tupt_keys _ IH _ E). reflexivity.
  - rewrite eqt_union. intro E. cbn [hash_key]. rewrite key_eqv_tup. cbn [all2].
    rewrite key_eqv_set, (setlike_keys _ _ IH E). reflexivity.
  - rewrite eqt_inter. intro E. cbn [hash_key]. rewrite key_eqv_tup. cbn [all2].
    rewrite key_eqv_set, (setlike_keys _ _ IH E). reflexivity.
  - cbn [eqt]. rewrite tri_of_TT, finite_TT. intro E. cbn [hash_key]. rewrite key_eqv_tup. cbn [all2].
    rewrite key_eqv_set.
    assert (K : kset_eqv (map atom_key els) (map atom_key els0) = true).
    { unfold kset_eqv. apply andb_true_iff; split; apply forallb_forall; intros k Hk;
      apply in_map_iff in Hk; destruct Hk as [x [<- Hx]]; apply existsb_exists;
      exists (atom_key x); (split; [apply in_map, E, Hx | apply key_eqv_refl]). }
    rewrite K. reflexivity.
  - cbn [eqt]. rewrite (intv_eqt_TT v Hg). intro E; inversion E; subst. apply key_eqv_refl.
  - cbn [eqt]. rewrite tri_of_TT, grid_eqb_eq. intros ->. apply key_eqv_refl.
  - cbn [eqt]. rewrite tri_of_TT. intro E. cbn [hash_key]. rewrite (tsp_eqb_key _ _ E). apply key_eqv_refl.
  - cbn [eqt]. rewrite !andt_TT, !tri_of_TT, (part_eqt_TT v Hg), andb_true_iff, Zs_eqb_eq, dtype_eqb_eq.
    intros [[A1 A2] [A3 A4]]. cbn [hash_key]. rewrite A1, A2, (tsp_eqb_key _ _ A3), A4. apply key_eqv_refl.
  - rewrite eqt_prod.
    destruct (Nat.eqb (length l) (length l0)) eqn:L1; [|discriminate]. cbn [negb].
    destruct (w_eqb w w0) eqn:W1; [|discriminate]. cbn [negb]. intro E.
    apply Nat.eqb_eq in L1. cbn [hash_key]. rewrite key_eqv_tup. cbn [all2].
    rewrite key_eqv_tup, (zipt_keys _ IH _ L1 E), (w_eqb_key _ _ W1), !key_eqv_refl. reflexivity.
Qed.

End HashConsistency.

(* equivalent keys are hashable together *)
Section Hashable.
Notation keqR := (@key_eqv R Num_R).
Notation hashR := (@hashable R).

Lemma hashable_tup (l : list (key R)) : hashR (KTup l) = forallb hashR l.
Proof. cbn [hashable]. induction l as [|x l IH]; cbn [forallb]; [reflexivity|]. rewrite IH. reflexivity. Qed.
Lemma hashable_set (l : list (key R)) : hashR (KSet l) = forallb hashR l.
Proof. cbn [hashable]. induction l as [|x l IH]; cbn [forallb]; [reflexivity|]. rewrite IH. reflexivity. Qed.

Lemma key_eqv_hashable : forall a b : key R, keqR a b = true -> hashR a = hashR b.
Proof.
  induction a as [k Ht Hs|l IH|l IH] using key_ind'; intros b E.
  - destruct k, b; cbn in E; try discriminate; try reflexivity.
    + exfalso; eapply Ht; reflexivity.
    + exfalso; eapply Hs; reflexivity.
  - destruct b; try discriminate. rewrite key_eqv_tup in E. rewrite !hashable_tup.
    revert l0 E. induction IH as [|x l Hx Hl IHl]; intros [|y l0]; cbn [all2 forallb]; try discriminate; auto.
    intro E. apply andb_true_iff in E as [E1 E2]. rewrite (Hx _ E1), (IHl _ E2). reflexivity.
  - destruct b; try discriminate. rewrite key_eqv_set in E. rewrite !hashable_set.
    unfold kset_eqv in E. apply andb_true_iff in E as [E1 E2]. rewrite forallb_forall in E1, E2.
    rewrite Forall_forall in IH.
    destruct (forallb hashR l) eqn:A, (forallb hashR l0) eqn:B; try reflexivity; exfalso.
    + (* some t in l0 unhashable; it is equivalent to an s in l *)
      assert (forallb hashR l0 = true); [|congruence].
      apply forallb_forall. intros t Ht. apply E2, existsb_exists in Ht. destruct Ht as [s [Hs Est]].
      rewrite <- (IH s Hs t Est). rewrite forallb_forall in A. apply A, Hs.
    + assert (forallb hashR l = true); [|congruence].
      apply forallb_forall. intros s Hs. pose proof (E1 s Hs) as Ex. apply existsb_exists in Ex.
      destruct Ex as [t [Ht Est]]. rewrite (IH s Hs t Est). rewrite forallb_forall in B. apply B, Ht.
Qed.
End Hashable.

(* ------------------------------------------------------------ refutations for the current variants *)
Section Refuted.
Notation eqC := (@eqt R Num_R old_variants).
Notation keqR := (@key_eqv R Num_R).
Notation hkC := (@hash_key R Num_R old_variants).

Definition I01 : ext R * ext R := (Fin 0%R, Fin 1%R).
Definition Ind (n : nat) : obj R := OIntv (repeat I01 n).

Lemma Reqb_01 : Reqb 0 1 = false.
Proof. destruct (Reqb_spec 0 1) as [E|E]; [exfalso; lra | reflexivity]. Qed.

(* IntervalProd(0, 1) == IntervalProd([0,0,0], [1,1,1]) by broadcasting ... *)
Lemma intv_1_3_equal : eqC (Ind 1) (Ind 3) = TT.
Proof. cbn. numR. rewrite !Reqb_refl. reflexivity. Qed.
(* ... but the hashed tuples have different lengths *)
Lemma intv_1_3_keys : keqR (hkC (Ind 1)) (hkC (Ind 3)) = false.
Proof. cbn. numR. rewrite ?Reqb_refl. reflexivity. Qed.
Lemma intv_2_1_equal : eqC (Ind 2) (Ind 1) = TT.
Proof. cbn. numR. rewrite !Reqb_refl. reflexivity. Qed.
(* ndim 2 against ndim 3: NumPy cannot broadcast, the comparison raises *)
Lemma intv_2_3_raises : eqC (Ind 2) (Ind 3) = EE.
Proof. reflexivity. Qed.
(* SetUnion(I2, I3) == SetUnion(I2, I3) raises while testing I3 against I2 *)
Lemma union_self_raises : eqC (OUnion [Ind 2; Ind 3]) (OUnion [Ind 2; Ind 3]) = EE.
Proof.
  assert (E22 : eqC (Ind 2) (Ind 2) = TT) by (cbn; numR; rewrite !Reqb_refl; reflexivity).
  assert (E32 : eqC (Ind 3) (Ind 2) = EE) by reflexivity.
  rewrite eqt_union. unfold setlike_eqt. cbn [allt anyt]. rewrite E22, E32. reflexivity.
Qed.

(* array weightings of the two class families sharing one array object *)
Lemma arrw_equal : @w_eqb R Num_R (WArray KNpy 1 (EFin 2%R)) (WArray KPs 1 (EFin 2%R)) = true.
Proof. apply w_eqb_strip. reflexivity. Qed.
Lemma arrw_keys : keqR (w_key old_variants (WArray KNpy 1 (EFin 2%R)))
                       (w_key old_variants (WArray KPs 1 (EFin 2%R))) = false.
Proof. reflexivity. Qed.
End Refuted.

(* ------------------------------------------------------------ statements as used by Props.v *)
Lemma eqt_hash_full v : v_intv_guard v = true -> v_arrw_hash_type v = false ->
  forall a b : obj R, @eqt R _ v a b = TT ->
  @key_eqv R _ (hash_key v a) (hash_key v b) = true /\
  hashable (@hash_key R _ v a) = hashable (@hash_key R _ v b).
Proof.
  intros Hg Hh a b E. pose proof (eqt_hash_key v Hg Hh a b E) as K.
  split; [exact K | exact (key_eqv_hashable _ _ K)].
Qed.

Lemma w_equiv (a b c : weighting R) :
  w_eqb a a = true /\ w_eqb a b = w_eqb b a /\
  (w_eqb a b = true -> w_eqb b c = true -> w_eqb a c = true).
Proof. split; [apply w_eqb_strip; reflexivity | split; [apply w_eqb_sym | apply w_eqb_trans]]. Qed.

Lemma contains_sym v : v_intv_guard v = true ->
  forall (S : obj R) (x : elem R), @contains R _ v S x = @eqt R _ v S (space_of x).
Proof. intros Hg S x. unfold contains. apply eqt_sym, Hg. Qed.

Lemma hash_refuted :
  exists a b : obj R, @eqt R _ old_variants a b = TT /\
    @key_eqv R _ (hash_key old_variants a) (hash_key old_variants b) = false.
Proof. exists (Ind 1), (Ind 3). split; [exact intv_1_3_equal | exact intv_1_3_keys]. Qed.
Lemma trans_refuted :
  exists a b c : obj R, @eqt R _ old_variants a b = TT /\ @eqt R _ old_variants b c = TT /\
    @eqt R _ old_variants a c = EE.
Proof. exists (Ind 2), (Ind 1), (Ind 3). repeat split; [exact intv_2_1_equal | exact intv_1_3_equal]. Qed.
Lemma refl_refuted : exists a : obj R, @eqt R _ old_variants a a = EE.
Proof. exists (OUnion [Ind 2; Ind 3]). exact union_self_raises. Qed.
Lemma w_hash_refuted :
  exists a b : weighting R, w_eqb a b = true /\
    @key_eqv R _ (w_key old_variants a) (w_key old_variants b) = false.
Proof. exists (WArray KNpy 1 (EFin 2%R)), (WArray KPs 1 (EFin 2%R)). split; [exact arrw_equal | exact arrw_keys]. Qed.

(* ------------------------------------------------------------ what holds of the CURRENT code:
   the variants differ only where interval products of different ndim meet *)
Section Partial.
Variable n : nat.

Definition intv_ok (a : list (ext R * ext R)) : bool := Nat.eqb (length a) n.

(* every IntervalProd inside (also as the set of a partition) has ndim n *)
Fixpoint ndims_ok (a : obj R) : bool :=
  match a with
  | OCart l | OUnion l | OInter l => forallb ndims_ok l
  | OProd l _ _ => forallb ndims_ok l
  | OIntv e => intv_ok e
  | ODiscr p _ => intv_ok (p_intv p)
  | _ => true
  end.

Lemma intv_eqt_indep v v' a b : intv_ok a = true -> intv_ok b = true ->
  @intv_eqt R _ v a b = @intv_eqt R _ v' a b.
Proof.
  unfold intv_ok, intv_eqt, bcast_all. intros Ha Hb. apply Nat.eqb_eq in Ha, Hb.
  rewrite !map_length. replace (Nat.eqb (length a) (length b)) with true by (symmetry; apply Nat.eqb_eq; lia).
  destruct (v_intv_guard v), (v_intv_guard v');
    destruct (all2 ext_eqb (map fst a) (map fst b)), (all2 ext_eqb (map snd a) (map snd b)); reflexivity.
Qed.

Lemma tupt_indep v v' (l1 : list (obj R)) :
  Forall (fun x => forall y, ndims_ok x = true -> ndims_ok y = true -> @eqt R _ v x y = @eqt R _ v' x y) l1 ->
  forall l2, forallb ndims_ok l1 = true -> forallb ndims_ok l2 = true ->
  tupt (@eqt R _ v) l1 l2 = tupt (@eqt R _ v') l1 l2.
Proof.
  induction 1 as [|x l1 Hx Hl IH]; intros [|y l2] H1 H2; cbn [tupt]; try reflexivity.
  cbn in H1, H2. apply andb_true_iff in H1 as [H1a H1b], H2 as [H2a H2b].
  rewrite (Hx y H1a H2a). destruct (eqt v' x y); try reflexivity. apply IH; assumption.
Qed.
Lemma zipt_indep v v' (l1 : list (obj R)) :
  Forall (fun x => forall y, ndims_ok x = true -> ndims_ok y = true -> @eqt R _ v x y = @eqt R _ v' x y) l1 ->
  forall l2, forallb ndims_ok l1 = true -> forallb ndims_ok l2 = true ->
  zipt (@eqt R _ v) l1 l2 = zipt (@eqt R _ v') l1 l2.
Proof.
  induction 1 as [|x l1 Hx Hl IH]; intros [|y l2] H1 H2; cbn [zipt]; try reflexivity.
  cbn in H1, H2. apply andb_true_iff in H1 as [H1a H1b], H2 as [H2a H2b].
  rewrite (Hx y H1a H2a). destruct (eqt v' x y); try reflexivity. apply IH; assumption.
Qed.

Lemma anyt_ext {A} (f g : A -> tri) l : Forall (fun x => f x = g x) l -> anyt f l = anyt g l.
Proof. induction 1 as [|x l Hx Hl IH]; cbn; [reflexivity|]. rewrite Hx, IH. reflexivity. Qed.
Lemma allt_ext {A} (f g : A -> tri) l : Forall (fun x => f x = g x) l -> allt f l = allt g l.
Proof. induction 1 as [|x l Hx Hl IH]; cbn; [reflexivity|]. rewrite Hx, IH. reflexivity. Qed.

Lemma setlike_indep v v' (l1 l2 : list (obj R)) :
  Forall (fun x => forall y, ndims_ok x = true -> ndims_ok y = true -> @eqt R _ v x y = @eqt R _ v' x y) l1 ->
  forallb ndims_ok l1 = true -> forallb ndims_ok l2 = true ->
  setlike_eqt v l1 l2 = setlike_eqt v' l1 l2.
Proof.
  intros IH H1 H2. rewrite Forall_forall in IH. rewrite forallb_forall in H1, H2.
  unfold setlike_eqt. f_equal.
  - apply allt_ext, Forall_forall. intros s Hs. apply anyt_ext, Forall_forall. intros t Ht.
    apply IH; auto.
  - apply allt_ext, Forall_forall. intros t Ht. apply anyt_ext, Forall_forall. intros s Hs.
    apply IH; auto.
Qed.

Theorem eqt_variant_indep v v' : forall a b : obj R, ndims_ok a = true -> ndims_ok b = true ->
  @eqt R _ v a b = @eqt R _ v' a b.
Proof.
  induction a as [| |k| | | |l IH|l IH|l IH|els|e|g|t|p t|l w f IH] using obj_ind'; intros b Ha Hb;
    destruct b; try reflexivity.
  - rewrite !eqt_cart. apply tupt_indep; assumption.
  - rewrite !eqt_union. apply setlike_indep; assumption.
  - rewrite !eqt_inter. apply setlike_indep; assumption.
  - cbn [eqt]. apply intv_eqt_indep; assumption.
  - cbn [eqt]. unfold part_eqt. cbn in Ha, Hb. rewrite (intv_eqt_indep v v' (p_intv p0) (p_intv p)); auto.
  - rewrite !eqt_prod. destruct (negb _); [reflexivity|]. destruct (negb _); [reflexivity|].
    apply zipt_indep; assumption.
Qed.

(* hence, on objects whose interval products all have one ndim, the CURRENT code's == is total
   and an equivalence as well *)
Corollary current_eq_partial (a b c : obj R) :
  ndims_ok a = true -> ndims_ok b = true -> ndims_ok c = true ->
  @eqt R _ old_variants a b <> EE /\
  @eqt R _ old_variants a a = TT /\
  @eqt R _ old_variants a b = @eqt R _ old_variants b a /\
  (@eqt R _ old_variants a b = TT -> @eqt R _ old_variants b c = TT -> @eqt R _ old_variants a c = TT).
Proof.
  intros Ha Hb Hc.
  rewrite !(eqt_variant_indep old_variants repaired_variants) by assumption.
  repeat split.
  - apply eqt_noraise; reflexivity.
  - apply eqt_refl; reflexivity.
  - apply eqt_sym; reflexivity.
  - apply eqt_trans; reflexivity.
Qed.
End Partial.

Lemma part_eq_key v : v_intv_guard v = true ->
  forall p q : part R, part_eqt v p q = TT -> @part_key R p = @part_key R q.
Proof. intros Hg p q E. apply (part_eqt_TT v Hg) in E. subst. reflexivity. Qed.

(* ------------------------------------------------------------ hash consistency, generalised:
   for any variant with the ndim guard and any class [okw] of weightings on which equal
   weightings have equal keys *)
Section HashConsistencyGen.
Variable v : variants.
Hypothesis Hg : v_intv_guard v = true.
Variable okw : weighting R -> bool.
Hypothesis Hw : forall a b, okw a = true -> okw b = true -> w_eqb a b = true -> w_key v a = w_key v b.
Notation eqR := (@eqt R Num_R v).
Notation keqR := (@key_eqv R Num_R).
Notation hk := (@hash_key R Num_R v).

(* every weighting inside the object is in the class *)
Fixpoint weights_ok (a : obj R) : bool :=
  match a with
  | OCart l | OUnion l | OInter l => forallb weights_ok l
  | OTensor t => okw (ts_w t)
  | ODiscr _ t => okw (ts_w t)
  | OProd l w _ => okw w && forallb weights_ok l
  | _ => true
  end.

Lemma tsp_eqb_key_gen (a b : tsp R) : okw (ts_w a) = true -> okw (ts_w b) = true ->
  tsp_eqb a b = true -> tsp_key v a = tsp_key v b.
Proof.
  unfold tsp_eqb, tsp_key. rewrite !andb_true_iff, Zs_eqb_eq, dtype_eqb_eq.
  intros Ha Hb [[-> ->] E]. rewrite (Hw _ _ Ha Hb E). reflexivity.
Qed.

Definition P (x : obj R) : Prop :=
  forall y, weights_ok x = true -> weights_ok y = true -> eqR x y = TT -> keqR (hk x) (hk y) = true.

Lemma tupt_keys_gen (l1 : list (obj R)) : Forall P l1 ->
  forall l2, forallb weights_ok l1 = true -> forallb weights_ok l2 = true ->
  tupt eqR l1 l2 = TT -> all2 keqR (map hk l1) (map hk l2) = true.
Proof.
  induction 1 as [|x l1 Hx Hl IH]; intros [|y l2] H1 H2; cbn [tupt map all2]; try discriminate; auto.
  cbn in H1, H2. apply andb_true_iff in H1 as [H1a H1b], H2 as [H2a H2b].
  destruct (eqR x y) eqn:E; try discriminate. intro E2. rewrite (Hx _ H1a H2a E). apply IH; assumption.
Qed.
Lemma zipt_keys_gen (l1 : list (obj R)) : Forall P l1 ->
  forall l2, forallb weights_ok l1 = true -> forallb weights_ok l2 = true -> length l1 = length l2 ->
  zipt eqR l1 l2 = TT -> all2 keqR (map hk l1) (map hk l2) = true.
Proof.
  induction 1 as [|x l1 Hx Hl IH]; intros [|y l2] H1 H2 L; cbn [zipt map all2 length] in *; try discriminate; auto.
  apply andb_true_iff in H1 as [H1a H1b], H2 as [H2a H2b].
  destruct (eqR x y) eqn:E; try discriminate. intro E2. rewrite (Hx _ H1a H2a E). apply IH; auto.
Qed.
Lemma setlike_keys_gen (l1 l2 : list (obj R)) : Forall P l1 ->
  forallb weights_ok l1 = true -> forallb weights_ok l2 = true ->
  setlike_eqt v l1 l2 = TT -> kset_eqv (map hk l1) (map hk l2) = true.
Proof.
  intros IH H1 H2. rewrite Forall_forall in IH. rewrite forallb_forall in H1, H2.
  rewrite (setlike_TT v Hg). intros [A1 A2].
  unfold kset_eqv. apply andb_true_iff; split; apply forallb_forall; intros k Hk;
    apply in_map_iff in Hk; destruct Hk as [x [<- Hx]]; apply existsb_exists.
  - destruct (A1 x Hx) as [t [Ht E]]. exists (hk t); split; [apply in_map, Ht | apply IH; auto].
  - destruct (A2 x Hx) as [s [Hs E]]. exists (hk s); split; [apply in_map, Hs | apply IH; auto].
Qed.

Theorem eqt_hash_key_gen : forall a : obj R, P a.
Proof.
  unfold P.
  induction a as [| |n| | | |l IH|l IH|l IH|els|e|g|t|p t|l w f IH] using obj_ind'; intros b Ha Hb;
    destruct b; try (cbn; discriminate); try (cbn; reflexivity).
  - cbn [eqt]. rewrite tri_of_TT, Z.eqb_eq. intros ->. apply key_eqv_refl.
  - rewrite eqt_cart. intro E. cbn [hash_key]. rewrite key_eqv_tup. cbn [all2].
    rewrite key_eqv_tup, (tupt_keys_gen _ IH _ Ha Hb E). reflexivity.
  - rewrite eqt_union. intro E. cbn [hash_key]. rewrite key_eqv_tup. cbn [all2].
    rewrite key_eqv_set, (setlike_keys_gen _ _ IH Ha Hb E). reflexivity.
  - rewrite eqt_inter. intro E. cbn [hash_key]. rewrite key_eqv_tup. cbn [all2].
    rewrite key_eqv_set, (setlike_keys_gen _ _ IH Ha Hb E). reflexivity.
  - cbn [eqt]. rewrite tri_of_TT, finite_TT. intro E. cbn [hash_key]. rewrite key_eqv_tup. cbn [all2].
    rewrite key_eqv_set.
    assert (K : kset_eqv (map atom_key els) (map atom_key els0) = true).
    { unfold kset_eqv. apply andb_true_iff; split; apply forallb_forall; intros k Hk;
      apply in_map_iff in Hk; destruct Hk as [x [<- Hx]]; apply existsb_exists;
      exists (atom_key x); (split; [apply in_map, E, Hx | apply key_eqv_refl]). }
    rewrite K. reflexivity.
  - cbn [eqt]. rewrite (intv_eqt_TT v Hg). intro E; inversion E; subst. apply key_eqv_refl.
  - cbn [eqt]. rewrite tri_of_TT, grid_eqb_eq. intros ->. apply key_eqv_refl.
  - cbn [eqt]. rewrite tri_of_TT. intro E. cbn [hash_key]. cbn in Ha, Hb.
    rewrite (tsp_eqb_key_gen _ _ Ha Hb E). apply key_eqv_refl.
  - cbn [eqt]. rewrite !andt_TT, !tri_of_TT, (part_eqt_TT v Hg), andb_true_iff, Zs_eqb_eq, dtype_eqb_eq.
    intros [[A1 A2] [A3 A4]]. cbn [hash_key]. cbn in Ha, Hb.
    rewrite A1, A2, (tsp_eqb_key_gen _ _ Hb Ha A3), A4. apply key_eqv_refl.
  - rewrite eqt_prod. cbn [weights_ok] in Ha, Hb. apply andb_true_iff in Ha as [Ha1 Ha2], Hb as [Hb1 Hb2].
    destruct (Nat.eqb (length l) (length l0)) eqn:L1; [|discriminate]. cbn [negb].
    destruct (w_eqb w w0) eqn:W1; [|discriminate]. cbn [negb]. intro E.
    apply Nat.eqb_eq in L1. cbn [hash_key]. rewrite key_eqv_tup. cbn [all2].
    rewrite key_eqv_tup, (zipt_keys_gen _ IH _ Ha2 Hb2 L1 E), (Hw _ _ Ha1 Hb1 W1), !key_eqv_refl. reflexivity.
Qed.
End HashConsistencyGen.

(* instance for the CURRENT array-weighting hash: no ProductSpaceArrayWeighting inside *)
Definition no_ps_array (w : weighting R) : bool :=
  match w with WArray KPs _ _ => false | _ => true end.

Lemma w_key_current_ok (a b : weighting R) : no_ps_array a = true -> no_ps_array b = true ->
  w_eqb a b = true -> w_key old_variants a = w_key old_variants b.
Proof.
  intros Ha Hb E. unfold w_eqb in E. apply andb_true_iff in E as [Ee E]. apply expo_eqb_eq in Ee.
  destruct a as [k c e|k i e|k f|k f|k f|i e], b as [k' c' e'|k' i' e'|k' f'|k' f'|k' f'|i' e'];
    try discriminate; cbn in Ee.
  - apply neqb_R in E. subst. reflexivity.
  - apply Z.eqb_eq in E. subst. destruct k, k'; try discriminate. reflexivity.
  - apply Z.eqb_eq in E. subst. reflexivity.
  - apply Z.eqb_eq in E. subst. reflexivity.
  - apply Z.eqb_eq in E. subst. reflexivity.
  - apply Z.eqb_eq in E. subst. reflexivity.
Qed.

Definition guard_only : variants := {| v_intv_guard := true; v_arrw_hash_type := true |}.

Lemma hash_key_guard_indep : forall a : obj R, @hash_key R _ old_variants a = @hash_key R _ guard_only a.
Proof. intro a. reflexivity. Qed.

(* CURRENT code, partial: one ndim everywhere and no product-space array weighting:
   a == b implies equal hashes *)
Theorem current_hash_partial n (a b : obj R) :
  ndims_ok n a = true -> ndims_ok n b = true ->
  weights_ok no_ps_array a = true -> weights_ok no_ps_array b = true ->
  @eqt R _ old_variants a b = TT ->
  @key_eqv R _ (hash_key old_variants a) (hash_key old_variants b) = true.
Proof.
  intros Na Nb Wa Wb E. rewrite (eqt_variant_indep n old_variants guard_only) in E by assumption.
  rewrite !hash_key_guard_indep.
  apply (eqt_hash_key_gen guard_only eq_refl no_ps_array w_key_current_ok); assumption.
Qed.
