(* C20/Proofs.v -- lemmas about C20/Model.v (at the R instance). *)
From Coq Require Import ZArith List Bool Reals Lia.
From Verif Require Import Base.Num Base.Check C20.Syntax C20.Model.
Import ListNotations.
