(* C20/ElementProofs.v -- lemmas about C20/Element.v, for every carrier, nesting depth and length. *)
From Coq Require Import ZArith List Bool Lia.
From Verif Require Import Base.Num Base.Check C20.Syntax C20.Model C20.Element.
Import ListNotations.

Section EP.
Context {T : Type} `{Num T}.
Variable v : variants.

Definition is_space (a : obj T) : bool :=
  match a with OTensor _ | ODiscr _ _ | OProd _ _ _ => true | _ => false end.

(* x in S  ->  S.element(x) is x *)
Theorem element_of_member_is_same (a : obj T) (x : elem T) :
  is_space a = true -> contains v a x = TT -> element v a (IElem x) = RSame.
Proof.
  intros Hs Hc. destruct a; try discriminate; cbn [element is_member]; rewrite Hc; reflexivity.
Qed.

(* no bool leaf: conversion to the dtype leaves (exactly representable) values alone *)
Fixpoint nobool (a : obj T) : bool :=
  match a with
  | OTensor t => negb (dtype_eqb (ts_dtype t) DBool)
  | ODiscr _ t => negb (dtype_eqb (ts_dtype t) DBool)
  | OProd l _ _ => forallb nobool l
  | _ => true
  end.

Lemma conv_id d (x : T) : dtype_eqb d DBool = false -> conv d x = x.
Proof. destruct d; cbn; congruence. Qed.
Lemma map_conv_id d (l : list T) : dtype_eqb d DBool = false -> map (conv d) l = l.
Proof. intro Hd. induction l as [|x l IH]; cbn; [reflexivity|]. rewrite conv_id, IH; auto. Qed.

Lemma tsp_convert_values (t : tsp T) i : dtype_eqb (ts_dtype t) DBool = false ->
  is_err (tsp_convert t i) = false -> rvalues (tsp_convert t i) i = flat i.
Proof.
  intros Hd. unfold tsp_convert. destruct (in_shape i); [|discriminate].
  destruct (Zs_eqb _ _); [|discriminate]. intros _. cbn. apply map_conv_id, Hd.
Qed.

Fixpoint cat_flat (its : list (@inp T)) : list T :=
  match its with [] => [] | p :: l => flat p ++ cat_flat l end.

Lemma flat_items i its : items_of i = Some its -> flat i = cat_flat its.
Proof.
  destruct i as [x|aid d sh data|l|x]; try discriminate.
  - destruct x as [sp eid data|sp eid parts]; [discriminate|]. intro E; inversion E; subst. cbn [flat elem_flat].
    clear E. induction parts as [|p parts IH]; cbn; [reflexivity|]. f_equal; try exact IH.
  - intro E. injection E as <-. cbn [flat]. induction l as [|p l IH]; cbn; [reflexivity|]. f_equal; try exact IH.
Qed.

Fixpoint go_elem (l : list (obj T)) (its : list (@inp T)) : list (@eres T) :=
  match l, its with
  | s :: l', it :: its' => element v s it :: go_elem l' its'
  | _, _ => []
  end.
Fixpoint go_vals (ps : list (@eres T)) (its : list (@inp T)) : list T :=
  match ps, its with
  | p :: ps', it :: its' => rvalues p it ++ go_vals ps' its'
  | _, _ => []
  end.

Lemma element_prod l w f i :
  element v (OProd l w f) i =
  if is_member v (OProd l w f) i then RSame
  else match items_of i with
       | None => RTypeErr
       | Some its => if negb (Nat.eqb (length its) (length l)) then RValueErr else collect (go_elem l its)
       end.
Proof.
  cbn [element]. destruct (is_member v _ i); [reflexivity|]. destruct (items_of i) as [its|]; [|reflexivity].
  destruct (negb _); reflexivity.
Qed.

Lemma rvalues_prod parts i its : items_of i = Some its -> rvalues (RProdE parts) i = go_vals parts its.
Proof.
  intro E. cbn [rvalues]. rewrite E. reflexivity.
Qed.

Lemma first_err_none (l : list (@eres T)) : first_err l = None -> Forall (fun r => is_err r = false) l.
Proof.
  induction l as [|r l IH]; cbn; [constructor|]. destruct (is_err r) eqn:E; [discriminate|]. constructor; auto.
Qed.

Lemma go_values (l : list (obj T)) :
  Forall (fun s => forall i, nobool s = true -> is_err (element v s i) = false ->
                             rvalues (element v s i) i = flat i) l ->
  forallb nobool l = true ->
  forall its, length its = length l -> Forall (fun r => is_err r = false) (go_elem l its) ->
  go_vals (go_elem l its) its = cat_flat its.
Proof.
  induction 1 as [|s l Hs Hl IHl]; intros Hb [|it its] Hlen Hf; cbn in *; try reflexivity; try discriminate.
  apply andb_true_iff in Hb as [Hb1 Hb2]. inversion Hf; subst. f_equal.
  - apply Hs; assumption.
  - apply IHl; auto.
Qed.

(* S.element(inp), when it does not raise, holds exactly the values of inp -- leaf by leaf, in
   order -- for tensor, discretized and arbitrarily nested product spaces *)
Theorem element_values : forall (a : obj T) i, nobool a = true ->
  is_err (element v a i) = false -> rvalues (element v a i) i = flat i.
Proof.
  induction a as [| |n| | | |l IH|l IH|l IH|els|e|g|t|p t|l w f IH] using obj_ind'; intros i Hb; try (cbn; discriminate).
  - cbn [element]. cbn in Hb. apply negb_true_iff in Hb. destruct (is_member v _ i); [reflexivity|].
    apply tsp_convert_values, Hb.
  - cbn [element]. cbn in Hb. apply negb_true_iff in Hb. destruct (is_member v _ i); [reflexivity|].
    destruct i as [x|aid d sh data|l|x]; try (apply tsp_convert_values, Hb).
    destruct x as [sp eid data|sp eid parts]; [|apply tsp_convert_values, Hb].
    destruct (tri_eqb _ _); [reflexivity | apply tsp_convert_values, Hb].
  - rewrite element_prod. destruct (is_member v _ i); [reflexivity|].
    destruct (items_of i) as [its|] eqn:Ei; [|discriminate].
    destruct (negb _) eqn:El; [discriminate|]. apply negb_false_iff, Nat.eqb_eq in El.
    unfold collect. destruct (first_err (go_elem l its)) as [e|] eqn:Ef.
    + (* an error outcome is excluded by the premise *)
      intro Hn. exfalso. clear - Ef Hn. induction (go_elem l its) as [|r rs IHr]; cbn in Ef; [discriminate|].
      destruct (is_err r) eqn:Er; [inversion Ef; subst; congruence | auto].
    + intros _. rewrite (rvalues_prod _ _ _ Ei), (flat_items _ _ Ei).
      apply first_err_none in Ef. cbn [nobool] in Hb. apply go_values; assumption.
Qed.

End EP.

(* the default options give the plain element() *)
Section EPopt.
Context {T : Type} `{Num T}.
Variable v : variants.
Lemma tsp_convert_ord_none (t : tsp T) i : tsp_convert_ord None t i = tsp_convert t i.
Proof. unfold tsp_convert_ord. destruct (tsp_convert t i); reflexivity. Qed.

Theorem element_opt_default (a : obj T) i : element_opt v None true a i = element v a i.
Proof.
  destruct a; try reflexivity.
  - cbn [element_opt element no_order]. rewrite andb_true_r, tsp_convert_ord_none. reflexivity.
  - cbn [element_opt element no_order]. rewrite andb_true_r.
    destruct (is_member v _ i); [reflexivity|].
    destruct i as [x| | |]; try apply tsp_convert_ord_none.
    destruct x; try apply tsp_convert_ord_none. rewrite andb_true_r.
    destruct (tri_eqb _ _); [reflexivity | apply tsp_convert_ord_none].
  - unfold element_opt. rewrite element_prod. destruct (is_member v _ i); [reflexivity|].
    destruct (items_of i); [|reflexivity]. destruct (negb _); reflexivity.
Qed.
End EPopt.
