(* C20/Tables.v -- the hash field tables REGENERATED from the __hash__ methods of the code
   under test (Gen/C20Tables.v), interpreted, are the hash keys of C20/Model.v -- for every
   object of each class.  A __hash__ that starts hashing another attribute, drops the
   `+ 0.0` of the grid, etc. makes one of these lemmas fail. *)
From Coq Require Import ZArith List Bool String.
From Verif Require Import Base.Num C20.Syntax C20.HashTab C20.Model Gen.C20Tables.
Import ListNotations.
Local Open Scope string_scope.

(* which variant of NumpyTensorSpaceArrayWeighting.__hash__ the source has *)
Definition table_arrw_hash_type : bool :=
  match hf_NpyArrayWeighting with Some _ => true | None => false end.

(* since fix 99fe16d the override is gone; re-adding it breaks this lemma *)
Lemma table_arrw_is_repaired : table_arrw_hash_type = v_arrw_hash_type live_variants.
Proof. reflexivity. Qed.

Section Tab.
Context {T : Type} `{Num T}.
Variable v : variants.
Hypothesis Hv : v_arrw_hash_type v = table_arrw_hash_type.

Definition no_attr : hitem -> option (key T) := fun _ => None.
Definition tagk (z : Z) : key T := KTag z.

Lemma tab_EmptySet : interp (tagk tEmptySet) KNone KNone no_attr hf_EmptySet = hash_key v (@OEmpty T).
Proof. reflexivity. Qed.
Lemma tab_UniversalSet : interp (tagk tUniversalSet) KNone KNone no_attr hf_UniversalSet = hash_key v (@OUniv T).
Proof. reflexivity. Qed.
Lemma tab_ComplexNumbers : interp (tagk tComplex) KNone KNone no_attr hf_ComplexNumbers = hash_key v (@OComplex T).
Proof. reflexivity. Qed.
Lemma tab_RealNumbers : interp (tagk tReal) KNone KNone no_attr hf_RealNumbers = hash_key v (@OReal T).
Proof. reflexivity. Qed.
Lemma tab_Integers : interp (tagk tIntegers) KNone KNone no_attr hf_Integers = hash_key v (@OInt T).
Proof. reflexivity. Qed.

Lemma tab_Strings n :
  interp (tagk tStrings) KNone KNone
    (fun h => match h with HAttr "length" => Some (KZ n) | _ => None end) hf_Strings
  = hash_key v (@OStrings T n).
Proof. reflexivity. Qed.

Lemma tab_CartesianProduct l :
  interp (tagk tCart) KNone KNone
    (fun h => match h with HAttr "sets" => Some (KTup (map (hash_key v) l)) | _ => None end) hf_CartesianProduct
  = hash_key v (@OCart T l).
Proof. reflexivity. Qed.
Lemma tab_SetUnion l :
  interp (tagk tUnion) KNone KNone
    (fun h => match h with HSetOf "sets" => Some (KSet (map (hash_key v) l)) | _ => None end) hf_SetUnion
  = hash_key v (@OUnion T l).
Proof. reflexivity. Qed.
Lemma tab_SetIntersection l :
  interp (tagk tInter) KNone KNone
    (fun h => match h with HSetOf "sets" => Some (KSet (map (hash_key v) l)) | _ => None end) hf_SetIntersection
  = hash_key v (@OInter T l).
Proof. reflexivity. Qed.
Lemma tab_FiniteSet els :
  interp (tagk tFinite) KNone KNone
    (fun h => match h with HSetOf "elements" => Some (KSet (map atom_key els)) | _ => None end) hf_FiniteSet
  = hash_key v (@OFinite T els).
Proof. reflexivity. Qed.

Lemma tab_IntervalProd ends :
  interp (tagk tIntv) KNone KNone
    (fun h => match h with
              | HTupleOf "min_pt" => Some (KTup (map (fun p => ext_key (fst p)) ends))
              | HTupleOf "max_pt" => Some (KTup (map (fun p => ext_key (snd p)) ends))
              | _ => None end) hf_IntervalProd
  = hash_key v (@OIntv T ends).
Proof. reflexivity. Qed.

(* the grid must hash the bytes AFTER adding 0.0 (then bytes are a function of the values) *)
Lemma tab_RectGrid g :
  interp (tagk tGrid) KNone KNone
    (fun h => match h with
              | HBytesEachPlusZero "coord_vectors" => Some (KTup (map (fun vec => KTup (map KNum vec)) g))
              | _ => None end) hf_RectGrid
  = hash_key v (@OGrid T g).
Proof. reflexivity. Qed.

Lemma tab_RectPartition p :
  interp (tagk tPartition) KNone KNone
    (fun h => match h with
              | HAttr "set" => Some (intv_key (p_intv p))
              | HAttr "grid" => Some (grid_key (p_grid p))
              | _ => None end) hf_RectPartition
  = @part_key T p.
Proof. reflexivity. Qed.

(* weightings *)
Definition weighting_tab_key (w : weighting T) : key T :=
  interp KNone (tagk tWeighting) KNone
    (fun h => match h with
              | HAttr "impl" => Some (tagk tImplNumpy)
              | HAttr "exponent" => Some (expo_key (w_expo w))
              | _ => None end) hf_Weighting.
Lemma tab_Weighting w : weighting_tab_key w = w_base_key w.
Proof. reflexivity. Qed.

Lemma tab_ConstWeighting k c e :
  interp KNone KNone (weighting_tab_key (WConst k c e))
    (fun h => match h with HAttr "const" => Some (KNum c) | _ => None end) hf_ConstWeighting
  = w_key v (WConst k c e).
Proof. reflexivity. Qed.
Lemma tab_CustomInner k f :
  interp KNone KNone (weighting_tab_key (WInner k f))
    (fun h => match h with HAttr "inner" => Some (KFun f) | _ => None end) hf_CustomInner
  = w_key v (WInner k f).
Proof. reflexivity. Qed.
Lemma tab_CustomNorm k f :
  interp KNone KNone (weighting_tab_key (WNorm k f))
    (fun h => match h with HAttr "norm" => Some (KFun f) | _ => None end) hf_CustomNorm
  = w_key v (WNorm k f).
Proof. reflexivity. Qed.
Lemma tab_CustomDist k f :
  interp KNone KNone (weighting_tab_key (WDist k f))
    (fun h => match h with HAttr "dist" => Some (KFun f) | _ => None end) hf_CustomDist
  = w_key v (WDist k f).
Proof. reflexivity. Qed.
Lemma tab_MatrixWeighting i e :
  interp KNone KNone (weighting_tab_key (WMatrix i e))
    (fun h => match h with HBytes "matrix" => Some (KBytes i) | _ => None end) hf_MatrixWeighting
  = w_key v (WMatrix i e).
Proof. reflexivity. Qed.
(* ProductSpaceArrayWeighting inherits ArrayWeighting.__hash__ *)
Lemma tab_ArrayWeighting_Ps i e :
  interp KNone KNone (weighting_tab_key (WArray KPs i e))
    (fun h => match h with HBytes "array" => Some (KBytes i) | _ => None end) hf_ArrayWeighting
  = w_key v (WArray KPs i e).
Proof. reflexivity. Qed.
(* NumpyTensorSpaceArrayWeighting: its own __hash__ if the source defines one, else the inherited *)
Lemma tab_ArrayWeighting_Npy i e :
  match hf_NpyArrayWeighting with
  | Some tab =>
      interp (tagk tNpyArrayWeighting) KNone KNone
        (fun h => match h with
                  | HBytes "array" => Some (KBytes i)
                  | HAttr "exponent" => Some (expo_key e)
                  | _ => None end) tab
  | None =>
      interp KNone KNone (weighting_tab_key (WArray KNpy i e))
        (fun h => match h with HBytes "array" => Some (KBytes i) | _ => None end) hf_ArrayWeighting
  end = w_key v (WArray KNpy i e).
Proof. cbn. rewrite Hv. reflexivity. Qed.

(* spaces *)
Definition tensorspace_tab_key (tag : Z) (shape : list Z) (d : dtype) : key T :=
  interp (tagk tag) KNone KNone
    (fun h => match h with
              | HAttr "shape" => Some (shape_key shape)
              | HAttr "dtype" => Some (KDType d)
              | _ => None end) hf_TensorSpace.

Lemma tab_NumpyTensorSpace t :
  interp KNone KNone (tensorspace_tab_key tNpyTensorSpace (ts_shape t) (ts_dtype t))
    (fun h => match h with HAttr "weighting" => Some (w_key v (ts_w t)) | _ => None end) hf_NumpyTensorSpace
  = hash_key v (OTensor t).
Proof. reflexivity. Qed.
Lemma tab_DiscretizedSpace p t :
  interp KNone KNone (tensorspace_tab_key tDiscr (ts_shape t) (ts_dtype t))
    (fun h => match h with
              | HAttr "tspace" => Some (tsp_key v t)
              | HAttr "partition" => Some (part_key p)
              | _ => None end) hf_DiscretizedSpace
  = hash_key v (ODiscr p t).
Proof. reflexivity. Qed.
Lemma tab_ProductSpace l w f :
  interp (tagk tProd) KNone KNone
    (fun h => match h with
              | HAttr "spaces" => Some (KTup (map (hash_key v) l))
              | HAttr "weighting" => Some (w_key v w)
              | _ => None end) hf_ProductSpace
  = hash_key v (OProd l w f).
Proof. reflexivity. Qed.
End Tab.
