(* C20/Props.v -- property theorems only. *)
From Coq Require Import ZArith List Bool Reals.
From Verif Require Import Base.Num Base.Check C20.Syntax C20.Model C20.Proofs.
Import ListNotations.
