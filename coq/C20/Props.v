(* C20/Props.v -- property theorems only; each is closed by [exact] of a lemma from
   C20/Proofs.v and followed by Print Assumptions.

   Objects are the descriptors of C20/Syntax.v (sets, fields, interval products, grids,
   partitions, weightings, tensor / discretized / arbitrarily nested weighted product
   spaces) over the reals; [eqt v a b] is the outcome (TT / FF / EE = raises) of a == b
   as transcribed in C20/Model.v; [hash_key v a] the tuple fed to hash().  [v] selects,
   for two recorded findings, the behaviour of the code under test (the harness measures
   it): theorems are stated for the repaired behaviour, refutations for the current one. *)
From Coq Require Import ZArith List Bool Reals.
From Verif Require Import Base.Num Base.Check C20.Syntax C20.Model C20.Proofs.
Import ListNotations.

(* ---------------------------------------------------------------- equality is an equivalence *)
(* For every pair of constructible objects, == never raises ... *)
Theorem eq_total : forall v, v_intv_guard v = true ->
  forall a b : obj R, eqt v a b <> EE.
Proof. exact eqt_noraise. Qed.
Print Assumptions eq_total.

(* ... is reflexive (this also justifies leaving the `other is self` shortcuts out of the model) ... *)
Theorem eq_reflexive : forall v, v_intv_guard v = true ->
  forall a : obj R, eqt v a a = TT.
Proof. exact eqt_refl. Qed.
Print Assumptions eq_reflexive.

(* ... symmetric (as outcomes: a == b and b == a evaluate alike) ... *)
Theorem eq_symmetric : forall v, v_intv_guard v = true ->
  forall a b : obj R, eqt v a b = eqt v b a.
Proof. exact eqt_sym. Qed.
Print Assumptions eq_symmetric.

(* ... and transitive, for all nesting depths and all list lengths. *)
Theorem eq_transitive : forall v, v_intv_guard v = true ->
  forall a b c : obj R, eqt v a b = TT -> eqt v b c = TT -> eqt v a c = TT.
Proof. exact eqt_trans. Qed.
Print Assumptions eq_transitive.

(* ---------------------------------------------------------------- equal objects have equal hashes *)
(* a == b implies that the hashed tuples are equivalent (position-wise for tuples, as sets
   for frozensets, by value for floats) -- hence hash(a) == hash(b) -- and that hash(a)
   raises exactly when hash(b) does. *)
Theorem eq_implies_equal_hash : forall v, v_intv_guard v = true -> v_arrw_hash_type v = false ->
  forall a b : obj R, eqt v a b = TT ->
  key_eqv (hash_key v a) (hash_key v b) = true /\
  hashable (hash_key v a) = hashable (hash_key v b).
Proof. exact eqt_hash_full. Qed.
Print Assumptions eq_implies_equal_hash.

(* ---------------------------------------------------------------- weightings and partitions *)
(* Weighting.__eq__ and its overrides: an equivalence (equality of the descriptor with the
   class family erased) ... *)
Theorem weighting_eq_equivalence : forall a b c : weighting R,
  w_eqb a a = true /\ w_eqb a b = w_eqb b a /\
  (w_eqb a b = true -> w_eqb b c = true -> w_eqb a c = true).
Proof. exact w_equiv. Qed.
(* ... consistent with the hashes once the tensor-space array weighting stops hashing its class *)
Theorem weighting_eq_implies_equal_hash : forall v, v_arrw_hash_type v = false ->
  forall a b : weighting R, w_eqb a b = true -> w_key v a = w_key v b.
Proof. exact w_eqb_key. Qed.
Print Assumptions weighting_eq_implies_equal_hash.

(* RectPartition.__eq__ holds exactly for identical (set, grid) data; hence an equivalence,
   and the hashed tuple (type, set, grid) agrees *)
Theorem partition_eq_iff : forall v, v_intv_guard v = true ->
  forall p q : part R, part_eqt v p q = TT <-> p = q.
Proof. exact part_eqt_TT. Qed.
Theorem partition_eq_total : forall v, v_intv_guard v = true ->
  forall p q : part R, part_eqt v p q <> EE.
Proof. exact part_eqt_noraise. Qed.
Print Assumptions partition_eq_iff.

(* ---------------------------------------------------------------- membership *)
(* x in S is decided by  x.space == S ; by symmetry it is the same as  S == x.space *)
Theorem membership_iff_space_equal : forall v, v_intv_guard v = true ->
  forall (S : obj R) (x : elem R), contains v S x = eqt v S (space_of x).
Proof. exact contains_sym. Qed.
Print Assumptions membership_iff_space_equal.

(* ---------------------------------------------------------------- what the CURRENT code violates
   Full statements (false of the faithful model with v = current_variants):
     forall a b, eqt current a b <> EE;  forall a, eqt current a a = TT;
     forall a b c, eqt a b = TT -> eqt b c = TT -> eqt a c = TT;
     forall a b, eqt a b = TT -> key_eqv (hash_key a) (hash_key b) = true.          *)

(* IntervalProd(0,1) == IntervalProd([0,0,0],[1,1,1]) (NumPy broadcasting) with different hashes *)
Theorem eq_implies_equal_hash_refuted :
  exists a b : obj R, eqt current_variants a b = TT /\
    key_eqv (hash_key current_variants a) (hash_key current_variants b) = false.
Proof. exact hash_refuted. Qed.

(* [0,1]^2 == [0,1] and [0,1] == [0,1]^3, but [0,1]^2 == [0,1]^3 raises ValueError *)
Theorem eq_transitive_refuted :
  exists a b c : obj R, eqt current_variants a b = TT /\ eqt current_variants b c = TT /\
    eqt current_variants a c = EE.
Proof. exact trans_refuted. Qed.

(* SetUnion(I2, I3) == SetUnion(I2, I3) raises *)
Theorem eq_reflexive_refuted : exists a : obj R, eqt current_variants a a = EE.
Proof. exact refl_refuted. Qed.

(* NumpyTensorSpaceArrayWeighting(w) == ProductSpaceArrayWeighting(w) with different hashes *)
Theorem weighting_eq_implies_equal_hash_refuted :
  exists a b : weighting R, w_eqb a b = true /\
    key_eqv (w_key current_variants a) (w_key current_variants b) = false.
Proof. exact w_hash_refuted. Qed.
