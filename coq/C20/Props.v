(* C20/Props.v -- property theorems only; each is closed by [exact] of a lemma from
   C20/Proofs.v (etc.) and followed by Print Assumptions.

   Objects are the descriptors of C20/Syntax.v (sets, fields, interval products, grids,
   partitions, weightings, tensor / discretized / arbitrarily nested weighted product
   spaces) over the reals; [eqt v a b] is the outcome (TT / FF / EE = raises) of a == b
   as transcribed in C20/Model.v; [hash_key v a] the tuple fed to hash().
   [live_variants] is the code under test (after the fixes dd669fb and 99fe16d); the
   correspondence shards run against it unconditionally.  [old_variants] is the code before
   those fixes and appears only in the refutations at the end of this part. *)
From Coq Require Import ZArith List Bool Reals String.
From Verif Require Import Base.Num Base.Check C20.Syntax C20.Model C20.Proofs.
Import ListNotations.

(* ---------------------------------------------------------------- equality is an equivalence *)
(* For every pair of constructible objects, == never raises ... *)
Theorem eq_total : forall a b : obj R, eqt live_variants a b <> EE.
Proof. exact (eqt_noraise live_variants eq_refl). Qed.
Print Assumptions eq_total.

(* ... is reflexive (this also justifies leaving the `other is self` shortcuts out of the model) ... *)
Theorem eq_reflexive : forall a : obj R, eqt live_variants a a = TT.
Proof. exact (eqt_refl live_variants eq_refl). Qed.
Print Assumptions eq_reflexive.

(* ... symmetric (as outcomes: a == b and b == a evaluate alike) ... *)
Theorem eq_symmetric : forall a b : obj R, eqt live_variants a b = eqt live_variants b a.
Proof. exact (eqt_sym live_variants eq_refl). Qed.
Print Assumptions eq_symmetric.

(* ... and transitive, for all nesting depths and all list lengths. *)
Theorem eq_transitive : forall a b c : obj R,
  eqt live_variants a b = TT -> eqt live_variants b c = TT -> eqt live_variants a c = TT.
Proof. exact (eqt_trans live_variants eq_refl). Qed.
Print Assumptions eq_transitive.

(* ---------------------------------------------------------------- equal objects have equal hashes *)
(* a == b implies that the hashed tuples are equivalent (position-wise for tuples, as sets
   for frozensets, by value for floats) -- hence hash(a) == hash(b) -- and that hash(a)
   raises exactly when hash(b) does. *)
Theorem eq_implies_equal_hash : forall a b : obj R, eqt live_variants a b = TT ->
  key_eqv (hash_key live_variants a) (hash_key live_variants b) = true /\
  hashable (hash_key live_variants a) = hashable (hash_key live_variants b).
Proof. exact (eqt_hash_full live_variants eq_refl eq_refl). Qed.
Print Assumptions eq_implies_equal_hash.

(* ---------------------------------------------------------------- weightings and partitions *)
(* Weighting.__eq__ and its overrides: an equivalence (equality of the descriptor with the
   class family erased) ... *)
Theorem weighting_eq_equivalence : forall a b c : weighting R,
  w_eqb a a = true /\ w_eqb a b = w_eqb b a /\
  (w_eqb a b = true -> w_eqb b c = true -> w_eqb a c = true).
Proof. exact w_equiv. Qed.
(* ... consistent with the hashes *)
Theorem weighting_eq_implies_equal_hash : forall a b : weighting R,
  w_eqb a b = true -> w_key live_variants a = w_key live_variants b.
Proof. exact (w_eqb_key live_variants eq_refl). Qed.
Print Assumptions weighting_eq_implies_equal_hash.

(* RectPartition.__eq__ holds exactly for identical (set, grid) data; hence an equivalence,
   and the hashed tuple (type, set, grid) agrees *)
Theorem partition_eq_iff : forall p q : part R, part_eqt live_variants p q = TT <-> p = q.
Proof. exact (part_eqt_TT live_variants eq_refl). Qed.
Theorem partition_eq_total : forall p q : part R, part_eqt live_variants p q <> EE.
Proof. exact (part_eqt_noraise live_variants eq_refl). Qed.
Theorem partition_eq_implies_equal_hash : forall p q : part R,
  part_eqt live_variants p q = TT -> part_key p = part_key q.
Proof. exact (part_eq_key live_variants eq_refl). Qed.
Print Assumptions partition_eq_iff.

(* ---------------------------------------------------------------- membership *)
(* x in S is decided by  x.space == S ; by symmetry it is the same as  S == x.space *)
Theorem membership_iff_space_equal : forall (S : obj R) (x : elem R),
  contains live_variants S x = eqt live_variants S (space_of x).
Proof. exact (contains_sym live_variants eq_refl). Qed.
Print Assumptions membership_iff_space_equal.

(* ---------------------------------------------------------------- the code BEFORE the two fixes
   (kept as statements about the explicit old variant): the same statements were false, and
   held only under the stated restrictions. *)
(* IntervalProd(0,1) == IntervalProd([0,0,0],[1,1,1]) (NumPy broadcasting) with different hashes *)
Theorem eq_implies_equal_hash_old_variant_refuted :
  exists a b : obj R, eqt old_variants a b = TT /\
    key_eqv (hash_key old_variants a) (hash_key old_variants b) = false.
Proof. exact hash_refuted. Qed.
(* [0,1]^2 == [0,1] and [0,1] == [0,1]^3, but [0,1]^2 == [0,1]^3 raised ValueError *)
Theorem eq_transitive_old_variant_refuted :
  exists a b c : obj R, eqt old_variants a b = TT /\ eqt old_variants b c = TT /\
    eqt old_variants a c = EE.
Proof. exact trans_refuted. Qed.
(* SetUnion(I2, I3) == SetUnion(I2, I3) raised *)
Theorem eq_reflexive_old_variant_refuted : exists a : obj R, eqt old_variants a a = EE.
Proof. exact refl_refuted. Qed.
(* NumpyTensorSpaceArrayWeighting(w) == ProductSpaceArrayWeighting(w) with different hashes *)
Theorem weighting_eq_implies_equal_hash_old_variant_refuted :
  exists a b : weighting R, w_eqb a b = true /\
    key_eqv (w_key old_variants a) (w_key old_variants b) = false.
Proof. exact w_hash_refuted. Qed.
(* restricted to objects whose interval products all have one ndim the outcome of == never
   depended on the variant, so the old code was an equivalence there ... *)
Theorem eq_outcome_independent_of_variant : forall n v v' (a b : obj R),
  ndims_ok n a = true -> ndims_ok n b = true -> eqt v a b = eqt v' a b.
Proof. exact eqt_variant_indep. Qed.
Theorem eq_equivalence_old_variant_partial : forall n (a b c : obj R),
  ndims_ok n a = true -> ndims_ok n b = true -> ndims_ok n c = true ->
  eqt old_variants a b <> EE /\
  eqt old_variants a a = TT /\
  eqt old_variants a b = eqt old_variants b a /\
  (eqt old_variants a b = TT -> eqt old_variants b c = TT -> eqt old_variants a c = TT).
Proof. exact current_eq_partial. Qed.
(* ... and hash-consistent if moreover no ProductSpaceArrayWeighting occurred *)
Theorem eq_implies_equal_hash_old_variant_partial : forall n (a b : obj R),
  ndims_ok n a = true -> ndims_ok n b = true ->
  weights_ok no_ps_array a = true -> weights_ok no_ps_array b = true ->
  eqt old_variants a b = TT ->
  key_eqv (hash_key old_variants a) (hash_key old_variants b) = true.
Proof. exact current_hash_partial. Qed.

(* ================================================================ derived spaces
   (C20/Derived.v: astype/_astype, real/complex counterparts, ProductSpace.dtype/astype/
   __getitem__, Python slices; dtype predicates regenerated from odl.util into Gen/C20Tables.v;
   [dv] selects the current or a repaired behaviour of three open findings; a fourth switch,
   for byaxis on non-numeric dtypes, is fixed in /repo and set accordingly in current_dvariants).
   Theorems hold for every carrier T, every nesting depth and every list length. *)
From Verif Require Import Gen.C20Tables C20.Derived C20.DerivedProofs C20.HashTab C20.Tables.

(* space.astype(d) has the shapes / partitions of space at every leaf and the same product
   structure, whatever the variant *)
Theorem astype_keeps_shapes_and_partitions : forall dv (a : obj R) d b,
  oastype dv a d = Ok b -> skel_of b = skel_of a.
Proof. exact (@oastype_skel R _). Qed.
Print Assumptions astype_keeps_shapes_and_partitions.

(* every leaf of space.astype(d) has dtype d (d a dtype NumpyTensorSpace supports) *)
Theorem astype_sets_dtype : forall dv (a : obj R) d b, is_available d = true ->
  oastype dv a d = Ok b -> Forall (fun t => ts_dtype t = d) (leaves b).
Proof. exact (@oastype_dtype R _). Qed.
Print Assumptions astype_sets_dtype.

(* the leaf weightings (and exponents) are those of the source whenever _astype passes the
   weighting on: for floating-point targets in the current code, for every numeric target in
   the repaired code *)
Theorem astype_keeps_leaf_weightings : forall dv (a : obj R) d b,
  (if dv_astype_num_keeps_w dv then is_numeric d else is_floating d) = true ->
  oastype dv a d = Ok b -> map (@ts_w R) (leaves b) = map (@ts_w R) (leaves a).
Proof. exact (@oastype_leaf_weights R _). Qed.
(* FULL statement for the current code (any numeric d) is false: *)
Theorem astype_keeps_leaf_weightings_refuted :
  exists (a : obj R) d b, is_numeric d = true /\ oastype current_dvariants a d = Ok b /\
    map (@ts_w R) (leaves b) <> map (@ts_w R) (leaves a).
Proof. exact leafw_refuted. Qed.

(* the weightings of the product-space nodes survive astype in the repaired code ... *)
Theorem astype_keeps_product_weightings : forall dv, dv_ps_astype_keeps_w dv = true ->
  forall (a : obj R) d b, oastype dv a d = Ok b -> pweights b = pweights a.
Proof. exact (@oastype_prod_weights R _). Qed.
(* ... and are lost in the current code *)
Theorem astype_keeps_product_weightings_refuted :
  exists (a : obj R) d b, oastype current_dvariants a d = Ok b /\ pweights b <> pweights a.
Proof. exact prodw_refuted. Qed.
Print Assumptions astype_keeps_product_weightings.

(* real / complex counterparts (any variant, any nesting): same shapes / partitions / product
   structure; every leaf dtype is real (resp. complex floating) according to the is_real_dtype /
   is_complex_floating_dtype / TYPE_MAP_C2R / TYPE_MAP_R2C tables regenerated from odl.util *)
Theorem real_space_is_real_counterpart : forall dv (a : obj R) b, oreal_space dv a = Ok b ->
  skel_of b = skel_of a /\ Forall (fun t => is_real_dt (ts_dtype t) = true) (leaves b).
Proof. exact (@oreal_space_spec R _). Qed.
Theorem complex_space_is_complex_counterpart : forall dv (a : obj R) b, ocomplex_space dv a = Ok b ->
  skel_of b = skel_of a /\ Forall (fun t => is_complex_floating (ts_dtype t) = true) (leaves b).
Proof. exact (@ocomplex_space_spec R _). Qed.
Print Assumptions real_space_is_real_counterpart.

(* Python slices: every selected position is a valid index, for all n, start, stop, step *)
Theorem slice_positions_valid : forall n s ps, (0 <= n)%Z ->
  slice_positions n s = Ok ps -> Forall (fun p => 0 <= p < n)%Z ps.
Proof. exact slice_positions_in_range. Qed.
Print Assumptions slice_positions_valid.

(* pspace[slice] consists of the components at the slice positions, in order, with the field
   of the parent (weighting: the parent's constant one if repaired, the default one now) *)
Theorem pspace_getitem_slice_is_selection : forall dv (l : list (obj R)) w f s b,
  ogetitem dv (OProd l w f) (PSlice s) = Ok b ->
  exists ps ss, slice_positions (Z.of_nat (List.length l)) s = Ok ps /\
    Forall2 (fun p x => nth_error l (Z.to_nat p) = Some x) ps ss /\
    b = OProd ss (match sub_w dv w with Some w' => w' | None => default_ps_w end) f.
Proof. exact (@getitem_slice_spec R _). Qed.
Theorem pspace_getitem_slice_never_index_error : forall (l : list (obj R)) s,
  select_slice l s <> ErrIndex /\ select_slice l s <> ErrType.
Proof. exact (@select_slice_no_index_error (obj R)). Qed.
Theorem pspace_getitem_int_is_component : forall dv (l : list (obj R)) w f k b,
  ogetitem dv (OProd l w f) (PInt k) = Ok b ->
  let n := Z.of_nat (List.length l) in
  (- n <= k < n)%Z /\ nth_error l (Z.to_nat (if (k <? 0)%Z then k + n else k)) = Some b.
Proof. exact (@getitem_int_spec R _). Qed.
Theorem pspace_getitem_keeps_weighting_refuted :
  exists (a : obj R) s b, ogetitem current_dvariants a (PSlice s) = Ok b /\ pweights b <> [WConst KPs 2%R (EFin 2%R)]
                          /\ pweights a = [WConst KPs 2%R (EFin 2%R)].
Proof. exact getitemw_refuted. Qed.
Print Assumptions pspace_getitem_slice_is_selection.

(* ================================================================ hash tables regenerated from source
   The tuple each __hash__ builds (read from the AST of the code under test into
   Gen/C20Tables.v) is, for EVERY object of the class, the hash key of the model. *)
Theorem hash_table_NumpyTensorSpace : forall v (t : tsp R),
  interp KNone KNone (tensorspace_tab_key tNpyTensorSpace (ts_shape t) (ts_dtype t))
    (fun h => match h with HAttr "weighting"%string => Some (w_key v (ts_w t)) | _ => None end) hf_NumpyTensorSpace
  = hash_key v (OTensor t).
Proof. exact (@tab_NumpyTensorSpace R _). Qed.
Theorem hash_table_ProductSpace : forall v (l : list (obj R)) w f,
  interp (tagk tProd) KNone KNone
    (fun h => match h with
              | HAttr "spaces"%string => Some (KTup (map (hash_key v) l))
              | HAttr "weighting"%string => Some (w_key v w)
              | _ => None end) hf_ProductSpace
  = hash_key v (OProd l w f).
Proof. exact (@tab_ProductSpace R _). Qed.
Theorem hash_table_RectGrid : forall v (g : list (list R)),
  interp (tagk tGrid) KNone KNone
    (fun h => match h with
              | HBytesEachPlusZero "coord_vectors"%string => Some (KTup (map (fun vec => KTup (map KNum vec)) g))
              | _ => None end) hf_RectGrid
  = hash_key v (OGrid g).
Proof. exact (@tab_RectGrid R _). Qed.

(* ================================================================ element creation
   (C20/Element.v: NumpyTensorSpace.element, DiscretizedSpace.element, ProductSpace.element on
   elements / arrays / nested lists / scalars; tied by the correspondence incl. identity,
   values, memory sharing and error class). *)
From Verif Require Import C20.Element C20.ElementProofs.

(* space.element(x) returns x itself when x already belongs to the space *)
Theorem element_returns_member_itself : forall v (S : obj R) (x : elem R),
  is_space S = true -> contains v S x = TT -> element v S (IElem x) = RSame.
Proof. exact (@element_of_member_is_same R _). Qed.
Print Assumptions element_returns_member_itself.

(* otherwise, unless it raises, the new element holds exactly the values of the input, leaf by
   leaf and in order -- for tensor, discretized and arbitrarily nested product spaces, and
   inputs nested accordingly (no bool leaf: conversion is then the identity on the exactly
   representable inputs the model covers) *)
Theorem element_holds_input_values : forall v (S : obj R) (i : inp), nobool S = true ->
  is_err (element v S i) = false -> rvalues (element v S i) i = flat i.
Proof. exact (@element_values R _). Qed.
Print Assumptions element_holds_input_values.

(* non-vacuity: a nested weighted product space, a nested list input, a converted result *)
Example element_example :
  let r2 := OTensor {| ts_shape := [2%Z]; ts_dtype := DFloat64; ts_w := WConst KNpy 1%R (EFin 2%R) |} in
  let S := OProd [r2; OProd [r2] (WConst KPs 2%R (EFin 2%R)) FReal] (WConst KPs 1%R (EFin 2%R)) FReal in
  let i := IList [IList [IScalar 1%R; IScalar 2%R]; IList [IArr 7 DFloat64 [2%Z] [3%R; 4%R]]] in
  element old_variants S i = RProdE [RTens [1%R; 2%R] None; RProdE [RTens [3%R; 4%R] (Some 7%Z)]].
Proof. reflexivity. Qed.

(* ================================================================ float side lemma (all binary64 floats)
   RectGrid compares coordinates with float == but hashes (cv + 0.0).tobytes(): over Coq's
   primitive floats (signed zeros, infinities, NaN included), x == y implies that x + 0.0 and
   y + 0.0 are the same float; without the + 0.0 it fails (0.0 == -0.0). *)
From Verif Require Import C20.FloatBytes.
Theorem grid_hash_bytes_follow_float_eq : forall a b : PrimFloat.float,
  PrimFloat.eqb a b = true -> PrimFloat.add a PrimFloat.zero = PrimFloat.add b PrimFloat.zero.
Proof. exact float_eq_same_bytes_after_plus_zero. Qed.
Print Assumptions grid_hash_bytes_follow_float_eq.
Theorem grid_hash_raw_bytes_refuted : exists a b : PrimFloat.float, PrimFloat.eqb a b = true /\ a <> b.
Proof. exact float_eq_same_bytes_refuted. Qed.

(* ================================================================ non-vacuity of the premises *)
Example repaired_variants_satisfy_premises :
  v_intv_guard repaired_variants = true /\ v_arrw_hash_type repaired_variants = false /\
  dv_ps_astype_keeps_w repaired_dvariants = true /\ dv_astype_num_keeps_w repaired_dvariants = true.
Proof. repeat split. Qed.
Example ndims_ok_example :
  ndims_ok 2 (OProd [ODiscr {| p_intv := [(Fin 0%R, Fin 1%R); (NInf, PInf)]; p_grid := [[0%R]; [0%R]] |}
                           {| ts_shape := [1%Z; 1%Z]; ts_dtype := DFloat64; ts_w := WConst KNpy 1%R (EFin 2%R) |};
                     OTensor {| ts_shape := [3%Z]; ts_dtype := DFloat64; ts_w := WConst KNpy 1%R (EFin 2%R) |}]
                    (WConst KPs 1%R (EFin 2%R)) FReal) = true.
Proof. reflexivity. Qed.

(* ================================================================ comparison tables regenerated from source
   Which attributes each __eq__ compares, in which order, with which operator (==, is,
   np.all(==), zip-all, two-sided membership), read from the AST of the code under test into
   Gen/C20Tables.v, is -- for EVERY pair of objects of the class -- the equality of the model
   (24 classes in C20/EqTables.v; three shown).  A tolerance (np.isclose, approx_equals) is
   outside the translator's grammar; a dropped / added / reordered conjunct breaks a lemma. *)
From Verif Require Import C20.EqTab C20.EqTables.
Theorem eq_table_ProductSpace : forall (l1 : list (obj R)) w1 f1 l2 w2 f2,
  interp_eq (fun x => match x with
                      | ELenEq => Some (tri_of (Nat.eqb (List.length l1) (List.length l2)))
                      | EAttrEq "weighting"%string true => Some (tri_of (w_eqb w1 w2))
                      | EZipAllEq "spaces"%string => Some (zipt (eqt live_variants) l1 l2)
                      | _ => same_class "ProductSpace"%string x end) eq_ProductSpace
  = eqt live_variants (OProd l1 w1 f1) (OProd l2 w2 f2).
Proof. exact eqtab_ProductSpace. Qed.
Theorem eq_table_ConstWeighting : forall k (c : R) e k' c' e',
  interp_eq (fun x => match x with
                      | ESuper => Some (base_eq (WConst k c e) (WConst k' c' e'))
                      | EAttrEqGetattr "const"%string => Some (tri_of (neqb c c'))
                      | _ => None end) eq_ConstWeighting
  = tri_of (w_eqb (WConst k c e) (WConst k' c' e')).
Proof. exact eqtab_ConstWeighting. Qed.
Theorem eq_table_IntervalProd : forall a b : list (ext R * ext R),
  interp_eq (sem_intv a b) eq_IntervalProd = intv_eqt live_variants a b.
Proof. exact eqtab_IntervalProd. Qed.
Theorem contains_table_spaces : forall (S : obj R) (x : elem R),
  interp_contains contains_LinearSpace S x = contains live_variants S x /\
  interp_contains contains_TensorSpace S x = contains live_variants S x.
Proof. exact ctab_spaces. Qed.
Print Assumptions eq_table_ProductSpace.

(* ================================================================ byaxis_in *)
(* space.byaxis_in[idx] discretizes exactly the selected axes (interval ends and grid vectors at
   the selected positions, in order) and its tensor space has the shape of that sub-partition;
   all index expressions (int, slice, list), all dimensions *)
Theorem byaxis_in_selects_axes : forall dv (p : part R) (t : tsp R) i b,
  obyaxis_in dv (ODiscr p t) i = Ok b ->
  exists ps p' t', b = ODiscr p' t' /\
    axis_positions (Z.of_nat (List.length (p_grid p))) i = Ok ps /\
    Forall2 (fun q x => nth_error (p_intv p) (Z.to_nat q) = Some x) ps (p_intv p') /\
    Forall2 (fun q x => nth_error (p_grid p) (Z.to_nat q) = Some x) ps (p_grid p') /\
    ts_shape t' = map (fun g => Z.of_nat (List.length g)) (p_grid p').
Proof. exact (@byaxis_in_spec R _). Qed.

(* ================================================================ element() options
   element_opt models order= ('C'/'F': no identity fast path, Fortran copy unless at most one
   axis is longer than 1) and cast=False (TypeError instead of converting parts); it is tied
   by the correspondence, and with the default options it is the element() of the theorems above. *)
Theorem element_default_options : forall v (S : obj R) (i : inp),
  element_opt v None true S i = element v S i.
Proof. exact (@element_opt_default R _). Qed.

(* ================================================================ element indexing (basic indices)
   C20/Indexing.v (NumpyTensor.__getitem__, DiscretizedSpaceElement.__getitem__), tied by the
   correspondence on values, result space and error class. *)
From Verif Require Import C20.Indexing.
Theorem element_index_drops_one_axis_per_int : forall (idx : list idx1) (shape sh : list Z),
  index_shape shape idx = Ok sh -> (List.length sh + n_ints idx = List.length shape)%nat.
Proof. exact index_shape_ndim. Qed.
Theorem element_index_result_space : forall (t : tsp R) data idx t' d,
  tens_getitem t data idx = Ok (GTens t' d) ->
  index_shape (ts_shape t) idx = Ok (ts_shape t') /\ ts_dtype t' = ts_dtype t /\
  d = index_data (ts_shape t) idx data /\
  (is_numeric (ts_dtype t) = true -> (forall k i e, ts_w t <> WArray k i e) -> ts_w t' = ts_w t).
Proof. exact (@tens_getitem_space R _). Qed.
Print Assumptions element_index_result_space.
