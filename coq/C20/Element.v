(* C20/Element.v -- space.element(inp): NumpyTensorSpace.element, DiscretizedSpace.element,
   ProductSpace.element (definitions only).

   Inputs: an ODL element (of any space), a NumPy array (identity, dtype, shape, flat C-order
   data), a (nested) Python list, a scalar.  Outcome: the very input object (RSame), a new
   tensor element (its values and the buffer it shares memory with, if any), a new product
   element (outcome per part), ValueError (shape / length mismatch), TypeError.
   Values are real; conversion to the dtype is the identity except for bool (x != 0):
   integer targets are only offered integer-valued data (assumption of the harness). *)
From Coq Require Import ZArith List Bool.
From Verif Require Import Base.Num Base.Check C20.Syntax C20.Model.
Import ListNotations.

Section E.
Context {T : Type} `{Num T}.
Local Open Scope num_scope.
Variable v : variants.

Inductive inp :=
| IElem (x : elem T)
| IArr (aid : Z) (d : dtype) (shape : list Z) (data : list T)
| IList (l : list inp)
| IScalar (x : T).

Inductive eres :=
| RSame
| RTens (data : list T) (alias : option Z)
| RProdE (parts : list eres)
| RValueErr | RTypeErr.

(* leaf space data of a tensor-like space *)
Definition leaf_of (a : obj T) : option (tsp T) :=
  match a with OTensor t => Some t | ODiscr _ t => Some t | _ => None end.

(* flat values of an input, leaf by leaf, left to right *)
Fixpoint elem_flat (x : elem T) : list T :=
  match x with
  | ETens _ _ data => data
  | EProd _ _ parts => (fix go (l : list (elem T)) := match l with [] => [] | p :: l' => elem_flat p ++ go l' end) parts
  end.
Fixpoint flat (i : inp) : list T :=
  match i with
  | IElem x => elem_flat x
  | IArr _ _ _ data => data
  | IList l => (fix go (l : list inp) := match l with [] => [] | p :: l' => flat p ++ go l' end) l
  | IScalar x => [x]
  end.

(* np.array(inp).shape for regular inputs (ragged lists are outside the model) *)
Fixpoint in_shape (i : inp) : option (list Z) :=
  match i with
  | IElem (ETens sp _ _) => option_map (@ts_shape T) (leaf_of sp)
  | IElem (EProd _ _ _) => None
  | IArr _ _ shape _ => Some shape
  | IList l => match l with
               | [] => Some [0%Z]
               | p :: _ => option_map (cons (Z.of_nat (length l))) (in_shape p)
               end
  | IScalar _ => Some []
  end.

(* the buffer an input would share with the result, if no copy is needed: same dtype *)
Definition in_alias (d : dtype) (i : inp) : option Z :=
  match i with
  | IElem (ETens sp eid _) =>
      match leaf_of sp with Some t => if dtype_eqb (ts_dtype t) d then Some eid else None | None => None end
  | IArr aid d' _ _ => if dtype_eqb d' d then Some aid else None
  | _ => None
  end.

Definition conv (d : dtype) (x : T) : T :=
  match d with DBool => if x =? nzero then nzero else none_ | _ => x end.

(* np.array(inp, dtype, ndmin=ndim): the shape is left-padded with ones up to ndim *)
Definition pad_shape (ndim : nat) (s : list Z) : list Z := repeat 1%Z (ndim - length s) ++ s.

(* NumpyTensorSpace.element(inp) after the membership fast path *)
Definition tsp_convert (t : tsp T) (i : inp) : eres :=
  match in_shape i with
  | None => RTypeErr
  | Some s =>
      if Zs_eqb (pad_shape (length (ts_shape t)) s) (ts_shape t)
      then RTens (map (conv (ts_dtype t)) (flat i)) (in_alias (ts_dtype t) i)
      else RValueErr
  end.

Definition is_member (S : obj T) (i : inp) : bool :=
  match i with IElem x => tri_eqb (contains v S x) TT | _ => false end.

(* the items a product space iterates over; None = len()/iteration not available *)
Definition items_of (i : inp) : option (list inp) :=
  match i with
  | IElem (EProd _ _ parts) => Some (map IElem parts)
  | IList l => Some l
  | _ => None
  end.

Definition is_err (r : eres) : bool := match r with RValueErr | RTypeErr => true | _ => false end.
Fixpoint first_err (l : list eres) : option eres :=
  match l with [] => None | r :: l' => if is_err r then Some r else first_err l' end.
Definition collect (l : list eres) : eres :=
  match first_err l with Some e => e | None => RProdE l end.

Fixpoint element (a : obj T) (i : inp) {struct a} : eres :=
  match a with
  | OTensor t => if is_member a i then RSame else tsp_convert t i
  | ODiscr p t =>
      if is_member a i then RSame
      else match i with
           | IElem (ETens sp eid data) =>
               (* inp in self.tspace: wrapped, no copy *)
               if tri_eqb (eqt v sp (OTensor t)) TT then RTens data (Some eid) else tsp_convert t i
           | _ => tsp_convert t i
           end
  | OProd l w f =>
      if is_member a i then RSame
      else match items_of i with
           | None => RTypeErr
           | Some its =>
               if negb (Nat.eqb (length its) (length l)) then RValueErr
               else collect
                 ((fix go (l : list (obj T)) (its : list inp) {struct l} : list eres :=
                     match l, its with
                     | s :: l', it :: its' => element s it :: go l' its'
                     | _, _ => []
                     end) l its)
           end
  | _ => RTypeErr
  end.


(* ------------------------------------------------------------ the options: order=, cast= *)
(* NumpyTensorSpace.element / DiscretizedSpace.element(inp, order='C'|'F'): the membership fast
   paths are taken only for order=None; np.array(inp, copy=False, order=...) shares memory with
   a (C-contiguous) input of the right dtype unless a Fortran copy is needed, i.e. unless more
   than one axis is longer than 1.  ProductSpace.element(inp, cast=False): TypeError instead of
   converting the parts. *)
Inductive ord := OrdC | OrdF.

Definition eff_1d (s : list Z) : bool :=
  Nat.leb (length (filter (fun n => negb (n =? 1)%Z) s)) 1.

Definition tsp_convert_ord (o : option ord) (t : tsp T) (i : inp) : eres :=
  match tsp_convert t i with
  | RTens d a => RTens d (match o with Some OrdF => if eff_1d (ts_shape t) then a else None | _ => a end)
  | r => r
  end.

Definition no_order (o : option ord) : bool := match o with None => true | Some _ => false end.

Definition all_members (l : list (obj T)) (its : list inp) : bool :=
  (fix go (l : list (obj T)) (its : list inp) : bool :=
     match l, its with
     | s :: l', it :: its' => is_member s it && go l' its'
     | _, _ => true
     end) l its.

Definition element_opt (o : option ord) (cast : bool) (a : obj T) (i : inp) : eres :=
  match a with
  | OTensor t => if is_member a i && no_order o then RSame else tsp_convert_ord o t i
  | ODiscr p t =>
      if is_member a i && no_order o then RSame
      else match i with
           | IElem (ETens sp eid data) =>
               if tri_eqb (eqt v sp (OTensor t)) TT && no_order o then RTens data (Some eid)
               else tsp_convert_ord o t i
           | _ => tsp_convert_ord o t i
           end
  | OProd l w f =>
      if is_member a i then RSame
      else match items_of i with
           | None => RTypeErr
           | Some its =>
               if negb (Nat.eqb (length its) (length l)) then RValueErr
               else if cast || all_members l its then element a i
               else RTypeErr
           end
  | _ => RTypeErr
  end.

(* the values held by the outcome (RSame: those of the input) *)
Fixpoint rvalues (r : eres) (i : inp) : list T :=
  match r with
  | RSame => flat i
  | RTens data _ => data
  | RProdE parts =>
      match items_of i with
      | Some its =>
          (fix go (ps : list eres) (its : list inp) : list T :=
             match ps, its with
             | p :: ps', it :: its' => rvalues p it ++ go ps' its'
             | _, _ => []
             end) parts its
      | None => []
      end
  | _ => []
  end.

End E.
