(* C20/Model.v -- executable transcription of the paired __eq__/__hash__/__contains__
   implementations (definitions only).  Polymorphic over the carrier; run at Q by the
   correspondence shards, reasoned about at R in Proofs.v.

   Conventions.
   * [eqt v a b] is the outcome of evaluating  a == b  in Python: TT / FF / EE (an
     exception escapes).  Evaluation order and short-circuiting of and/all/any/tuple
     comparison are reproduced, because they decide whether an exception is reached.
   * the  `other is self`  shortcuts are not modelled separately: identical objects have
     identical descriptors and [eqt v a a = TT] is a theorem (eqt_refl) for every variant.
   * [hash_key v a] is the tuple the __hash__ method feeds to hash(); equal hashes are
     guaranteed for equivalent keys ([key_eqv]); KUnhashable inside = hash() raises.
   * [variants] record the behaviour before two repairs (kept only to state what was wrong);
     the shards run against [live_variants]. *)
From Coq Require Import ZArith List Bool.
From Verif Require Import Base.Num Base.Check C20.Syntax.
Import ListNotations.

Record variants := {
  (* IntervalProd.__eq__: true = compares ndim before the coordinates (repaired);
     false = np.all(self.min_pt == other.min_pt) with NumPy broadcasting (current code) *)
  v_intv_guard : bool;
  (* NumpyTensorSpaceArrayWeighting.__hash__: true = own tuple starting with type(self)
     (current code); false = inherited ArrayWeighting.__hash__ (repaired) *)
  v_arrw_hash_type : bool
}.

(* the code before the fixes dd669fb (IntervalProd ndim) and 99fe16d (array-weighting hash) *)
Definition old_variants := {| v_intv_guard := false; v_arrw_hash_type := true |}.
Definition repaired_variants := {| v_intv_guard := true; v_arrw_hash_type := false |}.
(* the code under test: the shards run against this one, unconditionally *)
Definition live_variants := repaired_variants.

Section M.
Context {T : Type} `{Num T}.
Local Open Scope num_scope.
Variable v : variants.

(* ------------------------------------------------------------ leaves *)
Definition ext_eqb (a b : ext T) : bool :=
  match a, b with
  | NInf, NInf => true | PInf, PInf => true
  | Fin x, Fin y => x =? y
  | _, _ => false
  end.

Definition expo_eqb (a b : expo T) : bool :=
  match a, b with
  | EInf, EInf => true
  | EFin p, EFin q => p =? q
  | _, _ => false
  end.

Definition atom_eqb (a b : atom T) : bool :=
  match a, b with
  | ANum x, ANum y => x =? y
  | AStr s, AStr t => Z.eqb s t
  | ANone, ANone => true
  | AList l, AList m => all2 neqb l m
  | _, _ => false
  end.

Definition Zs_eqb (a b : list Z) : bool := all2 Z.eqb a b.

(* x == y on two 1-d float arrays followed by np.all: element-wise when the lengths agree,
   broadcast when one of them has length 1, otherwise NumPy raises ValueError *)
Definition bcast_all {A} (f : A -> A -> bool) (l1 l2 : list A) : tri :=
  if Nat.eqb (length l1) (length l2) then tri_of (all2 f l1 l2)
  else match l1, l2 with
       | [x], _ => tri_of (forallb (fun y => f x y) l2)
       | _, [y] => tri_of (forallb (fun x => f x y) l1)
       | _, _ => EE
       end.

(* ------------------------------------------------------------ weightings *)
Definition w_expo (w : weighting T) : expo T :=
  match w with
  | WConst _ _ e => e | WArray _ _ e => e | WMatrix _ e => e
  | WInner _ _ => EFin (of_Z 2)
  | WNorm _ _ => EFin (of_Z 1) | WDist _ _ => EFin (of_Z 1)
  end.

(* Weighting.__eq__ (isinstance, impl, exponent; impl is 'numpy' for every class here)
   and the extra test of the concrete class of self:
     ConstWeighting:  self.const == getattr(other, 'const', None)
     ArrayWeighting:  self.array is getattr(other, 'array', None)
     CustomInner/Norm/Dist:  self.f == other.f  (a function equals only itself; the
       attribute of another class is a bound method, never equal to a function) *)
Definition w_eqb (a b : weighting T) : bool :=
  expo_eqb (w_expo a) (w_expo b) &&
  match a, b with
  | WConst _ c _, WConst _ c' _ => c =? c'
  | WArray _ i _, WArray _ j _ => Z.eqb i j
  | WInner _ f, WInner _ g => Z.eqb f g
  | WNorm _ f, WNorm _ g => Z.eqb f g
  | WDist _ f, WDist _ g => Z.eqb f g
  | WMatrix i _, WMatrix j _ => Z.eqb i j      (* self.matrix is getattr(other, 'matrix', None) *)
  | _, _ => false
  end.

(* NumpyTensorSpace.__eq__ between two NumpyTensorSpace objects *)
Definition tsp_eqb (a b : tsp T) : bool :=
  Zs_eqb (ts_shape a) (ts_shape b) && dtype_eqb (ts_dtype a) (ts_dtype b) && w_eqb (ts_w a) (ts_w b).

(* ------------------------------------------------------------ IntervalProd, RectGrid, RectPartition *)
Definition intv_eqt (a b : list (ext T * ext T)) : tri :=
  if v_intv_guard v then
    (if Nat.eqb (length a) (length b)
     then tri_of (all2 ext_eqb (map fst a) (map fst b) && all2 ext_eqb (map snd a) (map snd b))
     else FF)
  else andt (bcast_all ext_eqb (map fst a) (map fst b)) (bcast_all ext_eqb (map snd a) (map snd b)).

(* type, shape (= tuple of vector lengths), then np.array_equal per axis *)
Definition grid_eqb (a b : list (list T)) : bool :=
  all2 Nat.eqb (map (@length T) a) (map (@length T) b) && all2 (all2 neqb) a b.

(* RectPartition.__eq__: type, self.set == other.set, self.grid == other.grid *)
Definition part_eqt (a b : part T) : tri :=
  andt (intv_eqt (p_intv a) (p_intv b)) (tri_of (grid_eqb (p_grid a) (p_grid b))).

(* ------------------------------------------------------------ sets and spaces *)
Fixpoint eqt (a b : obj T) {struct a} : tri :=
  match a, b with
  | OEmpty, OEmpty => TT
  | OUniv, OUniv => TT
  | OStrings n, OStrings m => tri_of (Z.eqb m n)
  | OComplex, OComplex => TT
  | OReal, OReal => TT
  | OInt, OInt => TT
  | OCart l1, OCart l2 =>
      (* type(self) == type(other) and self.sets == other.sets  (tuple comparison:
         items first, up to the shorter length, then the lengths) *)
      (fix go (l1 l2 : list (obj T)) {struct l1} : tri :=
         match l1, l2 with
         | [], [] => TT
         | [], _ :: _ => FF
         | _ :: _, [] => FF
         | x :: l1', y :: l2' => match eqt x y with TT => go l1' l2' | r => r end
         end) l1 l2
  | OUnion l1, OUnion l2 | OInter l1, OInter l2 =>
      (* all(s in other.sets for s in self.sets) and all(t in self.sets for t in other.sets) *)
      andt
        ((fix all1 (l1 : list (obj T)) : tri :=
            match l1 with
            | [] => TT
            | s :: l1' =>
                match (fix any2 (l2 : list (obj T)) : tri :=
                         match l2 with
                         | [] => FF
                         | t :: l2' => match eqt s t with FF => any2 l2' | r => r end
                         end) l2
                with TT => all1 l1' | r => r end
            end) l1)
        ((fix all2' (l2 : list (obj T)) : tri :=
            match l2 with
            | [] => TT
            | t :: l2' =>
                match (fix any1 (l1 : list (obj T)) : tri :=
                         match l1 with
                         | [] => FF
                         | s :: l1' => match eqt s t with FF => any1 l1' | r => r end
                         end) l1
                with TT => all2' l2' | r => r end
            end) l2)
  | OFinite e1, OFinite e2 =>
      tri_of (forallb (fun x => existsb (fun y => atom_eqb y x) e2) e1 &&
              forallb (fun y => existsb (fun x => atom_eqb x y) e1) e2)
  | OIntv a1, OIntv a2 => intv_eqt a1 a2
  | OGrid g1, OGrid g2 => tri_of (grid_eqb g1 g2)
  | OTensor t1, OTensor t2 => tri_of (tsp_eqb t1 t2)
  | ODiscr p1 t1, ODiscr p2 t2 =>
      (* TensorSpace.__eq__ (type, shape, dtype), other.tspace == self.tspace,
         other.partition == self.partition *)
      andt (tri_of (Zs_eqb (ts_shape t1) (ts_shape t2) && dtype_eqb (ts_dtype t1) (ts_dtype t2)))
        (andt (tri_of (tsp_eqb t2 t1)) (part_eqt p2 p1))
  | OProd l1 w1 _, OProd l2 w2 _ =>
      (* isinstance, len, weighting, all(x == y for x, y in zip(...)) *)
      if negb (Nat.eqb (length l1) (length l2)) then FF
      else if negb (w_eqb w1 w2) then FF
      else (fix go (l1 l2 : list (obj T)) {struct l1} : tri :=
              match l1, l2 with
              | x :: l1', y :: l2' => match eqt x y with TT => go l1' l2' | r => r end
              | _, _ => TT
              end) l1 l2
  | _, _ => FF
  end.

(* x in S  for a LinearSpace S:  getattr(x, 'space', None) == S *)
Definition contains (S : obj T) (x : elem T) : tri := eqt (space_of x) S.

(* ------------------------------------------------------------ hash keys *)
Definition ext_key (a : ext T) : key T :=
  match a with NInf => KNInf | Fin x => KNum x | PInf => KPInf end.
Definition expo_key (e : expo T) : key T :=
  match e with EFin p => KNum p | EInf => KPInf end.
Definition atom_key (a : atom T) : key T :=
  match a with ANum x => KNum x | AStr s => KStr s | ANone => KNone | AList _ => KUnhashable end.

(* Weighting.__hash__ = hash((Weighting, impl, exponent)) *)
Definition w_base_key (w : weighting T) : key T :=
  KTup [KTag tWeighting; KTag tImplNumpy; expo_key (w_expo w)].

Definition w_key (w : weighting T) : key T :=
  match w with
  | WConst _ c _ => KTup [w_base_key w; KNum c]
  | WArray KNpy i e =>
      if v_arrw_hash_type v then KTup [KTag tNpyArrayWeighting; KBytes i; expo_key e]
      else KTup [w_base_key w; KBytes i]
  | WArray KPs i _ => KTup [w_base_key w; KBytes i]
  | WInner _ f => KTup [w_base_key w; KFun f]
  | WNorm _ f => KTup [w_base_key w; KFun f]
  | WDist _ f => KTup [w_base_key w; KFun f]
  | WMatrix i _ => KTup [w_base_key w; KBytes i]
  end.

Definition shape_key (s : list Z) : key T := KTup (map KZ s).

Definition tsp_key (t : tsp T) : key T :=
  KTup [KTup [KTag tNpyTensorSpace; shape_key (ts_shape t); KDType (ts_dtype t)]; w_key (ts_w t)].

Definition intv_key (a : list (ext T * ext T)) : key T :=
  KTup [KTag tIntv; KTup (map (fun p => ext_key (fst p)) a); KTup (map (fun p => ext_key (snd p)) a)].

(* tuple((cv + 0.0).tobytes() for cv in coord_vectors): the byte string of a vector of
   non-NaN floats, after + 0.0, is determined by (and determines) its values *)
Definition grid_key (g : list (list T)) : key T :=
  KTup [KTag tGrid; KTup (map (fun vec => KTup (map KNum vec)) g)].

Definition part_key (p : part T) : key T :=
  KTup [KTag tPartition; intv_key (p_intv p); grid_key (p_grid p)].

Fixpoint hash_key (a : obj T) : key T :=
  match a with
  | OEmpty => KTag tEmptySet
  | OUniv => KTag tUniversalSet
  | OStrings n => KTup [KTag tStrings; KZ n]
  | OComplex => KTag tComplex
  | OReal => KTag tReal
  | OInt => KTag tIntegers
  | OCart l => KTup [KTag tCart; KTup (map hash_key l)]
  | OUnion l => KTup [KTag tUnion; KSet (map hash_key l)]
  | OInter l => KTup [KTag tInter; KSet (map hash_key l)]
  | OFinite els => KTup [KTag tFinite; KSet (map atom_key els)]
  | OIntv a => intv_key a
  | OGrid g => grid_key g
  | OTensor t => tsp_key t
  | ODiscr p t =>
      KTup [KTup [KTag tDiscr; shape_key (ts_shape t); KDType (ts_dtype t)]; tsp_key t; part_key p]
  | OProd l w _ => KTup [KTag tProd; KTup (map hash_key l); w_key w]
  end.

Fixpoint hashable (k : key T) : bool :=
  match k with
  | KUnhashable => false
  | KTup l | KSet l => (fix go (l : list (key T)) := match l with [] => true | x :: l' => hashable x && go l' end) l
  | _ => true
  end.

(* key equivalence: what guarantees equal Python hashes.  Tuples position-wise, frozensets
   up to order and multiplicity, floats by value (hash(0.0) = hash(-0.0), hash(1) = hash(1.0)). *)
Fixpoint key_eqv (a b : key T) {struct a} : bool :=
  match a, b with
  | KTag s, KTag t => Z.eqb s t
  | KNum x, KNum y => x =? y
  | KPInf, KPInf => true | KNInf, KNInf => true | KNone, KNone => true
  | KUnhashable, KUnhashable => true
  | KZ x, KZ y => Z.eqb x y
  | KStr x, KStr y => Z.eqb x y
  | KFun x, KFun y => Z.eqb x y
  | KBytes x, KBytes y => Z.eqb x y
  | KDType x, KDType y => dtype_eqb x y
  | KTup l1, KTup l2 =>
      (fix go (l1 l2 : list (key T)) {struct l1} : bool :=
         match l1, l2 with
         | [], [] => true
         | x :: l1', y :: l2' => key_eqv x y && go l1' l2'
         | _, _ => false
         end) l1 l2
  | KSet l1, KSet l2 =>
      (fix all1 (l1 : list (key T)) : bool :=
         match l1 with
         | [] => true
         | s :: l1' =>
             (fix any2 (l2 : list (key T)) : bool :=
                match l2 with [] => false | t :: l2' => key_eqv s t || any2 l2' end) l2
             && all1 l1'
         end) l1
      &&
      (fix all2' (l2 : list (key T)) : bool :=
         match l2 with
         | [] => true
         | t :: l2' =>
             (fix any1 (l1 : list (key T)) : bool :=
                match l1 with [] => false | s :: l1' => key_eqv s t || any1 l1' end) l1
             && all2' l2'
         end) l2
  | _, _ => false
  end.

End M.
