(* C20/Corr.v -- correspondence checkers (executed at Q by the shards). *)
From Coq Require Import ZArith QArith List Bool.
From Verif Require Import Base.Num Base.Check C20.Syntax C20.Model.
Import ListNotations.

(* anything that has a paired __eq__/__hash__: a Set/space, a weighting, a partition *)
Inductive thing := TObj (o : obj Q) | TW (w : weighting Q) | TPart (p : part Q).

Definition thing_eqt (v : variants) (a b : thing) : tri :=
  match a, b with
  | TObj x, TObj y => eqt v x y
  | TW x, TW y => tri_of (w_eqb x y)
  | TPart x, TPart y => part_eqt v x y
  | _, _ => FF
  end.

Definition thing_key (v : variants) (a : thing) : key Q :=
  match a with
  | TObj x => hash_key v x
  | TW x => w_key v x
  | TPart x => part_key x
  end.

(* One observation:  a == b, b == a (True/False/raises), whether hash(a), hash(b) succeed,
   and whether the two hash values are equal. *)
Record caseEq := { e_v : variants; e_a : thing; e_b : thing;
                   e_ab : tri; e_ba : tri; e_ha : bool; e_hb : bool; e_hh : bool }.

Definition checkEq (k : caseEq) : bool :=
  let v := e_v k in
  let ka := thing_key v (e_a k) in let kb := thing_key v (e_b k) in
  tri_eqb (thing_eqt v (e_a k) (e_b k)) (e_ab k)
  && tri_eqb (thing_eqt v (e_b k) (e_a k)) (e_ba k)
  && Bool.eqb (hashable ka) (e_ha k)
  && Bool.eqb (hashable kb) (e_hb k)
  (* equivalent keys must give equal hashes (the converse is not required of an implementation) *)
  && (negb (hashable ka && hashable kb && key_eqv ka kb) || e_hh k).

(* membership  x in S : the space descriptor carried by x, the space S, the outcome;
   m_xs = None stands for an object without a .space attribute (None, numbers, arrays) *)
Record caseIn := { m_v : variants; m_S : obj Q; m_xs : option (obj Q); m_res : tri }.

Definition checkIn (k : caseIn) : bool :=
  match m_xs k with
  | Some xs => tri_eqb (contains (m_v k) (m_S k) (ETens xs 0 [])) (m_res k)
  | None => tri_eqb FF (m_res k)
  end.
