(* C20/Corr.v -- correspondence checkers (executed at Q by the shards). *)
From Coq Require Import ZArith QArith List Bool.
From Verif Require Import Base.Num Base.Check C20.Syntax C20.Model.
Import ListNotations.

(* anything that has a paired __eq__/__hash__: a Set/space, a weighting, a partition *)
Inductive thing := TObj (o : obj Q) | TW (w : weighting Q) | TPart (p : part Q).

Definition thing_eqt (v : variants) (a b : thing) : tri :=
  match a, b with
  | TObj x, TObj y => eqt v x y
  | TW x, TW y => tri_of (w_eqb x y)
  | TPart x, TPart y => part_eqt v x y
  | _, _ => FF
  end.

Definition thing_key (v : variants) (a : thing) : key Q :=
  match a with
  | TObj x => hash_key v x
  | TW x => w_key v x
  | TPart x => part_key x
  end.

(* One observation:  a == b, b == a (True/False/raises), whether hash(a), hash(b) succeed,
   and whether the two hash values are equal. *)
Record caseEq := { e_v : variants; e_a : thing; e_b : thing; e_same : bool (* b is the very object a *);
                   e_ab : tri; e_ba : tri; e_ha : bool; e_hb : bool; e_hh : bool }.

Definition checkEq (k : caseEq) : bool :=
  let v := e_v k in
  let ka := thing_key v (e_a k) in let kb := thing_key v (e_b k) in
  (* the `is` shortcuts of the code are not modelled; they matter only where comparing an
     object with itself would not give True, which cannot happen once the ndim guard is in
     (theorem eq_reflexive) -- such same-object cases are not compared *)
  ((e_same k && negb (tri_eqb (thing_eqt v (e_a k) (e_a k)) TT)) ||
   (tri_eqb (thing_eqt v (e_a k) (e_b k)) (e_ab k)
    && tri_eqb (thing_eqt v (e_b k) (e_a k)) (e_ba k)))
  && Bool.eqb (hashable ka) (e_ha k)
  && Bool.eqb (hashable kb) (e_hb k)
  (* equivalent keys must give equal hashes (the converse is not required of an implementation) *)
  && (negb (hashable ka && hashable kb && key_eqv ka kb) || e_hh k).

(* membership  x in S : the space descriptor carried by x, the space S, the outcome;
   m_xs = None stands for an object without a .space attribute (None, numbers, arrays) *)
Record caseIn := { m_v : variants; m_S : obj Q; m_xs : option (obj Q); m_res : tri }.

Definition checkIn (k : caseIn) : bool :=
  match m_xs k with
  | Some xs => tri_eqb (contains (m_v k) (m_S k) (ETens xs 0 [])) (m_res k)
  | None => tri_eqb FF (m_res k)
  end.

(* ------------------------------------------------------------ derived spaces *)
From Verif Require Import Gen.C20Tables C20.Derived.

Definition wkind_beq (a b : wkind) := match a, b with KNpy, KNpy | KPs, KPs => true | _, _ => false end.
Definition ext_beq (a b : ext Q) := ext_eqb a b.
Definition expo_beq (a b : expo Q) := expo_eqb a b.
Definition w_beq (a b : weighting Q) : bool :=
  match a, b with
  | WConst k c e, WConst k' c' e' => wkind_beq k k' && Qeq_bool c c' && expo_beq e e'
  | WArray k i e, WArray k' i' e' =>
      (* model side first: fresh_id stands for an array object created by the call *)
      wkind_beq k k' && (Z.eqb i i' || (Z.eqb i fresh_id && Z.leb 1000 i')) && expo_beq e e'
  | WInner k f, WInner k' f' => wkind_beq k k' && Z.eqb f f'
  | WNorm k f, WNorm k' f' => wkind_beq k k' && Z.eqb f f'
  | WDist k f, WDist k' f' => wkind_beq k k' && Z.eqb f f'
  | WMatrix i e, WMatrix i' e' => Z.eqb i i' && expo_beq e e'
  | _, _ => false
  end.
Definition tsp_beq (a b : tsp Q) : bool :=
  Zs_eqb (ts_shape a) (ts_shape b) && dtype_eqb (ts_dtype a) (ts_dtype b) && w_beq (ts_w a) (ts_w b).
Definition part_beq (a b : part Q) : bool :=
  all2 (fun x y => ext_beq (fst x) (fst y) && ext_beq (snd x) (snd y)) (p_intv a) (p_intv b)
  && all2 (all2 Qeq_bool) (p_grid a) (p_grid b).

(* exact agreement of two space descriptors (class family of weightings and field included) *)
Fixpoint obj_beq (a b : obj Q) {struct a} : bool :=
  match a, b with
  | OTensor t, OTensor t' => tsp_beq t t'
  | ODiscr p t, ODiscr p' t' => part_beq p p' && tsp_beq t t'
  | OProd l w f, OProd l' w' f' =>
      w_beq w w' && ofield_eqb f f' &&
      (fix go (l l' : list (obj Q)) {struct l} : bool :=
         match l, l' with
         | [], [] => true
         | x :: l1, y :: l2 => obj_beq x y && go l1 l2
         | _, _ => false
         end) l l'
  | OReal, OReal | OComplex, OComplex => true
  | _, _ => false
  end.

Definition res_beq {A} (f : A -> A -> bool) (a b : res A) : bool :=
  match a, b with
  | Ok x, Ok y => f x y
  | ErrValue, ErrValue | ErrIndex, ErrIndex | ErrType, ErrType => true
  | _, _ => false
  end.

Inductive dop := DAstype (d : dtype) | DReal | DComplex | DGetitem (i : pidx) | DByaxis (i : aidx) | DByaxisIn (i : aidx).

Definition run_dop (dv : dvariants) (a : obj Q) (op : dop) : res (obj Q) :=
  match op with
  | DAstype d => oastype dv a d
  | DReal => oreal_space dv a
  | DComplex => ocomplex_space dv a
  | DGetitem i => ogetitem dv a i
  | DByaxis i => match a with OTensor t => rmap OTensor (tsp_byaxis dv t i) | _ => ErrType end
  | DByaxisIn i => obyaxis_in dv a i
  end.

Record caseD := { d_dv : dvariants; d_a : obj Q; d_op : dop; d_out : res (obj Q) }.
Definition checkD (k : caseD) : bool := res_beq obj_beq (run_dop (d_dv k) (d_a k) (d_op k)) (d_out k).

(* the measured variant of the array-weighting hash must be the one the source table shows *)
From Verif Require Import C20.Tables.
Record caseV := { cv_v : variants }.
Definition checkV (k : caseV) : bool := Bool.eqb (v_arrw_hash_type (cv_v k)) table_arrw_hash_type.

(* ------------------------------------------------------------ element() *)
From Verif Require Import C20.Element.

(* what the harness observes of  r = S.element(inp) *)
Inductive obs :=
| BSame                                    (* r is inp *)
| BTens (data : list Q) (shares : bool)    (* values; np.shares_memory with the input's buffer *)
| BProd (parts : list obs)
| BValueErr | BTypeErr.

Fixpoint obs_match (r : @eres Q) (o : obs) {struct r} : bool :=
  match r, o with
  | RSame, BSame => true
  | RTens d a, BTens d' s => all2 Qeq_bool d d' && Bool.eqb (match a with Some _ => true | None => false end) s
  | RProdE ps, BProd os =>
      (fix go (ps : list (@eres Q)) (os : list obs) {struct ps} : bool :=
         match ps, os with
         | [], [] => true
         | p :: ps', o :: os' => obs_match p o && go ps' os'
         | _, _ => false
         end) ps os
  | RValueErr, BValueErr => true
  | RTypeErr, BTypeErr => true
  | _, _ => false
  end.

Record caseE := { x_v : variants; x_S : obj Q; x_ord : option ord; x_cast : bool; x_inp : @inp Q; x_out : obs }.
Definition checkE (k : caseE) : bool :=
  obs_match (element_opt (x_v k) (x_ord k) (x_cast k) (x_S k) (x_inp k)) (x_out k).

(* ------------------------------------------------------------ element indexing *)
From Verif Require Import C20.Indexing.
Definition gres_beq (a b : @gres Q) : bool :=
  match a, b with
  | GScalar x, GScalar y => Qeq_bool x y
  | GTens t d, GTens t' d' => tsp_beq t t' && all2 Qeq_bool d d'
  | _, _ => false
  end.
Record caseG := { g_t : tsp Q; g_data : list Q; g_idx : list idx1; g_out : res (@gres Q) }.
Definition checkG (k : caseG) : bool := res_beq gres_beq (tens_getitem (g_t k) (g_data k) (g_idx k)) (g_out k).
