(* C20/EqTables.v -- the comparison tables REGENERATED from the __eq__ / __contains__ methods of
   the code under test (Gen/C20Tables.v), interpreted, are the equality of C20/Model.v -- for
   every pair of objects of each class.  An __eq__ that drops or adds a compared attribute,
   reorders the conjuncts (it matters for which exception is reached), swaps == for `is`,
   or uses anything outside the grammar (np.isclose, approx_equals, ...) breaks a lemma here
   or the translator. *)
From Coq Require Import ZArith List Bool String Reals Lia.
From Verif Require Import Base.Num Base.Check C20.Syntax C20.HashTab C20.EqTab C20.Model Gen.C20Tables C20.Proofs.
Import ListNotations.
Local Open Scope string_scope.

Notation v := live_variants.
Notation eqR := (@eqt R Num_R live_variants).

Lemma tri_of_andb a b : tri_of (a && b) = andt (tri_of a) (tri_of b).
Proof. destruct a, b; reflexivity. Qed.

(* all tables start with a class test *)
Lemma all_eq_tables_test_the_class :
  forallb has_class_test [eq_EmptySet; eq_UniversalSet; eq_Strings; eq_ComplexNumbers; eq_RealNumbers; eq_Integers;
    eq_CartesianProduct; eq_SetUnion; eq_SetIntersection; eq_FiniteSet; eq_IntervalProd; eq_RectGrid;
    eq_RectPartition; eq_TensorSpace; eq_NumpyTensorSpace; eq_DiscretizedSpace; eq_ProductSpace; eq_Weighting;
    eq_ConstWeighting; eq_ArrayWeighting; eq_MatrixWeighting; eq_CustomInner; eq_CustomNorm; eq_CustomDist] = true.
Proof. reflexivity. Qed.

Definition same_class (c : string) : eatom -> option tri :=
  fun a => match a with
           | ESameType => Some TT
           | EIsInstance c' => if String.eqb c c' then Some TT else None
           | _ => None end.

(* ---- the atomic sets ---- *)
Lemma eqtab_EmptySet : interp_eq (same_class "EmptySet") eq_EmptySet = eqR OEmpty OEmpty.
Proof. reflexivity. Qed.
Lemma eqtab_UniversalSet : interp_eq (same_class "UniversalSet") eq_UniversalSet = eqR OUniv OUniv.
Proof. reflexivity. Qed.
Lemma eqtab_ComplexNumbers : interp_eq (same_class "ComplexNumbers") eq_ComplexNumbers = eqR OComplex OComplex.
Proof. reflexivity. Qed.
Lemma eqtab_RealNumbers : interp_eq (same_class "RealNumbers") eq_RealNumbers = eqR OReal OReal.
Proof. reflexivity. Qed.
Lemma eqtab_Integers : interp_eq (same_class "Integers") eq_Integers = eqR OInt OInt.
Proof. reflexivity. Qed.

Lemma eqtab_Strings n m :
  interp_eq (fun a => match a with
                      | EAttrEq "length" false => Some (tri_of (Z.eqb m n))     (* other.length == self.length *)
                      | _ => same_class "Strings" a end) eq_Strings
  = eqR (OStrings n) (OStrings m).
Proof. reflexivity. Qed.

(* ---- containers ---- *)
Lemma eqtab_CartesianProduct l1 l2 :
  interp_eq (fun a => match a with
                      | EAttrEq "sets" true => Some (tupt eqR l1 l2)          (* tuple == tuple *)
                      | _ => same_class "" a end) eq_CartesianProduct
  = eqR (OCart l1) (OCart l2).
Proof. rewrite eqt_cart. reflexivity. Qed.

Definition sem_setlike (l1 l2 : list (obj R)) : eatom -> option tri :=
  fun a => match a with
           | EAllIn "sets" true => Some (allt (fun s => anyt (fun t => eqR s t) l2) l1)
           | EAllIn "sets" false => Some (allt (fun t => anyt (fun s => eqR s t) l1) l2)
           | _ => same_class "" a end.
Lemma eqtab_SetUnion l1 l2 : interp_eq (sem_setlike l1 l2) eq_SetUnion = eqR (OUnion l1) (OUnion l2).
Proof. rewrite eqt_union. reflexivity. Qed.
Lemma eqtab_SetIntersection l1 l2 : interp_eq (sem_setlike l1 l2) eq_SetIntersection = eqR (OInter l1) (OInter l2).
Proof. rewrite eqt_inter. reflexivity. Qed.

Lemma eqtab_FiniteSet (e1 e2 : list (atom R)) :
  interp_eq (fun a => match a with
                      | EAllInObj true => Some (tri_of (forallb (fun x => existsb (fun y => atom_eqb y x) e2) e1))
                      | EAllInObj false => Some (tri_of (forallb (fun y => existsb (fun x => atom_eqb x y) e1) e2))
                      | _ => same_class "" a end) eq_FiniteSet
  = eqR (OFinite e1) (OFinite e2).
Proof. cbn. rewrite tri_of_andb. reflexivity. Qed.

(* ---- IntervalProd, RectGrid, RectPartition ---- *)
Definition sem_intv (a b : list (ext R * ext R)) : eatom -> option tri :=
  fun x => match x with
           | EAttrEq "ndim" true => Some (tri_of (Nat.eqb (List.length a) (List.length b)))
           | ENpAllEq "min_pt" => Some (bcast_all ext_eqb (map fst a) (map fst b))   (* NumPy == then np.all *)
           | ENpAllEq "max_pt" => Some (bcast_all ext_eqb (map snd a) (map snd b))
           | _ => same_class "IntervalProd" x end.
Lemma eqtab_IntervalProd a b : interp_eq (sem_intv a b) eq_IntervalProd = @intv_eqt R _ v a b.
Proof.
  unfold intv_eqt. cbn. destruct (Nat.eqb (List.length a) (List.length b)) eqn:E; [|reflexivity].
  unfold bcast_all. rewrite !map_length, E. cbn. rewrite tri_of_andb. reflexivity.
Qed.

(* zip stops at the shorter sequence *)
Fixpoint zipb {A} (f : A -> A -> bool) (l1 l2 : list A) : bool :=
  match l1, l2 with x :: l1', y :: l2' => f x y && zipb f l1' l2' | _, _ => true end.
Lemma zipb_all2 {A} (f : A -> A -> bool) (a b : list (list A)) (g : list A -> list A -> bool) :
  all2 Nat.eqb (map (@List.length A) a) (map (@List.length A) b) = true -> zipb g a b = all2 g a b.
Proof.
  revert b. induction a as [|x a IH]; intros [|y b]; cbn; try reflexivity; try discriminate.
  intro E. apply andb_true_iff in E as [_ E]. rewrite (IH _ E). reflexivity.
Qed.

Definition sem_grid (a b : list (list R)) : eatom -> option tri :=
  fun x => match x with
           | EAttrEq "shape" true => Some (tri_of (all2 Nat.eqb (map (@List.length R) a) (map (@List.length R) b)))
           | EZipArrayEqual "coord_vectors" => Some (tri_of (zipb (all2 neqb) a b))
           | _ => same_class "" x end.
Lemma eqtab_RectGrid a b : interp_eq (sem_grid a b) eq_RectGrid = tri_of (@grid_eqb R _ a b).
Proof.
  unfold grid_eqb. cbn. destruct (all2 Nat.eqb _ _) eqn:E; [|reflexivity].
  cbn. rewrite (zipb_all2 neqb _ _ _ E). reflexivity.
Qed.

Lemma eqtab_RectPartition (p q : part R) :
  interp_eq (fun x => match x with
                      | EAttrEq "set" true => Some (intv_eqt v (p_intv p) (p_intv q))
                      | EAttrEq "grid" true => Some (tri_of (grid_eqb (p_grid p) (p_grid q)))
                      | _ => same_class "" x end) eq_RectPartition
  = part_eqt v p q.
Proof. reflexivity. Qed.

(* ---- weightings ---- *)
Definition sem_weighting (a b : weighting R) : eatom -> option tri :=
  fun x => match x with
           | EAttrEq "impl" true => Some TT                       (* 'numpy' for every class here *)
           | EAttrEq "exponent" true => Some (tri_of (expo_eqb (w_expo a) (w_expo b)))
           | _ => same_class "Weighting" x end.
Definition base_eq (a b : weighting R) : tri := interp_eq (sem_weighting a b) eq_Weighting.

Lemma eqtab_ConstWeighting k c e k' c' e' :
  interp_eq (fun x => match x with
                      | ESuper => Some (base_eq (WConst k c e) (WConst k' c' e'))
                      | EAttrEqGetattr "const" => Some (tri_of (@neqb R _ c c'))   (* exact float == *)
                      | _ => None end) eq_ConstWeighting
  = tri_of (w_eqb (WConst k c e) (WConst k' c' e')).
Proof. unfold w_eqb. rewrite tri_of_andb. reflexivity. Qed.
(* against a weighting without a .const: getattr gives None, the comparison is False *)
Lemma eqtab_ConstWeighting_other k c e (b : weighting R) :
  (forall k' c' e', b <> WConst k' c' e') ->
  interp_eq (fun x => match x with
                      | ESuper => Some (base_eq (WConst k c e) b)
                      | EAttrEqGetattr "const" => Some FF
                      | _ => None end) eq_ConstWeighting
  = tri_of (w_eqb (WConst k c e) b).
Proof.
  intro Hb. unfold w_eqb. rewrite tri_of_andb.
  destruct b; try reflexivity. exfalso. eapply Hb. reflexivity.
Qed.
Lemma eqtab_ArrayWeighting k i e k' j e' :
  interp_eq (fun x => match x with
                      | ESuper => Some (base_eq (WArray k i e) (WArray k' j e'))
                      | EAttrIs "array" => Some (tri_of (Z.eqb i j))             (* identity of the array *)
                      | _ => None end) eq_ArrayWeighting
  = tri_of (@w_eqb R _ (WArray k i e) (WArray k' j e')).
Proof. unfold w_eqb. rewrite tri_of_andb. reflexivity. Qed.
Lemma eqtab_MatrixWeighting i e j e' :
  interp_eq (fun x => match x with
                      | ESuper => Some (base_eq (WMatrix i e) (WMatrix j e'))
                      | EAttrIs "matrix" => Some (tri_of (Z.eqb i j))
                      | _ => None end) eq_MatrixWeighting
  = tri_of (@w_eqb R _ (WMatrix i e) (WMatrix j e')).
Proof. unfold w_eqb. rewrite tri_of_andb. reflexivity. Qed.
Lemma eqtab_CustomInner k f k' g :
  interp_eq (fun x => match x with
                      | ESuper => Some (base_eq (WInner k f) (WInner k' g))
                      | EAttrEq "inner" true => Some (tri_of (Z.eqb f g))        (* a callable equals itself only *)
                      | _ => None end) eq_CustomInner
  = tri_of (@w_eqb R _ (WInner k f) (WInner k' g)).
Proof. unfold w_eqb. rewrite tri_of_andb. reflexivity. Qed.
Lemma eqtab_CustomNorm k f k' g :
  interp_eq (fun x => match x with
                      | ESuper => Some (base_eq (WNorm k f) (WNorm k' g))
                      | EAttrEq "norm" true => Some (tri_of (Z.eqb f g))
                      | _ => None end) eq_CustomNorm
  = tri_of (@w_eqb R _ (WNorm k f) (WNorm k' g)).
Proof. unfold w_eqb. rewrite tri_of_andb. reflexivity. Qed.
Lemma eqtab_CustomDist k f k' g :
  interp_eq (fun x => match x with
                      | ESuper => Some (base_eq (WDist k f) (WDist k' g))
                      | EAttrEq "dist" true => Some (tri_of (Z.eqb f g))
                      | _ => None end) eq_CustomDist
  = tri_of (@w_eqb R _ (WDist k f) (WDist k' g)).
Proof. unfold w_eqb. rewrite tri_of_andb. reflexivity. Qed.

(* ---- spaces ---- *)
Definition sem_tensorspace (t1 t2 : tsp R) : eatom -> option tri :=
  fun x => match x with
           | EAttrEq "shape" true => Some (tri_of (Zs_eqb (ts_shape t1) (ts_shape t2)))
           | EAttrEq "dtype" true => Some (tri_of (dtype_eqb (ts_dtype t1) (ts_dtype t2)))
           | _ => same_class "" x end.
Definition tensorspace_eq (t1 t2 : tsp R) : tri := interp_eq (sem_tensorspace t1 t2) eq_TensorSpace.

Lemma eqtab_NumpyTensorSpace t1 t2 :
  interp_eq (fun x => match x with
                      | ESuper => Some (tensorspace_eq t1 t2)
                      | EAttrEq "weighting" true => Some (tri_of (w_eqb (ts_w t1) (ts_w t2)))
                      | _ => None end) eq_NumpyTensorSpace
  = eqR (OTensor t1) (OTensor t2).
Proof. cbn. unfold tsp_eqb. rewrite !tri_of_andb. destruct (tri_of (Zs_eqb _ _)); reflexivity. Qed.

Lemma eqtab_DiscretizedSpace p1 t1 p2 t2 :
  interp_eq (fun x => match x with
                      | ESuper => Some (tensorspace_eq t1 t2)
                      | EAttrEq "tspace" false => Some (tri_of (tsp_eqb t2 t1))       (* other.tspace == self.tspace *)
                      | EAttrEq "partition" false => Some (part_eqt v p2 p1)
                      | _ => None end) eq_DiscretizedSpace
  = eqR (ODiscr p1 t1) (ODiscr p2 t2).
Proof. cbn [eqt]. rewrite tri_of_andb. cbn. destruct (tri_of (Zs_eqb _ _)); reflexivity. Qed.

Lemma eqtab_ProductSpace l1 w1 f1 l2 w2 f2 :
  interp_eq (fun x => match x with
                      | ELenEq => Some (tri_of (Nat.eqb (List.length l1) (List.length l2)))
                      | EAttrEq "weighting" true => Some (tri_of (w_eqb w1 w2))
                      | EZipAllEq "spaces" => Some (zipt eqR l1 l2)
                      | _ => same_class "ProductSpace" x end) eq_ProductSpace
  = eqR (OProd l1 w1 f1) (OProd l2 w2 f2).
Proof. rewrite eqt_prod. cbn. destruct (Nat.eqb _ _); [|reflexivity]. destruct (w_eqb w1 w2); reflexivity. Qed.

(* ---- membership ---- *)
Definition interp_contains (c : ctab) (S : obj R) (x : elem R) : tri :=
  match c with CSpaceEqSelf => eqR (space_of x) S end.
Lemma ctab_spaces S x :
  interp_contains contains_LinearSpace S x = contains v S x /\
  interp_contains contains_TensorSpace S x = contains v S x.
Proof. split; reflexivity. Qed.
