(* C20/Derived.v -- derived-space constructors (definitions only):
     TensorSpace.astype/_astype/real_space/complex_space, DiscretizedSpace._astype,
     ProductSpace.astype/real_space/complex_space/dtype, ProductSpace.__getitem__,
     Python slice resolution, NumpyTensorSpace.byaxis (shape part).
   The dtype predicates come from Gen/C20Tables.v (regenerated from odl.util). *)
From Coq Require Import ZArith List Bool.
From Verif Require Import Base.Num Base.Check C20.Syntax C20.Model Gen.C20Tables.
Import ListNotations.

Inductive res (A : Type) := Ok (a : A) | ErrValue | ErrIndex | ErrType.
Arguments Ok {A} a. Arguments ErrValue {A}. Arguments ErrIndex {A}. Arguments ErrType {A}.

Definition rbind {A B} (r : res A) (f : A -> res B) : res B :=
  match r with Ok a => f a | ErrValue => ErrValue | ErrIndex => ErrIndex | ErrType => ErrType end.
Definition rmap {A B} (f : A -> B) (r : res A) : res B := rbind r (fun a => Ok (f a)).
Fixpoint rall {A} (l : list (res A)) : res (list A) :=
  match l with
  | [] => Ok []
  | r :: l' => rbind r (fun a => rmap (cons a) (rall l'))
  end.

(* switches for the behaviours recorded as findings (true = repaired) *)
Record dvariants := {
  dv_astype_num_keeps_w : bool;   (* TensorSpace._astype keeps the weighting for every numeric target
                                     (current code: only for floating-point targets) *)
  dv_ps_astype_keeps_w : bool;    (* ProductSpace.astype/real_space/complex_space keep the product weighting *)
  dv_ps_getitem_keeps_w : bool;   (* ProductSpace.__getitem__ (slice/list) keeps a constant product weighting *)
  dv_byaxis_nonnum_ok : bool      (* byaxis does not pass a weighting for non-numeric dtypes *)
}.
Definition current_dvariants :=
  {| dv_astype_num_keeps_w := false; dv_ps_astype_keeps_w := false; dv_ps_getitem_keeps_w := false;
     dv_byaxis_nonnum_ok := true |}.
Definition repaired_dvariants :=
  {| dv_astype_num_keeps_w := true; dv_ps_astype_keeps_w := true; dv_ps_getitem_keeps_w := true;
     dv_byaxis_nonnum_ok := true |}.

(* ------------------------------------------------------------ Python slices and indices *)
(* slice(start, stop, step).indices(n) and the positions range(start, stop, step) *)
Record pyslice := { sl_start : option Z; sl_stop : option Z; sl_step : option Z }.

Definition clip_idx (n lower upper : Z) (i : Z) : Z :=
  if (i <? 0)%Z then Z.max (i + n) lower else Z.min i upper.

Definition slice_indices (n : Z) (s : pyslice) : res (Z * Z * Z) :=
  let step := match sl_step s with None => 1%Z | Some k => k end in
  if (step =? 0)%Z then ErrValue else
  let lower := if (step <? 0)%Z then (-1)%Z else 0%Z in
  let upper := if (step <? 0)%Z then (n - 1)%Z else n in
  let start := match sl_start s with
               | None => if (step <? 0)%Z then upper else lower
               | Some i => clip_idx n lower upper i end in
  let stop := match sl_stop s with
              | None => if (step <? 0)%Z then lower else upper
              | Some i => clip_idx n lower upper i end in
  Ok (start, stop, step).

Definition range_len (start stop step : Z) : Z :=
  if (0 <? step)%Z then (if (start <? stop)%Z then (stop - start - 1) / step + 1 else 0)%Z
  else (if (stop <? start)%Z then (start - stop - 1) / (- step) + 1 else 0)%Z.

Fixpoint range_from (start step : Z) (k : nat) : list Z :=
  match k with O => [] | S k' => start :: range_from (start + step) step k' end.

Definition slice_positions (n : Z) (s : pyslice) : res (list Z) :=
  rmap (fun '(start, stop, step) => range_from start step (Z.to_nat (range_len start stop step)))
       (slice_indices n s).

(* seq[i] for an int: negative indices count from the end; out of range -> IndexError *)
Definition norm_index (n i : Z) : res Z :=
  let j := if (i <? 0)%Z then (i + n)%Z else i in
  if ((0 <=? j) && (j <? n))%Z then Ok j else ErrIndex.

Definition nth_res {A} (l : list A) (i : Z) : res A :=
  rbind (norm_index (Z.of_nat (length l)) i)
        (fun j => match nth_error l (Z.to_nat j) with Some a => Ok a | None => ErrIndex end).

(* tuple[slice]: never raises for step <> 0 *)
Definition select_slice {A} (l : list A) (s : pyslice) : res (list A) :=
  rbind (slice_positions (Z.of_nat (length l)) s)
        (fun ps => rall (map (fun p => match nth_error l (Z.to_nat p) with Some a => Ok a | None => ErrIndex end) ps)).

Definition select_list {A} (l : list A) (is : list Z) : res (list A) :=
  rall (map (nth_res l) is).

Section D.
Context {T : Type} `{Num T}.
Variable dv : dvariants.

Definition default_npy_w : weighting T := WConst KNpy (of_Z 1) (EFin (of_Z 2)).
Definition default_ps_w : weighting T := WConst KPs (of_Z 1) (EFin (of_Z 2)).

Definition field_of_dtype (d : dtype) : ofield :=
  if is_real_dt d then FReal else if is_complex_floating d then FComplex else FNone.

(* ------------------------------------------------------------ NumpyTensorSpace(shape, dtype[, weighting=w]) *)
(* the constructor checks that matter when a derived space is built from an existing
   weighting object (weighting arrays are float64 in this model) *)
Definition mk_tsp (shape : list Z) (d : dtype) (ow : option (weighting T)) : res (tsp T) :=
  if negb (is_available d) then ErrValue else
  match ow with
  | None => Ok {| ts_shape := shape; ts_dtype := d; ts_w := default_npy_w |}
  | Some w =>
      if negb (is_numeric d) then ErrValue
      else match w with
           | WArray KNpy _ _ =>
               if can_cast_from_f64 d then Ok {| ts_shape := shape; ts_dtype := d; ts_w := w |} else ErrValue
           | _ => Ok {| ts_shape := shape; ts_dtype := d; ts_w := w |}
           end
  end.

(* TensorSpace.astype + _astype *)
Definition tsp_astype (t : tsp T) (d : dtype) : res (tsp T) :=
  if dtype_eqb d (ts_dtype t) then Ok t
  else
    let keep := if dv_astype_num_keeps_w dv then is_numeric d else is_floating d in
    mk_tsp (ts_shape t) d (if keep then Some (ts_w t) else None).

Definition tsp_real_dtype (t : tsp T) : option dtype :=
  if is_real_dt (ts_dtype t) then Some (ts_dtype t) else c2r (ts_dtype t).
Definition tsp_complex_dtype (t : tsp T) : option dtype :=
  if is_real_dt (ts_dtype t) then r2c (ts_dtype t) else Some (ts_dtype t).

Definition tsp_real_space (t : tsp T) : res (tsp T) :=
  if negb (is_numeric (ts_dtype t)) then ErrValue
  else match tsp_real_dtype t with Some d => tsp_astype t d | None => ErrValue end.
Definition tsp_complex_space (t : tsp T) : res (tsp T) :=
  if negb (is_numeric (ts_dtype t)) then ErrValue
  else match tsp_complex_dtype t with Some d => tsp_astype t d | None => ErrValue end.

(* ------------------------------------------------------------ ProductSpace.dtype *)
Inductive dres := DOk (d : dtype) | DMixed (* AttributeError *) | DIndexErr (* empty product: dtypes[0] *) | DNoAttr.

Fixpoint odtype (a : obj T) : dres :=
  match a with
  | OTensor t => DOk (ts_dtype t)
  | ODiscr _ t => DOk (ts_dtype t)
  | OProd l _ _ =>
      (* dtypes = [s.dtype for s in spaces]: the first failing component decides *)
      (fix go (l : list (obj T)) (first : option dtype) (mixed : bool) : dres :=
         match l with
         | [] => match first with
                 | None => DIndexErr
                 | Some d => if mixed then DMixed else DOk d
                 end
         | s :: l' =>
             match odtype s with
             | DOk d => match first with
                        | None => go l' (Some d) mixed
                        | Some d0 => go l' first (mixed || negb (dtype_eqb d d0))
                        end
             | r => r
             end
         end) l None false
  | _ => DNoAttr
  end.

Definition ofield_of (a : obj T) : ofield :=
  match a with
  | OTensor t => field_of_dtype (ts_dtype t)
  | ODiscr _ t => field_of_dtype (ts_dtype t)
  | OProd _ _ f => f
  | _ => FNone
  end.
Definition ofield_eqb (a b : ofield) : bool :=
  match a, b with FReal, FReal | FComplex, FComplex | FNone, FNone => true | _, _ => false end.

(* ProductSpace(spaces..., field=f, weighting=w): the checks of __init__ *)
Definition mk_prod (l : list (obj T)) (ow : option (weighting T)) (of_ : option ofield) : res (obj T) :=
  let w := match ow with Some w => w | None => default_ps_w end in
  match l with
  | [] => match of_ with Some f => Ok (OProd [] w f) | None => ErrValue end
  | s :: _ =>
      if forallb (fun x => ofield_eqb (ofield_of x) (ofield_of s)) l
      then Ok (OProd l w (match of_ with Some f => f | None => ofield_of s end))
      else ErrValue
  end.

(* ------------------------------------------------------------ astype / real_space / complex_space on any space *)
Fixpoint oastype (a : obj T) (d : dtype) : res (obj T) :=
  match a with
  | OTensor t => rmap OTensor (tsp_astype t d)
  | ODiscr p t =>
      if dtype_eqb d (ts_dtype t) then Ok a else rmap (ODiscr p) (tsp_astype t d)
  | OProd l w f =>
      match odtype a with
      | DIndexErr => ErrIndex
      | cur =>
          (* current_dtype = getattr(self, 'dtype', object): mixed component dtypes give `object` *)
          if match cur with DOk d0 => dtype_eqb d d0 | _ => dtype_eqb d DObj end then Ok a
          else rbind (rall (map (fun s => oastype s d) l))
                     (fun l' => mk_prod l' (if dv_ps_astype_keeps_w dv then Some w else None) None)
      end
  | _ => ErrType
  end.

Fixpoint oreal_space (a : obj T) : res (obj T) :=
  match a with
  | OTensor t => rmap OTensor (tsp_real_space t)
  | ODiscr p t =>
      if negb (is_numeric (ts_dtype t)) then ErrValue
      else match tsp_real_dtype t with
           | Some d => if dtype_eqb d (ts_dtype t) then Ok a else rmap (ODiscr p) (tsp_astype t d)
           | None => ErrValue end
  | OProd l w f =>
      rbind (rall (map oreal_space l))
            (fun l' => mk_prod l' (if dv_ps_astype_keeps_w dv then Some w else None) None)
  | _ => ErrType
  end.

Fixpoint ocomplex_space (a : obj T) : res (obj T) :=
  match a with
  | OTensor t => rmap OTensor (tsp_complex_space t)
  | ODiscr p t =>
      if negb (is_numeric (ts_dtype t)) then ErrValue
      else match tsp_complex_dtype t with
           | Some d => if dtype_eqb d (ts_dtype t) then Ok a else rmap (ODiscr p) (tsp_astype t d)
           | None => ErrValue end
  | OProd l w f =>
      rbind (rall (map ocomplex_space l))
            (fun l' => mk_prod l' (if dv_ps_astype_keeps_w dv then Some w else None) None)
  | _ => ErrType
  end.

(* ------------------------------------------------------------ ProductSpace.__getitem__ *)
(* XBad / PBad: an index of any other type (a list inside a tuple; a float, a string ...) *)
Inductive idx1 := XInt (i : Z) | XSlice (s : pyslice) | XBad.
Inductive pidx := PInt (i : Z) | PSlice (s : pyslice) | PList (is : list Z) | PTuple (t : list idx1) | PBad.

Definition is_prod (a : obj T) : bool := match a with OProd _ _ _ => true | _ => false end.

(* the weighting of a sliced / list-indexed product: dropped by the current code *)
Definition sub_w (w : weighting T) : option (weighting T) :=
  if dv_ps_getitem_keeps_w dv then
    match w with WConst _ _ _ => Some w | _ => None end
  else None.

(* pspace[t] for a tuple t, recursively through nested product spaces *)
Fixpoint getitem_tuple (t : list idx1) (a : obj T) {struct t} : res (obj T) :=
  match t with
  | [] => Ok a
  | i :: rest =>
      match a with
      | OProd l w f =>
          match i with
          | XInt k =>
              rbind (nth_res l k) (fun s =>
                match rest with
                | [] => Ok s
                | _ => if is_prod s then getitem_tuple rest s else ErrIndex
                end)
          | XSlice sl =>
              rbind (select_slice l sl) (fun ss =>
                match rest with
                | [] => mk_prod ss (sub_w w) None
                | _ => if Nat.eqb (length ss) 0 then ErrIndex
                       else if forallb is_prod ss
                       then rbind (rall (map (getitem_tuple rest) ss)) (fun ss' => mk_prod ss' (sub_w w) (Some f))
                       else ErrIndex
                end)
          | XBad => ErrType
          end
      | _ => ErrType
      end
  end.

Definition ogetitem (a : obj T) (i : pidx) : res (obj T) :=
  match a with
  | OProd l w f =>
      match i with
      | PInt k => nth_res l k
      | PSlice sl => rbind (select_slice l sl) (fun ss => mk_prod ss (sub_w w) (Some f))
      | PList is_ => rbind (select_list l is_) (fun ss => mk_prod ss (sub_w w) (Some f))
      | PTuple t => getitem_tuple t a
      | PBad => ErrType
      end
  | _ => ErrType
  end.

(* ------------------------------------------------------------ NumpyTensorSpace.byaxis *)
Inductive aidx := AInt (i : Z) | ASlice (s : pyslice) | AList (is : list Z).

Definition byaxis_shape (shape : list Z) (i : aidx) : res (list Z) :=
  match i with
  | AInt k => rmap (fun n => [n]) (nth_res shape k)
  | ASlice s => select_slice shape s
  | AList is_ => select_list shape is_
  end.

(* weighting.array[indices]: the same index expression applied to the FIRST axis of the
   weighting array (whose shape is the space shape) *)
Definition arr_index_shape (shape : list Z) (i : aidx) : res (list Z) :=
  match shape with
  | [] => ErrIndex
  | n :: tail =>
      match i with
      | AInt k => rmap (fun _ => tail) (norm_index n k)
      | ASlice s => rmap (fun ps => Z.of_nat (length ps) :: tail) (slice_positions n s)
      | AList is_ => rmap (fun ps => Z.of_nat (length ps) :: tail) (rall (map (norm_index n) is_))
      end
  end.

Definition fresh_id : Z := (-1)%Z.

(* non-array weightings are passed on unchanged; an array weighting is replaced by a NEW
   NumpyTensorSpaceArrayWeighting over array[indices], which the constructor accepts only if
   that happens to have the new shape (recorded finding byaxis-array-weighting) *)
Definition tsp_byaxis (t : tsp T) (i : aidx) : res (tsp T) :=
  rbind (byaxis_shape (ts_shape t) i) (fun sh =>
    match ts_w t with
    | WArray _ _ e =>
        rbind (arr_index_shape (ts_shape t) i) (fun ash =>
          rbind (mk_tsp sh (ts_dtype t) (Some (WArray KNpy fresh_id e))) (fun t' =>
            if Zs_eqb ash sh then Ok t' else ErrValue))
    | w => mk_tsp sh (ts_dtype t)
             (if dv_byaxis_nonnum_ok dv && negb (is_numeric (ts_dtype t)) then None else Some w)
    end).

(* ------------------------------------------------------------ DiscretizedSpace.byaxis_in *)
(* RectPartition.cell_sides of one axis: the grid stride (NaN for a non-uniform grid; the
   code tests uniformity with allclose, the model exactly), the extent for a one-point axis *)
Definition axis_side (ends : ext T * ext T) (g : list T) : option T :=
  match g with
  | [] => None
  | [_] => match ends with (Fin lo, Fin hi) => Some (hi - lo)%num | _ => None end
  | x0 :: ((x1 :: _) as tl) =>
      let d := (x1 - x0)%num in
      if (fix uni (prev : T) (l : list T) : bool :=
            match l with [] => true | y :: l' => neqb (y - prev)%num d && uni y l' end) x0 tl
      then Some d else None
  end.

(* RectPartition.cell_volume: 0.0 for an empty partition, else the product of the cell sides *)
Fixpoint cell_volume (intv : list (ext T * ext T)) (grid : list (list T)) : option T :=
  match intv, grid with
  | e :: intv', g :: grid' =>
      match axis_side e g, cell_volume intv' grid' with
      | Some s, Some v => Some (s * v)%num
      | _, _ => None
      end
  | _, _ => Some (of_Z 1)
  end.

(* the axes partition.byaxis[indices] keeps: for an int or a list the given ones in the given
   order; for a slice the axes of the slice IN INCREASING ORDER (it is applied as a mask) *)
Definition axis_positions (n : Z) (i : aidx) : res (list Z) :=
  match i with
  | AInt k => rmap (fun j => [j]) (norm_index n k)
  | ASlice s => rmap (fun ps => match sl_step s with
                                | Some st => if (st <? 0)%Z then rev ps else ps
                                | None => ps end) (slice_positions n s)
  | AList is_ => rall (map (norm_index n) is_)
  end.

Definition select_pos {A} (l : list A) (ps : list Z) : res (list A) :=
  rall (map (fun p => match nth_error l (Z.to_nat p) with Some a => Ok a | None => ErrIndex end) ps).

Definition obyaxis_in (a : obj T) (i : aidx) : res (obj T) :=
  match a with
  | ODiscr p t =>
      let n := Z.of_nat (length (p_grid p)) in
      (* a 0-dimensional partition indexed with a slice: partition[()] is not a partition (TypeError) *)
      if match i with ASlice _ => (n =? 0)%Z | _ => false end then ErrType else
      rbind (axis_positions n i) (fun ps =>
      rbind (select_pos (p_intv p) ps) (fun intv' =>
      rbind (select_pos (p_grid p) ps) (fun grid' =>
        let p' := {| p_intv := intv'; p_grid := grid' |} in
        rbind
          (match ts_w t with
           | WConst _ _ e =>
               (* the weighting constant is REPLACED by the cell volume of the sub-partition *)
               rbind (byaxis_shape (ts_shape t) i) (fun sh =>
                 match (match intv' with [] => Some nzero | _ => cell_volume intv' grid' end) with
                 | Some c => if nltb nzero c then mk_tsp sh (ts_dtype t) (Some (WConst KNpy c e)) else ErrValue
                 | None => ErrValue
                 end)
           | _ => tsp_byaxis t i
           end)
          (fun t' => if Zs_eqb (map (fun g => Z.of_nat (length g)) grid') (ts_shape t')
                     then Ok (ODiscr p' t') else ErrValue))))
  | _ => ErrType
  end.

End D.
