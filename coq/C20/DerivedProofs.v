(* C20/DerivedProofs.v -- lemmas about C20/Derived.v, for every carrier and every nesting depth. *)
From Coq Require Import ZArith List Bool Lia.
From Verif Require Import Base.Num Base.Check C20.Syntax C20.Model Gen.C20Tables C20.Derived.
Import ListNotations.

Section DP.
Context {T : Type} `{Num T}.
Variable dv : dvariants.

(* what a derived space must share with its source: the tree of shapes / partitions *)
Inductive skel := SKTens (shape : list Z) | SKDiscr (p : part T) (shape : list Z) | SKProd (l : list skel) | SKOther.

Fixpoint skel_of (a : obj T) : skel :=
  match a with
  | OTensor t => SKTens (ts_shape t)
  | ODiscr p t => SKDiscr p (ts_shape t)
  | OProd l _ _ => SKProd (map skel_of l)
  | _ => SKOther
  end.

(* the tensor-space leaves, left to right *)
Fixpoint leaves (a : obj T) : list (tsp T) :=
  match a with
  | OTensor t => [t]
  | ODiscr _ t => [t]
  | OProd l _ _ => flat_map leaves l
  | _ => []
  end.

(* the weightings of the product-space nodes, in preorder *)
Fixpoint pweights (a : obj T) : list (weighting T) :=
  match a with
  | OProd l w _ => w :: flat_map pweights l
  | _ => []
  end.

(* ---- generic facts on res ---- *)
Lemma rbind_Ok {A B} (r : res A) (f : A -> res B) b : rbind r f = Ok b -> exists a, r = Ok a /\ f a = Ok b.
Proof. destruct r; cbn; try discriminate. eauto. Qed.
Lemma rmap_Ok {A B} (f : A -> B) (r : res A) b : rmap f r = Ok b -> exists a, r = Ok a /\ b = f a.
Proof. unfold rmap. intro E. apply rbind_Ok in E as [a [E1 E2]]. inversion E2. eauto. Qed.

Lemma rall_Ok {A B} (f : A -> res B) (l : list A) l' :
  rall (map f l) = Ok l' -> Forall2 (fun x y => f x = Ok y) l l'.
Proof.
  revert l'. induction l as [|x l IH]; cbn; intros l' E.
  - inversion E. constructor.
  - apply rbind_Ok in E as [y [Ey E]]. apply rmap_Ok in E as [l2 [El ->]]. constructor; auto.
Qed.

(* ---- tensor spaces ---- *)
Lemma mk_tsp_Ok shape d ow t : mk_tsp shape d ow = Ok t ->
  ts_shape t = shape /\ ts_dtype t = d /\ is_available d = true /\
  ts_w t = match ow with Some w => w | None => default_npy_w end.
Proof.
  unfold mk_tsp. destruct (is_available d) eqn:Ea; cbn [negb]; [|discriminate].
  destruct ow as [w|].
  - destruct (negb (is_numeric d)); [discriminate|].
    destruct w as [k c e|k i e|k f|k f|k f].
    2: destruct k; [destruct (can_cast_from_f64 d); [|discriminate]|].
    all: intro E; inversion E; cbn; repeat split; auto.
  - intro E; inversion E; cbn; repeat split; auto.
Qed.

Lemma dtype_eqb_true a b : dtype_eqb a b = true -> a = b.
Proof. destruct a, b; cbn; congruence. Qed.

Definition keep_w (d : dtype) : bool := if dv_astype_num_keeps_w dv then is_numeric d else is_floating d.

Lemma tsp_astype_Ok t d t' : tsp_astype dv t d = Ok t' ->
  ts_shape t' = ts_shape t /\
  (is_available d = true -> ts_dtype t' = d) /\
  (t' = t \/ (is_available d = true /\ ts_dtype t' = d /\
              ts_w t' = if keep_w d then ts_w t else default_npy_w)).
Proof.
  unfold tsp_astype. destruct (dtype_eqb d (ts_dtype t)) eqn:Ed.
  - intro E; inversion E; subst t'. apply dtype_eqb_true in Ed. repeat split; auto.
  - intro E. apply mk_tsp_Ok in E as [E1 [E2 [E3 E4]]]. repeat split; auto.
    right. repeat split; auto. rewrite E4. unfold keep_w. destruct (dv_astype_num_keeps_w dv);
      [destruct (is_numeric d) | destruct (is_floating d)]; reflexivity.
Qed.

(* ---- ProductSpace.dtype ---- *)
Fixpoint dt_go (rs : list dres) (first : option dtype) (mixed : bool) : dres :=
  match rs with
  | [] => match first with None => DIndexErr | Some d => if mixed then DMixed else DOk d end
  | r :: rs' =>
      match r with
      | DOk d => match first with
                 | None => dt_go rs' (Some d) mixed
                 | Some d0 => dt_go rs' first (mixed || negb (dtype_eqb d d0))
                 end
      | r => r
      end
  end.

Lemma odtype_prod (l : list (obj T)) w f : odtype (OProd l w f) = dt_go (map (@odtype T) l) None false.
Proof.
  cbn [odtype]. generalize (@None dtype) false. induction l as [|s l IH]; intros first mixed; cbn; [reflexivity|].
  destruct (odtype s); try reflexivity. destruct first; apply IH.
Qed.

Lemma dt_go_Ok rs first mixed d : dt_go rs first mixed = DOk d ->
  mixed = false /\ Forall (fun r => r = DOk d) rs /\ (forall d0, first = Some d0 -> d0 = d).
Proof.
  revert first mixed. induction rs as [|r rs IH]; cbn; intros first mixed E.
  - destruct first as [d1|]; [|discriminate]. destruct mixed; [discriminate|]. inversion E. repeat split; auto.
    intros d2 E0; inversion E0; auto.
  - destruct r as [dr| | |]; try discriminate. destruct first as [d1|].
    + apply IH in E as [Em [Ef Ed]]. apply orb_false_iff in Em as [Em1 Em2].
      apply negb_false_iff, dtype_eqb_true in Em2. specialize (Ed d1 eq_refl). subst.
      repeat split; auto. intros ? E0; inversion E0; auto.
    + apply IH in E as [Em [Ef Ed]]. specialize (Ed dr eq_refl). subst. repeat split; auto. discriminate.
Qed.

Lemma odtype_Ok_leaves : forall (a : obj T) d, odtype a = DOk d -> Forall (fun t => ts_dtype t = d) (leaves a).
Proof.
  induction a as [| |n| | | |l IH|l IH|l IH|els|e|g|t|p t|l w f IH] using obj_ind'; intros d E; try discriminate.
  - inversion E. repeat constructor.
  - inversion E. repeat constructor.
  - rewrite odtype_prod in E. apply dt_go_Ok in E as [_ [Ef _]]. cbn [leaves].
    induction IH as [|s l Hs Hl IHl]; cbn; [constructor|].
    inversion Ef; subst. apply Forall_app; split; auto.
Qed.

(* ---- ProductSpace(...) ---- *)
Lemma mk_prod_Ok l ow of_ b : mk_prod l ow of_ = Ok b ->
  exists f, b = OProd l (match ow with Some w => w | None => default_ps_w end) f.
Proof.
  unfold mk_prod. destruct l as [|s l].
  - destruct of_; [|discriminate]. intro E; inversion E; eauto.
  - destruct (forallb _ _); [|discriminate]. intro E; inversion E; eauto.
Qed.

Lemma obj_unavailable : is_available DObj = false.
Proof. reflexivity. Qed.

(* ---- astype on trees ---- *)
Lemma Forall2_skel (l l' : list (obj T)) :
  Forall2 (fun x y => skel_of y = skel_of x) l l' -> map skel_of l' = map skel_of l.
Proof. induction 1; cbn; congruence. Qed.

Theorem oastype_skel : forall (a : obj T) d b, oastype dv a d = Ok b -> skel_of b = skel_of a.
Proof.
  induction a as [| |n| | | |l IH|l IH|l IH|els|e|g|t|p t|l w f IH] using obj_ind'; intros d b E; try discriminate.
  - cbn in E. apply rmap_Ok in E as [t' [E ->]]. apply tsp_astype_Ok in E as [E _]. cbn. congruence.
  - cbn in E. destruct (dtype_eqb d (ts_dtype t)); [inversion E; reflexivity|].
    apply rmap_Ok in E as [t' [E ->]]. apply tsp_astype_Ok in E as [E _]. cbn. congruence.
  - cbn [oastype] in E. destruct (odtype (OProd l w f)) eqn:Ed; try discriminate.
    all: match type of E with (if ?c then _ else _) = _ => destruct c end; [inversion E; reflexivity|].
    all: apply rbind_Ok in E as [l' [El E]]; apply mk_prod_Ok in E as [f' ->]; cbn [skel_of]; f_equal;
      apply Forall2_skel; apply rall_Ok in El;
      clear - IH El; induction El as [|x y l l' Exy El IHl]; [constructor|];
      inversion IH; subst; constructor; eauto.
Qed.

Theorem oastype_dtype : forall (a : obj T) d b, is_available d = true ->
  oastype dv a d = Ok b -> Forall (fun t => ts_dtype t = d) (leaves b).
Proof.
  induction a as [| |n| | | |l IH|l IH|l IH|els|e|g|t|p t|l w f IH] using obj_ind'; intros d b Ha E; try discriminate.
  - cbn in E. apply rmap_Ok in E as [t' [E ->]]. apply tsp_astype_Ok in E as [_ [E _]]. repeat constructor; auto.
  - cbn in E. destruct (dtype_eqb d (ts_dtype t)) eqn:Ed.
    + inversion E; subst. apply dtype_eqb_true in Ed. repeat constructor; auto.
    + apply rmap_Ok in E as [t' [E ->]]. apply tsp_astype_Ok in E as [_ [E _]]. repeat constructor; auto.
  - cbn [oastype] in E. destruct (odtype (OProd l w f)) eqn:Ed; try discriminate.
    + destruct (dtype_eqb d d0) eqn:Edd.
      * inversion E; subst. apply dtype_eqb_true in Edd; subst. apply odtype_Ok_leaves, Ed.
      * apply rbind_Ok in E as [l' [El E]]; apply mk_prod_Ok in E as [f' ->]; cbn [leaves].
        apply rall_Ok in El. clear - IH El Ha. induction El as [|x y l l' Exy El IHl]; cbn; [constructor|].
        inversion IH; subst. apply Forall_app; split; eauto.
    + destruct (dtype_eqb d DObj) eqn:Edd; [apply dtype_eqb_true in Edd; subst; rewrite obj_unavailable in Ha; discriminate|].
      apply rbind_Ok in E as [l' [El E]]; apply mk_prod_Ok in E as [f' ->]; cbn [leaves].
      apply rall_Ok in El. clear - IH El Ha. induction El as [|x y l l' Exy El IHl]; cbn; [constructor|].
      inversion IH; subst. apply Forall_app; split; eauto.
    + destruct (dtype_eqb d DObj) eqn:Edd; [apply dtype_eqb_true in Edd; subst; rewrite obj_unavailable in Ha; discriminate|].
      apply rbind_Ok in E as [l' [El E]]; apply mk_prod_Ok in E as [f' ->]; cbn [leaves].
      apply rall_Ok in El. clear - IH El Ha. induction El as [|x y l l' Exy El IHl]; cbn; [constructor|].
      inversion IH; subst. apply Forall_app; split; eauto.
Qed.

(* leaf weightings survive whenever _astype passes them on *)
Theorem oastype_leaf_weights : forall (a : obj T) d b, keep_w d = true ->
  oastype dv a d = Ok b -> map (@ts_w T) (leaves b) = map (@ts_w T) (leaves a).
Proof.
  induction a as [| |n| | | |l IH|l IH|l IH|els|e|g|t|p t|l w f IH] using obj_ind'; intros d b Hk E; try discriminate.
  - cbn in E. apply rmap_Ok in E as [t' [E ->]]. apply tsp_astype_Ok in E as [_ [_ [->|[_ [_ E]]]]]; cbn; [reflexivity|].
    rewrite Hk in E. congruence.
  - cbn in E. destruct (dtype_eqb d (ts_dtype t)); [inversion E; reflexivity|].
    apply rmap_Ok in E as [t' [E ->]]. apply tsp_astype_Ok in E as [_ [_ [->|[_ [_ E]]]]]; cbn; [reflexivity|].
    rewrite Hk in E. congruence.
  - cbn [oastype] in E. destruct (odtype (OProd l w f)) eqn:Ed; try discriminate.
    all: match type of E with (if ?c then _ else _) = _ => destruct c end; [inversion E; reflexivity|].
    all: apply rbind_Ok in E as [l' [El E]]; apply mk_prod_Ok in E as [f' ->]; cbn [leaves];
      apply rall_Ok in El; clear - IH El Hk; induction El as [|x y l l' Exy El IHl]; cbn; [reflexivity|];
      inversion IH; subst; rewrite !map_app; f_equal; eauto.
Qed.

(* product weightings survive once ProductSpace.astype passes them on *)
Theorem oastype_prod_weights : dv_ps_astype_keeps_w dv = true ->
  forall (a : obj T) d b, oastype dv a d = Ok b -> pweights b = pweights a.
Proof.
  intro Hk.
  induction a as [| |n| | | |l IH|l IH|l IH|els|e|g|t|p t|l w f IH] using obj_ind'; intros d b E; try discriminate.
  - cbn in E. apply rmap_Ok in E as [t' [E ->]]. reflexivity.
  - cbn in E. destruct (dtype_eqb d (ts_dtype t)); [inversion E; reflexivity|].
    apply rmap_Ok in E as [t' [E ->]]. reflexivity.
  - cbn [oastype] in E. rewrite Hk in E. destruct (odtype (OProd l w f)) eqn:Ed; try discriminate.
    all: match type of E with (if ?c then _ else _) = _ => destruct c end; [inversion E; reflexivity|].
    all: apply rbind_Ok in E as [l' [El E]]; apply mk_prod_Ok in E as [f' ->]; cbn [pweights]; f_equal;
      apply rall_Ok in El; clear - IH El; induction El as [|x y l l' Exy El IHl]; cbn; [reflexivity|];
      inversion IH; subst; f_equal; eauto.
Qed.

End DP.
