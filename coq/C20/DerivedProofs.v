(* C20/DerivedProofs.v -- lemmas about C20/Derived.v, for every carrier and every nesting depth. *)
From Coq Require Import ZArith List Bool Lia.
From Verif Require Import Base.Num Base.Check C20.Syntax C20.Model Gen.C20Tables C20.Derived.
Import ListNotations.

Section DP.
Context {T : Type} `{Num T}.
Variable dv : dvariants.

(* what a derived space must share with its source: the tree of shapes / partitions *)
Inductive skel := SKTens (shape : list Z) | SKDiscr (p : part T) (shape : list Z) | SKProd (l : list skel) | SKOther.

Fixpoint skel_of (a : obj T) : skel :=
  match a with
  | OTensor t => SKTens (ts_shape t)
  | ODiscr p t => SKDiscr p (ts_shape t)
  | OProd l _ _ => SKProd (map skel_of l)
  | _ => SKOther
  end.

(* the tensor-space leaves, left to right *)
Fixpoint leaves (a : obj T) : list (tsp T) :=
  match a with
  | OTensor t => [t]
  | ODiscr _ t => [t]
  | OProd l _ _ => flat_map leaves l
  | _ => []
  end.

(* the weightings of the product-space nodes, in preorder *)
Fixpoint pweights (a : obj T) : list (weighting T) :=
  match a with
  | OProd l w _ => w :: flat_map pweights l
  | _ => []
  end.

(* ---- generic facts on res ---- *)
Lemma rbind_Ok {A B} (r : res A) (f : A -> res B) b : rbind r f = Ok b -> exists a, r = Ok a /\ f a = Ok b.
Proof. destruct r; cbn; try discriminate. eauto. Qed.
Lemma rmap_Ok {A B} (f : A -> B) (r : res A) b : rmap f r = Ok b -> exists a, r = Ok a /\ b = f a.
Proof. unfold rmap. intro E. apply rbind_Ok in E as [a [E1 E2]]. inversion E2. eauto. Qed.

Lemma rall_Ok {A B} (f : A -> res B) (l : list A) l' :
  rall (map f l) = Ok l' -> Forall2 (fun x y => f x = Ok y) l l'.
Proof.
  revert l'. induction l as [|x l IH]; cbn; intros l' E.
  - inversion E. constructor.
  - apply rbind_Ok in E as [y [Ey E]]. apply rmap_Ok in E as [l2 [El ->]]. constructor; auto.
Qed.

(* ---- tensor spaces ---- *)
Lemma mk_tsp_Ok shape d ow t : mk_tsp shape d ow = Ok t ->
  ts_shape t = shape /\ ts_dtype t = d /\ is_available d = true /\
  ts_w t = match ow with Some w => w | None => default_npy_w end.
Proof.
  unfold mk_tsp. destruct (is_available d) eqn:Ea; cbn [negb]; [|discriminate].
  destruct ow as [w|].
  - destruct (negb (is_numeric d)); [discriminate|].
    destruct w as [k c e|k i e|k f|k f|k f|i e].
    2: destruct k; [destruct (can_cast_from_f64 d); [|discriminate]|].
    all: intro E; inversion E; cbn; repeat split; auto.
  - intro E; inversion E; cbn; repeat split; auto.
Qed.

Lemma dtype_eqb_true a b : dtype_eqb a b = true -> a = b.
Proof. destruct a, b; cbn; congruence. Qed.

Definition keep_w (d : dtype) : bool := if dv_astype_num_keeps_w dv then is_numeric d else is_floating d.

Lemma tsp_astype_Ok t d t' : tsp_astype dv t d = Ok t' ->
  ts_shape t' = ts_shape t /\
  (is_available d = true -> ts_dtype t' = d) /\
  (t' = t \/ (is_available d = true /\ ts_dtype t' = d /\
              ts_w t' = if keep_w d then ts_w t else default_npy_w)).
Proof.
  unfold tsp_astype. destruct (dtype_eqb d (ts_dtype t)) eqn:Ed.
  - intro E; inversion E; subst t'. apply dtype_eqb_true in Ed. repeat split; auto.
  - intro E. apply mk_tsp_Ok in E as [E1 [E2 [E3 E4]]]. repeat split; auto.
    right. repeat split; auto. rewrite E4. unfold keep_w. destruct (dv_astype_num_keeps_w dv);
      [destruct (is_numeric d) | destruct (is_floating d)]; reflexivity.
Qed.

(* ---- ProductSpace.dtype ---- *)
Fixpoint dt_go (rs : list dres) (first : option dtype) (mixed : bool) : dres :=
  match rs with
  | [] => match first with None => DIndexErr | Some d => if mixed then DMixed else DOk d end
  | r :: rs' =>
      match r with
      | DOk d => match first with
                 | None => dt_go rs' (Some d) mixed
                 | Some d0 => dt_go rs' first (mixed || negb (dtype_eqb d d0))
                 end
      | r => r
      end
  end.

Lemma odtype_prod (l : list (obj T)) w f : odtype (OProd l w f) = dt_go (map (@odtype T) l) None false.
Proof.
  cbn [odtype]. generalize (@None dtype) false. induction l as [|s l IH]; intros first mixed; cbn; [reflexivity|].
  destruct (odtype s); try reflexivity. destruct first; apply IH.
Qed.

Lemma dt_go_Ok rs first mixed d : dt_go rs first mixed = DOk d ->
  mixed = false /\ Forall (fun r => r = DOk d) rs /\ (forall d0, first = Some d0 -> d0 = d).
Proof.
  revert first mixed. induction rs as [|r rs IH]; cbn; intros first mixed E.
  - destruct first as [d1|]; [|discriminate]. destruct mixed; [discriminate|]. inversion E. repeat split; auto.
    intros d2 E0; inversion E0; auto.
  - destruct r as [dr| | |]; try discriminate. destruct first as [d1|].
    + apply IH in E as [Em [Ef Ed]]. apply orb_false_iff in Em as [Em1 Em2].
      apply negb_false_iff, dtype_eqb_true in Em2. specialize (Ed d1 eq_refl). subst.
      repeat split; auto. intros ? E0; inversion E0; auto.
    + apply IH in E as [Em [Ef Ed]]. specialize (Ed dr eq_refl). subst. repeat split; auto. discriminate.
Qed.

Lemma odtype_Ok_leaves : forall (a : obj T) d, odtype a = DOk d -> Forall (fun t => ts_dtype t = d) (leaves a).
Proof.
  induction a as [| |n| | | |l IH|l IH|l IH|els|e|g|t|p t|l w f IH] using obj_ind'; intros d E; try discriminate.
  - inversion E. repeat constructor.
  - inversion E. repeat constructor.
  - rewrite odtype_prod in E. apply dt_go_Ok in E as [_ [Ef _]]. cbn [leaves].
    induction IH as [|s l Hs Hl IHl]; cbn; [constructor|].
    inversion Ef; subst. apply Forall_app; split; auto.
Qed.

(* ---- ProductSpace(...) ---- *)
Lemma mk_prod_Ok l ow of_ b : mk_prod l ow of_ = Ok b ->
  exists f, b = OProd l (match ow with Some w => w | None => default_ps_w end) f.
Proof.
  unfold mk_prod. destruct l as [|s l].
  - destruct of_; [|discriminate]. intro E; inversion E; eauto.
  - destruct (forallb _ _); [|discriminate]. intro E; inversion E; eauto.
Qed.

Lemma obj_unavailable : is_available DObj = false.
Proof. reflexivity. Qed.

(* ---- astype on trees ---- *)
Lemma Forall2_skel (l l' : list (obj T)) :
  Forall2 (fun x y => skel_of y = skel_of x) l l' -> map skel_of l' = map skel_of l.
Proof. induction 1; cbn; congruence. Qed.

Theorem oastype_skel : forall (a : obj T) d b, oastype dv a d = Ok b -> skel_of b = skel_of a.
Proof.
  induction a as [| |n| | | |l IH|l IH|l IH|els|e|g|t|p t|l w f IH] using obj_ind'; intros d b E; try discriminate.
  - cbn in E. apply rmap_Ok in E as [t' [E ->]]. apply tsp_astype_Ok in E as [E _]. cbn. congruence.
  - cbn in E. destruct (dtype_eqb d (ts_dtype t)); [inversion E; reflexivity|].
    apply rmap_Ok in E as [t' [E ->]]. apply tsp_astype_Ok in E as [E _]. cbn. congruence.
  - cbn [oastype] in E. destruct (odtype (OProd l w f)) eqn:Ed; try discriminate.
    all: match type of E with (if ?c then _ else _) = _ => destruct c end; [inversion E; reflexivity|].
    all: apply rbind_Ok in E as [l' [El E]]; apply mk_prod_Ok in E as [f' ->]; cbn [skel_of]; f_equal;
      apply Forall2_skel; apply rall_Ok in El;
      clear - IH El; induction El as [|x y l l' Exy El IHl]; [constructor|];
      inversion IH; subst; constructor; eauto.
Qed.

Theorem oastype_dtype : forall (a : obj T) d b, is_available d = true ->
  oastype dv a d = Ok b -> Forall (fun t => ts_dtype t = d) (leaves b).
Proof.
  induction a as [| |n| | | |l IH|l IH|l IH|els|e|g|t|p t|l w f IH] using obj_ind'; intros d b Ha E; try discriminate.
  - cbn in E. apply rmap_Ok in E as [t' [E ->]]. apply tsp_astype_Ok in E as [_ [E _]]. repeat constructor; auto.
  - cbn in E. destruct (dtype_eqb d (ts_dtype t)) eqn:Ed.
    + inversion E; subst. apply dtype_eqb_true in Ed. repeat constructor; auto.
    + apply rmap_Ok in E as [t' [E ->]]. apply tsp_astype_Ok in E as [_ [E _]]. repeat constructor; auto.
  - cbn [oastype] in E. destruct (odtype (OProd l w f)) eqn:Ed; try discriminate.
    + destruct (dtype_eqb d d0) eqn:Edd.
      * inversion E; subst. apply dtype_eqb_true in Edd; subst. apply odtype_Ok_leaves, Ed.
      * apply rbind_Ok in E as [l' [El E]]; apply mk_prod_Ok in E as [f' ->]; cbn [leaves].
        apply rall_Ok in El. clear - IH El Ha. induction El as [|x y l l' Exy El IHl]; cbn; [constructor|].
        inversion IH; subst. apply Forall_app; split; eauto.
    + destruct (dtype_eqb d DObj) eqn:Edd; [apply dtype_eqb_true in Edd; subst; rewrite obj_unavailable in Ha; discriminate|].
      apply rbind_Ok in E as [l' [El E]]; apply mk_prod_Ok in E as [f' ->]; cbn [leaves].
      apply rall_Ok in El. clear - IH El Ha. induction El as [|x y l l' Exy El IHl]; cbn; [constructor|].
      inversion IH; subst. apply Forall_app; split; eauto.
    + destruct (dtype_eqb d DObj) eqn:Edd; [apply dtype_eqb_true in Edd; subst; rewrite obj_unavailable in Ha; discriminate|].
      apply rbind_Ok in E as [l' [El E]]; apply mk_prod_Ok in E as [f' ->]; cbn [leaves].
      apply rall_Ok in El. clear - IH El Ha. induction El as [|x y l l' Exy El IHl]; cbn; [constructor|].
      inversion IH; subst. apply Forall_app; split; eauto.
Qed.

(* leaf weightings survive whenever _astype passes them on *)
Theorem oastype_leaf_weights : forall (a : obj T) d b, keep_w d = true ->
  oastype dv a d = Ok b -> map (@ts_w T) (leaves b) = map (@ts_w T) (leaves a).
Proof.
  induction a as [| |n| | | |l IH|l IH|l IH|els|e|g|t|p t|l w f IH] using obj_ind'; intros d b Hk E; try discriminate.
  - cbn in E. apply rmap_Ok in E as [t' [E ->]]. apply tsp_astype_Ok in E as [_ [_ [->|[_ [_ E]]]]]; cbn; [reflexivity|].
    rewrite Hk in E. congruence.
  - cbn in E. destruct (dtype_eqb d (ts_dtype t)); [inversion E; reflexivity|].
    apply rmap_Ok in E as [t' [E ->]]. apply tsp_astype_Ok in E as [_ [_ [->|[_ [_ E]]]]]; cbn; [reflexivity|].
    rewrite Hk in E. congruence.
  - cbn [oastype] in E. destruct (odtype (OProd l w f)) eqn:Ed; try discriminate.
    all: match type of E with (if ?c then _ else _) = _ => destruct c end; [inversion E; reflexivity|].
    all: apply rbind_Ok in E as [l' [El E]]; apply mk_prod_Ok in E as [f' ->]; cbn [leaves];
      apply rall_Ok in El; clear - IH El Hk; induction El as [|x y l l' Exy El IHl]; cbn; [reflexivity|];
      inversion IH; subst; rewrite !map_app; f_equal; eauto.
Qed.

(* product weightings survive once ProductSpace.astype passes them on *)
Theorem oastype_prod_weights : dv_ps_astype_keeps_w dv = true ->
  forall (a : obj T) d b, oastype dv a d = Ok b -> pweights b = pweights a.
Proof.
  intro Hk.
  induction a as [| |n| | | |l IH|l IH|l IH|els|e|g|t|p t|l w f IH] using obj_ind'; intros d b E; try discriminate.
  - cbn in E. apply rmap_Ok in E as [t' [E ->]]. reflexivity.
  - cbn in E. destruct (dtype_eqb d (ts_dtype t)); [inversion E; reflexivity|].
    apply rmap_Ok in E as [t' [E ->]]. reflexivity.
  - cbn [oastype] in E. rewrite Hk in E. destruct (odtype (OProd l w f)) eqn:Ed; try discriminate.
    all: match type of E with (if ?c then _ else _) = _ => destruct c end; [inversion E; reflexivity|].
    all: apply rbind_Ok in E as [l' [El E]]; apply mk_prod_Ok in E as [f' ->]; cbn [pweights]; f_equal;
      apply rall_Ok in El; clear - IH El; induction El as [|x y l l' Exy El IHl]; cbn; [reflexivity|];
      inversion IH; subst; f_equal; eauto.
Qed.

(* ---- real / complex counterparts ---- *)
(* facts about the REGENERATED odl.util tables (finite check over the dtype enumeration) *)
Lemma c2r_real d d' : c2r d = Some d' -> is_real_dt d' = true.
Proof. destruct d; cbn; intro E; inversion E; reflexivity. Qed.
Lemma r2c_complex d d' : r2c d = Some d' -> is_complex_floating d' = true.
Proof. destruct d; cbn; intro E; inversion E; reflexivity. Qed.
Lemma real_complex_disjoint d : is_real_dt d && is_complex_floating d = false.
Proof. destruct d; reflexivity. Qed.
Lemma numeric_real_or_complex d : is_numeric d = true -> is_real_dt d || is_complex_floating d = true.
Proof. destruct d; cbn; congruence. Qed.

Lemma tsp_real_space_Ok t t' : tsp_real_space dv t = Ok t' ->
  ts_shape t' = ts_shape t /\ is_real_dt (ts_dtype t') = true.
Proof.
  unfold tsp_real_space, tsp_real_dtype. destruct (negb (is_numeric (ts_dtype t))); [discriminate|].
  destruct (is_real_dt (ts_dtype t)) eqn:Er.
  - unfold tsp_astype. replace (dtype_eqb (ts_dtype t) (ts_dtype t)) with true by (destruct (ts_dtype t); reflexivity).
    intro E; inversion E; subst. auto.
  - destruct (c2r (ts_dtype t)) as [d|] eqn:Ec; [|discriminate]. intro E.
    unfold tsp_astype in E. destruct (dtype_eqb d (ts_dtype t)) eqn:Ed.
    + inversion E; subst. apply dtype_eqb_true in Ed. subst. apply c2r_real in Ec. split; auto.
    + apply mk_tsp_Ok in E as [E1 [E2 _]]. split; [assumption|]. rewrite E2. eapply c2r_real, Ec.
Qed.

Lemma tsp_complex_space_Ok t t' : tsp_complex_space dv t = Ok t' ->
  ts_shape t' = ts_shape t /\ is_complex_floating (ts_dtype t') = true.
Proof.
  unfold tsp_complex_space, tsp_complex_dtype. destruct (negb (is_numeric (ts_dtype t))) eqn:En; [discriminate|].
  apply negb_false_iff, numeric_real_or_complex in En.
  destruct (is_real_dt (ts_dtype t)) eqn:Er.
  - destruct (r2c (ts_dtype t)) as [d|] eqn:Ec; [|discriminate]. intro E.
    unfold tsp_astype in E. destruct (dtype_eqb d (ts_dtype t)) eqn:Ed.
    + inversion E; subst. apply dtype_eqb_true in Ed. subst. apply r2c_complex in Ec. split; auto.
    + apply mk_tsp_Ok in E as [E1 [E2 _]]. split; [assumption|]. rewrite E2. eapply r2c_complex, Ec.
  - cbn in En. unfold tsp_astype.
    replace (dtype_eqb (ts_dtype t) (ts_dtype t)) with true by (destruct (ts_dtype t); reflexivity).
    intro E; inversion E; subst. auto.
Qed.

Theorem oreal_space_spec : forall (a : obj T) b, oreal_space dv a = Ok b ->
  skel_of b = skel_of a /\ Forall (fun t => is_real_dt (ts_dtype t) = true) (leaves b).
Proof.
  induction a as [| |n| | | |l IH|l IH|l IH|els|e|g|t|p t|l w f IH] using obj_ind'; intros b E; try discriminate.
  - cbn in E. apply rmap_Ok in E as [t' [E ->]]. apply tsp_real_space_Ok in E as [E1 E2]. cbn. split; [congruence | repeat constructor; auto].
  - cbn [oreal_space] in E. destruct (negb (is_numeric (ts_dtype t))) eqn:En; [discriminate|].
    assert (Ht : exists t', tsp_real_space dv t = Ok t' /\ b = ODiscr p t').
    { unfold tsp_real_space. rewrite En. destruct (tsp_real_dtype t) as [d|]; [|discriminate].
      destruct (dtype_eqb d (ts_dtype t)) eqn:Ed.
      - inversion E; subst. exists t. split; [|reflexivity]. unfold tsp_astype. rewrite Ed. reflexivity.
      - apply rmap_Ok in E as [t' [E ->]]. eauto. }
    destruct Ht as [t' [Et ->]]. apply tsp_real_space_Ok in Et as [E1 E2]. cbn. split; [congruence | repeat constructor; auto].
  - cbn [oreal_space] in E. apply rbind_Ok in E as [l' [El E]]. apply mk_prod_Ok in E as [f' ->]. apply rall_Ok in El.
    cbn [skel_of leaves]. clear - IH El. induction El as [|x y l l' Exy El IHl]; cbn; [split; [reflexivity | constructor]|].
    inversion IH as [|? ? Hx Hl]; subst. destruct (Hx _ Exy) as [S1 L1]. destruct (IHl Hl) as [S2 L2].
    split; [inversion S2; congruence | apply Forall_app; split; assumption].
Qed.

Theorem ocomplex_space_spec : forall (a : obj T) b, ocomplex_space dv a = Ok b ->
  skel_of b = skel_of a /\ Forall (fun t => is_complex_floating (ts_dtype t) = true) (leaves b).
Proof.
  induction a as [| |n| | | |l IH|l IH|l IH|els|e|g|t|p t|l w f IH] using obj_ind'; intros b E; try discriminate.
  - cbn in E. apply rmap_Ok in E as [t' [E ->]]. apply tsp_complex_space_Ok in E as [E1 E2]. cbn. split; [congruence | repeat constructor; auto].
  - cbn [ocomplex_space] in E. destruct (negb (is_numeric (ts_dtype t))) eqn:En; [discriminate|].
    assert (Ht : exists t', tsp_complex_space dv t = Ok t' /\ b = ODiscr p t').
    { unfold tsp_complex_space. rewrite En. destruct (tsp_complex_dtype t) as [d|]; [|discriminate].
      destruct (dtype_eqb d (ts_dtype t)) eqn:Ed.
      - inversion E; subst. exists t. split; [|reflexivity]. unfold tsp_astype. rewrite Ed. reflexivity.
      - apply rmap_Ok in E as [t' [E ->]]. eauto. }
    destruct Ht as [t' [Et ->]]. apply tsp_complex_space_Ok in Et as [E1 E2]. cbn. split; [congruence | repeat constructor; auto].
  - cbn [ocomplex_space] in E. apply rbind_Ok in E as [l' [El E]]. apply mk_prod_Ok in E as [f' ->]. apply rall_Ok in El.
    cbn [skel_of leaves]. clear - IH El. induction El as [|x y l l' Exy El IHl]; cbn; [split; [reflexivity | constructor]|].
    inversion IH as [|? ? Hx Hl]; subst. destruct (Hx _ Exy) as [S1 L1]. destruct (IHl Hl) as [S2 L2].
    split; [inversion S2; congruence | apply Forall_app; split; assumption].
Qed.

End DP.

(* ------------------------------------------------------------ Python slices *)
Lemma range_from_In start step k p :
  In p (range_from start step k) <-> exists i, (0 <= i < Z.of_nat k)%Z /\ p = (start + i * step)%Z.
Proof.
  revert start. induction k as [|k IH]; intro start; cbn [range_from].
  - split; [intros [] | intros [i [Hi _]]; lia].
  - cbn [In]. rewrite IH. split.
    + intros [<-|[i [Hi ->]]]; [exists 0%Z; split; lia | exists (i + 1)%Z; split; lia].
    + intros [i [Hi ->]]. destruct (Z.eq_dec i 0) as [->|Hn]; [left; lia|].
      right. exists (i - 1)%Z. split; lia.
Qed.

Lemma range_from_length start step k : length (range_from start step k) = k.
Proof. revert start; induction k; intro; cbn; auto. Qed.

(* every position a slice selects from a sequence of length n is a valid index *)
Theorem slice_positions_in_range n s ps : (0 <= n)%Z ->
  slice_positions n s = Ok ps -> Forall (fun p => 0 <= p < n)%Z ps.
Proof.
  intros Hn E. unfold slice_positions in E. apply rmap_Ok in E as [[[start stop] step] [E ->]].
  unfold slice_indices in E.
  set (st := match sl_step s with Some k => k | None => 1%Z end) in *.
  destruct (st =? 0)%Z eqn:E0; [discriminate|]. apply Z.eqb_neq in E0.
  inversion E as [[Es Ep Est]]; clear E. rewrite Est in *. clear Est.
  apply Forall_forall. intros p Hp. apply range_from_In in Hp as [i [Hi ->]].
  unfold range_len in Hi.
  destruct (step <? 0)%Z eqn:Eneg; [apply Z.ltb_lt in Eneg | apply Z.ltb_ge in Eneg].
  - (* negative step: lower = -1, upper = n - 1 *)
    replace (0 <? step)%Z with false in Hi by (symmetry; apply Z.ltb_ge; lia).
    assert (Hstart : (-1 <= start <= n - 1)%Z).
    { subst start. destruct (sl_start s) as [i0|]; [|lia].
      unfold clip_idx. destruct (i0 <? 0)%Z eqn:E1; [apply Z.ltb_lt in E1 | apply Z.ltb_ge in E1]; lia. }
    assert (Hstop : (-1 <= stop)%Z).
    { subst stop. destruct (sl_stop s) as [i0|]; [|lia].
      unfold clip_idx. destruct (i0 <? 0)%Z eqn:E1; [apply Z.ltb_lt in E1 | apply Z.ltb_ge in E1]; lia. }
    rewrite ?Es, ?Ep in Hi. rewrite ?Es, ?Ep.
    destruct (stop <? start)%Z eqn:Ec; [apply Z.ltb_lt in Ec | cbn in Hi; lia].
    assert (Hq : (0 <= (start - stop - 1) / - step)%Z) by (apply Z.div_pos; lia).
    rewrite Z2Nat.id in Hi by lia.
    assert (Hm : ((- step) * ((start - stop - 1) / - step) <= start - stop - 1)%Z) by (apply Z.mul_div_le; lia).
    nia.
  - assert (Hpos : (0 < step)%Z) by lia.
    replace (0 <? step)%Z with true in Hi by (symmetry; apply Z.ltb_lt; lia).
    assert (Hstart : (0 <= start)%Z).
    { subst start. destruct (sl_start s) as [i0|]; [|lia].
      unfold clip_idx. destruct (i0 <? 0)%Z eqn:E1; [apply Z.ltb_lt in E1 | apply Z.ltb_ge in E1]; lia. }
    assert (Hstop : (stop <= n)%Z).
    { subst stop. destruct (sl_stop s) as [i0|]; [|lia].
      unfold clip_idx. destruct (i0 <? 0)%Z eqn:E1; [apply Z.ltb_lt in E1 | apply Z.ltb_ge in E1]; lia. }
    rewrite ?Es, ?Ep in Hi. rewrite ?Es, ?Ep.
    destruct (start <? stop)%Z eqn:Ec; [apply Z.ltb_lt in Ec | cbn in Hi; lia].
    assert (Hq : (0 <= (stop - start - 1) / step)%Z) by (apply Z.div_pos; lia).
    rewrite Z2Nat.id in Hi by lia.
    assert (Hm : (step * ((stop - start - 1) / step) <= stop - start - 1)%Z) by (apply Z.mul_div_le; lia).
    nia.
Qed.

Section DP2.
Context {T : Type} `{Num T}.
Variable dv : dvariants.

(* ------------------------------------------------------------ ProductSpace.__getitem__ *)
Lemma rall_Ok' {A} (l : list (res A)) l' : rall l = Ok l' -> Forall2 (fun r y => r = Ok y) l l'.
Proof.
  revert l'. induction l as [|x l IH]; cbn; intros l' E.
  - inversion E. constructor.
  - apply rbind_Ok in E as [y [Ey E]]. apply rmap_Ok in E as [l2 [El ->]]. constructor; auto.
Qed.

(* pspace[slice]: the components at the positions of the Python slice, in order, with the
   field of the parent; the weighting is the parent's constant weighting (repaired code) or
   the default one (current code) *)
Theorem getitem_slice_spec (l : list (obj T)) w f s b :
  ogetitem dv (OProd l w f) (PSlice s) = Ok b ->
  exists ps ss, slice_positions (Z.of_nat (length l)) s = Ok ps /\
    Forall2 (fun p x => nth_error l (Z.to_nat p) = Some x) ps ss /\
    b = OProd ss (match sub_w dv w with Some w' => w' | None => default_ps_w end) f.
Proof.
  cbn [ogetitem]. intro E. apply rbind_Ok in E as [ss [Es E]].
  unfold select_slice in Es. apply rbind_Ok in Es as [ps [Ep Es]].
  exists ps, ss. split; [exact Ep|]. split.
  - apply rall_Ok in Es. clear - Es. induction Es as [|p x ps ss Epx Es IH]; constructor; auto.
    destruct (nth_error l (Z.to_nat p)); inversion Epx; reflexivity.
  - unfold mk_prod in E. destruct ss as [|x ss].
    + inversion E; reflexivity.
    + destruct (forallb _ _); inversion E; reflexivity.
Qed.

(* a slice with a non-zero step never raises IndexError: every position is a valid index *)
Theorem select_slice_no_index_error {A} (l : list A) s :
  select_slice l s <> ErrIndex /\ select_slice l s <> ErrType.
Proof.
  unfold select_slice.
  destruct (slice_positions (Z.of_nat (length l)) s) as [ps| | |] eqn:Ep; cbn [rbind]; try (split; discriminate).
  2:{ unfold slice_positions, slice_indices in Ep. destruct (_ =? 0)%Z; cbn in Ep; discriminate. }
  2:{ unfold slice_positions, slice_indices in Ep. destruct (_ =? 0)%Z; cbn in Ep; discriminate. }
  apply slice_positions_in_range in Ep; [|lia].
  assert (E : exists ss, rall (map (fun p => match nth_error l (Z.to_nat p) with Some a => Ok a | None => ErrIndex end) ps) = Ok ss).
  { induction Ep as [|p ps Hp Hps IH]; cbn; [eauto|].
    destruct (nth_error l (Z.to_nat p)) eqn:En.
    - destruct IH as [ss ->]. cbn. eauto.
    - apply nth_error_None in En. lia. }
  destruct E as [ss ->]. split; discriminate.
Qed.

(* pspace[k] is the k-th component (Python index normalisation) *)
Theorem getitem_int_spec (l : list (obj T)) w f k b :
  ogetitem dv (OProd l w f) (PInt k) = Ok b ->
  let n := Z.of_nat (length l) in
  (- n <= k < n)%Z /\ nth_error l (Z.to_nat (if (k <? 0)%Z then k + n else k)) = Some b.
Proof.
  cbn [ogetitem]. unfold nth_res, norm_index. intro E. apply rbind_Ok in E as [j [Ej E]].
  destruct ((0 <=? _) && _)%Z eqn:Eb; [|discriminate]. inversion Ej; subst j.
  apply andb_true_iff in Eb as [E1 E2]. apply Z.leb_le in E1. apply Z.ltb_lt in E2.
  destruct (nth_error l _) as [x|] eqn:En; inversion E; subst x. split; [|reflexivity].
  destruct (k <? 0)%Z eqn:Ek; [apply Z.ltb_lt in Ek | apply Z.ltb_ge in Ek]; lia.
Qed.

End DP2.

(* ------------------------------------------------------------ what the CURRENT derived-space code loses *)
From Coq Require Import Reals.
Section DRefuted.
Local Open Scope R_scope.
Definition rn2 : obj R := OTensor {| ts_shape := [2%Z]; ts_dtype := DFloat64; ts_w := WConst KNpy 2%R (EFin 1%R) |}.
Definition ps2 : obj R := OProd [rn2; rn2; rn2] (WConst KPs 2%R (EFin 2%R)) FReal.

Lemma two_ne_one : 2%R <> 1%R.
Proof. intro E. apply eq_IZR in E. discriminate. Qed.

(* rn(2, weighting=2, exponent=1).astype(int64): weighting 1.0, exponent 2.0 *)
Lemma astype_int_drops_weighting :
  exists b, oastype current_dvariants rn2 DInt64 = Ok b /\ map (@ts_w R) (leaves b) <> map (@ts_w R) (leaves rn2).
Proof.
  eexists. split; [reflexivity|]. cbn. intro E. inversion E as [[E1 E2]]. apply two_ne_one. symmetry. exact E1.
Qed.

(* ProductSpace(rn(2), 3, weighting=2).astype(float32): product weighting 1.0 *)
Lemma pspace_astype_drops_weighting :
  exists b, oastype current_dvariants ps2 DFloat32 = Ok b /\ pweights b <> pweights ps2.
Proof.
  eexists. split; [reflexivity|]. cbn. intro E. inversion E as [[E1]]. apply two_ne_one. symmetry. exact E1.
Qed.

(* ProductSpace(rn(2), 3, weighting=2)[0:2]: product weighting 1.0 *)
Lemma pspace_getitem_drops_weighting :
  exists b, ogetitem current_dvariants ps2 (PSlice {| sl_start := Some 0%Z; sl_stop := Some 2%Z; sl_step := None |}) = Ok b
            /\ pweights b <> [WConst KPs 2%R (EFin 2%R)].
Proof.
  eexists. split; [reflexivity|]. cbn. intro E. inversion E as [[E1]]. apply two_ne_one. symmetry. exact E1.
Qed.

Lemma leafw_refuted :
  exists (a : obj R) d b, is_numeric d = true /\ oastype current_dvariants a d = Ok b /\
    map (@ts_w R) (leaves b) <> map (@ts_w R) (leaves a).
Proof.
  destruct astype_int_drops_weighting as [b [E1 E2]]. exists rn2, DInt64, b. split; [reflexivity | split; assumption].
Qed.
Lemma prodw_refuted :
  exists (a : obj R) d b, oastype current_dvariants a d = Ok b /\ pweights b <> pweights a.
Proof. destruct pspace_astype_drops_weighting as [b E]. exists ps2, DFloat32, b. exact E. Qed.
Lemma getitemw_refuted :
  exists (a : obj R) s b, ogetitem current_dvariants a (PSlice s) = Ok b /\ pweights b <> [WConst KPs 2%R (EFin 2%R)]
                          /\ pweights a = [WConst KPs 2%R (EFin 2%R)].
Proof.
  destruct pspace_getitem_drops_weighting as [b [E1 E2]].
  exists ps2, {| sl_start := Some 0%Z; sl_stop := Some 2%Z; sl_step := None |}, b. repeat split; assumption.
Qed.
End DRefuted.

(* ------------------------------------------------------------ byaxis_in *)
Section DP3.
Context {T : Type} `{Num T}.
Variable dv : dvariants.

Lemma select_pos_spec {A} (l : list A) ps l' : select_pos l ps = Ok l' ->
  Forall2 (fun p x => nth_error l (Z.to_nat p) = Some x) ps l'.
Proof.
  unfold select_pos. intro E. apply rall_Ok in E. induction E as [|p x ps l' Epx E IH]; constructor; auto.
  destruct (nth_error l (Z.to_nat p)); inversion Epx; reflexivity.
Qed.

(* space.byaxis_in[idx] is a discretized space over exactly the selected axes of the partition
   (interval ends and grid vectors, in the order of the positions), whose tensor space has the
   shape of that sub-partition *)
Theorem byaxis_in_spec (p : part T) (t : tsp T) i b : obyaxis_in dv (ODiscr p t) i = Ok b ->
  exists ps p' t', b = ODiscr p' t' /\
    axis_positions (Z.of_nat (length (p_grid p))) i = Ok ps /\
    Forall2 (fun q x => nth_error (p_intv p) (Z.to_nat q) = Some x) ps (p_intv p') /\
    Forall2 (fun q x => nth_error (p_grid p) (Z.to_nat q) = Some x) ps (p_grid p') /\
    ts_shape t' = map (fun g => Z.of_nat (length g)) (p_grid p').
Proof.
  cbn [obyaxis_in]. destruct (match i with ASlice _ => _ | _ => false end); [discriminate|].
  intro E. apply rbind_Ok in E as [ps [Eps E]]. apply rbind_Ok in E as [intv' [Ei E]].
  apply rbind_Ok in E as [grid' [Eg E]]. apply rbind_Ok in E as [t' [Et E]].
  destruct (Zs_eqb _ (ts_shape t')) eqn:Es; [|discriminate]. inversion E; subst b.
  exists ps, {| p_intv := intv'; p_grid := grid' |}, t'. cbn. repeat split; auto.
  - apply select_pos_spec, Ei.
  - apply select_pos_spec, Eg.
  - unfold Zs_eqb in Es. symmetry. revert Es. generalize (map (fun g : list T => Z.of_nat (length g)) grid') (ts_shape t').
    induction l as [|x l IH]; intros [|y m]; cbn; try discriminate; auto.
    intro E'. apply andb_true_iff in E' as [E1 E2]. apply Z.eqb_eq in E1. subst. f_equal. auto.
Qed.
End DP3.

(* ------------------------------------------------------------ element indexing *)
From Verif Require Import C20.Indexing.
Section DP4.
Context {T : Type} `{Num T}.

Fixpoint n_ints (idx : list idx1) : nat :=
  match idx with [] => O | XInt _ :: r => S (n_ints r) | _ :: r => n_ints r end.

(* a[idx] has one axis less per integer index, for all shapes and index tuples *)
Theorem index_shape_ndim : forall (idx : list idx1) (shape sh : list Z),
  index_shape shape idx = Ok sh -> (length sh + n_ints idx = length shape)%nat.
Proof.
  induction idx as [|i idx IH]; intros shape sh E; cbn in E.
  - inversion E; subst. cbn. lia.
  - destruct shape as [|n sh']; [discriminate|]. destruct i as [k|s|]; [| |discriminate].
    + apply rbind_Ok in E as [j [_ E]]. apply IH in E. cbn [n_ints length]. lia.
    + apply rbind_Ok in E as [ps [_ E]]. apply rmap_Ok in E as [sh2 [E ->]]. apply IH in E.
      cbn [n_ints length]. lia.
Qed.

(* x[idx] (not a scalar) lives in a space with the shape of the selection, the dtype of x and,
   unless it is an array weighting, the very weighting of x.space *)
Theorem tens_getitem_space (t : tsp T) data idx t' d :
  tens_getitem t data idx = Ok (GTens t' d) ->
  index_shape (ts_shape t) idx = Ok (ts_shape t') /\ ts_dtype t' = ts_dtype t /\
  d = index_data (ts_shape t) idx data /\
  (is_numeric (ts_dtype t) = true -> (forall k i e, ts_w t <> WArray k i e) -> ts_w t' = ts_w t).
Proof.
  unfold tens_getitem. intro E. apply rbind_Ok in E as [sh [Es E]].
  destruct (all_ints _ _); [destruct (index_data _ _ _); discriminate|].
  apply rmap_Ok in E as [t2 [E E2]]. inversion E2; subst t' d.
  apply mk_tsp_Ok in E as [E1 [E3 [_ E4]]]. rewrite E1. repeat split; auto.
  intros Hn Hw. rewrite Hn in E4. rewrite E4. destruct (ts_w t); try reflexivity. exfalso. eapply Hw. reflexivity.
Qed.
End DP4.
