(* C03/Protocol.v -- contracts of `_call` implementations and of public calls;
   Operator.__call__ and the two default bridges preserve them. *)
From Coq Require Import ZArith QArith Reals Lra Lia List Bool Arith.
From Verif Require Import Base.Num Base.Vec C03.Syntax Gen.C03Bodies C03.Poison C03.Model C03.Heap.
Import ListNotations.

Section Protocol.
Variable junk : nat -> nat -> VR.

Notation pyvalR := (@pyval VR).
Notation opsemR := (@opsem VR).
Notation MR := (@M VR).

(* read-only elements owned by operators (self.vector, self.constant, ...): identity,
   space and (clean) contents *)
Definition ro_t := list (nat * space * list R).
Definition good (ro : ro_t) (s : storeR) : Prop :=
  forall i sp d, In (i, sp, d) ro -> rd s i = Some (sp, cl d).
Definition ro_ids (ro : ro_t) : list nat := map (fun t => fst (fst t)) ro.

Lemma good_ext ro s s' m : good ro s -> ext s s' m -> (forall i, In i m -> ~ In i (ro_ids ro)) -> good ro s'.
Proof.
  intros G E D i sp d I. eapply ext_rd; [eassumption | apply G; assumption |].
  intros Im. apply (D _ Im). unfold ro_ids. apply in_map_iff. exists (i, sp, d). split; [reflexivity | assumption].
Qed.
Lemma good_lt ro s i : good ro s -> In i (ro_ids ro) -> (i < length s)%nat.
Proof.
  intros G I. unfold ro_ids in I. apply in_map_iff in I as ([[j sp] d] & E & I). cbn in E. subst j.
  eapply rd_lt. apply G. eassumption.
Qed.

(* scratch elements handed to operators by the user (tmp, tmp_ran): identity and space;
   their contents are arbitrary before and after a call.  [scr_ok c ro s x y]: they exist,
   and are neither the argument, nor the out parameter, nor a read-only element. *)
Definition scr_t := list (nat * space).
Definition scr_ids (c : scr_t) : list nat := map fst c.
Definition scr_ok (c : scr_t) (ro : ro_t) (s : storeR) (x y : nat) : Prop :=
  (forall t sp, In (t, sp) c -> exists d, rd s t = Some (sp, d)) /\
  ~ In x (scr_ids c) /\ ~ In y (scr_ids c) /\ (forall t, In t (scr_ids c) -> ~ In t (ro_ids ro)).

Lemma scr_ok_nil ro s x y : scr_ok [] ro s x y.
Proof. unfold scr_ok. cbn. splits; try tauto. Qed.
Lemma scr_ids_app c1 c2 : scr_ids (c1 ++ c2) = scr_ids c1 ++ scr_ids c2.
Proof. unfold scr_ids. apply map_app. Qed.
Lemma scr_lt c ro s x y t : scr_ok c ro s x y -> In t (scr_ids c) -> (t < length s)%nat.
Proof.
  intros (E & _) I. unfold scr_ids in I. apply in_map_iff in I as ([t' sp] & Q & I). cbn in Q. subst t'.
  destruct (E _ _ I) as (d & Ed). eapply rd_lt; exact Ed.
Qed.
Lemma scr_ok_ext c ro s s1 m x y : scr_ok c ro s x y -> ext s s1 m -> scr_ok c ro s1 x y.
Proof.
  intros (E & A & B & D) X. unfold scr_ok. splits; auto.
  intros t sp I. destruct (E _ _ I) as (d & Ed). eapply ext_space; eassumption.
Qed.
Lemma scr_ok_l c1 c2 ro s x y : scr_ok (c1 ++ c2) ro s x y -> scr_ok c1 ro s x y.
Proof.
  intros (E & A & B & D). unfold scr_ok. rewrite scr_ids_app in *. splits.
  - intros t sp I. apply E. apply in_or_app. left; exact I.
  - intros I. apply A. apply in_or_app. left; exact I.
  - intros I. apply B. apply in_or_app. left; exact I.
  - intros t I. apply D. apply in_or_app. left; exact I.
Qed.
Lemma scr_ok_r c1 c2 ro s x y : scr_ok (c1 ++ c2) ro s x y -> scr_ok c2 ro s x y.
Proof.
  intros (E & A & B & D). unfold scr_ok. rewrite scr_ids_app in *. splits.
  - intros t sp I. apply E. apply in_or_app. right; exact I.
  - intros I. apply A. apply in_or_app. right; exact I.
  - intros I. apply B. apply in_or_app. right; exact I.
  - intros t I. apply D. apply in_or_app. right; exact I.
Qed.
Lemma scr_ok_xy c ro s x y x' y' :
  scr_ok c ro s x y -> ~ In x' (scr_ids c) -> ~ In y' (scr_ids c) -> scr_ok c ro s x' y'.
Proof. intros (E & _ & _ & D) A B. unfold scr_ok. splits; auto. Qed.

(* ---- contracts of the raw `_call` slots ---- *)
Definition raw_oop_vec (raw : pyvalR -> MR pyvalR) (dom ran : space) (ro : ro_t) (F : list R -> list R) : Prop :=
  forall s x dx, wf_store s -> good ro s -> rd s x = Some (dom, cl dx) ->
    exists v s', raw (VElem x) s = Ok v s' /\ ext s s' [] /\ wf_store s' /\
      ((exists r, v = VElem r /\ rd s' r = Some (ran, cl (F dx)) /\ (r = x \/ (length s <= r)%nat)) \/
       (v = VArr (cl (F dx)) /\ length (F dx) = fst ran)).
Definition raw_ip_vec (raw : pyvalR -> pyvalR -> MR pyvalR) (dom ran : space) (ro : ro_t) (c : scr_t)
    (F : list R -> list R) : Prop :=
  forall s x y dx dy, wf_store s -> good ro s -> rd s x = Some (dom, cl dx) -> rd s y = Some (ran, dy) ->
    x <> y -> ~ In y (ro_ids ro) -> scr_ok c ro s x y ->
    exists v s', raw (VElem x) (VElem y) s = Ok v s' /\ (v = VNone \/ v = VElem y) /\
      rd s' y = Some (ran, cl (F dx)) /\ ext s s' (y :: scr_ids c) /\ wf_store s'.
Definition raw_oop_sc (raw : pyvalR -> MR pyvalR) (dom : space) (ro : ro_t) (f : list R -> R) : Prop :=
  forall s x dx, wf_store s -> good ro s -> rd s x = Some (dom, cl dx) ->
    exists s', raw (VElem x) s = Ok (VSc (Some (f dx))) s' /\ ext s s' [] /\ wf_store s'.

(* ---- contracts of public calls ---- *)
Definition oop_ok (K : opsemR) (ran : space) (ro : ro_t) (F : list R -> list R) : Prop :=
  forall s x dx, wf_store s -> good ro s -> rd s x = Some (o_dom K, cl dx) ->
    exists r s', o_call K (VElem x) None s = Ok (VElem r) s' /\ rd s' r = Some (ran, cl (F dx)) /\
      ext s s' [] /\ wf_store s' /\ (r = x \/ (length s <= r)%nat).
Definition ip_ok (K : opsemR) (ran : space) (ro : ro_t) (c : scr_t) (F : list R -> list R) : Prop :=
  forall s x y dx dy, wf_store s -> good ro s -> rd s x = Some (o_dom K, cl dx) -> rd s y = Some (ran, dy) ->
    x <> y -> ~ In y (ro_ids ro) -> scr_ok c ro s x y ->
    exists s', o_call K (VElem x) (Some (VElem y)) s = Ok (VElem y) s' /\
      rd s' y = Some (ran, cl (F dx)) /\ ext s s' (y :: scr_ids c) /\ wf_store s'.
Definition vec_ok (K : opsemR) (ran : space) (ro : ro_t) (c : scr_t) (F : list R -> list R) : Prop :=
  o_ran K = RSp ran /\ oop_ok K ran ro F /\ ip_ok K ran ro c F.
Definition sc_ok (K : opsemR) (ro : ro_t) (f : list R -> R) : Prop :=
  o_ran K = RField /\
  forall s x dx, wf_store s -> good ro s -> rd s x = Some (o_dom K, cl dx) ->
    exists s', o_call K (VElem x) None s = Ok (VSc (Some (f dx))) s' /\ ext s s' [] /\ wf_store s'.

Lemma bind_Ok {A B} (m : MR A) (f : A -> MR B) s a s1 : m s = Ok a s1 -> bind m f s = f a s1.
Proof. intros E. unfold bind. rewrite E. reflexivity. Qed.

Lemma junkbuf_length id n : length (junkbuf junk id n) = n.
Proof. unfold junkbuf. rewrite map_length, seq_length. reflexivity. Qed.
Lemma alloc_empty_eq sp (s : storeR) :
  alloc_empty junk sp s = Ok (length s) (s ++ [(sp, junkbuf junk (length s) (fst sp))]).
Proof. reflexivity. Qed.

Lemma in_space_elem dom x (s : storeR) d : rd s x = Some (dom, d) -> in_space dom (VElem x) s = true.
Proof. intros E. cbn. rewrite E. apply sp_eqb_refl. Qed.

(* ---- Operator.__call__ over good slots ---- *)
Lemma public_oop dom ran ro F ip oop :
  raw_oop_vec oop dom ran ro F ->
  oop_ok {| o_dom := dom; o_ran := RSp ran; o_call := public_call junk dom (RSp ran) ip oop |} ran ro F.
Proof.
  intros Hraw s x dx W G Ex. cbn [o_call o_dom] in *.
  destruct (Hraw s x dx W G Ex) as (v & s1 & Hc & E1 & W1 & Hv).
  unfold public_call.
  rewrite (bind_Ok _ _ s true s) by (rewrite (in_space_elem _ _ _ _ Ex); reflexivity).
  cbn [ret]. rewrite (bind_Ok _ _ s (Some (VElem x)) s) by reflexivity.
  rewrite (bind_Ok _ _ _ _ _ Hc).
  destruct Hv as [(r & -> & Er & Hr) | (-> & Lr)].
  - rewrite (bind_Ok _ _ s1 true s1) by (cbn; rewrite Er, sp_eqb_refl; reflexivity).
    exists r, s1. splits; auto.
  - rewrite (bind_Ok _ _ s1 false s1) by reflexivity.
    unfold bind, cast_rsp, cast_space. rewrite cl_length, Lr, Nat.eqb_refl. cbn [alloc ret].
    exists (length s1), (s1 ++ [(ran, cl (F dx))]). splits.
    + reflexivity.
    + apply rd_app_new.
    + eapply ext_trans; [exact E1 | apply ext_alloc | auto | intros i _ []].
    + apply wf_alloc; [assumption | rewrite cl_length; assumption].
    + right. apply (ext_len _ _ _ E1).
Qed.

Lemma public_ip dom ran ro c F ip oop :
  raw_ip_vec ip dom ran ro c F ->
  ip_ok {| o_dom := dom; o_ran := RSp ran; o_call := public_call junk dom (RSp ran) ip oop |} ran ro c F.
Proof.
  intros Hraw s x y dx dy W G Ex Ey Nxy Ny Hs. cbn [o_call o_dom] in *.
  destruct (Hraw s x y dx dy W G Ex Ey Nxy Ny Hs) as (v & s1 & Hc & Hv & Er & E1 & W1).
  unfold public_call.
  rewrite (bind_Ok _ _ s true s) by (rewrite (in_space_elem _ _ _ _ Ex); reflexivity).
  cbn [ret]. rewrite (bind_Ok _ _ s (Some (VElem x)) s) by reflexivity.
  rewrite (bind_Ok _ _ s true s) by (cbn; rewrite Ey, sp_eqb_refl; reflexivity).
  cbn [negb]. rewrite (bind_Ok _ _ _ _ _ Hc).
  exists s1. destruct Hv as [-> | ->].
  - splits; auto.
  - rewrite Nat.eqb_refl. splits; auto.
Qed.

Lemma public_sc dom ro f ip oop :
  raw_oop_sc oop dom ro f ->
  sc_ok {| o_dom := dom; o_ran := RField; o_call := public_call junk dom RField ip oop |} ro f.
Proof.
  intros Hraw. split; [reflexivity|]. intros s x dx W G Ex. cbn [o_call o_dom] in *.
  destruct (Hraw s x dx W G Ex) as (s1 & Hc & E1 & W1).
  unfold public_call.
  rewrite (bind_Ok _ _ s true s) by (rewrite (in_space_elem _ _ _ _ Ex); reflexivity).
  cbn [ret]. rewrite (bind_Ok _ _ s (Some (VElem x)) s) by reflexivity.
  rewrite (bind_Ok _ _ _ _ _ Hc).
  rewrite (bind_Ok _ _ s1 true s1) by reflexivity.
  exists s1. splits; auto.
Qed.

(* ---- the two default bridges ---- *)
(* _default_call_in_place:  out.assign(range.element(_call_out_of_place(x))) *)
Lemma bridge_ip dom ran ro c F oop :
  raw_oop_vec oop dom ran ro F -> raw_ip_vec (default_ip junk (RSp ran) oop) dom ran ro c F.
Proof.
  intros Hraw s x y dx dy W G Ex Ey Nxy Ny _.
  destruct (Hraw s x dx W G Ex) as (v & s1 & Hc & E1 & W1 & Hv).
  assert (Ey1 : rd s1 y = Some (ran, dy)) by (eapply ext_rd; [exact E1 | exact Ey | intros []]).
  unfold default_ip. rewrite (bind_Ok _ _ _ _ _ Hc).
  destruct Hv as [(r & -> & Er & Hr) | (-> & Lr)].
  - unfold cast_rsp, cast_space. unfold bind at 1. rewrite Er, sp_eqb_refl.
    erewrite bind_Ok by (eapply do_assign_clean; eassumption). cbn [ret].
    exists VNone, (upd s1 y (ran, cl (F dx))). splits; auto.
    + apply rd_upd_same. eapply rd_lt; eassumption.
    + eapply ext_trans; [exact E1 | eapply ext_upd; exact Ey1 | intros i [] | intros i _ [<-|[]]; left; reflexivity].
    + apply wf_upd; [assumption|]. apply (W1 _ _ _ Er).
  - unfold cast_rsp, cast_space. unfold bind at 1. rewrite cl_length, Lr, Nat.eqb_refl. cbn [alloc].
    set (s2 := s1 ++ [(ran, cl (F dx))]).
    assert (W2 : wf_store s2) by (apply wf_alloc; [assumption | rewrite cl_length; assumption]).
    assert (Ey2 : rd s2 y = Some (ran, dy)) by (unfold s2; rewrite rd_app_old; [assumption | eapply rd_lt; eassumption]).
    erewrite bind_Ok by (eapply do_assign_clean; [exact W2 | apply rd_app_new | exact Ey2]). cbn [ret].
    exists VNone, (upd s2 y (ran, cl (F dx))). splits; auto.
    + apply rd_upd_same. eapply rd_lt; eassumption.
    + eapply ext_trans; [exact E1 | | intros i [] | intros i _ Hi; exact Hi].
      eapply ext_trans; [apply ext_alloc | eapply ext_upd; exact Ey2 | intros i [] | intros i _ [<-|[]]; left; reflexivity].
    + apply wf_upd; [assumption|]. rewrite cl_length. assumption.
Qed.

(* _default_call_out_of_place:  out = range.element(); _call_in_place(x, out); return out *)
Lemma bridge_oop dom ran ro F ip :
  raw_ip_vec ip dom ran ro [] F -> raw_oop_vec (default_oop junk (RSp ran) ip) dom ran ro F.
Proof.
  intros Hraw s x dx W G Ex.
  unfold default_oop. rewrite (bind_Ok _ _ _ _ _ (alloc_empty_eq ran s)).
  set (s1 := s ++ [(ran, junkbuf junk (length s) (fst ran))]).
  assert (W1 : wf_store s1) by (apply wf_alloc; [assumption | apply junkbuf_length]).
  assert (E01 : ext s s1 []) by apply ext_alloc.
  assert (G1 : good ro s1) by (eapply good_ext; [exact G | exact E01 | intros i []]).
  assert (Lx : (x < length s)%nat) by (eapply rd_lt; eassumption).
  assert (Ex1 : rd s1 x = Some (dom, cl dx)) by (unfold s1; rewrite rd_app_old; assumption).
  destruct (Hraw s1 x (length s) dx _ W1 G1 Ex1 (rd_app_new _ _)) as (v & s2 & Hc & Hv & Er & E2 & W2).
  { lia. }
  { intros I. apply (good_lt _ _ _ G) in I. lia. }
  { apply scr_ok_nil. }
  rewrite (bind_Ok _ _ _ _ _ Hc).
  exists (VElem (length s)), s2.
  assert (Hret : forall A B : Prop, A -> B -> A /\ B) by (intros; split; assumption).
  destruct Hv as [-> | ->]; [| rewrite Nat.eqb_refl]; cbn [ret]; (split; [reflexivity|]); splits; auto.
  all: try (eapply ext_trans; [exact E01 | exact E2 | intros i [] | intros i Li [<- | []]; lia]).
  all: left; exists (length s); splits; auto.
Qed.
(* Operator.__new__: whatever the signature of `_call`, both public modes are good *)
Lemma slots_vec (k : kind) dom ran ro c F raw_oop raw_ip :
  (k = KOop \/ k = KBoth -> raw_oop_vec raw_oop dom ran ro F) ->
  (k = KIp \/ k = KBoth -> raw_ip_vec raw_ip dom ran ro c F) ->
  (k = KIp -> c = []) ->
  let '(ip, oop) := slots junk k (RSp ran) raw_oop raw_ip in
  vec_ok {| o_dom := dom; o_ran := RSp ran; o_call := public_call junk dom (RSp ran) ip oop |} ran ro c F.
Proof.
  intros Ho Hi Hc. destruct k; cbn [slots]; (split; [reflexivity | split]).
  - apply public_oop. apply Ho; auto.
  - apply public_ip. apply bridge_ip. apply Ho; auto.
  - apply public_oop. apply Ho; auto.
  - apply public_ip. apply Hi; auto.
  - apply public_oop. apply bridge_oop. rewrite <- (Hc eq_refl). apply Hi; auto.
  - apply public_ip. apply Hi; auto.
Qed.
End Protocol.
