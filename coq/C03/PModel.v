(* C03/PModel.v -- product-space operators of odl/operator/pspace_ops.py on top of the
   flat heap model: a product-space element is the list of its parts (flat objects, each
   with its own identity); ProductSpaceOperator._call is the loop over the COO entries.
   Executable definitions only. *)
From Coq Require Import ZArith QArith List Bool Arith.
From Verif Require Import Base.Num Base.Vec C03.Syntax Gen.C03Bodies C03.Model.
Import ListNotations.
Local Open Scope num_scope.

Section PModel.
Context {V : Type} `{Num V}.
Variable junk : nat -> nat -> V.
Notation "x <- m ;; f" := (bind m (fun x => f)) (at level 61, m at next level, right associativity).
Notation MV := (@M V).
Notation storeV := (@store V).

(* one stored operator of the matrix: (row, column, operator) in COO order *)
Record entry := { en_row : nat; en_col : nat; en_op : @op V }.

Definition nthid (l : list nat) (i : nat) : MV nat := lift_opt (nth_error l i).

(* self.range.zero(): one np.zeros part per component *)
Fixpoint alloc_zeros (sps : list space) : MV (list nat) :=
  match sps with
  | [] => ret []
  | sp :: r => t <- alloc sp (zeros (fst sp)) ;; l <- alloc_zeros r ;; ret (t :: l)
  end.

(* out-of-place:  out = range.zero();  for i, j, op: out[i] += op(x[j]) *)
Fixpoint pso_oop_loop (ents : list entry) (xs outs : list nat) : MV unit :=
  match ents with
  | [] => ret tt
  | e :: r =>
      xj <- nthid xs (en_col e) ;; oi <- nthid outs (en_row e) ;;
      v <- call junk (en_op e) (VElem xj) None ;; i <- elem_id v ;;
      _ <- do_iadd oi i ;;
      pso_oop_loop r xs outs
  end.
Definition pso_oop (ents : list entry) (ran : list space) (xs : list nat) : MV (list nat) :=
  outs <- alloc_zeros ran ;; _ <- pso_oop_loop ents xs outs ;; ret outs.

(* in-place:  first entry of a row: op(x[j], out=out[i]); later ones: out[i] += op(x[j]);
   rows without entry: out[i].set_zero() *)
Fixpoint set_true (l : list bool) (i : nat) : list bool :=
  match l, i with
  | [], _ => []
  | _ :: r, O => true :: r
  | b :: r, S i' => b :: set_true r i'
  end.
Fixpoint pso_ip_loop (ents : list entry) (xs outs : list nat) (ev : list bool) : MV (list bool) :=
  match ents with
  | [] => ret ev
  | e :: r =>
      xj <- nthid xs (en_col e) ;; oi <- nthid outs (en_row e) ;;
      _ <- (if nth (en_row e) ev false
            then v <- call junk (en_op e) (VElem xj) None ;; i <- elem_id v ;; do_iadd oi i
            else _ <- call junk (en_op e) (VElem xj) (Some (VElem oi)) ;; ret tt) ;;
      pso_ip_loop r xs outs (set_true ev (en_row e))
  end.
Fixpoint zero_rest (outs : list nat) (ev : list bool) : MV unit :=
  match outs, ev with
  | o :: r, b :: r' => _ <- (if b then ret tt else do_set_zero o) ;; zero_rest r r'
  | _, _ => ret tt
  end.
Definition pso_ip (ents : list entry) (xs outs : list nat) : MV unit :=
  ev <- pso_ip_loop ents xs outs (repeat false (length outs)) ;; zero_rest outs ev.

(* membership of a product element: right number of parts, each in its component space *)
Fixpoint in_pspace (sps : list space) (xs : list nat) (s : storeV) : bool :=
  match sps, xs with
  | [], [] => true
  | sp :: r, i :: r' => in_space sp (VElem i) s && in_pspace r r' s
  | _, _ => false
  end.

(* Operator.__call__ of a ProductSpaceOperator on product elements (no casting of
   product arguments is modelled: a non-member is rejected) *)
Definition pso_call (ents : list entry) (dom ran : list space) (xs : list nat) (out : option (list nat))
  : MV (list nat) :=
  inx <- (fun s => Ok (in_pspace dom xs s) s) ;;
  if negb inx then fail EDomain
  else match out with
       | Some outs =>
           iny <- (fun s => Ok (in_pspace ran outs s) s) ;;
           if negb iny then fail ERange else _ <- pso_ip ents xs outs ;; ret outs
       | None => pso_oop ents ran xs
       end.

(* BroadcastOperator(op_0..op_{n-1}): x |-> [op_i(x)];  ReductionOperator: x |-> sum_j op_j(x[j]);
   DiagonalOperator: block diagonal -- all three are ProductSpaceOperators with a fixed pattern *)
Fixpoint number_from {A} (k : nat) (l : list A) : list (nat * A) :=
  match l with [] => [] | a :: r => (k, a) :: number_from (S k) r end.
Definition broadcast_entries (ops : list (@op V)) : list entry :=
  map (fun p => {| en_row := fst p; en_col := 0; en_op := snd p |}) (number_from 0 ops).
Definition reduction_entries (ops : list (@op V)) : list entry :=
  map (fun p => {| en_row := 0; en_col := fst p; en_op := snd p |}) (number_from 0 ops).
Definition diagonal_entries (ops : list (@op V)) : list entry :=
  map (fun p => {| en_row := fst p; en_col := fst p; en_op := snd p |}) (number_from 0 ops).

(* ComponentProjection(space, i):  x |-> x[i]   (copy / assign) *)
Definition cproj_oop (i : nat) (xs : list nat) : MV nat := xi <- nthid xs i ;; do_copy xi.
Definition cproj_ip (i : nat) (xs : list nat) (o : nat) : MV unit := xi <- nthid xs i ;; do_assign o xi.
(* ComponentProjectionAdjoint(space, i):  x |-> (0, .., x, .., 0):
     out = range.zero() / out.set_zero();  out[i] = x   (p[:] = x, a data copy) *)
Fixpoint set_zero_all (outs : list nat) : MV unit :=
  match outs with [] => ret tt | o :: r => _ <- do_set_zero o ;; set_zero_all r end.
Definition cpadj_oop (i : nat) (ran : list space) (x : nat) : MV (list nat) :=
  outs <- alloc_zeros ran ;; oi <- nthid outs i ;; d <- data_of x ;; _ <- set_data oi d ;; ret outs.
Definition cpadj_ip (i : nat) (x : nat) (outs : list nat) : MV unit :=
  _ <- set_zero_all outs ;; oi <- nthid outs i ;; d <- data_of x ;; set_data oi d.
End PModel.
