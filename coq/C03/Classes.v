(* C03/Classes.v -- symbolic execution of the REGENERATED `_call` bodies
   (Gen/C03Bodies.v): given operands that meet the public-call contract, both
   modes of each expression class meet the raw contract with the stated
   denotation. *)
From Coq Require Import ZArith QArith Reals Lra Lia List Bool Arith.
From Verif Require Import Base.Num Base.Vec C03.Syntax Gen.C03Bodies C03.Poison C03.Model C03.Heap C03.Protocol.
Import ListNotations.

Section Classes.
Variable junk : nat -> nat -> VR.
Notation opsemR := (@opsem VR).
Notation instR := (@inst VR).

Ltac interp :=
  cbv beta iota zeta delta [exec_body exec_sts exec_st eval_ex b_st b_ret c_oop c_ip lookup bindref set_last bind_sc eval_scal
       sel_space ref_id elem_id lift_opt nth_error i_kids i_pars i_vecs i_owns i_dom i_ran
       e_x e_out e_tmp e_sc e_last assoc Nat.eqb bind ret fail opt2].

Lemma upd_app_last (s : storeR) c c' : upd (s ++ [c]) (length s) c' = s ++ [c'].
Proof. induction s as [|a s IH]; cbn; [reflexivity|]. rewrite IH. reflexivity. Qed.
Lemma space_of_eq (s : storeR) i sp d : rd s i = Some (sp, d) -> space_of i s = Ok sp s.
Proof. intros E. unfold space_of. rewrite E. reflexivity. Qed.

Lemma new_scaled_clean a i (s : storeR) sp d : wf_store s -> rd s i = Some (sp, cl d) ->
  new_scaled junk (Some a) i s = Ok (VElem (length s)) (s ++ [(sp, cl (rscal a d))]).
Proof.
  intros W E. unfold new_scaled.
  rewrite (bind_Ok _ _ _ _ _ (space_of_eq _ _ _ _ E)).
  rewrite (bind_Ok _ _ _ _ _ (alloc_empty_eq junk sp s)).
  erewrite bind_Ok.
  2:{ eapply do_lincomb1_clean.
      - apply wf_alloc; [exact W | apply junkbuf_length].
      - rewrite rd_app_old; [exact E | eapply rd_lt; exact E].
      - apply rd_app_new. }
  cbn [ret]. rewrite upd_app_last. reflexivity.
Qed.
Lemma new_add_clean i j (s : storeR) sp di dj : wf_store s ->
  rd s i = Some (sp, cl di) -> rd s j = Some (sp, cl dj) ->
  new_add junk i j s = Ok (VElem (length s)) (s ++ [(sp, cl (radd di dj))]).
Proof.
  intros W Ei Ej. unfold new_add.
  rewrite (bind_Ok _ _ _ _ _ (space_of_eq _ _ _ _ Ei)).
  rewrite (bind_Ok _ _ _ _ _ (alloc_empty_eq junk sp s)).
  change (@none_ VR _) with (Some 1%R).
  erewrite bind_Ok.
  2:{ eapply do_lincomb_clean.
      - apply wf_alloc; [exact W | apply junkbuf_length].
      - rewrite rd_app_old; [exact Ei | eapply rd_lt; exact Ei].
      - rewrite rd_app_old; [exact Ej | eapply rd_lt; exact Ej].
      - apply rd_app_new. }
  cbn [ret]. rewrite upd_app_last, rlin_11. reflexivity.
Qed.
Lemma new_mul_clean j i (s : storeR) sp di dj : 
  rd s i = Some (sp, cl di) -> rd s j = Some (sp, cl dj) ->
  new_mul junk j i s = Ok (VElem (length s)) (s ++ [(sp, cl (rmul dj di))]).
Proof.
  intros Ei Ej. unfold new_mul.
  rewrite (bind_Ok _ _ _ _ _ (space_of_eq _ _ _ _ Ei)).
  rewrite (bind_Ok _ _ _ _ _ (alloc_empty_eq junk sp s)).
  erewrite bind_Ok.
  2:{ eapply do_multiply_clean.
      - rewrite rd_app_old; [exact Ej | eapply rd_lt; exact Ej].
      - rewrite rd_app_old; [exact Ei | eapply rd_lt; exact Ei].
      - apply rd_app_new. }
  cbn [ret]. rewrite upd_app_last. reflexivity.
Qed.

(* the fresh-object tail shared by every out-of-place arithmetic result *)
Lemma fresh_result (s s1 : storeR) (x : nat) ran d :
  ext s s1 [] -> wf_store s1 -> length d = fst ran ->
  ext s (s1 ++ [(ran, cl d)]) [] /\ wf_store (s1 ++ [(ran, cl d)]) /\
  ((exists r, VElem (length s1) = @VElem VR r /\ rd (s1 ++ [(ran, cl d)]) r = Some (ran, cl d) /\
              (r = x \/ (length s <= r)%nat)) \/
   (@VElem VR (length s1) = VArr (cl d) /\ length d = fst ran)).
Proof.
  intros E W L. splits.
  - eapply ext_trans; [exact E | apply ext_alloc | auto | intros i _ []].
  - apply wf_alloc; [exact W | rewrite cl_length; exact L].
  - left. exists (length s1). splits; [reflexivity | apply rd_app_new | right; apply (ext_len _ _ _ E)].
Qed.

Lemma lscal_oop (K : opsemR) dom ran ro c F a :
  o_dom K = dom -> vec_ok K ran ro c F ->
  raw_oop_vec (fun x => exec_body junk
      {| i_dom := dom; i_ran := RSp ran; i_pars := [Some a]; i_vecs := []; i_owns := []; i_kids := [K] |}
      (c_oop cls_OperatorLeftScalarMult) x None) dom ran ro (fun d => rscal a (F d)).
Proof.
  intros Hd (Hr & Hoop & Hip) s x dx W G Ex.
  unfold cls_OperatorLeftScalarMult. interp.
  rewrite <- Hd in Ex.
  destruct (Hoop s x dx W G Ex) as (r & s1 & Hc & Er & E1 & W1 & Hrx).
  rewrite Hc. rewrite (new_scaled_clean _ _ _ _ _ W1 Er).
  eexists _, _. split; [reflexivity|].
  apply fresh_result; auto. rewrite rscal_length. rewrite <- (cl_length (F dx)). apply (W1 _ _ _ Er).
Qed.

(* rewrite with a call equation up to conversion of the store's type *)
Ltac rw_call H :=
  match type of H with
  | o_call ?K ?a ?b ?c = ?rhs =>
      match goal with
      | |- context [o_call K a ?b' ?c'] => replace (o_call K a b' c') with rhs by (symmetry; exact H)
      end
  end.

(* ---- small helpers for frames ---- *)
Ltac notin :=
  let H := fresh in intros H; cbn in H;
  repeat (destruct H as [H|H]; [try lia; try congruence|]); try contradiction.
Lemma ext_nil_any (s s' : storeR) m : ext s s' [] -> ext s s' m.
Proof. intros E. eapply ext_weaken; [exact E | intros i []]. Qed.
Lemma ext_trans_same (s s1 s2 : storeR) m : ext s s1 m -> ext s1 s2 m -> ext s s2 m.
Proof. intros A B. eapply ext_trans; eauto. Qed.
Lemma ext_trans_fresh (s s1 s2 : storeR) m t :
  ext s s1 m -> ext s1 s2 [t] -> (length s <= t)%nat -> ext s s2 m.
Proof. intros A B L. eapply ext_trans; [exact A | exact B | auto | intros i Li [<-|[]]; lia]. Qed.
Lemma ip_finish (s s1 : storeR) y m ran d d' :
  ext s s1 (y :: m) -> wf_store s1 -> rd s1 y = Some (ran, d) -> length d' = fst ran ->
  rd (upd s1 y (ran, cl d')) y = Some (ran, cl d') /\ ext s (upd s1 y (ran, cl d')) (y :: m) /\
  wf_store (upd s1 y (ran, cl d')).
Proof.
  intros E W Ey L. splits.
  - apply rd_upd_same. eapply rd_lt; exact Ey.
  - eapply ext_trans; [exact E | eapply ext_upd; exact Ey | auto | intros i _ [<-|[]]; left; reflexivity].
  - apply wf_upd; [exact W | rewrite cl_length; exact L].
Qed.
Lemma fresh_notin_scr c ro (s : storeR) x y : scr_ok c ro s x y -> ~ In (length s) (scr_ids c).
Proof. intros H I. apply (scr_lt _ _ _ _ _ _ H) in I. lia. Qed.
Lemma good_ext_scr ro c (s s' : storeR) x y o :
  good ro s -> scr_ok c ro s x y -> ext s s' (o :: scr_ids c) -> ~ In o (ro_ids ro) -> good ro s'.
Proof.
  intros G (_ & _ & _ & D) E No. eapply good_ext; [exact G | exact E |].
  intros i [<-|I]; [exact No | apply D; exact I].
Qed.
Lemma wf_len (s : storeR) i sp d : wf_store s -> rd s i = Some (sp, cl d) -> length d = fst sp.
Proof. intros W E. rewrite <- (cl_length d). apply (W _ _ _ E). Qed.
Lemma radd_comm x y : radd y x = radd x y.
Proof. unfold radd. apply vmap2_swap. intros; lra. Qed.

Lemma lscal_ip (K : opsemR) dom ran ro c F a :
  o_dom K = dom -> vec_ok K ran ro c F ->
  raw_ip_vec (fun x o => exec_body junk
      {| i_dom := dom; i_ran := RSp ran; i_pars := [Some a]; i_vecs := []; i_owns := []; i_kids := [K] |}
      (c_ip cls_OperatorLeftScalarMult) x (Some o)) dom ran ro c (fun d => rscal a (F d)).
Proof.
  intros Hd (Hr & Hoop & Hip) s x y dx dy W G Ex Ey Nxy Ny Hs.
  unfold cls_OperatorLeftScalarMult. interp.
  rewrite <- Hd in Ex.
  destruct (Hip s x y dx dy W G Ex Ey Nxy Ny Hs) as (s1 & Hc & Er & E1 & W1).
  rewrite Hc. rewrite (do_iscal_clean _ _ _ _ _ W1 Er).
  eexists _, _. split; [reflexivity|]. split; [left; reflexivity|].
  eapply ip_finish; eauto. rewrite rscal_length. eapply wf_len; eauto.
Qed.

(* facts that survive a call which modifies nothing that existed before *)
Lemma keep_nil (s s1 : storeR) ro x c :
  ext s s1 [] -> good ro s -> rd s x = Some c -> good ro s1 /\ rd s1 x = Some c.
Proof.
  intros E G Ex. split.
  - eapply good_ext; [exact G | exact E | intros i []].
  - eapply ext_rd; [exact E | exact Ex | intros []].
Qed.

Definition inst_sum (dom ran : space) (ot od : option nat) (Kl Kr : opsemR) : instR :=
  {| i_dom := dom; i_ran := RSp ran; i_pars := []; i_vecs := []; i_owns := [ot; od]; i_kids := [Kl; Kr] |}.
(* the scratch list contributed by a user-supplied temporary *)
Definition own_scr (ot : option nat) (sp : space) : scr_t :=
  match ot with Some t => [(t, sp)] | None => [] end.

Lemma sum_oop (Kl Kr : opsemR) dom ran ro cl_ cr ot od Fl Fr :
  o_dom Kl = dom -> o_dom Kr = dom -> vec_ok Kl ran ro cl_ Fl -> vec_ok Kr ran ro cr Fr ->
  raw_oop_vec (fun x => exec_body junk (inst_sum dom ran ot od Kl Kr) (c_oop cls_OperatorSum) x None)
    dom ran ro (fun d => radd (Fl d) (Fr d)).
Proof.
  intros Hdl Hdr (_ & Hol & _) (_ & Hor & _) s x dx W G Ex.
  unfold cls_OperatorSum, inst_sum. interp.
  assert (Exl : rd s x = Some (o_dom Kl, cl dx)) by (rewrite Hdl; exact Ex).
  destruct (Hol s x dx W G Exl) as (rl & s1 & Hc1 & Er1 & E1 & W1 & Hrl).
  rewrite Hc1.
  destruct (keep_nil _ _ _ _ _ E1 G Ex) as (G1 & Ex1). rewrite <- Hdr in Ex1.
  destruct (Hor s1 x dx W1 G1 Ex1) as (rr & s2 & Hc2 & Er2 & E2 & W2 & Hrr).
  rewrite Hc2.
  assert (Er1' : rd s2 rl = Some (ran, cl (Fl dx))) by (eapply ext_rd; [exact E2 | exact Er1 | intros []]).
  rewrite (new_add_clean _ _ _ _ _ _ W2 Er1' Er2).
  eexists _, _. split; [reflexivity|].
  apply fresh_result; auto.
  - eapply ext_trans_same; eassumption.
  - rewrite radd_length; [eapply wf_len; eauto|].
    rewrite (wf_len _ _ _ _ W2 Er1'), (wf_len _ _ _ _ W2 Er2). reflexivity.
Qed.

(* membership helpers for frames *)
Lemma in_scr_own t sp : In t (scr_ids (own_scr (Some t) sp)).
Proof. left. reflexivity. Qed.
Ltac inl := apply in_or_app; left.
Ltac inr := apply in_or_app; right.

Ltac sum_tail Kl Kr cl_ cr Fl Fr s s1 x y t dx dy dt W1 E01 Et1 Ntx Nty Nt Ntl Ntr Hfr G Ex Ey Hs_l Hs_r Hdl Hdr Hil Hir Nxy Ny :=
  let G1 := fresh "G1" in let Ex1 := fresh "Ex1" in let Ey1 := fresh "Ey1" in let Hs_l1 := fresh "Hs_l1" in
  let s2 := fresh "s2" in let Hc1 := fresh "Hc1" in let Er1 := fresh "Er1" in let E2 := fresh "E2" in
  let W2 := fresh "W2" in let G2 := fresh "G2" in let Nx_l := fresh "Nx_l" in let Ny_l := fresh "Ny_l" in
  let Ex2 := fresh "Ex2" in let Ey2 := fresh "Ey2" in let Hs_r2 := fresh "Hs_r2" in
  let s3 := fresh "s3" in let Hc2 := fresh "Hc2" in let Er2 := fresh "Er2" in let E3 := fresh "E3" in
  let W3 := fresh "W3" in let Et3 := fresh "Et3" in let Efin := fresh "Efin" in
  destruct (keep_nil _ _ _ _ _ E01 G Ex) as (G1 & Ex1);
  assert (Ey1 : rd s1 y = Some (_, dy)) by (eapply ext_rd; [exact E01 | exact Ey | intros []]);
  assert (Hs_l1 : scr_ok cl_ _ s1 x t)
    by (eapply scr_ok_xy; [eapply scr_ok_ext; [exact Hs_l | exact E01] | destruct Hs_l as (_ & A & _); exact A | exact Ntl]);
  rewrite <- Hdl in Ex1;
  destruct (Hil s1 x t dx dt W1 G1 Ex1 Et1 (not_eq_sym Ntx) Nt Hs_l1) as (s2 & Hc1 & Er1 & E2 & W2);
  rw_call Hc1;
  assert (G2 : good _ s2) by (eapply good_ext_scr; [exact G1 | exact Hs_l1 | exact E2 | exact Nt]);
  assert (Nx_l : ~ In x (t :: scr_ids cl_))
    by (intros [Q|I]; [congruence | destruct Hs_l as (_ & A & _); exact (A I)]);
  assert (Ny_l : ~ In y (t :: scr_ids cl_))
    by (intros [Q|I]; [congruence | destruct Hs_l as (_ & _ & B & _); exact (B I)]);
  assert (Ex2 : rd s2 x = Some (o_dom Kr, cl dx))
    by (rewrite Hdr, <- Hdl; eapply ext_rd; [exact E2 | exact Ex1 | exact Nx_l]);
  assert (Ey2 : rd s2 y = Some (_, dy)) by (eapply ext_rd; [exact E2 | exact Ey1 | exact Ny_l]);
  assert (Hs_r2 : scr_ok cr _ s2 x y)
    by (eapply scr_ok_ext; [eapply scr_ok_ext; [exact Hs_r | exact E01] | exact E2]);
  destruct (Hir s2 x y dx dy W2 G2 Ex2 Ey2 Nxy Ny Hs_r2) as (s3 & Hc2 & Er2 & E3 & W3);
  rewrite Hc2;
  assert (Et3 : rd s3 t = Some (_, cl (Fl dx)))
    by (eapply ext_rd; [exact E3 | exact Er1 | intros [Q|I]; [congruence | exact (Ntr I)]]);
  rewrite (do_iadd_clean _ _ _ _ _ _ W3 Er2 Et3);
  eexists _, _; split; [reflexivity|]; split; [left; reflexivity|];
  rewrite radd_comm;
  rewrite ?scr_ids_app; cbn [scr_ids map app fst];
  splits;
  [ apply rd_upd_same; eapply rd_lt; exact Er2
  | eapply ext_trans; [| eapply ext_upd; exact Er2 | intros i I; exact I | intros i _ [<-|[]]; left; reflexivity];
    eapply ext_trans; [| exact E3 | intros i I; exact I |];
    [ eapply ext_trans; [exact E01 | exact E2 | intros i [] |];
      intros i Li [<-|I];
      [ destruct Hfr as [Hfr'|Hfr']; [lia | right; exact Hfr'] | right; try (right); inl; exact I ]
    | intros i Li [<-|I]; [left; reflexivity | right; try (right); inr; exact I] ]
  | apply wf_upd; [exact W3|]; rewrite cl_length, radd_length; [eapply wf_len; eauto|];
    rewrite (wf_len _ _ _ _ W3 Et3), (wf_len _ _ _ _ W3 Er2); reflexivity ].

Lemma sum_ip (Kl Kr : opsemR) dom ran ro cl_ cr ot od Fl Fr :
  o_dom Kl = dom -> o_dom Kr = dom -> vec_ok Kl ran ro cl_ Fl -> vec_ok Kr ran ro cr Fr ->
  NoDup (scr_ids (own_scr ot ran ++ cl_ ++ cr)) ->
  raw_ip_vec (fun x o => exec_body junk (inst_sum dom ran ot od Kl Kr) (c_ip cls_OperatorSum) x (Some o))
    dom ran ro (own_scr ot ran ++ cl_ ++ cr) (fun d => radd (Fl d) (Fr d)).
Proof.
  intros Hdl Hdr (_ & _ & Hil) (_ & _ & Hir) ND s x y dx dy W G Ex Ey Nxy Ny Hs.
  pose proof (scr_ok_r _ _ _ _ _ _ Hs) as Hs_lr.
  pose proof (scr_ok_l _ _ _ _ _ _ Hs_lr) as Hs_l. pose proof (scr_ok_r _ _ _ _ _ _ Hs_lr) as Hs_r.
  rewrite !scr_ids_app in ND.
  assert (Lx : (x < length s)%nat) by (eapply rd_lt; exact Ex).
  assert (Ly : (y < length s)%nat) by (eapply rd_lt; exact Ey).
  unfold cls_OperatorSum, inst_sum. interp.
  destruct ot as [t|].
  - (* user-supplied temporary *)
    destruct Hs as (Hex & Hx & Hy & Hro). destruct (Hex t ran (or_introl eq_refl)) as (dt & Et1).
    cbn [own_scr scr_ids map app fst] in *.
    apply NoDup_cons_iff in ND as [ND1 ND2].
    assert (Ntx : t <> x) by (intros ->; apply Hx; left; reflexivity).
    assert (Nty : t <> y) by (intros ->; apply Hy; left; reflexivity).
    assert (Nt : ~ In t (ro_ids ro)) by (apply Hro; left; reflexivity).
    assert (Ntl : ~ In t (scr_ids cl_)) by (intros I; apply ND1; inl; exact I).
    assert (Ntr : ~ In t (scr_ids cr)) by (intros I; apply ND1; inr; exact I).
    assert (Hfr : (length s <= t)%nat \/ In t (t :: scr_ids cl_ ++ scr_ids cr)) by (right; left; reflexivity).
    sum_tail Kl Kr cl_ cr Fl Fr s s x y t dx dy dt W (ext_refl s (@nil nat)) Et1 Ntx Nty Nt Ntl Ntr Hfr
             G Ex Ey Hs_l Hs_r Hdl Hdr Hil Hir Nxy Ny.
  - rewrite alloc_empty_eq. set (t := length s). set (s1 := s ++ [(ran, junkbuf junk t (fst ran))]).
    assert (W1 : wf_store s1) by (apply wf_alloc; [exact W | apply junkbuf_length]).
    assert (Et1 : rd s1 t = Some (ran, junkbuf junk t (fst ran))) by apply rd_app_new.
    assert (Ntx : t <> x) by (unfold t; lia).
    assert (Nty : t <> y) by (unfold t; lia).
    assert (Nt : ~ In t (ro_ids ro)) by (intros I; apply (good_lt _ _ _ G) in I; unfold t in I; lia).
    assert (Ntl : ~ In t (scr_ids cl_)) by apply (fresh_notin_scr _ _ _ _ _ Hs_l).
    assert (Ntr : ~ In t (scr_ids cr)) by apply (fresh_notin_scr _ _ _ _ _ Hs_r).
    assert (Hfr : (length s <= t)%nat \/ In t (scr_ids cl_ ++ scr_ids cr)) by (left; unfold t; lia).
    cbn [own_scr scr_ids map app] in *.
    sum_tail Kl Kr cl_ cr Fl Fr s s1 x y t dx dy (junkbuf junk t (fst ran)) W1 (ext_alloc s (ran, junkbuf junk t (fst ran)))
             Et1 Ntx Nty Nt Ntl Ntr Hfr G Ex Ey Hs_l Hs_r Hdl Hdr Hil Hir Nxy Ny.
Qed.

(* ---------------- OperatorVectorSum ---------------- *)
Definition inst_vec1 (dom ran : space) (v : nat) (K : opsemR) : instR :=
  {| i_dom := dom; i_ran := RSp ran; i_pars := []; i_vecs := [v]; i_owns := []; i_kids := [K] |}.

Lemma vecsum_oop (K : opsemR) dom ran ro c F v dv :
  o_dom K = dom -> vec_ok K ran ro c F -> In (v, ran, dv) ro ->
  raw_oop_vec (fun x => exec_body junk (inst_vec1 dom ran v K) (c_oop cls_OperatorVectorSum) x None)
    dom ran ro (fun d => radd (F d) dv).
Proof.
  intros Hd (_ & Hoop & _) Iv s x dx W G Ex.
  unfold cls_OperatorVectorSum, inst_vec1. interp.
  rewrite <- Hd in Ex.
  destruct (Hoop s x dx W G Ex) as (r & s1 & Hc & Er & E1 & W1 & Hrx).
  rewrite Hc.
  destruct (keep_nil _ _ _ _ _ E1 G Ex) as (G1 & _).
  pose proof (G1 _ _ _ Iv) as Ev.
  rewrite (new_add_clean _ _ _ _ _ _ W1 Er Ev).
  eexists _, _. split; [reflexivity|].
  apply fresh_result; auto.
  rewrite radd_length; [eapply wf_len; eauto|].
  rewrite (wf_len _ _ _ _ W1 Er), (wf_len _ _ _ _ W1 Ev). reflexivity.
Qed.

Lemma vecsum_ip (K : opsemR) dom ran ro c F v dv :
  o_dom K = dom -> vec_ok K ran ro c F -> In (v, ran, dv) ro ->
  raw_ip_vec (fun x o => exec_body junk (inst_vec1 dom ran v K) (c_ip cls_OperatorVectorSum) x (Some o))
    dom ran ro c (fun d => radd (F d) dv).
Proof.
  intros Hd (_ & _ & Hip) Iv s x y dx dy W G Ex Ey Nxy Ny Hs.
  unfold cls_OperatorVectorSum, inst_vec1. interp.
  rewrite <- Hd in Ex.
  destruct (Hip s x y dx dy W G Ex Ey Nxy Ny Hs) as (s1 & Hc & Er & E1 & W1).
  rewrite Hc.
  assert (G1 : good ro s1) by (eapply good_ext_scr; [exact G | exact Hs | exact E1 | exact Ny]).
  pose proof (G1 _ _ _ Iv) as Ev.
  rewrite (do_iadd_clean _ _ _ _ _ _ W1 Er Ev).
  eexists _, _. split; [reflexivity|]. split; [right; reflexivity|].
  eapply ip_finish; eauto.
  rewrite radd_length; [eapply wf_len; eauto|].
  rewrite (wf_len _ _ _ _ W1 Er), (wf_len _ _ _ _ W1 Ev). reflexivity.
Qed.

(* ---------------- OperatorComp ---------------- *)
Definition inst_comp (dom ran : space) (ot : option nat) (Kl Kr : opsemR) : instR :=
  {| i_dom := dom; i_ran := RSp ran; i_pars := []; i_vecs := []; i_owns := [ot]; i_kids := [Kl; Kr] |}.

Lemma comp_oop (Kl Kr : opsemR) dom mid ran ro cl_ cr ot Fl Fr :
  o_dom Kl = mid -> o_dom Kr = dom -> vec_ok Kl ran ro cl_ Fl -> vec_ok Kr mid ro cr Fr ->
  raw_oop_vec (fun x => exec_body junk (inst_comp dom ran ot Kl Kr) (c_oop cls_OperatorComp) x None)
    dom ran ro (fun d => Fl (Fr d)).
Proof.
  intros Hdl Hdr (_ & Hol & _) (_ & Hor & _) s x dx W G Ex.
  unfold cls_OperatorComp, inst_comp. interp.
  rewrite <- Hdr in Ex.
  destruct (Hor s x dx W G Ex) as (r1 & s1 & Hc1 & Er1 & E1 & W1 & Hr1).
  rewrite Hc1.
  destruct (keep_nil _ _ _ _ _ E1 G Ex) as (G1 & _).
  rewrite <- Hdl in Er1.
  destruct (Hol s1 r1 (Fr dx) W1 G1 Er1) as (r2 & s2 & Hc2 & Er2 & E2 & W2 & Hr2).
  rewrite Hc2.
  eexists _, _. split; [reflexivity|]. splits; auto.
  - eapply ext_trans_same; eassumption.
  - left. exists r2. splits; auto.
    pose proof (ext_len _ _ _ E1). destruct Hr2 as [->|Hr2]; [exact Hr1 | right; lia].
Qed.

Ltac comp_tail Kl Kr cl_ cr Fl Fr s s1 x y t dx dy dt W1 E01 Et1 Ntx Nty Nt Ntl Ntr Hfr G Ex Ey Hs_l Hs_r Hdl Hdr Hil Hir Nxy Ny :=
  let G1 := fresh "G1" in let Ex1 := fresh "Ex1" in let Ey1 := fresh "Ey1" in let Hs_r1 := fresh "Hs_r1" in
  let s2 := fresh "s2" in let Hc1 := fresh "Hc1" in let Er1 := fresh "Er1" in let E2 := fresh "E2" in
  let W2 := fresh "W2" in let G2 := fresh "G2" in let Ny_r := fresh "Ny_r" in
  let Ey2 := fresh "Ey2" in let Hs_l2 := fresh "Hs_l2" in
  let s3 := fresh "s3" in let Hc2 := fresh "Hc2" in let Er2 := fresh "Er2" in let E3 := fresh "E3" in
  let W3 := fresh "W3" in
  destruct (keep_nil _ _ _ _ _ E01 G Ex) as (G1 & Ex1);
  assert (Ey1 : rd s1 y = Some (_, dy)) by (eapply ext_rd; [exact E01 | exact Ey | intros []]);
  assert (Hs_r1 : scr_ok cr _ s1 x t)
    by (eapply scr_ok_xy; [eapply scr_ok_ext; [exact Hs_r | exact E01] | destruct Hs_r as (_ & A & _); exact A | exact Ntr]);
  rewrite <- Hdr in Ex1;
  destruct (Hir s1 x t dx dt W1 G1 Ex1 Et1 (not_eq_sym Ntx) Nt Hs_r1) as (s2 & Hc1 & Er1 & E2 & W2);
  rw_call Hc1;
  assert (G2 : good _ s2) by (eapply good_ext_scr; [exact G1 | exact Hs_r1 | exact E2 | exact Nt]);
  assert (Ny_r : ~ In y (t :: scr_ids cr))
    by (intros [Q|I]; [congruence | destruct Hs_r as (_ & _ & B & _); exact (B I)]);
  assert (Ey2 : rd s2 y = Some (_, dy)) by (eapply ext_rd; [exact E2 | exact Ey1 | exact Ny_r]);
  assert (Hs_l2 : scr_ok cl_ _ s2 t y)
    by (eapply scr_ok_xy; [eapply scr_ok_ext; [eapply scr_ok_ext; [exact Hs_l | exact E01] | exact E2]
                          | exact Ntl | destruct Hs_l as (_ & _ & B & _); exact B]);
  rewrite <- Hdl in Er1;
  destruct (Hil s2 t y (Fr dx) dy W2 G2 Er1 Ey2 Nty Ny Hs_l2) as (s3 & Hc2 & Er2 & E3 & W3);
  rewrite Hc2;
  eexists _, _; split; [reflexivity|]; split; [right; reflexivity|];
  rewrite ?scr_ids_app; cbn [scr_ids map app fst];
  splits; [exact Er2 | | exact W3];
  eapply ext_trans; [| exact E3 | intros i I; exact I |];
  [ eapply ext_trans; [exact E01 | exact E2 | intros i [] |];
    intros i Li [<-|I];
    [ destruct Hfr as [Hfr'|Hfr']; [lia | right; exact Hfr'] | right; try (right); inr; exact I ]
  | intros i Li [<-|I]; [left; reflexivity | right; try (right); inl; exact I] ].

Lemma comp_ip (Kl Kr : opsemR) dom mid ran ro cl_ cr ot Fl Fr :
  o_dom Kl = mid -> o_dom Kr = dom -> vec_ok Kl ran ro cl_ Fl -> vec_ok Kr mid ro cr Fr ->
  NoDup (scr_ids (own_scr ot mid ++ cl_ ++ cr)) ->
  raw_ip_vec (fun x o => exec_body junk (inst_comp dom ran ot Kl Kr) (c_ip cls_OperatorComp) x (Some o))
    dom ran ro (own_scr ot mid ++ cl_ ++ cr) (fun d => Fl (Fr d)).
Proof.
  intros Hdl Hdr (_ & _ & Hil) (Hrr & _ & Hir) ND s x y dx dy W G Ex Ey Nxy Ny Hs.
  pose proof (scr_ok_r _ _ _ _ _ _ Hs) as Hs_lr.
  pose proof (scr_ok_l _ _ _ _ _ _ Hs_lr) as Hs_l. pose proof (scr_ok_r _ _ _ _ _ _ Hs_lr) as Hs_r.
  rewrite !scr_ids_app in ND.
  assert (Lx : (x < length s)%nat) by (eapply rd_lt; exact Ex).
  assert (Ly : (y < length s)%nat) by (eapply rd_lt; exact Ey).
  unfold cls_OperatorComp, inst_comp. interp. rewrite ?Hrr.
  destruct ot as [t|].
  - destruct Hs as (Hex & Hx & Hy & Hro). destruct (Hex t mid (or_introl eq_refl)) as (dt & Et1).
    cbn [own_scr scr_ids map app fst] in *.
    apply NoDup_cons_iff in ND as [ND1 ND2].
    assert (Ntx : t <> x) by (intros ->; apply Hx; left; reflexivity).
    assert (Nty : t <> y) by (intros ->; apply Hy; left; reflexivity).
    assert (Nt : ~ In t (ro_ids ro)) by (apply Hro; left; reflexivity).
    assert (Ntl : ~ In t (scr_ids cl_)) by (intros I; apply ND1; inl; exact I).
    assert (Ntr : ~ In t (scr_ids cr)) by (intros I; apply ND1; inr; exact I).
    assert (Hfr : (length s <= t)%nat \/ In t (t :: scr_ids cl_ ++ scr_ids cr)) by (right; left; reflexivity).
    comp_tail Kl Kr cl_ cr Fl Fr s s x y t dx dy dt W (ext_refl s (@nil nat)) Et1 Ntx Nty Nt Ntl Ntr Hfr
              G Ex Ey Hs_l Hs_r Hdl Hdr Hil Hir Nxy Ny.
  - rewrite alloc_empty_eq. set (t := length s). set (s1 := s ++ [(mid, junkbuf junk t (fst mid))]).
    assert (W1 : wf_store s1) by (apply wf_alloc; [exact W | apply junkbuf_length]).
    assert (Et1 : rd s1 t = Some (mid, junkbuf junk t (fst mid))) by apply rd_app_new.
    assert (Ntx : t <> x) by (unfold t; lia).
    assert (Nty : t <> y) by (unfold t; lia).
    assert (Nt : ~ In t (ro_ids ro)) by (intros I; apply (good_lt _ _ _ G) in I; unfold t in I; lia).
    assert (Ntl : ~ In t (scr_ids cl_)) by apply (fresh_notin_scr _ _ _ _ _ Hs_l).
    assert (Ntr : ~ In t (scr_ids cr)) by apply (fresh_notin_scr _ _ _ _ _ Hs_r).
    assert (Hfr : (length s <= t)%nat \/ In t (scr_ids cl_ ++ scr_ids cr)) by (left; unfold t; lia).
    cbn [own_scr scr_ids map app] in *.
    comp_tail Kl Kr cl_ cr Fl Fr s s1 x y t dx dy (junkbuf junk t (fst mid)) W1 (ext_alloc s (mid, junkbuf junk t (fst mid)))
              Et1 Ntx Nty Nt Ntl Ntr Hfr G Ex Ey Hs_l Hs_r Hdl Hdr Hil Hir Nxy Ny.
Qed.

(* ---------------- OperatorPointwiseProduct ---------------- *)
Definition inst_pprod (dom ran : space) (Kl Kr : opsemR) : instR :=
  {| i_dom := dom; i_ran := RSp ran; i_pars := []; i_vecs := []; i_owns := []; i_kids := [Kl; Kr] |}.

Lemma pprod_oop (Kl Kr : opsemR) dom ran ro cl_ cr Fl Fr :
  o_dom Kl = dom -> o_dom Kr = dom -> vec_ok Kl ran ro cl_ Fl -> vec_ok Kr ran ro cr Fr ->
  raw_oop_vec (fun x => exec_body junk (inst_pprod dom ran Kl Kr) (c_oop cls_OperatorPointwiseProduct) x None)
    dom ran ro (fun d => rmul (Fl d) (Fr d)).
Proof.
  intros Hdl Hdr (_ & Hol & _) (_ & Hor & _) s x dx W G Ex.
  unfold cls_OperatorPointwiseProduct, inst_pprod. interp.
  assert (Exl : rd s x = Some (o_dom Kl, cl dx)) by (rewrite Hdl; exact Ex).
  destruct (Hol s x dx W G Exl) as (rl & s1 & Hc1 & Er1 & E1 & W1 & Hrl).
  rewrite Hc1.
  destruct (keep_nil _ _ _ _ _ E1 G Ex) as (G1 & Ex1). rewrite <- Hdr in Ex1.
  destruct (Hor s1 x dx W1 G1 Ex1) as (rr & s2 & Hc2 & Er2 & E2 & W2 & Hrr).
  rewrite Hc2.
  assert (Er1' : rd s2 rl = Some (ran, cl (Fl dx))) by (eapply ext_rd; [exact E2 | exact Er1 | intros []]).
  rewrite (new_mul_clean _ _ _ _ _ _ Er1' Er2).
  eexists _, _. split; [reflexivity|]. rewrite rmul_comm.
  apply fresh_result; auto.
  - eapply ext_trans_same; eassumption.
  - rewrite rmul_length; [eapply wf_len; eauto|].
    rewrite (wf_len _ _ _ _ W2 Er1'), (wf_len _ _ _ _ W2 Er2). reflexivity.
Qed.

Lemma pprod_ip (Kl Kr : opsemR) dom ran ro cl_ cr Fl Fr :
  o_dom Kl = dom -> o_dom Kr = dom -> vec_ok Kl ran ro cl_ Fl -> vec_ok Kr ran ro cr Fr ->
  (forall i, In i (scr_ids cl_) -> ~ In i (scr_ids cr)) ->
  raw_ip_vec (fun x o => exec_body junk (inst_pprod dom ran Kl Kr) (c_ip cls_OperatorPointwiseProduct) x (Some o))
    dom ran ro (cl_ ++ cr) (fun d => rmul (Fl d) (Fr d)).
Proof.
  intros Hdl Hdr (_ & _ & Hil) (Hrr & _ & Hir) ND s x y dx dy W G Ex Ey Nxy Ny Hs.
  pose proof (scr_ok_l _ _ _ _ _ _ Hs) as Hs_l. pose proof (scr_ok_r _ _ _ _ _ _ Hs) as Hs_r.
  unfold cls_OperatorPointwiseProduct, inst_pprod. interp. rewrite Hrr.
  rewrite alloc_empty_eq. set (t := length s). set (s1 := s ++ [(ran, junkbuf junk t (fst ran))]).
  assert (Lx : (x < t)%nat) by (eapply rd_lt; exact Ex).
  assert (Ly : (y < t)%nat) by (eapply rd_lt; exact Ey).
  assert (W1 : wf_store s1) by (apply wf_alloc; [exact W | apply junkbuf_length]).
  assert (E01 : ext s s1 []) by apply ext_alloc.
  destruct (keep_nil _ _ _ _ _ E01 G Ex) as (G1 & Ex1).
  assert (Ey1 : rd s1 y = Some (ran, dy)) by (eapply ext_rd; [exact E01 | exact Ey | intros []]).
  assert (Et1 : rd s1 t = Some (ran, junkbuf junk t (fst ran))) by apply rd_app_new.
  assert (Nt : ~ In t (ro_ids ro)) by (intros I; apply (good_lt _ _ _ G) in I; unfold t in I; lia).
  assert (Ntl : ~ In t (scr_ids cl_)) by apply (fresh_notin_scr _ _ _ _ _ Hs_l).
  assert (Ntr : ~ In t (scr_ids cr)) by apply (fresh_notin_scr _ _ _ _ _ Hs_r).
  assert (Hs_l1 : scr_ok cl_ ro s1 x t).
  { eapply scr_ok_xy; [eapply scr_ok_ext; [exact Hs_l | exact E01] | destruct Hs_l as (_ & A & _); exact A | exact Ntl]. }
  rewrite <- Hdl in Ex1.
  destruct (Hil s1 x t dx _ W1 G1 Ex1 Et1 ltac:(lia) Nt Hs_l1) as (s2 & Hc1 & Er1 & E2 & W2).
  rw_call Hc1.
  assert (G2 : good ro s2) by (eapply good_ext_scr; [exact G1 | exact Hs_l1 | exact E2 | exact Nt]).
  assert (Nx_l : ~ In x (t :: scr_ids cl_)).
  { intros [Q|I]; [lia | destruct Hs_l as (_ & A & _); exact (A I)]. }
  assert (Ny_l : ~ In y (t :: scr_ids cl_)).
  { intros [Q|I]; [lia | destruct Hs_l as (_ & _ & B & _); exact (B I)]. }
  assert (Ex2 : rd s2 x = Some (o_dom Kr, cl dx)).
  { rewrite Hdr, <- Hdl. eapply ext_rd; [exact E2 | exact Ex1 | exact Nx_l]. }
  assert (Ey2 : rd s2 y = Some (ran, dy)) by (eapply ext_rd; [exact E2 | exact Ey1 | exact Ny_l]).
  assert (Hs_r2 : scr_ok cr ro s2 x y).
  { eapply scr_ok_ext; [eapply scr_ok_ext; [exact Hs_r | exact E01] | exact E2]. }
  destruct (Hir s2 x y dx dy W2 G2 Ex2 Ey2 Nxy Ny Hs_r2) as (s3 & Hc2 & Er2 & E3 & W3).
  rewrite Hc2.
  assert (Et3 : rd s3 t = Some (ran, cl (Fl dx))).
  { eapply ext_rd; [exact E3 | exact Er1 | intros [Q|I]; [lia | exact (Ntr I)]]. }
  rewrite (do_multiply_clean _ _ _ _ _ _ _ _ Et3 Er2 Er2).
  eexists _, _. split; [reflexivity|]. split; [left; reflexivity|].
  rewrite scr_ids_app.
  splits.
  - apply rd_upd_same. eapply rd_lt; exact Er2.
  - eapply ext_trans; [| eapply ext_upd; exact Er2 | intros i I; exact I | intros i _ [<-|[]]; left; reflexivity].
    eapply ext_trans; [| exact E3 | intros i I; exact I |].
    + eapply ext_trans; [exact E01 | exact E2 | intros i [] |].
      intros i Li [<-|I]; [unfold t in Li; lia | right; inl; exact I].
    + intros i Li [<-|I]; [left; reflexivity | right; inr; exact I].
  - apply wf_upd; [exact W3|]. rewrite cl_length, rmul_length; [eapply wf_len; eauto|].
    rewrite (wf_len _ _ _ _ W3 Et3), (wf_len _ _ _ _ W3 Er2). reflexivity.
Qed.

(* ---------------- OperatorRightScalarMult ---------------- *)
Definition inst_rscal (dom ran : space) (a : R) (ot : option nat) (K : opsemR) : instR :=
  {| i_dom := dom; i_ran := RSp ran; i_pars := [Some a]; i_vecs := []; i_owns := [ot]; i_kids := [K] |}.

Lemma rscal_oop (K : opsemR) dom ran ro c ot F a :
  o_dom K = dom -> vec_ok K ran ro c F ->
  raw_oop_vec (fun x => exec_body junk (inst_rscal dom ran a ot K) (c_oop cls_OperatorRightScalarMult) x None)
    dom ran ro (fun d => F (rscal a d)).
Proof.
  intros Hd (_ & Hoop & _) s x dx W G Ex.
  unfold cls_OperatorRightScalarMult, inst_rscal. interp.
  rewrite (new_scaled_clean _ _ _ _ _ W Ex).
  set (t := length s). set (s1 := s ++ [(dom, cl (rscal a dx))]).
  assert (W1 : wf_store s1).
  { apply wf_alloc; [exact W | rewrite cl_length, rscal_length; eapply wf_len; eauto]. }
  assert (E01 : ext s s1 []) by apply ext_alloc.
  destruct (keep_nil _ _ _ _ _ E01 G Ex) as (G1 & _).
  assert (Et1 : rd s1 t = Some (o_dom K, cl (rscal a dx))) by (rewrite Hd; apply rd_app_new).
  destruct (Hoop s1 t _ W1 G1 Et1) as (r & s2 & Hc & Er & E2 & W2 & Hr).
  rewrite Hc.
  eexists _, _. split; [reflexivity|]. splits; auto.
  - eapply ext_trans_same; eassumption.
  - left. exists r. splits; auto. right.
    pose proof (ext_len _ _ _ E01). destruct Hr as [->|Hr]; unfold t; lia.
Qed.

Lemma rscal_ip (K : opsemR) dom ran ro c ot F a :
  o_dom K = dom -> vec_ok K ran ro c F ->
  NoDup (scr_ids (own_scr ot dom ++ c)) ->
  raw_ip_vec (fun x o => exec_body junk (inst_rscal dom ran a ot K) (c_ip cls_OperatorRightScalarMult) x (Some o))
    dom ran ro (own_scr ot dom ++ c) (fun d => F (rscal a d)).
Proof.
  intros Hd (_ & _ & Hip) ND s x y dx dy W G Ex Ey Nxy Ny Hs.
  pose proof (scr_ok_r _ _ _ _ _ _ Hs) as Hs_c.
  rewrite scr_ids_app in ND.
  assert (Lx : (x < length s)%nat) by (eapply rd_lt; exact Ex).
  assert (Ly : (y < length s)%nat) by (eapply rd_lt; exact Ey).
  assert (Lr : length (rscal a dx) = fst dom) by (rewrite rscal_length; eapply wf_len; eauto).
  unfold cls_OperatorRightScalarMult, inst_rscal. interp.
  destruct ot as [t|].
  - (* user-supplied temporary: written in place *)
    destruct Hs as (Hex & Hx & Hy & Hro). destruct (Hex t dom (or_introl eq_refl)) as (dt & Et).
    cbn [own_scr scr_ids map app fst] in *.
    apply NoDup_cons_iff in ND as [ND1 ND2].
    assert (Ntx : t <> x) by (intros ->; apply Hx; left; reflexivity).
    assert (Nty : t <> y) by (intros ->; apply Hy; left; reflexivity).
    assert (Nt : ~ In t (ro_ids ro)) by (apply Hro; left; reflexivity).
    rewrite (do_lincomb1_clean _ _ _ _ _ _ _ W Ex Et).
    set (s1 := upd s t (dom, cl (rscal a dx))).
    assert (E01 : ext s s1 [t]) by (eapply ext_upd; exact Et).
    assert (W1 : wf_store s1) by (apply wf_upd; [exact W | rewrite cl_length; exact Lr]).
    assert (G1 : good ro s1) by (eapply good_ext; [exact G | exact E01 | intros i [<-|[]]; exact Nt]).
    assert (Ey1 : rd s1 y = Some (ran, dy)) by (eapply ext_rd; [exact E01 | exact Ey | intros [Q|[]]; congruence]).
    assert (Et1 : rd s1 t = Some (o_dom K, cl (rscal a dx))).
    { rewrite Hd. apply rd_upd_same. eapply rd_lt; exact Et. }
    assert (Hs1 : scr_ok c ro s1 t y).
    { eapply scr_ok_xy; [eapply scr_ok_ext; [exact Hs_c | exact E01] | exact ND1 | destruct Hs_c as (_ & _ & B & _); exact B]. }
    destruct (Hip s1 t y _ dy W1 G1 Et1 Ey1 Nty Ny Hs1) as (s2 & Hc & Er & E2 & W2).
    rw_call Hc.
    eexists _, _. split; [reflexivity|]. split; [left; reflexivity|]. splits; auto.
    eapply ext_trans; [exact E01 | exact E2 | intros i [<-|[]]; right; left; reflexivity |].
    intros i Li [<-|I]; [left; reflexivity | right; right; exact I].
  - rewrite alloc_empty_eq. set (t := length s). set (s0 := s ++ [(dom, junkbuf junk t (fst dom))]).
    assert (W0 : wf_store s0) by (apply wf_alloc; [exact W | apply junkbuf_length]).
    assert (Ex0 : rd s0 x = Some (dom, cl dx)) by (unfold s0; rewrite rd_app_old; assumption).
    rewrite (do_lincomb1_clean _ _ _ _ _ _ _ W0 Ex0 (rd_app_new _ _)).
    unfold s0, t. rewrite upd_app_last. fold t. set (s1 := s ++ [(dom, cl (rscal a dx))]).
    assert (W1 : wf_store s1) by (apply wf_alloc; [exact W | rewrite cl_length; exact Lr]).
    assert (E01 : ext s s1 []) by apply ext_alloc.
    destruct (keep_nil _ _ _ _ _ E01 G Ex) as (G1 & _).
    assert (Ey1 : rd s1 y = Some (ran, dy)) by (eapply ext_rd; [exact E01 | exact Ey | intros []]).
    assert (Et1 : rd s1 t = Some (o_dom K, cl (rscal a dx))) by (rewrite Hd; apply rd_app_new).
    cbn [own_scr scr_ids map app] in *.
    assert (Hs1 : scr_ok c ro s1 t y).
    { eapply scr_ok_xy; [eapply scr_ok_ext; [exact Hs_c | exact E01] | apply (fresh_notin_scr _ _ _ _ _ Hs_c)
                        | destruct Hs_c as (_ & _ & B & _); exact B]. }
    destruct (Hip s1 t y _ dy W1 G1 Et1 Ey1 ltac:(unfold t; lia) Ny Hs1) as (s2 & Hc & Er & E2 & W2).
    rw_call Hc.
    eexists _, _. split; [reflexivity|]. split; [left; reflexivity|]. splits; auto.
    eapply ext_trans; [exact E01 | exact E2 | intros i [] | intros i _ I; exact I].
Qed.

(* ---------------- FunctionalLeftVectorMult ---------------- *)
Lemma flvec_oop (K : opsemR) dom ran ro f v dv :
  o_dom K = dom -> sc_ok K ro f -> In (v, ran, dv) ro ->
  raw_oop_vec (fun x => exec_body junk (inst_vec1 dom ran v K) (c_oop cls_FunctionalLeftVectorMult) x None)
    dom ran ro (fun d => rscal (f d) dv).
Proof.
  intros Hd (_ & Hsc) Iv s x dx W G Ex.
  unfold cls_FunctionalLeftVectorMult, inst_vec1. interp.
  rewrite <- Hd in Ex.
  destruct (Hsc s x dx W G Ex) as (s1 & Hc & E1 & W1).
  rewrite Hc.
  destruct (keep_nil _ _ _ _ _ E1 G Ex) as (G1 & _).
  pose proof (G1 _ _ _ Iv) as Ev.
  rewrite (new_scaled_clean _ _ _ _ _ W1 Ev).
  eexists _, _. split; [reflexivity|].
  apply fresh_result; auto. rewrite rscal_length. eapply wf_len; eauto.
Qed.

Lemma flvec_ip (K : opsemR) dom ran ro f v dv :
  o_dom K = dom -> sc_ok K ro f -> In (v, ran, dv) ro ->
  raw_ip_vec (fun x o => exec_body junk (inst_vec1 dom ran v K) (c_ip cls_FunctionalLeftVectorMult) x (Some o))
    dom ran ro [] (fun d => rscal (f d) dv).
Proof.
  intros Hd (_ & Hsc) Iv s x y dx dy W G Ex Ey Nxy Ny _.
  unfold cls_FunctionalLeftVectorMult, inst_vec1. interp.
  rewrite <- Hd in Ex.
  destruct (Hsc s x dx W G Ex) as (s1 & Hc & E1 & W1).
  rewrite Hc.
  destruct (keep_nil _ _ _ _ _ E1 G Ex) as (G1 & _).
  pose proof (G1 _ _ _ Iv) as Ev.
  assert (Ey1 : rd s1 y = Some (ran, dy)) by (eapply ext_rd; [exact E1 | exact Ey | intros []]).
  rewrite (do_lincomb1_clean _ _ _ _ _ _ _ W1 Ev Ey1).
  eexists _, _. split; [reflexivity|]. split; [left; reflexivity|].
  eapply ip_finish; [apply ext_nil_any; exact E1 | exact W1 | exact Ey1 |].
  rewrite rscal_length. eapply wf_len; eauto.
Qed.

(* ---------------- OperatorLeftVectorMult ---------------- *)
Lemma lvec_oop (K : opsemR) dom ran ro c F v dv :
  o_dom K = dom -> vec_ok K ran ro c F -> In (v, ran, dv) ro ->
  raw_oop_vec (fun x => exec_body junk (inst_vec1 dom ran v K) (c_oop cls_OperatorLeftVectorMult) x None)
    dom ran ro (fun d => rmul dv (F d)).
Proof.
  intros Hd (_ & Hoop & _) Iv s x dx W G Ex.
  unfold cls_OperatorLeftVectorMult, inst_vec1. interp.
  rewrite <- Hd in Ex.
  destruct (Hoop s x dx W G Ex) as (r & s1 & Hc & Er & E1 & W1 & Hrx).
  rewrite Hc.
  destruct (keep_nil _ _ _ _ _ E1 G Ex) as (G1 & _).
  pose proof (G1 _ _ _ Iv) as Ev.
  rewrite (new_mul_clean _ _ _ _ _ _ Er Ev).
  eexists _, _. split; [reflexivity|].
  apply fresh_result; auto.
  rewrite rmul_length; [eapply wf_len; eauto|].
  rewrite (wf_len _ _ _ _ W1 Er), (wf_len _ _ _ _ W1 Ev). reflexivity.
Qed.

Lemma lvec_ip (K : opsemR) dom ran ro c F v dv :
  o_dom K = dom -> vec_ok K ran ro c F -> In (v, ran, dv) ro ->
  raw_ip_vec (fun x o => exec_body junk (inst_vec1 dom ran v K) (c_ip cls_OperatorLeftVectorMult) x (Some o))
    dom ran ro c (fun d => rmul dv (F d)).
Proof.
  intros Hd (_ & _ & Hip) Iv s x y dx dy W G Ex Ey Nxy Ny Hs.
  unfold cls_OperatorLeftVectorMult, inst_vec1. interp.
  rewrite <- Hd in Ex.
  destruct (Hip s x y dx dy W G Ex Ey Nxy Ny Hs) as (s1 & Hc & Er & E1 & W1).
  rewrite Hc.
  assert (G1 : good ro s1) by (eapply good_ext_scr; [exact G | exact Hs | exact E1 | exact Ny]).
  pose proof (G1 _ _ _ Iv) as Ev.
  rewrite (do_multiply_clean _ _ _ _ _ _ _ _ Ev Er Er).
  eexists _, _. split; [reflexivity|]. split; [left; reflexivity|].
  eapply ip_finish; eauto.
  rewrite rmul_length; [eapply wf_len; eauto|].
  rewrite (wf_len _ _ _ _ W1 Er), (wf_len _ _ _ _ W1 Ev). reflexivity.
Qed.

(* ---------------- OperatorRightVectorMult ---------------- *)
Lemma rvec_oop (K : opsemR) dom ran ro c F v dv :
  o_dom K = dom -> vec_ok K ran ro c F -> In (v, dom, dv) ro ->
  raw_oop_vec (fun x => exec_body junk (inst_vec1 dom ran v K) (c_oop cls_OperatorRightVectorMult) x None)
    dom ran ro (fun d => F (rmul d dv)).
Proof.
  intros Hd (_ & Hoop & _) Iv s x dx W G Ex.
  unfold cls_OperatorRightVectorMult, inst_vec1. interp.
  pose proof (G _ _ _ Iv) as Ev.
  rewrite (new_mul_clean _ _ _ _ _ _ Ex Ev). rewrite rmul_comm.
  set (t := length s). set (s1 := s ++ [(dom, cl (rmul dx dv))]).
  assert (W1 : wf_store s1).
  { apply wf_alloc; [exact W | rewrite cl_length, rmul_length; [eapply wf_len; eauto|]].
    rewrite (wf_len _ _ _ _ W Ex), (wf_len _ _ _ _ W Ev). reflexivity. }
  assert (E01 : ext s s1 []) by apply ext_alloc.
  destruct (keep_nil _ _ _ _ _ E01 G Ex) as (G1 & _).
  assert (Et1 : rd s1 t = Some (o_dom K, cl (rmul dx dv))) by (rewrite Hd; apply rd_app_new).
  destruct (Hoop s1 t _ W1 G1 Et1) as (r & s2 & Hc & Er & E2 & W2 & Hr).
  rewrite Hc.
  eexists _, _. split; [reflexivity|]. splits; auto.
  - eapply ext_trans_same; eassumption.
  - left. exists r. splits; auto. right.
    pose proof (ext_len _ _ _ E01). destruct Hr as [->|Hr]; unfold t; lia.
Qed.

Lemma rvec_ip (K : opsemR) dom ran ro c F v dv :
  o_dom K = dom -> vec_ok K ran ro c F -> In (v, dom, dv) ro ->
  raw_ip_vec (fun x o => exec_body junk (inst_vec1 dom ran v K) (c_ip cls_OperatorRightVectorMult) x (Some o))
    dom ran ro c (fun d => F (rmul d dv)).
Proof.
  intros Hd (_ & _ & Hip) Iv s x y dx dy W G Ex Ey Nxy Ny Hs.
  unfold cls_OperatorRightVectorMult, inst_vec1. interp.
  rewrite alloc_empty_eq. set (t := length s). set (s0 := s ++ [(dom, junkbuf junk t (fst dom))]).
  assert (Lx : (x < t)%nat) by (eapply rd_lt; exact Ex).
  assert (Ly : (y < t)%nat) by (eapply rd_lt; exact Ey).
  pose proof (G _ _ _ Iv) as Ev.
  assert (Lv : (v < t)%nat) by (eapply rd_lt; exact Ev).
  assert (Ex0 : rd s0 x = Some (dom, cl dx)) by (unfold s0; rewrite rd_app_old; assumption).
  assert (Ev0 : rd s0 v = Some (dom, cl dv)) by (unfold s0; rewrite rd_app_old; assumption).
  pose proof (do_multiply_clean _ _ _ _ _ _ _ _ Ex0 Ev0 (rd_app_new _ _)) as Hm.
  match goal with
  | |- context [do_multiply x v ?t' ?s'] =>
      replace (do_multiply x v t' s') with (Ok tt (upd s0 t (dom, cl (rmul dx dv)))) by (symmetry; exact Hm)
  end.
  clear Hm. unfold s0, t. rewrite upd_app_last. fold t. set (s1 := s ++ [(dom, cl (rmul dx dv))]).
  assert (W1 : wf_store s1).
  { apply wf_alloc; [exact W | rewrite cl_length, rmul_length; [eapply wf_len; eauto|]].
    rewrite (wf_len _ _ _ _ W Ex), (wf_len _ _ _ _ W Ev). reflexivity. }
  assert (E01 : ext s s1 []) by apply ext_alloc.
  destruct (keep_nil _ _ _ _ _ E01 G Ex) as (G1 & _).
  assert (Ey1 : rd s1 y = Some (ran, dy)) by (eapply ext_rd; [exact E01 | exact Ey | intros []]).
  assert (Et1 : rd s1 t = Some (o_dom K, cl (rmul dx dv))) by (rewrite Hd; apply rd_app_new).
  assert (Hs1 : scr_ok c ro s1 t y).
  { eapply scr_ok_xy; [eapply scr_ok_ext; [exact Hs | exact E01] | apply (fresh_notin_scr _ _ _ _ _ Hs)
                      | destruct Hs as (_ & _ & B & _); exact B]. }
  destruct (Hip s1 t y _ dy W1 G1 Et1 Ey1 ltac:(lia) Ny Hs1) as (s2 & Hc & Er & E2 & W2).
  rw_call Hc.
  eexists _, _. split; [reflexivity|]. split; [left; reflexivity|]. splits; auto.
  eapply ext_trans; [exact E01 | exact E2 | intros i [] | intros i _ I; exact I].
Qed.

(* ================= translated leaf classes of default_ops.py ================= *)
Definition inst_leaf (dom ran : space) (pars : list VR) (vecs : list nat) : instR :=
  {| i_dom := dom; i_ran := RSp ran; i_pars := pars; i_vecs := vecs; i_owns := []; i_kids := [] |}.

(* ---------------- ScalingOperator / IdentityOperator ---------------- *)
Lemma scaling_oop sp ro a :
  raw_oop_vec (fun x => exec_body junk (inst_leaf sp sp [Some a] []) (c_oop cls_ScalingOperator) x None)
    sp sp ro (fun d => rscal a d).
Proof.
  intros s x dx W G Ex. unfold cls_ScalingOperator, inst_leaf. interp.
  rewrite (new_scaled_clean _ _ _ _ _ W Ex).
  eexists _, _. split; [reflexivity|].
  apply fresh_result; [apply ext_refl | exact W |]. rewrite rscal_length. eapply wf_len; eauto.
Qed.
Lemma scaling_ip sp ro a :
  raw_ip_vec (fun x o => exec_body junk (inst_leaf sp sp [Some a] []) (c_ip cls_ScalingOperator) x (Some o))
    sp sp ro [] (fun d => rscal a d).
Proof.
  intros s x y dx dy W G Ex Ey Nxy Ny _. unfold cls_ScalingOperator, inst_leaf. interp.
  rewrite (do_lincomb1_clean _ _ _ _ _ _ _ W Ex Ey).
  eexists _, _. split; [reflexivity|]. split; [right; reflexivity|].
  eapply ip_finish; [apply ext_refl | exact W | exact Ey |]. rewrite rscal_length. eapply wf_len; eauto.
Qed.

(* ---------------- ZeroOperator (domain == range) ---------------- *)
Lemma of_Q_zero : @of_Q VR _ (0 # 1) = Some (0 / 1)%R.
Proof.
  unfold of_Q. cbn [Qnum Qden of_Z ndiv Num_opt odiv neqb nzero Num_R].
  destruct (Reqb_spec 1 0) as [E|_]; [lra | reflexivity].
Qed.
Lemma zero_same_oop sp ro :
  raw_oop_vec (fun x => exec_body junk (inst_leaf sp sp [] []) (c_oop cls_ZeroOperator_same) x None)
    sp sp ro (fun d => rscal (0 / 1) d).
Proof.
  intros s x dx W G Ex. unfold cls_ZeroOperator_same, inst_leaf. interp. rewrite of_Q_zero.
  rewrite (new_scaled_clean _ _ _ _ _ W Ex).
  eexists _, _. split; [reflexivity|].
  apply fresh_result; [apply ext_refl | exact W |]. rewrite rscal_length. eapply wf_len; eauto.
Qed.
Lemma zero_same_ip sp ro :
  raw_ip_vec (fun x o => exec_body junk (inst_leaf sp sp [] []) (c_ip cls_ZeroOperator_same) x (Some o))
    sp sp ro [] (fun d => rscal (0 / 1) d).
Proof.
  intros s x y dx dy W G Ex Ey Nxy Ny _. unfold cls_ZeroOperator_same, inst_leaf. interp. rewrite of_Q_zero.
  rewrite (do_lincomb1_clean _ _ _ _ _ _ _ W Ex Ey).
  eexists _, _. split; [reflexivity|]. split; [right; reflexivity|].
  eapply ip_finish; [apply ext_refl | exact W | exact Ey |]. rewrite rscal_length. eapply wf_len; eauto.
Qed.

(* ---------------- ZeroOperator (domain != range) ---------------- *)
Lemma zero_diff_oop dom ran ro :
  raw_oop_vec (fun x => exec_body junk (inst_leaf dom ran [] []) (c_oop cls_ZeroOperator_diff) x None)
    dom ran ro (fun _ => repeat 0%R (fst ran)).
Proof.
  intros s x dx W G Ex. unfold cls_ZeroOperator_diff, inst_leaf. interp. cbn [alloc]. rewrite zeros_cl.
  eexists _, _. split; [reflexivity|].
  apply fresh_result; [apply ext_refl | exact W | apply repeat_length].
Qed.
Lemma zero_diff_ip dom ran ro :
  raw_ip_vec (fun x o => exec_body junk (inst_leaf dom ran [] []) (c_ip cls_ZeroOperator_diff) x (Some o))
    dom ran ro [] (fun _ => repeat 0%R (fst ran)).
Proof.
  intros s x y dx dy W G Ex Ey Nxy Ny _. unfold cls_ZeroOperator_diff, inst_leaf. interp. cbn [alloc].
  rewrite zeros_cl. set (t := length s). set (s1 := s ++ [(ran, cl (repeat 0%R (fst ran)))]).
  assert (Ly : (y < t)%nat) by (eapply rd_lt; exact Ey).
  assert (W1 : wf_store s1) by (apply wf_alloc; [exact W | rewrite cl_length; apply repeat_length]).
  assert (Ey1 : rd s1 y = Some (ran, dy)) by (unfold s1; rewrite rd_app_old; assumption).
  pose proof (do_assign_clean y t s1 ran _ dy W1 (rd_app_new _ _) Ey1) as Ha.
  match goal with
  | |- context [do_assign y ?t' ?s'] =>
      replace (do_assign y t' s') with (Ok tt (upd s1 y (ran, cl (repeat 0%R (fst ran))))) by (symmetry; exact Ha)
  end.
  eexists _, _. split; [reflexivity|]. split; [right; reflexivity|].
  eapply ip_finish; [apply ext_nil_any; apply ext_alloc | exact W1 | exact Ey1 | apply repeat_length].
Qed.

(* ---------------- ConstantOperator ---------------- *)
Lemma do_copy_eq i (s : storeR) sp d : rd s i = Some (sp, d) -> do_copy i s = Ok (length s) (s ++ [(sp, d)]).
Proof. intros E. unfold do_copy. rewrite E. reflexivity. Qed.
Lemma constant_oop dom ran ro v dv :
  In (v, ran, dv) ro ->
  raw_oop_vec (fun x => exec_body junk (inst_leaf dom ran [] [v]) (c_oop cls_ConstantOperator) x None)
    dom ran ro (fun _ => dv).
Proof.
  intros Iv s x dx W G Ex. unfold cls_ConstantOperator, inst_leaf. interp.
  pose proof (G _ _ _ Iv) as Ev. rewrite (do_copy_eq _ _ _ _ Ev).
  eexists _, _. split; [reflexivity|].
  apply fresh_result; [apply ext_refl | exact W | eapply wf_len; eauto].
Qed.
Lemma constant_ip dom ran ro v dv :
  In (v, ran, dv) ro ->
  raw_ip_vec (fun x o => exec_body junk (inst_leaf dom ran [] [v]) (c_ip cls_ConstantOperator) x (Some o))
    dom ran ro [] (fun _ => dv).
Proof.
  intros Iv s x y dx dy W G Ex Ey Nxy Ny _. unfold cls_ConstantOperator, inst_leaf. interp.
  pose proof (G _ _ _ Iv) as Ev.
  rewrite (do_assign_clean _ _ _ _ _ _ W Ev Ey).
  eexists _, _. split; [reflexivity|]. split; [left; reflexivity|].
  eapply ip_finish; [apply ext_refl | exact W | exact Ey | eapply wf_len; eauto].
Qed.

(* ---------------- MultiplyOperator (element multiplicand, space to itself) ---------------- *)
Lemma multiply_oop sp ro v dv :
  In (v, sp, dv) ro ->
  raw_oop_vec (fun x => exec_body junk (inst_leaf sp sp [] [v]) (c_oop cls_MultiplyOperator) x None)
    sp sp ro (fun d => rmul dv d).
Proof.
  intros Iv s x dx W G Ex. unfold cls_MultiplyOperator, inst_leaf. interp.
  pose proof (G _ _ _ Iv) as Ev.
  rewrite (new_mul_clean _ _ _ _ _ _ Ex Ev).
  eexists _, _. split; [reflexivity|].
  apply fresh_result; [apply ext_refl | exact W |].
  rewrite rmul_length; [eapply wf_len; eauto|].
  rewrite (wf_len _ _ _ _ W Ex), (wf_len _ _ _ _ W Ev). reflexivity.
Qed.
Lemma multiply_ip sp ro v dv :
  In (v, sp, dv) ro ->
  raw_ip_vec (fun x o => exec_body junk (inst_leaf sp sp [] [v]) (c_ip cls_MultiplyOperator) x (Some o))
    sp sp ro [] (fun d => rmul dv d).
Proof.
  intros Iv s x y dx dy W G Ex Ey Nxy Ny _. unfold cls_MultiplyOperator, inst_leaf. interp.
  pose proof (G _ _ _ Iv) as Ev.
  rewrite (new_mul_clean _ _ _ _ _ _ Ev Ex). rewrite rmul_comm.
  set (t := length s). set (s1 := s ++ [(sp, cl (rmul dv dx))]).
  assert (Ly : (y < t)%nat) by (eapply rd_lt; exact Ey).
  assert (Lm : length (rmul dv dx) = fst sp).
  { rewrite rmul_length; [eapply wf_len; eauto|].
    rewrite (wf_len _ _ _ _ W Ex), (wf_len _ _ _ _ W Ev). reflexivity. }
  assert (W1 : wf_store s1) by (apply wf_alloc; [exact W | rewrite cl_length; exact Lm]).
  assert (Ey1 : rd s1 y = Some (sp, dy)) by (unfold s1; rewrite rd_app_old; assumption).
  pose proof (do_assign_clean y t s1 sp _ dy W1 (rd_app_new _ _) Ey1) as Ha.
  match goal with
  | |- context [do_assign y ?t' ?s'] =>
      replace (do_assign y t' s') with (Ok tt (upd s1 y (sp, cl (rmul dv dx)))) by (symmetry; exact Ha)
  end.
  eexists _, _. split; [reflexivity|]. split; [left; reflexivity|].
  eapply ip_finish; [apply ext_nil_any; apply ext_alloc | exact W1 | exact Ey1 | exact Lm].
Qed.

(* ================= primitive leaves ================= *)
(* a leaf whose NumPy kernel maps clean data to clean data as F *)
Definition pf_clean (f : @pfun VR) (dom ran : space) (F : list R -> list R) : Prop :=
  pf_scalar f = (fun _ => None) /\
  forall d, length d = fst dom -> pf_vec f (cl d) = cl (F d) /\ length (F d) = fst ran.

Lemma data_of_eq (s : storeR) i sp d : rd s i = Some (sp, d) -> data_of i s = Ok d s.
Proof. intros E. unfold data_of. rewrite E. reflexivity. Qed.
Lemma set_data_eq (s : storeR) i sp d d' : rd s i = Some (sp, d) -> set_data i d' s = Ok tt (upd s i (sp, d')).
Proof. intros E. unfold set_data. rewrite E. reflexivity. Qed.

Lemma leaf_oop k f dom ran ro F :
  pf_clean f dom ran F ->
  raw_oop_vec (leaf_raw_oop {| lf_kind := k; lf_fun := f; lf_alias := false; lf_quirk := QNone |}) dom ran ro F.
Proof.
  intros (Hs & Hf) s x dx W G Ex. unfold leaf_raw_oop. cbn [lf_quirk lf_fun lf_alias elem_id].
  rewrite (bind_Ok _ _ _ _ _ (eq_refl : ret x s = Ok x s)).
  rewrite (bind_Ok _ _ _ _ _ (data_of_eq _ _ _ _ Ex)).
  rewrite (bind_Ok _ _ _ _ _ (eq_refl : ret tt s = Ok tt s)).
  rewrite Hs. destruct (Hf dx (wf_len _ _ _ _ W Ex)) as (Hv & Hl). rewrite Hv.
  eexists _, _. split; [reflexivity|]. splits; [apply ext_refl | exact W |]. right. split; [reflexivity | exact Hl].
Qed.
Lemma leaf_alias_oop k f sp ro :
  pf_scalar f = (fun _ => None) ->
  raw_oop_vec (leaf_raw_oop {| lf_kind := k; lf_fun := f; lf_alias := true; lf_quirk := QNone |}) sp sp ro (fun d => d).
Proof.
  intros Hs s x dx W G Ex. unfold leaf_raw_oop. cbn [lf_quirk lf_fun lf_alias elem_id].
  rewrite (bind_Ok _ _ _ _ _ (eq_refl : ret x s = Ok x s)).
  rewrite (bind_Ok _ _ _ _ _ (data_of_eq _ _ _ _ Ex)).
  rewrite (bind_Ok _ _ _ _ _ (eq_refl : ret tt s = Ok tt s)).
  rewrite Hs.
  eexists _, _. split; [reflexivity|]. splits; [apply ext_refl | exact W |].
  left. exists x. splits; auto.
Qed.
(* functional leaves *)
Definition pf_sc_clean (f : @pfun VR) (dom : space) (g : list R -> R) : Prop :=
  forall d, length d = fst dom -> pf_scalar f (cl d) = Some (Some (g d)).
Lemma leaf_sc k f al dom ro g :
  pf_sc_clean f dom g ->
  raw_oop_sc (leaf_raw_oop {| lf_kind := k; lf_fun := f; lf_alias := al; lf_quirk := QNone |}) dom ro g.
Proof.
  intros Hf s x dx W G Ex. unfold leaf_raw_oop. cbn [lf_quirk lf_fun lf_alias elem_id].
  rewrite (bind_Ok _ _ _ _ _ (eq_refl : ret x s = Ok x s)).
  rewrite (bind_Ok _ _ _ _ _ (data_of_eq _ _ _ _ Ex)).
  rewrite (bind_Ok _ _ _ _ _ (eq_refl : ret tt s = Ok tt s)).
  rewrite (Hf dx (wf_len _ _ _ _ W Ex)).
  exists s. splits; [reflexivity | apply ext_refl | exact W].
Qed.
Lemma leaf_ip k f al dom ran ro F :
  pf_clean f dom ran F ->
  raw_ip_vec (leaf_raw_ip {| lf_kind := k; lf_fun := f; lf_alias := al; lf_quirk := QNone |}) dom ran ro [] F.
Proof.
  intros (Hs & Hf) s x y dx dy W G Ex Ey Nxy Ny _. unfold leaf_raw_ip. cbn [lf_quirk lf_fun lf_alias elem_id].
  rewrite (bind_Ok _ _ _ _ _ (eq_refl : ret x s = Ok x s)).
  rewrite (bind_Ok _ _ _ _ _ (eq_refl : ret y s = Ok y s)).
  rewrite (bind_Ok _ _ _ _ _ (data_of_eq _ _ _ _ Ex)).
  rewrite (bind_Ok _ _ _ _ _ (data_of_eq _ _ _ _ Ey)).
  destruct (Hf dx (wf_len _ _ _ _ W Ex)) as (Hv & Hl). rewrite Hv.
  rewrite (bind_Ok _ _ _ _ _ (set_data_eq _ _ _ _ _ Ey)).
  rewrite (bind_Ok _ _ _ _ _ (eq_refl : ret tt _ = Ok tt _)).
  eexists _, _. split; [reflexivity|]. split; [left; reflexivity|].
  eapply ip_finish; [apply ext_refl | exact W | exact Ey | exact Hl].
Qed.

(* ================= expression classes with a FIELD range (functionals) ================= *)
Definition inst_f (dom : space) (pars : list VR) (vecs : list nat) (owns : list (option nat)) (kids : list opsemR) : instR :=
  {| i_dom := dom; i_ran := RField; i_pars := pars; i_vecs := vecs; i_owns := owns; i_kids := kids |}.

Lemma fsum_sc (Kl Kr : opsemR) dom ro ot od fl fr :
  o_dom Kl = dom -> o_dom Kr = dom -> sc_ok Kl ro fl -> sc_ok Kr ro fr ->
  raw_oop_sc (fun x => exec_body junk (inst_f dom [] [] [ot; od] [Kl; Kr]) (c_oop cls_OperatorSum) x None)
    dom ro (fun d => (fl d + fr d)%R).
Proof.
  intros Hdl Hdr (_ & Hl) (_ & Hr) s x dx W G Ex.
  unfold cls_OperatorSum, inst_f. interp.
  assert (Exl : rd s x = Some (o_dom Kl, cl dx)) by (rewrite Hdl; exact Ex).
  destruct (Hl s x dx W G Exl) as (s1 & Hc1 & E1 & W1). rewrite Hc1.
  destruct (keep_nil _ _ _ _ _ E1 G Ex) as (G1 & Ex1). rewrite <- Hdr in Ex1.
  destruct (Hr s1 x dx W1 G1 Ex1) as (s2 & Hc2 & E2 & W2). rewrite Hc2.
  exists s2. splits; [reflexivity | eapply ext_trans_same; eassumption | exact W2].
Qed.
Lemma fpprod_sc (Kl Kr : opsemR) dom ro fl fr :
  o_dom Kl = dom -> o_dom Kr = dom -> sc_ok Kl ro fl -> sc_ok Kr ro fr ->
  raw_oop_sc (fun x => exec_body junk (inst_f dom [] [] [] [Kl; Kr]) (c_oop cls_OperatorPointwiseProduct) x None)
    dom ro (fun d => (fl d * fr d)%R).
Proof.
  intros Hdl Hdr (_ & Hl) (_ & Hr) s x dx W G Ex.
  unfold cls_OperatorPointwiseProduct, inst_f. interp.
  assert (Exl : rd s x = Some (o_dom Kl, cl dx)) by (rewrite Hdl; exact Ex).
  destruct (Hl s x dx W G Exl) as (s1 & Hc1 & E1 & W1). rewrite Hc1.
  destruct (keep_nil _ _ _ _ _ E1 G Ex) as (G1 & Ex1). rewrite <- Hdr in Ex1.
  destruct (Hr s1 x dx W1 G1 Ex1) as (s2 & Hc2 & E2 & W2). rewrite Hc2.
  exists s2. splits; [reflexivity | eapply ext_trans_same; eassumption | exact W2].
Qed.
Lemma flscal_sc (K : opsemR) dom ro f a :
  o_dom K = dom -> sc_ok K ro f ->
  raw_oop_sc (fun x => exec_body junk (inst_f dom [Some a] [] [] [K]) (c_oop cls_OperatorLeftScalarMult) x None)
    dom ro (fun d => (a * f d)%R).
Proof.
  intros Hd (_ & Hf) s x dx W G Ex.
  unfold cls_OperatorLeftScalarMult, inst_f. interp.
  rewrite <- Hd in Ex.
  destruct (Hf s x dx W G Ex) as (s1 & Hc1 & E1 & W1). rewrite Hc1.
  exists s1. splits; [reflexivity | exact E1 | exact W1].
Qed.
Lemma fcomp_sc (Kl Kr : opsemR) dom mid ro cr ot f Fr :
  o_dom Kl = mid -> o_dom Kr = dom -> sc_ok Kl ro f -> vec_ok Kr mid ro cr Fr ->
  raw_oop_sc (fun x => exec_body junk (inst_f dom [] [] [ot] [Kl; Kr]) (c_oop cls_OperatorComp) x None)
    dom ro (fun d => f (Fr d)).
Proof.
  intros Hdl Hdr (_ & Hf) (_ & Hor & _) s x dx W G Ex.
  unfold cls_OperatorComp, inst_f. interp.
  rewrite <- Hdr in Ex.
  destruct (Hor s x dx W G Ex) as (r1 & s1 & Hc1 & Er1 & E1 & W1 & Hr1). rewrite Hc1.
  destruct (keep_nil _ _ _ _ _ E1 G Ex) as (G1 & _).
  rewrite <- Hdl in Er1.
  destruct (Hf s1 r1 (Fr dx) W1 G1 Er1) as (s2 & Hc2 & E2 & W2). rewrite Hc2.
  exists s2. splits; [reflexivity | eapply ext_trans_same; eassumption | exact W2].
Qed.
Lemma frscal_sc (K : opsemR) dom ro ot f a :
  o_dom K = dom -> sc_ok K ro f ->
  raw_oop_sc (fun x => exec_body junk (inst_f dom [Some a] [] [ot] [K]) (c_oop cls_OperatorRightScalarMult) x None)
    dom ro (fun d => f (rscal a d)).
Proof.
  intros Hd (_ & Hf) s x dx W G Ex.
  unfold cls_OperatorRightScalarMult, inst_f. interp.
  rewrite (new_scaled_clean _ _ _ _ _ W Ex).
  set (t := length s). set (s1 := s ++ [(dom, cl (rscal a dx))]).
  assert (W1 : wf_store s1).
  { apply wf_alloc; [exact W | rewrite cl_length, rscal_length; eapply wf_len; eauto]. }
  assert (E01 : ext s s1 []) by apply ext_alloc.
  destruct (keep_nil _ _ _ _ _ E01 G Ex) as (G1 & _).
  assert (Et1 : rd s1 t = Some (o_dom K, cl (rscal a dx))) by (rewrite Hd; apply rd_app_new).
  destruct (Hf s1 t _ W1 G1 Et1) as (s2 & Hc & E2 & W2).
  rw_call Hc.
  exists s2. splits; [reflexivity | eapply ext_trans_same; eassumption | exact W2].
Qed.
Lemma frvec_sc (K : opsemR) dom ro f v dv :
  o_dom K = dom -> sc_ok K ro f -> In (v, dom, dv) ro ->
  raw_oop_sc (fun x => exec_body junk (inst_f dom [] [v] [] [K]) (c_oop cls_OperatorRightVectorMult) x None)
    dom ro (fun d => f (rmul d dv)).
Proof.
  intros Hd (_ & Hf) Iv s x dx W G Ex.
  unfold cls_OperatorRightVectorMult, inst_f. interp.
  pose proof (G _ _ _ Iv) as Ev.
  rewrite (new_mul_clean _ _ _ _ _ _ Ex Ev). rewrite rmul_comm.
  set (t := length s). set (s1 := s ++ [(dom, cl (rmul dx dv))]).
  assert (W1 : wf_store s1).
  { apply wf_alloc; [exact W | rewrite cl_length, rmul_length; [eapply wf_len; eauto|]].
    rewrite (wf_len _ _ _ _ W Ex), (wf_len _ _ _ _ W Ev). reflexivity. }
  assert (E01 : ext s s1 []) by apply ext_alloc.
  destruct (keep_nil _ _ _ _ _ E01 G Ex) as (G1 & _).
  assert (Et1 : rd s1 t = Some (o_dom K, cl (rmul dx dv))) by (rewrite Hd; apply rd_app_new).
  destruct (Hf s1 t _ W1 G1 Et1) as (s2 & Hc & E2 & W2).
  rw_call Hc.
  exists s2. splits; [reflexivity | eapply ext_trans_same; eassumption | exact W2].
Qed.

(* ================= translated proximal factories (KIp: `_call(self, x, out)`) ================= *)
Notation qr c := (@of_Q R _ c).
Ltac scalnorm := rewrite ?of_Q_some; cbn [nadd nmul nsub nopp Num_opt olift2 olift1 Num_R none_ nzero].

(* proximal_l2_squared(space, lam)(sigma), scalar sigma, g = None:  out = x / (1 + 2 sigma lam) *)
Lemma prox_l2sq_ip sp ro sig lam :
  (qr (1 # 1) + qr (2 # 1) * sig * lam <> 0)%R ->
  raw_ip_vec (fun x o => exec_body junk (inst_leaf sp sp [Some sig; Some lam] []) (c_ip cls_ProximalL2Squared) x (Some o))
    sp sp ro [] (fun d => rscal (qr (1 # 1) / (qr (1 # 1) + qr (2 # 1) * sig * lam)) d).
Proof.
  intros Hnz s x y dx dy W G Ex Ey Nxy Ny _. unfold cls_ProximalL2Squared, inst_leaf. interp.
  scalnorm. rewrite odiv_some by exact Hnz.
  rewrite (do_lincomb1_clean _ _ _ _ _ _ _ W Ex Ey).
  eexists _, _. split; [reflexivity|]. split; [left; reflexivity|].
  eapply ip_finish; [apply ext_refl | exact W | exact Ey |]. rewrite rscal_length. eapply wf_len; eauto.
Qed.
(* ... with g:  out = (x + 2 sigma lam g) / (1 + 2 sigma lam) *)
Lemma prox_l2sq_g_ip sp ro sig lam v dv :
  (qr (1 # 1) + qr (2 # 1) * sig * lam <> 0)%R -> In (v, sp, dv) ro ->
  raw_ip_vec (fun x o => exec_body junk (inst_leaf sp sp [Some sig; Some lam] [v]) (c_ip cls_ProximalL2Squared_g) x (Some o))
    sp sp ro [] (fun d => rlin (qr (1 # 1) / (qr (1 # 1) + qr (2 # 1) * sig * lam))
                               (qr (2 # 1) * sig * lam / (qr (1 # 1) + qr (2 # 1) * sig * lam)) d dv).
Proof.
  intros Hnz Iv s x y dx dy W G Ex Ey Nxy Ny _. unfold cls_ProximalL2Squared_g, inst_leaf. interp.
  scalnorm. rewrite !odiv_some by exact Hnz.
  pose proof (G _ _ _ Iv) as Ev.
  rewrite (do_lincomb_clean _ _ _ _ _ _ _ _ _ _ W Ex Ev Ey).
  eexists _, _. split; [reflexivity|]. split; [left; reflexivity|].
  eapply ip_finish; [apply ext_refl | exact W | exact Ey |].
  rewrite rlin_length; [eapply wf_len; eauto|]. rewrite (wf_len _ _ _ _ W Ex), (wf_len _ _ _ _ W Ev). reflexivity.
Qed.
(* proximal_convex_conj_l2_squared, scalar sigma:  out = x / (1 + sigma / (2 lam)) *)
Lemma prox_cc_l2sq_ip sp ro sig lam :
  lam <> 0%R -> (qr (1 # 1) + qr (1 # 2) * sig / lam <> 0)%R ->
  raw_ip_vec (fun x o => exec_body junk (inst_leaf sp sp [Some sig; Some lam] []) (c_ip cls_ProximalConvexConjL2Squared) x (Some o))
    sp sp ro [] (fun d => rscal (qr (1 # 1) / (qr (1 # 1) + qr (1 # 2) * sig / lam)) d).
Proof.
  intros Hl Hnz s x y dx dy W G Ex Ey Nxy Ny _. unfold cls_ProximalConvexConjL2Squared, inst_leaf. interp.
  scalnorm. rewrite (odiv_some _ lam) by exact Hl. scalnorm. rewrite odiv_some by exact Hnz.
  rewrite (do_lincomb1_clean _ _ _ _ _ _ _ W Ex Ey).
  eexists _, _. split; [reflexivity|]. split; [left; reflexivity|].
  eapply ip_finish; [apply ext_refl | exact W | exact Ey |]. rewrite rscal_length. eapply wf_len; eauto.
Qed.
Lemma prox_cc_l2sq_g_ip sp ro sig lam v dv :
  lam <> 0%R -> (qr (1 # 1) + qr (1 # 2) * sig / lam <> 0)%R -> In (v, sp, dv) ro ->
  raw_ip_vec (fun x o => exec_body junk (inst_leaf sp sp [Some sig; Some lam] [v]) (c_ip cls_ProximalConvexConjL2Squared_g) x (Some o))
    sp sp ro [] (fun d => rlin (qr (1 # 1) / (qr (1 # 1) + qr (1 # 2) * sig / lam))
                               (- sig / (qr (1 # 1) + qr (1 # 2) * sig / lam)) d dv).
Proof.
  intros Hl Hnz Iv s x y dx dy W G Ex Ey Nxy Ny _. unfold cls_ProximalConvexConjL2Squared_g, inst_leaf. interp.
  scalnorm. rewrite !(odiv_some _ lam) by exact Hl. scalnorm. rewrite !odiv_some by exact Hnz.
  pose proof (G _ _ _ Iv) as Ev.
  rewrite (do_lincomb_clean _ _ _ _ _ _ _ _ _ _ W Ex Ev Ey).
  eexists _, _. split; [reflexivity|]. split; [left; reflexivity|].
  eapply ip_finish; [apply ext_refl | exact W | exact Ey |].
  rewrite rlin_length; [eapply wf_len; eauto|]. rewrite (wf_len _ _ _ _ W Ex), (wf_len _ _ _ _ W Ev). reflexivity.
Qed.

(* proximal_box_constraint(space, lower, upper): out = min(max(x, lower), upper) and its three degenerate forms *)
Lemma box_both_ip sp ro lo hi :
  raw_ip_vec (fun x o => exec_body junk (inst_leaf sp sp [Some lo; Some hi] []) (c_ip cls_ProxBox_both) x (Some o))
    sp sp ro [] (fun d => map (fun v => Rmin v hi) (map (fun v => Rmax v lo) d)).
Proof.
  intros s x y dx dy W G Ex Ey Nxy Ny _. unfold cls_ProxBox_both, inst_leaf. interp.
  rewrite (do_map_clean _ (fun v => Rmax v lo) _ _ _ _ _ _ (fun u => nmax_some u lo) Ex Ey).
  set (s1 := upd s y (sp, cl (map (fun v => Rmax v lo) dx))).
  assert (Ly : (y < length s)%nat) by (eapply rd_lt; exact Ey).
  assert (Ey1 : rd s1 y = Some (sp, cl (map (fun v => Rmax v lo) dx))) by (apply rd_upd_same; exact Ly).
  rewrite (do_map_clean _ (fun v => Rmin v hi) _ _ _ _ _ _ (fun u => nmin_some u hi) Ey1 Ey1).
  unfold s1. eexists _, _. split; [reflexivity|]. split; [left; reflexivity|].
  assert (E1 : ext s s1 [y]) by (eapply ext_upd; exact Ey).
  assert (W1 : wf_store s1) by (apply wf_upd; [exact W | rewrite cl_length, map_length; eapply wf_len; eauto]).
  eapply ip_finish; [exact E1 | exact W1 | exact Ey1 |]. rewrite !map_length. exact (wf_len _ _ _ _ W Ex).
Qed.
Lemma box_lower_ip sp ro lo hi :
  raw_ip_vec (fun x o => exec_body junk (inst_leaf sp sp [Some lo; hi] []) (c_ip cls_ProxBox_lower) x (Some o))
    sp sp ro [] (fun d => map (fun v => Rmax v lo) d).
Proof.
  intros s x y dx dy W G Ex Ey Nxy Ny _. unfold cls_ProxBox_lower, inst_leaf. interp.
  rewrite (do_map_clean _ (fun v => Rmax v lo) _ _ _ _ _ _ (fun u => nmax_some u lo) Ex Ey).
  eexists _, _. split; [reflexivity|]. split; [left; reflexivity|].
  eapply ip_finish; [apply ext_refl | exact W | exact Ey |]. rewrite map_length. eapply wf_len; eauto.
Qed.
Lemma box_upper_ip sp ro lo hi :
  raw_ip_vec (fun x o => exec_body junk (inst_leaf sp sp [lo; Some hi] []) (c_ip cls_ProxBox_upper) x (Some o))
    sp sp ro [] (fun d => map (fun v => Rmin v hi) d).
Proof.
  intros s x y dx dy W G Ex Ey Nxy Ny _. unfold cls_ProxBox_upper, inst_leaf. interp.
  rewrite (do_map_clean _ (fun v => Rmin v hi) _ _ _ _ _ _ (fun u => nmin_some u hi) Ex Ey).
  eexists _, _. split; [reflexivity|]. split; [left; reflexivity|].
  eapply ip_finish; [apply ext_refl | exact W | exact Ey |]. rewrite map_length. eapply wf_len; eauto.
Qed.
Lemma box_none_ip sp ro pars :
  raw_ip_vec (fun x o => exec_body junk (inst_leaf sp sp pars []) (c_ip cls_ProxBox_none) x (Some o))
    sp sp ro [] (fun d => d).
Proof.
  intros s x y dx dy W G Ex Ey Nxy Ny _. unfold cls_ProxBox_none, inst_leaf. interp.
  rewrite (do_assign_clean _ _ _ _ _ _ W Ex Ey).
  eexists _, _. split; [reflexivity|]. split; [left; reflexivity|].
  eapply ip_finish; [apply ext_refl | exact W | exact Ey | eapply wf_len; eauto].
Qed.

Lemma new_abs_clean i (s : storeR) sp d : rd s i = Some (sp, cl d) ->
  new_abs junk i s = Ok (VElem (length s)) (s ++ [(sp, cl (map Rabs d))]).
Proof.
  intros E. unfold new_abs.
  rewrite (bind_Ok _ _ _ _ _ (space_of_eq _ _ _ _ E)).
  rewrite (bind_Ok _ _ _ _ _ (alloc_empty_eq junk sp s)).
  erewrite bind_Ok.
  2:{ eapply (do_map_clean _ Rabs); [reflexivity | | apply rd_app_new].
      rewrite rd_app_old; [exact E | eapply rd_lt; exact E]. }
  cbn [ret]. rewrite upd_app_last. reflexivity.
Qed.
Lemma new_sub_clean i j (s : storeR) sp di dj : wf_store s ->
  rd s i = Some (sp, cl di) -> rd s j = Some (sp, cl dj) ->
  new_sub junk i j s = Ok (VElem (length s)) (s ++ [(sp, cl (rlin 1 (-1) di dj))]).
Proof.
  intros W Ei Ej. unfold new_sub.
  rewrite (bind_Ok _ _ _ _ _ (space_of_eq _ _ _ _ Ei)).
  rewrite (bind_Ok _ _ _ _ _ (alloc_empty_eq junk sp s)).
  change (@nopp VR _ (@none_ VR _)) with (Some (- 1)%R). change (@none_ VR _) with (Some 1%R).
  erewrite bind_Ok.
  2:{ eapply do_lincomb_clean.
      - apply wf_alloc; [exact W | apply junkbuf_length].
      - rewrite rd_app_old; [exact Ei | eapply rd_lt; exact Ei].
      - rewrite rd_app_old; [exact Ej | eapply rd_lt; exact Ej].
      - apply rd_app_new. }
  cbn [ret]. rewrite upd_app_last. reflexivity.
Qed.
Lemma rmax1_nz (l : list R) : Forall (fun v => v <> 0%R) (map (fun v => Rmax v (qr (1 # 1))) l).
Proof.
  apply Forall_forall. intros v I. apply in_map_iff in I as (u & <- & _).
  assert (H1 : (qr (1 # 1) = 1)%R) by (unfold of_Q; cbn; numR; field).
  rewrite H1. pose proof (Rmax_r u 1). lra.
Qed.

(* the soft-thresholding core shared by proximal_l1 with and without g:
   diff (object d, clean dd) is given; denom is a NEW object; out = x - diff / max(|diff| / (sigma lam), 1) *)
Definition soft (sl : R) (dd : list R) : list R :=
  rdiv dd (map (fun v => Rmax v (qr (1 # 1))) (rscal (1 / sl) (map Rabs dd))).

Definition soft_tail : list st :=
  [TLet (RTmp 1) (XAbs (XRef (RTmp 0))); TIDivS (RTmp 1) (SMul (SPar 0) (SPar 1));
   TUMaxS (RTmp 1) (SLit (1 # 1)) (RTmp 1); TDivide (RTmp 0) (RTmp 1) ROut;
   TLincomb ROut (SLit (1 # 1)) RX (Some (SLit ((-1) # 1), ROut))].
Definition env_diff (x y d : nat) : @env VR :=
  {| e_x := VElem x; e_out := Some (VElem y); e_tmp := [(0%nat, VElem d)]; e_sc := []; e_last := VNone |}.

(* the tail of ProximalL1._call once `diff` is bound to the object d *)
Lemma soft_tail_ok sp vecs sig lam (s : storeR) x y d dx dd dy :
  (sig * lam <> 0)%R -> wf_store s ->
  rd s x = Some (sp, cl dx) -> rd s d = Some (sp, cl dd) -> rd s y = Some (sp, dy) -> x <> y -> d <> y ->
  exists e' s', exec_sts junk (inst_leaf sp sp [Some sig; Some lam] vecs) (env_diff x y d) soft_tail s = Ok e' s' /\
    rd s' y = Some (sp, cl (rlin (qr (1 # 1)) (qr ((-1) # 1)) dx (soft (sig * lam) dd))) /\
    ext s s' [y] /\ wf_store s'.
Proof.
  intros Hnz W Ex Ed Ey Nxy Ndy. unfold soft_tail, env_diff, inst_leaf. interp.
  assert (Lx : (x < length s)%nat) by (eapply rd_lt; exact Ex).
  assert (Ld : (d < length s)%nat) by (eapply rd_lt; exact Ed).
  assert (Ly : (y < length s)%nat) by (eapply rd_lt; exact Ey).
  assert (Ldx : length dx = fst sp) by (eapply wf_len; eauto).
  assert (Ldd : length dd = fst sp) by (eapply wf_len; eauto).
  rewrite (new_abs_clean _ _ _ _ Ed).
  set (t := length s). set (s1 := s ++ [(sp, cl (map Rabs dd))]).
  assert (W1 : wf_store s1) by (apply wf_alloc; [exact W | rewrite cl_length, map_length; exact Ldd]).
  assert (Et1 : rd s1 t = Some (sp, cl (map Rabs dd))) by apply rd_app_new.
  scalnorm. rewrite odiv_some by exact Hnz.
  rewrite (do_iscal_clean _ _ _ _ _ W1 Et1).
  set (s2 := upd s1 t (sp, cl (rscal (1 / (sig * lam)) (map Rabs dd)))).
  assert (Lt1 : (t < length s1)%nat) by (eapply rd_lt; exact Et1).
  assert (Et2 : rd s2 t = Some (sp, cl (rscal (1 / (sig * lam)) (map Rabs dd)))) by (apply rd_upd_same; exact Lt1).
  rewrite (do_map_clean _ (fun v => Rmax v (qr (1 # 1))) _ _ _ _ _ _ (fun u => nmax_some u (qr (1 # 1))) Et2 Et2).
  set (den := map (fun v => Rmax v (qr (1 # 1))) (rscal (1 / (sig * lam)) (map Rabs dd))).
  set (s3 := upd s2 t (sp, cl den)).
  assert (Lt2 : (t < length s2)%nat) by (unfold s2; rewrite upd_length; exact Lt1).
  assert (Et3 : rd s3 t = Some (sp, cl den)) by (apply rd_upd_same; exact Lt2).
  assert (Old : forall i c, (i < length s)%nat -> rd s i = Some c -> rd s3 i = Some c).
  { intros i c Li E. unfold s3, s2. rewrite !rd_upd_other by (unfold t; lia). unfold s1. rewrite rd_app_old; assumption. }
  pose proof (Old _ _ Lx Ex) as Ex3. pose proof (Old _ _ Ld Ed) as Ed3. pose proof (Old _ _ Ly Ey) as Ey3.
  rewrite (do_divide_clean _ _ _ _ _ _ _ _ (rmax1_nz _) Ed3 Et3 Ey3).
  fold (soft (sig * lam) dd).
  set (s4 := upd s3 y (sp, cl (soft (sig * lam) dd))).
  assert (Lden : length den = fst sp) by (unfold den; rewrite map_length, rscal_length, map_length; exact Ldd).
  assert (Lsoft : length (soft (sig * lam) dd) = fst sp).
  { unfold soft. rewrite rdiv_length; [exact Ldd|]. fold den. congruence. }
  assert (W3 : wf_store s3).
  { unfold s3, s2. apply wf_upd; [apply wf_upd; [exact W1|] |].
    - rewrite cl_length, rscal_length, map_length; exact Ldd.
    - rewrite cl_length; exact Lden. }
  assert (W4 : wf_store s4) by (apply wf_upd; [exact W3 | rewrite cl_length; exact Lsoft]).
  assert (Ly3 : (y < length s3)%nat) by (eapply rd_lt; exact Ey3).
  assert (Ey4 : rd s4 y = Some (sp, cl (soft (sig * lam) dd))) by (apply rd_upd_same; exact Ly3).
  assert (Ex4 : rd s4 x = Some (sp, cl dx)) by (unfold s4; rewrite rd_upd_other by congruence; exact Ex3).
  rewrite (do_lincomb_clean _ _ _ _ _ _ _ _ _ _ W4 Ex4 Ey4 Ey4).
  eexists _, _. split; [reflexivity|].
  assert (E04 : ext s s4 [y]).
  { eapply ext_trans_same; [| eapply ext_upd; exact Ey3].
    eapply ext_trans_fresh; [| eapply ext_upd; exact Et2 | unfold t; lia].
    eapply ext_trans_fresh; [apply ext_nil_any; apply ext_alloc | eapply ext_upd; exact Et1 | unfold t; lia]. }
  eapply (ip_finish s s4 y []); [exact E04 | exact W4 | exact Ey4 |].
  rewrite rlin_length; [exact Ldx | congruence].
Qed.

Lemma exec_sts_cons (I : instR) (e : @env VR) t l :
  exec_sts junk I e (t :: l) = bind (exec_st junk I e t) (fun e' => exec_sts junk I e' l).
Proof. reflexivity. Qed.

(* proximal_l1(space, lam)(sigma), g = None:  out = x - x / max(|x| / (sigma lam), 1) *)
Lemma prox_l1_ip sp ro sig lam :
  (sig * lam <> 0)%R ->
  raw_ip_vec (fun x o => exec_body junk (inst_leaf sp sp [Some sig; Some lam] []) (c_ip cls_ProximalL1) x (Some o))
    sp sp ro [] (fun d => rlin (qr (1 # 1)) (qr ((-1) # 1)) d (soft (sig * lam) d)).
Proof.
  intros Hnz s x y dx dy W G Ex Ey Nxy Ny _.
  unfold cls_ProximalL1, exec_body. cbn [c_ip b_st b_ret]. fold soft_tail.
  rewrite exec_sts_cons.
  destruct (soft_tail_ok sp [] sig lam s x y x dx dx dy Hnz W Ex Ex Ey Nxy Nxy) as (e' & s' & He & Er & E1 & W1).
  unfold bind at 2. cbn [exec_st eval_ex lookup lift_opt bindref e_x e_out e_tmp e_sc e_last ret]. unfold bind at 2.
  cbn [ret]. fold (env_diff x y x). unfold bind. rewrite He. cbn [ret].
  eexists _, _. split; [reflexivity|]. split; [left; reflexivity|]. splits; assumption.
Qed.
(* ... with g:  out = x - (x - g) / max(|x - g| / (sigma lam), 1) *)
Lemma prox_l1_g_ip sp ro sig lam v dv :
  (sig * lam <> 0)%R -> In (v, sp, dv) ro ->
  raw_ip_vec (fun x o => exec_body junk (inst_leaf sp sp [Some sig; Some lam] [v]) (c_ip cls_ProximalL1_g) x (Some o))
    sp sp ro [] (fun d => rlin (qr (1 # 1)) (qr ((-1) # 1)) d (soft (sig * lam) (rlin 1 (-1) d dv))).
Proof.
  intros Hnz Iv s x y dx dy W G Ex Ey Nxy Ny _.
  pose proof (G _ _ _ Iv) as Ev.
  unfold cls_ProximalL1_g, exec_body. cbn [c_ip b_st b_ret]. fold soft_tail.
  rewrite exec_sts_cons.
  assert (Lx : (x < length s)%nat) by (eapply rd_lt; exact Ex).
  assert (Ly : (y < length s)%nat) by (eapply rd_lt; exact Ey).
  set (d := length s). set (s0 := s ++ [(sp, cl (rlin 1 (-1) dx dv))]).
  assert (Ldiff : length (rlin 1 (-1) dx dv) = fst sp).
  { rewrite rlin_length; [eapply wf_len; eauto|]. rewrite (wf_len _ _ _ _ W Ex), (wf_len _ _ _ _ W Ev). reflexivity. }
  assert (W0 : wf_store s0) by (apply wf_alloc; [exact W | rewrite cl_length; exact Ldiff]).
  assert (Ex0 : rd s0 x = Some (sp, cl dx)) by (unfold s0; rewrite rd_app_old; assumption).
  assert (Ey0 : rd s0 y = Some (sp, dy)) by (unfold s0; rewrite rd_app_old; assumption).
  assert (Ed0 : rd s0 d = Some (sp, cl (rlin 1 (-1) dx dv))) by apply rd_app_new.
  destruct (soft_tail_ok sp [v] sig lam s0 x y d dx _ dy Hnz W0 Ex0 Ed0 Ey0 Nxy ltac:(unfold d; lia))
    as (e' & s' & He & Er & E1 & W1).
  assert (H1 : exec_st junk (inst_leaf sp sp [Some sig; Some lam] [v])
                 {| e_x := VElem x; e_out := Some (VElem y); e_tmp := []; e_sc := []; e_last := VNone |}
                 (TLet (RTmp 0) (XSub (XRef RX) (XRef (RVec 0)))) s = Ok (env_diff x y d) s0).
  { unfold inst_leaf. cbv beta iota zeta delta [exec_st eval_ex lookup lift_opt bindref e_x e_out e_tmp e_sc e_last
                                                 i_vecs nth_error bind ret].
    rewrite (new_sub_clean _ _ _ _ _ _ W Ex Ev). reflexivity. }
  unfold bind at 1. rewrite (bind_Ok _ _ _ _ _ H1). rewrite He. cbn [ret].
  eexists _, _. split; [reflexivity|]. split; [left; reflexivity|]. splits; auto.
  eapply ext_trans; [apply ext_alloc | exact E1 | intros i [] | intros i _ I; exact I].
Qed.

(* ---------------- proximal_convex_conj_l1:  out = diff / (max(|diff|, lam) / lam) ---------------- *)
Definition ccl1_tail : list st :=
  [TUAbs (RTmp 0) ROut; TUMaxS ROut (SPar 1) ROut; TIDivS ROut (SPar 1); TDivide (RTmp 0) ROut ROut].
Definition ccl1 (lam : R) (dd : list R) : list R :=
  rdiv dd (rscal (1 / lam) (map (fun v => Rmax v lam) (map Rabs dd))).
Lemma ccl1_den_nz lam (l : list R) : (0 < lam)%R ->
  Forall (fun v => v <> 0%R) (rscal (1 / lam) (map (fun v => Rmax v lam) l)).
Proof.
  intros Hl. apply Forall_forall. intros v I. unfold rscal in I.
  apply in_map_iff in I as (u & <- & I). apply in_map_iff in I as (w & <- & _).
  pose proof (Rmax_r w lam). assert (0 < 1 / lam)%R by (apply Rdiv_lt_0_compat; lra).
  assert (0 < 1 / lam * Rmax w lam)%R by (apply Rmult_lt_0_compat; lra). lra.
Qed.

Lemma ccl1_tail_ok sp vecs sig lam (s : storeR) x y d dd dy :
  (0 < lam)%R -> wf_store s ->
  rd s d = Some (sp, cl dd) -> rd s y = Some (sp, dy) -> d <> y ->
  exists e' s', exec_sts junk (inst_leaf sp sp [Some sig; Some lam] vecs) (env_diff x y d) ccl1_tail s = Ok e' s' /\
    rd s' y = Some (sp, cl (ccl1 lam dd)) /\ ext s s' [y] /\ wf_store s'.
Proof.
  intros Hl W Ed Ey Ndy. unfold ccl1_tail, env_diff, inst_leaf. interp.
  assert (Ly : (y < length s)%nat) by (eapply rd_lt; exact Ey).
  assert (Ldd : length dd = fst sp) by (eapply wf_len; eauto).
  rewrite (do_map_clean _ Rabs _ _ _ _ _ _ (fun u => eq_refl) Ed Ey).
  set (s1 := upd s y (sp, cl (map Rabs dd))).
  assert (Ey1 : rd s1 y = Some (sp, cl (map Rabs dd))) by (apply rd_upd_same; exact Ly).
  rewrite (do_map_clean _ (fun v => Rmax v lam) _ _ _ _ _ _ (fun u => nmax_some u lam) Ey1 Ey1).
  set (s2 := upd s1 y (sp, cl (map (fun v => Rmax v lam) (map Rabs dd)))).
  assert (Ly1 : (y < length s1)%nat) by (unfold s1; rewrite upd_length; exact Ly).
  assert (Ey2 : rd s2 y = Some (sp, cl (map (fun v => Rmax v lam) (map Rabs dd)))) by (apply rd_upd_same; exact Ly1).
  assert (W1 : wf_store s1) by (apply wf_upd; [exact W | rewrite cl_length, map_length; exact Ldd]).
  assert (W2 : wf_store s2) by (apply wf_upd; [exact W1 | rewrite cl_length, !map_length; exact Ldd]).
  scalnorm. rewrite odiv_some by lra.
  rewrite (do_iscal_clean _ _ _ _ _ W2 Ey2).
  set (den := rscal (1 / lam) (map (fun v => Rmax v lam) (map Rabs dd))).
  set (s3 := upd s2 y (sp, cl den)).
  assert (Ly2 : (y < length s2)%nat) by (unfold s2; rewrite upd_length; exact Ly1).
  assert (Ey3 : rd s3 y = Some (sp, cl den)) by (apply rd_upd_same; exact Ly2).
  assert (Ed3 : rd s3 d = Some (sp, cl dd)).
  { unfold s3, s2, s1. rewrite !rd_upd_other by exact Ndy. exact Ed. }
  rewrite (do_divide_clean _ _ _ _ _ _ _ _ (ccl1_den_nz lam _ Hl) Ed3 Ey3 Ey3).
  fold (ccl1 lam dd).
  assert (Lden : length den = fst sp) by (unfold den; rewrite rscal_length, !map_length; exact Ldd).
  assert (W3 : wf_store s3) by (apply wf_upd; [exact W2 | rewrite cl_length; exact Lden]).
  eexists _, _. split; [reflexivity|].
  assert (E03 : ext s s3 [y]).
  { eapply ext_trans_same; [| eapply ext_upd; exact Ey2].
    eapply ext_trans_same; [eapply ext_upd; exact Ey | eapply ext_upd; exact Ey1]. }
  eapply (ip_finish s s3 y []); [exact E03 | exact W3 | exact Ey3 |].
  unfold ccl1. rewrite rdiv_length; [exact Ldd|]. fold den. congruence.
Qed.

Lemma prox_cc_l1_ip sp ro sig lam :
  (0 < lam)%R ->
  raw_ip_vec (fun x o => exec_body junk (inst_leaf sp sp [Some sig; Some lam] []) (c_ip cls_ProximalConvexConjL1) x (Some o))
    sp sp ro [] (fun d => ccl1 lam d).
Proof.
  intros Hl s x y dx dy W G Ex Ey Nxy Ny _.
  unfold cls_ProximalConvexConjL1, exec_body. cbn [c_ip b_st b_ret]. fold ccl1_tail.
  rewrite exec_sts_cons.
  destruct (ccl1_tail_ok sp [] sig lam s x y x dx dy Hl W Ex Ey Nxy) as (e' & s' & He & Er & E1 & W1).
  unfold bind at 2. cbn [exec_st eval_ex lookup lift_opt bindref e_x e_out e_tmp e_sc e_last ret]. unfold bind at 2.
  cbn [ret]. fold (env_diff x y x). unfold bind. rewrite He. cbn [ret].
  eexists _, _. split; [reflexivity|]. split; [left; reflexivity|]. splits; assumption.
Qed.
Lemma prox_cc_l1_g_ip sp ro sig lam v dv :
  (0 < lam)%R -> In (v, sp, dv) ro ->
  raw_ip_vec (fun x o => exec_body junk (inst_leaf sp sp [Some sig; Some lam] [v]) (c_ip cls_ProximalConvexConjL1_g) x (Some o))
    sp sp ro [] (fun d => ccl1 lam (rlin (qr (1 # 1)) (- sig) d dv)).
Proof.
  intros Hl Iv s x y dx dy W G Ex Ey Nxy Ny _.
  pose proof (G _ _ _ Iv) as Ev.
  unfold cls_ProximalConvexConjL1_g, exec_body. cbn [c_ip b_st b_ret]. fold ccl1_tail.
  rewrite !exec_sts_cons.
  assert (Lx : (x < length s)%nat) by (eapply rd_lt; exact Ex).
  assert (Ly : (y < length s)%nat) by (eapply rd_lt; exact Ey).
  assert (Lv : (v < length s)%nat) by (eapply rd_lt; exact Ev).
  set (d := length s). set (s0 := s ++ [(sp, junkbuf junk d (fst sp))]).
  set (dd := rlin (qr (1 # 1)) (- sig) dx dv).
  assert (Ldd : length dd = fst sp).
  { unfold dd. rewrite rlin_length; [eapply wf_len; eauto|]. rewrite (wf_len _ _ _ _ W Ex), (wf_len _ _ _ _ W Ev). reflexivity. }
  set (s1 := s ++ [(sp, cl dd)]).
  assert (W1 : wf_store s1) by (apply wf_alloc; [exact W | rewrite cl_length; exact Ldd]).
  assert (Ey1 : rd s1 y = Some (sp, dy)) by (unfold s1; rewrite rd_app_old; assumption).
  assert (Ed1 : rd s1 d = Some (sp, cl dd)) by apply rd_app_new.
  destruct (ccl1_tail_ok sp [v] sig lam s1 x y d dd dy Hl W1 Ed1 Ey1 ltac:(unfold d; lia))
    as (e' & s' & He & Er & E1 & W').
  assert (H1 : exec_st junk (inst_leaf sp sp [Some sig; Some lam] [v])
                 {| e_x := VElem x; e_out := Some (VElem y); e_tmp := []; e_sc := []; e_last := VNone |}
                 (TLet (RTmp 0) (XNew SpDom)) s = Ok (env_diff x y d) s0).
  { unfold inst_leaf. cbv beta iota zeta delta [exec_st eval_ex lookup lift_opt bindref e_x e_out e_tmp e_sc e_last
                                                 sel_space i_dom bind ret].
    rewrite alloc_empty_eq. reflexivity. }
  assert (H2 : exec_st junk (inst_leaf sp sp [Some sig; Some lam] [v]) (env_diff x y d)
                 (TLincomb (RTmp 0) (SLit (1 # 1)) RX (Some (SNeg (SPar 0), RVec 0))) s0 = Ok (env_diff x y d) s1).
  { unfold inst_leaf, env_diff.
    cbv beta iota zeta delta [exec_st eval_ex lookup lift_opt bindref e_x e_out e_tmp e_sc e_last ref_id elem_id
                              eval_scal opt2 i_vecs i_pars nth_error assoc Nat.eqb bind ret].
    scalnorm.
    assert (W0 : wf_store s0) by (apply wf_alloc; [exact W | apply junkbuf_length]).
    assert (Ex0 : rd s0 x = Some (sp, cl dx)) by (unfold s0; rewrite rd_app_old; assumption).
    assert (Ev0 : rd s0 v = Some (sp, cl dv)) by (unfold s0; rewrite rd_app_old; assumption).
    rewrite (do_lincomb_clean _ _ _ _ _ _ _ _ _ _ W0 Ex0 Ev0 (rd_app_new _ _)).
    unfold s0, d. rewrite upd_app_last. reflexivity. }
  unfold bind at 1. rewrite (bind_Ok _ _ _ _ _ H1). cbv beta. rewrite exec_sts_cons.
  rewrite (bind_Ok _ _ _ _ _ H2). cbv beta. rewrite He. cbn [ret].
  eexists _, _. split; [reflexivity|]. split; [left; reflexivity|]. splits; auto.
  eapply ext_trans; [apply ext_alloc | exact E1 | intros i [] | intros i _ I; exact I].
Qed.
End Classes.
