(* C03/PProofs.v -- lemmas about the product-space layer (C03/PModel.v). *)
From Coq Require Import ZArith QArith Reals Lra Lia List Bool Arith.
From Verif Require Import Base.Num Base.Vec C03.Syntax Gen.C03Bodies C03.Poison C03.Model C03.Heap
  C03.Protocol C03.Classes C03.Proofs C03.PModel.
Import ListNotations.

Section PProofs.
Variable junk : nat -> nat -> VR.
Notation sR := (@store VR).
Definition zvec (sp : space) : list R := repeat 0%R (fst sp).

(* when y.set_zero() really zeroes y: repaired small-size branch, or >= THRESHOLD_SMALL
   entries, or NaN-free old contents *)
Definition zero_safe (s : sR) (o : nat) : Prop :=
  small_guarded <> SvUnguarded \/
  (exists sp d, rd s o = Some (sp, d) /\ (threshold_small <= length d)%nat) \/
  (exists sp d, rd s o = Some (sp, cl d)).

Lemma rscal0 d : rscal 0 d = repeat 0%R (length d).
Proof. unfold rscal. apply map_const. intros; lra. Qed.

Lemma set_zero_safe (s : sR) o sp d :
  wf_store s -> rd s o = Some (sp, d) -> zero_safe s o ->
  do_set_zero o s = Ok tt (upd s o (sp, cl (zvec sp))).
Proof.
  intros W E Z. pose proof (W _ _ _ E) as L. unfold zvec. rewrite <- L.
  destruct Z as [Hg | [(sp' & d' & E' & Hl) | (sp' & d' & E')]].
  - apply (set_zero_guarded_ignores_old small_guarded); assumption.
  - rewrite E in E'. injection E' as <- <-. apply set_zero_large_clean; assumption.
  - rewrite E in E'. injection E' as <- ->. rewrite (set_zero_clean s o sp d' W E).
    rewrite rscal0, cl_length. reflexivity.
Qed.

(* ---- range.zero(): fresh zero parts ---- *)
Definition zcells (sps : list space) : list (@cell VR) := map (fun sp => (sp, cl (zvec sp))) sps.
Lemma alloc_zeros_eq (sps : list space) (s : sR) :
  alloc_zeros sps s = Ok (seq (length s) (length sps)) (s ++ zcells sps).
Proof.
  revert s. induction sps as [|sp r IH]; intros s; cbn [alloc_zeros zcells map length seq].
  - unfold ret. rewrite app_nil_r. reflexivity.
  - unfold bind, alloc. rewrite IH. unfold ret. rewrite app_length. cbn [length].
    rewrite <- app_assoc. cbn [app]. rewrite zeros_cl. unfold zvec, zcells.
    replace (length s + 1)%nat with (S (length s)) by lia. reflexivity.
Qed.
Lemma rd_zcells (s : sR) sps k sp :
  nth_error sps k = Some sp -> rd (s ++ zcells sps) (length s + k) = Some (sp, cl (zvec sp)).
Proof.
  intros E. unfold rd. rewrite nth_error_app2 by lia.
  replace (length s + k - length s)%nat with k by lia.
  unfold zcells. rewrite nth_error_map, E. reflexivity.
Qed.
Lemma ext_app (s : sR) l : ext s (s ++ l) [].
Proof.
  induction l as [|c l IH] using rev_ind.
  - rewrite app_nil_r. apply ext_refl.
  - rewrite app_assoc. eapply ext_trans_same; [exact IH | apply ext_alloc].
Qed.
Lemma wf_app (s : sR) sps : wf_store s -> wf_store (s ++ zcells sps).
Proof.
  intros W. induction sps as [|sp r IH] using rev_ind.
  - unfold zcells. cbn. rewrite app_nil_r. exact W.
  - unfold zcells in *. rewrite map_app, app_assoc. cbn [map].
    apply wf_alloc; [exact IH | rewrite cl_length; apply repeat_length].
Qed.

(* ---- ComponentProjection ---- *)
Lemma cproj_oop_ok i (xs : list nat) (s : sR) xi sp d :
  nth_error xs i = Some xi -> rd s xi = Some (sp, cl d) ->
  cproj_oop i xs s = Ok (length s) (s ++ [(sp, cl d)]).
Proof.
  intros Ei E. unfold cproj_oop, nthid. rewrite Ei. cbn [lift_opt].
  unfold bind, ret. apply do_copy_eq. exact E.
Qed.
Lemma cproj_ip_ok i (xs : list nat) (s : sR) xi o sp d dold :
  wf_store s -> nth_error xs i = Some xi -> rd s xi = Some (sp, cl d) -> rd s o = Some (sp, dold) ->
  cproj_ip i xs o s = Ok tt (upd s o (sp, cl d)).
Proof.
  intros W Ei E Eo. unfold cproj_ip, nthid. rewrite Ei. cbn [lift_opt]. unfold bind, ret.
  apply do_assign_clean with (dold := dold); assumption.
Qed.

(* ---- set_zero on every part ---- *)
Lemma set_zero_all_ok (outs : list nat) : forall (sps : list space) (s : sR),
  wf_store s -> NoDup outs -> length outs = length sps ->
  (forall k o sp, nth_error outs k = Some o -> nth_error sps k = Some sp ->
      (exists d, rd s o = Some (sp, d)) /\ zero_safe s o) ->
  exists s', set_zero_all outs s = Ok tt s' /\ wf_store s' /\ ext s s' outs /\
    (forall k o sp, nth_error outs k = Some o -> nth_error sps k = Some sp -> rd s' o = Some (sp, cl (zvec sp))).
Proof.
  induction outs as [|o r IH]; intros sps s W ND L H.
  - exists s. splits; [reflexivity | exact W | apply ext_refl |]. intros k o sp E. destruct k; discriminate.
  - destruct sps as [|sp sps]; [discriminate|]. cbn [length] in L.
    apply NoDup_cons_iff in ND as [No ND].
    destruct (H 0%nat o sp eq_refl eq_refl) as ((d & Eo) & Zo).
    cbn [set_zero_all]. unfold bind. rewrite (set_zero_safe s o sp d W Eo Zo).
    set (s1 := upd s o (sp, cl (zvec sp))).
    assert (W1 : wf_store s1) by (apply wf_upd; [exact W | rewrite cl_length; apply repeat_length]).
    assert (E1 : ext s s1 [o]) by (eapply ext_upd; exact Eo).
    destruct (IH sps s1 W1 ND ltac:(lia)) as (s' & Hs' & W' & E' & R').
    { intros k o' sp' Ek Esp. destruct (H (S k) o' sp' Ek Esp) as ((d' & Eo') & Z').
      assert (No' : o' <> o) by (intros ->; apply No; eapply nth_error_In; exact Ek).
      split.
      - exists d'. unfold s1. rewrite rd_upd_other by exact No'. exact Eo'.
      - destruct Z' as [Hg | [(sp2 & d2 & E2 & Hl) | (sp2 & d2 & E2)]].
        + left; exact Hg.
        + right; left. exists sp2, d2. unfold s1. rewrite rd_upd_other by exact No'. split; assumption.
        + right; right. exists sp2, d2. unfold s1. rewrite rd_upd_other by exact No'. exact E2. }
    exists s'. splits; [exact Hs' | exact W' | |].
    + eapply ext_trans; [exact E1 | exact E' | intros i [<-|[]]; left; reflexivity | intros i _ I; right; exact I].
    + intros k o' sp' Ek Esp. destruct k as [|k].
      * cbn in Ek, Esp. injection Ek as <-. injection Esp as <-.
        eapply ext_rd; [exact E' | apply rd_upd_same; eapply rd_lt; exact Eo | exact No].
      * apply (R' k); assumption.
Qed.
End PProofs.
