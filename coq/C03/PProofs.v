(* C03/PProofs.v -- lemmas about the product-space layer (C03/PModel.v). *)
From Coq Require Import ZArith QArith Reals Lra Lia List Bool Arith.
From Verif Require Import Base.Num Base.Vec C03.Syntax Gen.C03Bodies C03.Poison C03.Model C03.Heap
  C03.Protocol C03.Classes C03.Proofs C03.PModel.
Import ListNotations.

Section PProofs.
Variable junk : nat -> nat -> VR.
Notation sR := (@store VR).
Definition zvec (sp : space) : list R := repeat 0%R (fst sp).

(* when y.set_zero() really zeroes y: repaired small-size branch, or >= THRESHOLD_SMALL
   entries, or NaN-free old contents *)
Definition zero_safe (s : sR) (o : nat) : Prop :=
  small_guarded <> SvUnguarded \/
  (exists sp d, rd s o = Some (sp, d) /\ (threshold_small <= length d)%nat) \/
  (exists sp d, rd s o = Some (sp, cl d)).

Lemma rscal0 d : rscal 0 d = repeat 0%R (length d).
Proof. unfold rscal. apply map_const. intros; lra. Qed.

Lemma set_zero_safe (s : sR) o sp d :
  wf_store s -> rd s o = Some (sp, d) -> zero_safe s o ->
  do_set_zero o s = Ok tt (upd s o (sp, cl (zvec sp))).
Proof.
  intros W E Z. pose proof (W _ _ _ E) as L. unfold zvec. rewrite <- L.
  destruct Z as [Hg | [(sp' & d' & E' & Hl) | (sp' & d' & E')]].
  - apply (set_zero_guarded_ignores_old small_guarded); assumption.
  - rewrite E in E'. injection E' as <- <-. apply set_zero_large_clean; assumption.
  - rewrite E in E'. injection E' as <- ->. rewrite (set_zero_clean s o sp d' W E).
    rewrite rscal0, cl_length. reflexivity.
Qed.

(* ---- range.zero(): fresh zero parts ---- *)
Definition zcells (sps : list space) : list (@cell VR) := map (fun sp => (sp, cl (zvec sp))) sps.
Lemma alloc_zeros_eq (sps : list space) (s : sR) :
  alloc_zeros sps s = Ok (seq (length s) (length sps)) (s ++ zcells sps).
Proof.
  revert s. induction sps as [|sp r IH]; intros s; cbn [alloc_zeros zcells map length seq].
  - unfold ret. rewrite app_nil_r. reflexivity.
  - unfold bind, alloc. rewrite IH. unfold ret. rewrite app_length. cbn [length].
    rewrite <- app_assoc. cbn [app]. rewrite zeros_cl. unfold zvec, zcells.
    replace (length s + 1)%nat with (S (length s)) by lia. reflexivity.
Qed.
Lemma rd_zcells (s : sR) sps k sp :
  nth_error sps k = Some sp -> rd (s ++ zcells sps) (length s + k) = Some (sp, cl (zvec sp)).
Proof.
  intros E. unfold rd. rewrite nth_error_app2 by lia.
  replace (length s + k - length s)%nat with k by lia.
  unfold zcells. rewrite nth_error_map, E. reflexivity.
Qed.
Lemma ext_app (s : sR) l : ext s (s ++ l) [].
Proof.
  induction l as [|c l IH] using rev_ind.
  - rewrite app_nil_r. apply ext_refl.
  - rewrite app_assoc. eapply ext_trans_same; [exact IH | apply ext_alloc].
Qed.
Lemma wf_app (s : sR) sps : wf_store s -> wf_store (s ++ zcells sps).
Proof.
  intros W. induction sps as [|sp r IH] using rev_ind.
  - unfold zcells. cbn. rewrite app_nil_r. exact W.
  - unfold zcells in *. rewrite map_app, app_assoc. cbn [map].
    apply wf_alloc; [exact IH | rewrite cl_length; apply repeat_length].
Qed.

(* ---- ComponentProjection ---- *)
Lemma cproj_oop_ok i (xs : list nat) (s : sR) xi sp d :
  nth_error xs i = Some xi -> rd s xi = Some (sp, cl d) ->
  cproj_oop i xs s = Ok (length s) (s ++ [(sp, cl d)]).
Proof.
  intros Ei E. unfold cproj_oop, nthid. rewrite Ei. cbn [lift_opt].
  unfold bind, ret. apply do_copy_eq. exact E.
Qed.
Lemma cproj_ip_ok i (xs : list nat) (s : sR) xi o sp d dold :
  wf_store s -> nth_error xs i = Some xi -> rd s xi = Some (sp, cl d) -> rd s o = Some (sp, dold) ->
  cproj_ip i xs o s = Ok tt (upd s o (sp, cl d)).
Proof.
  intros W Ei E Eo. unfold cproj_ip, nthid. rewrite Ei. cbn [lift_opt]. unfold bind, ret.
  apply do_assign_clean with (dold := dold); assumption.
Qed.

(* ---- set_zero on every part ---- *)
Lemma set_zero_all_ok (outs : list nat) : forall (sps : list space) (s : sR),
  wf_store s -> NoDup outs -> length outs = length sps ->
  (forall k o sp, nth_error outs k = Some o -> nth_error sps k = Some sp ->
      (exists d, rd s o = Some (sp, d)) /\ zero_safe s o) ->
  exists s', set_zero_all outs s = Ok tt s' /\ wf_store s' /\ ext s s' outs /\
    (forall k o sp, nth_error outs k = Some o -> nth_error sps k = Some sp -> rd s' o = Some (sp, cl (zvec sp))).
Proof.
  induction outs as [|o r IH]; intros sps s W ND L H.
  - exists s. splits; [reflexivity | exact W | apply ext_refl |]. intros k o sp E. destruct k; discriminate.
  - destruct sps as [|sp sps]; [discriminate|]. cbn [length] in L.
    apply NoDup_cons_iff in ND as [No ND].
    destruct (H 0%nat o sp eq_refl eq_refl) as ((d & Eo) & Zo).
    cbn [set_zero_all]. unfold bind. rewrite (set_zero_safe s o sp d W Eo Zo).
    set (s1 := upd s o (sp, cl (zvec sp))).
    assert (W1 : wf_store s1) by (apply wf_upd; [exact W | rewrite cl_length; apply repeat_length]).
    assert (E1 : ext s s1 [o]) by (eapply ext_upd; exact Eo).
    destruct (IH sps s1 W1 ND ltac:(lia)) as (s' & Hs' & W' & E' & R').
    { intros k o' sp' Ek Esp. destruct (H (S k) o' sp' Ek Esp) as ((d' & Eo') & Z').
      assert (No' : o' <> o) by (intros ->; apply No; eapply nth_error_In; exact Ek).
      split.
      - exists d'. unfold s1. rewrite rd_upd_other by exact No'. exact Eo'.
      - destruct Z' as [Hg | [(sp2 & d2 & E2 & Hl) | (sp2 & d2 & E2)]].
        + left; exact Hg.
        + right; left. exists sp2, d2. unfold s1. rewrite rd_upd_other by exact No'. split; assumption.
        + right; right. exists sp2, d2. unfold s1. rewrite rd_upd_other by exact No'. exact E2. }
    exists s'. splits; [exact Hs' | exact W' | |].
    + eapply ext_trans; [exact E1 | exact E' | intros i [<-|[]]; left; reflexivity | intros i _ I; right; exact I].
    + intros k o' sp' Ek Esp. destruct k as [|k].
      * cbn in Ek, Esp. injection Ek as <-. injection Esp as <-.
        eapply ext_rd; [exact E' | apply rd_upd_same; eapply rd_lt; exact Eo | exact No].
      * apply (R' k); assumption.
Qed.

(* ---- out[i].set_zero() for the rows that were not evaluated ---- *)
Lemma zero_rest_ok (outs0 : list nat) : forall (ev : list bool) (sps : list space) (s : sR),
  wf_store s -> NoDup outs0 -> length outs0 = length sps -> length ev = length outs0 ->
  (forall k o sp, nth_error outs0 k = Some o -> nth_error sps k = Some sp ->
      (exists d, rd s o = Some (sp, d)) /\ (nth k ev false = false -> zero_safe s o)) ->
  exists s', zero_rest outs0 ev s = Ok tt s' /\ wf_store s' /\ ext s s' outs0 /\
    (forall k o sp, nth_error outs0 k = Some o -> nth_error sps k = Some sp ->
       if nth k ev false then rd s' o = rd s o else rd s' o = Some (sp, cl (zvec sp))).
Proof.
  induction outs0 as [|o r IH]; intros ev sps s W ND L Lev H.
  - exists s. splits; [destruct ev; reflexivity | exact W | apply ext_refl |].
    intros k o sp E. destruct k; discriminate.
  - destruct sps as [|sp sps]; [discriminate|]. destruct ev as [|b ev]; [discriminate|].
    cbn [length] in L, Lev. apply NoDup_cons_iff in ND as [No ND].
    destruct (H 0%nat o sp eq_refl eq_refl) as ((d & Eo) & Zo). cbn [nth] in Zo.
    cbn [zero_rest].
    assert (exists s1, (if b then ret tt else do_set_zero o) s = Ok tt s1 /\ wf_store s1 /\ ext s s1 [o] /\
              (if b then rd s1 o = rd s o else rd s1 o = Some (sp, cl (zvec sp))))
      as (s1 & Hs1 & W1 & E1 & R1).
    { destruct b.
      - exists s. splits; [reflexivity | exact W | apply ext_refl | reflexivity].
      - rewrite (set_zero_safe s o sp d W Eo (Zo eq_refl)). eexists. splits; [reflexivity | | |].
        + apply wf_upd; [exact W | rewrite cl_length; apply repeat_length].
        + eapply ext_upd; exact Eo.
        + apply rd_upd_same. eapply rd_lt; exact Eo. }
    rewrite (bind_Ok _ _ _ _ _ Hs1).
    assert (Other : forall o', In o' r -> rd s1 o' = rd s o').
    { intros o' I. destruct (Nat.eq_dec o' o) as [->|N]; [contradiction|].
      destruct (Nat.lt_ge_cases o' (length s)) as [Lt|Ge].
      - eapply ext_same; [exact E1 | exact Lt | intros [Q|[]]; congruence].
      - (* not an object of s: cannot be a part *) exfalso.
        apply In_nth_error in I as (k & Ek). destruct (nth_error sps k) as [sp'|] eqn:Es.
        + destruct (H (S k) o' sp' Ek Es) as ((d' & Ed') & _). apply rd_lt in Ed'. lia.
        + apply nth_error_None in Es. assert (nth_error r k <> None) by congruence.
          apply nth_error_Some in H0. lia. }
    destruct (IH ev sps s1 W1 ND ltac:(lia) ltac:(lia)) as (s' & Hs' & W' & E' & R').
    { intros k o' sp' Ek Esp. destruct (H (S k) o' sp' Ek Esp) as ((d' & Eo') & Z'). cbn [nth] in Z'.
      assert (Io : In o' r) by (eapply nth_error_In; exact Ek).
      split; [exists d'; rewrite (Other o' Io); exact Eo'|].
      intros Hf. destruct (Z' Hf) as [Hg | [(sp2 & d2 & E2 & Hl) | (sp2 & d2 & E2)]].
      - left; exact Hg.
      - right; left. exists sp2, d2. rewrite (Other o' Io). split; assumption.
      - right; right. exists sp2, d2. rewrite (Other o' Io). exact E2. }
    exists s'. splits; [exact Hs' | exact W' | |].
    + eapply ext_trans; [exact E1 | exact E' | intros i [<-|[]]; left; reflexivity | intros i _ I; right; exact I].
    + intros k o' sp' Ek Esp. destruct k as [|k].
      * cbn in Ek, Esp. injection Ek as <-. injection Esp as <-. cbn [nth].
        assert (Keep : rd s' o = rd s1 o).
        { destruct (Nat.lt_ge_cases o (length s1)) as [Lt|Ge].
          - eapply ext_same; [exact E' | exact Lt | exact No].
          - exfalso. apply rd_lt in Eo. pose proof (ext_len _ _ _ E1). lia. }
        destruct b; rewrite Keep; exact R1.
      * cbn [nth]. pose proof (R' k o' sp' Ek Esp) as Rk.
        assert (Io : In o' r) by (eapply nth_error_In; exact Ek).
        destruct (nth k ev false); [rewrite Rk; apply Other; exact Io | exact Rk].
Qed.

(* ================= ProductSpaceOperator: the two loops ================= *)
(* an entry together with the function its operator denotes *)
Definition sent := (@entry VR * (list R -> list R))%type.
Definition ent_ok (ro : ro_t) (doms rans : list space) (p : sent) : Prop :=
  exists dj ri, nth_error doms (en_col (fst p)) = Some dj /\ nth_error rans (en_row (fst p)) = Some ri /\
                den ro (en_op (fst p)) dj ri [] (snd p).

Section Loops.
Variables (ro : ro_t) (doms rans : list space) (xs outs : list nat) (xd : nat -> list R).

(* the static facts about the argument and the output parts, relative to a store *)
Definition args_ok (s : sR) : Prop :=
  wf_store s /\ good ro s /\
  (forall j xj dj, nth_error xs j = Some xj -> nth_error doms j = Some dj -> rd s xj = Some (dj, cl (xd j))) /\
  length xs = length doms.
Definition outs_static : Prop :=
  NoDup outs /\ length outs = length rans /\
  (forall o, In o outs -> ~ In o xs) /\ (forall o, In o outs -> ~ In o (ro_ids ro)).

Lemma args_ok_ext (s s' : sR) m :
  args_ok s -> ext s s' m -> wf_store s' -> (forall i, In i m -> ~ In i xs /\ ~ In i (ro_ids ro)) -> args_ok s'.
Proof.
  intros (W & G & X & L) E W' D. unfold args_ok. splits; auto.
  - eapply good_ext; [exact G | exact E | intros i I; apply (D i I)].
  - intros j xj dj Ej Ed. eapply ext_rd; [exact E | apply (X j xj dj Ej Ed) |].
    intros I. apply (proj1 (D xj I)). eapply nth_error_In; exact Ej.
Qed.

(* ---- out-of-place loop:  out[i] += op(x[j]) ---- *)
Definition stepo (acc : nat -> list R) (p : sent) : nat -> list R :=
  fun k => if (k =? en_row (fst p))%nat then radd (acc k) (snd p (xd (en_col (fst p)))) else acc k.
Definition rows_hold (s : sR) (acc : nat -> list R) : Prop :=
  forall i o ri, nth_error outs i = Some o -> nth_error rans i = Some ri ->
    rd s o = Some (ri, cl (acc i)) /\ length (acc i) = fst ri.

Lemma oop_loop_ok (se : list sent) : forall (s : sR) (acc : nat -> list R),
  Forall (ent_ok ro doms rans) se -> outs_static -> args_ok s -> rows_hold s acc ->
  exists s', pso_oop_loop junk (map fst se) xs outs s = Ok tt s' /\
    args_ok s' /\ rows_hold s' (fold_left stepo se acc) /\ ext s s' outs.
Proof.
  induction se as [|[e F] se IH]; intros s acc HF HO HA HR.
  - exists s. splits; [reflexivity | exact HA | exact HR | apply ext_refl].
  - inversion HF as [|? ? (dj & ri & Ecol & Erow & HD) HF']; subst. cbn [fst snd] in *.
    destruct HO as (ND & Lo & Ox & Oro). destruct HA as (W & G & X & Lx).
    destruct (nth_error xs (en_col e)) as [xj|] eqn:Exj.
    2:{ exfalso. apply nth_error_None in Exj. assert (nth_error doms (en_col e) <> None) by congruence.
        apply nth_error_Some in H. lia. }
    destruct (nth_error outs (en_row e)) as [oi|] eqn:Eoi.
    2:{ exfalso. apply nth_error_None in Eoi. assert (nth_error rans (en_row e) <> None) by congruence.
        apply nth_error_Some in H. lia. }
    cbn [map fst pso_oop_loop]. unfold nthid. rewrite Exj, Eoi. cbn [lift_opt].
    rewrite (bind_Ok _ _ s xj s) by reflexivity. rewrite (bind_Ok _ _ s oi s) by reflexivity.
    pose proof (X _ _ _ Exj Ecol) as Ex.
    destruct (den_ok junk _ _ _ _ _ _ HD) as (Hd & _ & Hoop & _).
    rewrite <- Hd in Ex.
    destruct (Hoop s xj _ W G Ex) as (r & s1 & Hc & Er & E1 & W1 & Hr).
    unfold call. rewrite (bind_Ok _ _ _ _ _ Hc). cbn [elem_id]. rewrite (bind_Ok _ _ s1 r s1) by reflexivity.
    destruct (HR _ _ _ Eoi Erow) as (Eo & La).
    assert (Eo1 : rd s1 oi = Some (ri, cl (acc (en_row e)))) by (eapply ext_rd; [exact E1 | exact Eo | intros []]).
    rewrite (bind_Ok _ _ _ _ _ (do_iadd_clean _ _ _ _ _ _ W1 Eo1 Er)).
    set (v := F (xd (en_col e))). set (s2 := upd s1 oi (ri, cl (radd (acc (en_row e)) v))).
    assert (Lv : length v = fst ri) by (eapply wf_len; [exact W1 | exact Er]).
    assert (Lsum : length (radd (acc (en_row e)) v) = fst ri) by (rewrite radd_length; congruence).
    assert (W2 : wf_store s2) by (apply wf_upd; [exact W1 | rewrite cl_length; exact Lsum]).
    assert (E12 : ext s1 s2 [oi]) by (eapply ext_upd; exact Eo1).
    assert (E02 : ext s s2 [oi]) by (eapply ext_trans; [exact E1 | exact E12 | intros i [] | intros i _ I; exact I]).
    assert (Ioi : In oi outs) by (eapply nth_error_In; exact Eoi).
    assert (HA2 : args_ok s2).
    { apply (args_ok_ext s s2 [oi]); [unfold args_ok; splits; assumption | exact E02 | exact W2 |].
      intros i [<-|[]]. split; [apply Ox | apply Oro]; exact Ioi. }
    assert (HR2 : rows_hold s2 (stepo acc (e, F))).
    { intros i o ri' Ei Eri. unfold stepo. cbn [fst snd]. destruct (Nat.eqb_spec i (en_row e)) as [->|Ni].
      - rewrite Eoi in Ei. injection Ei as <-. rewrite Erow in Eri. injection Eri as <-.
        split; [apply rd_upd_same; eapply rd_lt; exact Eo1 | exact Lsum].
      - destruct (HR _ _ _ Ei Eri) as (Eo' & La').
        assert (No : o <> oi).
        { intros ->. apply Ni. eapply NoDup_nth_error; [exact ND | | congruence].
          apply nth_error_Some. congruence. }
        split; [|exact La']. unfold s2. rewrite rd_upd_other by exact No.
        eapply ext_rd; [exact E1 | exact Eo' | intros []]. }
    destruct (IH s2 (stepo acc (e, F)) HF' (conj ND (conj Lo (conj Ox Oro))) HA2 HR2) as (s' & Hl & HA' & HR' & E').
    exists s'. splits; [exact Hl | exact HA' | exact HR' |].
    eapply ext_trans; [exact E02 | exact E' | intros i [<-|[]]; exact Ioi | intros i _ I; exact I].
Qed.

(* ---- in-place loop: first entry of a row writes out[i], later ones accumulate ---- *)
Lemma set_true_length l i : length (set_true l i) = length l.
Proof. revert i; induction l as [|b l IH]; intros [|i]; cbn; auto. Qed.
Lemma set_true_nth l i k : (i < length l)%nat ->
  nth k (set_true l i) false = if (k =? i)%nat then true else nth k l false.
Proof.
  revert i k; induction l as [|b l IH]; intros [|i] [|k] L; cbn in *; try lia; try reflexivity.
  apply IH. lia.
Qed.

Definition stepi (acc : nat -> option (list R)) (p : sent) : nat -> option (list R) :=
  fun k => if (k =? en_row (fst p))%nat
           then Some (match acc k with
                      | Some a => radd a (snd p (xd (en_col (fst p))))
                      | None => snd p (xd (en_col (fst p)))
                      end)
           else acc k.
Definition rows_ip (s0 s : sR) (acc : nat -> option (list R)) (ev : list bool) : Prop :=
  length ev = length outs /\
  forall i o ri, nth_error outs i = Some o -> nth_error rans i = Some ri ->
    match acc i with
    | Some a => nth i ev false = true /\ rd s o = Some (ri, cl a) /\ length a = fst ri
    | None => nth i ev false = false /\ rd s o = rd s0 o /\ exists d, rd s0 o = Some (ri, d)
    end.

Lemma ip_loop_ok (s0 : sR) (se : list sent) : forall (s : sR) (acc : nat -> option (list R)) (ev : list bool),
  Forall (ent_ok ro doms rans) se -> outs_static -> args_ok s -> rows_ip s0 s acc ev ->
  exists ev' s', pso_ip_loop junk (map fst se) xs outs ev s = Ok ev' s' /\
    args_ok s' /\ rows_ip s0 s' (fold_left stepi se acc) ev' /\ ext s s' outs.
Proof.
  induction se as [|[e F] se IH]; intros s acc ev HF HO HA HR.
  - exists ev, s. splits; [reflexivity | exact HA | exact HR | apply ext_refl].
  - inversion HF as [|? ? (dj & ri & Ecol & Erow & HD) HF']; subst. cbn [fst snd] in *.
    destruct HO as (ND & Lo & Ox & Oro). destruct HA as (W & G & X & Lx). destruct HR as (Lev & HR).
    destruct (nth_error xs (en_col e)) as [xj|] eqn:Exj.
    2:{ exfalso. apply nth_error_None in Exj. assert (nth_error doms (en_col e) <> None) by congruence.
        apply nth_error_Some in H. lia. }
    destruct (nth_error outs (en_row e)) as [oi|] eqn:Eoi.
    2:{ exfalso. apply nth_error_None in Eoi. assert (nth_error rans (en_row e) <> None) by congruence.
        apply nth_error_Some in H. lia. }
    assert (Lrow : (en_row e < length ev)%nat).
    { rewrite Lev. apply nth_error_Some. congruence. }
    cbn [map fst pso_ip_loop]. unfold nthid. rewrite Exj, Eoi. cbn [lift_opt].
    rewrite (bind_Ok _ _ s xj s) by reflexivity. rewrite (bind_Ok _ _ s oi s) by reflexivity.
    pose proof (X _ _ _ Exj Ecol) as Ex.
    destruct (den_ok junk _ _ _ _ _ _ HD) as (Hd & _ & Hoop & Hip).
    rewrite <- Hd in Ex.
    assert (Ioi : In oi outs) by (eapply nth_error_In; exact Eoi).
    assert (Nxo : xj <> oi).
    { intros ->. apply (Ox oi Ioi). eapply nth_error_In; exact Exj. }
    set (v := F (xd (en_col e))).
    (* the store after this entry, with the facts the induction needs *)
    assert (exists s2, (if nth (en_row e) ev false
              then bind (call junk (en_op e) (VElem xj) None) (fun v0 => bind (elem_id v0) (fun i => do_iadd oi i))
              else bind (call junk (en_op e) (VElem xj) (Some (VElem oi))) (fun _ => ret tt)) s = Ok tt s2 /\
            wf_store s2 /\ ext s s2 [oi] /\
            rd s2 oi = Some (ri, cl (match acc (en_row e) with Some a => radd a v | None => v end)) /\
            length (match acc (en_row e) with Some a => radd a v | None => v end) = fst ri)
      as (s2 & Hstep & W2 & E02 & Eo2 & Lnew).
    { pose proof (HR _ _ _ Eoi Erow) as HRi. destruct (acc (en_row e)) as [a|] eqn:Eacc.
      - destruct HRi as (Hev & Eo & La). rewrite Hev.
        destruct (Hoop s xj _ W G Ex) as (r & s1 & Hc & Er & E1 & W1 & Hr).
        unfold call. rewrite (bind_Ok _ _ _ _ _ Hc). cbn [elem_id]. rewrite (bind_Ok _ _ s1 r s1) by reflexivity.
        assert (Eo1 : rd s1 oi = Some (ri, cl a)) by (eapply ext_rd; [exact E1 | exact Eo | intros []]).
        rewrite (do_iadd_clean _ _ _ _ _ _ W1 Eo1 Er). fold v.
        assert (Lv : length v = fst ri) by (eapply wf_len; [exact W1 | exact Er]).
        assert (Lsum : length (radd a v) = fst ri) by (rewrite radd_length; congruence).
        eexists. splits; [reflexivity | | | | exact Lsum].
        + apply wf_upd; [exact W1 | rewrite cl_length; exact Lsum].
        + eapply ext_trans; [exact E1 | eapply ext_upd; exact Eo1 | intros i [] | intros i _ I; exact I].
        + apply rd_upd_same. eapply rd_lt; exact Eo1.
      - destruct HRi as (Hev & Eo & (d0 & Ed0)). rewrite Hev.
        assert (Eo' : rd s oi = Some (ri, d0)) by congruence.
        destruct (Hip s xj oi _ d0 W G Ex Eo' Nxo (Oro oi Ioi) (scr_ok_nil junk ro s xj oi)) as (s1 & Hc & Er & E1 & W1).
        unfold call. rewrite (bind_Ok _ _ _ _ _ Hc). cbn [ret]. fold v in Er.
        eexists. splits; [reflexivity | exact W1 | exact E1 | exact Er | eapply wf_len; [exact W1 | exact Er]]. }
    rewrite (bind_Ok _ _ _ _ _ Hstep).
    assert (HA2 : args_ok s2).
    { apply (args_ok_ext s s2 [oi]); [unfold args_ok; splits; assumption | exact E02 | exact W2 |].
      intros i [<-|[]]. split; [apply Ox | apply Oro]; exact Ioi. }
    assert (HR2 : rows_ip s0 s2 (stepi acc (e, F)) (set_true ev (en_row e))).
    { split; [rewrite set_true_length; exact Lev|].
      intros i o ri' Ei Eri. unfold stepi. cbn [fst snd]. rewrite (set_true_nth _ _ _ Lrow).
      destruct (Nat.eqb_spec i (en_row e)) as [->|Ni].
      - rewrite Eoi in Ei. injection Ei as <-. rewrite Erow in Eri. injection Eri as <-.
        fold v. splits; [reflexivity | exact Eo2 | exact Lnew].
      - pose proof (HR _ _ _ Ei Eri) as HRi.
        assert (No : o <> oi).
        { intros ->. apply Ni. eapply NoDup_nth_error; [exact ND | | congruence].
          apply nth_error_Some. congruence. }
        assert (Keep : rd s2 o = rd s o).
        { eapply ext_same; [exact E02 | | intros [Q|[]]; congruence].
          destruct (acc i); [destruct HRi as (_ & Eo & _); eapply rd_lt; exact Eo |
                             destruct HRi as (_ & Eo & (d & Ed)); eapply rd_lt; rewrite Eo; exact Ed]. }
        destruct (acc i) as [a|].
        + destruct HRi as (A & B & Cc). splits; [exact A | rewrite Keep; exact B | exact Cc].
        + destruct HRi as (A & B & Cc). splits; [exact A | rewrite Keep; exact B | exact Cc]. }
    destruct (IH s2 (stepi acc (e, F)) (set_true ev (en_row e)) HF' (conj ND (conj Lo (conj Ox Oro))) HA2 HR2)
      as (ev' & s' & Hl & HA' & HR' & E').
    exists ev', s'. splits; [exact Hl | exact HA' | exact HR' |].
    eapply ext_trans; [exact E02 | exact E' | intros i [<-|[]]; exact Ioi | intros i _ I; exact I].
Qed.
End Loops.

(* ================= ProductSpaceOperator: the public results ================= *)
Definition zrow (rans : list space) (k : nat) : list R := zvec (nth k rans (0, 0)%nat).
(* row i of op(x): zeros, then += for every entry of the row, in COO order *)
Definition oop_rows (rans : list space) (xd : nat -> list R) (se : list sent) : nat -> list R :=
  fold_left (stepo xd) se (zrow rans).
(* row i of op(x, out=y): the first entry of the row is written, later ones added; zeros if the row is empty *)
Definition ip_rows (rans : list space) (xd : nat -> list R) (se : list sent) (k : nat) : list R :=
  match fold_left (stepi xd) se (fun _ => None) k with Some a => a | None => zrow rans k end.

Lemma nth_error_seq a n i : (i < n)%nat -> nth_error (seq a n) i = Some (a + i)%nat.
Proof.
  revert a i; induction n as [|n IH]; intros a [|i] L; cbn; try lia.
  - f_equal. lia.
  - rewrite IH by lia. f_equal. lia.
Qed.
Lemma nth_error_seq_inv a n i o : nth_error (seq a n) i = Some o -> o = (a + i)%nat /\ (i < n)%nat.
Proof.
  intros E. assert (L : (i < n)%nat).
  { rewrite <- (seq_length n a). apply nth_error_Some. congruence. }
  rewrite (nth_error_seq a n i L) in E. injection E as <-. split; [reflexivity | exact L].
Qed.

Theorem pso_oop_ok ro doms rans xs xd (se : list sent) (s : sR) :
  Forall (ent_ok ro doms rans) se -> args_ok ro doms xs xd s ->
  exists s', pso_oop junk (map fst se) rans xs s = Ok (seq (length s) (length rans)) s' /\
    (forall i ri, nth_error rans i = Some ri ->
        rd s' (length s + i) = Some (ri, cl (oop_rows rans xd se i))) /\
    ext s s' [] /\ wf_store s'.
Proof.
  intros HF HA. unfold pso_oop. rewrite (bind_Ok _ _ _ _ _ (alloc_zeros_eq rans s)).
  set (outs := seq (length s) (length rans)). set (s1 := s ++ zcells rans).
  pose proof HA as (W & G & X & Lx).
  assert (W1 : wf_store s1) by (apply wf_app; exact W).
  assert (E01 : ext s s1 []) by apply ext_app.
  assert (HO : outs_static ro rans xs outs).
  { unfold outs_static, outs. splits.
    - apply seq_NoDup.
    - apply seq_length.
    - intros o I Ix. apply in_seq in I. apply In_nth_error in Ix as (j & Ej).
      destruct (nth_error doms j) as [dj|] eqn:Ed.
      + pose proof (X _ _ _ Ej Ed) as Q. apply rd_lt in Q. lia.
      + apply nth_error_None in Ed. assert (nth_error xs j <> None) by congruence.
        apply nth_error_Some in H. lia.
    - intros o I Ir. apply in_seq in I. apply (good_lt _ _ _ G) in Ir. lia. }
  assert (HA1 : args_ok ro doms xs xd s1).
  { apply (args_ok_ext ro doms xs xd s s1 []); [exact HA | exact E01 | exact W1 | intros i []]. }
  assert (HR1 : rows_hold rans outs s1 (zrow rans)).
  { intros i o ri Ei Eri. unfold outs in Ei. apply nth_error_seq_inv in Ei as (-> & Li).
    unfold s1. rewrite (rd_zcells s rans i ri Eri). unfold zrow. rewrite (nth_error_nth _ _ _ Eri).
    split; [reflexivity | apply repeat_length]. }
  destruct (oop_loop_ok ro doms rans xs outs xd se s1 (zrow rans) HF HO HA1 HR1) as (s' & Hl & HA' & HR' & E').
  rewrite (bind_Ok _ _ _ _ _ Hl). cbn [ret]. exists s'. splits; [reflexivity | | | apply HA'].
  - intros i ri Eri. assert (Li : (i < length rans)%nat) by (apply nth_error_Some; congruence).
    apply (HR' i (length s + i)%nat ri); [apply nth_error_seq; exact Li | exact Eri].
  - eapply ext_trans; [exact E01 | exact E' | intros i [] |].
    intros i Li I. unfold outs in I. apply in_seq in I. lia.
Qed.

Theorem pso_ip_ok ro doms rans xs outs xd (se : list sent) (s : sR) :
  Forall (ent_ok ro doms rans) se -> outs_static ro rans xs outs -> args_ok ro doms xs xd s ->
  (forall i o ri, nth_error outs i = Some o -> nth_error rans i = Some ri -> exists d, rd s o = Some (ri, d)) ->
  (forall o, In o outs -> zero_safe s o) ->
  exists s', pso_ip junk (map fst se) xs outs s = Ok tt s' /\
    (forall i o ri, nth_error outs i = Some o -> nth_error rans i = Some ri ->
        rd s' o = Some (ri, cl (ip_rows rans xd se i))) /\
    ext s s' outs /\ wf_store s'.
Proof.
  intros HF HO HA Hex Hz. unfold pso_ip.
  assert (HR0 : rows_ip rans outs s s (fun _ => None) (repeat false (length outs))).
  { split; [apply repeat_length|]. intros i o ri Ei Eri. splits; [apply nth_repeat | reflexivity | apply (Hex i o ri Ei Eri)]. }
  destruct (ip_loop_ok ro doms rans xs outs xd s se s (fun _ => None) _ HF HO HA HR0) as (ev' & s1 & Hl & HA1 & HR1 & E1).
  rewrite (bind_Ok _ _ _ _ _ Hl).
  destruct HO as (ND & Lo & Ox & Oro). destruct HR1 as (Lev & HR1). destruct HA1 as (W1 & G1 & X1 & Lx1).
  destruct (zero_rest_ok outs ev' rans s1 W1 ND Lo Lev) as (s2 & Hz2 & W2 & E2 & R2).
  { intros k o sp Ek Esp. pose proof (HR1 k o sp Ek Esp) as Hk.
    destruct (fold_left (stepi xd) se (fun _ => None) k) as [a|].
    - destruct Hk as (Hev & Eo & _). split; [eexists; exact Eo | rewrite Hev; discriminate].
    - destruct Hk as (Hev & Eo & (d & Ed)). split; [exists d; congruence|]. intros _.
      assert (Io : In o outs) by (eapply nth_error_In; exact Ek).
      destruct (Hz o Io) as [Hg | [(sp2 & d2 & E2' & Hl') | (sp2 & d2 & E2')]].
      + left; exact Hg.
      + right; left. exists sp2, d2. rewrite Eo. split; assumption.
      + right; right. exists sp2, d2. rewrite Eo. exact E2'. }
  exists s2. splits; [exact Hz2 | | | exact W2].
  - intros i o ri Ei Eri. pose proof (HR1 i o ri Ei Eri) as Hk. pose proof (R2 i o ri Ei Eri) as Rk.
    unfold ip_rows. destruct (fold_left (stepi xd) se (fun _ => None) i) as [a|].
    + destruct Hk as (Hev & Eo & _). rewrite Hev in Rk. rewrite Rk. exact Eo.
    + destruct Hk as (Hev & _). rewrite Hev in Rk. unfold zrow. rewrite (nth_error_nth _ _ _ Eri). exact Rk.
  - eapply ext_trans_same; eassumption.
Qed.

(* the two row formulas agree (0 + v = v, entry by entry) when every entry's value has the
   length of its row -- which the den-otations of well-formed trees do *)
Lemma radd_zeros_l n v : length v = n -> radd (repeat 0%R n) v = v.
Proof.
  intros <-. unfold radd. induction v as [|a v IH]; cbn; [reflexivity|]. rewrite IH. f_equal. lra.
Qed.
Lemma rows_agree rans xd (se : list sent) :
  (forall p ri, In p se -> nth_error rans (en_row (fst p)) = Some ri ->
                length (snd p (xd (en_col (fst p)))) = fst ri) ->
  forall k, (k < length rans)%nat -> ip_rows rans xd se k = oop_rows rans xd se k.
Proof.
  intros Hlen k Lk. unfold ip_rows, oop_rows.
  assert (Gen : forall se' acci acco,
             (forall p ri, In p se' -> nth_error rans (en_row (fst p)) = Some ri ->
                           length (snd p (xd (en_col (fst p)))) = fst ri) ->
             (match acci k with Some a => acco k = a | None => acco k = zrow rans k end) ->
             match fold_left (stepi xd) se' acci k with
             | Some a => fold_left (stepo xd) se' acco k = a
             | None => fold_left (stepo xd) se' acco k = zrow rans k
             end).
  { induction se' as [|p se' IH]; intros acci acco Hl Hk; [exact Hk|].
    cbn [fold_left]. apply IH; [intros q ri I; apply Hl; right; exact I|].
    unfold stepi, stepo. destruct (Nat.eqb_spec k (en_row (fst p))) as [->|N]; [|exact Hk].
    destruct (nth_error rans (en_row (fst p))) as [ri|] eqn:Er.
    2:{ apply nth_error_None in Er. lia. }
    pose proof (Hl p ri (or_introl eq_refl) Er) as Lv.
    destruct (acci (en_row (fst p))) as [a|]; [rewrite Hk; reflexivity|].
    rewrite Hk. unfold zrow, zvec. rewrite (nth_error_nth _ _ _ Er). apply radd_zeros_l. exact Lv. }
  specialize (Gen se (fun _ => None) (zrow rans) Hlen eq_refl).
  destruct (fold_left (stepi xd) se (fun _ => None) k); symmetry; exact Gen.
Qed.

(* ================= denotations are well-typed ================= *)
Definition ro_wf (ro : ro_t) : Prop := forall i sp d, In (i, sp, d) ro -> length d = fst sp.
Lemma good_ro_wf ro (s : sR) : wf_store s -> good ro s -> ro_wf ro.
Proof. intros W G i sp d I. eapply wf_len; [exact W | apply (G _ _ _ I)]. Qed.

Lemma soft_length sl d : length (soft sl d) = length d.
Proof. unfold soft. rewrite rdiv_length; [reflexivity|]. rewrite map_length, rscal_length, map_length. reflexivity. Qed.
Lemma ccl1_length lam d : length (ccl1 lam d) = length d.
Proof. unfold ccl1. rewrite rdiv_length; [reflexivity|]. rewrite rscal_length, !map_length. reflexivity. Qed.

Lemma den_length ro : ro_wf ro ->
  forall o dom ran c F, den ro o dom ran c F -> forall d, length d = fst dom -> length (F d) = fst ran.
Proof.
  intros Hro o dom ran c F D.
  induction D; intros d0 L0;
    try (rewrite ?rscal_length; congruence);
    try (rewrite ?map_length; congruence).
  - (* leaf *) match goal with H : pf_clean _ _ _ _ |- _ => destruct H as (_ & Hf); apply (Hf d0 L0) end.
  - apply repeat_length.
  - eapply Hro; eassumption.
  - rewrite rmul_length; [eapply Hro; eassumption|]. erewrite Hro by eassumption. congruence.
  - rewrite rlin_length; [congruence|]. erewrite (Hro v sp dv) by eassumption. congruence.
  - rewrite rlin_length; [congruence|]. erewrite (Hro v sp dv) by eassumption. congruence.
  - rewrite rlin_length; [congruence|]. rewrite soft_length. reflexivity.
  - rewrite rlin_length; [congruence|]. rewrite soft_length, rlin_length; [reflexivity|].
    erewrite (Hro v sp dv) by eassumption. congruence.
  - rewrite ccl1_length. congruence.
  - rewrite ccl1_length, rlin_length; [congruence|]. erewrite (Hro v sp dv) by eassumption. congruence.
  - rewrite radd_length; [apply IHD1; exact L0|]. rewrite IHD1, IHD2 by exact L0. reflexivity.
  - rewrite radd_length; [apply IHD; exact L0|]. rewrite IHD by exact L0. symmetry. eapply Hro; eassumption.
  - apply IHD1. apply IHD2. exact L0.
  - rewrite rmul_length; [apply IHD1; exact L0|]. rewrite IHD1, IHD2 by exact L0. reflexivity.
  - rewrite rscal_length. apply IHD. exact L0.
  - apply IHD. rewrite rscal_length. exact L0.
  - rewrite rscal_length. eapply Hro; eassumption.
  - rewrite rmul_length; [eapply Hro; eassumption|]. rewrite IHD by exact L0. eapply Hro; eassumption.
  - apply IHD. rewrite rmul_length; [exact L0|]. rewrite L0. symmetry. eapply Hro; eassumption.
Qed.

(* hence the side condition of [rows_agree] holds for every well-formed entry list *)
Lemma ents_lengths ro doms rans xd (se : list sent) :
  ro_wf ro -> Forall (ent_ok ro doms rans) se ->
  (forall j dj, nth_error doms j = Some dj -> length (xd j) = fst dj) ->
  forall p ri, In p se -> nth_error rans (en_row (fst p)) = Some ri ->
               length (snd p (xd (en_col (fst p)))) = fst ri.
Proof.
  intros Hro HF Hx p ri Ip Er.
  destruct (proj1 (Forall_forall _ _) HF p Ip) as (dj & ri' & Ec & Er' & HD).
  rewrite Er in Er'. injection Er' as <-.
  eapply den_length; [exact Hro | exact HD | apply (Hx _ _ Ec)].
Qed.

(* ================= Operator.__call__ of a ProductSpaceOperator ================= *)
Lemma in_pspace_true (sps : list space) : forall (xs : list nat) (s : sR),
  length xs = length sps ->
  (forall k o sp, nth_error xs k = Some o -> nth_error sps k = Some sp -> exists d, rd s o = Some (sp, d)) ->
  in_pspace sps xs s = true.
Proof.
  induction sps as [|sp r IH]; intros [|x xs] s L H; cbn in L; try discriminate; [reflexivity|].
  cbn [in_pspace]. destruct (H 0%nat x sp eq_refl eq_refl) as (d & E).
  rewrite (in_space_elem _ _ _ _ E). cbn [andb]. apply IH; [lia|].
  intros k o sp' Ek Es. apply (H (S k) o sp' Ek Es).
Qed.

(* op(x, out=y) for product elements: returns the very parts of y, holding the rows *)
Theorem pso_call_in_place ro doms rans xs outs xd (se : list sent) (s : sR) :
  Forall (ent_ok ro doms rans) se -> outs_static ro rans xs outs -> args_ok ro doms xs xd s ->
  (forall i o ri, nth_error outs i = Some o -> nth_error rans i = Some ri -> exists d, rd s o = Some (ri, d)) ->
  (forall o, In o outs -> zero_safe s o) ->
  exists s', pso_call junk (map fst se) doms rans xs (Some outs) s = Ok outs s' /\
    (forall i o ri, nth_error outs i = Some o -> nth_error rans i = Some ri ->
        rd s' o = Some (ri, cl (ip_rows rans xd se i))) /\
    ext s s' outs /\ wf_store s'.
Proof.
  intros HF HO HA Hex Hz.
  destruct (pso_ip_ok ro doms rans xs outs xd se s HF HO HA Hex Hz) as (s' & Hip & R & E & W').
  destruct HA as (W & G & X & Lx). destruct HO as (ND & Lo & Ox & Oro).
  unfold pso_call.
  rewrite (bind_Ok _ _ s true s).
  2:{ f_equal. apply in_pspace_true; [exact Lx|]. intros k o sp Ek Es. eexists. apply (X k o sp Ek Es). }
  cbn [negb].
  rewrite (bind_Ok _ _ s true s) by (f_equal; apply in_pspace_true; [exact Lo | exact Hex]).
  cbn [negb]. rewrite (bind_Ok _ _ _ _ _ Hip). cbn [ret].
  exists s'. splits; [reflexivity | exact R | exact E | exact W'].
Qed.

(* ================= ComponentProjectionAdjoint in place ================= *)
Theorem cpadj_ip_ok i x (outs : list nat) (sps : list space) (s : sR) dx spi oi :
  wf_store s -> NoDup outs -> length outs = length sps -> ~ In x outs ->
  rd s x = Some (spi, cl dx) -> nth_error outs i = Some oi -> nth_error sps i = Some spi ->
  (forall k o sp, nth_error outs k = Some o -> nth_error sps k = Some sp ->
      (exists d, rd s o = Some (sp, d)) /\ zero_safe s o) ->
  exists s', cpadj_ip i x outs s = Ok tt s' /\ wf_store s' /\ ext s s' outs /\
    rd s' oi = Some (spi, cl dx) /\
    (forall k o sp, k <> i -> nth_error outs k = Some o -> nth_error sps k = Some sp ->
        rd s' o = Some (sp, cl (zvec sp))).
Proof.
  intros W ND L Nx Ex Eoi Espi H. unfold cpadj_ip.
  destruct (set_zero_all_ok outs sps s W ND L H) as (s1 & Hz & W1 & E1 & R1).
  rewrite (bind_Ok _ _ _ _ _ Hz). unfold nthid. rewrite Eoi. cbn [lift_opt].
  rewrite (bind_Ok _ _ s1 oi s1) by reflexivity.
  assert (Ex1 : rd s1 x = Some (spi, cl dx)) by (eapply ext_rd; [exact E1 | exact Ex | exact Nx]).
  rewrite (bind_Ok _ _ _ _ _ (data_of_eq _ _ _ _ Ex1)).
  pose proof (R1 i oi spi Eoi Espi) as Eo1.
  rewrite (set_data_eq _ _ _ _ (cl dx) Eo1).
  assert (Ioi : In oi outs) by (eapply nth_error_In; exact Eoi).
  eexists. splits; [reflexivity | | | |].
  - apply wf_upd; [exact W1 | apply (W1 _ _ _ Ex1)].
  - eapply ext_trans; [exact E1 | eapply ext_upd; exact Eo1 | intros k I; exact I | intros k _ [<-|[]]; exact Ioi].
  - apply rd_upd_same. eapply rd_lt; exact Eo1.
  - intros k o sp Nk Ek Esp.
    assert (No : o <> oi).
    { intros ->. apply Nk. eapply NoDup_nth_error; [exact ND | | congruence]. apply nth_error_Some. congruence. }
    rewrite rd_upd_other by exact No. apply (R1 k o sp Ek Esp).
Qed.

(* ================= Broadcast / Reduction / Diagonal are ProductSpaceOperators ================= *)
(* pair the k-th operator with its denotation: Forall2-style list of (tree, dom, ran, F) *)
Definition optup := (@op VR * space * space * (list R -> list R))%type.
Definition op_ok (ro : ro_t) (t : optup) : Prop :=
  let '(o, d, r, F) := t in den ro o d r [] F.

Lemma number_from_nth {A} (l : list A) : forall k i a,
  nth_error (number_from k l) i = Some a -> exists b, a = ((k + i)%nat, b) /\ nth_error l i = Some b.
Proof.
  induction l as [|x l IH]; intros k [|i] a E; cbn in E; try discriminate.
  - injection E as <-. exists x. split; [f_equal; lia | reflexivity].
  - destruct (IH (S k) i a E) as (b & -> & Eb). exists b. split; [f_equal; lia | exact Eb].
Qed.

(* BroadcastOperator(op_0, ..., op_{n-1}) with op_i : dom -> ran_i *)
Lemma broadcast_ent_ok ro dom (ts : list optup) :
  Forall (op_ok ro) ts -> Forall (fun t => snd (fst (fst t)) = dom) ts ->
  Forall (ent_ok ro [dom] (map (fun t => snd (fst t)) ts))
    (map (fun p => ({| en_row := fst p; en_col := 0; en_op := fst (fst (fst (snd p))) |}, snd (snd p)))
         (number_from 0 ts)).
Proof.
  intros Hok Hdom. apply Forall_forall. intros q Iq. apply in_map_iff in Iq as ([k t] & <- & Ik).
  apply In_nth_error in Ik as (i & Ei). destruct (number_from_nth ts 0 i _ Ei) as (b & Q & Eb).
  injection Q as -> ->. cbn [fst snd].
  pose proof (proj1 (Forall_forall _ _) Hok b (nth_error_In _ _ Eb)) as Hb.
  pose proof (proj1 (Forall_forall _ _) Hdom b (nth_error_In _ _ Eb)) as Hd.
  destruct b as [[[o d] r] F]. cbn in *. subst d.
  exists dom, r. splits; [reflexivity | | exact Hb].
  exact (map_nth_error (fun t : optup => snd (fst t)) i ts Eb).
Qed.

Definition bsent (ts : list optup) : list sent :=
  map (fun p => ({| en_row := fst p; en_col := 0; en_op := fst (fst (fst (snd p))) |}, snd (snd p)))
      (number_from 0 ts).
Lemma number_from_map {A B} (f : A -> B) (l : list A) : forall k,
  number_from k (map f l) = map (fun p => (fst p, f (snd p))) (number_from k l).
Proof. induction l as [|a l IH]; intros k; cbn; [reflexivity|]. rewrite IH. reflexivity. Qed.
Lemma bsent_entries (ts : list optup) :
  map fst (bsent ts) = broadcast_entries (map (fun t => fst (fst (fst t))) ts).
Proof.
  unfold bsent, broadcast_entries. rewrite number_from_map, !map_map. apply map_ext. intros [k t]. reflexivity.
Qed.

(* ================= the current source: set_zero is safe on every object ================= *)
Lemma zero_safe_now (s : sR) o : zero_safe s o.
Proof. left. exact small_branch_repaired. Qed.

Theorem pso_call_in_place_now ro doms rans xs outs xd (se : list sent) (s : sR) :
  Forall (ent_ok ro doms rans) se -> outs_static ro rans xs outs -> args_ok ro doms xs xd s ->
  (forall i o ri, nth_error outs i = Some o -> nth_error rans i = Some ri -> exists d, rd s o = Some (ri, d)) ->
  exists s', pso_call junk (map fst se) doms rans xs (Some outs) s = Ok outs s' /\
    (forall i o ri, nth_error outs i = Some o -> nth_error rans i = Some ri ->
        rd s' o = Some (ri, cl (oop_rows rans xd se i))) /\
    ext s s' outs /\ wf_store s'.
Proof.
  intros HF HO HA Hex.
  destruct (pso_call_in_place ro doms rans xs outs xd se s HF HO HA Hex (fun o _ => zero_safe_now s o))
    as (s' & Hc & R & E & W').
  exists s'. splits; [exact Hc | | exact E | exact W'].
  intros i o ri Ei Eri. rewrite (R i o ri Ei Eri). f_equal. f_equal. f_equal.
  destruct HA as (W & G & X & Lx).
  apply rows_agree; [|apply (proj1 (nth_error_Some rans i)); rewrite Eri; discriminate].
  apply (ents_lengths ro doms rans xd se (good_ro_wf ro s W G) HF).
  intros j dj Ed.
  destruct (nth_error xs j) as [xj|] eqn:Ex.
  - eapply wf_len; [exact W | apply (X j xj dj Ex Ed)].
  - exfalso. apply nth_error_None in Ex. assert (nth_error doms j <> None) by congruence.
    apply nth_error_Some in H. lia.
Qed.

Theorem cpadj_ip_now i x (outs : list nat) (sps : list space) (s : sR) dx spi oi :
  wf_store s -> NoDup outs -> length outs = length sps -> ~ In x outs ->
  rd s x = Some (spi, cl dx) -> nth_error outs i = Some oi -> nth_error sps i = Some spi ->
  (forall k o sp, nth_error outs k = Some o -> nth_error sps k = Some sp -> exists d, rd s o = Some (sp, d)) ->
  exists s', cpadj_ip i x outs s = Ok tt s' /\ wf_store s' /\ ext s s' outs /\
    rd s' oi = Some (spi, cl dx) /\
    (forall k o sp, k <> i -> nth_error outs k = Some o -> nth_error sps k = Some sp ->
        rd s' o = Some (sp, cl (zvec sp))).
Proof.
  intros W ND L Nx Ex Eoi Espi H. apply (cpadj_ip_ok i x outs sps s dx spi oi W ND L Nx Ex Eoi Espi).
  intros k o sp Ek Es. split; [apply (H k o sp Ek Es) | apply zero_safe_now].
Qed.
End PProofs.
