(* C03/Transfer.v -- the model executed by the correspondence shards (carrier
   [option Q]) is the rational restriction of the model the theorems are about
   (carrier [option R]): the whole interpreter -- element arithmetic, Operator.__call__,
   the bridges, the body language, operator trees, the product-space layer -- commutes
   with every homomorphism of the carrier class, and [option_map Q2R] is one. *)
From Coq Require Import ZArith QArith Qreals Reals Lra Lia List Bool Arith.
From Verif Require Import Base.Num Base.Vec Base.Transfer C03.Syntax Gen.C03Bodies C03.Poison C03.Model C03.PModel.
Import ListNotations.
Local Open Scope num_scope.

Section Hom.
Context {V W : Type} {HV : Num V} {HW : Num W}.
Variable f : V -> W.

Record num_hom : Prop := {
  h_zero : f nzero = nzero;
  h_one : f none_ = none_;
  h_add : forall a b, f (a + b) = f a + f b;
  h_sub : forall a b, f (a - b) = f a - f b;
  h_mul : forall a b, f (a * b) = f a * f b;
  h_div : forall a b, f (a / b) = f a / f b;
  h_opp : forall a, f (- a) = - f a;
  h_abs : forall a, f (nabs a) = nabs (f a);
  h_ltb : forall a b, nltb a b = nltb (f a) (f b);
  h_leb : forall a b, nleb a b = nleb (f a) (f b);
  h_eqb : forall a b, neqb a b = neqb (f a) (f b);
  h_ofZ : forall z, f (of_Z z) = of_Z z }.
Hypothesis Hf : num_hom.

Lemma h_ofQ (c : Q) : f (of_Q c) = of_Q c.
Proof. unfold of_Q. rewrite (h_div Hf), !(h_ofZ Hf). reflexivity. Qed.
Lemma h_max a b : f (nmax a b) = nmax (f a) (f b).
Proof. unfold nmax. rewrite <- (h_leb Hf). destruct (nleb a b); reflexivity. Qed.
Lemma h_min a b : f (nmin a b) = nmin (f a) (f b).
Proof. unfold nmin. rewrite <- (h_leb Hf). destruct (nleb a b); reflexivity. Qed.
Lemma h_nneqb a b : nneqb a b = nneqb (f a) (f b).
Proof. unfold nneqb. rewrite <- (h_eqb Hf). reflexivity. Qed.

(* ---- lists ---- *)
Notation mf := (map f).
Lemma vmap2_hom (g : V -> V -> V) (g' : W -> W -> W) (x y : list V) :
  (forall u v, f (g u v) = g' (f u) (f v)) -> mf (vmap2 g x y) = vmap2 g' (mf x) (mf y).
Proof.
  intros E; revert y; induction x as [|a x IH]; intros [|b y]; cbn; try reflexivity.
  rewrite E, IH. reflexivity.
Qed.
Lemma map_hom (g : V -> V) (g' : W -> W) (x : list V) :
  (forall u, f (g u) = g' (f u)) -> mf (map g x) = map g' (mf x).
Proof. intros E. rewrite !map_map. apply map_ext. exact E. Qed.
Lemma zeros_hom n : mf (zeros n) = zeros n.
Proof. unfold zeros. induction n; cbn; [reflexivity|]. rewrite (h_zero Hf), IHn. reflexivity. Qed.
Lemma sumf_hom (l : list V) : f (sumf l) = sumf (mf l).
Proof. induction l as [|a l IH]; cbn; [apply (h_zero Hf)|]. rewrite (h_add Hf), IH. reflexivity. Qed.
Lemma dot_hom (x y : list V) : f (dot x y) = dot (mf x) (mf y).
Proof.
  unfold dot, vmul. rewrite sumf_hom. f_equal. apply vmap2_hom. apply (h_mul Hf).
Qed.
Lemma vlin_hom a b x y : mf (vlin a x b y) = vlin (f a) (mf x) (f b) (mf y).
Proof. unfold vlin. apply vmap2_hom. intros u v. rewrite (h_add Hf), !(h_mul Hf). reflexivity. Qed.
Lemma scal_hom a x : mf (scal_ a x) = scal_ (f a) (mf x).
Proof. unfold scal_. apply map_hom. intros u. apply (h_mul Hf). Qed.
Lemma axpy_hom x1 x2 a : mf (axpy_ x1 x2 a) = axpy_ (mf x1) (mf x2) (f a).
Proof. unfold axpy_. apply vmap2_hom. intros u v. rewrite (h_add Hf), (h_mul Hf). reflexivity. Qed.

Lemma lincomb_tree_hom a b x1 x2 old o1 o2 e12 :
  mf (lincomb_tree a b x1 x2 old o1 o2 e12) = lincomb_tree (f a) (f b) (mf x1) (mf x2) (mf old) o1 o2 e12.
Proof.
  unfold lincomb_tree.
  rewrite <- !(h_zero Hf), <- !(h_one Hf).
  rewrite <- (h_nneqb b nzero).
  destruct (e12 && nneqb b nzero);
    rewrite <- ?(h_add Hf), <- ?h_nneqb, <- ?(h_eqb Hf), ?map_length;
    repeat match goal with
           | |- context [if ?c then _ else _] => destruct c
           end;
    repeat first [rewrite scal_hom | rewrite axpy_hom | rewrite zeros_hom | rewrite (h_add Hf)
                 | rewrite (h_zero Hf) | rewrite (h_one Hf)]; reflexivity.
Qed.
Lemma lincomb_small_hom g a b x1 x2 n :
  mf (lincomb_small g a b x1 x2 n) = lincomb_small g (f a) (f b) (mf x1) (mf x2) n.
Proof.
  unfold lincomb_small. rewrite <- !(h_zero Hf). destruct g;
    rewrite <- ?(h_eqb Hf);
    repeat match goal with |- context [if ?c then _ else _] => destruct c end;
    rewrite ?vlin_hom, ?zeros_hom, ?(h_zero Hf); try reflexivity;
    (apply map_hom; intros u; apply (h_mul Hf)).
Qed.
Lemma lincomb_data_hom g a b x1 x2 old o1 o2 e12 :
  mf (lincomb_data_g g a b x1 x2 old o1 o2 e12)
  = lincomb_data_g g (f a) (f b) (mf x1) (mf x2) (mf old) o1 o2 e12.
Proof.
  unfold lincomb_data_g. rewrite map_length. destruct (length old <? threshold_small)%nat.
  - apply lincomb_small_hom.
  - apply lincomb_tree_hom.
Qed.

(* ---- stores, values, outcomes ---- *)
Definition cmap (c : @cell V) : @cell W := (fst c, mf (snd c)).
Definition smap (s : @store V) : @store W := map cmap s.
Definition pvmap (v : @pyval V) : @pyval W :=
  match v with
  | VElem i => VElem i | VArr d => VArr (mf d) | VSc u => VSc (f u) | VNone => VNone | VJunk => VJunk
  end.
Definition omap {A B} (g : A -> B) (r : @outcome V A) : @outcome W B :=
  match r with Ok a s => Ok (g a) (smap s) | Err e s => Err e (smap s) end.
(* [m'] is [m] transported along f, results related by g *)
Definition comm {A B} (g : A -> B) (m : @M V A) (m' : @M W B) : Prop := forall s, omap g (m s) = m' (smap s).

Lemma comm_ret {A B} (g : A -> B) a : comm g (ret a) (ret (g a)).
Proof. intros s. reflexivity. Qed.
Lemma comm_fail {A B} (g : A -> B) e : comm g (fail e) (fail e).
Proof. intros s. reflexivity. Qed.
Lemma comm_bind {A B A' B'} (g : A -> A') (h : B -> B') m m' k k' :
  comm g m m' -> (forall a, comm h (k a) (k' (g a))) -> comm h (bind m k) (bind m' k').
Proof.
  intros Hm Hk s. unfold bind. rewrite <- Hm. destruct (m s) as [a s1|e s1]; cbn [omap]; [apply Hk | reflexivity].
Qed.
Lemma comm_ext {A B} (g : A -> B) m m1 m' : (forall s, m s = m1 s) -> comm g m1 m' -> comm g m m'.
Proof. intros E Hc s. rewrite E. apply Hc. Qed.

Lemma rd_smap s i : rd (smap s) i = option_map cmap (rd s i).
Proof. unfold rd, smap. apply nth_error_map. Qed.
Lemma upd_smap s i c : smap (upd s i c) = upd (smap s) i (cmap c).
Proof. revert i; induction s as [|a s IH]; intros [|i]; cbn; try reflexivity. rewrite IH. reflexivity. Qed.
Lemma smap_length s : length (smap s) = length s.
Proof. apply map_length. Qed.
Lemma smap_app s c : smap (s ++ [c]) = smap s ++ [cmap c].
Proof. unfold smap. rewrite map_app. reflexivity. Qed.

Variable junk : nat -> nat -> V.
Definition junk' : nat -> nat -> W := fun id k => f (junk id k).
Lemma junkbuf_hom id n : mf (junkbuf junk id n) = junkbuf junk' id n.
Proof. unfold junkbuf. rewrite map_map. reflexivity. Qed.

Lemma comm_alloc sp d : comm (fun i : nat => i) (alloc sp d) (alloc sp (mf d)).
Proof. intros s. unfold alloc. cbn [omap]. rewrite smap_app, smap_length. reflexivity. Qed.
Lemma comm_alloc_empty sp : comm (fun i : nat => i) (alloc_empty junk sp) (alloc_empty junk' sp).
Proof.
  intros s. unfold alloc_empty. rewrite (comm_alloc sp _ s). rewrite junkbuf_hom, smap_length. reflexivity.
Qed.

Ltac rdcases s i := rewrite (rd_smap s i); destruct (rd s i) as [[? ?]|]; cbn [option_map cmap fst snd omap].

Lemma comm_lincomb_g g a i1 b i2 o :
  comm (fun u : unit => u) (do_lincomb_g g a i1 b i2 o) (do_lincomb_g g (f a) i1 (f b) i2 o).
Proof.
  intros s. unfold do_lincomb_g. rdcases s i1; [|reflexivity]. rdcases s i2; [|reflexivity].
  rdcases s o; [|reflexivity].
  match goal with |- context [if ?c then _ else _] => destruct c end; cbn [omap]; [|reflexivity].
  rewrite upd_smap. unfold cmap. cbn [fst snd]. rewrite lincomb_data_hom. reflexivity.
Qed.
Lemma comm_lincomb a i1 b i2 o :
  comm (fun u : unit => u) (do_lincomb a i1 b i2 o) (do_lincomb (f a) i1 (f b) i2 o).
Proof. apply comm_lincomb_g. Qed.
Lemma comm_lincomb1 a i o : comm (fun u : unit => u) (do_lincomb1 a i o) (do_lincomb1 (f a) i o).
Proof. unfold do_lincomb1. rewrite <- (h_zero Hf). apply comm_lincomb. Qed.
Lemma comm_assign o i : comm (fun u : unit => u) (do_assign o i) (do_assign o i).
Proof. unfold do_assign. rewrite <- (h_one Hf). apply comm_lincomb1. Qed.
Lemma comm_set_zero o : comm (fun u : unit => u) (do_set_zero o) (do_set_zero o).
Proof. unfold do_set_zero. rewrite <- !(h_zero Hf). apply comm_lincomb. Qed.
Lemma comm_iadd o e : comm (fun u : unit => u) (do_iadd o e) (do_iadd o e).
Proof. unfold do_iadd. rewrite <- !(h_one Hf). apply comm_lincomb. Qed.
Lemma comm_iscal o a : comm (fun u : unit => u) (do_iscal o a) (do_iscal o (f a)).
Proof. unfold do_iscal. apply comm_lincomb1. Qed.
Lemma comm_multiply i1 i2 o : comm (fun u : unit => u) (do_multiply i1 i2 o) (do_multiply i1 i2 o).
Proof.
  intros s. unfold do_multiply. rdcases s i1; [|reflexivity]. rdcases s i2; [|reflexivity].
  rdcases s o; [|reflexivity].
  match goal with |- context [if ?c then _ else _] => destruct c end; cbn [omap]; [|reflexivity].
  rewrite upd_smap. unfold cmap, vmul. cbn [fst snd]. rewrite (vmap2_hom nmul nmul) by apply (h_mul Hf). reflexivity.
Qed.
Lemma comm_divide i1 i2 o : comm (fun u : unit => u) (do_divide i1 i2 o) (do_divide i1 i2 o).
Proof.
  intros s. unfold do_divide. rdcases s i1; [|reflexivity]. rdcases s i2; [|reflexivity].
  rdcases s o; [|reflexivity].
  match goal with |- context [if ?c then _ else _] => destruct c end; cbn [omap]; [|reflexivity].
  rewrite upd_smap. unfold cmap, vdiv. cbn [fst snd]. rewrite (vmap2_hom ndiv ndiv) by apply (h_div Hf). reflexivity.
Qed.
Lemma comm_map (g : V -> V) (g' : W -> W) i o : (forall u, f (g u) = g' (f u)) ->
  comm (fun u : unit => u) (do_map g i o) (do_map g' i o).
Proof.
  intros E s. unfold do_map. rdcases s i; [|reflexivity]. rdcases s o; [|reflexivity].
  match goal with |- context [if ?c then _ else _] => destruct c end; cbn [omap]; [|reflexivity].
  rewrite upd_smap. unfold cmap. cbn [fst snd]. rewrite (map_hom g g') by exact E. reflexivity.
Qed.
Lemma comm_copy i : comm (fun k : nat => k) (do_copy i) (do_copy i).
Proof. intros s. unfold do_copy. rdcases s i; [apply comm_alloc | reflexivity]. Qed.
Lemma comm_space_of i : comm (fun sp : space => sp) (space_of i) (space_of i).
Proof. intros s. unfold space_of. rdcases s i; reflexivity. Qed.
Lemma comm_data_of i : comm mf (data_of i) (data_of i).
Proof. intros s. unfold data_of. rdcases s i; reflexivity. Qed.
Lemma comm_set_data i d : comm (fun u : unit => u) (set_data i d) (set_data i (mf d)).
Proof. intros s. unfold set_data. rdcases s i; [rewrite upd_smap; reflexivity | reflexivity]. Qed.

Lemma in_space_smap sp v s : in_space sp (pvmap v) (smap s) = in_space sp v s.
Proof. destruct v; cbn; try reflexivity. rewrite rd_smap. destruct (rd s i) as [[? ?]|]; reflexivity. Qed.
Lemma in_rsp_smap r v s : in_rsp r (pvmap v) (smap s) = in_rsp r v s.
Proof. destruct r; cbn [in_rsp]; [apply in_space_smap | destruct v; reflexivity]. Qed.

(* ---- casting, out-of-place arithmetic ---- *)
Definition opv (o : option (@pyval V)) : option (@pyval W) := option_map pvmap o.
Lemma comm_cast_space sp v : comm opv (cast_space junk sp v) (cast_space junk' sp (pvmap v)).
Proof.
  intros s. unfold cast_space. destruct v as [i|d|u| |]; cbn [pvmap]; try reflexivity.
  - rdcases s i; [|reflexivity].
    match goal with |- context [if ?c then _ else _] => destruct c end; [reflexivity|].
    match goal with |- context [if ?c then _ else _] => destruct c end; [|reflexivity].
    rewrite <- (comm_alloc sp _ s). unfold alloc. reflexivity.
  - rewrite map_length. destruct (length d =? fst sp)%nat; [|reflexivity].
    rewrite <- (comm_alloc sp d s). unfold alloc. reflexivity.
  - rewrite <- (comm_alloc_empty sp s). unfold alloc_empty, alloc. reflexivity.
Qed.
Lemma comm_cast_rsp r v : comm opv (cast_rsp junk r v) (cast_rsp junk' r (pvmap v)).
Proof.
  destruct r; cbn [cast_rsp]; [apply comm_cast_space|]. destruct v; intros s; reflexivity.
Qed.

Lemma comm_new_add i j : comm pvmap (new_add junk i j) (new_add junk' i j).
Proof.
  unfold new_add. eapply comm_bind; [apply comm_space_of|]. intros sp.
  eapply comm_bind; [apply comm_alloc_empty|]. intros t.
  rewrite <- !(h_one Hf). eapply comm_bind; [apply comm_lincomb|]. intros _. apply (comm_ret pvmap (VElem t)).
Qed.
Lemma comm_new_sub i j : comm pvmap (new_sub junk i j) (new_sub junk' i j).
Proof.
  unfold new_sub. eapply comm_bind; [apply comm_space_of|]. intros sp.
  eapply comm_bind; [apply comm_alloc_empty|]. intros t.
  rewrite <- !(h_one Hf), <- (h_opp Hf). eapply comm_bind; [apply comm_lincomb|]. intros _.
  apply (comm_ret pvmap (VElem t)).
Qed.
Lemma comm_new_mul j i : comm pvmap (new_mul junk j i) (new_mul junk' j i).
Proof.
  unfold new_mul. eapply comm_bind; [apply comm_space_of|]. intros sp.
  eapply comm_bind; [apply comm_alloc_empty|]. intros t.
  eapply comm_bind; [apply comm_multiply|]. intros _. apply (comm_ret pvmap (VElem t)).
Qed.
Lemma comm_new_scaled u i : comm pvmap (new_scaled junk u i) (new_scaled junk' (f u) i).
Proof.
  unfold new_scaled. eapply comm_bind; [apply comm_space_of|]. intros sp.
  eapply comm_bind; [apply comm_alloc_empty|]. intros t.
  eapply comm_bind; [apply comm_lincomb1|]. intros _. apply (comm_ret pvmap (VElem t)).
Qed.
Lemma comm_new_abs i : comm pvmap (new_abs junk i) (new_abs junk' i).
Proof.
  unfold new_abs. eapply comm_bind; [apply comm_space_of|]. intros sp.
  eapply comm_bind; [apply comm_alloc_empty|]. intros t.
  eapply comm_bind; [apply (comm_map nabs nabs); apply (h_abs Hf)|]. intros _. apply (comm_ret pvmap (VElem t)).
Qed.

(* ---- Operator.__call__ and the bridges ---- *)
Definition ip_rel (ip : @pyval V -> @pyval V -> @M V (@pyval V)) (ip' : @pyval W -> @pyval W -> @M W (@pyval W)) : Prop :=
  forall x y, comm pvmap (ip x y) (ip' (pvmap x) (pvmap y)).
Definition oop_rel (oop : @pyval V -> @M V (@pyval V)) (oop' : @pyval W -> @M W (@pyval W)) : Prop :=
  forall x, comm pvmap (oop x) (oop' (pvmap x)).

Lemma comm_test {A} (t : @store V -> A) (t' : @store W -> A) :
  (forall s, t' (smap s) = t s) -> comm (fun a : A => a) (fun s => Ok (t s) s) (fun s => Ok (t' s) s).
Proof. intros E s. cbn [omap]. rewrite E. reflexivity. Qed.

Lemma comm_public_call dom ran ip ip' oop oop' x out :
  ip_rel ip ip' -> oop_rel oop oop' ->
  comm pvmap (public_call junk dom ran ip oop x out) (public_call junk' dom ran ip' oop' (pvmap x) (opv out)).
Proof.
  intros Hip Hoop. unfold public_call.
  eapply comm_bind; [apply (comm_test (in_space dom x) (in_space dom (pvmap x))); intros s; apply in_space_smap|].
  intros inx. eapply comm_bind with (g := opv).
  { destruct inx; [apply (comm_ret opv (Some x)) | apply comm_cast_space]. }
  intros [x'|]; cbn [opv option_map]; [|apply comm_fail].
  destruct out as [y|]; cbn [opv option_map].
  - eapply comm_bind; [apply (comm_test (in_rsp ran y) (in_rsp ran (pvmap y))); intros s; apply in_rsp_smap|].
    intros iny. destruct (negb iny); [apply comm_fail|]. destruct ran; [|apply comm_fail].
    eapply comm_bind; [apply Hip|]. intros r.
    destruct r, y; cbn [pvmap]; try apply comm_fail; try apply (comm_ret pvmap).
    destruct (i =? i0)%nat; [apply (comm_ret pvmap (VElem i0)) | apply comm_fail].
  - eapply comm_bind; [apply Hoop|]. intros r.
    eapply comm_bind; [apply (comm_test (in_rsp ran r) (in_rsp ran (pvmap r))); intros s; apply in_rsp_smap|].
    intros inr. destruct inr; [apply comm_ret|].
    eapply comm_bind; [apply comm_cast_rsp|]. intros [r'|]; cbn [opv option_map]; [apply comm_ret | apply comm_fail].
Qed.

Lemma default_oop_rel ran ip ip' : ip_rel ip ip' -> oop_rel (default_oop junk ran ip) (default_oop junk' ran ip').
Proof.
  intros Hip x. unfold default_oop. destruct ran; [|apply comm_fail].
  eapply comm_bind; [apply comm_alloc_empty|]. intros o.
  eapply comm_bind; [apply (Hip x (VElem o))|]. intros r.
  destruct r; cbn [pvmap]; try apply comm_fail; try apply (comm_ret pvmap (VElem o)).
  destruct (i =? o)%nat; [apply (comm_ret pvmap (VElem o)) | apply comm_fail].
Qed.
Lemma default_ip_rel ran oop oop' : oop_rel oop oop' -> ip_rel (default_ip junk ran oop) (default_ip junk' ran oop').
Proof.
  intros Hoop x out. unfold default_ip.
  eapply comm_bind; [apply Hoop|]. intros r.
  eapply comm_bind; [apply comm_cast_rsp|]. intros [r'|]; cbn [opv option_map].
  - destruct r', out; cbn [pvmap]; try apply comm_fail.
    eapply comm_bind; [apply comm_assign|]. intros _. apply (comm_ret pvmap VNone).
  - apply comm_fail.
Qed.

(* ---- the body interpreter ---- *)
Record sem_rel (K : @opsem V) (K' : @opsem W) : Prop := {
  sr_dom : o_dom K' = o_dom K;
  sr_ran : o_ran K' = o_ran K;
  sr_call : forall x out, comm pvmap (o_call K x out) (o_call K' (pvmap x) (opv out)) }.

Definition imap (I : @inst V) (kids' : list (@opsem W)) : @inst W :=
  {| i_dom := i_dom I; i_ran := i_ran I; i_pars := mf (i_pars I); i_vecs := i_vecs I; i_owns := i_owns I;
     i_kids := kids' |}.
Definition emap (e : @env V) : @env W :=
  {| e_x := pvmap (e_x e); e_out := opv (e_out e);
     e_tmp := map (fun p => (fst p, pvmap (snd p))) (e_tmp e);
     e_sc := map (fun p => (fst p, f (snd p))) (e_sc e); e_last := pvmap (e_last e) |}.

Lemma assoc_map {A B} (g : A -> B) k (l : list (nat * A)) :
  assoc k (map (fun p => (fst p, g (snd p))) l) = option_map g (assoc k l).
Proof. induction l as [|[k' a] l IH]; cbn; [reflexivity|]. destruct (k =? k')%nat; [reflexivity | exact IH]. Qed.
Lemma comm_lift_opt {A B} (g : A -> B) (o : option A) : comm g (lift_opt o) (lift_opt (option_map g o)).
Proof. destruct o; [apply comm_ret | apply comm_fail]. Qed.
Lemma comm_lift_opt_id {A} (o : option A) : comm (fun a : A => a) (lift_opt o) (lift_opt o).
Proof. destruct o; [apply (comm_ret (fun a : A => a)) | apply comm_fail]. Qed.
Lemma comm_elem_id v : comm (fun i : nat => i) (elem_id v) (elem_id (pvmap v)).
Proof. destruct v; cbn [pvmap elem_id]; try apply comm_fail. apply (comm_ret (fun i : nat => i) i). Qed.

Lemma Forall2_nth {A B} (Rel : A -> B -> Prop) (l : list A) (l' : list B) :
  Forall2 Rel l l' -> forall c, match nth_error l c, nth_error l' c with
                               | Some a, Some b => Rel a b
                               | None, None => True
                               | _, _ => False
                               end.
Proof. induction 1 as [|a b l l' Hab _ IH]; intros [|c]; cbn [nth_error]; auto; apply IH. Qed.

Section Interp.
Variables (I : @inst V) (kids' : list (@opsem W)).
Hypothesis Hk : Forall2 sem_rel (i_kids I) kids'.
Let I' := imap I kids'.

Lemma kids_nth c : match nth_error (i_kids I) c, nth_error kids' c with
                   | Some K, Some K' => sem_rel K K'
                   | None, None => True
                   | _, _ => False
                   end.
Proof. apply Forall2_nth. exact Hk. Qed.
Lemma lookup_hom e r : lookup I' (emap e) r = opv (lookup I e r).
Proof.
  destruct r; cbn [lookup emap e_x e_out e_tmp I' imap i_vecs opv option_map]; try reflexivity.
  - apply assoc_map.
  - destruct (nth_error (i_vecs I) k); reflexivity.
Qed.
Lemma eval_scal_hom e c : eval_scal I' (emap e) c = option_map f (eval_scal I e c).
Proof.
  induction c as [q|k|k|a IHa b IHb|a IHa b IHb|a IHa b IHb|a IHa b IHb|a IHa]; cbn [eval_scal].
  - cbn. rewrite h_ofQ. reflexivity.
  - cbn [I' imap i_pars]. apply nth_error_map.
  - cbn [emap e_sc]. apply (assoc_map f).
  - rewrite IHa, IHb. destruct (eval_scal I e a), (eval_scal I e b); cbn; rewrite ?(h_add Hf); reflexivity.
  - rewrite IHa, IHb. destruct (eval_scal I e a), (eval_scal I e b); cbn; rewrite ?(h_sub Hf); reflexivity.
  - rewrite IHa, IHb. destruct (eval_scal I e a), (eval_scal I e b); cbn; rewrite ?(h_mul Hf); reflexivity.
  - rewrite IHa, IHb. destruct (eval_scal I e a), (eval_scal I e b); cbn; rewrite ?(h_div Hf); reflexivity.
  - rewrite IHa. destruct (eval_scal I e a); cbn; rewrite ?(h_opp Hf); reflexivity.
Qed.
Lemma sel_space_hom sp : sel_space I' sp = sel_space I sp.
Proof.
  destruct sp as [| |c|c]; cbn [sel_space I' imap i_dom i_ran i_kids]; try reflexivity;
    pose proof (kids_nth c) as Hc; destruct (nth_error (i_kids I) c), (nth_error kids' c); try contradiction;
    try reflexivity; destruct Hc as [Hd Hr _]; rewrite ?Hd, ?Hr; reflexivity.
Qed.
Lemma comm_kid_call c x out :
  comm pvmap (bind (lift_opt (nth_error (i_kids I) c)) (fun k => o_call k x out))
             (bind (lift_opt (nth_error kids' c)) (fun k => o_call k (pvmap x) (opv out))).
Proof.
  pose proof (kids_nth c) as Hc. destruct (nth_error (i_kids I) c) as [K|], (nth_error kids' c) as [K'|];
    try contradiction; cbn [lift_opt].
  - intros s. unfold bind, ret. apply (sr_call _ _ Hc).
  - intros s. reflexivity.
Qed.

Lemma comm_eval_ex e x : comm pvmap (eval_ex junk I e x) (eval_ex junk' I' (emap e) x).
Proof.
  induction x as [r|c a IH|a IHa b IHb|a IHa b IHb|c a IH|sp|k a IH|sp|a IH|a IHa b IHb|a IH]; cbn [eval_ex].
  - rewrite lookup_hom. apply comm_lift_opt.
  - eapply comm_bind; [exact IH|]. intros va. apply (comm_kid_call c va None).
  - eapply comm_bind; [exact IHa|]. intros va. eapply comm_bind; [exact IHb|]. intros vb.
    destruct va, vb; cbn [pvmap]; try apply comm_fail.
    + apply comm_new_add.
    + rewrite <- (h_add Hf). apply (comm_ret pvmap (VSc _)).
  - eapply comm_bind; [exact IHa|]. intros va. eapply comm_bind; [exact IHb|]. intros vb.
    destruct va, vb; cbn [pvmap]; try apply comm_fail.
    + apply comm_new_mul.
    + apply comm_new_scaled.
    + apply comm_new_scaled.
    + rewrite <- (h_mul Hf). apply (comm_ret pvmap (VSc _)).
  - eapply comm_bind; [exact IH|]. intros va. rewrite eval_scal_hom.
    eapply comm_bind; [apply (comm_lift_opt f)|]. intros u.
    destruct va; cbn [pvmap]; try apply comm_fail.
    + apply comm_new_scaled.
    + rewrite <- (h_mul Hf). apply (comm_ret pvmap (VSc _)).
  - rewrite sel_space_hom. eapply comm_bind; [apply comm_lift_opt_id|].
    intros p. eapply comm_bind; [apply comm_alloc_empty|]. intros t.
    apply (comm_ret pvmap (VElem t)).
  - cbn [I' imap i_owns]. destruct (nth_error (i_owns I) k) as [[i|]|]; try exact IH.
    apply (comm_ret pvmap (VElem i)).
  - rewrite sel_space_hom. eapply comm_bind; [apply comm_lift_opt_id|].
    intros p. pose proof (comm_alloc p (zeros (fst p))) as Ha. rewrite zeros_hom in Ha.
    eapply comm_bind; [exact Ha|]. intros t. apply (comm_ret pvmap (VElem t)).
  - eapply comm_bind; [exact IH|]. intros va. eapply comm_bind; [apply comm_elem_id|]. intros i.
    eapply comm_bind; [apply comm_copy|]. intros t. apply (comm_ret pvmap (VElem t)).
  - eapply comm_bind; [exact IHa|]. intros va. eapply comm_bind; [exact IHb|]. intros vb.
    destruct va, vb; cbn [pvmap]; try apply comm_fail.
    + apply comm_new_sub.
    + rewrite <- (h_sub Hf). apply (comm_ret pvmap (VSc _)).
  - eapply comm_bind; [exact IH|]. intros va. eapply comm_bind; [apply comm_elem_id|]. intros i.
    apply comm_new_abs.
Qed.

Lemma comm_ref_id e r : comm (fun i : nat => i) (ref_id I e r) (ref_id I' (emap e) r).
Proof.
  unfold ref_id. rewrite lookup_hom. eapply comm_bind; [apply (comm_lift_opt pvmap)|]. intros v. apply comm_elem_id.
Qed.
Lemma bindref_hom e r v : bindref (emap e) r (pvmap v) = option_map emap (bindref e r v).
Proof. destruct r; reflexivity. Qed.

Lemma comm_exec_st e t : comm emap (exec_st junk I e t) (exec_st junk' I' (emap e) t).
Proof.
  destruct t as [r x|k c a|c a o|o a x1 bx|o x|o x|o c|x1 x2 o|o x|o|x o|x c o|x c o|o c|x1 x2 o]; cbn [exec_st].
  - eapply comm_bind; [apply comm_eval_ex|]. intros v. rewrite bindref_hom. apply comm_lift_opt.
  - eapply comm_bind; [apply comm_eval_ex|]. intros va.
    pose proof (comm_kid_call c va None) as Hc.
    (* lift_opt kid ;; call ;; match *)
    unfold I'. cbn [imap i_kids]. intros s. unfold bind in *. specialize (Hc s).
    pose proof (kids_nth c) as Hn.
    destruct (nth_error (i_kids I) c) as [K|], (nth_error kids' c) as [K'|]; try contradiction; cbn [lift_opt ret fail omap] in *;
      [|reflexivity].
    cbn [opv option_map] in Hc. rewrite <- Hc.
    destruct (o_call K va None s) as [r s1|]; cbn [omap]; [|reflexivity].
    destruct r; reflexivity.
  - rewrite !lookup_hom. eapply comm_bind; [apply (comm_lift_opt pvmap)|]. intros va.
    eapply comm_bind; [apply (comm_lift_opt pvmap)|]. intros vo.
    pose proof (comm_kid_call c va (Some vo)) as Hc.
    unfold I'. cbn [imap i_kids]. intros s. unfold bind in *. specialize (Hc s).
    pose proof (kids_nth c) as Hn.
    destruct (nth_error (i_kids I) c) as [K|], (nth_error kids' c) as [K'|]; try contradiction; cbn [lift_opt ret fail omap] in *;
      [|reflexivity].
    cbn [opv option_map] in Hc. rewrite <- Hc.
    destruct (o_call K va (Some vo) s) as [r s1|]; reflexivity.
  - eapply comm_bind; [apply comm_ref_id|]. intros io. eapply comm_bind; [apply comm_ref_id|]. intros i1.
    rewrite eval_scal_hom. eapply comm_bind; [apply (comm_lift_opt f)|]. intros u.
    destruct bx as [[b x2]|].
    + eapply comm_bind; [apply comm_ref_id|]. intros i2.
      rewrite eval_scal_hom. eapply comm_bind; [apply (comm_lift_opt f)|]. intros w.
      eapply comm_bind; [apply comm_lincomb|]. intros _. apply comm_ret.
    + eapply comm_bind; [apply comm_lincomb1|]. intros _. apply comm_ret.
  - eapply comm_bind; [apply comm_ref_id|]. intros io. eapply comm_bind; [apply comm_ref_id|]. intros ix.
    eapply comm_bind; [apply comm_iadd|]. intros _. apply comm_ret.
  - eapply comm_bind; [apply comm_ref_id|]. intros io. eapply comm_bind; [apply comm_ref_id|]. intros ix.
    eapply comm_bind; [apply comm_multiply|]. intros _. apply comm_ret.
  - eapply comm_bind; [apply comm_ref_id|]. intros io.
    rewrite eval_scal_hom. eapply comm_bind; [apply (comm_lift_opt f)|]. intros u.
    eapply comm_bind; [apply comm_iscal|]. intros _. apply comm_ret.
  - eapply comm_bind; [apply comm_ref_id|]. intros i1. eapply comm_bind; [apply comm_ref_id|]. intros i2.
    eapply comm_bind; [apply comm_ref_id|]. intros io.
    eapply comm_bind; [apply comm_multiply|]. intros _. apply comm_ret.
  - eapply comm_bind; [apply comm_ref_id|]. intros io. eapply comm_bind; [apply comm_eval_ex|]. intros v.
    eapply comm_bind; [apply comm_elem_id|]. intros i.
    eapply comm_bind; [apply comm_assign|]. intros _. apply comm_ret.
  - eapply comm_bind; [apply comm_ref_id|]. intros io.
    eapply comm_bind; [apply comm_set_zero|]. intros _. apply comm_ret.
  - eapply comm_bind; [apply comm_ref_id|]. intros ix. eapply comm_bind; [apply comm_ref_id|]. intros io.
    eapply comm_bind; [apply (comm_map nabs nabs); apply (h_abs Hf)|]. intros _. apply comm_ret.
  - eapply comm_bind; [apply comm_ref_id|]. intros ix. eapply comm_bind; [apply comm_ref_id|]. intros io.
    rewrite eval_scal_hom. eapply comm_bind; [apply (comm_lift_opt f)|]. intros u.
    eapply comm_bind; [apply (comm_map (fun v => nmax v u) (fun v => nmax v (f u))); intros v; apply h_max|].
    intros _. apply comm_ret.
  - eapply comm_bind; [apply comm_ref_id|]. intros ix. eapply comm_bind; [apply comm_ref_id|]. intros io.
    rewrite eval_scal_hom. eapply comm_bind; [apply (comm_lift_opt f)|]. intros u.
    eapply comm_bind; [apply (comm_map (fun v => nmin v u) (fun v => nmin v (f u))); intros v; apply h_min|].
    intros _. apply comm_ret.
  - eapply comm_bind; [apply comm_ref_id|]. intros io.
    rewrite eval_scal_hom. eapply comm_bind; [apply (comm_lift_opt f)|]. intros u.
    rewrite <- (h_one Hf), <- (h_div Hf).
    eapply comm_bind; [apply comm_iscal|]. intros _. apply comm_ret.
  - eapply comm_bind; [apply comm_ref_id|]. intros i1. eapply comm_bind; [apply comm_ref_id|]. intros i2.
    eapply comm_bind; [apply comm_ref_id|]. intros io.
    eapply comm_bind; [apply comm_divide|]. intros _. apply comm_ret.
Qed.

Lemma comm_exec_sts l : forall e, comm emap (exec_sts junk I e l) (exec_sts junk' I' (emap e) l).
Proof.
  induction l as [|t l IH]; intros e; cbn [exec_sts]; [apply comm_ret|].
  eapply comm_bind; [apply comm_exec_st|]. intros e'. apply IH.
Qed.
Lemma comm_exec_body b x out :
  comm pvmap (exec_body junk I b x out) (exec_body junk' I' b (pvmap x) (opv out)).
Proof.
  unfold exec_body.
  eapply comm_bind; [apply (comm_exec_sts (b_st b) {| e_x := x; e_out := out; e_tmp := []; e_sc := []; e_last := VNone |})|].
  intros e. destruct (b_ret b).
  - apply (comm_ret pvmap VNone).
  - rewrite lookup_hom. apply comm_lift_opt.
  - apply (comm_ret pvmap (e_last e)).
  - apply comm_eval_ex.
Qed.
End Interp.

(* ---- classes, leaves, trees ---- *)
Lemma slots_rel k ran roop roop' rip rip' :
  oop_rel roop roop' -> ip_rel rip rip' ->
  ip_rel (fst (slots junk k ran roop rip)) (fst (slots junk' k ran roop' rip')) /\
  oop_rel (snd (slots junk k ran roop rip)) (snd (slots junk' k ran roop' rip')).
Proof.
  intros Ho Hi. destruct k; cbn [slots fst snd]; split; auto using default_ip_rel, default_oop_rel.
Qed.
Lemma cls_sem_rel c (I : @inst V) kids' :
  Forall2 sem_rel (i_kids I) kids' -> sem_rel (cls_sem junk c I) (cls_sem junk' c (imap I kids')).
Proof.
  intros Hk. unfold cls_sem. cbn [imap i_ran i_dom].
  pose proof (slots_rel (c_kind c) (i_ran I)
                (fun x => exec_body junk I (c_oop c) x None)
                (fun x => exec_body junk' (imap I kids') (c_oop c) x None)
                (fun x o => exec_body junk I (c_ip c) x (Some o))
                (fun x o => exec_body junk' (imap I kids') (c_ip c) x (Some o))) as Hs.
  destruct (slots junk (c_kind c) (i_ran I) _ _) as [ip oop].
  destruct (slots junk' (c_kind c) (i_ran I) _ _) as [ip' oop'].
  cbn [fst snd] in Hs. destruct Hs as [Hi Ho].
  - intros x. apply (comm_exec_body I kids' Hk (c_oop c) x None).
  - intros x o. apply (comm_exec_body I kids' Hk (c_ip c) x (Some o)).
  - constructor; cbn [o_dom o_ran o_call]; try reflexivity.
    intros x out. apply comm_public_call; assumption.
Qed.

Definition pfmap (p : @pfun V) : @pfun W :=
  match p with
  | PMat m => PMat (map mf m) | PAbs => PAbs | PSquare => PSquare | PIdent => PIdent
  | PConst d => PConst (mf d) | PInner w => PInner (mf w) | PSumSq => PSumSq
  end.
Definition lfmap (l : @leaf V) : @leaf W :=
  {| lf_kind := lf_kind l; lf_fun := pfmap (lf_fun l); lf_alias := lf_alias l; lf_quirk := lf_quirk l |}.
Lemma pf_vec_hom p d : mf (pf_vec p d) = pf_vec (pfmap p) (mf d).
Proof.
  destruct p; cbn [pf_vec pfmap]; try reflexivity.
  - unfold mvec. rewrite !map_map. apply map_ext. intros r. apply dot_hom.
  - apply map_hom. apply (h_abs Hf).
  - apply map_hom. intros u. apply (h_mul Hf).
Qed.
Lemma pf_scalar_hom p d : pf_scalar (pfmap p) (mf d) = option_map f (pf_scalar p d).
Proof. destruct p; cbn [pf_scalar pfmap option_map]; try reflexivity; rewrite dot_hom; reflexivity. Qed.

Lemma leaf_oop_rel l : oop_rel (leaf_raw_oop l) (leaf_raw_oop (lfmap l)).
Proof.
  intros x. unfold leaf_raw_oop. cbn [lfmap lf_quirk lf_fun lf_alias].
  eapply comm_bind; [apply comm_elem_id|]. intros i.
  eapply comm_bind; [apply comm_data_of|]. intros d.
  eapply comm_bind with (g := fun u : unit => u).
  { destruct (lf_quirk l); try apply (comm_ret (fun u : unit => u) tt).
    rewrite map_length. pose proof (comm_set_data i (zeros (length d))) as Hs. rewrite zeros_hom in Hs. exact Hs. }
  intros _. rewrite pf_scalar_hom. destruct (pf_scalar (lf_fun l) d); cbn [option_map].
  - apply (comm_ret pvmap (VSc v)).
  - destruct (lf_alias l); [apply comm_ret|]. rewrite <- pf_vec_hom. apply (comm_ret pvmap (VArr _)).
Qed.
Lemma leaf_ip_rel l : ip_rel (leaf_raw_ip l) (leaf_raw_ip (lfmap l)).
Proof.
  intros x out. unfold leaf_raw_ip. cbn [lfmap lf_quirk lf_fun lf_alias].
  eapply comm_bind; [apply comm_elem_id|]. intros i.
  eapply comm_bind; [apply comm_elem_id|]. intros o.
  eapply comm_bind; [apply comm_data_of|]. intros d.
  eapply comm_bind; [apply comm_data_of|]. intros old.
  eapply comm_bind with (g := fun u : unit => u).
  { rewrite <- pf_vec_hom.
    destruct (lf_quirk l); try apply comm_set_data.
    pose proof (comm_set_data o (vadd old (pf_vec (lf_fun l) d))) as Hs.
    unfold vadd in Hs. rewrite (vmap2_hom nadd nadd) in Hs by apply (h_add Hf). exact Hs. }
  intros _.
  eapply comm_bind with (g := fun u : unit => u).
  { destruct (lf_quirk l); try apply (comm_ret (fun u : unit => u) tt).
    rewrite map_length. pose proof (comm_set_data i (zeros (length d))) as Hs. rewrite zeros_hom in Hs. exact Hs. }
  intros _. destruct (lf_quirk l); try apply (comm_ret pvmap VNone). apply comm_ret.
Qed.
Lemma leaf_sem_rel l dom ran : sem_rel (leaf_sem junk l dom ran) (leaf_sem junk' (lfmap l) dom ran).
Proof.
  unfold leaf_sem. cbn [lfmap lf_kind].
  pose proof (slots_rel (lf_kind l) ran (leaf_raw_oop l) (leaf_raw_oop (lfmap l))
                (leaf_raw_ip l) (leaf_raw_ip (lfmap l)) (leaf_oop_rel l) (leaf_ip_rel l)) as [Hi Ho].
  destruct (slots junk (lf_kind l) ran _ _) as [ip oop].
  destruct (slots junk' (lf_kind l) ran _ _) as [ip' oop'].
  cbn [fst snd] in Hi, Ho. constructor; cbn [o_dom o_ran o_call]; try reflexivity.
  intros x out. apply comm_public_call; assumption.
Qed.

Fixpoint opmap (o : @op V) : @op W :=
  match o with
  | Op c dom ran pars vecs owns kids => Op c dom ran (mf pars) vecs owns (map opmap kids)
  | Lf l dom ran => Lf (lfmap l) dom ran
  end.

Lemma sem_transfer : forall o, sem_rel (sem junk o) (sem junk' (opmap o)).
Proof.
  fix IH 1. intros [c dom ran pars vecs owns kids | l dom ran].
  - cbn [sem opmap]. rewrite map_map.
    assert (Hk : Forall2 sem_rel (map (sem junk) kids) (map (fun k => sem junk' (opmap k)) kids)).
    { refine ((fix F (l : list (@op V)) : Forall2 sem_rel (map (sem junk) l) (map (fun k => sem junk' (opmap k)) l) :=
                 match l with
                 | [] => Forall2_nil _
                 | k :: r => Forall2_cons _ _ (IH k) (F r)
                 end) kids). }
    exact (cls_sem_rel c {| i_dom := dom; i_ran := ran; i_pars := pars; i_vecs := vecs; i_owns := owns;
                            i_kids := map (sem junk) kids |} _ Hk).
  - cbn [sem opmap]. apply leaf_sem_rel.
Qed.

(* op(x) / op(x, out=y) computed at carrier V, transported along f, IS the call at carrier W *)
Theorem call_transfer o x out s :
  omap pvmap (call junk o x out s) = call junk' (opmap o) (pvmap x) (opv out) (smap s).
Proof. unfold call. apply (sr_call _ _ (sem_transfer o)). Qed.

(* ---- the product-space layer (C03/PModel.v) ---- *)
Definition entmap (e : @entry V) : @entry W :=
  {| en_row := en_row e; en_col := en_col e; en_op := opmap (en_op e) |}.
Notation idl := (fun l : list nat => l).
Notation idu := (fun u : unit => u).

Lemma comm_nthid l i : comm (fun k : nat => k) (nthid l i) (nthid l i).
Proof. unfold nthid. apply comm_lift_opt_id. Qed.
Lemma comm_alloc_zeros sps : comm idl (alloc_zeros sps) (alloc_zeros sps).
Proof.
  induction sps as [|sp r IH]; cbn [alloc_zeros]; [apply (comm_ret idl [])|].
  pose proof (comm_alloc sp (zeros (fst sp))) as Ha. rewrite zeros_hom in Ha.
  eapply comm_bind; [exact Ha|]. intros t. eapply comm_bind; [exact IH|]. intros l. apply (comm_ret idl (t :: l)).
Qed.
Lemma comm_call o x out : comm pvmap (call junk o x out) (call junk' (opmap o) (pvmap x) (opv out)).
Proof. intros s. apply call_transfer. Qed.

Lemma comm_pso_oop_loop ents xs outs :
  comm idu (pso_oop_loop junk ents xs outs) (pso_oop_loop junk' (map entmap ents) xs outs).
Proof.
  induction ents as [|e r IH]; cbn [pso_oop_loop map]; [apply (comm_ret idu tt)|].
  eapply comm_bind; [apply comm_nthid|]. intros xj. eapply comm_bind; [apply comm_nthid|]. intros oi.
  cbn [entmap en_row en_col en_op].
  eapply comm_bind; [apply (comm_call (en_op e) (VElem xj) None)|]. intros v.
  eapply comm_bind; [apply comm_elem_id|]. intros i.
  eapply comm_bind; [apply comm_iadd|]. intros _. exact IH.
Qed.
Lemma comm_pso_oop ents ran xs : comm idl (pso_oop junk ents ran xs) (pso_oop junk' (map entmap ents) ran xs).
Proof.
  unfold pso_oop. eapply comm_bind; [apply comm_alloc_zeros|]. intros outs.
  eapply comm_bind; [apply comm_pso_oop_loop|]. intros _. apply (comm_ret idl outs).
Qed.
Lemma comm_pso_ip_loop ents xs outs : forall ev,
  comm (fun l : list bool => l) (pso_ip_loop junk ents xs outs ev) (pso_ip_loop junk' (map entmap ents) xs outs ev).
Proof.
  induction ents as [|e r IH]; intros ev; cbn [pso_ip_loop map]; [apply (comm_ret (fun l : list bool => l) ev)|].
  eapply comm_bind; [apply comm_nthid|]. intros xj. eapply comm_bind; [apply comm_nthid|]. intros oi.
  cbn [entmap en_row en_col en_op].
  eapply comm_bind with (g := idu).
  { destruct (nth (en_row e) ev false).
    - eapply comm_bind; [apply (comm_call (en_op e) (VElem xj) None)|]. intros v.
      eapply comm_bind; [apply comm_elem_id|]. intros i. apply comm_iadd.
    - eapply comm_bind; [apply (comm_call (en_op e) (VElem xj) (Some (VElem oi)))|]. intros _. apply (comm_ret idu tt). }
  intros _. apply IH.
Qed.
Lemma comm_zero_rest outs : forall ev, comm idu (zero_rest outs ev) (zero_rest outs ev).
Proof.
  induction outs as [|o r IH]; intros [|b ev]; cbn [zero_rest]; try apply (comm_ret idu tt).
  eapply comm_bind with (g := idu); [destruct b; [apply (comm_ret idu tt) | apply comm_set_zero]|].
  intros _. apply IH.
Qed.
Lemma comm_pso_ip ents xs outs : comm idu (pso_ip junk ents xs outs) (pso_ip junk' (map entmap ents) xs outs).
Proof. unfold pso_ip. eapply comm_bind; [apply comm_pso_ip_loop|]. intros ev. apply comm_zero_rest. Qed.
Lemma in_pspace_smap sps : forall xs s, in_pspace sps xs (smap s) = in_pspace sps xs s.
Proof.
  induction sps as [|sp r IH]; intros [|x xs] s; cbn [in_pspace]; try reflexivity.
  rewrite IH. f_equal. apply (in_space_smap sp (VElem x) s).
Qed.
Theorem pso_call_transfer ents dom ran xs out :
  comm idl (pso_call junk ents dom ran xs out) (pso_call junk' (map entmap ents) dom ran xs out).
Proof.
  unfold pso_call.
  eapply comm_bind; [apply (comm_test (in_pspace dom xs) (in_pspace dom xs)); intros s; apply in_pspace_smap|].
  intros inx. destruct (negb inx); [apply comm_fail|]. destruct out as [outs|]; [|apply comm_pso_oop].
  eapply comm_bind; [apply (comm_test (in_pspace ran outs) (in_pspace ran outs)); intros s; apply in_pspace_smap|].
  intros iny. destruct (negb iny); [apply comm_fail|].
  eapply comm_bind; [apply comm_pso_ip|]. intros _. apply (comm_ret idl outs).
Qed.
Lemma comm_set_zero_all outs : comm idu (set_zero_all outs) (set_zero_all outs).
Proof.
  induction outs as [|o r IH]; cbn [set_zero_all]; [apply (comm_ret idu tt)|].
  eapply comm_bind; [apply comm_set_zero|]. intros _. exact IH.
Qed.
Theorem cproj_cpadj_transfer i xs o x ran outs :
  comm (fun k : nat => k) (cproj_oop i xs) (cproj_oop i xs) /\
  comm idu (cproj_ip i xs o) (cproj_ip i xs o) /\
  comm idl (cpadj_oop i ran x) (cpadj_oop i ran x) /\
  comm idu (cpadj_ip i x outs) (cpadj_ip i x outs).
Proof.
  split; [|split; [|split]].
  - unfold cproj_oop. eapply comm_bind; [apply comm_nthid|]. intros xi. apply comm_copy.
  - unfold cproj_ip. eapply comm_bind; [apply comm_nthid|]. intros xi. apply comm_assign.
  - unfold cpadj_oop. eapply comm_bind; [apply comm_alloc_zeros|]. intros l.
    eapply comm_bind; [apply comm_nthid|]. intros oi. eapply comm_bind; [apply comm_data_of|]. intros d.
    eapply comm_bind; [apply comm_set_data|]. intros _. apply (comm_ret idl l).
  - unfold cpadj_ip. eapply comm_bind; [apply comm_set_zero_all|]. intros _.
    eapply comm_bind; [apply comm_nthid|]. intros oi. eapply comm_bind; [apply comm_data_of|]. intros d.
    apply comm_set_data.
Qed.
End Hom.

(* ================= the instance: option Q  -->  option R ================= *)
Definition o2r (a : option Q) : option R := option_map Q2R a.

Lemma Qneqb_false_nz (v : Q) : @neqb Q _ v nzero = false -> ~ (v == 0)%Q.
Proof. cbn [neqb nzero Num_Q]. intros E H. apply Qeq_bool_iff in H. congruence. Qed.

Ltac oq := cbn [nzero none_ nadd nsub nmul ndiv nopp nabs nltb nleb neqb of_Z Num_opt olift2 olift1 ocmp odiv
                o2r option_map].
Lemma o2r_hom : num_hom o2r.
Proof.
  constructor.
  - oq. f_equal. apply Q2R_nzero.
  - oq. f_equal. apply Q2R_none.
  - intros [a|] [b|]; oq; try reflexivity. f_equal. apply Q2R_nadd.
  - intros [a|] [b|]; oq; try reflexivity. f_equal. apply Q2R_nsub.
  - intros [a|] [b|]; oq; try reflexivity. f_equal. apply Q2R_nmul.
  - intros [a|] [b|]; oq; try reflexivity.
    rewrite <- Q2R_nzero, <- Q2R_neqb.
    destruct (@neqb Q _ b nzero) eqn:E; oq; [reflexivity|].
    f_equal. apply Q2R_ndiv. apply Qneqb_false_nz. exact E.
  - intros [a|]; oq; try reflexivity. f_equal. apply Q2R_nopp.
  - intros [a|]; oq; try reflexivity. f_equal. apply Q2R_nabs.
  - intros [a|] [b|]; oq; try reflexivity. apply Q2R_nltb.
  - intros [a|] [b|]; oq; try reflexivity. apply Q2R_nleb.
  - intros [a|] [b|]; oq; try reflexivity. apply Q2R_neqb.
  - intros z. oq. f_equal. apply Q2R_of_Z.
Qed.

(* the statement used in Props.v: uninitialised memory is None on both sides *)
Theorem call_Q_to_R (o : @op (option Q)) x out s :
  omap o2r (pvmap o2r) (call (fun _ _ => None) o x out s)
  = call (fun _ _ => None) (opmap o2r o) (pvmap o2r x) (opv o2r out) (smap o2r s).
Proof. exact (call_transfer o2r o2r_hom (fun _ _ => None) o x out s). Qed.
