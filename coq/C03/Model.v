(* C03/Model.v -- heap model of the operator call protocol
   (odl/operator/operator.py: Operator.__new__, Operator.__call__,
   _default_call_in_place, _default_call_out_of_place) and interpreter of the
   `_call` bodies of C03/Syntax.v.  Executable definitions only; polymorphic in
   the entry carrier [V] (run at [option Q], proved at [option R]). *)
From Coq Require Import ZArith QArith List Bool Arith.
From Verif Require Import Base.Num Base.Vec C03.Syntax Gen.C03Bodies.
Import ListNotations.
Local Open Scope num_scope.

Section Model.
Context {V : Type} `{Num V}.

(* ------------------------------------------------------------------ heap *)
(* a space is (number of entries, tag); two spaces are equal iff both agree
   (rn(3) vs rn(3, weighting=2) differ in the tag only) *)
Definition space := (nat * nat)%type.
Definition sp_eqb (a b : space) : bool := (fst a =? fst b)%nat && (snd a =? snd b)%nat.
Inductive rsp := RSp (sp : space) | RField.
Definition buf := list V.
Definition cell := (space * buf)%type.
Definition store := list cell.          (* object identity = index *)

(* Python values that reach an operator call *)
Inductive pyval := VElem (i : nat) | VArr (d : buf) | VSc (v : V) | VNone | VJunk.

(* OpDomainError | OpRangeError | TypeError | ValueError | anything else *)
Inductive err := EDomain | ERange | EFunctionalOut | EBadReturn | EOther.
Inductive outcome (A : Type) := Ok (a : A) (s : store) | Err (e : err) (s : store).
Arguments Ok {A}. Arguments Err {A}.
Definition M (A : Type) := store -> outcome A.
Definition ret {A} (a : A) : M A := fun s => Ok a s.
Definition fail {A} (e : err) : M A := fun s => Err e s.
Definition bind {A B} (m : M A) (f : A -> M B) : M B :=
  fun s => match m s with Ok a s' => f a s' | Err e s' => Err e s' end.
Notation "x <- m ;; f" := (bind m (fun x => f)) (at level 61, m at next level, right associativity).

Definition rd (s : store) (i : nat) : option cell := nth_error s i.
Fixpoint upd (s : store) (i : nat) (c : cell) : store :=
  match s, i with
  | [], _ => []
  | _ :: s', O => c :: s'
  | a :: s', S i' => a :: upd s' i' c
  end.

(* contents of uninitialised memory: [junk id k] is entry k of the object with
   identity id at the time `space.element()` (np.empty) creates it *)
Variable junk : nat -> nat -> V.
Definition junkbuf (id n : nat) : buf := map (junk id) (seq 0 n).

Definition alloc (sp : space) (d : buf) : M nat := fun s => Ok (length s) (s ++ [(sp, d)]).
Definition alloc_empty (sp : space) : M nat := fun s => alloc sp (junkbuf (length s) (fst sp)) s.
Definition zeros (n : nat) : buf := repeat nzero n.

(* ---------------------------------------------- element arithmetic (C01 in small) *)
Definition scal_ (a : V) (x : buf) : buf := map (fun u => u * a) x.              (* x *= a *)
Definition axpy_ (x1 x2 : buf) (a : V) : buf := vmap2 (fun u v => v + a * u) x1 x2.  (* x2 += a*x1 *)
Definition nneqb (a b : V) : bool := negb (a =? b).

(* npy_tensors._lincomb_impl for sizes >= THRESHOLD_SMALL (fallback regime): the alias tree.
   [o1] = out is x1, [o2] = out is x2, [e12] = x1 is x2; [old] = current contents of out. *)
Definition lincomb_tree (a b : V) (x1 x2 old : buf) (o1 o2 e12 : bool) : buf :=
  let rec := e12 && nneqb b nzero in
  let a' := if rec then a + b else a in
  let b' := if rec then nzero else b in
  if o1 && o2 then
    (if nneqb (a' + b') nzero then scal_ (a' + b') old else zeros (length old))
  else if o1 then
    let t := if nneqb a' none_ then scal_ a' old else old in
    if nneqb b' nzero then axpy_ x2 t b' else t
  else if o2 then
    let t := if nneqb b' none_ then scal_ b' old else old in
    if nneqb a' nzero then axpy_ x1 t a' else t
  else if b' =? nzero then
    (if a' =? nzero then zeros (length old)
     else if nneqb a' none_ then scal_ a' x1 else x1)
  else if a' =? nzero then
    (if nneqb b' none_ then scal_ b' x2 else x2)
  else if a' =? none_ then axpy_ x2 x1 b'
  else axpy_ x1 (if nneqb b' none_ then scal_ b' x2 else x2) a'.

(* space.lincomb(a, x1, b, x2, out) on fewer than THRESHOLD_SMALL entries.  The source
   has (variant SvUnguarded)  out.data[:] = a * x1.data + b * x2.data  with no test on
   a, b, so the old contents of an aliased out take part even when their coefficient is
   0.  Which variant the current source has is REGENERATED as [small_guarded]
   (Gen/C03Bodies.v); the two repaired forms are modelled as well. *)
Definition lincomb_small (g : small_variant) (a b : V) (x1 x2 : buf) (n : nat) : buf :=
  match g with
  | SvUnguarded => vlin a x1 b x2
  | SvZeroZero => if (a =? nzero) && (b =? nzero) then zeros n else vlin a x1 b x2
  | SvGuarded =>
      if (a =? nzero) && (b =? nzero) then zeros n
      else if b =? nzero then map (fun u => a * u) x1
      else if a =? nzero then map (fun v => b * v) x2
      else vlin a x1 b x2
  end.
Definition lincomb_data_g (g : small_variant) (a b : V) (x1 x2 old : buf) (o1 o2 e12 : bool) : buf :=
  if (length old <? threshold_small)%nat then lincomb_small g a b x1 x2 (length old)
  else lincomb_tree a b x1 x2 old o1 o2 e12.

Definition do_lincomb_g (g : small_variant) (a : V) (i1 : nat) (b : V) (i2 : nat) (o : nat) : M unit := fun s =>
  match rd s i1, rd s i2, rd s o with
  | Some (sp1, d1), Some (sp2, d2), Some (spo, dold) =>
      if sp_eqb sp1 spo && sp_eqb sp2 spo then
        Ok tt (upd s o (spo, lincomb_data_g g a b d1 d2 dold (i1 =? o)%nat (i2 =? o)%nat (i1 =? i2)%nat))
      else Err EOther s
  | _, _, _ => Err EOther s
  end.
Definition lincomb_data := lincomb_data_g small_guarded.
Definition do_lincomb := do_lincomb_g small_guarded.
Definition do_set_zero_g (g : small_variant) (o : nat) : M unit := do_lincomb_g g nzero o nzero o o.
(* lincomb(a, x1, out=o): b is None -> _lincomb(a, x1, 0, x1, out) *)
Definition do_lincomb1 (a : V) (i1 o : nat) : M unit := do_lincomb a i1 nzero i1 o.
Definition do_assign (o src : nat) : M unit := do_lincomb1 none_ src o.
Definition do_set_zero (o : nat) : M unit := do_lincomb nzero o nzero o o.
Definition do_iadd (o e : nat) : M unit := do_lincomb none_ o none_ e o.
Definition do_iscal (o : nat) (a : V) : M unit := do_lincomb1 a o o.
(* space.multiply(x1, x2, out) = np.multiply(x1.data, x2.data, out=out.data) *)
Definition do_multiply (i1 i2 o : nat) : M unit := fun s =>
  match rd s i1, rd s i2, rd s o with
  | Some (sp1, d1), Some (sp2, d2), Some (spo, _) =>
      if sp_eqb sp1 spo && sp_eqb sp2 spo then Ok tt (upd s o (spo, vmul d1 d2)) else Err EOther s
  | _, _, _ => Err EOther s
  end.
(* NumpyTensor.copy: self.space.element(self.data.copy()) *)
Definition do_copy (i : nat) : M nat := fun s =>
  match rd s i with Some (sp, d) => alloc sp d s | None => Err EOther s end.

(* element-wise NumPy ufuncs with out=: np.absolute / np.maximum / np.minimum / np.divide *)
Definition do_map (f : V -> V) (i o : nat) : M unit := fun s =>
  match rd s i, rd s o with
  | Some (sp1, d1), Some (spo, _) =>
      if sp_eqb sp1 spo then Ok tt (upd s o (spo, map f d1)) else Err EOther s
  | _, _ => Err EOther s
  end.
Definition do_divide (i1 i2 o : nat) : M unit := fun s =>
  match rd s i1, rd s i2, rd s o with
  | Some (sp1, d1), Some (sp2, d2), Some (spo, _) =>
      if sp_eqb sp1 spo && sp_eqb sp2 spo then Ok tt (upd s o (spo, vdiv d1 d2)) else Err EOther s
  | _, _, _ => Err EOther s
  end.

(* membership and casting: `v in space`, `space.element(v)` *)
Definition in_space (sp : space) (v : pyval) (s : store) : bool :=
  match v with
  | VElem i => match rd s i with Some (sp', _) => sp_eqb sp' sp | None => false end
  | _ => false
  end.
Definition in_rsp (r : rsp) (v : pyval) (s : store) : bool :=
  match r, v with
  | RSp sp, _ => in_space sp v s
  | RField, VSc _ => true
  | RField, _ => false
  end.
(* space.element(v): v itself if it is an element of the space; an element of another
   space or an array-like with the right number of entries is wrapped in a NEW
   element; None gives an uninitialised element; everything else raises *)
Definition cast_space (sp : space) (v : pyval) : M (option pyval) := fun s =>
  match v with
  | VElem i =>
      match rd s i with
      | Some (sp', d) =>
          if sp_eqb sp' sp then Ok (Some v) s
          else if (fst sp' =? fst sp)%nat then
            match alloc sp d s with Ok j s' => Ok (Some (VElem j)) s' | Err e s' => Err e s' end
          else Ok None s
      | None => Ok None s
      end
  | VArr d =>
      if (length d =? fst sp)%nat then
        match alloc sp d s with Ok j s' => Ok (Some (VElem j)) s' | Err e s' => Err e s' end
      else Ok None s
  | VNone => match alloc_empty sp s with Ok j s' => Ok (Some (VElem j)) s' | Err e s' => Err e s' end
  | _ => Ok None s
  end.
Definition cast_rsp (r : rsp) (v : pyval) : M (option pyval) :=
  match r with
  | RSp sp => cast_space sp v
  | RField => match v with VSc _ => ret (Some v) | _ => ret None end
  end.

(* ------------------------------------------------- semantics of an operator *)
(* what the rest of the world sees of an operator: its spaces and its public call *)
Record opsem := { o_dom : space; o_ran : rsp; o_call : pyval -> option pyval -> M pyval }.

(* Operator.__call__ around the two implementation slots chosen by Operator.__new__ *)
Definition public_call (dom : space) (ran : rsp)
    (call_ip : pyval -> pyval -> M pyval) (call_oop : pyval -> M pyval)
    (x : pyval) (out : option pyval) : M pyval :=
  inx <- (fun s => Ok (in_space dom x s) s) ;;
  xo <- (if inx then ret (Some x) else cast_space dom x) ;;
  match xo with
  | None => fail EDomain
  | Some x' =>
      match out with
      | Some y =>
          iny <- (fun s => Ok (in_rsp ran y s) s) ;;
          if negb iny then fail ERange
          else match ran with
               | RField => fail EFunctionalOut
               | RSp _ =>
                   r <- call_ip x' y ;;
                   match r, y with
                   | VNone, _ => ret y
                   | VElem i, VElem j => if (i =? j)%nat then ret y else fail EBadReturn
                   | _, _ => fail EBadReturn
                   end
               end
      | None =>
          r <- call_oop x' ;;
          inr <- (fun s => Ok (in_rsp ran r s) s) ;;
          if inr then ret r
          else ro <- cast_rsp ran r ;;
               match ro with Some r' => ret r' | None => fail ERange end
      end
  end.

(* _default_call_out_of_place / _default_call_in_place *)
Definition default_oop (ran : rsp) (call_ip : pyval -> pyval -> M pyval) (x : pyval) : M pyval :=
  match ran with
  | RSp sp =>
      o <- alloc_empty sp ;;
      r <- call_ip x (VElem o) ;;
      match r with
      | VNone => ret (VElem o)
      | VElem i => if (i =? o)%nat then ret (VElem o) else fail EBadReturn
      | _ => fail EBadReturn
      end
  | RField => fail EOther     (* Operator.__init__ rejects mandatory out for functionals *)
  end.
Definition default_ip (ran : rsp) (call_oop : pyval -> M pyval) (x out : pyval) : M pyval :=
  r <- call_oop x ;;
  ro <- cast_rsp ran r ;;
  match ro, out with
  | Some (VElem i), VElem o => _ <- do_assign o i ;; ret VNone
  | None, _ => fail EBadReturn     (* range.element(result) raises ValueError, not caught here *)
  | _, _ => fail EOther
  end.
(* Operator.__new__: which slot gets what *)
Definition slots (k : kind) (ran : rsp) (raw_oop : pyval -> M pyval) (raw_ip : pyval -> pyval -> M pyval)
  : (pyval -> pyval -> M pyval) * (pyval -> M pyval) :=
  match k with
  | KOop => (default_ip ran raw_oop, raw_oop)
  | KBoth => (raw_ip, raw_oop)
  | KIp => (raw_ip, default_oop ran raw_ip)
  end.

(* ---- the same three functions as interpreters of the step lists REGENERATED from the source
   (Gen/C03Bodies.v: call_plan_ip, call_plan_oop, default_oop_plan, default_ip_plan, new_slots);
   C03/Proofs.v proves them equal to the hand-written definitions above. ---- *)
Record pstate := { p_x : pyval; p_out : option pyval; p_res : pyval }.
Definition run_step (dom : space) (ran : rsp) (ip : pyval -> pyval -> M pyval) (oop : pyval -> M pyval)
    (t : step) (st : pstate) : M pstate :=
  let x := p_x st in
  match t with
  | StCastX =>
      inx <- (fun s => Ok (in_space dom x s) s) ;;
      xo <- (if inx then ret (Some x) else cast_space dom x) ;;
      match xo with
      | Some x' => ret {| p_x := x'; p_out := p_out st; p_res := p_res st |}
      | None => fail EDomain
      end
  | StCheckOut =>
      match p_out st with
      | Some y => iny <- (fun s => Ok (in_rsp ran y s) s) ;; if negb iny then fail ERange else ret st
      | None => fail EOther
      end
  | StNoOutForFunctional => match ran with RField => fail EFunctionalOut | RSp _ => ret st end
  | StCallIp =>
      match p_out st with
      | Some y => r <- ip x y ;; ret {| p_x := x; p_out := p_out st; p_res := r |}
      | None => fail EOther
      end
  | StCheckReturn =>
      match p_res st, p_out st with
      | VNone, Some _ => ret st
      | VElem i, Some (VElem j) => if (i =? j)%nat then ret st else fail EBadReturn
      | _, _ => fail EBadReturn
      end
  | StCallOop => r <- oop x ;; ret {| p_x := x; p_out := Some r; p_res := p_res st |}
  | StCastResult =>
      match p_out st with
      | Some r =>
          inr <- (fun s => Ok (in_rsp ran r s) s) ;;
          if inr then ret st
          else ro <- cast_rsp ran r ;;
               match ro with
               | Some r' => ret {| p_x := x; p_out := Some r'; p_res := p_res st |}
               | None => fail ERange
               end
      | None => fail EOther
      end
  | StNewOut =>
      match ran with
      | RSp sp => o <- alloc_empty sp ;; ret {| p_x := x; p_out := Some (VElem o); p_res := p_res st |}
      | RField => fail EOther
      end
  | StAssignCastOop =>
      r <- oop x ;; ro <- cast_rsp ran r ;;
      match ro, p_out st with
      | Some (VElem i), Some (VElem o) => _ <- do_assign o i ;; ret st
      | None, _ => fail EBadReturn
      | _, _ => fail EOther
      end
  | StReturnOut => ret st
  end.
(* runs the steps; `return out` ends the function with out, falling off the end returns None *)
Fixpoint run_steps (dom : space) (ran : rsp) ip oop (l : list step) (st : pstate) : M pyval :=
  match l with
  | [] => ret VNone
  | StReturnOut :: _ => match p_out st with Some y => ret y | None => fail EOther end
  | t :: l' => st' <- run_step dom ran ip oop t st ;; run_steps dom ran ip oop l' st'
  end.
Definition public_call_gen dom ran ip oop (x : pyval) (out : option pyval) : M pyval :=
  run_steps dom ran ip oop (match out with Some _ => call_plan_ip | None => call_plan_oop end)
            {| p_x := x; p_out := out; p_res := VNone |}.
Definition default_oop_gen (ran : rsp) ip (x : pyval) : M pyval :=
  run_steps (0, 0)%nat ran ip (fun _ => fail EOther) default_oop_plan {| p_x := x; p_out := None; p_res := VNone |}.
Definition default_ip_gen (ran : rsp) oop (x out : pyval) : M pyval :=
  run_steps (0, 0)%nat ran (fun _ _ => fail EOther) oop default_ip_plan {| p_x := x; p_out := Some out; p_res := VNone |}.
Definition slots_gen (k : kind) (ran : rsp) (raw_oop : pyval -> M pyval) (raw_ip : pyval -> pyval -> M pyval)
  : (pyval -> pyval -> M pyval) * (pyval -> M pyval) :=
  let pick_ip (sl : slot) := match sl with SlDefaultIp => default_ip_gen ran raw_oop | _ => raw_ip end in
  let pick_oop (sl : slot) := match sl with SlDefaultOop => default_oop_gen ran raw_ip | _ => raw_oop end in
  (pick_ip (fst (new_slots k)), pick_oop (snd (new_slots k))).

(* ---------------------------------------------------- body interpreter *)
Record env := { e_x : pyval; e_out : option pyval; e_tmp : list (nat * pyval);
                e_sc : list (nat * V); e_last : pyval }.
Fixpoint assoc {A} (k : nat) (l : list (nat * A)) : option A :=
  match l with [] => None | (k', a) :: l' => if (k =? k')%nat then Some a else assoc k l' end.

(* the instance data of an operator object *)
Record inst := { i_dom : space; i_ran : rsp; i_pars : list V; i_vecs : list nat;
                 i_owns : list (option nat); i_kids : list opsem }.

Definition lookup (I : inst) (e : env) (r : ref) : option pyval :=
  match r with
  | RX => Some (e_x e)
  | ROut => e_out e
  | RTmp k => assoc k (e_tmp e)
  | RVec k => match nth_error (i_vecs I) k with Some i => Some (VElem i) | None => None end
  end.
Definition bindref (e : env) (r : ref) (v : pyval) : option env :=
  match r with
  | ROut => Some {| e_x := e_x e; e_out := Some v; e_tmp := e_tmp e; e_sc := e_sc e; e_last := e_last e |}
  | RTmp k => Some {| e_x := e_x e; e_out := e_out e; e_tmp := (k, v) :: e_tmp e; e_sc := e_sc e; e_last := e_last e |}
  | _ => None
  end.
Definition set_last (e : env) (v : pyval) : env :=
  {| e_x := e_x e; e_out := e_out e; e_tmp := e_tmp e; e_sc := e_sc e; e_last := v |}.
Definition bind_sc (e : env) (k : nat) (v : V) : env :=
  {| e_x := e_x e; e_out := e_out e; e_tmp := e_tmp e; e_sc := (k, v) :: e_sc e; e_last := e_last e |}.

Definition opt2 (f : V -> V -> V) (a b : option V) : option V :=
  match a, b with Some u, Some v => Some (f u v) | _, _ => None end.
Fixpoint eval_scal (I : inst) (e : env) (c : scal) : option V :=
  match c with
  | SLit q => Some (of_Q q)
  | SPar k => nth_error (i_pars I) k
  | SVar k => assoc k (e_sc e)
  | SAdd a b => opt2 nadd (eval_scal I e a) (eval_scal I e b)
  | SSub a b => opt2 nsub (eval_scal I e a) (eval_scal I e b)
  | SMul a b => opt2 nmul (eval_scal I e a) (eval_scal I e b)
  | SDiv a b => opt2 ndiv (eval_scal I e a) (eval_scal I e b)
  | SNeg a => match eval_scal I e a with Some u => Some (nopp u) | None => None end
  end.
Definition sel_space (I : inst) (sp : spsel) : option space :=
  match sp with
  | SpDom => Some (i_dom I)
  | SpRan => match i_ran I with RSp p => Some p | RField => None end
  | SpKidDom c => match nth_error (i_kids I) c with Some k => Some (o_dom k) | None => None end
  | SpKidRan c => match nth_error (i_kids I) c with
                  | Some k => match o_ran k with RSp p => Some p | RField => None end
                  | None => None end
  end.
Definition space_of (i : nat) : M space := fun s =>
  match rd s i with Some (sp, _) => Ok sp s | None => Err EOther s end.
Definition lift_opt {A} (o : option A) : M A := match o with Some a => ret a | None => fail EOther end.
Definition elem_id (v : pyval) : M nat := match v with VElem i => ret i | _ => fail EOther end.

(* out-of-place element arithmetic: `tmp = space.element()` followed by the in-place primitive *)
Definition new_add (i j : nat) : M pyval :=      (* a + b : space.lincomb(1, a, 1, b, out=tmp) *)
  sp <- space_of i ;; t <- alloc_empty sp ;; _ <- do_lincomb none_ i none_ j t ;; ret (VElem t).
Definition new_mul (j i : nat) : M pyval :=      (* a.__mul__(b): space.multiply(b, a, out=tmp) *)
  sp <- space_of i ;; t <- alloc_empty sp ;; _ <- do_multiply j i t ;; ret (VElem t).
Definition new_scaled (u : V) (i : nat) : M pyval :=   (* s * a : space.lincomb(s, a, out=tmp) *)
  sp <- space_of i ;; t <- alloc_empty sp ;; _ <- do_lincomb1 u i t ;; ret (VElem t).
Definition new_sub (i j : nat) : M pyval :=      (* a - b : space.lincomb(1, a, -1, b, out=tmp) *)
  sp <- space_of i ;; t <- alloc_empty sp ;; _ <- do_lincomb none_ i (nopp none_) j t ;; ret (VElem t).
Definition new_abs (i : nat) : M pyval :=        (* a.ufuncs.absolute() *)
  sp <- space_of i ;; t <- alloc_empty sp ;; _ <- do_map nabs i t ;; ret (VElem t).

Fixpoint eval_ex (I : inst) (e : env) (x : ex) : M pyval :=
  match x with
  | XRef r => lift_opt (lookup I e r)
  | XCall c a =>
      va <- eval_ex I e a ;;
      k <- lift_opt (nth_error (i_kids I) c) ;;
      o_call k va None
  | XAdd a b =>
      va <- eval_ex I e a ;; vb <- eval_ex I e b ;;
      match va, vb with
      | VSc u, VSc v => ret (VSc (u + v))
      | VElem i, VElem j => new_add i j
      | _, _ => fail EOther
      end
  | XMul a b =>
      va <- eval_ex I e a ;; vb <- eval_ex I e b ;;
      match va, vb with
      | VSc u, VSc v => ret (VSc (u * v))
      | VElem i, VElem j => new_mul j i
      | VElem i, VSc u | VSc u, VElem i => new_scaled u i
      | _, _ => fail EOther
      end
  | XScal c a =>
      va <- eval_ex I e a ;; u <- lift_opt (eval_scal I e c) ;;
      match va with
      | VSc v => ret (VSc (u * v))
      | VElem i => new_scaled u i
      | _ => fail EOther
      end
  | XNew sp => p <- lift_opt (sel_space I sp) ;; t <- alloc_empty p ;; ret (VElem t)
  | XOwnOr k a =>
      match nth_error (i_owns I) k with
      | Some (Some i) => ret (VElem i)
      | _ => eval_ex I e a
      end
  | XZero sp => p <- lift_opt (sel_space I sp) ;; t <- alloc p (zeros (fst p)) ;; ret (VElem t)
  | XCopy a => va <- eval_ex I e a ;; i <- elem_id va ;; t <- do_copy i ;; ret (VElem t)
  | XSub a b =>
      va <- eval_ex I e a ;; vb <- eval_ex I e b ;;
      match va, vb with
      | VSc u, VSc v => ret (VSc (u - v))
      | VElem i, VElem j => new_sub i j
      | _, _ => fail EOther
      end
  | XAbs a => va <- eval_ex I e a ;; i <- elem_id va ;; new_abs i
  end.

Definition ref_id (I : inst) (e : env) (r : ref) : M nat :=
  v <- lift_opt (lookup I e r) ;; elem_id v.

Definition exec_st (I : inst) (e : env) (t : st) : M env :=
  match t with
  | TLet r x => v <- eval_ex I e x ;; lift_opt (bindref e r v)
  | TLetS k c a =>
      va <- eval_ex I e a ;;
      kd <- lift_opt (nth_error (i_kids I) c) ;;
      r <- o_call kd va None ;;
      match r with VSc u => ret (bind_sc e k u) | _ => fail EOther end
  | TCallIp c a o =>
      va <- lift_opt (lookup I e a) ;; vo <- lift_opt (lookup I e o) ;;
      kd <- lift_opt (nth_error (i_kids I) c) ;;
      r <- o_call kd va (Some vo) ;;
      ret (set_last e r)
  | TLincomb o a x1 bx =>
      io <- ref_id I e o ;; i1 <- ref_id I e x1 ;; u <- lift_opt (eval_scal I e a) ;;
      match bx with
      | None => _ <- do_lincomb1 u i1 io ;; ret e
      | Some (b, x2) =>
          i2 <- ref_id I e x2 ;; w <- lift_opt (eval_scal I e b) ;;
          _ <- do_lincomb u i1 w i2 io ;; ret e
      end
  | TIAdd o x => io <- ref_id I e o ;; ix <- ref_id I e x ;; _ <- do_iadd io ix ;; ret e
  | TIMul o x => io <- ref_id I e o ;; ix <- ref_id I e x ;; _ <- do_multiply ix io io ;; ret e
  | TIScal o c => io <- ref_id I e o ;; u <- lift_opt (eval_scal I e c) ;; _ <- do_iscal io u ;; ret e
  | TMultiply x1 x2 o =>
      i1 <- ref_id I e x1 ;; i2 <- ref_id I e x2 ;; io <- ref_id I e o ;;
      _ <- do_multiply i1 i2 io ;; ret e
  | TAssign o x => io <- ref_id I e o ;; v <- eval_ex I e x ;; i <- elem_id v ;; _ <- do_assign io i ;; ret e
  | TSetZero o => io <- ref_id I e o ;; _ <- do_set_zero io ;; ret e
  | TUAbs x o => ix <- ref_id I e x ;; io <- ref_id I e o ;; _ <- do_map nabs ix io ;; ret e
  | TUMaxS x c o =>
      ix <- ref_id I e x ;; io <- ref_id I e o ;; u <- lift_opt (eval_scal I e c) ;;
      _ <- do_map (fun v => nmax v u) ix io ;; ret e
  | TUMinS x c o =>
      ix <- ref_id I e x ;; io <- ref_id I e o ;; u <- lift_opt (eval_scal I e c) ;;
      _ <- do_map (fun v => nmin v u) ix io ;; ret e
  | TIDivS o c =>
      io <- ref_id I e o ;; u <- lift_opt (eval_scal I e c) ;; _ <- do_iscal io (none_ / u) ;; ret e
  | TDivide x1 x2 o =>
      i1 <- ref_id I e x1 ;; i2 <- ref_id I e x2 ;; io <- ref_id I e o ;; _ <- do_divide i1 i2 io ;; ret e
  end.

Fixpoint exec_sts (I : inst) (e : env) (l : list st) : M env :=
  match l with
  | [] => ret e
  | t :: l' => e' <- exec_st I e t ;; exec_sts I e' l'
  end.

Definition exec_body (I : inst) (b : body) (x : pyval) (out : option pyval) : M pyval :=
  e <- exec_sts I {| e_x := x; e_out := out; e_tmp := []; e_sc := []; e_last := VNone |} (b_st b) ;;
  match b_ret b with
  | RetNone => ret VNone
  | RetRef r => lift_opt (lookup I e r)
  | RetLast => ret (e_last e)
  | RetEx x' => eval_ex I e x'
  end.

(* the public semantics of an instance of a translated class *)
Definition cls_sem (c : cls) (I : inst) : opsem :=
  let raw_oop := fun x => exec_body I (c_oop c) x None in
  let raw_ip := fun x o => exec_body I (c_ip c) x (Some o) in
  let '(ip, oop) := slots (c_kind c) (i_ran I) raw_oop raw_ip in
  {| o_dom := i_dom I; o_ran := i_ran I; o_call := public_call (i_dom I) (i_ran I) ip oop |}.

(* ------------------------------------------------ primitive leaf operators *)
(* NumPy-level `_call`s that the body language does not express: a pure map of
   the input data; the out-of-place `_call` returns a fresh ndarray (wrapped by
   range.element in __call__), or -- [lf_alias] -- the input object itself
   (RealPart on a real space); the in-place `_call` overwrites out. *)
Inductive pfun := PMat (m : list (list V)) | PAbs | PSquare | PIdent | PConst (d : buf)
                | PInner (w : buf) | PSumSq.
Definition pf_vec (f : pfun) (d : buf) : buf :=
  match f with
  | PMat m => mvec m d
  | PAbs => map nabs d
  | PSquare => map (fun u => u * u) d
  | PIdent => d
  | PConst c => c
  | PInner _ | PSumSq => []
  end.
Definition pf_scalar (f : pfun) (d : buf) : option V :=
  match f with
  | PInner w => Some (dot d w)
  | PSumSq => Some (dot d d)
  | _ => None
  end.
(* deliberately misbehaving variants, used to show that the leaf contract is
   necessary: accumulate into out / scribble on x / return a different object *)
Inductive quirk := QNone | QAccumulate | QWritesX | QReturnsX.
Record leaf := { lf_kind : kind; lf_fun : pfun; lf_alias : bool; lf_quirk : quirk }.

Definition data_of (i : nat) : M buf := fun s =>
  match rd s i with Some (_, d) => Ok d s | None => Err EOther s end.
Definition set_data (i : nat) (d : buf) : M unit := fun s =>
  match rd s i with Some (sp, _) => Ok tt (upd s i (sp, d)) | None => Err EOther s end.

Definition leaf_raw_oop (l : leaf) (x : pyval) : M pyval :=
  i <- elem_id x ;; d <- data_of i ;;
  _ <- (match lf_quirk l with QWritesX => set_data i (zeros (length d)) | _ => ret tt end) ;;
  match pf_scalar (lf_fun l) d with
  | Some v => ret (VSc v)
  | None => if lf_alias l then ret x else ret (VArr (pf_vec (lf_fun l) d))
  end.
Definition leaf_raw_ip (l : leaf) (x out : pyval) : M pyval :=
  i <- elem_id x ;; o <- elem_id out ;; d <- data_of i ;; old <- data_of o ;;
  let r := pf_vec (lf_fun l) d in
  _ <- set_data o (match lf_quirk l with QAccumulate => vadd old r | _ => r end) ;;
  _ <- (match lf_quirk l with QWritesX => set_data i (zeros (length d)) | _ => ret tt end) ;;
  match lf_quirk l with QReturnsX => ret x | _ => ret VNone end.
Definition leaf_sem (l : leaf) (dom : space) (ran : rsp) : opsem :=
  let '(ip, oop) := slots (lf_kind l) ran (leaf_raw_oop l) (leaf_raw_ip l) in
  {| o_dom := dom; o_ran := ran; o_call := public_call dom ran ip oop |}.

(* ------------------------------------------------------- operator trees *)
Inductive op :=
| Op (c : cls) (dom : space) (ran : rsp) (pars : list V) (vecs : list nat) (owns : list (option nat))
     (kids : list op)
| Lf (l : leaf) (dom : space) (ran : rsp).

Fixpoint sem (o : op) : opsem :=
  match o with
  | Op c dom ran pars vecs owns kids =>
      cls_sem c {| i_dom := dom; i_ran := ran; i_pars := pars; i_vecs := vecs; i_owns := owns;
                   i_kids := map sem kids |}
  | Lf l dom ran => leaf_sem l dom ran
  end.

Definition op_dom (o : op) : space := match o with Op _ d _ _ _ _ _ => d | Lf _ d _ => d end.
Definition op_ran (o : op) : rsp := match o with Op _ _ r _ _ _ _ => r | Lf _ _ r => r end.

(* op(x) and op(x, out=y) *)
Definition call (o : op) (x : pyval) (out : option pyval) : M pyval := o_call (sem o) x out.
End Model.

Arguments Ok {V A}. Arguments Err {V A}.

(* ---------------------------------------------------------------- dispatch *)
(* operator.py:_dispatch_call_args as a function of the shape of the `_call`
   signature (parameter names after self, number of positional defaults, whether the
   last default is None, *args present, keyword-only `out` and whether it defaults to
   None).  None = the signature is rejected (ValueError). *)
From Coq Require Import String.
Record csig := { s_pos : list string; s_ndef : nat; s_last_none : bool; s_vararg : bool;
                 s_kwout : option bool }.
Definition dispatch (g : csig) : option kind :=
  if s_vararg g then None
  else match s_pos g with
       | [a] =>
           if String.eqb a "out" then None
           else match s_kwout g with
                | None => Some KOop
                | Some true => Some KBoth
                | Some false => None
                end
       | [a; b] =>
           if String.eqb a "out" then None
           else if negb (String.eqb b "out") then None
           else if (0 <? s_ndef g)%nat then (if s_last_none g then Some KBoth else None)
           else Some KIp
       | _ => None
       end.
