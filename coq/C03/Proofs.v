(* C03/Proofs.v -- the call protocol for arbitrary operator trees (structural
   induction), protocol facts that hold for ANY `_call` implementation, and the
   refutations (old contents of out / uninitialised memory can survive set_zero). *)
From Coq Require Import ZArith QArith Reals Lra Lia List Bool Arith.
From Verif Require Import Base.Num Base.Vec C03.Syntax Gen.C03Bodies C03.Poison C03.Model C03.Heap
  C03.Protocol C03.Classes.
Import ListNotations.

(* ================================================================== *)
(* Part 1: facts about Operator.__call__ for arbitrary implementations *)
Section AnyImpl.
Context {V : Type} `{Num V}.
Variable junk : nat -> nat -> V.
Notation pyvalV := (@pyval V).
Notation MV := (@M V).

(* op(x, out=y) can only ever return the object y *)
Lemma out_identity_any dom ran (ip : pyvalV -> pyvalV -> MV pyvalV) (oop : pyvalV -> MV pyvalV) x y s r s' :
  public_call junk dom ran ip oop x (Some y) s = Ok r s' -> r = y.
Proof.
  unfold public_call, bind, ret, fail.
  destruct (in_space dom x s).
  - destruct (negb (in_rsp ran y s)); [discriminate|].
    destruct ran; [|discriminate].
    destruct (ip x y s) as [v s1|]; [|discriminate].
    destruct v, y; try discriminate; try (intros E; injection E as <- _; reflexivity).
    destruct (i =? i0)%nat; [|discriminate]. intros E; injection E as <- _; reflexivity.
  - destruct (cast_space junk dom x s) as [[x'|] s0|]; try discriminate.
    destruct (negb (in_rsp ran y s0)); [discriminate|].
    destruct ran; [|discriminate].
    destruct (ip x' y s0) as [v s1|]; [|discriminate].
    destruct v, y; try discriminate; try (intros E; injection E as <- _; reflexivity).
    destruct (i =? i0)%nat; [|discriminate]. intros E; injection E as <- _; reflexivity.
Qed.

(* an argument that is not in the domain and cannot be cast is rejected with
   OpDomainError, the store is untouched, no implementation slot is run *)
Lemma rejects_domain_any dom ran (ip : pyvalV -> pyvalV -> MV pyvalV) (oop : pyvalV -> MV pyvalV) x out s :
  in_space dom x s = false -> cast_space junk dom x s = Ok None s ->
  public_call junk dom ran ip oop x out s = Err EDomain s.
Proof. intros E1 E2. unfold public_call, bind, ret, fail. rewrite E1, E2. reflexivity. Qed.

(* which arguments cannot be cast: junk objects, scalars, arrays and elements of the wrong size *)
Lemma cast_fails dom x s :
  match x with
  | VJunk | VSc _ => True
  | VArr d => length d <> fst dom
  | VElem i => match rd s i with Some (sp, _) => fst sp <> fst dom | None => True end
  | VNone => False
  end -> in_space dom x s = false /\ cast_space junk dom x s = Ok None s.
Proof.
  destruct x as [i|d|v| |]; cbn; intros Hx; try contradiction; try (split; reflexivity).
  - destruct (rd s i) as [[sp d]|]; [|split; reflexivity].
    assert (E : (fst sp =? fst dom)%nat = false) by (apply Nat.eqb_neq; exact Hx).
    unfold sp_eqb. rewrite E. cbn. split; reflexivity.
  - assert (E : (length d =? fst dom)%nat = false) by (apply Nat.eqb_neq; exact Hx).
    rewrite E. split; reflexivity.
Qed.

(* an out that is not an element of the range is rejected with OpRangeError; a functional
   called with out raises TypeError; in both cases nothing was written *)
Lemma rejects_range_any dom ran (ip : pyvalV -> pyvalV -> MV pyvalV) (oop : pyvalV -> MV pyvalV) x y s :
  in_space dom x s = true -> in_rsp ran y s = false ->
  public_call junk dom ran ip oop x (Some y) s = Err ERange s.
Proof. intros E1 E2. unfold public_call, bind, ret, fail. rewrite E1, E2. reflexivity. Qed.
Lemma rejects_functional_out_any dom (ip : pyvalV -> pyvalV -> MV pyvalV) (oop : pyvalV -> MV pyvalV) x y s :
  in_space dom x s = true -> in_rsp RField y s = true ->
  public_call junk dom RField ip oop x (Some y) s = Err EFunctionalOut s.
Proof. intros E1 E2. unfold public_call, bind, ret, fail. rewrite E1, E2. reflexivity. Qed.

(* the result of an out-of-place call is an element of the range, whatever `_call` returned *)
Lemma cast_space_in sp v s v' s' : cast_space junk sp v s = Ok (Some v') s' -> in_space sp v' s' = true.
Proof.
  unfold cast_space, alloc_empty, alloc.
  destruct v as [i|d|u| |]; try discriminate.
  - destruct (rd s i) as [[sp' d]|] eqn:E; [|discriminate].
    destruct (sp_eqb sp' sp) eqn:Es.
    + intros Q; injection Q as <- <-. cbn. rewrite E. exact Es.
    + destruct (fst sp' =? fst sp)%nat; [|discriminate].
      intros Q; injection Q as <- <-. cbn. unfold rd. rewrite nth_error_app2 by lia.
      rewrite Nat.sub_diag. cbn. unfold sp_eqb. rewrite !Nat.eqb_refl. reflexivity.
  - destruct (length d =? fst sp)%nat; [|discriminate].
    intros Q; injection Q as <- <-. cbn. unfold rd. rewrite nth_error_app2 by lia.
    rewrite Nat.sub_diag. cbn. unfold sp_eqb. rewrite !Nat.eqb_refl. reflexivity.
  - intros Q; injection Q as <- <-. cbn. unfold rd. rewrite nth_error_app2 by lia.
    rewrite Nat.sub_diag. cbn. unfold sp_eqb. rewrite !Nat.eqb_refl. reflexivity.
Qed.
Lemma result_in_range_any dom ran (ip : pyvalV -> pyvalV -> MV pyvalV) (oop : pyvalV -> MV pyvalV) x s r s' :
  public_call junk dom ran ip oop x None s = Ok r s' -> in_rsp ran r s' = true.
Proof.
  unfold public_call, bind, ret, fail.
  destruct (in_space dom x s); [| destruct (cast_space junk dom x s) as [[x'|] s0|]; try discriminate].
  all: destruct (oop _ _) as [v s1|]; [|discriminate].
  all: destruct (in_rsp ran v s1) eqn:Ein; [intros Q; injection Q as <- <-; exact Ein|].
  all: destruct ran as [sp|]; cbn [cast_rsp].
  all: try (destruct (cast_space junk sp v s1) as [[r'|] s2|] eqn:Ec; try discriminate;
            intros Q; injection Q as <- <-; cbn; eapply cast_space_in; exact Ec).
  all: destruct v; cbn in Ein |- *; discriminate.
Qed.

(* ---- the hand-written protocol functions ARE the interpreters of the step lists
   regenerated from Operator.__call__, _default_call_*, Operator.__new__ ---- *)
Lemma public_call_is_generated dom ran (ip : pyvalV -> pyvalV -> MV pyvalV) (oop : pyvalV -> MV pyvalV) x out s :
  public_call_gen junk dom ran ip oop x out s = public_call junk dom ran ip oop x out s.
Proof.
  unfold public_call_gen, public_call, call_plan_ip, call_plan_oop.
  destruct out as [y|]; cbv beta iota zeta delta [run_steps run_step p_x p_out p_res bind ret fail].
  - destruct (in_space dom x s).
    + destruct (negb (in_rsp ran y s)); [reflexivity|]. destruct ran; [|reflexivity].
      destruct (ip x y s) as [r s1|]; [|reflexivity].
      destruct r, y; try reflexivity. destruct (i =? i0)%nat; reflexivity.
    + destruct (cast_space junk dom x s) as [[x'|] s0|]; try reflexivity.
      destruct (negb (in_rsp ran y s0)); [reflexivity|]. destruct ran; [|reflexivity].
      destruct (ip x' y s0) as [r s1|]; [|reflexivity].
      destruct r, y; try reflexivity. destruct (i =? i0)%nat; reflexivity.
  - destruct (in_space dom x s).
    + destruct (oop x s) as [r s1|]; [|reflexivity].
      destruct (in_rsp ran r s1); [reflexivity|].
      destruct (cast_rsp junk ran r s1) as [[r'|] s2|]; reflexivity.
    + destruct (cast_space junk dom x s) as [[x'|] s0|]; try reflexivity.
      destruct (oop x' s0) as [r s1|]; [|reflexivity].
      destruct (in_rsp ran r s1); [reflexivity|].
      destruct (cast_rsp junk ran r s1) as [[r'|] s2|]; reflexivity.
Qed.
Lemma default_oop_is_generated ran (ip : pyvalV -> pyvalV -> MV pyvalV) x s :
  default_oop_gen junk ran ip x s = default_oop junk ran ip x s.
Proof.
  unfold default_oop_gen, default_oop, default_oop_plan.
  cbv beta iota zeta delta [run_steps run_step p_x p_out p_res bind ret fail].
  destruct ran as [sp|]; [|reflexivity].
  destruct (alloc_empty junk sp s) as [o s1|]; [|reflexivity].
  destruct (ip x (VElem o) s1) as [r s2|]; [|reflexivity].
  destruct r; try reflexivity. destruct (i =? o)%nat; reflexivity.
Qed.
End AnyImpl.

Section AnyImplNum.
Context {V : Type} `{Num V}.
Variable junk : nat -> nat -> V.
Lemma default_ip_is_generated ran (oop : @pyval V -> @M V (@pyval V)) x out s :
  default_ip_gen junk ran oop x out s = default_ip junk ran oop x out s.
Proof.
  unfold default_ip_gen, default_ip, default_ip_plan.
  cbv beta iota zeta delta [run_steps run_step p_x p_out p_res bind ret fail].
  destruct (oop x s) as [r s1|]; [|reflexivity].
  destruct (cast_rsp junk ran r s1) as [[r'|] s2|]; try reflexivity.
  - destruct r', out; try reflexivity. destruct (do_assign i0 i s2); reflexivity.
Qed.
Lemma slots_is_generated (k : kind) ran raw_oop raw_ip x y s :
  fst (slots_gen junk k ran raw_oop raw_ip) x y s = fst (slots junk k ran raw_oop raw_ip) x y s /\
  snd (slots_gen junk k ran raw_oop raw_ip) x s = snd (slots junk k ran raw_oop raw_ip) x s.
Proof.
  unfold slots_gen, new_slots. destruct k; cbn [slots fst snd]; split; try reflexivity.
  - apply default_ip_is_generated.
  - apply (default_oop_is_generated junk).
Qed.
End AnyImplNum.

Section AnyImplDummy.
End AnyImplDummy.

(* ================================================================== *)
(* Part 2: operator trees over the translated classes and primitive leaves *)
Section Trees.
Variable junk : nat -> nat -> VR.
Notation opR := (@op VR).

Lemma cls_vec_ok (c : cls) (I : @inst VR) ran ro sc F :
  c_kind c = KBoth -> i_ran I = RSp ran ->
  raw_oop_vec (fun x => exec_body junk I (c_oop c) x None) (i_dom I) ran ro F ->
  raw_ip_vec (fun x o => exec_body junk I (c_ip c) x (Some o)) (i_dom I) ran ro sc F ->
  vec_ok (cls_sem junk c I) ran ro sc F.
Proof.
  intros Hk Hr Ho Hi. unfold cls_sem. rewrite Hk, Hr.
  apply (slots_vec junk KBoth (i_dom I) ran ro sc F); [intros _; assumption | intros _; assumption | discriminate].
Qed.

Lemma cls_vec_ok_ip (c : cls) (I : @inst VR) ran ro F :
  c_kind c = KIp -> i_ran I = RSp ran ->
  raw_ip_vec (fun x o => exec_body junk I (c_ip c) x (Some o)) (i_dom I) ran ro [] F ->
  vec_ok (cls_sem junk c I) ran ro [] F.
Proof.
  intros Hk Hr Hi. unfold cls_sem. rewrite Hk, Hr.
  apply (slots_vec junk KIp (i_dom I) ran ro [] F (fun x => exec_body junk I (c_oop c) x None)
           (fun x o => exec_body junk I (c_ip c) x (Some o)));
    [intros [Q|Q]; discriminate | intros _; assumption | reflexivity].
Qed.

Notation qr c := (@of_Q R _ c).

(* [den ro o dom ran c F]: o is a well-formed operator tree dom -> ran (the constructors
   repeat the checks of the __init__ methods), F is the function it denotes, c lists
   the user-supplied temporaries (tmp=, tmp_ran=) of the tree with their spaces: they
   must be pairwise distinct objects.  [ro] lists the elements owned by the operators
   of the tree (self.vector, ...) with their contents. *)
Inductive den (ro : ro_t) : opR -> space -> space -> scr_t -> (list R -> list R) -> Prop :=
| D_Leaf k f dom ran F : pf_clean f dom ran F ->
    den ro (Lf {| lf_kind := k; lf_fun := f; lf_alias := false; lf_quirk := QNone |} dom (RSp ran)) dom ran [] F
| D_Alias f sp : pf_scalar f = (fun _ => None) ->
    den ro (Lf {| lf_kind := KOop; lf_fun := f; lf_alias := true; lf_quirk := QNone |} sp (RSp sp)) sp sp [] (fun d => d)
| D_Scaling sp a :
    den ro (Op cls_ScalingOperator sp (RSp sp) [Some a] [] [] []) sp sp [] (fun d => rscal a d)
| D_ZeroSame sp :
    den ro (Op cls_ZeroOperator_same sp (RSp sp) [] [] [] []) sp sp [] (fun d => rscal (0 / 1) d)
| D_ZeroDiff dom ran :
    den ro (Op cls_ZeroOperator_diff dom (RSp ran) [] [] [] []) dom ran [] (fun _ => repeat 0%R (fst ran))
| D_Constant dom ran v dv : In (v, ran, dv) ro ->
    den ro (Op cls_ConstantOperator dom (RSp ran) [] [v] [] []) dom ran [] (fun _ => dv)
| D_Multiply sp v dv : In (v, sp, dv) ro ->
    den ro (Op cls_MultiplyOperator sp (RSp sp) [] [v] [] []) sp sp [] (fun d => rmul dv d)
(* proximal factories of odl/solvers/nonsmooth/proximal_operators.py (scalar sigma, lam) *)
| D_ProxL2Sq sp sig lam : (qr (1 # 1) + qr (2 # 1) * sig * lam <> 0)%R ->
    den ro (Op cls_ProximalL2Squared sp (RSp sp) [Some sig; Some lam] [] [] []) sp sp []
        (fun d => rscal (qr (1 # 1) / (qr (1 # 1) + qr (2 # 1) * sig * lam)) d)
| D_ProxL2Sq_g sp sig lam v dv : (qr (1 # 1) + qr (2 # 1) * sig * lam <> 0)%R -> In (v, sp, dv) ro ->
    den ro (Op cls_ProximalL2Squared_g sp (RSp sp) [Some sig; Some lam] [v] [] []) sp sp []
        (fun d => rlin (qr (1 # 1) / (qr (1 # 1) + qr (2 # 1) * sig * lam))
                       (qr (2 # 1) * sig * lam / (qr (1 # 1) + qr (2 # 1) * sig * lam)) d dv)
| D_ProxCCL2Sq sp sig lam : lam <> 0%R -> (qr (1 # 1) + qr (1 # 2) * sig / lam <> 0)%R ->
    den ro (Op cls_ProximalConvexConjL2Squared sp (RSp sp) [Some sig; Some lam] [] [] []) sp sp []
        (fun d => rscal (qr (1 # 1) / (qr (1 # 1) + qr (1 # 2) * sig / lam)) d)
| D_ProxCCL2Sq_g sp sig lam v dv : lam <> 0%R -> (qr (1 # 1) + qr (1 # 2) * sig / lam <> 0)%R -> In (v, sp, dv) ro ->
    den ro (Op cls_ProximalConvexConjL2Squared_g sp (RSp sp) [Some sig; Some lam] [v] [] []) sp sp []
        (fun d => rlin (qr (1 # 1) / (qr (1 # 1) + qr (1 # 2) * sig / lam))
                       (- sig / (qr (1 # 1) + qr (1 # 2) * sig / lam)) d dv)
| D_ProxL1 sp sig lam : (sig * lam <> 0)%R ->
    den ro (Op cls_ProximalL1 sp (RSp sp) [Some sig; Some lam] [] [] []) sp sp []
        (fun d => rlin (qr (1 # 1)) (qr ((-1) # 1)) d (soft (sig * lam) d))
| D_ProxL1_g sp sig lam v dv : (sig * lam <> 0)%R -> In (v, sp, dv) ro ->
    den ro (Op cls_ProximalL1_g sp (RSp sp) [Some sig; Some lam] [v] [] []) sp sp []
        (fun d => rlin (qr (1 # 1)) (qr ((-1) # 1)) d (soft (sig * lam) (rlin 1 (-1) d dv)))
| D_ProxCCL1 sp sig lam : (0 < lam)%R ->
    den ro (Op cls_ProximalConvexConjL1 sp (RSp sp) [Some sig; Some lam] [] [] []) sp sp [] (fun d => ccl1 lam d)
| D_ProxCCL1_g sp sig lam v dv : (0 < lam)%R -> In (v, sp, dv) ro ->
    den ro (Op cls_ProximalConvexConjL1_g sp (RSp sp) [Some sig; Some lam] [v] [] []) sp sp []
        (fun d => ccl1 lam (rlin (qr (1 # 1)) (- sig) d dv))
| D_BoxBoth sp lo hi :
    den ro (Op cls_ProxBox_both sp (RSp sp) [Some lo; Some hi] [] [] []) sp sp []
        (fun d => map (fun v => Rmin v hi) (map (fun v => Rmax v lo) d))
| D_BoxLower sp lo hi :
    den ro (Op cls_ProxBox_lower sp (RSp sp) [Some lo; hi] [] [] []) sp sp [] (fun d => map (fun v => Rmax v lo) d)
| D_BoxUpper sp lo hi :
    den ro (Op cls_ProxBox_upper sp (RSp sp) [lo; Some hi] [] [] []) sp sp [] (fun d => map (fun v => Rmin v hi) d)
| D_BoxNone sp pars :
    den ro (Op cls_ProxBox_none sp (RSp sp) pars [] [] []) sp sp [] (fun d => d)
| D_Sum l r dom ran cl_ cr ot od Fl Fr : den ro l dom ran cl_ Fl -> den ro r dom ran cr Fr ->
    NoDup (scr_ids (own_scr ot ran ++ cl_ ++ cr)) ->
    den ro (Op cls_OperatorSum dom (RSp ran) [] [] [ot; od] [l; r]) dom ran (own_scr ot ran ++ cl_ ++ cr)
        (fun d => radd (Fl d) (Fr d))
| D_VecSum a dom ran c F v dv : den ro a dom ran c F -> In (v, ran, dv) ro ->
    den ro (Op cls_OperatorVectorSum dom (RSp ran) [] [v] [] [a]) dom ran c (fun d => radd (F d) dv)
| D_Comp l r dom mid ran cl_ cr ot Fl Fr : den ro l mid ran cl_ Fl -> den ro r dom mid cr Fr ->
    NoDup (scr_ids (own_scr ot mid ++ cl_ ++ cr)) ->
    den ro (Op cls_OperatorComp dom (RSp ran) [] [] [ot] [l; r]) dom ran (own_scr ot mid ++ cl_ ++ cr)
        (fun d => Fl (Fr d))
| D_PProd l r dom ran cl_ cr Fl Fr : den ro l dom ran cl_ Fl -> den ro r dom ran cr Fr ->
    (forall i, In i (scr_ids cl_) -> ~ In i (scr_ids cr)) ->
    den ro (Op cls_OperatorPointwiseProduct dom (RSp ran) [] [] [] [l; r]) dom ran (cl_ ++ cr)
        (fun d => rmul (Fl d) (Fr d))
| D_LScal a dom ran c F k : den ro a dom ran c F ->
    den ro (Op cls_OperatorLeftScalarMult dom (RSp ran) [Some k] [] [] [a]) dom ran c (fun d => rscal k (F d))
| D_RScal a dom ran c ot F k : den ro a dom ran c F -> NoDup (scr_ids (own_scr ot dom ++ c)) ->
    den ro (Op cls_OperatorRightScalarMult dom (RSp ran) [Some k] [] [ot] [a]) dom ran (own_scr ot dom ++ c)
        (fun d => F (rscal k d))
| D_FLVec f dom ran g v dv : dens ro f dom g -> In (v, ran, dv) ro ->
    den ro (Op cls_FunctionalLeftVectorMult dom (RSp ran) [] [v] [] [f]) dom ran [] (fun d => rscal (g d) dv)
| D_LVec a dom ran c F v dv : den ro a dom ran c F -> In (v, ran, dv) ro ->
    den ro (Op cls_OperatorLeftVectorMult dom (RSp ran) [] [v] [] [a]) dom ran c (fun d => rmul dv (F d))
| D_RVec a dom ran c F v dv : den ro a dom ran c F -> In (v, dom, dv) ro ->
    den ro (Op cls_OperatorRightVectorMult dom (RSp ran) [] [v] [] [a]) dom ran c (fun d => F (rmul d dv))
(* [dens ro o dom g]: o is a well-formed tree with a FIELD range (a functional) denoting g *)
with dens (ro : ro_t) : opR -> space -> (list R -> R) -> Prop :=
| DS_Leaf k f al dom g : k <> KIp -> pf_sc_clean f dom g ->
    dens ro (Lf {| lf_kind := k; lf_fun := f; lf_alias := al; lf_quirk := QNone |} dom RField) dom g
| DS_Sum l r dom gl gr ot od : dens ro l dom gl -> dens ro r dom gr ->
    dens ro (Op cls_OperatorSum dom RField [] [] [ot; od] [l; r]) dom (fun d => (gl d + gr d)%R)
| DS_PProd l r dom gl gr : dens ro l dom gl -> dens ro r dom gr ->
    dens ro (Op cls_OperatorPointwiseProduct dom RField [] [] [] [l; r]) dom (fun d => (gl d * gr d)%R)
| DS_LScal a dom g c : dens ro a dom g ->
    dens ro (Op cls_OperatorLeftScalarMult dom RField [Some c] [] [] [a]) dom (fun d => (c * g d)%R)
| DS_RScal a dom g c ot : dens ro a dom g ->
    dens ro (Op cls_OperatorRightScalarMult dom RField [Some c] [] [ot] [a]) dom (fun d => g (rscal c d))
| DS_Comp l r dom mid g cr ot Fr : dens ro l mid g -> den ro r dom mid cr Fr ->
    dens ro (Op cls_OperatorComp dom RField [] [] [ot] [l; r]) dom (fun d => g (Fr d))
| DS_RVec a dom g v dv : dens ro a dom g -> In (v, dom, dv) ro ->
    dens ro (Op cls_OperatorRightVectorMult dom RField [] [v] [] [a]) dom (fun d => g (rmul d dv)).

Scheme den_mut := Induction for den Sort Prop
  with dens_mut := Induction for dens Sort Prop.
Combined Scheme den_dens_ind from den_mut, dens_mut.

Lemma cls_sc_ok (c : cls) (I : @inst VR) ro g :
  c_kind c = KBoth -> i_ran I = RField ->
  raw_oop_sc (fun x => exec_body junk I (c_oop c) x None) (i_dom I) ro g ->
  sc_ok (cls_sem junk c I) ro g.
Proof.
  intros Hk Hr Ho. unfold cls_sem. rewrite Hk, Hr. cbn [slots]. apply public_sc. exact Ho.
Qed.

Lemma den_dens_ok ro :
  (forall o dom ran c F, den ro o dom ran c F -> o_dom (sem junk o) = dom /\ vec_ok (sem junk o) ran ro c F) /\
  (forall o dom g, dens ro o dom g -> o_dom (sem junk o) = dom /\ sc_ok (sem junk o) ro g).
Proof.
  apply den_dens_ind.
  - (* primitive leaf, any dispatch kind *)
    intros k f dom ran F Hf.
    cbn [sem]. unfold leaf_sem. cbn [lf_kind]. split; [destruct k; reflexivity|].
    pose proof (slots_vec junk k dom ran ro [] F
                  (leaf_raw_oop {| lf_kind := k; lf_fun := f; lf_alias := false; lf_quirk := QNone |})
                  (leaf_raw_ip {| lf_kind := k; lf_fun := f; lf_alias := false; lf_quirk := QNone |})) as S.
    destruct (slots junk k (RSp ran) _ _) as [ip oop]. apply S; intros _.
    + apply leaf_oop; exact Hf.
    + apply leaf_ip; exact Hf.
    + reflexivity.
  - (* leaf returning its argument (RealPart on a real space) *)
    intros f sp Hs.
    cbn [sem]. unfold leaf_sem. cbn [lf_kind slots]. split; [reflexivity|].
    split; [reflexivity|]. split.
    + apply public_oop. apply leaf_alias_oop; exact Hs.
    + apply public_ip. apply bridge_ip. apply leaf_alias_oop; exact Hs.
  - intros sp a. cbn [sem map]. split; [reflexivity|].
    apply cls_vec_ok; [reflexivity | reflexivity | apply scaling_oop | apply scaling_ip].
  - intros sp. cbn [sem map]. split; [reflexivity|].
    apply cls_vec_ok; [reflexivity | reflexivity | apply zero_same_oop | apply zero_same_ip].
  - intros dom ran. cbn [sem map]. split; [reflexivity|].
    apply cls_vec_ok; [reflexivity | reflexivity | apply zero_diff_oop | apply zero_diff_ip].
  - intros dom ran v dv Iv. cbn [sem map]. split; [reflexivity|].
    apply cls_vec_ok; [reflexivity | reflexivity | apply constant_oop; exact Iv | apply constant_ip; exact Iv].
  - intros sp v dv Iv. cbn [sem map]. split; [reflexivity|].
    apply cls_vec_ok; [reflexivity | reflexivity | apply multiply_oop; exact Iv | apply multiply_ip; exact Iv].
  - intros sp sig lam Hnz. cbn [sem map]. split; [reflexivity|].
    apply cls_vec_ok_ip; [reflexivity | reflexivity | apply prox_l2sq_ip; exact Hnz].
  - intros sp sig lam v dv Hnz Iv. cbn [sem map]. split; [reflexivity|].
    apply cls_vec_ok_ip; [reflexivity | reflexivity | apply prox_l2sq_g_ip; assumption].
  - intros sp sig lam Hl Hnz. cbn [sem map]. split; [reflexivity|].
    apply cls_vec_ok_ip; [reflexivity | reflexivity | apply prox_cc_l2sq_ip; assumption].
  - intros sp sig lam v dv Hl Hnz Iv. cbn [sem map]. split; [reflexivity|].
    apply cls_vec_ok_ip; [reflexivity | reflexivity | apply prox_cc_l2sq_g_ip; assumption].
  - intros sp sig lam Hnz. cbn [sem map]. split; [reflexivity|].
    apply cls_vec_ok_ip; [reflexivity | reflexivity | apply prox_l1_ip; exact Hnz].
  - intros sp sig lam v dv Hnz Iv. cbn [sem map]. split; [reflexivity|].
    apply cls_vec_ok_ip; [reflexivity | reflexivity | apply prox_l1_g_ip; assumption].
  - intros sp sig lam Hl. cbn [sem map]. split; [reflexivity|].
    apply cls_vec_ok_ip; [reflexivity | reflexivity | apply prox_cc_l1_ip; exact Hl].
  - intros sp sig lam v dv Hl Iv. cbn [sem map]. split; [reflexivity|].
    apply cls_vec_ok_ip; [reflexivity | reflexivity | apply prox_cc_l1_g_ip; assumption].
  - intros sp lo hi. cbn [sem map]. split; [reflexivity|].
    apply cls_vec_ok_ip; [reflexivity | reflexivity | apply box_both_ip].
  - intros sp lo hi. cbn [sem map]. split; [reflexivity|].
    apply cls_vec_ok_ip; [reflexivity | reflexivity | apply box_lower_ip].
  - intros sp lo hi. cbn [sem map]. split; [reflexivity|].
    apply cls_vec_ok_ip; [reflexivity | reflexivity | apply box_upper_ip].
  - intros sp pars. cbn [sem map]. split; [reflexivity|].
    apply cls_vec_ok_ip; [reflexivity | reflexivity | apply box_none_ip].
  - intros l r dom ran cl_ cr ot od Fl Fr Dl [Hdl Hl] Dr [Hdr Hr] ND. cbn [sem map]. split; [reflexivity|].
    apply cls_vec_ok; [reflexivity | reflexivity | eapply sum_oop; eassumption | apply sum_ip; assumption].
  - intros a dom ran c F v dv Da [Hda Ha] Iv. cbn [sem map]. split; [reflexivity|].
    apply cls_vec_ok; [reflexivity | reflexivity | eapply vecsum_oop; eassumption | apply vecsum_ip; assumption].
  - intros l r dom mid ran cl_ cr ot Fl Fr Dl [Hdl Hl] Dr [Hdr Hr] ND. cbn [sem map]. split; [reflexivity|].
    apply cls_vec_ok; [reflexivity | reflexivity | eapply comp_oop; eassumption | eapply comp_ip; eassumption].
  - intros l r dom ran cl_ cr Fl Fr Dl [Hdl Hl] Dr [Hdr Hr] ND. cbn [sem map]. split; [reflexivity|].
    apply cls_vec_ok; [reflexivity | reflexivity | eapply pprod_oop; eassumption | apply pprod_ip; assumption].
  - intros a dom ran c F k Da [Hda Ha]. cbn [sem map]. split; [reflexivity|].
    apply cls_vec_ok; [reflexivity | reflexivity | eapply lscal_oop; eassumption | apply lscal_ip; assumption].
  - intros a dom ran c ot F k Da [Hda Ha] ND. cbn [sem map]. split; [reflexivity|].
    apply cls_vec_ok; [reflexivity | reflexivity | eapply rscal_oop; eassumption | apply rscal_ip; assumption].
  - intros f dom ran g v dv Df [Hdf Hf] Iv. cbn [sem map]. split; [reflexivity|].
    apply cls_vec_ok; [reflexivity | reflexivity | apply flvec_oop; assumption | apply flvec_ip; assumption].
  - intros a dom ran c F v dv Da [Hda Ha] Iv. cbn [sem map]. split; [reflexivity|].
    apply cls_vec_ok; [reflexivity | reflexivity | eapply lvec_oop; eassumption | apply lvec_ip; assumption].
  - intros a dom ran c F v dv Da [Hda Ha] Iv. cbn [sem map]. split; [reflexivity|].
    apply cls_vec_ok; [reflexivity | reflexivity | eapply rvec_oop; eassumption | apply rvec_ip; assumption].
  - (* functional leaf *)
    intros k f al dom g Hk Hf.
    cbn [sem]. unfold leaf_sem. cbn [lf_kind].
    destruct k; try congruence; cbn [slots]; (split; [reflexivity|]); apply public_sc; apply leaf_sc; exact Hf.
  - intros l r dom gl gr ot od Dl [Hdl Hl] Dr [Hdr Hr]. cbn [sem map]. split; [reflexivity|].
    apply cls_sc_ok; [reflexivity | reflexivity | apply fsum_sc; assumption].
  - intros l r dom gl gr Dl [Hdl Hl] Dr [Hdr Hr]. cbn [sem map]. split; [reflexivity|].
    apply cls_sc_ok; [reflexivity | reflexivity | apply fpprod_sc; assumption].
  - intros a dom g c Da [Hda Ha]. cbn [sem map]. split; [reflexivity|].
    apply cls_sc_ok; [reflexivity | reflexivity | apply flscal_sc; assumption].
  - intros a dom g c ot Da [Hda Ha]. cbn [sem map]. split; [reflexivity|].
    apply cls_sc_ok; [reflexivity | reflexivity | apply frscal_sc; assumption].
  - intros l r dom mid g cr ot Fr Dl [Hdl Hl] Dr [Hdr Hr]. cbn [sem map]. split; [reflexivity|].
    apply cls_sc_ok; [reflexivity | reflexivity | eapply fcomp_sc; eassumption].
  - intros a dom g v dv Da [Hda Ha] Iv. cbn [sem map]. split; [reflexivity|].
    apply cls_sc_ok; [reflexivity | reflexivity | apply frvec_sc; assumption].
Qed.

Theorem den_ok ro o dom ran c F :
  den ro o dom ran c F -> o_dom (sem junk o) = dom /\ vec_ok (sem junk o) ran ro c F.
Proof. apply (proj1 (den_dens_ok ro)). Qed.
Theorem dens_ok ro o dom g : dens ro o dom g -> o_dom (sem junk o) = dom /\ sc_ok (sem junk o) ro g.
Proof. apply (proj2 (den_dens_ok ro)). Qed.

(* every operator's public call is Operator.__call__ around SOME pair of slots *)
Lemma sem_call_shape (o : opR) :
  exists ip oop, o_call (sem junk o) = public_call junk (o_dom (sem junk o)) (o_ran (sem junk o)) ip oop.
Proof.
  destruct o as [c dm rn pars vecs owns kids | l dm rn]; cbn [sem].
  - unfold cls_sem. destruct (slots junk (c_kind c) _ _ _) as [ip oop]. exists ip, oop. reflexivity.
  - unfold leaf_sem. destruct (slots junk (lf_kind l) _ _ _) as [ip oop]. exists ip, oop. reflexivity.
Qed.

(* functionals: op(x) returns the scalar g(x), nothing is modified; any out is rejected *)
Theorem protocol_all_functionals ro o dom g :
  dens ro o dom g ->
  forall (s : storeR) x dx, wf_store s -> good ro s -> rd s x = Some (dom, cl dx) ->
    (exists s1, call junk o (VElem x) None s = Ok (VSc (Some (g dx))) s1 /\
       forall i, (i < length s)%nat -> rd s1 i = rd s i) /\
    (forall y, in_rsp RField y s = true -> call junk o (VElem x) (Some y) s = Err EFunctionalOut s) /\
    (forall y, in_rsp RField y s = false -> call junk o (VElem x) (Some y) s = Err ERange s).
Proof.
  intros D s x dx W G Ex.
  destruct (dens_ok _ _ _ _ D) as (Hd & Hr & Hsc). unfold call.
  rewrite <- Hd in Ex. splits.
  - destruct (Hsc s x dx W G Ex) as (s1 & Hc & E1 & _). exists s1. split; [exact Hc|].
    intros i Li. eapply ext_same; [exact E1 | exact Li | intros []].
  - intros y Hy. destruct (sem_call_shape o) as (ip & oop & ->). rewrite Hr.
    apply rejects_functional_out_any; [eapply in_space_elem; exact Ex | exact Hy].
  - intros y Hy. destruct (sem_call_shape o) as (ip & oop & ->). rewrite Hr.
    apply rejects_range_any; [eapply in_space_elem; exact Ex | exact Hy].
Qed.

(* ---- the property, spelled out for every tree ---- *)
Definition untouched_except (s s' : storeR) (m : list nat) : Prop :=
  forall i, (i < length s)%nat -> ~ In i m -> rd s' i = rd s i.

Theorem protocol_all_trees ro o dom ran c F :
  den ro o dom ran c F ->
  forall (s : storeR) x y dx dy,
    wf_store s -> good ro s ->
    rd s x = Some (dom, cl dx) ->          (* x: any NaN-free element of the domain *)
    rd s y = Some (ran, dy) ->             (* y: an element of the range with ARBITRARY contents *)
    x <> y -> ~ In y (ro_ids ro) ->
    scr_ok c ro s x y ->                   (* user temporaries exist and are neither x, y nor read-only *)
    (* op(x) *)
    (exists r s1, call junk o (VElem x) None s = Ok (VElem r) s1 /\
        rd s1 r = Some (ran, cl (F dx)) /\ untouched_except s s1 [] /\ (r = x \/ (length s <= r)%nat)) /\
    (* op(x, out=y) *)
    (exists s2, call junk o (VElem x) (Some (VElem y)) s = Ok (VElem y) s2 /\
        rd s2 y = Some (ran, cl (F dx)) /\ untouched_except s s2 (y :: scr_ids c)).
Proof.
  intros D s x y dx dy W G Ex Ey Nxy Ny Hs.
  destruct (den_ok _ _ _ _ _ _ D) as (Hd & _ & Hoop & Hip). unfold call.
  rewrite <- Hd in Ex. split.
  - destruct (Hoop s x dx W G Ex) as (r & s1 & Hc & Er & E1 & _ & Hr).
    exists r, s1. splits; auto. intros i Li Ni. eapply ext_same; eassumption.
  - destruct (Hip s x y dx dy W G Ex Ey Nxy Ny Hs) as (s2 & Hc & Er & E2 & _).
    exists s2. splits; auto. intros i Li Ni. eapply ext_same; eassumption.
Qed.
End Trees.

(* ================================================================== *)
(* Part 3: what set_zero does to NaN / uninitialised memory *)
Section SetZero.
Notation sR := (@store VR).

(* below THRESHOLD_SMALL entries the unguarded variant of y.set_zero() evaluates
   0*y + 0*y: a NaN stays a NaN *)
Lemma set_zero_small_keeps_nan :
  exists (s s' : sR) y sp,
    rd s y = Some (sp, [None]) /\ do_set_zero_g SvUnguarded y s = Ok tt s' /\ rd s' y = Some (sp, [None]).
Proof.
  exists [((1, 0)%nat, [None])], [((1, 0)%nat, [None])], 0%nat, (1, 0)%nat.
  splits; reflexivity.
Qed.
(* from THRESHOLD_SMALL entries on the zero assignment ignores the old contents (either variant) *)
Lemma set_zero_g_large_clean (g : small_variant) (s : sR) y sp d :
  rd s y = Some (sp, d) -> (threshold_small <= length d)%nat ->
  do_set_zero_g g y s = Ok tt (upd s y (sp, cl (repeat 0%R (length d)))).
Proof.
  intros E L. unfold do_set_zero_g, do_lincomb_g. rewrite E, sp_eqb_refl. cbn [andb].
  unfold lincomb_data_g. assert (Q : (length d <? threshold_small)%nat = false) by (apply Nat.ltb_ge; exact L).
  rewrite Q, !Nat.eqb_refl. unfold lincomb_tree, nneqb. cbn [andb].
  cbn [nzero neqb nadd Num_opt ocmp olift2 Num_R].
  destruct (Reqb_spec 0 0) as [_|N]; [|lra]. cbn [negb andb].
  cbn [nzero neqb nadd Num_opt ocmp olift2 Num_R].
  destruct (Reqb_spec (0 + 0) 0) as [_|N]; [|lra]. cbn [negb].
  rewrite zeros_cl. reflexivity.
Qed.
Lemma set_zero_large_clean (s : sR) y sp d :
  rd s y = Some (sp, d) -> (threshold_small <= length d)%nat ->
  do_set_zero y s = Ok tt (upd s y (sp, cl (repeat 0%R (length d)))).
Proof. apply (set_zero_g_large_clean small_guarded). Qed.
(* both repaired variants ignore the old contents at EVERY size *)
Lemma set_zero_guarded_ignores_old (g : small_variant) (s : sR) y sp d :
  g <> SvUnguarded -> rd s y = Some (sp, d) ->
  do_set_zero_g g y s = Ok tt (upd s y (sp, cl (repeat 0%R (length d)))).
Proof.
  intros Hg E. destruct (Nat.lt_ge_cases (length d) threshold_small) as [L|L].
  - unfold do_set_zero_g, do_lincomb_g. rewrite E, sp_eqb_refl. cbn [andb].
    unfold lincomb_data_g. apply Nat.ltb_lt in L. rewrite L. unfold lincomb_small.
    destruct g; [congruence| |];
      cbn [nzero neqb Num_opt ocmp Num_R]; (destruct (Reqb_spec 0 0) as [_|N]; [|lra]); cbn [andb];
      rewrite zeros_cl; reflexivity.
  - apply set_zero_g_large_clean; assumption.
Qed.
(* and on NaN-free contents it is correct at every size *)
Lemma set_zero_clean (s : sR) y sp d :
  wf_store s -> rd s y = Some (sp, cl d) ->
  do_set_zero y s = Ok tt (upd s y (sp, cl (rscal 0 d))).
Proof.
  intros W E. unfold do_set_zero. change (@nzero VR _) with (Some 0%R).
  erewrite do_lincomb_clean by eassumption. f_equal. f_equal. f_equal. f_equal.
  unfold rlin, rscal. rewrite vmap2_self. apply map_ext. intros; lra.
Qed.
End SetZero.

(* ================================================================== *)
(* Part 4: the primitive kernels are clean maps (non-vacuity of [pf_clean]) *)
Section Kernels.
Lemma sumf_cl (l : list R) : sumf (cl l) = Some (sumf l).
Proof.
  induction l as [|a l IH]; [reflexivity|].
  cbn [cl map sumf] in *. unfold cl in IH. rewrite IH. reflexivity.
Qed.
Lemma dot_cl (r d : list R) : dot (cl r) (cl d) = Some (dot r d).
Proof. unfold dot, vmul. rewrite (vmap2_cl _ Rmult) by reflexivity. apply sumf_cl. Qed.

Lemma pabs_clean sp : pf_clean PAbs sp sp (map Rabs).
Proof.
  split; [reflexivity|]. intros d L. split; [|rewrite map_length; exact L].
  cbn [pf_vec]. apply map_cl. reflexivity.
Qed.
Lemma psquare_clean sp : pf_clean PSquare sp sp (map (fun u => u * u)%R).
Proof.
  split; [reflexivity|]. intros d L. split; [|rewrite map_length; exact L].
  cbn [pf_vec]. apply map_cl. reflexivity.
Qed.
Lemma pident_clean sp : pf_clean PIdent sp sp (fun d => d).
Proof. split; [reflexivity|]. intros d L. split; [reflexivity | exact L]. Qed.
Lemma pconst_clean dom ran c : length c = fst ran -> pf_clean (PConst (cl c)) dom ran (fun _ => c).
Proof. intros Lc. split; [reflexivity|]. intros d L. split; [reflexivity | exact Lc]. Qed.
Lemma pmat_clean dom ran (m : list (list R)) : length m = fst ran ->
  pf_clean (PMat (map cl m)) dom ran (fun d => map (fun r => dot r d) m).
Proof.
  intros Lm. split; [reflexivity|]. intros d L. split; [|rewrite map_length; exact Lm].
  cbn [pf_vec]. unfold mvec, cl. rewrite !map_map. apply map_ext. intros r. apply dot_cl.
Qed.
Lemma pinner_clean dom (w : list R) : pf_sc_clean (PInner (cl w)) dom (fun d => dot d w).
Proof. intros d L. cbn [pf_scalar]. rewrite dot_cl. reflexivity. Qed.
Lemma psumsq_clean dom : pf_sc_clean PSumSq dom (fun d => dot d d).
Proof. intros d L. cbn [pf_scalar]. rewrite dot_cl. reflexivity. Qed.
End Kernels.

(* ================================================================== *)
(* Part 5: proximal_l2 in the branch step >= 1 (body: out.set_zero()) *)
Section ProxL2.
Variable junk : nat -> nat -> VR.
Definition prox_l2_bigstep (sp : space) : @op VR := Op cls_ProximalL2_bigstep sp (RSp sp) [] [] [] [].

(* from THRESHOLD_SMALL entries on: zero, whatever out (and x) contained *)
Lemma prox_bigstep_ip_large sp (s : storeR) x y dx dy :
  wf_store s -> rd s x = Some (sp, dx) -> rd s y = Some (sp, dy) -> (threshold_small <= fst sp)%nat ->
  call junk (prox_l2_bigstep sp) (VElem x) (Some (VElem y)) s
  = Ok (VElem y) (upd s y (sp, cl (repeat 0%R (fst sp)))).
Proof.
  intros W Ex Ey L. unfold call, prox_l2_bigstep. cbn [sem map]. unfold cls_sem.
  cbn [c_kind cls_ProximalL2_bigstep i_ran i_dom slots o_call].
  unfold public_call.
  rewrite (bind_Ok _ _ s true s) by (rewrite (in_space_elem _ _ _ _ Ex); reflexivity).
  cbn [ret]. rewrite (bind_Ok _ _ s (Some (VElem x)) s) by reflexivity.
  rewrite (bind_Ok _ _ s true s) by (cbn; rewrite Ey, sp_eqb_refl; reflexivity).
  cbn [negb].
  pose proof (W _ _ _ Ey) as Ly.
  assert (Hb : exec_body junk
            {| i_dom := sp; i_ran := RSp sp; i_pars := []; i_vecs := []; i_owns := []; i_kids := [] |}
            (c_ip cls_ProximalL2_bigstep) (VElem x) (Some (VElem y)) s
          = Ok VNone (upd s y (sp, cl (repeat 0%R (fst sp))))).
  { unfold cls_ProximalL2_bigstep.
    cbv beta iota zeta delta [exec_body exec_sts exec_st b_st b_ret c_ip lookup ref_id elem_id lift_opt
                              e_x e_out e_tmp e_sc e_last bind ret fail].
    rewrite (set_zero_large_clean s y sp dy Ey) by (rewrite Ly; exact L). rewrite Ly. reflexivity. }
  rewrite (bind_Ok _ _ _ _ _ Hb). reflexivity.
Qed.
End ProxL2.

(* ================================================================== *)
(* Part 6: the CURRENT source (small_guarded regenerated from _lincomb_impl):
   set_zero ignores the old contents at every size.  These proofs break if the
   small-size branch goes back to the unguarded form. *)
Section Current.
Variable junk : nat -> nat -> VR.
Notation sR := (@store VR).

Lemma small_branch_repaired : small_guarded <> SvUnguarded.
Proof. unfold small_guarded. discriminate. Qed.

Lemma set_zero_ignores_old (s : sR) y sp d :
  rd s y = Some (sp, d) -> do_set_zero y s = Ok tt (upd s y (sp, cl (repeat 0%R (length d)))).
Proof. apply (set_zero_guarded_ignores_old small_guarded). exact small_branch_repaired. Qed.

(* proximal_l2 in the branch step >= 1, in place: zeros at EVERY size, whatever out and x hold *)
Lemma prox_bigstep_ip_any sp (s : sR) x y dx dy :
  wf_store s -> rd s x = Some (sp, dx) -> rd s y = Some (sp, dy) ->
  call junk (prox_l2_bigstep sp) (VElem x) (Some (VElem y)) s
  = Ok (VElem y) (upd s y (sp, cl (repeat 0%R (fst sp)))).
Proof.
  intros W Ex Ey. unfold call, prox_l2_bigstep. cbn [sem map]. unfold cls_sem.
  cbn [c_kind cls_ProximalL2_bigstep i_ran i_dom slots o_call].
  unfold public_call.
  rewrite (bind_Ok _ _ s true s) by (rewrite (in_space_elem _ _ _ _ Ex); reflexivity).
  cbn [ret]. rewrite (bind_Ok _ _ s (Some (VElem x)) s) by reflexivity.
  rewrite (bind_Ok _ _ s true s) by (cbn; rewrite Ey, sp_eqb_refl; reflexivity).
  cbn [negb].
  pose proof (W _ _ _ Ey) as Ly.
  assert (Hb : exec_body junk
            {| i_dom := sp; i_ran := RSp sp; i_pars := []; i_vecs := []; i_owns := []; i_kids := [] |}
            (c_ip cls_ProximalL2_bigstep) (VElem x) (Some (VElem y)) s
          = Ok VNone (upd s y (sp, cl (repeat 0%R (fst sp))))).
  { unfold cls_ProximalL2_bigstep.
    cbv beta iota zeta delta [exec_body exec_sts exec_st b_st b_ret c_ip lookup ref_id elem_id lift_opt
                              e_x e_out e_tmp e_sc e_last bind ret fail].
    rewrite (set_zero_ignores_old s y sp dy Ey). rewrite Ly. reflexivity. }
  rewrite (bind_Ok _ _ _ _ _ Hb). reflexivity.
Qed.

(* ... and out of place (through _default_call_out_of_place on an uninitialised element):
   a NEW element of zeros, whatever np.empty handed out *)
Lemma prox_bigstep_oop_any sp (s : sR) x dx :
  wf_store s -> rd s x = Some (sp, dx) ->
  call junk (prox_l2_bigstep sp) (VElem x) None s
  = Ok (VElem (length s)) (s ++ [(sp, cl (repeat 0%R (fst sp)))]).
Proof.
  intros W Ex. unfold call, prox_l2_bigstep. cbn [sem map]. unfold cls_sem.
  cbn [c_kind cls_ProximalL2_bigstep i_ran i_dom slots o_call].
  unfold public_call.
  rewrite (bind_Ok _ _ s true s) by (rewrite (in_space_elem _ _ _ _ Ex); reflexivity).
  cbn [ret]. rewrite (bind_Ok _ _ s (Some (VElem x)) s) by reflexivity.
  set (t := length s). set (s1 := s ++ [(sp, junkbuf junk t (fst sp))]).
  set (s2 := s ++ [(sp, cl (repeat 0%R (fst sp)))]).
  assert (Et : rd s1 t = Some (sp, junkbuf junk t (fst sp))) by apply rd_app_new.
  assert (Hb : exec_body junk
            {| i_dom := sp; i_ran := RSp sp; i_pars := []; i_vecs := []; i_owns := []; i_kids := [] |}
            (c_ip cls_ProximalL2_bigstep) (VElem x) (Some (VElem t)) s1 = Ok VNone s2).
  { unfold cls_ProximalL2_bigstep.
    cbv beta iota zeta delta [exec_body exec_sts exec_st b_st b_ret c_ip lookup ref_id elem_id lift_opt
                              e_x e_out e_tmp e_sc e_last bind ret fail].
    rewrite (set_zero_ignores_old s1 t sp _ Et). rewrite junkbuf_length.
    unfold s1, s2, t. rewrite upd_app_last. reflexivity. }
  assert (Hd : default_oop junk (RSp sp)
                 (fun x0 o => exec_body junk
                    {| i_dom := sp; i_ran := RSp sp; i_pars := []; i_vecs := []; i_owns := []; i_kids := [] |}
                    (c_ip cls_ProximalL2_bigstep) x0 (Some o)) (VElem x) s = Ok (VElem t) s2).
  { unfold default_oop. rewrite (bind_Ok _ _ _ _ _ (alloc_empty_eq junk sp s)).
    fold t. fold s1. rewrite (bind_Ok _ _ _ _ _ Hb). reflexivity. }
  rewrite (bind_Ok _ _ _ _ _ Hd).
  rewrite (bind_Ok _ _ s2 true s2).
  2:{ cbn. unfold s2, t. rewrite rd_app_new, sp_eqb_refl. reflexivity. }
  reflexivity.
Qed.
End Current.
