(* C03/Poison.v -- the poisoned carrier [option T]: [None] stands for NaN /
   uninitialised memory.  Every arithmetic operation is strict in [None]
   (in particular 0 * None = None, as 0.0 * nan = nan in IEEE arithmetic), division
   by zero yields [None] (inf/nan), every comparison with [None] is false
   (nan == nan is False).  Definitions only. *)
From Coq Require Import ZArith QArith List Bool.
From Verif Require Import Base.Num.
Import ListNotations.

Section Poison.
Context {T : Type} `{Num T}.

Definition olift2 (f : T -> T -> T) (a b : option T) : option T :=
  match a, b with Some u, Some v => Some (f u v) | _, _ => None end.
Definition olift1 (f : T -> T) (a : option T) : option T :=
  match a with Some u => Some (f u) | None => None end.
Definition ocmp (f : T -> T -> bool) (a b : option T) : bool :=
  match a, b with Some u, Some v => f u v | _, _ => false end.
Definition odiv (a b : option T) : option T :=
  match a, b with
  | Some u, Some v => if neqb v nzero then None else Some (ndiv u v)
  | _, _ => None
  end.

Global Instance Num_opt : Num (option T) := {|
  nzero := Some nzero; none_ := Some none_;
  nadd := olift2 nadd; nsub := olift2 nsub; nmul := olift2 nmul; ndiv := odiv;
  nopp := olift1 nopp; nabs := olift1 nabs;
  nltb := ocmp nltb; nleb := ocmp nleb; neqb := ocmp neqb;
  of_Z := fun z => Some (of_Z z) |}.

Definition is_some (a : option T) : bool := match a with Some _ => true | None => false end.
End Poison.
