(* C03/Heap.v -- lemmas about the element arithmetic of C03/Model.v at the
   poisoned carrier [option R]: on clean (NaN-free) operands every regime and every
   alias pattern of lincomb computes the entry-wise real formula. *)
From Coq Require Import ZArith QArith Reals Lra Lia List Bool Arith.
From Verif Require Import Base.Num Base.Vec C03.Syntax Gen.C03Bodies C03.Poison C03.Model.
Import ListNotations.
Local Open Scope R_scope.

Notation VR := (option R).
Definition cl (d : list R) : list VR := map Some d.

Lemma cl_length d : length (cl d) = length d.
Proof. apply map_length. Qed.
Lemma cl_inj d d' : cl d = cl d' -> d = d'.
Proof.
  revert d'; induction d as [|a d IH]; intros [|b d'] E; cbn in E; try congruence.
  injection E as -> E. f_equal; auto.
Qed.

(* the Num operations of [option R] on defined values *)
Ltac numO := cbn [nzero none_ nadd nsub nmul ndiv nopp nabs nltb nleb neqb of_Z Num_opt olift2 olift1 ocmp
                  Num_R negb andb] in *.

Lemma vmap2_cl (g : VR -> VR -> VR) (g' : R -> R -> R) (d1 d2 : list R) :
  (forall u v, g (Some u) (Some v) = Some (g' u v)) ->
  vmap2 g (cl d1) (cl d2) = cl (vmap2 g' d1 d2).
Proof.
  intros Hg; revert d2; induction d1 as [|a d1 IH]; intros [|b d2]; cbn; try reflexivity.
  rewrite Hg. f_equal. apply IH.
Qed.
Lemma map_cl (g : VR -> VR) (g' : R -> R) (d : list R) :
  (forall u, g (Some u) = Some (g' u)) -> map g (cl d) = cl (map g' d).
Proof. intros Hg; unfold cl; induction d as [|a d IH]; cbn; [reflexivity|]. rewrite Hg, IH. reflexivity. Qed.

Lemma vmap2_ext (f g : R -> R -> R) (d1 d2 : list R) :
  (forall u v, f u v = g u v) -> vmap2 f d1 d2 = vmap2 g d1 d2.
Proof.
  intros E; revert d2; induction d1 as [|a d1 IH]; intros [|b d2]; cbn; try reflexivity.
  rewrite E, IH. reflexivity.
Qed.
Lemma vmap2_length (f : R -> R -> R) (d1 d2 : list R) :
  length d1 = length d2 -> length (vmap2 f d1 d2) = length d1.
Proof.
  revert d2; induction d1 as [|a d1 IH]; intros [|b d2] E; cbn in *; try congruence.
  f_equal. apply IH. congruence.
Qed.

Definition rlin (a b : R) (d1 d2 : list R) : list R := vmap2 (fun u v => a * u + b * v) d1 d2.

(* pointwise facts used by the leaves of the alias tree *)
Lemma map_vmap2_l (h : R -> R) (f : R -> R -> R) (d1 d2 : list R) :
  length d1 = length d2 -> (forall u v, h u = f u v) -> map h d1 = vmap2 f d1 d2.
Proof.
  revert d2; induction d1 as [|a d1 IH]; intros [|b d2] E Hf; cbn in *; try congruence.
  rewrite (Hf a b). f_equal. apply IH; [congruence | assumption].
Qed.
Lemma map_vmap2_r (h : R -> R) (f : R -> R -> R) (d1 d2 : list R) :
  length d1 = length d2 -> (forall u v, h v = f u v) -> map h d2 = vmap2 f d1 d2.
Proof.
  revert d2; induction d1 as [|a d1 IH]; intros [|b d2] E Hf; cbn in *; try congruence.
  rewrite (Hf a b). f_equal. apply IH; [congruence | assumption].
Qed.
Lemma repeat_vmap2 (c : R) (f : R -> R -> R) (d1 d2 : list R) :
  length d1 = length d2 -> (forall u v, c = f u v) -> repeat c (length d1) = vmap2 f d1 d2.
Proof.
  revert d2; induction d1 as [|a d1 IH]; intros [|b d2] E Hf; cbn in *; try congruence.
  rewrite <- (Hf a b). f_equal. apply IH; [congruence | assumption].
Qed.
Lemma map_const (h : R -> R) (c : R) (d : list R) : (forall u, h u = c) -> map h d = repeat c (length d).
Proof. intros E; induction d as [|a d IH]; cbn; [reflexivity|]. rewrite E, IH. reflexivity. Qed.
Lemma vmap2_self (f : R -> R -> R) (d : list R) : vmap2 f d d = map (fun u => f u u) d.
Proof. induction d as [|a d IH]; cbn; [reflexivity|]. rewrite IH. reflexivity. Qed.
Lemma id_vmap2_l (f : R -> R -> R) (d1 d2 : list R) :
  length d1 = length d2 -> (forall u v, u = f u v) -> d1 = vmap2 f d1 d2.
Proof.
  intros E Hf. rewrite <- (map_id d1) at 1. apply map_vmap2_l; assumption.
Qed.
Lemma id_vmap2_r (f : R -> R -> R) (d1 d2 : list R) :
  length d1 = length d2 -> (forall u v, v = f u v) -> d2 = vmap2 f d1 d2.
Proof.
  intros E Hf. rewrite <- (map_id d2) at 1. apply map_vmap2_r; assumption.
Qed.
Lemma vmap2_vmap2_r (g f : R -> R -> R) (h : R -> R) (d1 d2 : list R) :
  (forall u v, g u (h v) = f u v) -> vmap2 g d1 (map h d2) = vmap2 f d1 d2.
Proof.
  intros E; revert d2; induction d1 as [|a d1 IH]; intros [|b d2]; cbn; try reflexivity.
  rewrite E, IH. reflexivity.
Qed.
Lemma vmap2_swap (g f : R -> R -> R) (d1 d2 : list R) :
  (forall u v, g v u = f u v) -> vmap2 g d2 d1 = vmap2 f d1 d2.
Proof.
  intros E; revert d2; induction d1 as [|a d1 IH]; intros [|b d2]; cbn; try reflexivity.
  rewrite E, IH. reflexivity.
Qed.
Lemma vmap2_swap_map (g f : R -> R -> R) (h : R -> R) (d1 d2 : list R) :
  (forall u v, g v (h u) = f u v) -> vmap2 g d2 (map h d1) = vmap2 f d1 d2.
Proof.
  intros E; revert d2; induction d1 as [|a d1 IH]; intros [|b d2]; cbn; try reflexivity.
  rewrite E, IH. reflexivity.
Qed.

Lemma scal_cl (a : R) (d : list R) : scal_ (Some a) (cl d) = cl (map (fun u => u * a) d).
Proof. unfold scal_. apply map_cl. reflexivity. Qed.
Lemma axpy_cl (a : R) (d1 d2 : list R) :
  axpy_ (cl d1) (cl d2) (Some a) = cl (vmap2 (fun u v => v + a * u) d1 d2).
Proof. unfold axpy_. apply vmap2_cl. reflexivity. Qed.
Lemma zeros_cl (n : nat) : @zeros VR _ n = cl (repeat 0 n).
Proof. unfold zeros, cl. induction n; cbn; [reflexivity|]. f_equal. exact IHn. Qed.

Lemma nneqb_some (a b : R) : @nneqb VR _ (Some a) (Some b) = negb (Reqb a b).
Proof. reflexivity. Qed.
Lemma neqb_some (a b : R) : @neqb VR _ (Some a) (Some b) = Reqb a b.
Proof. reflexivity. Qed.

(* ---- the fallback regime (alias tree): every leaf equals a*x1 + b*x2 ---- *)
Ltac clear_about d := repeat match goal with H : context [d] |- _ => clear H end.
Ltac pw1 d1 :=
  clear_about d1; induction d1 as [|?a d1 ?IH]; cbn; [reflexivity | f_equal; [try lra; try nra | assumption]].
Ltac pw2 d1 d2 L :=
  revert L; clear_about d1; clear_about d2; revert d2; induction d1 as [|?a d1 ?IH]; intros [|?b d2]; intros L; cbn in L |- *; try discriminate L;
  [reflexivity | f_equal; [try lra; try nra | apply IH; congruence]].
Ltac split_tests :=
  repeat (numO; cbn [negb andb];
          match goal with
          | |- context [Reqb ?x ?y] => destruct (Reqb_spec x y); try (exfalso; lra)
          end); numO; cbn [negb andb].
Ltac leaf_prep Lo :=
  cbn [negb andb]; rewrite ?Lo, ?cl_length, ?scal_cl, ?axpy_cl, ?zeros_cl; try subst; f_equal.

Lemma lincomb_tree_clean (a b : R) (d1 d2 : list R) (dold : list VR) (o1 o2 e12 : bool) :
  length d1 = length d2 -> length dold = length d1 ->
  (o1 = true -> dold = cl d1) -> (o2 = true -> dold = cl d2) -> (e12 = true -> d1 = d2) ->
  lincomb_tree (Some a) (Some b) (cl d1) (cl d2) dold o1 o2 e12 = cl (rlin a b d1 d2).
Proof.
  intros L12 Lo H1 H2 H12. unfold lincomb_tree, rlin, nneqb.
  destruct e12.
  - specialize (H12 eq_refl). subst d2. clear L12.
    destruct o1; [specialize (H1 eq_refl); subst dold|];
      (destruct o2; [specialize (H2 eq_refl); try subst dold|]); numO; split_tests;
      leaf_prep Lo; pw1 d1.
  - clear H12.
    destruct o1; [specialize (H1 eq_refl); subst dold|];
      (destruct o2; [specialize (H2 eq_refl); try (apply cl_inj in H2; subst d2); try subst dold|]);
      numO; split_tests; leaf_prep Lo.
    all: try (pw1 d1).
    all: try (pw2 d1 d2 L12).
Qed.

(* small-size regime (either variant) and both regimes together *)
Lemma lincomb_small_clean (g : small_variant) (a b : R) (d1 d2 : list R) :
  length d1 = length d2 ->
  lincomb_small g (Some a) (Some b) (cl d1) (cl d2) (length d1) = cl (rlin a b d1 d2).
Proof.
  intros L. unfold lincomb_small, rlin. destruct g.
  - unfold vlin. apply vmap2_cl. reflexivity.
  - numO. destruct (Reqb_spec a 0) as [Ea|Ea], (Reqb_spec b 0) as [Eb|Eb]; numO; try subst a; try subst b.
    + rewrite zeros_cl. f_equal. apply repeat_vmap2; [exact L | intros; lra].
    + unfold vlin. apply vmap2_cl. reflexivity.
    + unfold vlin. apply vmap2_cl. reflexivity.
    + unfold vlin. apply vmap2_cl. reflexivity.
  - numO. destruct (Reqb_spec a 0) as [Ea|Ea], (Reqb_spec b 0) as [Eb|Eb]; numO; try subst a; try subst b.
    + rewrite zeros_cl. f_equal. apply repeat_vmap2; [exact L | intros; lra].
    + rewrite (map_cl _ (fun v => b * v)) by reflexivity. f_equal. apply map_vmap2_r; [exact L | intros; lra].
    + rewrite (map_cl _ (fun u => a * u)) by reflexivity. f_equal. apply map_vmap2_l; [exact L | intros; lra].
    + unfold vlin. apply vmap2_cl. reflexivity.
Qed.
Lemma lincomb_data_clean (g : small_variant) (a b : R) (d1 d2 : list R) (dold : list VR) (o1 o2 e12 : bool) :
  length d1 = length d2 -> length dold = length d1 ->
  (o1 = true -> dold = cl d1) -> (o2 = true -> dold = cl d2) -> (e12 = true -> d1 = d2) ->
  lincomb_data_g g (Some a) (Some b) (cl d1) (cl d2) dold o1 o2 e12 = cl (rlin a b d1 d2).
Proof.
  intros L12 Lo. intros. unfold lincomb_data_g. destruct (length dold <? threshold_small)%nat.
  - rewrite Lo. apply lincomb_small_clean; assumption.
  - apply lincomb_tree_clean; assumption.
Qed.

(* real-level vector operations in which denotations are written *)
Definition radd (x y : list R) : list R := vmap2 Rplus x y.
Definition rmul (x y : list R) : list R := vmap2 Rmult x y.
Definition rscal (a : R) (x : list R) : list R := map (Rmult a) x.

Lemma rlin_11 x y : rlin 1 1 x y = radd x y.
Proof. apply vmap2_ext; intros; lra. Qed.
Lemma rlin_11_comm x y : rlin 1 1 y x = radd x y.
Proof. unfold rlin, radd. apply vmap2_swap. intros; lra. Qed.
Lemma rlin_a0 a x : rlin a 0 x x = rscal a x.
Proof. unfold rlin, rscal. rewrite vmap2_self. apply map_ext; intros; lra. Qed.
Lemma rlin_10 x : rlin 1 0 x x = x.
Proof. rewrite rlin_a0. unfold rscal. rewrite <- (map_id x) at 2. apply map_ext; intros; lra. Qed.
Lemma rmul_comm x y : rmul y x = rmul x y.
Proof. unfold rmul. apply vmap2_swap. intros; lra. Qed.
Lemma rscal_length a x : length (rscal a x) = length x.
Proof. apply map_length. Qed.
Lemma radd_length x y : length x = length y -> length (radd x y) = length x.
Proof. apply vmap2_length. Qed.
Lemma rmul_length x y : length x = length y -> length (rmul x y) = length x.
Proof. apply vmap2_length. Qed.
Lemma rlin_length a b x y : length x = length y -> length (rlin a b x y) = length x.
Proof. apply vmap2_length. Qed.

(* ------------------------------------------------------------ stores *)
Notation storeR := (@store VR).
Notation cellR := (@cell VR).

Lemma sp_eqb_refl (sp : space) : sp_eqb sp sp = true.
Proof. unfold sp_eqb. rewrite !Nat.eqb_refl. reflexivity. Qed.
Lemma sp_eqb_eq (a b : space) : sp_eqb a b = true -> a = b.
Proof.
  destruct a as [a1 a2], b as [b1 b2]. unfold sp_eqb; cbn. intros E.
  apply andb_prop in E as [E1 E2]. apply Nat.eqb_eq in E1, E2. congruence.
Qed.
Lemma sp_eqb_neq (a b : space) : a <> b -> sp_eqb a b = false.
Proof. intros N. destruct (sp_eqb a b) eqn:E; [|reflexivity]. apply sp_eqb_eq in E. contradiction. Qed.

Lemma rd_lt (s : storeR) i c : rd s i = Some c -> (i < length s)%nat.
Proof. unfold rd. intros E. apply nth_error_Some. congruence. Qed.
Lemma upd_length (s : storeR) o c : length (upd s o c) = length s.
Proof. revert o; induction s as [|a s IH]; intros [|o]; cbn; auto. Qed.
Lemma rd_upd_same (s : storeR) o c : (o < length s)%nat -> rd (upd s o c) o = Some c.
Proof. revert o; induction s as [|a s IH]; intros [|o] L; cbn in *; try lia; auto. apply IH. lia. Qed.
Lemma rd_upd_other (s : storeR) o c i : i <> o -> rd (upd s o c) i = rd s i.
Proof.
  revert o i; induction s as [|a s IH]; intros [|o] [|i] N; cbn; try reflexivity; try congruence.
  apply IH. congruence.
Qed.
Lemma rd_app_old (s : storeR) c i : (i < length s)%nat -> rd (s ++ [c]) i = rd s i.
Proof. intros L. unfold rd. apply nth_error_app1. assumption. Qed.
Lemma rd_app_new (s : storeR) c : rd (s ++ [c]) (length s) = Some c.
Proof. unfold rd. rewrite nth_error_app2 by lia. rewrite Nat.sub_diag. reflexivity. Qed.

(* every object has as many entries as its space says *)
Definition wf_store (s : storeR) : Prop := forall i sp d, rd s i = Some (sp, d) -> length d = fst sp.
(* s' extends s; the objects of s outside [m] are untouched; objects keep their space *)
Definition ext (s s' : storeR) (m : list nat) : Prop :=
  (length s <= length s')%nat /\
  (forall i, (i < length s)%nat -> ~ In i m -> rd s' i = rd s i) /\
  (forall i sp d, rd s i = Some (sp, d) -> exists d', rd s' i = Some (sp, d')).

Lemma ext_refl s m : ext s s m.
Proof. repeat split; auto. intros i sp d E. eauto. Qed.
Lemma ext_trans s s1 s2 m1 m2 m :
  ext s s1 m1 -> ext s1 s2 m2 ->
  (forall i, In i m1 -> In i m) -> (forall i, (i < length s)%nat -> In i m2 -> In i m) ->
  ext s s2 m.
Proof.
  intros (L1 & U1 & S1) (L2 & U2 & S2) I1 I2. repeat split.
  - lia.
  - intros i Li Ni. rewrite U2; [apply U1; auto | lia | auto].
  - intros i sp d E. destruct (S1 _ _ _ E) as (d1 & E1). apply (S2 _ _ _ E1).
Qed.
Lemma ext_weaken s s' m m' : ext s s' m -> (forall i, In i m -> In i m') -> ext s s' m'.
Proof. intros (L & U & S) I. repeat split; auto. Qed.
Lemma ext_alloc (s : storeR) c : ext s (s ++ [c]) [].
Proof.
  repeat split.
  - rewrite app_length; cbn; lia.
  - intros i Li _. apply rd_app_old; assumption.
  - intros i sp d E. exists d. rewrite rd_app_old; [assumption | eapply rd_lt; eassumption].
Qed.
Lemma ext_upd (s : storeR) o sp d d' : rd s o = Some (sp, d) -> ext s (upd s o (sp, d')) [o].
Proof.
  intros E. repeat split.
  - rewrite upd_length; lia.
  - intros i Li Ni. apply rd_upd_other. intros ->. apply Ni. left; reflexivity.
  - intros i sp0 d0 E0. destruct (Nat.eq_dec i o) as [->|N].
    + rewrite rd_upd_same by (eapply rd_lt; eassumption). rewrite E in E0. injection E0 as <- <-. eauto.
    + rewrite rd_upd_other by assumption. eauto.
Qed.
Lemma wf_alloc (s : storeR) sp d : wf_store s -> length d = fst sp -> wf_store (s ++ [(sp, d)]).
Proof.
  intros W L i sp0 d0 E. destruct (Nat.lt_ge_cases i (length s)) as [Li|Li].
  - rewrite rd_app_old in E by assumption. eapply W; eassumption.
  - assert (Hi : (i < length (s ++ [(sp, d)]))%nat) by (eapply rd_lt; eassumption).
    rewrite app_length in Hi; cbn in Hi. assert (i = length s) by lia. subst i.
    rewrite rd_app_new in E. injection E as <- <-. assumption.
Qed.
Lemma wf_upd (s : storeR) o sp d : wf_store s -> length d = fst sp -> wf_store (upd s o (sp, d)).
Proof.
  intros W L i sp0 d0 E. destruct (Nat.eq_dec i o) as [->|N].
  - assert (Ho : (o < length s)%nat) by (apply rd_lt in E; rewrite upd_length in E; assumption).
    rewrite rd_upd_same in E by assumption. injection E as <- <-. assumption.
  - rewrite rd_upd_other in E by assumption. eapply W; eassumption.
Qed.
Lemma ext_rd s s' m i c : ext s s' m -> rd s i = Some c -> ~ In i m -> rd s' i = Some c.
Proof. intros (L & U & S) E N. rewrite U; auto. eapply rd_lt; eassumption. Qed.

(* ---------------------------------------------- primitives on clean operands *)
Lemma do_lincomb_g_clean (g : small_variant) (a b : R) i1 i2 o (s : storeR) sp d1 d2 dold :
  wf_store s ->
  rd s i1 = Some (sp, cl d1) -> rd s i2 = Some (sp, cl d2) -> rd s o = Some (sp, dold) ->
  do_lincomb_g g (Some a) i1 (Some b) i2 o s = Ok tt (upd s o (sp, cl (rlin a b d1 d2))).
Proof.
  intros W E1 E2 Eo. unfold do_lincomb_g. rewrite E1, E2, Eo, sp_eqb_refl. cbn [andb].
  pose proof (W _ _ _ E1) as L1. pose proof (W _ _ _ E2) as L2. pose proof (W _ _ _ Eo) as Lo.
  rewrite cl_length in L1, L2.
  rewrite lincomb_data_clean; try congruence.
  - reflexivity.
  - intros Q. apply Nat.eqb_eq in Q. subst. congruence.
  - intros Q. apply Nat.eqb_eq in Q. subst. congruence.
  - intros Q. apply Nat.eqb_eq in Q. subst. rewrite E1 in E2. injection E2 as E2. apply cl_inj; assumption.
Qed.
Lemma do_lincomb_clean (a b : R) i1 i2 o (s : storeR) sp d1 d2 dold :
  wf_store s ->
  rd s i1 = Some (sp, cl d1) -> rd s i2 = Some (sp, cl d2) -> rd s o = Some (sp, dold) ->
  do_lincomb (Some a) i1 (Some b) i2 o s = Ok tt (upd s o (sp, cl (rlin a b d1 d2))).
Proof. unfold do_lincomb. apply do_lincomb_g_clean. Qed.
Lemma do_multiply_clean i1 i2 o (s : storeR) sp d1 d2 dold :
  rd s i1 = Some (sp, cl d1) -> rd s i2 = Some (sp, cl d2) -> rd s o = Some (sp, dold) ->
  do_multiply i1 i2 o s = Ok tt (upd s o (sp, cl (rmul d1 d2))).
Proof.
  intros E1 E2 Eo. unfold do_multiply. rewrite E1, E2, Eo, sp_eqb_refl. cbn [andb].
  unfold vmul, rmul. rewrite (vmap2_cl _ Rmult) by reflexivity. reflexivity.
Qed.
Lemma do_assign_clean o src (s : storeR) sp d dold :
  wf_store s -> rd s src = Some (sp, cl d) -> rd s o = Some (sp, dold) ->
  do_assign o src s = Ok tt (upd s o (sp, cl d)).
Proof.
  intros W E Eo. unfold do_assign, do_lincomb1.
  change (@none_ VR _) with (Some 1). change (@nzero VR _) with (Some 0).
  erewrite do_lincomb_clean by eassumption. rewrite rlin_10. reflexivity.
Qed.
Lemma do_iadd_clean o e (s : storeR) sp d de :
  wf_store s -> rd s o = Some (sp, cl d) -> rd s e = Some (sp, cl de) ->
  do_iadd o e s = Ok tt (upd s o (sp, cl (radd d de))).
Proof.
  intros W Eo E. unfold do_iadd. change (@none_ VR _) with (Some 1).
  erewrite do_lincomb_clean by eassumption. rewrite rlin_11. reflexivity.
Qed.
Lemma do_iscal_clean o a (s : storeR) sp d :
  wf_store s -> rd s o = Some (sp, cl d) ->
  do_iscal o (Some a) s = Ok tt (upd s o (sp, cl (rscal a d))).
Proof.
  intros W Eo. unfold do_iscal, do_lincomb1. change (@nzero VR _) with (Some 0).
  erewrite do_lincomb_clean by eassumption. rewrite rlin_a0. reflexivity.
Qed.
Lemma do_lincomb1_clean a i o (s : storeR) sp d dold :
  wf_store s -> rd s i = Some (sp, cl d) -> rd s o = Some (sp, dold) ->
  do_lincomb1 (Some a) i o s = Ok tt (upd s o (sp, cl (rscal a d))).
Proof.
  intros W E Eo. unfold do_lincomb1. change (@nzero VR _) with (Some 0).
  erewrite do_lincomb_clean by eassumption. rewrite rlin_a0. reflexivity.
Qed.
Lemma ext_len s s' m : ext s s' m -> (length s <= length s')%nat.
Proof. intros (L & _). exact L. Qed.
Lemma ext_same s s' m i : ext s s' m -> (i < length s)%nat -> ~ In i m -> rd s' i = rd s i.
Proof. intros (_ & U & _). apply U. Qed.
Lemma ext_space s s' m i sp d : ext s s' m -> rd s i = Some (sp, d) -> exists d', rd s' i = Some (sp, d').
Proof. intros (_ & _ & S). apply S. Qed.
Global Opaque ext.
Ltac splits := repeat match goal with |- _ /\ _ => split end.

(* ---- element-wise ufuncs and division on clean operands ---- *)
Lemma do_map_clean (f : VR -> VR) (f' : R -> R) i o (s : storeR) sp d dold :
  (forall u, f (Some u) = Some (f' u)) ->
  rd s i = Some (sp, cl d) -> rd s o = Some (sp, dold) ->
  do_map f i o s = Ok tt (upd s o (sp, cl (map f' d))).
Proof.
  intros Hf E Eo. unfold do_map. rewrite E, Eo, sp_eqb_refl. rewrite (map_cl f f') by exact Hf. reflexivity.
Qed.
Definition rdiv (x y : list R) : list R := vmap2 Rdiv x y.
Lemma vdiv_cl (d1 d2 : list R) : Forall (fun v => v <> 0) d2 ->
  @vdiv VR _ (cl d1) (cl d2) = cl (rdiv d1 d2).
Proof.
  unfold vdiv, rdiv. revert d2. induction d1 as [|a d1 IH]; intros [|b d2] Hnz; cbn; try reflexivity.
  inversion Hnz as [|? ? Hb Hr]; subst.
  cbn [ndiv Num_opt odiv neqb nzero Num_R]. destruct (Reqb_spec b 0) as [E|_]; [contradiction|].
  f_equal. apply IH. exact Hr.
Qed.
Lemma do_divide_clean i1 i2 o (s : storeR) sp d1 d2 dold :
  Forall (fun v => v <> 0) d2 ->
  rd s i1 = Some (sp, cl d1) -> rd s i2 = Some (sp, cl d2) -> rd s o = Some (sp, dold) ->
  do_divide i1 i2 o s = Ok tt (upd s o (sp, cl (rdiv d1 d2))).
Proof.
  intros Hnz E1 E2 Eo. unfold do_divide. rewrite E1, E2, Eo, sp_eqb_refl. cbn [andb].
  rewrite vdiv_cl by exact Hnz. reflexivity.
Qed.
Lemma rdiv_length x y : length x = length y -> length (rdiv x y) = length x.
Proof. apply vmap2_length. Qed.

(* literals of the source at both carriers *)
Lemma IZR_pos_neq0 p : IZR (Z.pos p) <> 0.
Proof. apply not_0_IZR. lia. Qed.
Lemma of_Q_some (c : Q) : @of_Q VR _ c = Some (@of_Q R _ c).
Proof.
  unfold of_Q. cbn [of_Z ndiv Num_opt odiv neqb nzero Num_R].
  destruct (Reqb_spec (IZR (Z.pos (Qden c))) 0) as [E|_]; [exfalso; exact (IZR_pos_neq0 _ E) | reflexivity].
Qed.
Lemma odiv_some (a b : R) : b <> 0 -> @ndiv VR _ (Some a) (Some b) = Some (a / b).
Proof. intros Hb. cbn [ndiv Num_opt odiv neqb nzero Num_R]. destruct (Reqb_spec b 0); [contradiction | reflexivity]. Qed.
Lemma nmax_some (a b : R) : @nmax VR _ (Some a) (Some b) = Some (Rmax a b).
Proof. unfold nmax. cbn [nleb Num_opt ocmp Num_R]. rewrite <- nmax_R. unfold nmax. numR. destruct (Rleb a b); reflexivity. Qed.
Lemma nmin_some (a b : R) : @nmin VR _ (Some a) (Some b) = Some (Rmin a b).
Proof. unfold nmin. cbn [nleb Num_opt ocmp Num_R]. rewrite <- nmin_R. unfold nmin. numR. destruct (Rleb a b); reflexivity. Qed.
