(* C03/Syntax.v -- the small language in which the `_call` bodies of operator
   classes are written.  Gen/C03Bodies.v (regenerated from odl/operator/operator.py,
   odl/operator/default_ops.py on every run by translate/call_bodies.py) contains
   one [cls] per translated class; C03/Model.v interprets them on a heap.
   Hand-written, fixed. *)
From Coq Require Import ZArith QArith List.
Import ListNotations.

(* outcome of Operator.__new__ / _dispatch_call_args:
   KOop  = `_call(self, x)`            -> in-place call bridged by _default_call_in_place
   KBoth = `_call(self, x, out=None)`  -> one body, two modes
   KIp   = `_call(self, x, out)`       -> out-of-place call bridged by _default_call_out_of_place *)
Inductive kind := KOop | KBoth | KIp.

(* names visible in a body: the argument, the out parameter (a local variable in
   out-of-place mode), local temporaries, elements owned by the operator
   (self.vector, self.constant, self.multiplicand ...) *)
Inductive ref := RX | ROut | RTmp (k : nat) | RVec (k : nat).

(* scalars: literals, operator parameters (self.scalar, self.a ...), scalar locals *)
Inductive scal := SLit (c : Q) | SPar (k : nat) | SVar (k : nat)
  | SAdd (a b : scal) | SSub (a b : scal) | SMul (a b : scal) | SDiv (a b : scal) | SNeg (a : scal).

(* which space `<space>.element()` / `<space>.zero()` refers to *)
Inductive spsel := SpDom | SpRan | SpKidDom (c : nat) | SpKidRan (c : nat).

(* expressions: evaluate to an object (existing one passed through, or a NEW element
   created by out-of-place arithmetic) or to a scalar (functional results) *)
Inductive ex :=
| XRef (r : ref)
| XCall (c : nat) (a : ex)             (* self.<kid c>(a)          public out-of-place call *)
| XAdd (a b : ex)                      (* a + b                    new element / scalar sum *)
| XMul (a b : ex)                      (* a * b                    new element / scalar product *)
| XScal (s : scal) (a : ex)            (* s * a  or  a * s         new element / scalar product *)
| XNew (sp : spsel)                    (* <space>.element()        uninitialised *)
| XOwnOr (k : nat) (e : ex)            (* self.__tmp if self.__tmp is not None else e *)
| XZero (sp : spsel)                   (* <space>.zero() *)
| XCopy (a : ex)                       (* a.copy() / range.element(copy(a)) *)
| XSub (a b : ex)                      (* a - b                    new element *)
| XAbs (a : ex).                       (* a.ufuncs.absolute()      new element *)

Inductive st :=
| TLet (r : ref) (e : ex)                                   (* r = e *)
| TLetS (k : nat) (c : nat) (a : ex)                        (* scalar_k = self.<kid c>(a) *)
| TCallIp (c : nat) (a : ref) (o : ref)                     (* self.<kid c>(a, out=o) *)
| TLincomb (o : ref) (a : scal) (x1 : ref) (bx : option (scal * ref))   (* o.lincomb(a, x1[, b, x2]) *)
| TIAdd (o e : ref)                                         (* o += e *)
| TIMul (o e : ref)                                         (* o *= e   (element) *)
| TIScal (o : ref) (s : scal)                               (* o *= s   (scalar) *)
| TMultiply (x1 x2 o : ref)                                 (* x1.multiply(x2, out=o) *)
| TAssign (o : ref) (e : ex)                                (* o.assign(e) *)
| TSetZero (o : ref)                                        (* o.set_zero() *)
| TUAbs (x o : ref)                                         (* x.ufuncs.absolute(out=o) *)
| TUMaxS (x : ref) (s : scal) (o : ref)                     (* x.ufuncs.maximum(s, out=o) *)
| TUMinS (x : ref) (s : scal) (o : ref)                     (* x.ufuncs.minimum(s, out=o) *)
| TIDivS (o : ref) (s : scal)                               (* o /= s     = o.lincomb(1.0 / s, o) *)
| TDivide (x1 x2 o : ref).                                  (* x1.divide(x2, out=o) / x1.ufuncs.divide(x2, out=o) *)

(* what the body returns: nothing, a name, the result of the last public in-place
   call (`return self.left(tmp, out=out)`), or an expression *)
Inductive ret := RetNone | RetRef (r : ref) | RetLast | RetEx (e : ex).

Record body := { b_st : list st; b_ret : ret }.
(* c_oop: the `out is None` branch (or the whole body for KOop);
   c_ip : the `out is not None` branch (or the whole body for KIp) *)
Record cls := { c_kind : kind; c_oop : body; c_ip : body }.

(* the branch of npy_tensors._lincomb_impl for fewer than THRESHOLD_SMALL entries:
   SvUnguarded : out[:] = a*x1 + b*x2                     (no test on a, b)
   SvZeroZero  : out[:] = 0 if a == 0 and b == 0, else a*x1 + b*x2
   SvGuarded   : every term with a zero coefficient is skipped *)
Inductive small_variant := SvUnguarded | SvZeroZero | SvGuarded.

(* Operator.__new__: which function fills the slots `_call_in_place` / `_call_out_of_place` *)
Inductive slot := SlCall | SlDefaultIp | SlDefaultOop.
(* the statements of Operator.__call__, _default_call_out_of_place and _default_call_in_place, in source order *)
Inductive step :=
| StCastX                 (* if x not in self.domain: x = self.domain.element(x), else OpDomainError *)
| StCheckOut              (* if out not in self.range: raise OpRangeError *)
| StNoOutForFunctional    (* if self.is_functional: raise TypeError *)
| StCallIp                (* result = self._call_in_place(x, out=out) *)
| StCheckReturn           (* if result is not None and result is not out: raise ValueError *)
| StCallOop               (* out = self._call_out_of_place(x) *)
| StCastResult            (* if out not in self.range: out = self.range.element(out), else OpRangeError *)
| StNewOut                (* out = op.range.element() *)
| StAssignCastOop         (* out.assign(op.range.element(op._call_out_of_place(x))) *)
| StReturnOut.

Definition no_body : body := {| b_st := []; b_ret := RetNone |}.
