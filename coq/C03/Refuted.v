(* C03/Refuted.v -- statements that are FALSE of the faithful model, each with a
   witness found by computation at the executable carrier [option Q]
   (None = NaN / uninitialised memory). *)
From Coq Require Import ZArith QArith List Bool Arith.
From Verif Require Import Base.Num Base.Vec Base.Check C03.Syntax Gen.C03Bodies C03.Poison C03.Model C03.Corr.
Import ListNotations.
Local Open Scope Q_scope.

Definition sp3 : space := (3, 0)%nat.
Definition q3 (a b c : Q) : list QV := [Some a; Some b; Some c].
Definition nan3 : list QV := [None; None; None].
Definition data_after (r : @outcome QV (@pyval QV)) (i : nat) : option (list QV) :=
  match r with
  | Ok _ s => match rd s i with Some (_, d) => Some d | None => None end
  | Err _ s => None
  end.

(* ---- (1) "whatever y contained before": proximal_l2 in the branch step >= 1 is
   `out.set_zero()`.  Before commit d3867d7 of /repo the small-size branch of _lincomb_impl
   evaluated 0*out + 0*out and a NaN-filled out stayed NaN (finding set-zero-reads-out,
   now fixed); with the regenerated [small_guarded] of the current source the same
   witnesses give zeros, in place and out of place (uninitialised memory = None). ---- *)
Definition prox_l2_big : @op QV := Op cls_ProximalL2_bigstep sp3 (RSp sp3) [] [] [] [].
Lemma prox_l2_nan_out_is_overwritten :
  data_after (call junkQ prox_l2_big (VElem 0%nat) (Some (VElem 1%nat)) [(sp3, q3 1 2 3); (sp3, nan3)]) 1
    = Some (q3 0 0 0)
  /\ match call junkQ prox_l2_big (VElem 0%nat) None [(sp3, q3 1 2 3)] with
     | Ok (VElem r) s => data_after (Ok (VElem r) s) r = Some (q3 0 0 0)
     | _ => False
     end.
Proof. split; vm_compute; reflexivity. Qed.

(* ---- (2) elements owned by the operator must not be passed as x or out ---- *)
Definition scal3 (c : Q) : @op QV := Op cls_ScalingOperator sp3 (RSp sp3) [Some c] [] [] [].
(* OperatorRightScalarMult(A, 2, tmp=t)(t, out=y) scales its own argument *)
Lemma rscal_user_tmp_as_input_modifies_x :
  data_after (call junkQ (Op cls_OperatorRightScalarMult sp3 (RSp sp3) [Some 2] [] [Some 0%nat] [scal3 3])
                (VElem 0%nat) (Some (VElem 1%nat)) [(sp3, q3 1 2 3); (sp3, nan3)]) 0 = Some (q3 2 4 6).
Proof. vm_compute. reflexivity. Qed.
(* OperatorSum(I, 3*I, tmp_ran=t)(x, out=t) returns 2*(3x) instead of 4x *)
Lemma sum_user_tmp_as_out_wrong :
  let o := Op cls_OperatorSum sp3 (RSp sp3) [] [] [Some 1%nat; None] [scal3 1; scal3 3] in
  data_after (call junkQ o (VElem 0%nat) (Some (VElem 1%nat)) [(sp3, q3 1 2 3); (sp3, q3 9 9 9)]) 1 = Some (q3 6 12 18)
  /\ match call junkQ o (VElem 0%nat) None [(sp3, q3 1 2 3); (sp3, q3 9 9 9)] with
     | Ok (VElem r) s => data_after (Ok (VElem r) s) r = Some (q3 4 8 12)
     | _ => False
     end.
Proof. split; vm_compute; reflexivity. Qed.
(* OperatorLeftVectorMult(3*I, v)(x, out=v) multiplies by the half-written v *)
Lemma lvec_own_vector_as_out_wrong :
  let o := Op cls_OperatorLeftVectorMult sp3 (RSp sp3) [] [1%nat] [] [scal3 3] in
  data_after (call junkQ o (VElem 0%nat) (Some (VElem 1%nat)) [(sp3, q3 1 2 3); (sp3, q3 1 2 3)]) 1 = Some (q3 9 36 81)
  /\ match call junkQ o (VElem 0%nat) None [(sp3, q3 1 2 3); (sp3, q3 1 2 3)] with
     | Ok (VElem r) s => data_after (Ok (VElem r) s) r = Some (q3 3 12 27)
     | _ => False
     end.
Proof. split; vm_compute; reflexivity. Qed.

(* ---- (3) the leaf contract is necessary: one misbehaving leaf breaks the protocol
   of every tree above it ---- *)
Definition bad_leaf (q : quirk) : @op QV :=
  Lf {| lf_kind := KBoth; lf_fun := PIdent; lf_alias := false; lf_quirk := q |} sp3 (RSp sp3).
(* a leaf that accumulates into out: 2 * leaf, in place, depends on the old out *)
Lemma accumulating_leaf_breaks_inplace :
  let o := Op cls_OperatorLeftScalarMult sp3 (RSp sp3) [Some 2] [] [] [bad_leaf QAccumulate] in
  data_after (call junkQ o (VElem 0%nat) (Some (VElem 1%nat)) [(sp3, q3 1 2 3); (sp3, q3 1 1 1)]) 1 = Some (q3 4 6 8)
  /\ match call junkQ o (VElem 0%nat) None [(sp3, q3 1 2 3); (sp3, q3 1 1 1)] with
     | Ok (VElem r) s => data_after (Ok (VElem r) s) r = Some (q3 2 4 6)
     | _ => False
     end.
Proof. split; vm_compute; reflexivity. Qed.
(* a leaf that scribbles on its argument *)
Lemma writing_leaf_breaks_input :
  let o := Op cls_OperatorLeftScalarMult sp3 (RSp sp3) [Some 2] [] [] [bad_leaf QWritesX] in
  data_after (call junkQ o (VElem 0%nat) None [(sp3, q3 1 2 3)]) 0 = Some (q3 0 0 0).
Proof. vm_compute. reflexivity. Qed.
(* a leaf whose in-place `_call` returns a different object is caught by __call__ *)
Lemma returning_other_object_is_rejected :
  match call junkQ (bad_leaf QReturnsX) (VElem 0%nat) (Some (VElem 1%nat)) [(sp3, q3 1 2 3); (sp3, nan3)] with
  | Err EBadReturn _ => True
  | _ => False
  end.
Proof. vm_compute. exact I. Qed.

(* ---- (4) product-space operators whose in-place mode relies on set_zero (C03/PModel.v) ---- *)
From Verif Require Import C03.PModel.
Definition parts_after (r : @outcome QV (list nat)) : option (list (list QV)) :=
  match r with
  | Ok l s => Some (map (fun i => match rd s i with Some (_, d) => d | None => [] end) l)
  | Err _ _ => None
  end.
(* ComponentProjectionAdjoint(rn(3)^2, 0)(x, out=y) with NaN-filled y: the other component is zeroed *)
Lemma cpadj_nan_out_is_overwritten :
  match cpadj_ip 0 0%nat [1%nat; 2%nat] [(sp3, q3 1 2 3); (sp3, nan3); (sp3, nan3)] with
  | Ok _ s => parts_after (Ok [1%nat; 2%nat] s) = Some [q3 1 2 3; q3 0 0 0]
  | Err _ _ => False
  end
  /\ parts_after (cpadj_oop 0 [sp3; sp3] 0%nat [(sp3, q3 1 2 3)]) = Some [q3 1 2 3; q3 0 0 0].
Proof. split; vm_compute; reflexivity. Qed.
(* ProductSpaceOperator([[2I, None], [None, None]])(x, out=y): the row without operator is zeroed *)
Lemma pso_zero_row_nan_out_is_overwritten :
  let ents := [{| en_row := 0; en_col := 0; en_op := scal3 2 |}] in
  parts_after (pso_call junkQ ents [sp3; sp3] [sp3; sp3] [0%nat; 1%nat] (Some [2%nat; 3%nat])
                 [(sp3, q3 1 2 3); (sp3, q3 4 5 6); (sp3, nan3); (sp3, nan3)]) = Some [q3 2 4 6; q3 0 0 0]
  /\ parts_after (pso_call junkQ ents [sp3; sp3] [sp3; sp3] [0%nat; 1%nat] None
                 [(sp3, q3 1 2 3); (sp3, q3 4 5 6)]) = Some [q3 2 4 6; q3 0 0 0].
Proof. split; vm_compute; reflexivity. Qed.
