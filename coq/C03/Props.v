(* C03/Props.v -- placeholder while the model is being tied to the code *)
From Verif Require Import C03.Model.
