(* C03/Props.v -- property theorems only; each is closed by [exact] of a lemma
   from C03/Proofs.v / Protocol.v / Heap.v / Refuted.v and followed by Print Assumptions.

   The model: C03/Model.v = Operator.__new__ / __call__ / _default_call_in_place /
   _default_call_out_of_place on a heap of element objects (identity = index) whose
   entries live in the poisoned carrier [option R] (None = NaN / uninitialised
   memory, absorbing even for 0 * None).  The `_call` bodies of the nine expression
   classes of odl/operator/operator.py and of five leaf classes of default_ops.py
   are REGENERATED from the source into Gen/C03Bodies.v on every run
   (translate/call_bodies.py) and interpreted by C03/Model.v. *)
From Coq Require Import ZArith QArith Reals List Bool Arith Lia Lra.
From Verif Require Import Base.Num Base.Vec C03.Syntax Gen.C03Bodies C03.Poison C03.Model C03.Heap
  C03.Protocol C03.Classes C03.Proofs C03.PModel C03.PProofs C03.Corr C03.Refuted C03.Transfer.
Import ListNotations.

(* ------------------------------------------------------------------ *)
(* T1  op(x, out=y) can only return the very object y -- for EVERY implementation of
   `_call` (the slots ip/oop are arbitrary functions), every carrier, every store. *)
Theorem call_out_identity :
  forall (V : Type) (HV : Num V) (junk : nat -> nat -> V) (dom : space) (ran : rsp)
         (ip : @pyval V -> @pyval V -> @M V (@pyval V)) (oop : @pyval V -> @M V (@pyval V))
         (x y : @pyval V) (s : @store V) (r : @pyval V) (s' : @store V),
  public_call junk dom ran ip oop x (Some y) s = Ok r s' -> r = y.
Proof. intros V HV. exact (@out_identity_any V). Qed.
Print Assumptions call_out_identity.

(* T1  the result of op(x) is an element of op.range, whatever `_call` returned *)
Theorem call_result_in_range :
  forall (V : Type) (HV : Num V) (junk : nat -> nat -> V) (dom : space) (ran : rsp)
         (ip : @pyval V -> @pyval V -> @M V (@pyval V)) (oop : @pyval V -> @M V (@pyval V))
         (x : @pyval V) (s : @store V) (r : @pyval V) (s' : @store V),
  public_call junk dom ran ip oop x None s = Ok r s' -> in_rsp ran r s' = true.
Proof. intros V HV. exact (@result_in_range_any V). Qed.
Print Assumptions call_result_in_range.

(* T1  rejection happens before any implementation slot runs and leaves the store
   exactly as it was: (a) an argument that is neither in the domain nor castable
   (junk object, scalar, array or element with the wrong number of entries),
   (b) an out that is not an element of the range, (c) out given to a functional. *)
Theorem call_rejects_uncastable_input :
  forall (V : Type) (HV : Num V) (junk : nat -> nat -> V) (dom : space) (ran : rsp)
         (ip : @pyval V -> @pyval V -> @M V (@pyval V)) (oop : @pyval V -> @M V (@pyval V))
         (x : @pyval V) (out : option (@pyval V)) (s : @store V),
  match x with
  | VJunk | VSc _ => True
  | VArr d => length d <> fst dom
  | VElem i => match rd s i with Some (sp, _) => fst sp <> fst dom | None => True end
  | VNone => False
  end ->
  public_call junk dom ran ip oop x out s = Err EDomain s.
Proof.
  intros V HV junk dom ran ip oop x out s Hx.
  destruct (@cast_fails V junk dom x s Hx) as [E1 E2].
  exact (@rejects_domain_any V junk dom ran ip oop x out s E1 E2).
Qed.
Print Assumptions call_rejects_uncastable_input.

Theorem call_rejects_bad_out :
  forall (V : Type) (HV : Num V) (junk : nat -> nat -> V) (dom : space) (ran : rsp)
         (ip : @pyval V -> @pyval V -> @M V (@pyval V)) (oop : @pyval V -> @M V (@pyval V))
         (x y : @pyval V) (s : @store V),
  in_space dom x s = true -> in_rsp ran y s = false ->
  public_call junk dom ran ip oop x (Some y) s = Err ERange s.
Proof. intros V HV. exact (@rejects_range_any V). Qed.
Print Assumptions call_rejects_bad_out.

Theorem call_rejects_out_for_functional :
  forall (V : Type) (HV : Num V) (junk : nat -> nat -> V) (dom : space)
         (ip : @pyval V -> @pyval V -> @M V (@pyval V)) (oop : @pyval V -> @M V (@pyval V))
         (x y : @pyval V) (s : @store V),
  in_space dom x s = true -> in_rsp RField y s = true ->
  public_call junk dom RField ip oop x (Some y) s = Err EFunctionalOut s.
Proof. intros V HV. exact (@rejects_functional_out_any V). Qed.
Print Assumptions call_rejects_out_for_functional.

(* ------------------------------------------------------------------ *)
(* T1  space.lincomb(a, x1, b, x2, out) -- the primitive every in-place statement is
   made of -- writes exactly a*x1 + b*x2 in BOTH size regimes (and both variants [g] of the
   small one, see set_zero below) and for EVERY alias
   pattern (out is x1, out is x2, x1 is x2, all three, none), provided the operands
   are NaN-free; the old contents of a non-aliased out are arbitrary. *)
Theorem lincomb_all_regimes_all_aliases :
  forall (a b : R) (i1 i2 o : nat) (s : @store (option R)) (sp : space) (d1 d2 : list R) (dold : list (option R)),
  wf_store s ->
  rd s i1 = Some (sp, cl d1) -> rd s i2 = Some (sp, cl d2) -> rd s o = Some (sp, dold) ->
  forall g : small_variant,
  do_lincomb_g g (Some a) i1 (Some b) i2 o s = Ok tt (upd s o (sp, cl (rlin a b d1 d2))).
Proof. intros a b i1 i2 o s sp d1 d2 dold W E1 E2 Eo g. exact (do_lincomb_g_clean g a b i1 i2 o s sp d1 d2 dold W E1 E2 Eo). Qed.
Print Assumptions lincomb_all_regimes_all_aliases.

(* T1  both default bridges are correct: whichever of the three admissible `_call`
   signatures a class has, if the slot(s) it implements meet the raw contract with
   denotation F, then BOTH public call modes meet the public contract with F. *)
Theorem default_bridges_correct :
  forall (junk : nat -> nat -> option R) (k : kind) (dom ran : space) (ro : ro_t) (c : scr_t) (F : list R -> list R)
         (raw_oop : @pyval (option R) -> @M (option R) (@pyval (option R)))
         (raw_ip : @pyval (option R) -> @pyval (option R) -> @M (option R) (@pyval (option R))),
  (k = KOop \/ k = KBoth -> raw_oop_vec raw_oop dom ran ro F) ->
  (k = KIp \/ k = KBoth -> raw_ip_vec raw_ip dom ran ro c F) ->
  (k = KIp -> c = []) ->
  let '(ip, oop) := slots junk k (RSp ran) raw_oop raw_ip in
  vec_ok {| o_dom := dom; o_ran := RSp ran; o_call := public_call junk dom (RSp ran) ip oop |} ran ro c F.
Proof. exact slots_vec. Qed.
Print Assumptions default_bridges_correct.

(* ------------------------------------------------------------------ *)
(* T1  THE PROPERTY FOR ALL OPERATOR TREES.  [den ro o dom ran c F] says: o is a tree,
   of any depth, built from the nine expression classes (each with fresh OR
   user-supplied temporaries tmp= / tmp_ran=, listed in c and pairwise distinct), the
   five translated leaf classes of default_ops.py, twelve translated proximal operators
   (proximal_l1, proximal_convex_conj_l1, proximal_l2_squared, proximal_convex_conj_l2_squared
   with and without g;
   proximal_box_constraint x 4) and primitive leaves of any of the three dispatch
   kinds (incl. leaves returning their argument itself), well-formed as the __init__
   methods demand, and F is the real function it denotes.  Then for EVERY store, every
   NaN-free x in the domain, every y in the range with ARBITRARY contents (NaN
   included), every content of uninitialised memory [junk] and of the temporaries:
     op(x)        returns an element of the range holding F(x); it is a new object or
                  x itself; no pre-existing object is modified;
     op(x, out=y) returns the object y, y holds the same F(x), and no pre-existing
                  object other than y and the user-supplied temporaries is modified
                  (so x is untouched in both calls).
   [scr_ok c ro s x y]: the temporaries exist in their spaces and are neither x, nor y,
   nor an element owned read-only by an operator (the refutations below show that each
   of these side conditions is necessary). *)
Theorem call_protocol_all_trees :
  forall (junk : nat -> nat -> option R) (ro : ro_t) (o : @op (option R)) (dom ran : space) (c : scr_t)
         (F : list R -> list R),
  den ro o dom ran c F ->
  forall (s : @store (option R)) (x y : nat) (dx : list R) (dy : list (option R)),
    wf_store s -> good ro s ->
    rd s x = Some (dom, cl dx) -> rd s y = Some (ran, dy) -> x <> y -> ~ In y (ro_ids ro) ->
    scr_ok c ro s x y ->
    (exists r s1, call junk o (VElem x) None s = Ok (VElem r) s1 /\
        rd s1 r = Some (ran, cl (F dx)) /\
        (forall i, (i < length s)%nat -> ~ In i [] -> rd s1 i = rd s i) /\
        (r = x \/ (length s <= r)%nat)) /\
    (exists s2, call junk o (VElem x) (Some (VElem y)) s = Ok (VElem y) s2 /\
        rd s2 y = Some (ran, cl (F dx)) /\
        (forall i, (i < length s)%nat -> ~ In i (y :: scr_ids c) -> rd s2 i = rd s i)).
Proof. exact protocol_all_trees. Qed.
Print Assumptions call_protocol_all_trees.

(* T1  the same for trees with a FIELD range (functionals: InnerProduct / L2NormSquared-like
   leaves under Sum, PointwiseProduct, Left/RightScalarMult, f o A, f * v, any depth):
   op(x) returns the scalar g(x) and modifies nothing; op(x, out=anything) is rejected
   -- TypeError when out is a number, OpRangeError otherwise -- with the store untouched. *)
Theorem functional_protocol_all_trees :
  forall (junk : nat -> nat -> option R) (ro : ro_t) (o : @op (option R)) (dom : space) (g : list R -> R),
  dens ro o dom g ->
  forall (s : @store (option R)) (x : nat) (dx : list R),
    wf_store s -> good ro s -> rd s x = Some (dom, cl dx) ->
    (exists s1, call junk o (VElem x) None s = Ok (VSc (Some (g dx))) s1 /\
       forall i, (i < length s)%nat -> rd s1 i = rd s i) /\
    (forall y, in_rsp RField y s = true -> call junk o (VElem x) (Some y) s = Err EFunctionalOut s) /\
    (forall y, in_rsp RField y s = false -> call junk o (VElem x) (Some y) s = Err ERange s).
Proof. exact protocol_all_functionals. Qed.
Print Assumptions functional_protocol_all_trees.

(* T1  contract preservation, the induction behind it: every well-formed tree meets
   the public contract (both modes) with its denotation. *)
Theorem contract_preservation :
  forall (junk : nat -> nat -> option R) (ro : ro_t),
  (forall o dom ran c F, den ro o dom ran c F -> o_dom (sem junk o) = dom /\ vec_ok (sem junk o) ran ro c F) /\
  (forall o dom g, dens ro o dom g -> o_dom (sem junk o) = dom /\ sc_ok (sem junk o) ro g).
Proof. exact den_dens_ok. Qed.
Print Assumptions contract_preservation.

(* non-vacuity: the primitive kernels used as leaves are clean maps, and a concrete
   tree  (2 * (M o |.|)) + (I * v)  has a denotation *)
Example kernels_are_clean :
  (forall sp, pf_clean PAbs sp sp (map Rabs)) /\
  (forall dom ran m, length m = fst ran -> pf_clean (PMat (map cl m)) dom ran (fun d => map (fun r => dot r d) m)) /\
  (forall dom w, pf_sc_clean (PInner (cl w)) dom (fun d => dot d w)).
Proof. split; [exact pabs_clean | split; [exact pmat_clean | exact pinner_clean]]. Qed.

Example a_tree_with_a_denotation :
  let sp := (2, 0)%nat in
  let ro := [(5%nat, sp, [1%R; 2%R])] in
  let absleaf := Lf {| lf_kind := KBoth; lf_fun := PAbs; lf_alias := false; lf_quirk := QNone |} sp (RSp sp) in
  let mat := Lf {| lf_kind := KIp; lf_fun := PMat (map cl [[1%R; 0%R]; [1%R; 1%R]]); lf_alias := false;
                   lf_quirk := QNone |} sp (RSp sp) in
  (* tmp_ran = object 7 for the sum, tmp = object 8 for the composition *)
  exists F, den ro
    (Op cls_OperatorSum sp (RSp sp) [] [] [Some 7%nat; None]
       [Op cls_OperatorLeftScalarMult sp (RSp sp) [Some 2%R] [] []
          [Op cls_OperatorComp sp (RSp sp) [] [] [Some 8%nat] [mat; absleaf]];
        Op cls_MultiplyOperator sp (RSp sp) [] [5%nat] [] []]) sp sp [(7%nat, sp); (8%nat, sp)] F.
Proof.
  cbv zeta. eexists.
  apply (D_Sum _ _ _ _ _ [(8%nat, (2, 0)%nat)] [] (Some 7%nat) None).
  - apply D_LScal. apply (D_Comp _ _ _ _ _ _ [] [] (Some 8%nat)).
    + apply D_Leaf. apply (pmat_clean (2, 0)%nat (2, 0)%nat [[1%R; 0%R]; [1%R; 1%R]]). reflexivity.
    + apply D_Leaf. apply pabs_clean.
    + repeat constructor; cbn; intuition lia.
  - apply D_Multiply. left. reflexivity.
  - repeat constructor; cbn; intuition lia.
Qed.
Example a_tree_over_proximal_operators :
  let sp := (3, 0)%nat in
  exists F, den [] (Op cls_OperatorComp sp (RSp sp) [] [] [None]
                      [Op cls_ProximalL1 sp (RSp sp) [Some 2%R; Some 1%R] [] [] [];
                       Op cls_ProxBox_both sp (RSp sp) [Some (-1)%R; Some 1%R] [] [] []]) sp sp [] F.
Proof.
  cbv zeta. eexists. eapply D_Comp with (cl_ := []) (cr := []) (ot := None).
  - apply D_ProxL1. lra.
  - apply D_BoxBoth.
  - constructor.
Qed.
Example a_functional_tree_with_a_denotation :
  let sp := (2, 0)%nat in
  let inner := Lf {| lf_kind := KOop; lf_fun := PInner (cl [1%R; 3%R]); lf_alias := false; lf_quirk := QNone |} sp RField in
  let sumsq := Lf {| lf_kind := KOop; lf_fun := PSumSq; lf_alias := false; lf_quirk := QNone |} sp RField in
  exists g, dens [] (Op cls_OperatorSum sp RField [] [] [None; None]
                       [Op cls_OperatorLeftScalarMult sp RField [Some 2%R] [] [] [inner];
                        Op cls_OperatorComp sp RField [] [] [None]
                           [sumsq; Op cls_ScalingOperator sp (RSp sp) [Some 3%R] [] [] []]]) sp g.
Proof.
  cbv zeta. eexists. apply DS_Sum.
  - apply DS_LScal. apply DS_Leaf; [discriminate | apply pinner_clean].
  - eapply DS_Comp; [apply DS_Leaf; [discriminate | apply psumsq_clean] | apply D_Scaling].
Qed.

(* ------------------------------------------------------------------ *)
(* T1  set_zero AND THE OPERATORS BUILT ON IT, for the CURRENT source.  Until /repo commit
   d3867d7 the small-size branch of _lincomb_impl evaluated 0*out + 0*out, so
   out.set_zero() kept NaN / uninitialised garbage on fewer than THRESHOLD_SMALL entries
   and "whatever y contained before" was false for proximal_l2 (step >= 1, in place and,
   through _default_call_out_of_place, OUT OF PLACE), ComponentProjectionAdjoint, rows of a
   ProductSpaceOperator without entry and Laplacian (finding set-zero-reads-out, fixed).
   [small_guarded] is regenerated from the source on every run; the theorems below hold
   because it is no longer SvUnguarded and stop checking if the branch regresses. *)
Theorem set_zero_ignores_old_out :
  forall (s : @store (option R)) y sp (d : list (option R)), rd s y = Some (sp, d) ->
  do_set_zero y s = Ok tt (upd s y (sp, cl (repeat 0%R (length d)))).
Proof. exact set_zero_ignores_old. Qed.
Print Assumptions set_zero_ignores_old_out.
(* proximal_l2(space)(sigma) with sigma*lam >= ||x||: op(x, out=y) returns y holding zeros and
   op(x) returns a NEW element of zeros -- every size, any contents of y, of x and of
   uninitialised memory *)
Theorem proximal_l2_bigstep_in_place :
  forall (junk : nat -> nat -> option R) (sp : space) (s : @store (option R)) (x y : nat)
         (dx dy : list (option R)),
  wf_store s -> rd s x = Some (sp, dx) -> rd s y = Some (sp, dy) ->
  call junk (prox_l2_bigstep sp) (VElem x) (Some (VElem y)) s
  = Ok (VElem y) (upd s y (sp, cl (repeat 0%R (fst sp)))).
Proof. exact prox_bigstep_ip_any. Qed.
Theorem proximal_l2_bigstep_out_of_place :
  forall (junk : nat -> nat -> option R) (sp : space) (s : @store (option R)) (x : nat) (dx : list (option R)),
  wf_store s -> rd s x = Some (sp, dx) ->
  call junk (prox_l2_bigstep sp) (VElem x) None s
  = Ok (VElem (length s)) (s ++ [(sp, cl (repeat 0%R (fst sp)))]).
Proof. exact prox_bigstep_oop_any. Qed.
Print Assumptions proximal_l2_bigstep_out_of_place.
(* the former counterexamples, recomputed at [option Q] with the current [small_guarded] *)
Theorem former_counterexample_proximal_l2 :
  data_after (call junkQ prox_l2_big (VElem 0%nat) (Some (VElem 1%nat)) [(sp3, q3 1 2 3); (sp3, nan3)]) 1
    = Some (q3 0 0 0)
  /\ match call junkQ prox_l2_big (VElem 0%nat) None [(sp3, q3 1 2 3)] with
     | Ok (VElem r) s => data_after (Ok (VElem r) s) r = Some (q3 0 0 0)
     | _ => False
     end.
Proof. exact prox_l2_nan_out_is_overwritten. Qed.
(* why the repair was needed, and that either repaired form is enough (variant-indexed model) *)
Theorem unguarded_set_zero_keeps_nan :
  exists (s s' : @store (option R)) y sp,
    rd s y = Some (sp, [None]) /\ do_set_zero_g SvUnguarded y s = Ok tt s' /\ rd s' y = Some (sp, [None]).
Proof. exact set_zero_small_keeps_nan. Qed.
Theorem set_zero_guarded_ignores_old_out :
  forall (g : small_variant) (s : @store (option R)) y sp (d : list (option R)),
  g <> SvUnguarded -> rd s y = Some (sp, d) ->
  do_set_zero_g g y s = Ok tt (upd s y (sp, cl (repeat 0%R (length d)))).
Proof. exact set_zero_guarded_ignores_old. Qed.

(* REFUTED without the side conditions of call_protocol_all_trees (objects owned by an
   operator -- user-supplied temporaries, self.vector -- passed as x or out): *)
Theorem user_tmp_as_input_refuted :
  data_after (call junkQ (Op cls_OperatorRightScalarMult sp3 (RSp sp3) [Some 2%Q] [] [Some 0%nat] [scal3 3])
                (VElem 0%nat) (Some (VElem 1%nat)) [(sp3, q3 1 2 3); (sp3, nan3)]) 0 = Some (q3 2 4 6).
Proof. exact rscal_user_tmp_as_input_modifies_x. Qed.
Theorem user_tmp_as_out_refuted :
  let o := Op cls_OperatorSum sp3 (RSp sp3) [] [] [Some 1%nat; None] [scal3 1; scal3 3] in
  data_after (call junkQ o (VElem 0%nat) (Some (VElem 1%nat)) [(sp3, q3 1 2 3); (sp3, q3 9 9 9)]) 1 = Some (q3 6 12 18)
  /\ match call junkQ o (VElem 0%nat) None [(sp3, q3 1 2 3); (sp3, q3 9 9 9)] with
     | Ok (VElem r) s => data_after (Ok (VElem r) s) r = Some (q3 4 8 12)
     | _ => False
     end.
Proof. exact sum_user_tmp_as_out_wrong. Qed.
Theorem own_vector_as_out_refuted :
  let o := Op cls_OperatorLeftVectorMult sp3 (RSp sp3) [] [1%nat] [] [scal3 3] in
  data_after (call junkQ o (VElem 0%nat) (Some (VElem 1%nat)) [(sp3, q3 1 2 3); (sp3, q3 1 2 3)]) 1 = Some (q3 9 36 81)
  /\ match call junkQ o (VElem 0%nat) None [(sp3, q3 1 2 3); (sp3, q3 1 2 3)] with
     | Ok (VElem r) s => data_after (Ok (VElem r) s) r = Some (q3 3 12 27)
     | _ => False
     end.
Proof. exact lvec_own_vector_as_out_wrong. Qed.
(* the leaf contract is necessary: an accumulating / input-writing leaf breaks every tree above it *)
Theorem leaf_contract_necessary_refuted :
  (let o := Op cls_OperatorLeftScalarMult sp3 (RSp sp3) [Some 2%Q] [] [] [bad_leaf QAccumulate] in
   data_after (call junkQ o (VElem 0%nat) (Some (VElem 1%nat)) [(sp3, q3 1 2 3); (sp3, q3 1 1 1)]) 1 = Some (q3 4 6 8)
   /\ match call junkQ o (VElem 0%nat) None [(sp3, q3 1 2 3); (sp3, q3 1 1 1)] with
      | Ok (VElem r) s => data_after (Ok (VElem r) s) r = Some (q3 2 4 6)
      | _ => False
      end) /\
  (let o := Op cls_OperatorLeftScalarMult sp3 (RSp sp3) [Some 2%Q] [] [] [bad_leaf QWritesX] in
   data_after (call junkQ o (VElem 0%nat) None [(sp3, q3 1 2 3)]) 0 = Some (q3 0 0 0)).
Proof. split; [exact accumulating_leaf_breaks_inplace | exact writing_leaf_breaks_input]. Qed.

(* ------------------------------------------------------------------ *)
(* PRODUCT-SPACE OPERATORS (odl/operator/pspace_ops.py; model C03/PModel.v: a product element
   is the list of its parts; ProductSpaceOperator._call is the loop over the COO entries;
   Broadcast / Reduction / DiagonalOperator are ProductSpaceOperators with a fixed pattern).
   [se] pairs every entry with the function its operator tree denotes ([ent_ok]: the
   entry's operator is a tree of call_protocol_all_trees between the right components).
   Proved by induction over the entry list (loop invariants), for ANY number of entries,
   rows and columns: *)
(* T1  op(x): new parts holding, row by row, zeros followed by += of every entry of the
   row in COO order; nothing that existed before is modified. *)
Theorem product_space_operator_out_of_place :
  forall (junk : nat -> nat -> option R) ro doms rans xs xd (se : list sent) (s : @store (option R)),
  Forall (ent_ok ro doms rans) se -> args_ok ro doms xs xd s ->
  exists s', pso_oop junk (map fst se) rans xs s = Ok (seq (length s) (length rans)) s' /\
    (forall i ri, nth_error rans i = Some ri ->
        rd s' (length s + i) = Some (ri, cl (oop_rows rans xd se i))) /\
    ext s s' [] /\ wf_store s'.
Proof. exact pso_oop_ok. Qed.
Print Assumptions product_space_operator_out_of_place.
(* T1  op(x, out=y): the parts of y (pairwise distinct objects, distinct from the parts
   of x and from operator-owned elements, ARBITRARY contents) hold, row by row, the first
   entry written and the later ones added -- or zeros for a row without entry, PROVIDED
   set_zero is safe on that part ([zero_safe]: repaired small-size branch, or >= 100
   entries, or NaN-free old contents); only parts of y are modified. *)
Theorem product_space_operator_in_place :
  forall (junk : nat -> nat -> option R) ro doms rans xs outs xd (se : list sent) (s : @store (option R)),
  Forall (ent_ok ro doms rans) se -> outs_static ro rans xs outs -> args_ok ro doms xs xd s ->
  (forall i o ri, nth_error outs i = Some o -> nth_error rans i = Some ri -> exists d, rd s o = Some (ri, d)) ->
  (forall o, In o outs -> zero_safe s o) ->
  exists s', pso_ip junk (map fst se) xs outs s = Ok tt s' /\
    (forall i o ri, nth_error outs i = Some o -> nth_error rans i = Some ri ->
        rd s' o = Some (ri, cl (ip_rows rans xd se i))) /\
    ext s s' outs /\ wf_store s'.
Proof. exact pso_ip_ok. Qed.
Print Assumptions product_space_operator_in_place.
(* T1  the same through Operator.__call__: membership checks pass and the RETURNED object is y
   (its very parts) *)
Theorem product_space_operator_call_in_place :
  forall (junk : nat -> nat -> option R) ro doms rans xs outs xd (se : list sent) (s : @store (option R)),
  Forall (ent_ok ro doms rans) se -> outs_static ro rans xs outs -> args_ok ro doms xs xd s ->
  (forall i o ri, nth_error outs i = Some o -> nth_error rans i = Some ri -> exists d, rd s o = Some (ri, d)) ->
  (forall o, In o outs -> zero_safe s o) ->
  exists s', pso_call junk (map fst se) doms rans xs (Some outs) s = Ok outs s' /\
    (forall i o ri, nth_error outs i = Some o -> nth_error rans i = Some ri ->
        rd s' o = Some (ri, cl (ip_rows rans xd se i))) /\
    ext s s' outs /\ wf_store s'.
Proof. exact pso_call_in_place. Qed.
(* T1  and the two row formulas are the same lists of reals *)
Theorem product_space_operator_modes_agree :
  forall rans xd (se : list sent),
  (forall p ri, In p se -> nth_error rans (en_row (fst p)) = Some ri ->
                length (snd p (xd (en_col (fst p)))) = fst ri) ->
  forall k, (k < length rans)%nat -> ip_rows rans xd se k = oop_rows rans xd se k.
Proof. exact rows_agree. Qed.
(* ... and its side condition holds for every well-formed entry list: denotations of trees map
   vectors of the domain size to vectors of the range size ([den_length], by induction on the tree) *)
Theorem product_space_operator_modes_agree_for_trees :
  forall ro doms rans xd (se : list sent),
  ro_wf ro -> Forall (ent_ok ro doms rans) se ->
  (forall j dj, nth_error doms j = Some dj -> length (xd j) = fst dj) ->
  forall k, (k < length rans)%nat -> ip_rows rans xd se k = oop_rows rans xd se k.
Proof.
  intros ro doms rans xd se Hro HF Hx. apply rows_agree. exact (ents_lengths ro doms rans xd se Hro HF Hx).
Qed.
Print Assumptions product_space_operator_modes_agree_for_trees.
(* T1  ComponentProjectionAdjoint(space, i)(x, out=y) under the same proviso (variant-independent form) *)
Theorem component_projection_adjoint_partial :
  forall i x (outs : list nat) (sps : list space) (s : @store (option R)) dx spi oi,
  wf_store s -> NoDup outs -> length outs = length sps -> ~ In x outs ->
  rd s x = Some (spi, cl dx) -> nth_error outs i = Some oi -> nth_error sps i = Some spi ->
  (forall k o sp, nth_error outs k = Some o -> nth_error sps k = Some sp ->
      (exists d, rd s o = Some (sp, d)) /\ zero_safe s o) ->
  exists s', cpadj_ip i x outs s = Ok tt s' /\ wf_store s' /\ ext s s' outs /\
    rd s' oi = Some (spi, cl dx) /\
    (forall k o sp, k <> i -> nth_error outs k = Some o -> nth_error sps k = Some sp ->
        rd s' o = Some (sp, cl (zvec sp))).
Proof. exact cpadj_ip_ok. Qed.
(* T1  for the CURRENT source the proviso is always met ([zero_safe_now]): op(x, out=y) of a
   ProductSpaceOperator returns y whose parts hold exactly the rows of op(x), for ARBITRARY
   (NaN-filled) contents of y, empty rows included; likewise ComponentProjectionAdjoint. *)
Theorem product_space_operator_call_in_place_equals_out_of_place :
  forall (junk : nat -> nat -> option R) ro doms rans xs outs xd (se : list sent) (s : @store (option R)),
  Forall (ent_ok ro doms rans) se -> outs_static ro rans xs outs -> args_ok ro doms xs xd s ->
  (forall i o ri, nth_error outs i = Some o -> nth_error rans i = Some ri -> exists d, rd s o = Some (ri, d)) ->
  exists s', pso_call junk (map fst se) doms rans xs (Some outs) s = Ok outs s' /\
    (forall i o ri, nth_error outs i = Some o -> nth_error rans i = Some ri ->
        rd s' o = Some (ri, cl (oop_rows rans xd se i))) /\
    ext s s' outs /\ wf_store s'.
Proof. exact pso_call_in_place_now. Qed.
Print Assumptions product_space_operator_call_in_place_equals_out_of_place.
Theorem component_projection_adjoint_in_place :
  forall i x (outs : list nat) (sps : list space) (s : @store (option R)) dx spi oi,
  wf_store s -> NoDup outs -> length outs = length sps -> ~ In x outs ->
  rd s x = Some (spi, cl dx) -> nth_error outs i = Some oi -> nth_error sps i = Some spi ->
  (forall k o sp, nth_error outs k = Some o -> nth_error sps k = Some sp -> exists d, rd s o = Some (sp, d)) ->
  exists s', cpadj_ip i x outs s = Ok tt s' /\ wf_store s' /\ ext s s' outs /\
    rd s' oi = Some (spi, cl dx) /\
    (forall k o sp, k <> i -> nth_error outs k = Some o -> nth_error sps k = Some sp ->
        rd s' o = Some (sp, cl (zvec sp))).
Proof. exact cpadj_ip_now. Qed.
(* the former counterexamples of these two sites, recomputed *)
Theorem former_counterexample_component_projection_adjoint :
  match cpadj_ip 0 0%nat [1%nat; 2%nat] [(sp3, q3 1 2 3); (sp3, nan3); (sp3, nan3)] with
  | Ok _ s => parts_after (Ok [1%nat; 2%nat] s) = Some [q3 1 2 3; q3 0 0 0]
  | Err _ _ => False
  end
  /\ parts_after (cpadj_oop 0 [sp3; sp3] 0%nat [(sp3, q3 1 2 3)]) = Some [q3 1 2 3; q3 0 0 0].
Proof. exact cpadj_nan_out_is_overwritten. Qed.
Theorem former_counterexample_product_space_operator_empty_row :
  let ents := [{| en_row := 0; en_col := 0; en_op := scal3 2 |}] in
  parts_after (pso_call junkQ ents [sp3; sp3] [sp3; sp3] [0%nat; 1%nat] (Some [2%nat; 3%nat])
                 [(sp3, q3 1 2 3); (sp3, q3 4 5 6); (sp3, nan3); (sp3, nan3)]) = Some [q3 2 4 6; q3 0 0 0]
  /\ parts_after (pso_call junkQ ents [sp3; sp3] [sp3; sp3] [0%nat; 1%nat] None
                 [(sp3, q3 1 2 3); (sp3, q3 4 5 6)]) = Some [q3 2 4 6; q3 0 0 0].
Proof. exact pso_zero_row_nan_out_is_overwritten. Qed.

(* BroadcastOperator(op_0, ..., op_{n-1}) is the ProductSpaceOperator with entries (i, 0, op_i):
   its entry list meets the hypotheses of the two theorems above whenever every op_i is a
   tree of call_protocol_all_trees from the common domain (likewise Reduction / Diagonal). *)
Theorem broadcast_operator_is_a_product_space_operator :
  forall ro dom (ts : list optup),
  Forall (op_ok ro) ts -> Forall (fun t => snd (fst (fst t)) = dom) ts ->
  Forall (ent_ok ro [dom] (map (fun t => snd (fst t)) ts)) (bsent ts) /\
  map fst (bsent ts) = broadcast_entries (map (fun t => fst (fst (fst t))) ts).
Proof. intros ro dom ts H1 H2. split; [exact (broadcast_ent_ok ro dom ts H1 H2) | exact (bsent_entries ts)]. Qed.

(* non-vacuity of the product-space hypotheses: a concrete store, argument and output *)
Example product_space_hypotheses_hold :
  let sp := (2, 0)%nat in
  let s : @store (option R) := [(sp, cl [1%R; 2%R]); (sp, cl [3%R; 4%R]); (sp, [None; None]); (sp, cl [0%R; 0%R])] in
  let se : list sent := [({| en_row := 0; en_col := 1; en_op := Op cls_ScalingOperator sp (RSp sp) [Some 2%R] [] [] [] |},
                          fun d => rscal 2 d)] in
  Forall (ent_ok [] [sp; sp] [sp; sp]) se /\
  outs_static [] [sp; sp] [0%nat; 1%nat] [2%nat; 3%nat] /\
  args_ok [] [sp; sp] [0%nat; 1%nat] (fun j => nth j [[1%R; 2%R]; [3%R; 4%R]] []) s /\
  (forall o, In o [3%nat] -> zero_safe s o).
Proof.
  cbv zeta. splits.
  - constructor; [|constructor]. exists (2, 0)%nat, (2, 0)%nat. splits; [reflexivity | reflexivity | apply D_Scaling].
  - unfold outs_static. splits.
    + repeat constructor; cbn; intuition lia.
    + reflexivity.
    + intros o I J. cbn in I, J. lia.
    + intros o _ [].
  - unfold args_ok. splits.
    + intros i sp d E. destruct i as [|[|[|[|i]]]]; cbn in E; try (injection E as <- <-; reflexivity).
      destruct i; discriminate.
    + intros i sp d [].
    + intros j xj dj Ej Ed. destruct j as [|[|j]]; cbn in Ej, Ed; try (injection Ej as <-; injection Ed as <-; reflexivity).
      destruct j; discriminate.
    + reflexivity.
  - intros o [<-|[]]. right; right. exists (2, 0)%nat, [0%R; 0%R]. reflexivity.
Qed.

(* ------------------------------------------------------------------ *)
(* TRANSFER: the model EXECUTED by the correspondence shards (entries in [option Q], inside
   Coq by vm_compute) is the rational restriction of the model the theorems above are ABOUT
   (entries in [option R]).  The whole interpreter -- lincomb regimes, Operator.__call__, the
   bridges, the body language, operator trees, the product-space loops -- commutes with
   every homomorphism of the carrier class (C03/Transfer.v, by induction over bodies and
   trees), and [option_map Q2R] is such a homomorphism.  No assumption links the two
   instances any more. *)
Theorem executed_model_is_restriction_of_proved_model :
  forall (o : @op (option Q)) (x : @pyval (option Q)) (out : option (@pyval (option Q))) (s : @store (option Q)),
  omap o2r (pvmap o2r) (call (fun _ _ => None) o x out s)
  = call (fun _ _ => None) (opmap o2r o) (pvmap o2r x) (opv o2r out) (smap o2r s).
Proof. exact call_Q_to_R. Qed.
Print Assumptions executed_model_is_restriction_of_proved_model.
Theorem executed_product_space_model_is_restriction :
  forall (ents : list (@entry (option Q))) dom ran xs out (s : @store (option Q)),
  omap o2r (fun l : list nat => l) (pso_call (fun _ _ => None) ents dom ran xs out s)
  = pso_call (fun _ _ => None) (map (entmap o2r) ents) dom ran xs out (smap o2r s).
Proof. intros ents dom ran xs out s. exact (pso_call_transfer o2r o2r_hom (fun _ _ => None) ents dom ran xs out s). Qed.

(* ------------------------------------------------------------------ *)
(* TIE TO THE SOURCE OF THE PROTOCOL ITSELF: Gen/C03Bodies.v also contains, regenerated on every
   run, the statement lists of Operator.__call__ (with and without out), of
   _default_call_out_of_place, of _default_call_in_place and the slot table of
   Operator.__new__.  The hand-written [public_call], [default_oop], [default_ip], [slots] that all
   theorems above are about are EQUAL to the interpreters of those lists, so reordering a check
   in __call__ or changing a slot in __new__ breaks these proofs (not only the correspondence). *)
Theorem protocol_model_is_generated_from_source :
  forall (V : Type) (HV : Num V) (junk : nat -> nat -> V) (dom : space) (ran : rsp)
         (ip : @pyval V -> @pyval V -> @M V (@pyval V)) (oop : @pyval V -> @M V (@pyval V))
         (k : kind) (x y : @pyval V) (out : option (@pyval V)) (s : @store V),
  public_call_gen junk dom ran ip oop x out s = public_call junk dom ran ip oop x out s /\
  default_oop_gen junk ran ip x s = default_oop junk ran ip x s /\
  default_ip_gen junk ran oop x y s = default_ip junk ran oop x y s /\
  fst (slots_gen junk k ran oop ip) x y s = fst (slots junk k ran oop ip) x y s /\
  snd (slots_gen junk k ran oop ip) x s = snd (slots junk k ran oop ip) x s.
Proof.
  intros V HV junk dom ran ip oop k x y out s. split; [|split; [|split]].
  - exact (@public_call_is_generated V HV junk dom ran ip oop x out s).
  - exact (@default_oop_is_generated V HV junk ran ip x s).
  - exact (@default_ip_is_generated V HV junk ran oop x y s).
  - exact (@slots_is_generated V HV junk k ran oop ip x y s).
Qed.
Print Assumptions protocol_model_is_generated_from_source.
