(* C03/Corr.v -- correspondence checkers (executed at the poisoned carrier
   [option Q] by the shards; NaN / uninitialised memory = None). *)
From Coq Require Import ZArith QArith List Bool Arith String.
From Verif Require Import Base.Num Base.Vec Base.Check C03.Syntax Gen.C03Bodies C03.Poison C03.Model.
Import ListNotations.

Notation QV := (option Q).
Definition junkQ : nat -> nat -> QV := fun _ _ => None.
Definition tol : Q := 1 # 1000000000000.
Definition oqs_close (a b : list QV) : bool := all2 (opt_close tol tol) a b.

(* what the implementation did *)
Inductive iout :=
| IElem (ident : option nat) (d : list QV)   (* an element: Some i = the pre-existing object i, None = a new object *)
| ISc (v : QV)                               (* a scalar *)
| IErr (e : err)
| IOther.                                    (* anything else (ndarray, tuple, ...): never matches the model *)

Record case := {
  k_store : list ((nat * nat) * list QV);    (* the objects that exist before the call *)
  k_op : @op QV;
  k_x : @pyval QV;
  k_out : option (@pyval QV);
  k_res : iout;
  k_post : list (list QV);                   (* contents of the pre-existing objects after the call *)
  k_cmp : bool }.                            (* false: x was None (uninitialised input), values are not compared *)

Definition err_eqb (a b : err) : bool :=
  match a, b with
  | EDomain, EDomain | ERange, ERange | EFunctionalOut, EFunctionalOut
  | EBadReturn, EBadReturn | EOther, EOther => true
  | _, _ => false
  end.

Fixpoint post_ok (s : list ((nat * nat) * list QV)) (post : list (list QV)) : bool :=
  match post, s with
  | [], _ => true
  | p :: post', (_, d) :: s' => oqs_close p d && post_ok s' post'
  | _ :: _, [] => false
  end.

Definition check (k : case) : bool :=
  let n0 := List.length (k_store k) in
  match call junkQ (k_op k) (k_x k) (k_out k) (k_store k), k_res k with
  | Ok (VElem i) s', IElem ident d =>
      (match ident with Some j => (i =? j)%nat | None => (n0 <=? i)%nat end)
      && (match rd s' i with Some (_, d') => negb (k_cmp k) || oqs_close d d' | None => false end)
      && (negb (k_cmp k) || post_ok s' (k_post k))
  | Ok (VSc v) s', ISc v' => negb (k_cmp k) || (opt_close tol tol v' v && post_ok s' (k_post k))
  | Err e s', IErr e' => err_eqb e e' && (negb (k_cmp k) || post_ok s' (k_post k))
  | _, _ => false
  end.

(* ---- dispatch kinds: the table regenerated from the `_call` signatures against
   what Operator.__new__ stored on the class at run time ---- *)
Record kcase := { kc_name : string; kc_has_out : bool; kc_out_optional : bool }.
Fixpoint kfind (n : string) (l : list (string * kind)) : list kind :=
  match l with
  | [] => []
  | (m, k) :: l' => if String.eqb n m then k :: kfind n l' else kfind n l'
  end.
Definition kind_flags (k : kind) : bool * bool :=
  match k with KOop => (false, false) | KBoth => (true, true) | KIp => (true, false) end.
Definition kcheck (c : kcase) : bool :=
  existsb (fun k => let '(h, o) := kind_flags k in Bool.eqb h (kc_has_out c) && Bool.eqb o (kc_out_optional c))
          (kfind (kc_name c) call_kinds).

(* ---- _dispatch_call_args on synthetic signatures ---- *)
Record dcase := { dc_sig : csig; dc_res : option (bool * bool) }.   (* (has_out, out_optional) or rejected *)
Definition dcheck (c : dcase) : bool :=
  match dispatch (dc_sig c), dc_res c with
  | Some k, Some (h, o) => let '(h', o') := kind_flags k in Bool.eqb h h' && Bool.eqb o o'
  | None, None => true
  | _, _ => false
  end.

(* ---- product-space operators (C03/PModel.v) ---- *)
From Verif Require Import C03.PModel.
Inductive pkind :=
| PKpso (ents : list (@entry QV)) (dom ran : list (nat * nat))     (* ProductSpaceOperator / Diagonal *)
| PKbroadcast (ops : list (@op QV)) (dom : nat * nat) (ran : list (nat * nat))
| PKreduction (ops : list (@op QV)) (dom : list (nat * nat)) (ran : nat * nat)
| PKproj (i : nat) | PKprojadj (i : nat) (ran : list (nat * nat)).
(* what the implementation returned: the parts of the result (identity as for IElem) or an error *)
Inductive pout := POk (parts : list (option nat * list QV)) | PErr (e : err).
Record pcase := {
  p_store : list ((nat * nat) * list QV);
  p_kind : pkind;
  p_x : list nat;                  (* parts of x (one part for a flat argument) *)
  p_out : option (list nat);
  p_res : pout;
  p_post : list (list QV) }.

Definition part_ok (n0 : nat) (s : list ((nat * nat) * list QV)) (i : nat) (p : option nat * list QV) : bool :=
  (match fst p with Some j => (i =? j)%nat | None => (n0 <=? i)%nat end)
  && (match rd s i with Some (_, d) => oqs_close (snd p) d | None => false end).
Definition prun (k : pcase) : @outcome QV (list nat) :=
  match p_kind k, p_x k, p_out k with
  | PKpso ents dom ran, xs, out => pso_call junkQ ents dom ran xs out (p_store k)
  | PKbroadcast ops dom ran, [x], out => pso_call junkQ (broadcast_entries ops) [dom] ran [x] out (p_store k)
  | PKreduction ops dom ran, xs, None => pso_call junkQ (reduction_entries ops) dom [ran] xs None (p_store k)
  | PKreduction ops dom ran, xs, Some [o] => pso_call junkQ (reduction_entries ops) dom [ran] xs (Some [o]) (p_store k)
  | PKproj i, xs, None => match cproj_oop i xs (p_store k) with Ok r s => Ok [r] s | Err e s => Err e s end
  | PKproj i, xs, Some [o] => match cproj_ip i xs o (p_store k) with Ok _ s => Ok [o] s | Err e s => Err e s end
  | PKprojadj i ran, [x], None => cpadj_oop i ran x (p_store k)
  | PKprojadj i ran, [x], Some outs =>
      match cpadj_ip i x outs (p_store k) with Ok _ s => Ok outs s | Err e s => Err e s end
  | _, _, _ => Err EOther (p_store k)
  end.
Definition pcheck (k : pcase) : bool :=
  let n0 := List.length (p_store k) in
  match prun k, p_res k with
  | Ok l s', POk parts => all2 (part_ok n0 s') l parts && post_ok s' (p_post k)
  | Err e s', PErr e' => err_eqb e e' && post_ok s' (p_post k)
  | _, _ => false
  end.
