(* C03/Corr.v -- correspondence checkers (executed at the poisoned carrier
   [option Q] by the shards; NaN / uninitialised memory = None). *)
From Coq Require Import ZArith QArith List Bool Arith String.
From Verif Require Import Base.Num Base.Vec Base.Check C03.Syntax Gen.C03Bodies C03.Poison C03.Model.
Import ListNotations.

Notation QV := (option Q).
Definition junkQ : nat -> nat -> QV := fun _ _ => None.
Definition tol : Q := 1 # 1000000000000.
Definition oqs_close (a b : list QV) : bool := all2 (opt_close tol tol) a b.

(* what the implementation did *)
Inductive iout :=
| IElem (ident : option nat) (d : list QV)   (* an element: Some i = the pre-existing object i, None = a new object *)
| ISc (v : QV)                               (* a scalar *)
| IErr (e : err)
| IOther.                                    (* anything else (ndarray, tuple, ...): never matches the model *)

Record case := {
  k_store : list ((nat * nat) * list QV);    (* the objects that exist before the call *)
  k_op : @op QV;
  k_x : @pyval QV;
  k_out : option (@pyval QV);
  k_res : iout;
  k_post : list (list QV);                   (* contents of the pre-existing objects after the call *)
  k_cmp : bool }.                            (* false: x was None (uninitialised input), values are not compared *)

Definition err_eqb (a b : err) : bool :=
  match a, b with
  | EDomain, EDomain | ERange, ERange | EFunctionalOut, EFunctionalOut
  | EBadReturn, EBadReturn | EOther, EOther => true
  | _, _ => false
  end.

Fixpoint post_ok (s : list ((nat * nat) * list QV)) (post : list (list QV)) : bool :=
  match post, s with
  | [], _ => true
  | p :: post', (_, d) :: s' => oqs_close p d && post_ok s' post'
  | _ :: _, [] => false
  end.

Definition check (k : case) : bool :=
  let n0 := List.length (k_store k) in
  match call junkQ (k_op k) (k_x k) (k_out k) (k_store k), k_res k with
  | Ok (VElem i) s', IElem ident d =>
      (match ident with Some j => (i =? j)%nat | None => (n0 <=? i)%nat end)
      && (match rd s' i with Some (_, d') => negb (k_cmp k) || oqs_close d d' | None => false end)
      && (negb (k_cmp k) || post_ok s' (k_post k))
  | Ok (VSc v) s', ISc v' => negb (k_cmp k) || (opt_close tol tol v' v && post_ok s' (k_post k))
  | Err e s', IErr e' => err_eqb e e' && post_ok s' (k_post k)
  | _, _ => false
  end.

(* ---- dispatch kinds: the table regenerated from the `_call` signatures against
   what Operator.__new__ stored on the class at run time ---- *)
Record kcase := { kc_name : string; kc_has_out : bool; kc_out_optional : bool }.
Fixpoint kfind (n : string) (l : list (string * kind)) : list kind :=
  match l with
  | [] => []
  | (m, k) :: l' => if String.eqb n m then k :: kfind n l' else kfind n l'
  end.
Definition kind_flags (k : kind) : bool * bool :=
  match k with KOop => (false, false) | KBoth => (true, true) | KIp => (true, false) end.
Definition kcheck (c : kcase) : bool :=
  existsb (fun k => let '(h, o) := kind_flags k in Bool.eqb h (kc_has_out c) && Bool.eqb o (kc_out_optional c))
          (kfind (kc_name c) call_kinds).

(* ---- _dispatch_call_args on synthetic signatures ---- *)
Record dcase := { dc_sig : csig; dc_res : option (bool * bool) }.   (* (has_out, out_optional) or rejected *)
Definition dcheck (c : dcase) : bool :=
  match dispatch (dc_sig c), dc_res c with
  | Some k, Some (h, o) => let '(h', o') := kind_flags k in Bool.eqb h h' && Bool.eqb o o'
  | None, None => true
  | _, _ => false
  end.
