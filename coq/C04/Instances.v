(* C04/Instances.v -- the Section hypotheses of C04/Proofs.v hold at R and at C = R*R
   (so the theorems are not vacuous and can be stated closed at both fields). *)
From Coq Require Import ZArith Reals Lra List Bool Ring RealField.
From Verif Require Import Base.Num Base.Vec C04.Model C04.Cplx.
Import ListNotations.
Local Open Scope R_scope.

Lemma R_ring : ring_theory (@nzero R _) none_ nadd nmul nsub nopp (@eq R).
Proof. exact RTheory. Qed.
Lemma R_div : forall u c : R, ndiv u c = nmul (ndiv none_ c) u.
Proof. intros; numR; unfold Rdiv; ring. Qed.
Lemma R_eqb : forall a b : R, neqb a b = true -> a = b.
Proof. intros a b; numR; destruct (Reqb_spec a b); [auto|discriminate]. Qed.

Lemma RC_ring : ring_theory (@nzero RC _) none_ nadd nmul nsub nopp (@eq RC).
Proof.
  constructor; cbn [nzero none_ nadd nmul nsub nopp Num_RC];
    unfold rc_add, rc_mul, rc_sub, rc_opp; intros; cbn [fst snd];
    repeat match goal with x : RC |- _ => destruct x end; cbn [fst snd]; f_equal; ring.
Qed.
Lemma RC_div : forall u c : RC, ndiv u c = nmul (ndiv none_ c) u.
Proof.
  intros [ur ui] [cr ci]; cbn [ndiv nmul none_ Num_RC]; unfold rc_div, rc_mul, rc_inv; cbn [fst snd].
  unfold Rdiv; f_equal; ring.
Qed.
Lemma RC_eqb : forall a b : RC, neqb a b = true -> a = b.
Proof.
  intros [ar ai] [br bi]; cbn [neqb Num_RC]; unfold rc_eqb; cbn [fst snd]; intros E.
  apply andb_true_iff in E as [E1 E2].
  destruct (Reqb_spec ar br); [|discriminate]. destruct (Reqb_spec ai bi); [|discriminate]. congruence.
Qed.
Lemma R_eqb_refl : forall a : R, neqb a a = true.
Proof. intros a; numR; destruct (Reqb_spec a a); [reflexivity|congruence]. Qed.
Lemma RC_eqb_refl : forall a : RC, neqb a a = true.
Proof.
  intros [ar ai]; cbn [neqb Num_RC]; unfold rc_eqb; cbn [fst snd].
  destruct (Reqb_spec ar ar); [|congruence]. destruct (Reqb_spec ai ai); [reflexivity|congruence].
Qed.
