(* C04/ModelIP.v -- the in-place _call bodies of the expression classes on POISONED buffers
   (definitions only).  A buffer is a list of [option T]; [None] stands for uninitialised
   memory / NaN (what `range.element()` returns, and whatever the caller's `out` held before).
   Every arithmetic step is strict in [None] (also multiplication by zero), so "the old
   contents of `out` and of the temporaries never influence the result" becomes: the final
   buffer is all-[Some] and equals the out-of-place value, for ANY initial `out`.
   Contract assumed of a LEAF called in place (checked for real leaves by C03 and by the
   NaN-filled `out` of the C04 correspondence): it overwrites `out` completely and does not
   read it; a poisoned input poisons its whole output. *)
From Coq Require Import ZArith List Bool.
From Verif Require Import Base.Num Base.Vec C04.Model.
Import ListNotations.

Section IP.
Context {T : Type} `{Num T}.
Notation vec := (list T).
Notation pvec := (list (option T)).

Definition plift1 (f : T -> T) (a : option T) : option T :=
  match a with Some u => Some (f u) | None => None end.
Definition plift2 (f : T -> T -> T) (a b : option T) : option T :=
  match a, b with Some u, Some v => Some (f u v) | _, _ => None end.
Fixpoint pmap2 (f : T -> T -> T) (x y : pvec) : pvec :=
  match x, y with
  | a :: x', b :: y' => plift2 f a b :: pmap2 f x' y'
  | _, _ => []
  end.
Definition pure (v : vec) : pvec := map Some v.
Fixpoint unp (x : pvec) : option vec :=
  match x with
  | [] => Some []
  | Some a :: x' => match unp x' with Some l => Some (a :: l) | None => None end
  | None :: _ => None
  end.
Definition poison (n : nat) : pvec := repeat None n.
Definition papply (f : vec -> vec) (nout : nat) (x : pvec) : pvec :=
  match unp x with Some v => pure (f v) | None => poison nout end.

(* [ipp o x out] = contents of `out` after  o._call(x, out)  *)
Fixpoint ipp (o : oexpr T) (x out : pvec) : pvec :=
  match o with
  | OLeaf l => papply (l_fun l) (length out) x
  | OSum _ a b =>                                   (* tmp = range.element(); left(x, out=tmp); *)
      let tmp := ipp a x (poison (length out)) in   (* right(x, out=out); out += tmp            *)
      let out1 := ipp b x out in
      pmap2 nadd out1 tmp
  | OVecSum a v => pmap2 nadd (ipp a x out) (pure v)               (* op(x, out=out); out += vector *)
  | OComp _ a b =>                                                 (* tmp = right.range.element() *)
      let tmp := ipp b x (poison (dim (oran b))) in ipp a tmp out  (* right(x, out=tmp); left(tmp, out=out) *)
  | OLScal _ a c => map (plift1 (nmul c)) (ipp a x out)            (* op(x, out=out); out *= scalar *)
  | ORScal _ a c => ipp a (map (plift1 (nmul c)) x) out            (* tmp.lincomb(scalar, x); op(tmp, out=out) *)
  | OLVec a v => pmap2 nmul (ipp a x out) (pure v)                 (* op(x, out=out); out *= vector *)
  | ORVec _ a v => ipp a (pmap2 nmul x (pure v)) out               (* x.multiply(vector, out=tmp); op(tmp, out=out) *)
  | OFLVec a v =>                                                  (* scalar = functional(x); out.lincomb(scalar, vector) *)
      match unp x with
      | Some xv => pure (vscal (scalar_of (eval a xv)) v)
      | None => poison (length out)
      end
  | OPtw a b =>
      let tmp := ipp a x (poison (length out)) in
      let out1 := ipp b x out in
      pmap2 nmul out1 tmp
  | OConst _ _ | OZero _ | OScalSum _ _ => poison (length out)     (* a functional called with out: TypeError *)
  end.
End IP.
