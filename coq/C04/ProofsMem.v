(* C04/ProofsMem.v -- memory safety of the expression classes for EVERY tree and EVERY leaf
   contract: the bodies never modify a buffer they did not allocate (other than `out`), never
   call an operand in place with out aliased to its input unless the caller did, and never
   write into an out-of-place result of an operand. *)
From Coq Require Import ZArith List Bool Ring Lia.
From Verif Require Import Base.Num Base.Vec C04.Model C04.ModelIP C04.ModelMem C04.VecRing
  C04.Proofs C04.ProofsIP.
Import ListNotations.
Local Open Scope num_scope.

Ltac unbind E :=
  unfold bind in E;
  repeat match type of E with
         | (match ?r with Ok _ => _ | Err _ => _ end) = _ =>
             let o := fresh "o" in let B := fresh "B" in destruct r as [o|] eqn:B; [|discriminate E]
         end.

Section MemProofs.
Context {T : Type} {N : Num T}.
Hypothesis Rth : ring_theory nzero none_ nadd nmul nsub nopp (@eq T).
Variable kon : nat -> lcontract.
Notation vec := (list T).
Notation pvec := (list (option T)).
Notation store := (@store T).
Notation oop := (oop kon).
Notation ip := (ip kon).
Notation ofresh := (ofresh kon).
Notation oalias := (oalias kon).

(* st' extends st: more buffers, the old ones untouched *)
Definition ext (st st' : store) : Prop :=
  next st <= next st' /\ forall i, i < next st -> mem st' i = mem st i.
Lemma ext_refl st : ext st st.
Proof. split; auto. Qed.
Lemma ext_trans a b c : ext a b -> ext b c -> ext a c.
Proof. intros [L1 M1] [L2 M2]. split; [lia|]. intros i Hi. rewrite M2, M1 by lia. reflexivity. Qed.

Lemma salloc_spec (st st' : store) v r : salloc st v = (st', r) ->
  ext st st' /\ r = next st /\ next st' = S (next st) /\ sget st' r = v.
Proof.
  unfold salloc. intros E. injection E as <- <-. repeat split; cbn [next mem sget]; auto.
  - intros i Hi. destruct (Nat.eqb_spec i (next st)); [lia|reflexivity].
  - rewrite Nat.eqb_refl. reflexivity.
Qed.

Lemma alloc_after (st st1 st' : store) v r : ext st st1 -> salloc st1 v = (st', r) ->
  ext st st' /\ r < next st' /\ sget st' r = v /\ next st <= r.
Proof.
  intros X E. destruct (salloc_spec _ _ _ _ E) as (X1 & -> & Nx & G).
  split; [eapply ext_trans; eauto|]. split; [lia|]. split; [assumption|]. destruct X; lia.
Qed.

Lemma pscalar_pure (l : vec) : length l = 1%nat -> pscalar (pure l) = Some (scalar_of l).
Proof. destruct l as [|a [|b l]]; cbn; intros E; try discriminate; reflexivity. Qed.

(* a predicate on leaves holds of every leaf of an object / of a source expression *)
Fixpoint osat (P : leaf T -> Prop) (o : oexpr T) : Prop :=
  match o with
  | OLeaf l => P l
  | OConst _ _ | OZero _ => True
  | OSum _ a b | OComp _ a b | OPtw a b => osat P a /\ osat P b
  | OScalSum a _ | OVecSum a _ | OLScal _ a _ | ORScal _ a _ | OLVec a _ | ORVec _ a _ | OFLVec a _ => osat P a
  end.
Fixpoint ssat (P : leaf T -> Prop) (s : sexpr T) : Prop :=
  match s with
  | SLeaf l => P l
  | SConst _ _ | SZero _ => True
  | SAdd a b | SSub a b | SMul a b | SPtw a b => ssat P a /\ ssat P b
  | SNeg a | SPow a _ | SAddV a _ | SVAdd _ a | SSubV a _ | SVSub _ a | SMulV a _ | SVMul _ a
  | SAddC a _ | SCAdd _ a | SSubC a _ | SCSub _ a | SMulC a _ _ | SCMul _ a | SDivC a _ _ => ssat P a
  end.

(* side condition on leaves that return their input: they are the identity on their domain *)
Definition returns_input_ok (l : leaf T) : Prop :=
  k_fresh (kon (l_id l)) = false -> forall x : vec, length x = dim (l_dom l) -> l_fun l x = x.
Definition memok (o : oexpr T) : Prop := osat returns_input_ok o.

(* ---- out-of-place ---- *)
Lemma oop_sound (o : oexpr T) : wf o -> memok o ->
  forall (st : store) (x : nat) (xv : vec),
    x < next st -> sget st x = pure xv -> length xv = dim (odom o) ->
  forall st' r, oop o st x = (st', r) ->
    ext st st' /\ r < next st' /\ sget st' r = pure (eval o xv)
    /\ (r = x \/ next st <= r) /\ (ofresh o = true -> next st <= r).
Proof.
  induction o as [l|d c|d|fn a IHa b IHb|a IHa c|a IHa v|fn a IHa b IHb|fn a IHa c|fn a IHa c
                 |a IHa v|fn a IHa v|a IHa v|a IHa b IHb];
    unfold memok; cbn [wf osat odom]; intros W MK st x xv Hx Gx Lx st' r E; cbn [ModelMem.oop] in E; cbn [eval ModelMem.ofresh].
  - (* leaf *) unfold leaf_oop in E. destruct (k_fresh (kon (l_id l))) eqn:F.
    + destruct (alloc_after st st st' _ r (ext_refl st) E) as (X & R & G & Ge).
      split; [assumption|]. split; [assumption|]. split; [|split; [right; assumption | intros _; assumption]].
      rewrite G, Gx. apply papply_pure.
    + injection E as <- <-. split; [apply ext_refl|]. split; [assumption|].
      split; [|split; [left; reflexivity | discriminate]].
      rewrite Gx, (MK F xv Lx). reflexivity.
  - destruct (alloc_after st st st' _ r (ext_refl st) E) as (X & R & G & Ge). tauto.
  - destruct (alloc_after st st st' _ r (ext_refl st) E) as (X & R & G & Ge). tauto.
  - (* sum *) destruct W as (Wa & Wb & Er & Ed & _), MK as [Ma Mb].
    destruct (oop a st x) as [st1 r1] eqn:Ea. destruct (oop b st1 x) as [st2 r2] eqn:Eb.
    destruct (IHa Wa Ma st x xv Hx Gx Lx _ _ Ea) as (X1 & R1 & G1 & _).
    assert (Gx1 : sget st1 x = pure xv) by (unfold sget; rewrite (proj2 X1) by assumption; exact Gx).
    destruct (IHb Wb Mb st1 x xv ltac:(destruct X1; lia) Gx1 ltac:(congruence) _ _ Eb) as (X2 & R2 & G2 & _).
    destruct (alloc_after st st2 st' _ r (ext_trans _ _ _ X1 X2) E) as (X & R & G & Ge).
    split; [assumption|]. split; [assumption|]. split; [|split; [right; assumption | intros _; assumption]].
    rewrite G, G2. unfold sget. rewrite (proj2 X2) by assumption. fold (sget st1 r1). rewrite G1.
    apply pmap2_pure.
  - (* functional + scalar *) destruct W as (Wa & Fa).
    destruct (oop a st x) as [st1 r1] eqn:Ea.
    destruct (IHa Wa MK st x xv Hx Gx Lx _ _ Ea) as (X1 & R1 & G1 & _).
    destruct (alloc_after st st1 st' _ r X1 E) as (X & R & G & Ge).
    split; [assumption|]. split; [assumption|]. split; [|split; [right; assumption | intros _; assumption]].
    rewrite G, G1. apply (pmap2_pure nadd (eval a xv) [c]).
  - (* + vector *) destruct W as (Wa & _).
    destruct (oop a st x) as [st1 r1] eqn:Ea.
    destruct (IHa Wa MK st x xv Hx Gx Lx _ _ Ea) as (X1 & R1 & G1 & _).
    destruct (alloc_after st st1 st' _ r X1 E) as (X & R & G & Ge).
    split; [assumption|]. split; [assumption|]. split; [|split; [right; assumption | intros _; assumption]].
    rewrite G, G1. apply pmap2_pure.
  - (* composition *) destruct W as (Wa & Wb & Er & _), MK as [Ma Mb].
    destruct (oop b st x) as [st1 r1] eqn:Eb.
    destruct (IHb Wb Mb st x xv Hx Gx Lx _ _ Eb) as (X1 & R1 & G1 & A1 & F1).
    assert (L1 : length (eval b xv) = dim (odom a)) by (rewrite (eval_length b Wb xv Lx); congruence).
    destruct (IHa Wa Ma st1 r1 (eval b xv) R1 G1 L1 _ _ E) as (X2 & R2 & G2 & A2 & F2).
    split; [eapply ext_trans; eauto|]. split; [assumption|]. split; [assumption|].
    destruct X1 as [Le1 _].
    split.
    + destruct A2 as [->|A2]; [|right; lia]. destruct A1 as [->|A1]; [left; reflexivity | right; assumption].
    + intros Fr. apply orb_true_iff in Fr as [Fr|Fr].
      * specialize (F2 Fr). lia.
      * specialize (F1 Fr). destruct A2 as [->|A2]; lia.
  - (* scalar * A *) destruct W as (Wa & _).
    destruct (oop a st x) as [st1 r1] eqn:Ea.
    destruct (IHa Wa MK st x xv Hx Gx Lx _ _ Ea) as (X1 & R1 & G1 & _).
    destruct (alloc_after st st1 st' _ r X1 E) as (X & R & G & Ge).
    split; [assumption|]. split; [assumption|]. split; [|split; [right; assumption | intros _; assumption]].
    rewrite G, G1. apply map_plift1_pure.
  - (* A * scalar *) destruct W as (Wa & _).
    destruct (salloc st (map (plift1 (nmul c)) (sget st x))) as [st1 t] eqn:Et.
    destruct (alloc_after st st st1 _ t (ext_refl st) Et) as (X1 & R1 & G1 & Ge1).
    rewrite Gx, map_plift1_pure in G1.
    destruct (IHa Wa MK st1 t (vscal c xv) R1 G1 ltac:(rewrite vscal_length; exact Lx) _ _ E)
      as (X2 & R2 & G2 & A2 & _).
    split; [eapply ext_trans; eauto|]. split; [assumption|]. split; [assumption|].
    assert (next st <= r) by (destruct X1; destruct A2 as [->|A2]; lia).
    split; [right; assumption | intros _; assumption].
  - (* vector * A *) destruct W as (Wa & _).
    destruct (oop a st x) as [st1 r1] eqn:Ea.
    destruct (IHa Wa MK st x xv Hx Gx Lx _ _ Ea) as (X1 & R1 & G1 & _).
    destruct (alloc_after st st1 st' _ r X1 E) as (X & R & G & Ge).
    split; [assumption|]. split; [assumption|]. split; [|split; [right; assumption | intros _; assumption]].
    rewrite G, G1. apply pmap2_pure.
  - (* A * vector *) destruct W as (Wa & Ed & _).
    destruct (salloc st (pmap2 nmul (sget st x) (pure v))) as [st1 t] eqn:Et.
    destruct (alloc_after st st st1 _ t (ext_refl st) Et) as (X1 & R1 & G1 & Ge1).
    rewrite Gx, pmap2_pure in G1.
    assert (L1 : length (vmap2 nmul xv v) = dim (odom a))
      by (rewrite vmap2_length, Lx, Ed; cbn [dim]; apply Nat.min_id).
    destruct (IHa Wa MK st1 t (vmap2 nmul xv v) R1 G1 L1 _ _ E) as (X2 & R2 & G2 & A2 & _).
    split; [eapply ext_trans; eauto|]. split; [assumption|]. split; [assumption|].
    assert (next st <= r) by (destruct X1; destruct A2 as [->|A2]; lia).
    split; [right; assumption | intros _; assumption].
  - (* vector * functional *) destruct W as (Wa & Er).
    destruct (oop a st x) as [st1 r1] eqn:Ea.
    destruct (IHa Wa MK st x xv Hx Gx Lx _ _ Ea) as (X1 & R1 & G1 & _).
    destruct (alloc_after st st1 st' _ r X1 E) as (X & R & G & Ge).
    split; [assumption|]. split; [assumption|]. split; [|split; [right; assumption | intros _; assumption]].
    rewrite G, G1. unfold pflvec. rewrite pscalar_pure; [reflexivity|].
    rewrite (eval_length a Wa xv Lx), Er. reflexivity.
  - (* pointwise product *) destruct W as (Wa & Wb & Er & Ed), MK as [Ma Mb].
    destruct (oop a st x) as [st1 r1] eqn:Ea. destruct (oop b st1 x) as [st2 r2] eqn:Eb.
    destruct (IHa Wa Ma st x xv Hx Gx Lx _ _ Ea) as (X1 & R1 & G1 & _).
    assert (Gx1 : sget st1 x = pure xv) by (unfold sget; rewrite (proj2 X1) by assumption; exact Gx).
    destruct (IHb Wb Mb st1 x xv ltac:(destruct X1; lia) Gx1 ltac:(congruence) _ _ Eb) as (X2 & R2 & G2 & _).
    destruct (alloc_after st st2 st' _ r (ext_trans _ _ _ X1 X2) E) as (X & R & G & Ge).
    split; [assumption|]. split; [assumption|]. split; [|split; [right; assumption | intros _; assumption]].
    rewrite G, G2. unfold sget. rewrite (proj2 X2) by assumption. fold (sget st1 r1). rewrite G1.
    apply pmap2_pure.
Qed.

(* ---- in-place ---- *)
(* [upd st st' out]: only `out` (and new buffers) differ *)
Definition upd (st st' : store) (out : nat) : Prop :=
  next st <= next st' /\ forall i, i < next st -> i <> out -> mem st' i = mem st i.

Lemma sset_upd (st : store) out v : upd st (sset st out v) out /\ sget (sset st out v) out = v.
Proof.
  split; [split; cbn [next sset mem]; auto|].
  - intros i _ Hi. destruct (Nat.eqb_spec i out); [contradiction|reflexivity].
  - cbn [sget sset mem]. rewrite Nat.eqb_refl. reflexivity.
Qed.
Lemma upd_trans a b c out : upd a b out -> upd b c out -> upd a c out.
Proof. intros [L1 M1] [L2 M2]. split; [lia|]. intros i Hi Ho. rewrite M2, M1 by (auto; lia). reflexivity. Qed.
Lemma ext_upd a b out : ext a b -> upd a b out.
Proof. intros [L M]. split; auto. Qed.

Lemma ip_sound (o : oexpr T) : wf o -> memok o -> (exists n, oran o = SV n) ->
  forall (st : store) (x out : nat) (xv : vec),
    x < next st -> out < next st -> (x <> out \/ oalias o = true) ->
    sget st x = pure xv -> length xv = dim (odom o) ->
    upd st (ip o st x out) out /\ sget (ip o st x out) out = pure (eval_ip o xv).
Proof.
  induction o as [l|d c|d|fn a IHa b IHb|a IHa c|a IHa v|fn a IHa b IHb|fn a IHa c|fn a IHa c
                 |a IHa v|fn a IHa v|a IHa v|a IHa b IHb];
    unfold memok; cbn [wf osat odom oran]; intros W MK [n Rn] st x out xv Hx Ho Al Gx Lx;
    cbn [ModelMem.ip eval_ip ModelMem.oalias] in *; try discriminate.
  - (* leaf: never reached with out == x unless it tolerates it *)
    unfold leaf_ip. destruct (sset_upd st out
      (if Nat.eqb x out && negb (k_alias (kon (l_id l))) then poison (dim (l_ran l))
       else papply (l_fun l) (dim (l_ran l)) (sget st x))) as [U G].
    split; [assumption|]. rewrite G.
    assert (C : Nat.eqb x out && negb (k_alias (kon (l_id l))) = false).
    { destruct Al as [Ne|A]; [apply Nat.eqb_neq in Ne; rewrite Ne; reflexivity|].
      rewrite A. apply andb_false_r. }
    rewrite C, Gx. apply papply_pure.
  - (* sum *) destruct W as (Wa & Wb & Er & Ed & _), MK as [Ma Mb].
    assert (Rb : exists k, oran b = SV k) by (exists n; congruence).
    destruct (salloc st (poison (dim (oran a)))) as [st1 tmp] eqn:Et.
    destruct (alloc_after st st st1 _ tmp (ext_refl st) Et) as (X1 & R1 & G1 & Ge1).
    assert (Gx1 : sget st1 x = pure xv) by (unfold sget; rewrite (proj2 X1) by assumption; exact Gx).
    assert (Hx1 : x < next st1) by (destruct X1; lia). assert (Ho1 : out < next st1) by (destruct X1; lia).
    assert (Nxt : x <> tmp \/ oalias a = true) by (left; lia).
    destruct (IHa Wa Ma (ex_intro _ n Rn) st1 x tmp xv Hx1 R1 Nxt Gx1 Lx) as [U2 G2].
    set (st2 := ip a st1 x tmp) in *.
    assert (Gx2 : sget st2 x = pure xv) by (unfold sget; rewrite (proj2 U2) by lia; exact Gx1).
    assert (Hx2 : x < next st2) by (destruct U2; lia). assert (Ho2 : out < next st2) by (destruct U2; lia).
    assert (Lxb : length xv = dim (odom b)) by congruence.
    destruct (IHb Wb Mb Rb st2 x out xv Hx2 Ho2 Al Gx2 Lxb) as [U3 G3].
    set (st3 := ip b st2 x out) in *.
    destruct (sset_upd st3 out (pmap2 nadd (sget st3 out) (sget st3 tmp))) as [U4 G4].
    split.
    + destruct U2 as [L2 M2], U3 as [L3 M3], U4 as [L4 M4], X1 as [L1 M1]. split; [lia|].
      intros i Hi Hio. rewrite M4 by (auto; lia). rewrite M3, M2 by (auto; lia). apply M1; assumption.
    + rewrite G4, G3. unfold sget at 1. rewrite (proj2 U3) by (destruct U2; lia).
      fold (sget st2 tmp). rewrite G2. apply pmap2_pure.
  - (* + vector *) destruct W as (Wa & _).
    destruct (IHa Wa MK (ex_intro _ n Rn) st x out xv Hx Ho Al Gx Lx) as [U1 G1].
    set (st1 := ip a st x out) in *.
    destruct (sset_upd st1 out (pmap2 nadd (sget st1 out) (pure v))) as [U2 G2].
    split; [eapply upd_trans; eauto|]. rewrite G2, G1. apply pmap2_pure.
  - (* composition: two different temporaries levels never coincide *)
    destruct W as (Wa & Wb & Er & _), MK as [Ma Mb]. destruct (dom_sv a Wa) as [m Dm].
    assert (Rb : exists k, oran b = SV k) by (exists m; congruence).
    destruct (salloc st (poison (dim (oran b)))) as [st1 tmp] eqn:Et.
    destruct (alloc_after st st st1 _ tmp (ext_refl st) Et) as (X1 & R1 & G1 & Ge1).
    assert (Gx1 : sget st1 x = pure xv) by (unfold sget; rewrite (proj2 X1) by assumption; exact Gx).
    assert (Hx1 : x < next st1) by (destruct X1; lia). assert (Ho1 : out < next st1) by (destruct X1; lia).
    assert (Nxt : x <> tmp \/ oalias b = true) by (left; lia).
    destruct (IHb Wb Mb Rb st1 x tmp xv Hx1 R1 Nxt Gx1 Lx) as [U2 G2].
    set (st2 := ip b st1 x tmp) in *.
    assert (L2 : length (eval_ip b xv) = dim (odom a))
      by (rewrite (eval_ip_eq Rth), (eval_length b Wb xv Lx); congruence).
    assert (Ht2 : tmp < next st2) by (destruct U2; lia). assert (Ho2 : out < next st2) by (destruct U2; lia).
    assert (Nto : tmp <> out \/ oalias a = true) by (left; lia).
    destruct (IHa Wa Ma (ex_intro _ n Rn) st2 tmp out (eval_ip b xv) Ht2 Ho2 Nto G2 L2) as [U3 G3].
    split; [|exact G3].
    destruct U2 as [Le2 M2], U3 as [Le3 M3], X1 as [Le1 M1]. split; [lia|].
    intros i Hi Hio. rewrite M3 by (auto; lia). rewrite M2 by (lia). apply M1; assumption.
  - (* scalar * A *) destruct W as (Wa & _).
    destruct (IHa Wa MK (ex_intro _ n Rn) st x out xv Hx Ho Al Gx Lx) as [U1 G1].
    set (st1 := ip a st x out) in *.
    destruct (sset_upd st1 out (map (plift1 (nmul c)) (sget st1 out))) as [U2 G2].
    split; [eapply upd_trans; eauto|]. rewrite G2, G1. apply map_plift1_pure.
  - (* A * scalar *) destruct W as (Wa & _).
    destruct (salloc st (map (plift1 (nmul c)) (sget st x))) as [st1 tmp] eqn:Et.
    destruct (alloc_after st st st1 _ tmp (ext_refl st) Et) as (X1 & R1 & G1 & Ge1).
    rewrite Gx, map_plift1_pure in G1.
    assert (Ho1 : out < next st1) by (destruct X1; lia).
    assert (Nto : tmp <> out \/ oalias a = true) by (left; lia).
    assert (L1 : length (vscal c xv) = dim (odom a)) by (rewrite vscal_length; exact Lx).
    destruct (IHa Wa MK (ex_intro _ n Rn) st1 tmp out (vscal c xv) R1 Ho1 Nto G1 L1) as [U2 G2].
    split; [|exact G2]. eapply upd_trans; [apply ext_upd; exact X1 | exact U2].
  - (* vector * A *) destruct W as (Wa & _).
    destruct (IHa Wa MK (ex_intro _ n Rn) st x out xv Hx Ho Al Gx Lx) as [U1 G1].
    set (st1 := ip a st x out) in *.
    destruct (sset_upd st1 out (pmap2 nmul (sget st1 out) (pure v))) as [U2 G2].
    split; [eapply upd_trans; eauto|]. rewrite G2, G1. apply pmap2_pure.
  - (* A * vector *) destruct W as (Wa & Ed & _).
    destruct (salloc st (pmap2 nmul (sget st x) (pure v))) as [st1 tmp] eqn:Et.
    destruct (alloc_after st st st1 _ tmp (ext_refl st) Et) as (X1 & R1 & G1 & Ge1).
    rewrite Gx, pmap2_pure in G1.
    assert (L1 : length (vmap2 nmul xv v) = dim (odom a))
      by (rewrite vmap2_length, Lx, Ed; cbn [dim]; apply Nat.min_id).
    assert (Ho1 : out < next st1) by (destruct X1; lia).
    assert (Nto : tmp <> out \/ oalias a = true) by (left; lia).
    destruct (IHa Wa MK (ex_intro _ n Rn) st1 tmp out (vmap2 nmul xv v) R1 Ho1 Nto G1 L1) as [U2 G2].
    split; [|exact G2]. eapply upd_trans; [apply ext_upd; exact X1 | exact U2].
  - (* vector * functional: the functional is evaluated before out is written *)
    destruct W as (Wa & Er).
    destruct (oop a st x) as [st1 r1] eqn:Ea.
    destruct (oop_sound a Wa MK st x xv Hx Gx Lx _ _ Ea) as (X1 & R1 & G1 & _).
    destruct (sset_upd st1 out (pflvec (sget st1 r1) v)) as [U2 G2].
    split; [eapply upd_trans; [apply ext_upd; exact X1 | exact U2]|].
    rewrite G2, G1. unfold pflvec. rewrite pscalar_pure; [reflexivity|].
    rewrite (eval_length a Wa xv Lx), Er. reflexivity.
  - (* pointwise product *) destruct W as (Wa & Wb & Er & Ed), MK as [Ma Mb].
    assert (Rb : exists k, oran b = SV k) by (exists n; congruence).
    destruct (salloc st (poison (dim (oran a)))) as [st1 tmp] eqn:Et.
    destruct (alloc_after st st st1 _ tmp (ext_refl st) Et) as (X1 & R1 & G1 & Ge1).
    assert (Gx1 : sget st1 x = pure xv) by (unfold sget; rewrite (proj2 X1) by assumption; exact Gx).
    assert (Hx1 : x < next st1) by (destruct X1; lia). assert (Ho1 : out < next st1) by (destruct X1; lia).
    assert (Nxt : x <> tmp \/ oalias a = true) by (left; lia).
    destruct (IHa Wa Ma (ex_intro _ n Rn) st1 x tmp xv Hx1 R1 Nxt Gx1 Lx) as [U2 G2].
    set (st2 := ip a st1 x tmp) in *.
    assert (Gx2 : sget st2 x = pure xv) by (unfold sget; rewrite (proj2 U2) by lia; exact Gx1).
    assert (Hx2 : x < next st2) by (destruct U2; lia). assert (Ho2 : out < next st2) by (destruct U2; lia).
    assert (Lxb : length xv = dim (odom b)) by congruence.
    destruct (IHb Wb Mb Rb st2 x out xv Hx2 Ho2 Al Gx2 Lxb) as [U3 G3].
    set (st3 := ip b st2 x out) in *.
    destruct (sset_upd st3 out (pmap2 nmul (sget st3 out) (sget st3 tmp))) as [U4 G4].
    split.
    + destruct U2 as [L2 M2], U3 as [L3 M3], U4 as [L4 M4], X1 as [L1 M1]. split; [lia|].
      intros i Hi Hio. rewrite M4 by (auto; lia). rewrite M3, M2 by (auto; lia). apply M1; assumption.
    + rewrite G4, G3. unfold sget at 1. rewrite (proj2 U3) by (destruct U2; lia).
      fold (sget st2 tmp). rewrite G2. apply pmap2_pure.
Qed.

(* ---- the overloads only rearrange leaves: a leaf predicate carries over from s to build s ---- *)
Section Sat.
Variable P : leaf T -> Prop.
Variable vt : variant.

Lemma mkLScal_sat fn (a : oexpr T) c o : osat P a -> mkLScal fn a c = Ok o -> osat P o.
Proof. intros S E. destruct (mkLScal_cases _ _ _ _ E) as [(f' & a' & c' & -> & ->)| ->]; exact S. Qed.
Lemma mkRScal_sat fn (a : oexpr T) c o : osat P a -> mkRScal fn a c = Ok o -> osat P o.
Proof. intros S E. destruct (mkRScal_cases _ _ _ _ E) as [(f' & a' & c' & -> & ->)| ->]; exact S. Qed.
Lemma rmul_c_sat (a : oexpr T) c o : osat P a -> rmul_c a c = Ok o -> osat P o.
Proof.
  unfold rmul_c, mkFLScal. intros S. destruct (ofunc a).
  - destruct (c =? nzero); [intros E; inversion E; exact I | apply mkLScal_sat; exact S].
  - apply mkLScal_sat; exact S.
Qed.
Lemma mul_c_sat (a : oexpr T) c rl o : osat P a -> mul_c vt a c rl = Ok o -> osat P o.
Proof.
  unfold mul_c, mkFLScal, mkFRScal. intros S. destruct (ofunc a).
  - destruct (c =? nzero); [intros E; inversion E; exact I|].
    destruct (olin vt a); [apply mkLScal_sat | apply mkRScal_sat]; exact S.
  - assert (G : (if olin vt a && rl then rmul_c a c else mkRScal false a c) = Ok o
                -> osat P o)
      by (destruct (olin vt a && rl); [apply rmul_c_sat | apply mkRScal_sat]; exact S).
    destruct a; try exact G. apply mkRScal_sat. exact S.
Qed.
Lemma mkSum_sat fn (a b : oexpr T) o : osat P a -> osat P b -> mkSum fn a b = Ok o -> osat P o.
Proof.
  unfold mkSum. intros Sa Sb. destruct (sp_eqb (oran a) (oran b)); cbn [negb]; [|discriminate].
  destruct (sp_eqb (odom a) (odom b)); cbn [negb]; [|discriminate]. intros E; inversion E. split; assumption.
Qed.
Lemma add_op_sat (a b : oexpr T) o : osat P a -> osat P b -> add_op a b = Ok o -> osat P o.
Proof.
  unfold add_op, mkFSum. intros Sa Sb. destruct (subclass_radd _ _); [apply mkSum_sat; assumption|].
  destruct (ofunc a && ofunc b) eqn:F; [|apply mkSum_sat; assumption].
  apply andb_true_iff in F as [-> ->]. cbn. apply mkSum_sat; assumption.
Qed.
Lemma mkComp_sat fn (a b : oexpr T) o : osat P a -> osat P b -> mkComp fn a b = Ok o -> osat P o.
Proof. unfold mkComp. intros Sa Sb. destruct (sp_eqb _ _); intros E; inversion E. split; assumption. Qed.
Lemma pow_loop_sat k (self op : oexpr T) o : osat P self -> osat P op -> pow_loop k self op = Ok o -> osat P o.
Proof.
  revert op o; induction k as [|k IH]; intros op o Ss So E; cbn [pow_loop] in E; [inversion E; subst; exact So|].
  unfold bind in E. destruct (mkComp false self op) as [op'|] eqn:M; [|discriminate].
  apply (IH op' o Ss (mkComp_sat _ _ _ _ Ss So M) E).
Qed.
Lemma add_v_sat (a : oexpr T) v o : osat P a -> add_v a v = Ok o -> osat P o.
Proof.
  unfold add_v, mkVecSum. intros S. destruct (in_sp v (oran a)); [|discriminate].
  destruct (oran a); intros E; inversion E. exact S.
Qed.
Lemma add_c_sat (a : oexpr T) c o : osat P a -> add_c vt a c = Ok o -> osat P o.
Proof.
  unfold add_c. intros S. destruct (ofunc a); [intros E; inversion E; exact S|].
  destruct (oran a); [intros E; inversion E; exact S|].
  destruct (v_vecsum_field vt); intros E; inversion E. exact S.
Qed.

Lemma build_sat : forall s o, ssat P s -> build vt s = Ok o -> osat P o.
Proof.
  induction s as [l|d c|d|a IHa b IHb|a IHa b IHb|a IHa b IHb|a IHa|a IHa n|a IHa v|v a IHa|a IHa v
                 |v a IHa|a IHa v|v a IHa|a IHa c|c a IHa|a IHa c|c a IHa|a IHa c|c a IHa|a IHa c
                 |a IHa b IHb];
    intros o S E; cbn [build] in E; cbn [ssat] in S; try (inversion E; subst; exact S || exact I); unbind E.
  - destruct S as [Sa Sb]. apply (add_op_sat _ _ _ (IHa _ Sa eq_refl) (IHb _ Sb eq_refl) E).
  - destruct S as [Sa Sb].
    apply (add_op_sat _ _ _ (IHa _ Sa eq_refl) (rmul_c_sat _ _ _ (IHb _ Sb eq_refl) B1) E).
  - destruct S as [Sa Sb]. unfold mul_op, mkFComp in E.
    destruct (ofunc o0); apply (mkComp_sat _ _ _ _ (IHa _ Sa eq_refl) (IHb _ Sb eq_refl) E).
  - apply (rmul_c_sat _ _ _ (IHa _ S eq_refl) E).
  - unfold pow_op in E. destruct (n <=? 0)%Z; [discriminate|].
    apply (pow_loop_sat _ _ _ _ (IHa _ S eq_refl) (IHa _ S eq_refl) E).
  - apply (add_v_sat _ _ _ (IHa _ S eq_refl) E).
  - apply (add_v_sat _ _ _ (IHa _ S eq_refl) E).
  - apply (add_v_sat _ _ _ (IHa _ S eq_refl) E).
  - apply (add_v_sat _ _ _ (rmul_c_sat _ _ _ (IHa _ S eq_refl) B0) E).
  - unfold mul_v in E. destruct (in_sp v (odom o0)); inversion E. apply (IHa _ S eq_refl).
  - unfold rmul_v in E. destruct (in_sp v (oran o0)); [inversion E; apply (IHa _ S eq_refl)|].
    destruct (oran o0); inversion E. apply (IHa _ S eq_refl).
  - apply (add_c_sat _ _ _ (IHa _ S eq_refl) E).
  - apply (add_c_sat _ _ _ (IHa _ S eq_refl) E).
  - apply (add_c_sat _ _ _ (IHa _ S eq_refl) E).
  - apply (add_c_sat _ _ _ (rmul_c_sat _ _ _ (IHa _ S eq_refl) B0) E).
  - apply (mul_c_sat _ _ _ _ (IHa _ S eq_refl) E).
  - apply (rmul_c_sat _ _ _ (IHa _ S eq_refl) E).
  - destruct (c =? nzero); [discriminate|]. apply (mul_c_sat _ _ _ _ (IHa _ S eq_refl) E).
  - destruct S as [Sa Sb]. unfold mkPtw in E.
    destruct (sp_eqb (oran o0) (oran o1)); cbn [negb] in E; [|discriminate].
    destruct (sp_eqb (odom o0) (odom o1)); cbn [negb] in E; [|discriminate]. inversion E.
    split; [apply (IHa _ Sa eq_refl) | apply (IHb _ Sb eq_refl)].
Qed.
End Sat.

(* ---- the statements for whatever the overloads build ---- *)
Hypothesis Hdiv : forall u c : T, u / c = (none_ / c) * u.
Hypothesis Heqb : forall a b : T, (a =? b) = true -> a = b.

Theorem build_oop_memory_safe : forall (vt : variant) (s : sexpr T) (o : oexpr T),
  sleaves_ok s -> ssat returns_input_ok s -> build vt s = Ok o ->
  forall (st : store) (x : nat) (xv : vec),
    x < next st -> sget st x = pure xv -> length xv = dim (sdom s) ->
  forall st' r, oop o st x = (st', r) ->
    (forall i, i < next st -> mem st' i = mem st i)          (* no existing buffer is modified, x included *)
    /\ sget st' r = pure (denote s xv)                      (* the result holds the table value *)
    /\ (r = x \/ next st <= r)                             (* it is x itself or a new buffer ... *)
    /\ (ofresh o = true -> next st <= r).                   (* ... new whenever [ofresh] says so *)
Proof.
  intros vt s o L S E st x xv Hx Gx Lx st' r Eo.
  destruct (build_sem Rth Hdiv Heqb vt s o L E) as (W & D & R & Ev).
  destruct (oop_sound o W (build_sat _ vt s o S E) st x xv Hx Gx ltac:(congruence) st' r Eo)
    as (X & _ & G & A & F).
  split; [exact (proj2 X)|]. split; [rewrite G, Ev by assumption; reflexivity|]. split; assumption.
Qed.

Theorem build_ip_memory_safe : forall (vt : variant) (s : sexpr T) (o : oexpr T),
  sleaves_ok s -> ssat returns_input_ok s -> build vt s = Ok o -> (exists n, sran s = SV n) ->
  forall (st : store) (x out : nat) (xv : vec),
    x < next st -> out < next st -> (x <> out \/ oalias o = true) ->
    sget st x = pure xv -> length xv = dim (sdom s) ->
    (forall i, i < next st -> i <> out -> mem (ip o st x out) i = mem st i)   (* only `out` is written *)
    /\ sget (ip o st x out) out = pure (denote s xv).
Proof.
  intros vt s o L S E [n Rn] st x out xv Hx Ho Al Gx Lx.
  destruct (build_sem Rth Hdiv Heqb vt s o L E) as (W & D & R & Ev).
  assert (Ro : exists k, oran o = SV k) by (exists n; congruence).
  destruct (ip_sound o W (build_sat _ vt s o S E) Ro st x out xv Hx Ho Al Gx ltac:(congruence)) as [U G].
  split; [exact (proj2 U)|]. rewrite G, (eval_ip_eq Rth), Ev by assumption. reflexivity.
Qed.
End MemProofs.
