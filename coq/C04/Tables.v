(* C04/Tables.v -- the flag/domain computations of C04/Model.v coincide with the tables
   REGENERATED from the expression classes' __init__ (Gen/OpTables.v) on every run: a changed
   `linear=` argument or domain in the source breaks these proofs, not only the correspondence. *)
From Coq Require Import ZArith List Bool.
From Verif Require Import Base.Num Base.Vec C04.Model Gen.OpTables.
Import ListNotations.
Local Open Scope num_scope.

Section Tables.
Context {T : Type} `{Num T}.

Definition lin_of (r : linrule) (la lb cz : bool) : bool :=
  match r with
  | LAnd => la && lb | LFirst => la | LSecond => lb | LFalse => false | LTrue => true
  | LConstZero => cz | LAndConst => la && cz
  end.
Definition dom_of (r : domrule) (da db own : sp) : sp :=
  match r with DFirst => da | DSecond => db | DOwn => own end.

Fixpoint olin_tab (o : oexpr T) : bool :=
  match o with
  | OLeaf l => l_lin l
  | OConst _ c => lin_of (lin_rule CConst) false false (c =? nzero)
  | OZero _ => lin_of (lin_rule CZero) false false true
  | OSum fn a b => lin_of (lin_rule (if fn then CFSum else CSum)) (olin_tab a) (olin_tab b) false
  | OScalSum a c => lin_of (lin_rule CFScalSum) (olin_tab a) false (c =? nzero)
  | OVecSum a _ => lin_of (lin_rule CVecSum) (olin_tab a) false false
  | OComp fn a b => lin_of (lin_rule (if fn then CFComp else CComp)) (olin_tab a) (olin_tab b) false
  | OLScal fn a _ => lin_of (lin_rule (if fn then CFLScal else CLScal)) (olin_tab a) false false
  | ORScal fn a _ => lin_of (lin_rule (if fn then CFRScal else CRScal)) (olin_tab a) false false
  | OLVec a _ => lin_of (lin_rule CLVec) (olin_tab a) false false
  | ORVec fn a _ => lin_of (lin_rule (if fn then CFRVec else CRVec)) (olin_tab a) false false
  | OFLVec a _ => lin_of (lin_rule CFLVec) (olin_tab a) false false
  | OPtw a b => lin_of (lin_rule CPtw) (olin_tab a) (olin_tab b) false
  end.

(* the variant switch of FunctionalRightVectorMult, read off the regenerated table *)
Definition frvec_lin_of_table : bool := match lin_rule CFRVec with LFirst => true | _ => false end.

Lemma olin_table (vt : variant) : v_frvec_lin vt = frvec_lin_of_table ->
  forall o : oexpr T, olin vt o = olin_tab o.
Proof.
  intros Hvt o.
  induction o as [l|d c|d|fn a IHa b IHb|a IHa c|a IHa v|fn a IHa b IHb|fn a IHa c|fn a IHa c
                 |a IHa v|fn a IHa v|a IHa v|a IHa b IHb]; cbn [olin olin_tab];
    rewrite ?IHa, ?IHb, ?Hvt; try destruct fn; reflexivity.
Qed.

Definition odom_step (o : oexpr T) : sp :=
  match o with
  | OLeaf l => l_dom l
  | OConst d _ => dom_of (dom_rule CConst) d d d
  | OZero d => dom_of (dom_rule CZero) d d d
  | OSum fn a b => dom_of (dom_rule (if fn then CFSum else CSum)) (odom a) (odom b) (odom a)
  | OScalSum a _ => dom_of (dom_rule CFScalSum) (odom a) (odom a) (odom a)
  | OVecSum a _ => dom_of (dom_rule CVecSum) (odom a) (odom a) (odom a)
  | OComp fn a b => dom_of (dom_rule (if fn then CFComp else CComp)) (odom a) (odom b) (odom a)
  | OLScal fn a _ => dom_of (dom_rule (if fn then CFLScal else CLScal)) (odom a) (odom a) (odom a)
  | ORScal fn a _ => dom_of (dom_rule (if fn then CFRScal else CRScal)) (odom a) (odom a) (odom a)
  | OLVec a _ => dom_of (dom_rule CLVec) (odom a) (odom a) (odom a)
  | ORVec fn a _ => dom_of (dom_rule (if fn then CFRVec else CRVec)) (odom a) (odom a) (odom a)
  | OFLVec a _ => dom_of (dom_rule CFLVec) (odom a) (odom a) (odom a)
  | OPtw a b => dom_of (dom_rule CPtw) (odom a) (odom b) (odom a)
  end.

Lemma odom_table : forall o : oexpr T, odom o = odom_step o.
Proof. destruct o; cbn [odom odom_step]; try destruct fn; reflexivity. Qed.
End Tables.
