(* C04/Dispatch.v -- decision trees for the arithmetic overloads and their interpreter
   (definitions only).  The trees themselves are REGENERATED from the method bodies of
   /repo by translate/op_dispatch.py into Gen/OpDispatch.v; this file fixes what each test
   ([cond]) and each returned expression ([act]) means on the model's objects. *)
From Coq Require Import ZArith List Bool.
From Verif Require Import Base.Num Base.Vec C04.Model.
Import ListNotations.
Local Open Scope num_scope.

Inductive cond :=
| CIsOp            (* isinstance(other, Operator) *)
| CIsNumber        (* isinstance(other, Number) *)
| CIsReal          (* isinstance(other, Real) *)
| CIsVec           (* isinstance(other, LinearSpaceElement) *)
| CIsFunctional    (* isinstance(other, Functional) *)
| CIsIntegral      (* isinstance(n, Integral) *)
| CPositive        (* n > 0 *)
| CInRange         (* other in self.range *)
| CInRangeField    (* other in self.range.field *)
| CInDomainField   (* other in self.domain.field *)
| CInDomain        (* other in self.domain *)
| CFieldIsRange    (* other.space.field == self.range *)
| CEqZero          (* other == 0 *)
| CSelfLinear      (* self.is_linear *)
| CAnd (a b : cond).

Inductive act :=
| AVecSum | AVecSumConst | AOpSum | ANotImpl
| ASelfPlusOther | ASelfPlusNegOther | ANegSelfPlusOther
| ACompSelfOther | AOtherTimesSelf | ARScal | ARVecCopy | ASelfMul
| ACompOtherSelf | ALScal | ALVecCopy | AFLVecCopy | ASelfRmul
| APowLoop | ASelfTimesInv | ANegOneTimesSelf
| ARScalMerge | ASuperMul | ASuperRmul | ASuperAdd
| AFComp | AConstAtZero | AFLScal | AFRScal | AFRVec | AZeroF | AFScalSum | AFSum.

Inductive dtree := DIf (c : cond) (t e : dtree) | DAct (a : act).

(* which class's method the MRO selects *)
Inductive owner := OwnOperator | OwnFunctional | OwnRScal.

Section Dispatch.
Context {T : Type} `{Num T}.
Variable vt : variant.
Notation vec := (list T).

(* the right operand of an overload *)
(* PScal c rl: a scalar literal; rl = isinstance(c, numbers.Real) (its Python type) *)
Inductive operand := POp (o : oexpr T) | PScal (c : T) (rl : bool) | PVec (v : vec) | PInt (n : Z).

Fixpoint ceval (c : cond) (self : oexpr T) (other : operand) : bool :=
  match c with
  | CIsOp => match other with POp _ => true | _ => false end
  | CIsNumber => match other with PScal _ _ | PInt _ => true | _ => false end
  | CIsReal => match other with PScal _ rl => rl | PInt _ => true | _ => false end
  | CIsVec => match other with PVec _ => true | _ => false end
  | CIsFunctional => match other with POp b => ofunc b | _ => false end
  | CIsIntegral => match other with PInt _ => true | _ => false end
  | CPositive => match other with PInt n => (0 <? n)%Z | _ => false end
  | CInRange => match other with
                | PVec v => in_sp v (oran self)
                | PScal _ _ => sp_eqb (oran self) SF     (* a scalar is an element of a field range *)
                | _ => false
                end
  | CInRangeField | CInDomainField => match other with PScal _ _ => true | _ => false end
  | CInDomain => match other with
                 | PVec v => in_sp v (odom self)
                 | PScal _ _ => sp_eqb (odom self) SF
                 | _ => false
                 end
  | CFieldIsRange => match other with PVec _ => sp_eqb (oran self) SF | _ => false end
  | CEqZero => match other with PScal c _ => c =? nzero | _ => false end
  | CSelfLinear => olin vt self
  | CAnd a b => ceval a self other && ceval b self other
  end.

(* where an action hands over to another overload *)
Record callbacks := {
  cb_add : oexpr T -> operand -> res (oexpr T);    (* Python's  a + b  *)
  cb_mul : oexpr T -> operand -> res (oexpr T);    (* a * b with a operator: a.__mul__(b) *)
  cb_rmul : oexpr T -> operand -> res (oexpr T);   (* b * a with b scalar/vector: a.__rmul__(b) *)
  cb_super : oexpr T -> operand -> res (oexpr T)   (* super().__same_method__(other) *)
}.
Definition no_cb : oexpr T -> operand -> res (oexpr T) := fun _ _ => Err TypeErr.
Definition no_cbs : callbacks := {| cb_add := no_cb; cb_mul := no_cb; cb_rmul := no_cb; cb_super := no_cb |}.

Definition do_act (k : callbacks) (a : act) (self : oexpr T) (other : operand) : res (oexpr T) :=
  match a, other with
  | ANotImpl, _ => Err TypeErr
  (* OperatorVectorSum(self, other) *)
  | AVecSum, PVec v => mkVecSum self v
  | AVecSum, PScal c _ => match oran self with
                        | SF => if v_vecsum_field vt then Ok (OVecSum self [c]) else Err TypeErr
                        | SV _ => Err TypeErr
                        end
  (* constant_vector = other * self.range.one(); OperatorVectorSum(self, constant_vector) *)
  | AVecSumConst, PScal c _ => match oran self with
                             | SV n => Ok (OVecSum self (vscal c (vone n)))
                             | SF => Err TypeErr
                             end
  | AOpSum, POp b => mkSum false self b
  | ASelfPlusOther, _ => cb_add k self other
  | ASelfPlusNegOther, POp b => bind (cb_rmul k b (PScal neg1 true)) (fun nb => cb_add k self (POp nb))
  | ASelfPlusNegOther, PVec v => cb_add k self (PVec (vscal neg1 v))
  | ASelfPlusNegOther, PScal c _ => cb_add k self (PScal (neg1 * c) true)
  | ANegSelfPlusOther, _ => bind (cb_rmul k self (PScal neg1 true)) (fun na => cb_add k na other)
  | ACompSelfOther, POp b => mkComp false self b
  | AOtherTimesSelf, _ => cb_rmul k self other
  | ARScal, PScal c _ => mkRScal false self c
  | ARVecCopy, PVec v => if in_sp v (odom self) then Ok (ORVec false self v) else Err TypeErr
  | ASelfMul, _ => cb_mul k self other
  | ACompOtherSelf, POp b => mkComp false b self
  | ALScal, PScal c _ => mkLScal false self c
  | ALVecCopy, PVec v => if in_sp v (oran self) then Ok (OLVec self v) else Err TypeErr
  | AFLVecCopy, PVec v => match oran self with SF => Ok (OFLVec self v) | SV _ => Err TypeErr end
  | ASelfRmul, _ => cb_rmul k self other
  | APowLoop, PInt n => pow_loop (Z.to_nat n - 1) self self
  | ASelfTimesInv, PScal c rl => if c =? nzero then Err ZeroDivErr else cb_mul k self (PScal (none_ / c) rl)
  | ANegOneTimesSelf, _ => cb_rmul k self (PScal neg1 true)
  | ARScalMerge, PScal c _ => match self with
                            | ORScal _ a' c' => mkRScal false a' (c' * c)
                            | _ => Err TypeErr
                            end
  | ASuperMul, _ | ASuperRmul, _ | ASuperAdd, _ => cb_super k self other
  | AFComp, POp b => mkFComp self b
  | AConstAtZero, _ => Ok (OConst (odom self) (scalar_of (eval self (vzero (dim (odom self))))))
  | AFLScal, PScal c _ => mkFLScal self c
  | AFRScal, PScal c _ => mkFRScal self c
  | AFRVec, PVec v => if in_sp v (odom self) then Ok (ORVec true self v) else Err TypeErr
  | AZeroF, _ => Ok (OZero (odom self))
  | AFScalSum, PScal c _ => Ok (OScalSum self c)
  | AFSum, POp b => mkFSum self b
  | _, _ => Err TypeErr
  end.

Fixpoint run (k : callbacks) (t : dtree) (self : oexpr T) (other : operand) : res (oexpr T) :=
  match t with
  | DIf c a b => if ceval c self other then run k a self other else run k b self other
  | DAct a => do_act k a self other
  end.

Fixpoint cond_mentions_real (c : cond) : bool :=
  match c with CIsReal => true | CAnd a b => cond_mentions_real a || cond_mentions_real b | _ => false end.
Fixpoint tree_mentions_real (t : dtree) : bool :=
  match t with
  | DIf c a b => cond_mentions_real c || tree_mentions_real a || tree_mentions_real b
  | DAct _ => false
  end.

(* a leaf that is a Functional resolves like Functional, any other leaf like Operator *)
Definition owner_of (tab : cls -> owner) (o : oexpr T) : owner :=
  match o with
  | OLeaf l => if l_func l then OwnFunctional else OwnOperator
  | _ => tab (ocls o)
  end.
End Dispatch.
