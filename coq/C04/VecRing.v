(* C04/VecRing.v -- Base.Vec lemmas over an ABSTRACT commutative ring carried by a Num
   instance (Section hypotheses; instantiated at R and at C = R*R in C04/Instances.v).
   All statements hold for lists of any (also unequal) lengths unless a length premise is
   shown: vmap2 truncates both sides alike. *)
From Coq Require Import ZArith List Bool Ring Lia.
From Verif Require Import Base.Num Base.Vec.
Import ListNotations.
Local Open Scope num_scope.

Section VecRing.
Context {T : Type} {N : Num T}.
Hypothesis Rth : ring_theory nzero none_ nadd nmul nsub nopp (@eq T).
Add Ring Tring : Rth.
Notation vec := (list T).

Lemma vmap2_length (f : T -> T -> T) (x y : vec) :
  length (vmap2 f x y) = Nat.min (length x) (length y).
Proof.
  revert y; induction x as [|a x IH]; intros [|b y]; cbn [vmap2 length Nat.min]; auto.
Qed.
Lemma vmap2_length_eq (f : T -> T -> T) (x y : vec) :
  length x = length y -> length (vmap2 f x y) = length x.
Proof. intros E; rewrite vmap2_length, E; apply Nat.min_id. Qed.
Lemma vscal_length c (x : vec) : length (vscal c x) = length x.
Proof. apply map_length. Qed.

Lemma vadd_comm (x y : vec) : vadd x y = vadd y x.
Proof.
  revert y; induction x as [|a x IH]; intros [|b y]; unfold vadd in *; cbn [vmap2]; auto.
  rewrite IH; f_equal; ring.
Qed.
Lemma vmul_comm (x y : vec) : vmul x y = vmul y x.
Proof.
  revert y; induction x as [|a x IH]; intros [|b y]; unfold vmul in *; cbn [vmap2]; auto.
  rewrite IH; f_equal; ring.
Qed.

Lemma vscal_vscal c d (x : vec) : vscal c (vscal d x) = vscal (c * d) x.
Proof. unfold vscal; rewrite map_map; apply map_ext; intros; ring. Qed.
Lemma vscal_comm c d (x : vec) : vscal c (vscal d x) = vscal d (vscal c x).
Proof. rewrite !vscal_vscal; f_equal; ring. Qed.
Lemma vscal_vadd c (x y : vec) : vscal c (vadd x y) = vadd (vscal c x) (vscal c y).
Proof.
  revert y; induction x as [|a x IH]; intros [|b y]; unfold vadd, vscal in *; cbn [vmap2 map]; auto.
  rewrite IH; f_equal; ring.
Qed.
Lemma vscal_vmul_l c (x y : vec) : vmul (vscal c x) y = vscal c (vmul x y).
Proof.
  revert y; induction x as [|a x IH]; intros [|b y]; unfold vmul, vscal in *; cbn [vmap2 map]; auto.
  rewrite IH; f_equal; ring.
Qed.
Lemma vscal_vmul_r c (x y : vec) : vmul x (vscal c y) = vscal c (vmul x y).
Proof. rewrite vmul_comm, vscal_vmul_l, vmul_comm; reflexivity. Qed.
Lemma vmul_vadd_l (x y v : vec) : vmul (vadd x y) v = vadd (vmul x v) (vmul y v).
Proof.
  revert y v; induction x as [|a x IH]; intros [|b y] [|c v]; unfold vmul, vadd in *; cbn [vmap2]; auto.
  rewrite IH; f_equal; ring.
Qed.
Lemma vscal_add_l c d (v : vec) : vscal (c + d) v = vadd (vscal c v) (vscal d v).
Proof.
  induction v as [|a v IH]; unfold vadd, vscal in *; cbn [vmap2 map]; auto.
  rewrite IH; f_equal; ring.
Qed.
Lemma vadd_interchange (p q r s : vec) :
  vadd (vadd p q) (vadd r s) = vadd (vadd p r) (vadd q s).
Proof.
  revert q r s; induction p as [|a p IH]; intros [|b q] [|c r] [|d s]; unfold vadd in *;
    cbn [vmap2]; auto.
  rewrite IH; f_equal; ring.
Qed.

Lemma vscal_zero (x : vec) : vscal nzero x = repeat nzero (length x).
Proof. induction x as [|a x IH]; cbn [vscal map length repeat]; auto. unfold vscal in IH; rewrite IH; f_equal; ring. Qed.
Lemma vscal_neg1 (x : vec) : vscal (- none_) x = vopp x.
Proof. unfold vscal, vopp; apply map_ext; intros; ring. Qed.
Lemma vadd_vscal_neg1 (x y : vec) : vadd x (vscal (- none_) y) = vsub x y.
Proof.
  revert y; induction x as [|a x IH]; intros [|b y]; unfold vadd, vsub, vscal in *; cbn [vmap2 map]; auto.
  rewrite IH; f_equal; ring.
Qed.
Lemma vadd_vscal_neg1_l (x y : vec) : vadd (vscal (- none_) x) y = vsub y x.
Proof. rewrite vadd_comm; apply vadd_vscal_neg1. Qed.

(* A(x) + c*one  on a vector of the right length *)
Lemma vadd_const c (x : vec) n : length x = n ->
  vadd x (vscal c (repeat none_ n)) = map (fun u => u + c) x.
Proof.
  intros <-; induction x as [|a x IH]; unfold vadd, vscal in *; cbn [vmap2 map length repeat]; auto.
  rewrite IH; f_equal; ring.
Qed.
Lemma map_addc_opp c (x : vec) : map (fun u => u + (- none_) * c) x = map (fun u => u - c) x.
Proof. apply map_ext; intros; ring. Qed.
Lemma map_addc_vscal_neg1 c (x : vec) :
  map (fun u => u + c) (vscal (- none_) x) = map (fun u => c - u) x.
Proof. unfold vscal; rewrite map_map; apply map_ext; intros; ring. Qed.

Lemma vadd_singleton a b : vadd [a] [b] = [a + b].
Proof. reflexivity. Qed.

Lemma length1 (l : vec) : length l = 1%nat -> l = [hd nzero l].
Proof. destruct l as [|a [|b l]]; cbn; intros E; try discriminate; reflexivity. Qed.

End VecRing.
