(* C04/Cplx.v -- complex carriers (definitions only): Gaussian rationals Q*Q for execution,
   R*R for proofs.  Order/abs are not meaningful on C and are not used by the C04 model on
   complex spaces (nabs only occurs in the real-only leaves LAbs / FL1). *)
From Coq Require Import ZArith QArith Qabs Reals List Bool.
From Verif Require Import Base.Num.

Definition QC := (Q * Q)%type.
Definition qc_add (a b : QC) : QC := (Qred (fst a + fst b), Qred (snd a + snd b)).
Definition qc_sub (a b : QC) : QC := (Qred (fst a - fst b), Qred (snd a - snd b)).
Definition qc_mul (a b : QC) : QC :=
  (Qred (fst a * fst b - snd a * snd b), Qred (fst a * snd b + snd a * fst b)).
Definition qc_opp (a : QC) : QC := (Qopp (fst a), Qopp (snd a)).
Definition qc_inv (a : QC) : QC :=
  let d := (fst a * fst a + snd a * snd a)%Q in (Qred (fst a / d), Qred (- snd a / d)).
Definition qc_div (a b : QC) : QC := qc_mul a (qc_inv b).
Definition qc_eqb (a b : QC) : bool := Qeq_bool (fst a) (fst b) && Qeq_bool (snd a) (snd b).
Global Instance Num_QC : Num QC := {|
  nzero := (0, 0)%Q; none_ := (1, 0)%Q;
  nadd := qc_add; nsub := qc_sub; nmul := qc_mul; ndiv := qc_div;
  nopp := qc_opp; nabs := fun a => a;
  nltb := fun _ _ => false; nleb := fun _ _ => false; neqb := qc_eqb;
  of_Z := fun z => (inject_Z z, 0%Q) |}.

Local Open Scope R_scope.
Definition RC := (R * R)%type.
Definition rc_add (a b : RC) : RC := (fst a + fst b, snd a + snd b).
Definition rc_sub (a b : RC) : RC := (fst a - fst b, snd a - snd b).
Definition rc_mul (a b : RC) : RC := (fst a * fst b - snd a * snd b, fst a * snd b + snd a * fst b).
Definition rc_opp (a : RC) : RC := (- fst a, - snd a).
Definition rc_inv (a : RC) : RC :=
  let d := fst a * fst a + snd a * snd a in (fst a / d, - snd a / d).
Definition rc_div (a b : RC) : RC := rc_mul a (rc_inv b).
Definition rc_eqb (a b : RC) : bool := Reqb (fst a) (fst b) && Reqb (snd a) (snd b).
Global Instance Num_RC : Num RC := {|
  nzero := (0, 0); none_ := (1, 0);
  nadd := rc_add; nsub := rc_sub; nmul := rc_mul; ndiv := rc_div;
  nopp := rc_opp; nabs := fun a => a;
  nltb := fun _ _ => false; nleb := fun _ _ => false; neqb := rc_eqb;
  of_Z := fun z => (IZR z, 0) |}.
