(* C04/DispatchProofs.v -- the hand-written dispatch of C04/Model.v ([build] and its helpers)
   EQUALS the interpretation of the decision trees and MRO tables regenerated from the
   overload bodies of /repo (Gen/OpDispatch.v).  A changed dispatch in the source (wrong
   side, dropped or reordered branch, other class) regenerates a different tree and one of
   these proofs stops checking. *)
From Coq Require Import ZArith List Bool Ring Lia.
From Verif Require Import Base.Num Base.Vec C04.Model C04.Dispatch Gen.OpDispatch C04.DispatchModel
  C04.VecRing C04.Proofs.
Import ListNotations.
Local Open Scope num_scope.

Section DP.
Context {T : Type} {N : Num T}.
Variable vt : variant.
Notation oexpr := (oexpr T).
Notation vec := (list T).

(* a Functional has the field as range (true of everything [build] produces: Proofs.func_ran) *)
Definition frange (a : oexpr) : Prop := ofunc a = true -> oran a = SF.

(* the regenerated MRO tables say: Functional classes use Functional's methods,
   OperatorRightScalarMult its own __mul__, everything else Operator's *)
Lemma owner_rmul_func (a : oexpr) :
  owner_of owner_rmul a = if ofunc a then OwnFunctional else OwnOperator.
Proof. destruct a; try destruct fn; cbn; reflexivity. Qed.
Lemma owner_add_func (a : oexpr) :
  owner_of owner_add a = if ofunc a then OwnFunctional else OwnOperator.
Proof. destruct a; try destruct fn; cbn; reflexivity. Qed.
Lemma owner_radd_func (a : oexpr) :
  owner_of owner_radd a = if ofunc a then OwnFunctional else OwnOperator.
Proof. destruct a; try destruct fn; cbn; reflexivity. Qed.
Lemma owner_sub_func (a : oexpr) :
  owner_of owner_sub a = if ofunc a then OwnFunctional else OwnOperator.
Proof. destruct a; try destruct fn; cbn; reflexivity. Qed.
Lemma owner_mul_func (a : oexpr) :
  owner_of owner_mul a = if ofunc a then OwnFunctional
                         else match a with ORScal _ _ _ => OwnRScal | _ => OwnOperator end.
Proof. destruct a; try destruct fn; cbn; reflexivity. Qed.

Lemma sp_eqb_SF_r (s : sp) : s = SF -> sp_eqb s SF = true.
Proof. intros ->; reflexivity. Qed.

(* c * A *)
Lemma rmul_c_tab (a : oexpr) c rl : frange a -> rmul_c a c = py_rmul vt a (PScal c rl).
Proof.
  intros Hf. unfold py_rmul. rewrite owner_rmul_func. unfold rmul_c. destruct (ofunc a) eqn:F.
  - unfold rmul_functional, t_Functional_rmul. cbn [run ceval]. rewrite (sp_eqb_SF_r _ (Hf F)).
    destruct (c =? nzero); reflexivity.
  - reflexivity.
Qed.

(* v * A *)
Lemma rmul_v_tab (a : oexpr) (v : vec) : frange a -> rmul_v a v = py_rmul vt a (PVec v).
Proof.
  intros Hf. unfold py_rmul. rewrite owner_rmul_func. unfold rmul_v.
  assert (Op : rmul_operator vt a (PVec v) =
               (if in_sp v (oran a) then Ok (OLVec a v)
                else match oran a with SF => Ok (OFLVec a v) | SV _ => Err TypeErr end)).
  { unfold rmul_operator, t_Operator_rmul. cbn [run ceval andb]. destruct (in_sp v (oran a)) eqn:I.
    - cbn [do_act]. rewrite I. reflexivity.
    - destruct (oran a) eqn:R; cbn [sp_eqb do_act]; rewrite ?R; reflexivity. }
  destruct (ofunc a) eqn:F; [|symmetry; exact Op].
  unfold rmul_functional, t_Functional_rmul. cbn [run ceval]. rewrite (Hf F). cbn [in_sp].
  cbn [do_act cb_super]. rewrite Op, (Hf F). reflexivity.
Qed.

(* A * c *)
Lemma mul_c_tab (a : oexpr) c rl : frange a -> mul_c vt a c rl = py_mul vt a (PScal c rl).
Proof.
  intros Hf. unfold py_mul. rewrite owner_mul_func. unfold mul_c. destruct (ofunc a) eqn:F.
  - unfold mul_functional, t_Functional_mul. cbn [run ceval]. rewrite (sp_eqb_SF_r _ (Hf F)).
    destruct (c =? nzero); [reflexivity|]. destruct (olin vt a); reflexivity.
  - assert (Op : mul_operator vt a (PScal c rl) =
                 (if olin vt a && rl then rmul_c a c else mkRScal false a c)).
    { unfold mul_operator, t_Operator_mul.
      cbn [run ceval andb].
      rewrite (rmul_c_tab a c rl Hf).
      destruct (olin vt a), rl; cbn [andb orb negb do_act cb_rmul]; reflexivity. }
    destruct a; try (symmetry; exact Op).
    unfold mul_rscal, t_RScal_mul. cbn [run ceval]. reflexivity.
Qed.

(* A * v *)
Lemma mul_v_tab (a : oexpr) (v : vec) : frange a -> mul_v a v = py_mul vt a (PVec v).
Proof.
  intros Hf. unfold py_mul. rewrite owner_mul_func. unfold mul_v.
  assert (Op : mul_operator vt a (PVec v) =
               (if in_sp v (odom a) then Ok (ORVec false a v) else Err TypeErr)).
  { unfold mul_operator, t_Operator_mul. cbn [run ceval andb].
    destruct (in_sp v (odom a)) eqn:I; cbn [do_act]; rewrite ?I; reflexivity. }
  destruct (ofunc a) eqn:F.
  - unfold mul_functional, t_Functional_mul. cbn [run ceval]. rewrite (Hf F). cbn [in_sp].
    destruct (in_sp v (odom a)) eqn:I.
    + cbn [do_act]. rewrite I. reflexivity.
    + cbn [do_act cb_super]. rewrite Op. reflexivity.
  - destruct a; symmetry; exact Op.
Qed.

(* the reflected-first relation of the model is the one computed from the class statements *)
Lemma subclass_radd_tab (b a : cls) : subclass_radd b a = reflected_first_add b a.
Proof. destruct b, a; reflexivity. Qed.
Lemma subclass_rmul_tab (b a : cls) : subclass_radd b a = reflected_first_mul b a.
Proof. destruct b, a; reflexivity. Qed.
Lemma subclass_radd_funcs (a b : oexpr) : subclass_radd (ocls b) (ocls a) = true ->
  ofunc b = true /\ ofunc a = false.
Proof.
  intros S. destruct b; try destruct fn; destruct a; try destruct fn; cbn in S; try discriminate; split; reflexivity.
Qed.

(* A * B  (incl. the reflected __rmul__ of a proper subclass, which builds the same object) *)
Lemma mul_op_tab (a b : oexpr) : mul_op a b = py_mul_op vt a b.
Proof.
  unfold py_mul_op.
  replace (reflected_first_mul (ocls b) (ocls a)) with (subclass_radd (ocls b) (ocls a))
    by apply subclass_rmul_tab.
  destruct (subclass_radd (ocls b) (ocls a)) eqn:S.
  - destruct (subclass_radd_funcs a b S) as [Fb Fa]. unfold py_rmul. rewrite owner_rmul_func, Fb.
    unfold rmul_functional, t_Functional_rmul. cbn [run ceval do_act cb_super].
    unfold mul_op. rewrite Fa. reflexivity.
  - unfold py_mul. rewrite owner_mul_func. unfold mul_op. destruct (ofunc a) eqn:F; [reflexivity|].
    destruct a; reflexivity.
Qed.

(* A + B, incl. the reflected __radd__ of a proper subclass *)
Lemma add_op_tab (a b : oexpr) : add_op a b = py_add vt a (POp b).
Proof.
  unfold py_add, add_op.
  replace (reflected_first_add (ocls b) (ocls a)) with (subclass_radd (ocls b) (ocls a))
    by apply subclass_radd_tab.
  destruct (subclass_radd (ocls b) (ocls a)) eqn:S.
  - unfold py_radd. rewrite owner_radd_func.
    destruct (subclass_radd_funcs a b S) as [Fb Fa].
    rewrite Fb. cbn [functional_radd_is_add]. unfold add_functional, t_Functional_add.
    cbn [run ceval]. rewrite Fa. reflexivity.
  - unfold add_direct. rewrite owner_add_func. destruct (ofunc a) eqn:Fa; cbn [andb].
    + unfold add_functional, t_Functional_add. cbn [run ceval]. destruct (ofunc b); reflexivity.
    + reflexivity.
Qed.

(* A + v,  v + A *)
Lemma add_operator_vec (a : oexpr) (v : vec) : add_operator vt a (PVec v) = add_v a v.
Proof.
  unfold add_operator, t_Operator_add, add_v. cbn [run ceval]. destruct (in_sp v (oran a)); reflexivity.
Qed.
Lemma add_v_tab (a : oexpr) (v : vec) : add_v a v = py_add vt a (PVec v).
Proof.
  unfold py_add, add_direct. rewrite owner_add_func. destruct (ofunc a); [|symmetry; apply add_operator_vec].
  unfold add_functional, t_Functional_add. cbn [run ceval do_act cb_super]. symmetry; apply add_operator_vec.
Qed.
Lemma add_v_rtab (a : oexpr) (v : vec) : add_v a v = py_radd vt a (PVec v).
Proof.
  unfold py_radd. rewrite owner_radd_func. destruct (ofunc a) eqn:F.
  - cbn [functional_radd_is_add]. unfold add_functional, t_Functional_add. cbn [run ceval do_act cb_super].
    symmetry; apply add_operator_vec.
  - unfold radd_operator, t_Operator_radd. cbn [run do_act cb_add]. unfold add_direct.
    rewrite owner_add_func, F. symmetry; apply add_operator_vec.
Qed.

(* A + c,  c + A *)
Lemma add_operator_scal (a : oexpr) c : ofunc a = false -> add_operator vt a (PScal c true) = add_c vt a c.
Proof.
  intros F. unfold add_operator, t_Operator_add, add_c. rewrite F. cbn [run ceval].
  destruct (oran a) eqn:R; cbn [sp_eqb do_act]; rewrite ?R; reflexivity.
Qed.
Lemma add_c_tab (a : oexpr) c : add_c vt a c = py_add vt a (PScal c true).
Proof.
  unfold py_add, add_direct. rewrite owner_add_func. destruct (ofunc a) eqn:F.
  - unfold add_functional, t_Functional_add, add_c. rewrite F. reflexivity.
  - symmetry; apply add_operator_scal; exact F.
Qed.
Lemma add_c_rtab (a : oexpr) c : add_c vt a c = py_radd vt a (PScal c true).
Proof.
  unfold py_radd. rewrite owner_radd_func. destruct (ofunc a) eqn:F.
  - unfold add_functional, t_Functional_add, add_c. rewrite F. reflexivity.
  - unfold radd_operator, t_Operator_radd. cbn [run do_act cb_add]. unfold add_direct.
    rewrite owner_add_func, F. symmetry; apply add_operator_scal; exact F.
Qed.

(* A ** n *)
Lemma pow_op_tab (a : oexpr) n : pow_op a n = py_pow vt a n.
Proof.
  unfold py_pow, pow_op, t_Operator_pow. cbn [run ceval andb].
  destruct (Z.leb_spec n 0); destruct (Z.ltb_spec 0 n); try lia; reflexivity.
Qed.

Lemma bind_ext {A B} (r : res A) (f g : A -> res B) : (forall x, f x = g x) -> bind r f = bind r g.
Proof. intros E. destruct r; cbn; auto. Qed.

(* -A, A - B, A - v, A - c, v - A, c - A, A / c *)
Lemma neg_tab (a : oexpr) : frange a -> rmul_c a neg1 = py_neg vt a.
Proof. intros Hf. unfold py_neg, t_Operator_neg. cbn [run do_act cb_rmul arith_cbs]. apply rmul_c_tab; exact Hf. Qed.

Lemma sub_run (a : oexpr) (other : operand) :
  py_sub vt a other = do_act vt (arith_cbs vt) ASelfPlusNegOther a other.
Proof. unfold py_sub. rewrite owner_sub_func. destruct (ofunc a); reflexivity. Qed.

Lemma sub_op_tab (a b : oexpr) : frange b ->
  bind (rmul_c b neg1) (fun nb => add_op a nb) = py_sub vt a (POp b).
Proof.
  intros Hb. rewrite sub_run. cbn [do_act cb_rmul cb_add arith_cbs]. rewrite <- (rmul_c_tab b neg1 true Hb).
  apply bind_ext. intros nb. apply add_op_tab.
Qed.
Lemma sub_v_tab (a : oexpr) (v : vec) : add_v a (vscal neg1 v) = py_sub vt a (PVec v).
Proof. rewrite sub_run. cbn [do_act cb_add arith_cbs]. apply add_v_tab. Qed.
Lemma sub_c_tab (a : oexpr) c : add_c vt a (neg1 * c) = py_sub vt a (PScal c true).
Proof. rewrite sub_run. cbn [do_act cb_add arith_cbs]. apply add_c_tab. Qed.
Lemma rsub_v_tab (a : oexpr) (v : vec) : frange a ->
  bind (rmul_c a neg1) (fun na => add_v na v) = py_rsub vt a (PVec v).
Proof.
  intros Hf. unfold py_rsub, t_Operator_rsub. cbn [run do_act cb_rmul cb_add arith_cbs].
  rewrite <- (rmul_c_tab a neg1 true Hf). apply bind_ext. intros na. apply add_v_tab.
Qed.
Lemma rsub_c_tab (a : oexpr) c : frange a ->
  bind (rmul_c a neg1) (fun na => add_c vt na c) = py_rsub vt a (PScal c true).
Proof.
  intros Hf. unfold py_rsub, t_Operator_rsub. cbn [run do_act cb_rmul cb_add arith_cbs].
  rewrite <- (rmul_c_tab a neg1 true Hf). apply bind_ext. intros na. apply add_c_tab.
Qed.
Lemma div_tab (a : oexpr) c rl : frange a ->
  (if c =? nzero then Err ZeroDivErr else mul_c vt a (none_ / c) rl) = py_div vt a (PScal c rl).
Proof.
  intros Hf. unfold py_div, t_Operator_truediv. cbn [run ceval do_act cb_mul arith_cbs].
  destruct (c =? nzero); [reflexivity|]. apply mul_c_tab; exact Hf.
Qed.

(* `@` is `*` *)
Lemma matmul_is_mul (a : oexpr) other : py_matmul vt a other = py_mul vt a other.
Proof. reflexivity. Qed.
Lemma rmatmul_is_rmul (a : oexpr) other : py_rmatmul vt a other = py_rmul vt a other.
Proof. reflexivity. Qed.

(* ---- the whole of [build] ---- *)
Hypothesis Rth : ring_theory nzero none_ nadd nmul nsub nopp (@eq T).
Hypothesis Hdiv : forall u c : T, u / c = (none_ / c) * u.
Hypothesis Heqb : forall a b : T, (a =? b) = true -> a = b.

Lemma built_frange s o : sleaves_ok s -> build vt s = Ok o -> frange o.
Proof.
  intros L E F. destruct (build_sem Rth Hdiv Heqb vt s o L E) as (W & _). apply func_ran; assumption.
Qed.

Theorem build_eq_tab : forall s, sleaves_ok s -> build vt s = build_tab vt s.
Proof.
  induction s as [l|d c|d|a IHa b IHb|a IHa b IHb|a IHa b IHb|a IHa|a IHa n|a IHa v|v a IHa|a IHa v
                 |v a IHa|a IHa v|v a IHa|a IHa c|c a IHa|a IHa c|c a IHa|a IHa c|c a IHa|a IHa c
                 |a IHa b IHb];
    intros L; cbn [sleaves_ok] in L; cbn [build build_tab]; try reflexivity;
    try (destruct L as [La Lb]; pose proof (built_frange b) as Fb; rewrite <- (IHb Lb);
         pose proof (built_frange a) as Fa; rewrite <- (IHa La));
    try (pose proof (built_frange a) as Fa; rewrite <- (IHa L));
    destruct (build vt a) as [oa|] eqn:Ba; cbn [bind]; try reflexivity.
  - destruct (build vt b) as [ob|]; cbn [bind]; [apply add_op_tab | reflexivity].
  - destruct (build vt b) as [ob|] eqn:Bb; cbn [bind]; [apply sub_op_tab; apply (Fb ob Lb eq_refl) | reflexivity].
  - destruct (build vt b) as [ob|]; cbn [bind]; [apply mul_op_tab | reflexivity].
  - apply neg_tab. apply (Fa oa L eq_refl).
  - apply pow_op_tab.
  - apply add_v_tab.
  - apply add_v_rtab.
  - apply sub_v_tab.
  - apply rsub_v_tab. apply (Fa oa L eq_refl).
  - apply mul_v_tab. apply (Fa oa L eq_refl).
  - apply rmul_v_tab. apply (Fa oa L eq_refl).
  - apply add_c_tab.
  - apply add_c_rtab.
  - apply sub_c_tab.
  - apply rsub_c_tab. apply (Fa oa L eq_refl).
  - apply mul_c_tab. apply (Fa oa L eq_refl).
  - apply rmul_c_tab. apply (Fa oa L eq_refl).
  - apply div_tab. apply (Fa oa L eq_refl).
Qed.
End DP.
