(* C04/DispatchModel.v -- Python's dispatch of the arithmetic operators, as the interpretation
   of the REGENERATED decision trees and MRO tables of Gen/OpDispatch.v (definitions only).
   Hand-written here is only HOW Python picks a method: the class of the left operand (owner
   tables), the reflected `__radd__` of a proper subclass first, `c * A` -> A.__rmul__(c). *)
From Coq Require Import ZArith List Bool.
From Verif Require Import Base.Num Base.Vec C04.Model C04.Dispatch Gen.OpDispatch.
Import ListNotations.

Section DM.
Context {T : Type} `{Num T}.
Variable vt : variant.
Notation oexpr := (oexpr T).
Notation operand := (@operand T).
Notation run := (run vt).

(* other * self  (other a scalar / vector / operator handed to __rmul__) *)
Definition rmul_operator : oexpr -> operand -> res oexpr := run no_cbs t_Operator_rmul.
Definition rmul_functional : oexpr -> operand -> res oexpr :=
  run {| cb_add := no_cb; cb_mul := no_cb; cb_rmul := no_cb; cb_super := rmul_operator |} t_Functional_rmul.
Definition py_rmul (self : oexpr) (other : operand) : res oexpr :=
  match owner_of owner_rmul self with
  | OwnFunctional => rmul_functional self other
  | _ => rmul_operator self other
  end.

(* self * other *)
Definition mul_operator : oexpr -> operand -> res oexpr :=
  run {| cb_add := no_cb; cb_mul := no_cb; cb_rmul := py_rmul; cb_super := no_cb |} t_Operator_mul.
Definition mul_rscal : oexpr -> operand -> res oexpr :=
  run {| cb_add := no_cb; cb_mul := no_cb; cb_rmul := no_cb; cb_super := mul_operator |} t_RScal_mul.
Definition mul_functional : oexpr -> operand -> res oexpr :=
  run {| cb_add := no_cb; cb_mul := no_cb; cb_rmul := no_cb; cb_super := mul_operator |} t_Functional_mul.
Definition py_mul (self : oexpr) (other : operand) : res oexpr :=
  match owner_of owner_mul self with
  | OwnFunctional => mul_functional self other
  | OwnRScal => mul_rscal self other
  | OwnOperator => mul_operator self other
  end.
(* A * B with both operators: the reflected __rmul__ of a proper subclass runs first *)
Definition py_mul_op (a b : oexpr) : res oexpr :=
  if reflected_first_mul (ocls b) (ocls a) then py_rmul b (POp a) else py_mul a (POp b).
(* self @ other,  other @ self *)
Definition py_matmul : oexpr -> operand -> res oexpr :=
  run {| cb_add := no_cb; cb_mul := py_mul; cb_rmul := no_cb; cb_super := no_cb |} t_Operator_matmul.
Definition py_rmatmul : oexpr -> operand -> res oexpr :=
  run {| cb_add := no_cb; cb_mul := no_cb; cb_rmul := py_rmul; cb_super := no_cb |} t_Operator_rmatmul.

(* self + other *)
Definition add_operator : oexpr -> operand -> res oexpr := run no_cbs t_Operator_add.
Definition add_functional : oexpr -> operand -> res oexpr :=
  run {| cb_add := no_cb; cb_mul := no_cb; cb_rmul := no_cb; cb_super := add_operator |} t_Functional_add.
Definition add_direct (self : oexpr) (other : operand) : res oexpr :=      (* self.__add__(other) *)
  match owner_of owner_add self with
  | OwnFunctional => add_functional self other
  | _ => add_operator self other
  end.
Definition radd_operator : oexpr -> operand -> res oexpr :=                (* Operator.__radd__ *)
  run {| cb_add := add_direct; cb_mul := no_cb; cb_rmul := no_cb; cb_super := no_cb |} t_Operator_radd.
Definition py_radd (self : oexpr) (other : operand) : res oexpr :=         (* other + self *)
  match owner_of owner_radd self with
  | OwnFunctional => if functional_radd_is_add then add_functional self other else Err TypeErr
  | _ => radd_operator self other
  end.
Definition py_add (self : oexpr) (other : operand) : res oexpr :=
  match other with
  | POp b => if reflected_first_add (ocls b) (ocls self) then py_radd b (POp self)   (* reflected first *)
             else add_direct self other
  | _ => add_direct self other
  end.

Definition arith_cbs : callbacks :=
  {| cb_add := py_add; cb_mul := py_mul; cb_rmul := py_rmul; cb_super := no_cb |}.
Definition py_sub (self : oexpr) (other : operand) : res oexpr :=
  match owner_of owner_sub self with
  | OwnFunctional => run arith_cbs t_Functional_sub self other
  | _ => run arith_cbs t_Operator_sub self other
  end.
Definition py_rsub : oexpr -> operand -> res oexpr := run arith_cbs t_Operator_rsub.   (* other - self *)
Definition py_neg (self : oexpr) : res oexpr := run arith_cbs t_Operator_neg self (PInt 0).
Definition py_div : oexpr -> operand -> res oexpr := run arith_cbs t_Operator_truediv.
Definition py_pow (self : oexpr) (n : Z) : res oexpr := run arith_cbs t_Operator_pow self (PInt n).

(* [build] with every overload taken from the regenerated trees *)
Fixpoint build_tab (s : sexpr T) : res oexpr :=
  match s with
  | SLeaf l => Ok (OLeaf l)
  | SConst d c => Ok (OConst d c)
  | SZero d => Ok (OZero d)
  | SAdd a b => bind (build_tab a) (fun oa => bind (build_tab b) (fun ob => py_add oa (POp ob)))
  | SSub a b => bind (build_tab a) (fun oa => bind (build_tab b) (fun ob => py_sub oa (POp ob)))
  | SMul a b => bind (build_tab a) (fun oa => bind (build_tab b) (fun ob => py_mul_op oa ob))
  | SNeg a => bind (build_tab a) py_neg
  | SPow a n => bind (build_tab a) (fun oa => py_pow oa n)
  | SAddV a v => bind (build_tab a) (fun oa => py_add oa (PVec v))
  | SVAdd v a => bind (build_tab a) (fun oa => py_radd oa (PVec v))
  | SSubV a v => bind (build_tab a) (fun oa => py_sub oa (PVec v))
  | SVSub v a => bind (build_tab a) (fun oa => py_rsub oa (PVec v))
  | SMulV a v => bind (build_tab a) (fun oa => py_mul oa (PVec v))
  | SVMul v a => bind (build_tab a) (fun oa => py_rmul oa (PVec v))
  | SAddC a c => bind (build_tab a) (fun oa => py_add oa (PScal c true))
  | SCAdd c a => bind (build_tab a) (fun oa => py_radd oa (PScal c true))
  | SSubC a c => bind (build_tab a) (fun oa => py_sub oa (PScal c true))
  | SCSub c a => bind (build_tab a) (fun oa => py_rsub oa (PScal c true))
  | SMulC a c rl => bind (build_tab a) (fun oa => py_mul oa (PScal c rl))
  | SCMul c a => bind (build_tab a) (fun oa => py_rmul oa (PScal c true))
  | SDivC a c rl => bind (build_tab a) (fun oa => py_div oa (PScal c rl))
  | SPtw a b => bind (build_tab a) (fun oa => bind (build_tab b) (fun ob => mkPtw oa ob))
  end.
End DM.
