(* C04/ModelMem.v -- the _call bodies of the expression classes as programs on a STORE of
   buffers (definitions only), with the memory contract of leaves made explicit.

   store   : buffer id -> contents (list (option T), None = uninitialised / garbage), plus the
             next free id; `x`, `out`, results and temporaries are buffer ids, so "the result IS
             the input object", "out aliased to x", "one temporary shared by two calls" are
             expressible.
   leaf contract (per leaf id):
     k_fresh = true   the out-of-place call returns a NEW buffer;
             = false  it returns (a view of) its input: the result id is the input id
                      (RealPart on a real space, FlatteningOperator, `return x`);
     k_alias = true   the in-place call tolerates out == x;
             = false  it does not (PartialDerivative, Laplacian, loop/stencil style code):
                      called with out == x it leaves garbage (modelled as poison).
   [oop o st x]     = (store, result id) after  o._call(x)          (out-of-place bodies)
   [ip o st x out]  = store after               o._call(x, out)     (in-place bodies)
   Every `+`, `*` on elements allocates; `+=`, `*=`, lincomb(..., out=), multiply(..., out=)
   overwrite an existing buffer; `range.element()` allocates an uninitialised buffer. *)
From Coq Require Import ZArith List Bool.
From Verif Require Import Base.Num Base.Vec C04.Model C04.ModelIP.
Import ListNotations.

Record lcontract := { k_fresh : bool; k_alias : bool }.

Section Mem.
Context {T : Type} `{Num T}.
Notation vec := (list T).
Notation pvec := (list (option T)).
Variable kon : nat -> lcontract.          (* contract of the leaf with a given l_id *)

Record store := { mem : nat -> pvec; next : nat }.
Definition sget (st : store) (i : nat) : pvec := mem st i.
Definition sset (st : store) (i : nat) (v : pvec) : store :=
  {| mem := fun j => if Nat.eqb j i then v else mem st j; next := next st |}.
Definition salloc (st : store) (v : pvec) : store * nat :=
  ({| mem := fun j => if Nat.eqb j (next st) then v else mem st j; next := S (next st) |}, next st).

Definition pscalar (b : pvec) : option T := match b with Some u :: _ => Some u | _ => None end.
Definition pflvec (b : pvec) (v : vec) : pvec :=           (* vector * functional value *)
  match pscalar b with Some s => pure (vscal s v) | None => poison (length v) end.

Definition leaf_oop (l : leaf T) (st : store) (x : nat) : store * nat :=
  if k_fresh (kon (l_id l)) then salloc st (papply (l_fun l) (dim (l_ran l)) (sget st x))
  else (st, x).
Definition leaf_ip (l : leaf T) (st : store) (x out : nat) : store :=
  sset st out (if Nat.eqb x out && negb (k_alias (kon (l_id l))) then poison (dim (l_ran l))
               else papply (l_fun l) (dim (l_ran l)) (sget st x)).

Fixpoint oop (o : oexpr T) (st : store) (x : nat) : store * nat :=
  match o with
  | OLeaf l => leaf_oop l st x
  | OConst _ c => salloc st [Some c]
  | OZero _ => salloc st [Some nzero]
  | OSum _ a b =>                                         (* self.left(x) + self.right(x) *)
      let (st1, r1) := oop a st x in let (st2, r2) := oop b st1 x in
      salloc st2 (pmap2 nadd (sget st2 r1) (sget st2 r2))
  | OScalSum a c => let (st1, r1) := oop a st x in salloc st1 (pmap2 nadd (sget st1 r1) [Some c])
  | OVecSum a v =>                                        (* self.operator(x) + self.vector *)
      let (st1, r1) := oop a st x in salloc st1 (pmap2 nadd (sget st1 r1) (pure v))
  | OComp _ a b => let (st1, r1) := oop b st x in oop a st1 r1      (* self.left(self.right(x)) *)
  | OLScal _ a c =>                                       (* self.scalar * self.operator(x) *)
      let (st1, r1) := oop a st x in salloc st1 (map (plift1 (nmul c)) (sget st1 r1))
  | ORScal _ a c =>                                       (* self.operator(self.scalar * x) *)
      let (st1, t) := salloc st (map (plift1 (nmul c)) (sget st x)) in oop a st1 t
  | OLVec a v =>                                          (* self.operator(x) * self.vector *)
      let (st1, r1) := oop a st x in salloc st1 (pmap2 nmul (sget st1 r1) (pure v))
  | ORVec _ a v =>                                        (* self.operator(x * self.vector) *)
      let (st1, t) := salloc st (pmap2 nmul (sget st x) (pure v)) in oop a st1 t
  | OFLVec a v =>                                         (* self.vector * self.functional(x) *)
      let (st1, r1) := oop a st x in salloc st1 (pflvec (sget st1 r1) v)
  | OPtw a b =>
      let (st1, r1) := oop a st x in let (st2, r2) := oop b st1 x in
      salloc st2 (pmap2 nmul (sget st2 r1) (sget st2 r2))
  end.

Fixpoint ip (o : oexpr T) (st : store) (x out : nat) : store :=
  match o with
  | OLeaf l => leaf_ip l st x out
  | OSum _ a b =>
      let (st1, tmp) := salloc st (poison (dim (oran a))) in    (* tmp = self.range.element() *)
      let st2 := ip a st1 x tmp in                              (* self.left(x, out=tmp) *)
      let st3 := ip b st2 x out in                              (* self.right(x, out=out) *)
      sset st3 out (pmap2 nadd (sget st3 out) (sget st3 tmp))   (* out += tmp *)
  | OVecSum a v =>
      let st1 := ip a st x out in sset st1 out (pmap2 nadd (sget st1 out) (pure v))
  | OComp _ a b =>
      let (st1, tmp) := salloc st (poison (dim (oran b))) in    (* tmp = self.right.range.element() *)
      let st2 := ip b st1 x tmp in                              (* self.right(x, out=tmp) *)
      ip a st2 tmp out                                          (* self.left(tmp, out=out) *)
  | OLScal _ a c =>
      let st1 := ip a st x out in sset st1 out (map (plift1 (nmul c)) (sget st1 out))
  | ORScal _ a c =>
      let (st1, tmp) := salloc st (map (plift1 (nmul c)) (sget st x)) in   (* tmp.lincomb(scalar, x) *)
      ip a st1 tmp out
  | OLVec a v =>
      let st1 := ip a st x out in sset st1 out (pmap2 nmul (sget st1 out) (pure v))
  | ORVec _ a v =>
      let (st1, tmp) := salloc st (pmap2 nmul (sget st x) (pure v)) in     (* x.multiply(vector, out=tmp) *)
      ip a st1 tmp out
  | OFLVec a v =>
      let (st1, r1) := oop a st x in                            (* scalar = self.functional(x) *)
      sset st1 out (pflvec (sget st1 r1) v)                     (* out.lincomb(scalar, self.vector) *)
  | OPtw a b =>
      let (st1, tmp) := salloc st (poison (dim (oran a))) in
      let st2 := ip a st1 x tmp in
      let st3 := ip b st2 x out in
      sset st3 out (pmap2 nmul (sget st3 out) (sget st3 tmp))
  | OConst _ _ | OZero _ | OScalSum _ _ => st                   (* a functional called with out: TypeError *)
  end.

(* CONTRACT OF THE BUILT OBJECT, computed from the leaves' contracts *)
(* the out-of-place result is a new buffer *)
Fixpoint ofresh (o : oexpr T) : bool :=
  match o with
  | OLeaf l => k_fresh (kon (l_id l))
  | OComp _ a b => ofresh a || ofresh b
  | _ => true
  end.
(* the in-place call tolerates out == x *)
Fixpoint oalias (o : oexpr T) : bool :=
  match o with
  | OLeaf l => k_alias (kon (l_id l))
  | OSum _ _ b | OPtw _ b => oalias b          (* left goes to tmp first; right(x, out=x) must cope *)
  | OVecSum a _ | OLScal _ a _ | OLVec a _ => oalias a
  | OComp _ _ _ | ORScal _ _ _ | ORVec _ _ _ | OFLVec _ _ => true     (* routed through a temporary *)
  | OConst _ _ | OZero _ | OScalSum _ _ => true
  end.

(* the initial store used by the correspondence: buffer 0 = x, buffer 1 = NaN-filled out *)
Definition store0 (x : vec) (nout : nat) : store :=
  {| mem := fun j => match j with O => pure x | 1%nat => poison nout | _ => [] end; next := 2 |}.
End Mem.
