(* C04/Props.v -- property theorems only; each is closed by [exact] of a lemma of
   C04/Proofs.v / C04/Instances.v and followed by Print Assumptions.

   Vocabulary (C04/Model.v, tied to /repo by the structural + value correspondence):
     sexpr    an expression as the user writes it: leaves, + - neg * (= @) / ** with operator,
              vector and scalar operands on either side, of ANY depth
     build    what Operator.__add__ ... Functional.__mul__ ... construct from it (an object
              tree [oexpr] of the expression classes, incl. scalar merging and the linear
              shortcut A*a -> a*A, the zero-scalar shortcuts of Functional), or an error
     eval     the objects' out-of-place _call;  eval_ip  their in-place _call
     denote   the documented table applied recursively:
              (A+B)(x)=A(x)+B(x), (A*B)(x)=A(B(x)), (a*A)(x)=a*A(x), (A*a)(x)=A(a*x),
              (v*A)(x)=v*A(x), (A*v)(x)=A(v*x), (A+v)(x)=A(x)+v, A**n iterated, (A/a)(x)=A(x/a)
     sdom/sran/slin   domain, range, linearity implied by the expression
     leaf_ok  what is assumed of a leaf: maps F^n into its declared range; a Functional has
              the field as range; a leaf FLAGGED linear is linear (homogeneity is the premise
              that the A*a -> a*A rewrite needs; nothing is assumed of nonlinear leaves)
     variant  [variant_live] = what /repo does (the correspondence requires it of the running
              code); [variant_old] = the behaviour before the fixes 7ebf769 / c9dadbb, kept so
              that the old defects stay expressible.  Lemmas hold for EVERY variant; the
              property theorems flag_complete / well_typed_evaluates are stated at the live one. *)
From Coq Require Import ZArith QArith Reals List Bool Ring.
From Verif Require Import Base.Num Base.Vec C04.Model C04.ModelIP C04.ModelMem C04.Cplx Gen.OpTables C04.Tables C04.Dispatch Gen.OpDispatch C04.DispatchModel C04.DispatchProofs C04.Proofs C04.ProofsIP C04.ProofsMem C04.Instances C04.Refuted.
Import ListNotations.

(* T1 (core).  Over ANY commutative ring carried by the Num class (covers R, C, Qc): for every
   source expression s of any depth over arbitrary linear/nonlinear/functional leaves, if the
   overloads build an object o (i.e. s is accepted as well-typed), then at every point x of
   the domain both the out-of-place and the in-place evaluation of o equal the table value. *)
Theorem build_sound : forall (T : Type) (N : Num T),
  ring_theory nzero none_ nadd nmul nsub nopp (@eq T) ->
  (forall u c : T, ndiv u c = nmul (ndiv none_ c) u) ->
  (forall a b : T, neqb a b = true -> a = b) ->
  forall (vt : variant) (s : sexpr T) (o : oexpr T), sleaves_ok s -> build vt s = Ok o ->
  forall x : list T, length x = dim (sdom s) ->
    eval o x = denote s x /\ eval_ip o x = denote s x.
Proof. exact @build_sound. Qed.
Print Assumptions build_sound.

(* the same, closed, at the two fields ODL has *)
Theorem build_sound_real : forall (vt : variant) (s : sexpr R) (o : oexpr R), sleaves_ok s -> build vt s = Ok o ->
  forall x : list R, length x = dim (sdom s) ->
    eval o x = denote s x /\ eval_ip o x = denote s x.
Proof. exact (@Proofs.build_sound R _ R_ring R_div R_eqb). Qed.
Print Assumptions build_sound_real.

Theorem build_sound_complex : forall (vt : variant) (s : sexpr RC) (o : oexpr RC), sleaves_ok s -> build vt s = Ok o ->
  forall x : list RC, length x = dim (sdom s) ->
    eval o x = denote s x /\ eval_ip o x = denote s x.
Proof. exact (@Proofs.build_sound RC _ RC_ring RC_div RC_eqb). Qed.
Print Assumptions build_sound_complex.

(* T1.  Domain and range of the built object are those implied by the expression, and the
   value has the length of the range. *)
Theorem build_types : forall (T : Type) (N : Num T),
  ring_theory nzero none_ nadd nmul nsub nopp (@eq T) ->
  (forall u c : T, ndiv u c = nmul (ndiv none_ c) u) ->
  (forall a b : T, neqb a b = true -> a = b) ->
  forall (vt : variant) (s : sexpr T) (o : oexpr T), sleaves_ok s -> build vt s = Ok o ->
  odom o = sdom s /\ oran o = sran s /\
  (forall x : list T, length x = dim (sdom s) -> length (eval o x) = dim (sran s)).
Proof. exact @Proofs.build_types. Qed.
Print Assumptions build_types.

(* The leaf premise is satisfiable: every member of the concrete pool used by the
   correspondence (matrix/affine/square/cube/abs operators, inner-product operator, linear,
   quadratic and L1 functionals, field-valued nonlinear operator) meets it, so for expressions
   over the pool the theorem needs no premise about leaves at all. *)
Theorem build_sound_pool_real : forall (vt : variant) (s : sexpr R) (o : oexpr R), sleaves_pool s -> build vt s = Ok o ->
  forall x : list R, length x = dim (sdom s) ->
    eval o x = denote s x /\ eval_ip o x = denote s x.
Proof.
  exact (fun vt s o P => @Proofs.build_sound R _ R_ring R_div R_eqb vt s o (sleaves_pool_ok R_ring s P)).
Qed.
Print Assumptions build_sound_pool_real.

(* T1 (flags, soundness).  Whenever the built object is flagged linear, the table value of the
   expression really is a linear map (homogeneous and additive on the domain) -- for every
   tree, given that leaves flagged linear are linear. *)
Theorem flag_sound : forall (T : Type) (N : Num T),
  ring_theory nzero none_ nadd nmul nsub nopp (@eq T) ->
  (forall u c : T, ndiv u c = nmul (ndiv none_ c) u) ->
  (forall a b : T, neqb a b = true -> a = b) ->
  forall (vt : variant) (s : sexpr T) (o : oexpr T), sleaves_ok s -> build vt s = Ok o -> olin vt o = true ->
    (forall (c : T) (x : list T), length x = dim (sdom s) ->
        denote s (vscal c x) = vscal c (denote s x))
    /\ (forall x y : list T, length x = dim (sdom s) -> length y = dim (sdom s) ->
        denote s (vadd x y) = vadd (denote s x) (denote s y)).
Proof. exact @Proofs.flag_sound. Qed.
Print Assumptions flag_sound.

(* T1 (flags, completeness): "the linearity flag of the result is the one implied by the
   expression" ([slin]: sums/compositions of linear operands, scalar and vector multiples of a
   linear operand are linear).  UNCONDITIONAL for the code as it is now, every tree: *)
Theorem flag_complete : forall (T : Type) (N : Num T),
  ring_theory nzero none_ nadd nmul nsub nopp (@eq T) ->
  (forall u c : T, ndiv u c = nmul (ndiv none_ c) u) ->
  (forall a b : T, neqb a b = true -> a = b) ->
  (forall a : T, neqb a a = true) ->
  forall (s : sexpr T) (o : oexpr T), sleaves_ok s -> build variant_live s = Ok o ->
    slin s = true -> olin variant_live o = true.
Proof.
  exact (fun T N Rth Hdiv Heqb Hrefl =>
           @Proofs.flag_complete_repaired T N Rth Hdiv Heqb Hrefl variant_live eq_refl).
Qed.
Print Assumptions flag_complete.

(* the same for any variant, as long as no `A * v` with a scalar-valued A occurs *)
Theorem flag_complete_partial : forall (T : Type) (N : Num T),
  ring_theory nzero none_ nadd nmul nsub nopp (@eq T) ->
  (forall u c : T, ndiv u c = nmul (ndiv none_ c) u) ->
  (forall a b : T, neqb a b = true -> a = b) ->
  (forall a : T, neqb a a = true) ->
  forall (vt : variant) (s : sexpr T) (o : oexpr T), sleaves_ok s -> build vt s = Ok o -> no_sf_rvec s ->
    slin s = true -> olin vt o = true.
Proof. exact @Proofs.flag_complete_partial. Qed.
Print Assumptions flag_complete_partial.

(* What the two repaired defects were, as statements about the explicit OLD variant:
   before 7ebf769, f * v for a linear Functional f dropped the flag ... *)
Theorem flag_complete_old_variant_refuted :
  exists (s : sexpr R) (o : oexpr R),
    sleaves_ok s /\ build variant_old s = Ok o /\ slin s = true /\ olin variant_old o = false.
Proof. exact flag_complete_refuted_R. Qed.

(* ... and before c9dadbb, `A + a` for a field-valued operator A that is not a Functional
   (documented by Operator.__add__) was rejected by OperatorVectorSum.__init__; it is accepted
   now (instance of well_typed_evaluates; the built object shown for the reader). *)
Theorem add_scalar_field_range_old_variant_rejected :
  build variant_old (SAddC (SLeaf (LIP 0 [1%R])) 1%R) = Err TypeErr.
Proof. exact add_scalar_field_range_rejected_R. Qed.
Example add_scalar_field_range_accepted :
  build variant_live (SAddC (SLeaf (LIP 0 [1%R])) 1%R) = Ok (OVecSum (OLeaf (LIP 0 [1%R])) [1%R]).
Proof. reflexivity. Qed.

(* T1 (acceptance).  [wt] = well-typed by the documented rules of the overloads (ranges/domains
   match, v in A.range / A.domain, n > 0 and A.range = A.domain for n > 1, a <> 0 for A / a);
   [sfunc] = "the result is a Functional".  The overloads never accept an ill-typed expression: *)
Theorem accept_sound : forall (T : Type) (N : Num T),
  ring_theory nzero none_ nadd nmul nsub nopp (@eq T) ->
  (forall u c : T, ndiv u c = nmul (ndiv none_ c) u) ->
  (forall a b : T, neqb a b = true -> a = b) ->
  forall (vt : variant) (s : sexpr T) (o : oexpr T), sleaves_ok s -> build vt s = Ok o -> wt s = true.
Proof. exact @Proofs.accept_sound. Qed.
Print Assumptions accept_sound.

Theorem build_func : forall (T : Type) (N : Num T) (vt : variant) (s : sexpr T) (o : oexpr T),
  build vt s = Ok o -> ofunc o = sfunc s.
Proof. exact @Proofs.build_func. Qed.
Print Assumptions build_func.

(* THE PROPERTY IN ONE STATEMENT, for the code as it is now.  Every expression of any depth
   that is well-typed by the documented rules is accepted, the built object has the implied
   domain / range / kind, and it evaluates out-of-place and in-place to the table value at
   every point.  No side condition. *)
Theorem well_typed_evaluates : forall (T : Type) (N : Num T),
  ring_theory nzero none_ nadd nmul nsub nopp (@eq T) ->
  (forall u c : T, ndiv u c = nmul (ndiv none_ c) u) ->
  (forall a b : T, neqb a b = true -> a = b) ->
  forall (s : sexpr T), sleaves_ok s -> wt s = true ->
  exists o : oexpr T, build variant_live s = Ok o /\ odom o = sdom s /\ oran o = sran s /\ ofunc o = sfunc s /\
    forall x : list T, length x = dim (sdom s) -> eval o x = denote s x /\ eval_ip o x = denote s x.
Proof.
  exact (fun T N Rth Hdiv Heqb s L W =>
           @Proofs.well_typed_evaluates T N Rth Hdiv Heqb variant_live s L W
             (scalar_add_ok_of_variant variant_live s eq_refl)).
Qed.
Print Assumptions well_typed_evaluates.

(* the general form: any variant; [scalar_add_ok vt s] excludes, for the OLD variant only,
   `A + a` on a field-valued operator A that is not a Functional *)
Theorem well_typed_evaluates_any_variant : forall (T : Type) (N : Num T),
  ring_theory nzero none_ nadd nmul nsub nopp (@eq T) ->
  (forall u c : T, ndiv u c = nmul (ndiv none_ c) u) ->
  (forall a b : T, neqb a b = true -> a = b) ->
  forall (vt : variant) (s : sexpr T), sleaves_ok s -> wt s = true -> scalar_add_ok vt s ->
  exists o : oexpr T, build vt s = Ok o /\ odom o = sdom s /\ oran o = sran s /\ ofunc o = sfunc s /\
    forall x : list T, length x = dim (sdom s) -> eval o x = denote s x /\ eval_ip o x = denote s x.
Proof. exact @Proofs.well_typed_evaluates. Qed.
Print Assumptions well_typed_evaluates_any_variant.

(* non-vacuity at the executable instance: the interaction patterns named in the property are
   well-typed, accepted, and built as the expected classes (kernel-evaluated at Q) *)
Example patterns_accepted :
  let A := SLeaf (LSq 0 2 [0%Q; 0%Q]) in           (* nonlinear *)
  let B := SLeaf (LMat 1 2 [[1%Q; 2%Q]; [0%Q; 1%Q]]) in (* linear *)
  let two := 2%Q in let three := 3%Q in
  wt (SMul (SMulC A two true) B) = true                                       (* (A*a)*B *)
  /\ build variant_live (SMul (SMulC A two true) B)
     = Ok (OComp false (ORScal false (OLeaf (LSq 0 2 [0%Q; 0%Q])) two) (OLeaf (LMat 1 2 [[1%Q; 2%Q]; [0%Q; 1%Q]])))
  /\ build variant_live (SMulC (SMulC A two true) three true)                   (* (A*a)*b merges *)
     = Ok (ORScal false (OLeaf (LSq 0 2 [0%Q; 0%Q])) 6%Q)
  /\ build variant_live (SMulC B two true)                                 (* linear shortcut *)
     = Ok (OLScal false (OLeaf (LMat 1 2 [[1%Q; 2%Q]; [0%Q; 1%Q]])) two)
  /\ build variant_live (SCMul three (SCMul two A))                   (* b*(a*A) merges *)
     = Ok (OLScal false (OLeaf (LSq 0 2 [0%Q; 0%Q])) 6%Q).
Proof. vm_compute. repeat split; reflexivity. Qed.

(* T1 (in place, "whatever out contained before").  [ipp] runs the in-place _call bodies on
   buffers of [option T] where None = uninitialised memory / NaN and every arithmetic step is
   strict in None (C04/ModelIP.v; leaves are assumed to overwrite `out` without reading it).
   For every vector-valued expression of any depth, every point and EVERY initial content of
   `out` -- all-None included -- the buffer ends up fully defined and equal to the table value:
   neither the old `out` nor any uninitialised temporary leaks into the result. *)
Theorem inplace_ignores_out : forall (T : Type) (N : Num T),
  ring_theory nzero none_ nadd nmul nsub nopp (@eq T) ->
  (forall u c : T, ndiv u c = nmul (ndiv none_ c) u) ->
  (forall a b : T, neqb a b = true -> a = b) ->
  forall (vt : variant) (s : sexpr T) (o : oexpr T),
  sleaves_ok s -> build vt s = Ok o -> (exists n, sran s = SV n) ->
  forall (x : list T) (out : list (option T)), length x = dim (sdom s) ->
    ipp o (pure x) out = pure (denote s x).
Proof. exact @ProofsIP.build_inplace_sound. Qed.
Print Assumptions inplace_ignores_out.

(* Tie by REGENERATION.  Gen/OpTables.v is re-emitted on every run from the `__init__` of the
   17 expression classes (which base-class initialiser is effective, its `linear=` expression
   and domain argument).  The model's flag and domain computations are exactly what those
   tables say -- for every object tree -- so an edited `linear=` argument breaks this proof. *)
Theorem flags_follow_source_table : forall (T : Type) (N : Num T) (vt : variant),
  v_frvec_lin vt = frvec_lin_of_table ->
  forall o : oexpr T, olin vt o = olin_tab o.
Proof. exact @Tables.olin_table. Qed.
Print Assumptions flags_follow_source_table.

Theorem domains_follow_source_table : forall (T : Type) (o : oexpr T),
  odom o = odom_step o.
Proof. exact @Tables.odom_table. Qed.

(* T1 (memory contract of leaves made explicit).  C04/ModelMem.v runs the _call bodies on a
   store of buffers; x, out, results and temporaries are buffer ids.  Each leaf carries a
   contract  [kon (l_id l)] : k_fresh (the out-of-place result is a new buffer; false = it
   returns (a view of) its input, e.g. RealPart on a real space, FlatteningOperator,
   `return x`)  and  k_alias (the in-place call tolerates out == x; false for
   PartialDerivative, Laplacian, loop/stencil code).  NOTHING is assumed about these flags;
   the only side condition is [returns_input_ok]: a leaf that returns its input is the identity.

   Out of place, for every tree: no pre-existing buffer is modified (x in particular: the same
   point can be evaluated again), the result buffer holds the table value, and it is either x
   itself or a new buffer -- new whenever [ofresh] (computed from the leaves' flags) says so. *)
Theorem outofplace_memory_safe : forall (T : Type) (N : Num T),
  ring_theory nzero none_ nadd nmul nsub nopp (@eq T) ->
  forall (kon : nat -> lcontract),
  (forall u c : T, ndiv u c = nmul (ndiv none_ c) u) ->
  (forall a b : T, neqb a b = true -> a = b) ->
  forall (vt : variant) (s : sexpr T) (o : oexpr T),
  sleaves_ok s -> ssat (returns_input_ok kon) s -> build vt s = Ok o ->
  forall (st : store) (x : nat) (xv : list T),
    (x < next st)%nat -> sget st x = pure xv -> length xv = dim (sdom s) ->
  forall (st' : store) (r : nat), oop kon o st x = (st', r) ->
    (forall i, (i < next st)%nat -> mem st' i = mem st i)
    /\ sget st' r = pure (denote s xv)
    /\ (r = x \/ (next st <= r)%nat)
    /\ (ofresh kon o = true -> (next st <= r)%nat).
Proof. exact @ProofsMem.build_oop_memory_safe. Qed.
Print Assumptions outofplace_memory_safe.

(* In place, for every vector-valued tree: if out is not x -- or out IS x and [oalias] (computed
   from the leaves' flags: sums/products need it of their right operand, left multiplications and
   `+ v` of their operand; compositions, right multiplications and v*f route through a temporary
   and need nothing) holds -- then only `out` is written, it ends up holding the table value, and
   no operand is ever called in place with its own input as `out` unless it tolerates that.  In
   particular A ** n (nested compositions, one temporary PER level) is correct in place for
   every n and every leaf, alias-safe or not. *)
Theorem inplace_memory_safe : forall (T : Type) (N : Num T),
  ring_theory nzero none_ nadd nmul nsub nopp (@eq T) ->
  forall (kon : nat -> lcontract),
  (forall u c : T, ndiv u c = nmul (ndiv none_ c) u) ->
  (forall a b : T, neqb a b = true -> a = b) ->
  forall (vt : variant) (s : sexpr T) (o : oexpr T),
  sleaves_ok s -> ssat (returns_input_ok kon) s -> build vt s = Ok o -> (exists n, sran s = SV n) ->
  forall (st : store) (x out : nat) (xv : list T),
    (x < next st)%nat -> (out < next st)%nat -> (x <> out \/ oalias kon o = true) ->
    sget st x = pure xv -> length xv = dim (sdom s) ->
    (forall i, (i < next st)%nat -> i <> out -> mem (ip kon o st x out) i = mem st i)
    /\ sget (ip kon o st x out) out = pure (denote s xv).
Proof. exact @ProofsMem.build_ip_memory_safe. Qed.
Print Assumptions inplace_memory_safe.

(* how the expression classes propagate the contract (definitional; shown for the reader) *)
Example contract_propagation : forall (T : Type) (kon : nat -> lcontract) (a b : oexpr T) (v : list T) (c : T) fn,
  oalias kon (OComp fn a b) = true /\ oalias kon (ORScal fn a c) = true /\ oalias kon (ORVec fn a v) = true
  /\ oalias kon (OSum fn a b) = oalias kon b /\ oalias kon (OLVec a v) = oalias kon a
  /\ oalias kon (OLScal fn a c) = oalias kon a /\ oalias kon (OVecSum a v) = oalias kon a
  /\ ofresh kon (OComp fn a b) = (ofresh kon a || ofresh kon b)%bool
  /\ ofresh kon (OLVec a v) = true /\ ofresh kon (OSum fn a b) = true /\ ofresh kon (OVecSum a v) = true.
Proof. intros. repeat split; reflexivity. Qed.

(* Tie by REGENERATION, dispatch.  Gen/OpDispatch.v is re-emitted on every run from the BODIES of
   Operator.__add__/__radd__/__sub__/__rsub__/__mul__/__matmul__/__rmul__/__rmatmul__/__pow__/
   __truediv__/__neg__, OperatorRightScalarMult.__mul__ and Functional.__mul__/__rmul__/__add__/
   __sub__ (+ `__radd__ = __add__`) as decision trees over isinstance / membership / is_linear /
   == 0 tests, together with the MRO owner of each dunder for the 17 expression classes.
   [build_tab] interprets those trees (C04/Dispatch.v fixes the meaning of each test and of each
   returned expression; C04/DispatchModel.v how Python picks the method).  The hand-written
   [build], about which every theorem above speaks, IS that interpretation -- for every source
   expression: a changed dispatch (other side, dropped / reordered branch, other class) breaks
   this proof, not only the correspondence. *)
Theorem build_follows_source_dispatch : forall (T : Type) (N : Num T) (vt : variant),
  ring_theory nzero none_ nadd nmul nsub nopp (@eq T) ->
  (forall u c : T, ndiv u c = nmul (ndiv none_ c) u) ->
  (forall a b : T, neqb a b = true -> a = b) ->
  forall s : sexpr T, sleaves_ok s -> build vt s = build_tab vt s.
Proof. exact @DispatchProofs.build_eq_tab. Qed.
Print Assumptions build_follows_source_dispatch.

(* `@` is `*`: the regenerated __matmul__ / __rmatmul__ trees just delegate *)
Theorem matmul_is_mul : forall (T : Type) (N : Num T) (vt : variant) (a : oexpr T) (other : operand),
  py_matmul vt a other = py_mul vt a other /\ py_rmatmul vt a other = py_rmul vt a other.
Proof. intros; split; reflexivity. Qed.

(* Regression statement for fix 52720c8.  The live rule (C04/Model.mul_c, proved equal to the
   regenerated Operator.__mul__ tree): A*a is rewritten to a*A only when A.is_linear AND a is of a
   real Python type.  Why the older rule (every scalar of the range field) was wrong: for an
   operator that is only real-linear -- here the imaginary part on C^1, additive and homogeneous
   for real scalars -- and the complex scalar i, the two objects have different values. *)
Theorem complex_shortcut_old_rule_refuted :
  let i : RC := (0%R, 1%R) in let x : list RC := [(1%R, 0%R)] in
  eval (OLScal false (OLeaf im_leaf) i) x <> eval (ORScal false (OLeaf im_leaf) i) x.
Proof. exact complex_shortcut_old_rule_refuted_RC. Qed.
Theorem complex_shortcut_witness_is_real_linear :
  (forall (r : R) (x : list RC), l_fun im_leaf (vscal (r, 0%R) x) = vscal (r, 0%R) (l_fun im_leaf x))
  /\ (forall x y : list RC, length x = length y ->
        l_fun im_leaf (vadd x y) = vadd (l_fun im_leaf x) (l_fun im_leaf y)).
Proof. exact im_leaf_real_linear. Qed.
