(* C04/Props.v -- property theorems only. *)
From Coq Require Import ZArith List Bool.
From Verif Require Import Base.Num Base.Vec C04.Model C04.Proofs.
