(* C04/Props.v -- property theorems only; each is closed by [exact] of a lemma of
   C04/Proofs.v / C04/Instances.v and followed by Print Assumptions.

   Vocabulary (C04/Model.v, tied to /repo by the structural + value correspondence):
     sexpr    an expression as the user writes it: leaves, + - neg * (= @) / ** with operator,
              vector and scalar operands on either side, of ANY depth
     build    what Operator.__add__ ... Functional.__mul__ ... construct from it (an object
              tree [oexpr] of the expression classes, incl. scalar merging and the linear
              shortcut A*a -> a*A, the zero-scalar shortcuts of Functional), or an error
     eval     the objects' out-of-place _call;  eval_ip  their in-place _call
     denote   the documented table applied recursively:
              (A+B)(x)=A(x)+B(x), (A*B)(x)=A(B(x)), (a*A)(x)=a*A(x), (A*a)(x)=A(a*x),
              (v*A)(x)=v*A(x), (A*v)(x)=A(v*x), (A+v)(x)=A(x)+v, A**n iterated, (A/a)(x)=A(x/a)
     sdom/sran/slin   domain, range, linearity implied by the expression
     leaf_ok  what is assumed of a leaf: maps F^n into its declared range; a Functional has
              the field as range; a leaf FLAGGED linear is homogeneous (the premise that the
              A*a -> a*A rewrite needs; nothing is assumed of nonlinear leaves)            *)
From Coq Require Import ZArith QArith Reals List Bool Ring.
From Verif Require Import Base.Num Base.Vec C04.Model C04.Cplx C04.Proofs C04.Instances.
Import ListNotations.

(* T1 (core).  Over ANY commutative ring carried by the Num class (covers R, C, Qc): for every
   source expression s of any depth over arbitrary linear/nonlinear/functional leaves, if the
   overloads build an object o (i.e. s is accepted as well-typed), then at every point x of
   the domain both the out-of-place and the in-place evaluation of o equal the table value. *)
Theorem build_sound : forall (T : Type) (N : Num T),
  ring_theory nzero none_ nadd nmul nsub nopp (@eq T) ->
  (forall u c : T, ndiv u c = nmul (ndiv none_ c) u) ->
  (forall a b : T, neqb a b = true -> a = b) ->
  forall (s : sexpr T) (o : oexpr T), sleaves_ok s -> build s = Ok o ->
  forall x : list T, length x = dim (sdom s) ->
    eval o x = denote s x /\ eval_ip o x = denote s x.
Proof. exact @build_sound. Qed.
Print Assumptions build_sound.

(* the same, closed, at the two fields ODL has *)
Theorem build_sound_real : forall (s : sexpr R) (o : oexpr R), sleaves_ok s -> build s = Ok o ->
  forall x : list R, length x = dim (sdom s) ->
    eval o x = denote s x /\ eval_ip o x = denote s x.
Proof. exact (@Proofs.build_sound R _ R_ring R_div R_eqb). Qed.
Print Assumptions build_sound_real.

Theorem build_sound_complex : forall (s : sexpr RC) (o : oexpr RC), sleaves_ok s -> build s = Ok o ->
  forall x : list RC, length x = dim (sdom s) ->
    eval o x = denote s x /\ eval_ip o x = denote s x.
Proof. exact (@Proofs.build_sound RC _ RC_ring RC_div RC_eqb). Qed.
Print Assumptions build_sound_complex.

(* T1.  Domain and range of the built object are those implied by the expression, and the
   value has the length of the range. *)
Theorem build_types : forall (T : Type) (N : Num T),
  ring_theory nzero none_ nadd nmul nsub nopp (@eq T) ->
  (forall u c : T, ndiv u c = nmul (ndiv none_ c) u) ->
  (forall a b : T, neqb a b = true -> a = b) ->
  forall (s : sexpr T) (o : oexpr T), sleaves_ok s -> build s = Ok o ->
  odom o = sdom s /\ oran o = sran s /\
  (forall x : list T, length x = dim (sdom s) -> length (eval o x) = dim (sran s)).
Proof. exact @Proofs.build_types. Qed.
Print Assumptions build_types.

(* The leaf premise is satisfiable: every member of the concrete pool used by the
   correspondence (matrix/affine/square/cube/abs operators, inner-product operator, linear,
   quadratic and L1 functionals, field-valued nonlinear operator) meets it, so for expressions
   over the pool the theorem needs no premise about leaves at all. *)
Theorem build_sound_pool_real : forall (s : sexpr R) (o : oexpr R), sleaves_pool s -> build s = Ok o ->
  forall x : list R, length x = dim (sdom s) ->
    eval o x = denote s x /\ eval_ip o x = denote s x.
Proof.
  exact (fun s o P => @Proofs.build_sound R _ R_ring R_div R_eqb s o (sleaves_pool_ok R_ring s P)).
Qed.
Print Assumptions build_sound_pool_real.
