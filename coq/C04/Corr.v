(* C04/Corr.v -- correspondence checker (executed at Q, and at Q*Q for complex spaces).
   A case = a source expression (leaves are concrete pool members), what Python built from it
   (full object tree: class skeleton WITH the stored scalars/vectors, domain, range, is_linear)
   or the error class it raised, and values at some points (out-of-place and in-place). *)
From Coq Require Import ZArith QArith List Bool.
From Verif Require Import Base.Num Base.Vec Base.Check C04.Model C04.ModelIP C04.ModelMem C04.Cplx Gen.OpTables C04.Tables C04.Dispatch Gen.OpDispatch C04.DispatchModel.
Import ListNotations.

Section Corr.
Context {T : Type} `{Num T}.
Variable cl : T -> T -> bool.          (* cl impl model *)
Notation vec := (list T).
Definition vcl : vec -> vec -> bool := all2 cl.

Inductive skel :=
| KLeaf (id : nat) | KConst (c : T) | KZero
| KSum (fn : bool) (a b : skel) | KScalSum (a : skel) (c : T) | KVecSum (a : skel) (v : vec)
| KComp (fn : bool) (a b : skel) | KLScal (fn : bool) (a : skel) (c : T)
| KRScal (fn : bool) (a : skel) (c : T) | KLVec (a : skel) (v : vec)
| KRVec (fn : bool) (a : skel) (v : vec) | KFLVec (a : skel) (v : vec) | KPtw (a b : skel).

Fixpoint skel_ok (o : oexpr T) (k : skel) : bool :=
  match o, k with
  | OLeaf l, KLeaf id => Nat.eqb (l_id l) id
  | OConst _ c, KConst c' => cl c' c
  | OZero _, KZero => true
  | OSum fn a b, KSum fn' a' b' => Bool.eqb fn fn' && skel_ok a a' && skel_ok b b'
  | OScalSum a c, KScalSum a' c' => skel_ok a a' && cl c' c
  | OVecSum a v, KVecSum a' v' => skel_ok a a' && vcl v' v
  | OComp fn a b, KComp fn' a' b' => Bool.eqb fn fn' && skel_ok a a' && skel_ok b b'
  | OLScal fn a c, KLScal fn' a' c' => Bool.eqb fn fn' && skel_ok a a' && cl c' c
  | ORScal fn a c, KRScal fn' a' c' => Bool.eqb fn fn' && skel_ok a a' && cl c' c
  | OLVec a v, KLVec a' v' => skel_ok a a' && vcl v' v
  | ORVec fn a v, KRVec fn' a' v' => Bool.eqb fn fn' && skel_ok a a' && vcl v' v
  | OFLVec a v, KFLVec a' v' => skel_ok a a' && vcl v' v
  | OPtw a b, KPtw a' b' => skel_ok a a' && skel_ok b b'
  | _, _ => false
  end.

Inductive impl_build :=
| BOk (k : skel) (dom ran : sp) (lin func : bool) | BTypeErr | BZeroDiv | BOther.

(* p_alias: does the out-of-place result share memory with x (np.shares_memory)? *)
(* p_xx: contents of x after  o(x, out=x)  (None when domain <> range or the call raised) *)
Record point := { p_x : vec; p_out : vec; p_ip : option vec; p_alias : bool; p_xx : option vec }.
(* c_kon: memory contract (result fresh?, in-place alias-safe?) of the leaf with each l_id *)
Record case := { c_vt : variant; c_kon : list (bool * bool); c_expr : sexpr T; c_build : impl_build;
                 c_points : list point }.
Definition kon_of (l : list (bool * bool)) (id : nat) : lcontract :=
  match nth_error l id with
  | Some (f, a) => {| k_fresh := f; k_alias := a |}
  | None => {| k_fresh := true; k_alias := true |}
  end.
(* the store model: buffer 0 = x, buffer 1 = a NaN-filled out; out-of-place call, then the same
   call again, then the in-place call, then out-of-place once more -- as the harness does *)
Definition mem_ok (kon : nat -> lcontract) (o : oexpr T) (r : sp) (p : point) : bool :=
  let st0 := store0 (p_x p) (dim r) in
  let '(st1, r1) := oop kon o st0 0 in
  let '(st2, r2) := oop kon o st1 0 in
  let st3 := match p_ip p with Some _ => ip kon o st2 0 1 | None => st2 end in
  let '(st4, r4) := oop kon o st3 0 in
  let val := fun st i => match unp (sget st i) with Some y => vcl (p_out p) y | None => false end in
  val st1 r1 && val st2 r2 && val st4 r4
  && match p_ip p, unp (sget st3 1) with
     | Some y, Some y' => vcl y y'
     | Some _, None => false
     | None, _ => true
     end
  && match unp (sget st4 0) with Some x' => vcl (p_x p) x' && vcl x' (p_x p) | None => false end
  && match r with SV _ => Bool.eqb (Nat.eqb r1 0) (p_alias p) | SF => true end
  (* out aliased to x: whenever the contract computed from the leaves' flags ([oalias]) says the
     object tolerates it, the real object must produce the value (ProofsMem.ip_sound with x = out) *)
  && match p_xx p with
     | Some y => if oalias kon o
                 then match unp (sget (ip kon o st0 0 0) 0) with Some y' => vcl y y' | None => false end
                 else true
     | None => true
     end.

Definition check (k : case) : bool :=
  let s := c_expr k in let vt := c_vt k in
  (* the interpretation of the regenerated overload trees builds the same object *)
  match build_tab vt s, c_build k with
  | Ok o', BOk sk _ _ _ _ => skel_ok o' sk
  | Err TypeErr, BTypeErr | Err ZeroDivErr, BZeroDiv => true
  | _, _ => false
  end &&
  match build vt s, c_build k with
  | Ok o, BOk sk d r lin fn =>
      skel_ok o sk && sp_eqb (odom o) d && sp_eqb (oran o) r
      && Bool.eqb (olin vt o) lin && Bool.eqb (ofunc o) fn
      && sp_eqb (sdom s) d && sp_eqb (sran s) r
      && forallb (fun p =>
           vcl (p_out p) (eval o (p_x p))
           && vcl (p_out p) (denote s (p_x p))
           && match p_ip p with
              | Some y => vcl y (eval_ip o (p_x p))
                          (* the call into a NaN-filled `out`, on the poisoned-buffer model *)
                          && match unp (ipp o (pure (p_x p)) (poison (dim r))) with
                             | Some y' => vcl y y'
                             | None => false
                             end
              | None => true
              end
           && mem_ok (kon_of (c_kon k)) o r p)
         (c_points k)
  | Err TypeErr, BTypeErr => true
  | Err ZeroDivErr, BZeroDiv => true
  | _, _ => false
  end.

(* the three partial verdicts, used by the harness to say WHAT differs *)
Definition check_struct (k : case) : bool :=
  match build (c_vt k) (c_expr k), c_build k with
  | Ok o, BOk sk d r lin fn => skel_ok o sk && sp_eqb (odom o) d && sp_eqb (oran o) r
                               && Bool.eqb (olin (c_vt k) o) lin && Bool.eqb (ofunc o) fn
  | Err TypeErr, BTypeErr | Err ZeroDivErr, BZeroDiv => true
  | _, _ => false
  end.
End Corr.

Arguments skel T : clear implicits.
Arguments impl_build T : clear implicits.
Arguments point T : clear implicits.
Arguments case T : clear implicits.

(* ---- real spaces: carrier Q ---- *)
Definition tol : Q := 1 # 1000000000000.
Definition qcl (impl model : Q) : bool := Qclose tol tol impl model.
(* the variant MEASURED on the running code must be the one READ from the regenerated table *)
Definition vt_consistent (vt : variant) : bool :=
  Bool.eqb (v_frvec_lin vt) frvec_lin_of_table
  && v_frvec_lin vt && v_vecsum_field vt         (* the running code must be the live (repaired) variant *).
Definition check_real (k : case Q) : bool := check qcl k && vt_consistent (c_vt k).
Definition qMat := @LMat Q _.
Definition qAff := @LAff Q _.
Definition qSq := @LSq Q _.
Definition qCube := @LCube Q _.
Definition qNSt := @LNSt Q _.
Definition qAbs := @LAbs Q _.
Definition qIP := @LIP Q _.
Definition qFLin := @FLin Q _.
Definition qFQuad := @FQuad Q _.
Definition qFL1 := @FL1 Q _.
Definition qNQuad := @NQuad Q _.

(* ---- complex spaces: carrier Q*Q (Gaussian rationals) ---- *)
Definition ccl (impl model : QC) : bool :=
  Qclose tol tol (fst impl) (fst model) && Qclose tol tol (snd impl) (snd model).
Definition check_cplx (k : case QC) : bool := check ccl k && vt_consistent (c_vt k).
Definition cMat := @LMat QC _.
Definition cAff := @LAff QC _.
Definition cSq := @LSq QC _.
Definition cCube := @LCube QC _.
Definition cNSt := @LNSt QC _.
Definition cIP := @LIP QC _.
Definition cFLin := @FLin QC _.
Definition cFQuad := @FQuad QC _.
Definition cNQuad := @NQuad QC _.
