(* C04/Model.v -- executable model of ODL operator arithmetic (definitions only).

   Mirrors, for the code in /repo:
     odl/operator/operator.py   Operator.__add__/__radd__/__sub__/__rsub__/__mul__/__matmul__/
                                __rmul__/__pow__/__truediv__/__neg__, the __init__ checks and
                                _call bodies of OperatorSum, OperatorVectorSum, OperatorComp,
                                OperatorPointwiseProduct, OperatorLeft/RightScalarMult (incl. the
                                scalar merging in __init__ and OperatorRightScalarMult.__mul__),
                                FunctionalLeftVectorMult, OperatorLeft/RightVectorMult
     odl/solvers/functional/functional.py
                                Functional.__mul__/__rmul__/__add__/__radd__/__sub__, and the
                                __init__ of FunctionalLeft/RightScalarMult, FunctionalComp,
                                FunctionalRightVectorMult, FunctionalSum, FunctionalScalarSum,
                                ConstantFunctional / ZeroFunctional (linear flag).

   [sexpr]  = what the user writes          [denote] = the documented table, recursively
   [oexpr]  = the object Python builds      [build]  = the overloads      [eval] = its _call

   Universe: one scalar field (carrier T); spaces are F^n ([SV n]) and the field itself
   ([SF], range of functionals); every leaf has a domain [SV n].  Polymorphic over [Num T]:
   executed at Q (and Q*Q) by the correspondence, proved over an abstract commutative ring. *)
From Coq Require Import ZArith List Bool.
From Verif Require Import Base.Num Base.Vec.
Import ListNotations.
Local Open Scope num_scope.

Inductive sp := SV (n : nat) | SF.
Definition sp_eqb (a b : sp) : bool :=
  match a, b with SV n, SV m => Nat.eqb n m | SF, SF => true | _, _ => false end.
Definition dim (s : sp) : nat := match s with SV n => n | SF => 1%nat end.

Inductive err := TypeErr | ZeroDivErr.
Inductive res (A : Type) := Ok (a : A) | Err (e : err).
Arguments Ok {A} a.
Arguments Err {A} e.
Definition bind {A B} (r : res A) (f : A -> res B) : res B :=
  match r with Ok a => f a | Err e => Err e end.

(* Python classes of the expression objects; needed for the "reflected method of a proper
   subclass goes first" rule of binary operators. *)
Inductive cls := CLeaf | CConst | CZero | CSum | CFSum | CFScalSum | CVecSum | CComp | CFComp
               | CLScal | CFLScal | CRScal | CFRScal | CLVec | CRVec | CFRVec | CFLVec | CPtw.

(* How a class computes is_linear / domain from its operands: the vocabulary of the tables
   regenerated from the classes' __init__ by translate/op_tables.py (Gen/OpTables.v). *)
Inductive linrule := LAnd | LFirst | LSecond | LFalse | LTrue | LConstZero | LAndConst.
Inductive domrule := DFirst | DSecond | DOwn.

(* [subclass_radd b a]: type(b) is a proper subclass of type(a) AND type(b).__radd__ is a
   different function (Functional.__add__) than type(a).__radd__ (Operator.__radd__). *)
Definition subclass_radd (b a : cls) : bool :=
  match b, a with
  | CFSum, CSum | CFScalSum, CSum | CFComp, CComp | CFLScal, CLScal
  | CFRScal, CRScal | CFRVec, CRVec => true
  | _, _ => false
  end.

(* Variant switches (DESIGN 2.5) for two findings that were repaired in /repo (7ebf769,
   c9dadbb).  [variant_live] is what /repo does now and is THE model: the correspondence
   requires the running code to exhibit it (Corr.vt_is_live), the property theorems of
   Props.v are stated at it.  [variant_old] is kept only so that the old defects stay
   expressible (refutations in C04/Refuted.v); the lemmas are proved for every variant. *)
Record variant := {
  v_frvec_lin : bool;     (* FunctionalRightVectorMult keeps is_linear of its operand *)
  v_vecsum_field : bool   (* OperatorVectorSum accepts an operator whose range is the field *)
}.
Definition variant_old : variant := {| v_frvec_lin := false; v_vecsum_field := false |}.
Definition variant_live : variant := {| v_frvec_lin := true; v_vecsum_field := true |}.

Section Model.
Context {T : Type} `{Num T}.
Variable vt : variant.
Notation vec := (list T).

(* A leaf: any Operator/Functional object that is not one of the expression classes.
   [l_func] = isinstance(leaf, Functional); [l_lin] = leaf.is_linear. *)
Record leaf := { l_id : nat; l_dom : sp; l_ran : sp; l_lin : bool; l_func : bool;
                 l_fun : vec -> vec }.

Definition in_sp (v : vec) (s : sp) : bool :=            (* `v in space` *)
  match s with SV n => Nat.eqb (length v) n | SF => false end.
Definition scalar_of (l : vec) : T := hd nzero l.         (* the float a functional returns *)
Definition vzero (n : nat) : vec := repeat nzero n.
Definition vone (n : nat) : vec := repeat none_ n.
Definition neg1 : T := - none_.

(* ------------------------------------------------------------------ objects *)
Inductive oexpr :=
| OLeaf (l : leaf)
| OConst (d : sp) (c : T)                 (* ConstantFunctional(space, c) *)
| OZero (d : sp)                          (* ZeroFunctional(space) *)
| OSum (fn : bool) (a b : oexpr)          (* OperatorSum / FunctionalSum *)
| OScalSum (a : oexpr) (c : T)            (* FunctionalScalarSum(f, c) = FunctionalSum(f, Constant c) *)
| OVecSum (a : oexpr) (v : vec)           (* OperatorVectorSum *)
| OComp (fn : bool) (a b : oexpr)         (* OperatorComp / FunctionalComp *)
| OLScal (fn : bool) (a : oexpr) (c : T)  (* OperatorLeftScalarMult / FunctionalLeftScalarMult *)
| ORScal (fn : bool) (a : oexpr) (c : T)  (* OperatorRightScalarMult / FunctionalRightScalarMult *)
| OLVec (a : oexpr) (v : vec)             (* OperatorLeftVectorMult *)
| ORVec (fn : bool) (a : oexpr) (v : vec) (* OperatorRightVectorMult / FunctionalRightVectorMult *)
| OFLVec (a : oexpr) (v : vec)            (* FunctionalLeftVectorMult *)
| OPtw (a b : oexpr).                     (* OperatorPointwiseProduct *)

Fixpoint odom (o : oexpr) : sp :=
  match o with
  | OLeaf l => l_dom l
  | OConst d _ | OZero d => d
  | OSum _ a _ | OScalSum a _ | OVecSum a _ | OLScal _ a _ | ORScal _ a _
  | OLVec a _ | ORVec _ a _ | OFLVec a _ | OPtw a _ => odom a
  | OComp _ _ b => odom b
  end.

Fixpoint oran (o : oexpr) : sp :=
  match o with
  | OLeaf l => l_ran l
  | OConst _ _ | OZero _ | OScalSum _ _ => SF
  | OSum _ a _ | OVecSum a _ | OLScal _ a _ | ORScal _ a _
  | OLVec a _ | ORVec _ a _ | OPtw a _ | OComp _ a _ => oran a
  | OFLVec _ v => SV (length v)
  end.

(* isinstance(o, Functional) *)
Definition ofunc (o : oexpr) : bool :=
  match o with
  | OLeaf l => l_func l
  | OConst _ _ | OZero _ | OScalSum _ _ => true
  | OSum fn _ _ | OComp fn _ _ | OLScal fn _ _ | ORScal fn _ _ | ORVec fn _ _ => fn
  | OVecSum _ _ | OLVec _ _ | OFLVec _ _ | OPtw _ _ => false
  end.

Definition ocls (o : oexpr) : cls :=
  match o with
  | OLeaf _ => CLeaf | OConst _ _ => CConst | OZero _ => CZero
  | OSum fn _ _ => if fn then CFSum else CSum
  | OScalSum _ _ => CFScalSum | OVecSum _ _ => CVecSum
  | OComp fn _ _ => if fn then CFComp else CComp
  | OLScal fn _ _ => if fn then CFLScal else CLScal
  | ORScal fn _ _ => if fn then CFRScal else CRScal
  | OLVec _ _ => CLVec
  | ORVec fn _ _ => if fn then CFRVec else CRVec
  | OFLVec _ _ => CFLVec | OPtw _ _ => CPtw
  end.

(* o.is_linear, as passed to Operator.__init__ / Functional.__init__ by each class *)
Fixpoint olin (o : oexpr) : bool :=
  match o with
  | OLeaf l => l_lin l
  | OConst _ c => c =? nzero                      (* linear=(constant == 0) *)
  | OZero _ => true
  | OSum _ a b | OComp _ a b => olin a && olin b
  | OScalSum a c => olin a && (c =? nzero)        (* FunctionalSum(f, ConstantFunctional c) *)
  | OVecSum _ _ => false                          (* linear not passed *)
  | OLScal _ a _ | ORScal _ a _ | OLVec a _ | OFLVec a _ => olin a
  | ORVec fn a _ => if fn then v_frvec_lin vt && olin a else olin a
      (* FunctionalRightVectorMult: Functional.__init__(self, space) resets the flag (variant false) *)
  | OPtw _ _ => false
  end.

(* out-of-place _call *)
Fixpoint eval (o : oexpr) (x : vec) : vec :=
  match o with
  | OLeaf l => l_fun l x
  | OConst _ c => [c]
  | OZero _ => [nzero]
  | OSum _ a b => vadd (eval a x) (eval b x)
  | OScalSum a c => vadd (eval a x) [c]
  | OVecSum a v => vadd (eval a x) v
  | OComp _ a b => eval a (eval b x)
  | OLScal _ a c => vscal c (eval a x)
  | ORScal _ a c => eval a (vscal c x)
  | OLVec a v => vmul (eval a x) v
  | ORVec _ a v => eval a (vmul x v)
  | OFLVec a v => vscal (scalar_of (eval a x)) v
  | OPtw a b => vmul (eval a x) (eval b x)
  end.

(* in-place _call (value finally held by `out`); temporaries as in the source.
   Functionals cannot be called in place; they only occur below OFLVec, which calls them
   out of place. *)
Fixpoint eval_ip (o : oexpr) (x : vec) : vec :=
  match o with
  | OLeaf l => l_fun l x
  | OSum _ a b => let tmp := eval_ip a x in let out := eval_ip b x in vadd out tmp
  | OVecSum a v => vadd (eval_ip a x) v
  | OComp _ a b => let tmp := eval_ip b x in eval_ip a tmp
  | OLScal _ a c => vscal c (eval_ip a x)                   (* out *= scalar *)
  | ORScal _ a c => let tmp := vscal c x in eval_ip a tmp   (* tmp.lincomb(scalar, x) *)
  | OLVec a v => vmul (eval_ip a x) v                       (* out *= vector *)
  | ORVec _ a v => let tmp := vmul x v in eval_ip a tmp     (* x.multiply(vector, out=tmp) *)
  | OFLVec a v => vscal (scalar_of (eval a x)) v            (* out.lincomb(functional(x), vector) *)
  | OPtw a b => let tmp := eval_ip a x in let out := eval_ip b x in vmul out tmp
  | OConst _ _ | OZero _ | OScalSum _ _ => eval o x
  end.

(* -------------------------------------------------- constructors (__init__) *)
Definition mkSum (fn : bool) (a b : oexpr) : res oexpr :=
  if negb (sp_eqb (oran a) (oran b)) then Err TypeErr
  else if negb (sp_eqb (odom a) (odom b)) then Err TypeErr
  else Ok (OSum fn a b).
Definition mkFSum (a b : oexpr) : res oexpr :=
  if negb (ofunc a) || negb (ofunc b) then Err TypeErr else mkSum true a b.
Definition mkVecSum (a : oexpr) (v : vec) : res oexpr :=
  match oran a with SV _ => Ok (OVecSum a v) | SF => Err TypeErr end.
Definition mkComp (fn : bool) (a b : oexpr) : res oexpr :=
  if sp_eqb (oran b) (odom a) then Ok (OComp fn a b) else Err TypeErr.
Definition mkFComp (a b : oexpr) : res oexpr :=
  if ofunc a then mkComp true a b else Err TypeErr.
Definition mkPtw (a b : oexpr) : res oexpr :=
  if negb (sp_eqb (oran a) (oran b)) then Err TypeErr
  else if negb (sp_eqb (odom a) (odom b)) then Err TypeErr
  else Ok (OPtw a b).
(* scalar merging of OperatorLeftScalarMult.__init__ / OperatorRightScalarMult.__init__ *)
Definition mkLScal (fn : bool) (a : oexpr) (c : T) : res oexpr :=
  match a with
  | OLScal _ a' c' => Ok (OLScal fn a' (c * c'))
  | _ => Ok (OLScal fn a c)
  end.
Definition mkRScal (fn : bool) (a : oexpr) (c : T) : res oexpr :=
  match a with
  | ORScal _ a' c' => Ok (ORScal fn a' (c * c'))
  | _ => Ok (ORScal fn a c)
  end.
Definition mkFLScal (a : oexpr) (c : T) : res oexpr :=
  if ofunc a then mkLScal true a c else Err TypeErr.
Definition mkFRScal (a : oexpr) (c : T) : res oexpr :=
  if ofunc a then mkRScal true a c else Err TypeErr.

(* -------------------------------------------------------- overload dispatch *)
(* c * A : A.__rmul__(c)   (Functional.__rmul__ | Operator.__rmul__) *)
Definition rmul_c (a : oexpr) (c : T) : res oexpr :=
  if ofunc a then (if c =? nzero then Ok (OZero (odom a)) else mkFLScal a c)
  else mkLScal false a c.

(* A * c : A.__mul__(c)   (Functional.__mul__ | OperatorRightScalarMult.__mul__ | Operator.__mul__) *)
(* [rl]: isinstance(c, numbers.Real) -- the Python TYPE of the scalar literal *)
Definition mul_c (a : oexpr) (c : T) (rl : bool) : res oexpr :=
  if ofunc a then
    if c =? nzero then Ok (OConst (odom a) (scalar_of (eval a (vzero (dim (odom a))))))
    else if olin a then mkFLScal a c else mkFRScal a c
  else match a with
       | ORScal _ a' c' => mkRScal false a' (c' * c)
       | _ => if olin a && rl then rmul_c a c else mkRScal false a c
           (* the rewrite A*a -> a*A only for scalars of a REAL Python type (52720c8): is_linear promises
              no more than real-linearity *)
       end.

(* A * v *)
Definition mul_v (a : oexpr) (v : vec) : res oexpr :=
  if in_sp v (odom a) then Ok (ORVec (ofunc a) a v) else Err TypeErr.

(* v * A : A.__rmul__(v) *)
Definition rmul_v (a : oexpr) (v : vec) : res oexpr :=
  if in_sp v (oran a) then Ok (OLVec a v)
  else match oran a with SF => Ok (OFLVec a v) | SV _ => Err TypeErr end.

(* A * B  (also A @ B) *)
Definition mul_op (a b : oexpr) : res oexpr :=
  if ofunc a then mkFComp a b else mkComp false a b.

(* A + B *)
Definition add_op (a b : oexpr) : res oexpr :=
  if subclass_radd (ocls b) (ocls a) then mkSum false b a       (* b.__radd__(a) runs first *)
  else if ofunc a && ofunc b then mkFSum a b
  else mkSum false a b.

(* A + v,  v + A *)
Definition add_v (a : oexpr) (v : vec) : res oexpr :=
  if in_sp v (oran a) then mkVecSum a v else Err TypeErr.

(* A + c,  c + A *)
Definition add_c (a : oexpr) (c : T) : res oexpr :=
  if ofunc a then Ok (OScalSum a c)
  else match oran a with
       | SF => if v_vecsum_field vt then Ok (OVecSum a [c])   (* vector = range.element(other) *)
               else Err TypeErr                     (* OperatorVectorSum rejects a field range *)
       | SV n => Ok (OVecSum a (vscal c (vone n)))  (* other * self.range.one() *)
       end.

(* A ** n : left-nested OperatorComp(self, op) *)
Fixpoint pow_loop (k : nat) (self op : oexpr) : res oexpr :=
  match k with
  | O => Ok op
  | S k' => bind (mkComp false self op) (pow_loop k' self)
  end.
Definition pow_op (a : oexpr) (n : Z) : res oexpr :=
  if (n <=? 0)%Z then Err TypeErr else pow_loop (Z.to_nat n - 1) a a.

(* --------------------------------------------------------------- source *)
Inductive sexpr :=
| SLeaf (l : leaf)
| SConst (d : sp) (c : T)          (* a ConstantFunctional object used as a leaf *)
| SZero (d : sp)                   (* a ZeroFunctional object used as a leaf *)
| SAdd (a b : sexpr)               (* A + B *)
| SSub (a b : sexpr)               (* A - B *)
| SMul (a b : sexpr)               (* A * B,  A @ B *)
| SNeg (a : sexpr)                 (* -A *)
| SPow (a : sexpr) (n : Z)         (* A ** n *)
| SAddV (a : sexpr) (v : vec)      (* A + v *)
| SVAdd (v : vec) (a : sexpr)      (* v + A *)
| SSubV (a : sexpr) (v : vec)      (* A - v *)
| SVSub (v : vec) (a : sexpr)      (* v - A *)
| SMulV (a : sexpr) (v : vec)      (* A * v *)
| SVMul (v : vec) (a : sexpr)      (* v * A *)
| SAddC (a : sexpr) (c : T)        (* A + c *)
| SCAdd (c : T) (a : sexpr)        (* c + A *)
| SSubC (a : sexpr) (c : T)        (* A - c *)
| SCSub (c : T) (a : sexpr)        (* c - A *)
| SMulC (a : sexpr) (c : T) (rl : bool)   (* A * c;  rl = isinstance(c, Real) *)
| SCMul (c : T) (a : sexpr)        (* c * A *)
| SDivC (a : sexpr) (c : T) (rl : bool)   (* A / c *)
| SPtw (a b : sexpr).              (* OperatorPointwiseProduct(A, B), the class called directly *)

Fixpoint build (s : sexpr) : res oexpr :=
  match s with
  | SLeaf l => Ok (OLeaf l)
  | SConst d c => Ok (OConst d c)
  | SZero d => Ok (OZero d)
  | SAdd a b => bind (build a) (fun oa => bind (build b) (fun ob => add_op oa ob))
  | SSub a b =>                                        (* self + (-1) * other *)
      bind (build a) (fun oa => bind (build b) (fun ob =>
      bind (rmul_c ob neg1) (fun nb => add_op oa nb)))
  | SMul a b => bind (build a) (fun oa => bind (build b) (fun ob => mul_op oa ob))
  | SNeg a => bind (build a) (fun oa => rmul_c oa neg1)      (* -1 * self *)
  | SPow a n => bind (build a) (fun oa => pow_op oa n)
  | SAddV a v | SVAdd v a => bind (build a) (fun oa => add_v oa v)
  | SSubV a v => bind (build a) (fun oa => add_v oa (vscal neg1 v))
  | SVSub v a => bind (build a) (fun oa => bind (rmul_c oa neg1) (fun na => add_v na v))
  | SMulV a v => bind (build a) (fun oa => mul_v oa v)
  | SVMul v a => bind (build a) (fun oa => rmul_v oa v)
  | SAddC a c | SCAdd c a => bind (build a) (fun oa => add_c oa c)
  | SSubC a c => bind (build a) (fun oa => add_c oa (neg1 * c))
  | SCSub c a => bind (build a) (fun oa => bind (rmul_c oa neg1) (fun na => add_c na c))
  | SMulC a c rl => bind (build a) (fun oa => mul_c oa c rl)
  | SCMul c a => bind (build a) (fun oa => rmul_c oa c)
  | SDivC a c rl => bind (build a) (fun oa =>
      if c =? nzero then Err ZeroDivErr else mul_c oa (none_ / c) rl)   (* self * (1.0 / other) *)
  | SPtw a b => bind (build a) (fun oa => bind (build b) (fun ob => mkPtw oa ob))
  end.

(* ------------------------------------------------- the documented table *)
(* range of an expression, as implied by the expression (needed to read `v * A`) *)
Fixpoint sran (s : sexpr) : sp :=
  match s with
  | SLeaf l => l_ran l
  | SConst _ _ | SZero _ => SF
  | SAdd a _ | SSub a _ | SMul a _ | SNeg a | SPow a _ | SAddV a _ | SVAdd _ a | SSubV a _
  | SVSub _ a | SMulV a _ | SAddC a _ | SCAdd _ a | SSubC a _ | SCSub _ a | SMulC a _ _
  | SCMul _ a | SDivC a _ _ | SPtw a _ => sran a
  | SVMul v a => match sran a with SF => SV (length v) | r => r end
  end.

Fixpoint iter_fun (n : nat) (f : vec -> vec) (x : vec) : vec :=
  match n with O => x | S n' => f (iter_fun n' f x) end.

Fixpoint denote (s : sexpr) (x : vec) : vec :=
  match s with
  | SLeaf l => l_fun l x
  | SConst _ c => [c]
  | SZero _ => [nzero]
  | SAdd a b => vadd (denote a x) (denote b x)                  (* (A+B)(x) = A(x)+B(x) *)
  | SSub a b => vsub (denote a x) (denote b x)
  | SMul a b => denote a (denote b x)                            (* (A*B)(x) = A(B(x)) *)
  | SNeg a => vopp (denote a x)
  | SPow a n => iter_fun (Z.to_nat n) (denote a) x               (* iterated composition *)
  | SAddV a v | SVAdd v a => vadd (denote a x) v                 (* (A+v)(x) = A(x)+v *)
  | SSubV a v => vsub (denote a x) v
  | SVSub v a => vsub v (denote a x)
  | SMulV a v => denote a (vmul v x)                             (* (A*v)(x) = A(v*x) *)
  | SVMul v a => match sran a with
                 | SF => vscal (scalar_of (denote a x)) v        (* (v*f)(x) = v*f(x), f scalar valued *)
                 | SV _ => vmul v (denote a x)                   (* (v*A)(x) = v*A(x) *)
                 end
  | SAddC a c | SCAdd c a => map (fun u => u + c) (denote a x)   (* A(x) + c*one *)
  | SSubC a c => map (fun u => u - c) (denote a x)
  | SCSub c a => map (fun u => c - u) (denote a x)
  | SMulC a c _ => denote a (vscal c x)                            (* (A*a)(x) = A(a*x) *)
  | SCMul c a => vscal c (denote a x)                            (* (a*A)(x) = a*A(x) *)
  | SDivC a c _ => denote a (map (fun u => u / c) x)               (* (A/a)(x) = A(x/a) *)
  | SPtw a b => vmul (denote a x) (denote b x)
  end.

(* linearity implied by the expression (the documented rule of each expression class) *)
Fixpoint slin (s : sexpr) : bool :=
  match s with
  | SLeaf l => l_lin l
  | SConst _ c => c =? nzero
  | SZero _ => true
  | SAdd a b | SSub a b | SMul a b => slin a && slin b
  | SNeg a | SPow a _ | SMulV a _ | SVMul _ a | SMulC a _ _ | SCMul _ a | SDivC a _ _ => slin a
  | SAddV _ _ | SVAdd _ _ | SSubV _ _ | SVSub _ _ | SAddC _ _ | SCAdd _ _ | SSubC _ _
  | SCSub _ _ | SPtw _ _ => false
  end.

(* domain implied by the expression *)
Fixpoint sdom (s : sexpr) : sp :=
  match s with
  | SLeaf l => l_dom l
  | SConst d _ | SZero d => d
  | SMul _ b => sdom b
  | SAdd a _ | SSub a _ | SNeg a | SPow a _ | SAddV a _ | SVAdd _ a | SSubV a _
  | SVSub _ a | SMulV a _ | SVMul _ a | SAddC a _ | SCAdd _ a | SSubC a _ | SCSub _ a | SMulC a _ _
  | SCMul _ a | SDivC a _ _ | SPtw a _ => sdom a
  end.

(* ---- well-typedness by the DOCUMENTED rules (docstrings of the overloads), and whether the
   result is a Functional instance ---- *)
Fixpoint sfunc (s : sexpr) : bool :=
  match s with
  | SLeaf l => l_func l
  | SConst _ _ | SZero _ => true
  | SAdd a b | SSub a b => sfunc a && sfunc b
  | SPow a n => sfunc a && (n =? 1)%Z
  | SMul a _ | SNeg a | SMulV a _ | SAddC a _ | SCAdd _ a | SSubC a _ | SCSub _ a
  | SMulC a _ _ | SCMul _ a | SDivC a _ _ => sfunc a
  | SAddV _ _ | SVAdd _ _ | SSubV _ _ | SVSub _ _ | SVMul _ _ | SPtw _ _ => false
  end.

Fixpoint wt (s : sexpr) : bool :=
  match s with
  | SLeaf _ | SConst _ _ | SZero _ => true
  | SAdd a b | SSub a b | SPtw a b =>
      wt a && wt b && sp_eqb (sran a) (sran b) && sp_eqb (sdom a) (sdom b)
  | SMul a b => wt a && wt b && sp_eqb (sran b) (sdom a)          (* right.range == left.domain *)
  | SNeg a | SAddC a _ | SCAdd _ a | SSubC a _ | SCSub _ a | SMulC a _ _ | SCMul _ a => wt a
  | SPow a n => wt a && (0 <? n)%Z && ((n =? 1)%Z || sp_eqb (sran a) (sdom a))
  | SAddV a v | SVAdd v a | SSubV a v | SVSub v a => wt a && in_sp v (sran a)   (* v in A.range *)
  | SMulV a v => wt a && in_sp v (sdom a)                                       (* v in A.domain *)
  | SVMul v a => wt a && (in_sp v (sran a) || sp_eqb (sran a) SF)
  | SDivC a c _ => wt a && negb (c =? nzero)
  end.

(* scalar additions whose operand is a field-valued operator that is NOT a Functional
   (rejected by the current OperatorVectorSum: recorded finding) do not occur in s *)
Fixpoint scalar_add_ok (s : sexpr) : Prop :=
  match s with
  | SLeaf _ | SConst _ _ | SZero _ => True
  | SAdd a b | SSub a b | SMul a b | SPtw a b => scalar_add_ok a /\ scalar_add_ok b
  | SAddC a _ | SCAdd _ a | SSubC a _ | SCSub _ a =>
      (v_vecsum_field vt = true \/ sfunc a = true \/ sran a <> SF) /\ scalar_add_ok a
  | SNeg a | SPow a _ | SAddV a _ | SVAdd _ a | SSubV a _ | SVSub _ a | SMulV a _ | SVMul _ a
  | SMulC a _ _ | SCMul _ a | SDivC a _ _ => scalar_add_ok a
  end.

(* ------------------------------------------------- concrete leaves (the pool) *)
Definition LMat (id : nat) (nc : nat) (m : list vec) : leaf :=            (* MatrixOperator etc. *)
  {| l_id := id; l_dom := SV nc; l_ran := SV (length m); l_lin := true; l_func := false;
     l_fun := mvec m |}.
Definition LAff (id : nat) (nc : nat) (m : list vec) (b : vec) : leaf :=  (* x |-> M x + b, flagged nonlinear *)
  {| l_id := id; l_dom := SV nc; l_ran := SV (length m); l_lin := false; l_func := false;
     l_fun := fun x => vadd (mvec m x) b |}.
Definition LSq (id : nat) (n : nat) (b : vec) : leaf :=                   (* x |-> x*x + b *)
  {| l_id := id; l_dom := SV n; l_ran := SV n; l_lin := false; l_func := false;
     l_fun := fun x => vadd (vmul x x) b |}.
Definition LCube (id : nat) (n : nat) : leaf :=                           (* PowerOperator(space, 3) *)
  {| l_id := id; l_dom := SV n; l_ran := SV n; l_lin := false; l_func := false;
     l_fun := fun x => vmul x (vmul x x) |}.
Definition LNSt (id : nat) (n : nat) (b : vec) : leaf :=                  (* x_i |-> x_i * x_{i-1} + b_i, x_{-1} = 0 *)
  {| l_id := id; l_dom := SV n; l_ran := SV n; l_lin := false; l_func := false;
     l_fun := fun x => vadd (vmul x (nzero :: x)) b |}.
Definition LAbs (id : nat) (n : nat) : leaf :=                            (* x |-> |x|  (real only) *)
  {| l_id := id; l_dom := SV n; l_ran := SV n; l_lin := false; l_func := false;
     l_fun := map nabs |}.
Definition LIP (id : nat) (w : vec) : leaf :=          (* InnerProductOperator-like: linear, NOT a Functional *)
  {| l_id := id; l_dom := SV (length w); l_ran := SF; l_lin := true; l_func := false;
     l_fun := fun x => [dot w x] |}.
Definition FLin (id : nat) (w : vec) : leaf :=         (* linear Functional x |-> sum w_i x_i *)
  {| l_id := id; l_dom := SV (length w); l_ran := SF; l_lin := true; l_func := true;
     l_fun := fun x => [dot w x] |}.
Definition FQuad (id : nat) (w b : vec) (c : T) : leaf :=  (* Functional x |-> sum w_i (x_i - b_i)^2 + c *)
  {| l_id := id; l_dom := SV (length w); l_ran := SF; l_lin := false; l_func := true;
     l_fun := fun x => [dot w (vmul (vsub x b) (vsub x b)) + c] |}.
Definition FL1 (id : nat) (n : nat) : leaf :=          (* L1Norm  (real only) *)
  {| l_id := id; l_dom := SV n; l_ran := SF; l_lin := false; l_func := true;
     l_fun := fun x => [sum1 x] |}.
Definition NQuad (id : nat) (w : vec) (c : T) : leaf := (* nonlinear, field range, NOT a Functional *)
  {| l_id := id; l_dom := SV (length w); l_ran := SF; l_lin := false; l_func := false;
     l_fun := fun x => [dot w (vmul x x) + c] |}.

End Model.

Arguments leaf T : clear implicits.
Arguments oexpr T : clear implicits.
Arguments sexpr T : clear implicits.
