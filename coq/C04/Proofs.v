(* C04/Proofs.v -- lemmas about C04/Model.v (filled in below). *)
From Coq Require Import ZArith List Bool.
From Verif Require Import Base.Num Base.Vec C04.Model.
