(* C04/Proofs.v -- lemmas about C04/Model.v over an abstract commutative ring.
   Section hypotheses (ring laws, x/c = (1/c)*x, soundness of the zero test) become explicit
   premises of every exported lemma; C04/Instances.v discharges them at R and at C = R*R. *)
From Coq Require Import ZArith List Bool Ring Lia.
From Verif Require Import Base.Num Base.Vec C04.Model C04.VecRing.
Import ListNotations.
Local Open Scope num_scope.

Section Sound.
Context {T : Type} {N : Num T}.
Hypothesis Rth : ring_theory nzero none_ nadd nmul nsub nopp (@eq T).
Hypothesis Hdiv : forall u c : T, u / c = (none_ / c) * u.
Hypothesis Heqb : forall a b : T, (a =? b) = true -> a = b.
Hypothesis Heqb_refl : forall a : T, (a =? a) = true.
Add Ring Tring2 : Rth.
Variable vt : variant.
Notation olin := (olin vt).
Notation mul_c := (mul_c vt).
Notation add_c := (add_c vt).
Notation build := (build vt).
Notation scalar_add_ok := (scalar_add_ok vt).
Notation vec := (list T).
Notation oexpr := (oexpr T).
Notation sexpr := (sexpr T).
Notation leaf := (leaf T).

Definition homog (f : vec -> vec) (n : nat) : Prop :=
  forall c x, length x = n -> f (vscal c x) = vscal c (f x).
Definition additive (f : vec -> vec) (n : nat) : Prop :=
  forall x y, length x = n -> length y = n -> f (vadd x y) = vadd (f x) (f y).

(* What is assumed of a leaf: its domain is a vector space F^n, it maps F^n into its declared
   range, a Functional has the field as range, and a leaf FLAGGED linear IS linear:
   homogeneous (the premise that licenses the `A * a -> a * A` rewrite; the value theorems
   use nothing else) and additive (used only by the flag-soundness theorem). *)
Record leaf_ok (l : leaf) : Prop := {
  lk_dom : exists n, l_dom l = SV n;
  lk_len : forall x, length x = dim (l_dom l) -> length (l_fun l x) = dim (l_ran l);
  lk_func : l_func l = true -> l_ran l = SF;
  lk_hom : l_lin l = true -> homog (l_fun l) (dim (l_dom l));
  lk_add : l_lin l = true -> additive (l_fun l) (dim (l_dom l)) }.

Fixpoint wf (o : oexpr) : Prop :=
  match o with
  | OLeaf l => leaf_ok l
  | OConst d _ | OZero d => exists n, d = SV n
  | OSum fn a b => wf a /\ wf b /\ oran a = oran b /\ odom a = odom b /\ (fn = true -> ofunc a = true)
  | OScalSum a _ => wf a /\ ofunc a = true
  | OVecSum a v => wf a /\ dim (oran a) = length v
  | OComp fn a b => wf a /\ wf b /\ oran b = odom a /\ (fn = true -> ofunc a = true)
  | OLScal fn a _ | ORScal fn a _ => wf a /\ (fn = true -> ofunc a = true)
  | OLVec a v => wf a /\ oran a = SV (length v)
  | ORVec fn a v => wf a /\ odom a = SV (length v) /\ fn = ofunc a
  | OFLVec a v => wf a /\ oran a = SF
  | OPtw a b => wf a /\ wf b /\ oran a = oran b /\ odom a = odom b
  end.

Lemma sp_eqb_eq a b : sp_eqb a b = true <-> a = b.
Proof.
  destruct a as [n|], b as [m|]; cbn; split; intros E; try discriminate; try reflexivity.
  - apply Nat.eqb_eq in E; congruence.
  - inversion E; apply Nat.eqb_refl.
Qed.
Lemma in_sp_eq (v : vec) s : in_sp v s = true <-> s = SV (length v).
Proof.
  destruct s as [n|]; cbn; split; intros E; try discriminate.
  - apply Nat.eqb_eq in E; congruence.
  - inversion E; apply Nat.eqb_refl.
Qed.

Lemma func_ran o : wf o -> ofunc o = true -> oran o = SF.
Proof.
  induction o as [l|d c|d|fn a IHa b IHb|a IHa c|a IHa v|fn a IHa b IHb|fn a IHa c|fn a IHa c
                 |a IHa v|fn a IHa v|a IHa v|a IHa b IHb]; cbn [wf ofunc oran]; intros W F;
    try reflexivity; try discriminate.
  - apply (lk_func _ W F).
  - destruct W as (Wa & _ & _ & _ & Hf). subst fn. auto.
  - destruct W as (Wa & _ & _ & Hf). subst fn. auto.
  - destruct W as (Wa & Hf). subst fn. auto.
  - destruct W as (Wa & Hf). subst fn. auto.
  - destruct W as (Wa & _ & Hf). subst fn. auto.
Qed.

Lemma dom_sv o : wf o -> exists n, odom o = SV n.
Proof.
  induction o as [l|d c|d|fn a IHa b IHb|a IHa c|a IHa v|fn a IHa b IHb|fn a IHa c|fn a IHa c
                 |a IHa v|fn a IHa v|a IHa v|a IHa b IHb]; cbn [wf odom]; intros W;
    try (apply IHa; tauto); try assumption.
  - apply (lk_dom _ W).
  - apply IHb; tauto.
Qed.

Lemma eval_length o : wf o -> forall x, length x = dim (odom o) -> length (eval o x) = dim (oran o).
Proof.
  induction o as [l|d c|d|fn a IHa b IHb|a IHa c|a IHa v|fn a IHa b IHb|fn a IHa c|fn a IHa c
                 |a IHa v|fn a IHa v|a IHa v|a IHa b IHb]; cbn [wf odom oran eval]; intros W x Hx;
    try reflexivity.
  - apply (lk_len _ W x Hx).
  - destruct W as (Wa & Wb & Er & Ed & _). unfold vadd; rewrite vmap2_length.
    rewrite (IHa Wa x Hx), (IHb Wb x) by congruence. rewrite <- Er. apply Nat.min_id.
  - destruct W as (Wa & Fa). unfold vadd; rewrite vmap2_length, (IHa Wa x Hx), (func_ran _ Wa Fa).
    reflexivity.
  - destruct W as (Wa & Er). unfold vadd; rewrite vmap2_length, (IHa Wa x Hx), Er. cbn [dim].
    apply Nat.min_id.
  - destruct W as (Wa & Wb & Er & _). apply IHa; auto. rewrite (IHb Wb x Hx). congruence.
  - destruct W as (Wa & _). rewrite vscal_length. auto.
  - destruct W as (Wa & _). apply IHa; auto. rewrite vscal_length. auto.
  - destruct W as (Wa & Er). unfold vmul; rewrite vmap2_length, (IHa Wa x Hx), Er. cbn [dim].
    apply Nat.min_id.
  - destruct W as (Wa & Ed & _). apply IHa; auto. unfold vmul; rewrite vmap2_length, Hx, Ed.
    cbn [dim]. apply Nat.min_id.
  - rewrite vscal_length. reflexivity.
  - destruct W as (Wa & Wb & Er & Ed). unfold vmul; rewrite vmap2_length.
    rewrite (IHa Wa x Hx), (IHb Wb x) by congruence. rewrite <- Er. apply Nat.min_id.
Qed.

Lemma eval_func_singleton o x : wf o -> ofunc o = true -> length x = dim (odom o) ->
  eval o x = [scalar_of (eval o x)].
Proof.
  intros W F Hx. apply length1. rewrite (eval_length _ W x Hx), (func_ran _ W F). reflexivity.
Qed.
Lemma eval_SF_singleton o x : wf o -> oran o = SF -> length x = dim (odom o) ->
  eval o x = [scalar_of (eval o x)].
Proof.
  intros W F Hx. apply length1. rewrite (eval_length _ W x Hx), F. reflexivity.
Qed.

(* ---- an object flagged linear is homogeneous (induction over all object trees) ---- *)
Lemma olin_hom o : wf o -> olin o = true -> homog (eval o) (dim (odom o)).
Proof.
  induction o as [l|d c|d|fn a IHa b IHb|a IHa c|a IHa v|fn a IHa b IHb|fn a IHa c|fn a IHa c
                 |a IHa v|fn a IHa v|a IHa v|a IHa b IHb]; cbn [wf odom Model.olin eval]; intros W L k x Hx;
    try discriminate.
  - apply (lk_hom _ W L k x Hx).
  - apply Heqb in L; subst c. cbn. f_equal. ring.
  - cbn. f_equal. ring.
  - destruct W as (Wa & Wb & Er & Ed & _). apply andb_true_iff in L as [La Lb].
    rewrite (IHa Wa La k x Hx), (IHb Wb Lb k x) by congruence. symmetry; apply (vscal_vadd Rth).
  - destruct W as (Wa & Fa). apply andb_true_iff in L as [La Lc]. apply Heqb in Lc; subst c.
    rewrite (IHa Wa La k x Hx), (vscal_vadd Rth). f_equal. cbn. f_equal. ring.
  - destruct W as (Wa & Wb & Er & _). apply andb_true_iff in L as [La Lb].
    rewrite (IHb Wb Lb k x Hx). apply (IHa Wa La). rewrite (eval_length _ Wb x Hx). congruence.
  - destruct W as (Wa & _). rewrite (IHa Wa L k x Hx). apply (vscal_comm Rth).
  - destruct W as (Wa & _). rewrite (vscal_comm Rth). apply (IHa Wa L). rewrite vscal_length; auto.
  - destruct W as (Wa & _). rewrite (IHa Wa L k x Hx). apply (vscal_vmul_l Rth).
  - assert (La : olin a = true) by (destruct fn; [apply andb_true_iff in L; tauto | exact L]).
    destruct W as (Wa & Ed & _).
    rewrite (vscal_vmul_l Rth). apply (IHa Wa La). unfold vmul; rewrite vmap2_length, Hx, Ed. cbn [dim].
    apply Nat.min_id.
  - destruct W as (Wa & Er). rewrite (IHa Wa L k x Hx).
    rewrite (eval_SF_singleton a x Wa Er Hx). cbn [vscal map scalar_of hd].
    rewrite <- (vscal_vscal Rth). reflexivity.
Qed.

(* ---- ... and additive ---- *)
Lemma vadd_len (x y : vec) n : length x = n -> length y = n -> length (vadd x y) = n.
Proof. intros Hx Hy. unfold vadd. rewrite vmap2_length, Hx, Hy. apply Nat.min_id. Qed.

Lemma olin_add o : wf o -> olin o = true -> additive (eval o) (dim (odom o)).
Proof.
  induction o as [l|d c|d|fn a IHa b IHb|a IHa c|a IHa v|fn a IHa b IHb|fn a IHa c|fn a IHa c
                 |a IHa v|fn a IHa v|a IHa v|a IHa b IHb]; cbn [wf odom Model.olin eval]; intros W L x y Hx Hy;
    try discriminate.
  - apply (lk_add _ W L x y Hx Hy).
  - apply Heqb in L; subst c. cbn. f_equal. ring.
  - cbn. f_equal. ring.
  - destruct W as (Wa & Wb & Er & Ed & _). apply andb_true_iff in L as [La Lb].
    rewrite (IHa Wa La x y Hx Hy), (IHb Wb Lb x y) by congruence. apply (vadd_interchange Rth).
  - destruct W as (Wa & Fa). apply andb_true_iff in L as [La Lc]. apply Heqb in Lc; subst c.
    rewrite (IHa Wa La x y Hx Hy).
    rewrite (eval_func_singleton a x Wa Fa Hx), (eval_func_singleton a y Wa Fa Hy). cbn. f_equal. ring.
  - destruct W as (Wa & Wb & Er & _). apply andb_true_iff in L as [La Lb].
    rewrite (IHb Wb Lb x y Hx Hy). apply (IHa Wa La); rewrite (eval_length _ Wb) by assumption; congruence.
  - destruct W as (Wa & _). rewrite (IHa Wa L x y Hx Hy). apply (vscal_vadd Rth).
  - destruct W as (Wa & _). rewrite (vscal_vadd Rth). apply (IHa Wa L); rewrite vscal_length; assumption.
  - destruct W as (Wa & _). rewrite (IHa Wa L x y Hx Hy). apply (vmul_vadd_l Rth).
  - assert (La : olin a = true) by (destruct fn; [apply andb_true_iff in L; tauto | exact L]).
    destruct W as (Wa & Ed & _).
    rewrite (vmul_vadd_l Rth).
    apply (IHa Wa La); unfold vmul; rewrite vmap2_length, ?Hx, ?Hy, Ed; cbn [dim]; apply Nat.min_id.
  - destruct W as (Wa & Er). rewrite (IHa Wa L x y Hx Hy).
    rewrite (eval_SF_singleton a x Wa Er Hx), (eval_SF_singleton a y Wa Er Hy).
    cbn [vadd vmap2 scalar_of hd]. apply (vscal_add_l Rth).
Qed.

(* ------------------------------------------------------------------ *)
(* [sem o d r f]: o is a well-formed object d -> r that evaluates to f *)
Definition sem (o : oexpr) (d r : sp) (f : vec -> vec) : Prop :=
  wf o /\ odom o = d /\ oran o = r /\ forall x, length x = dim d -> eval o x = f x.

Ltac sem_split := split; [|split; [|split]].

Lemma sem_ext o d r f g : sem o d r f -> (forall x, length x = dim d -> f x = g x) -> sem o d r g.
Proof. intros (W & D & R & E) H. sem_split; auto. intros x Hx. rewrite E; auto. Qed.

(* constructors *)
Lemma mkLScal_cases fn (a : oexpr) c o : mkLScal fn a c = Ok o ->
  (exists f' a' c', a = OLScal f' a' c' /\ o = OLScal fn a' (c * c')) \/ o = OLScal fn a c.
Proof.
  unfold mkLScal; destruct a; intros E; inversion E; try (right; reflexivity).
  left; do 3 eexists; split; reflexivity.
Qed.
Lemma mkRScal_cases fn (a : oexpr) c o : mkRScal fn a c = Ok o ->
  (exists f' a' c', a = ORScal f' a' c' /\ o = ORScal fn a' (c * c')) \/ o = ORScal fn a c.
Proof.
  unfold mkRScal; destruct a; intros E; inversion E; try (right; reflexivity).
  left; do 3 eexists; split; reflexivity.
Qed.

Lemma mkLScal_sem fn a c o : wf a -> (fn = true -> ofunc a = true) -> mkLScal fn a c = Ok o ->
  sem o (odom a) (oran a) (fun x => vscal c (eval a x)).
Proof.
  intros W F E. destruct (mkLScal_cases _ _ _ _ E) as [(f' & a' & c' & -> & ->)| ->].
  - cbn [wf ofunc] in *. destruct W as (Wa & Fa).
    split; [cbn [wf]; auto|]. split; [reflexivity|]. split; [reflexivity|].
    intros x _. cbn [eval]. symmetry; apply (vscal_vscal Rth).
  - split; [cbn [wf]; auto|]. split; [reflexivity|]. split; [reflexivity|]. reflexivity.
Qed.

Lemma mkRScal_sem fn a c o : wf a -> (fn = true -> ofunc a = true) -> mkRScal fn a c = Ok o ->
  sem o (odom a) (oran a) (fun x => eval a (vscal c x)).
Proof.
  intros W F E. destruct (mkRScal_cases _ _ _ _ E) as [(f' & a' & c' & -> & ->)| ->].
  - cbn [wf ofunc] in *. destruct W as (Wa & Fa).
    split; [cbn [wf]; auto|]. split; [reflexivity|]. split; [reflexivity|].
    intros x _. cbn [eval]. rewrite (vscal_vscal Rth). f_equal. f_equal. ring.
  - split; [cbn [wf]; auto|]. split; [reflexivity|]. split; [reflexivity|]. reflexivity.
Qed.

Lemma mkSum_sem fn a b o : wf a -> wf b -> (fn = true -> ofunc a = true) -> mkSum fn a b = Ok o ->
  sem o (odom a) (oran a) (fun x => vadd (eval a x) (eval b x)) /\ oran a = oran b /\ odom a = odom b.
Proof.
  intros Wa Wb F E. unfold mkSum in E.
  destruct (sp_eqb (oran a) (oran b)) eqn:Er; cbn [negb] in E; [|discriminate].
  destruct (sp_eqb (odom a) (odom b)) eqn:Ed; cbn [negb] in E; [|discriminate].
  apply sp_eqb_eq in Er, Ed. inversion E; subst o. split; [|split; assumption]. sem_split; cbn [wf odom oran]; auto.
Qed.

Lemma mkComp_sem fn a b o : wf a -> wf b -> (fn = true -> ofunc a = true) -> mkComp fn a b = Ok o ->
  sem o (odom b) (oran a) (fun x => eval a (eval b x)) /\ oran b = odom a.
Proof.
  intros Wa Wb F E. unfold mkComp in E.
  destruct (sp_eqb (oran b) (odom a)) eqn:Er; [|discriminate].
  apply sp_eqb_eq in Er. inversion E; subst o. split; [|assumption]. sem_split; cbn [wf odom oran]; auto.
Qed.

(* c * A *)
Lemma rmul_c_sem a c o : wf a -> rmul_c a c = Ok o ->
  sem o (odom a) (oran a) (fun x => vscal c (eval a x)).
Proof.
  intros W E. unfold rmul_c in E. destruct (ofunc a) eqn:F.
  - destruct (c =? nzero) eqn:Z.
    + apply Heqb in Z; subst c. inversion E; subst o. sem_split; cbn [wf odom oran].
      * apply dom_sv; auto.
      * reflexivity.
      * symmetry; apply func_ran; auto.
      * intros x Hx. cbn [eval]. rewrite (eval_func_singleton a x W F Hx). cbn. f_equal. ring.
    + unfold mkFLScal in E. rewrite F in E. apply (mkLScal_sem true a c o W (fun _ => F) E).
  - apply (mkLScal_sem false a c o W ltac:(discriminate) E).
Qed.

(* A * c *)
Lemma mul_c_sem a c rl o : wf a -> mul_c a c rl = Ok o ->
  sem o (odom a) (oran a) (fun x => eval a (vscal c x)).
Proof.
  intros W E. unfold Model.mul_c in E. destruct (ofunc a) eqn:F.
  - destruct (c =? nzero) eqn:Z.
    + apply Heqb in Z; subst c. inversion E; subst o. sem_split; cbn [wf odom oran].
      * apply dom_sv; auto.
      * reflexivity.
      * symmetry; apply func_ran; auto.
      * intros x Hx. cbn [eval]. rewrite (vscal_zero Rth), Hx.
        symmetry. apply eval_func_singleton; auto. apply repeat_length.
    + destruct (olin a) eqn:L.
      * unfold mkFLScal in E. rewrite F in E.
        eapply sem_ext; [apply (mkLScal_sem true a c o W (fun _ => F) E)|].
        intros x Hx. cbn beta. symmetry. apply (olin_hom a W L c x Hx).
      * unfold mkFRScal in E. rewrite F in E. apply (mkRScal_sem true a c o W (fun _ => F) E).
  - assert (Gen : (if olin a && rl then rmul_c a c else mkRScal false a c) = Ok o ->
                  sem o (odom a) (oran a) (fun x => eval a (vscal c x))).
    { intros E'. destruct (olin a) eqn:L; [destruct rl|]; cbn [andb] in E';
        [| apply (mkRScal_sem false a c o W ltac:(discriminate) E') | ].
      - eapply sem_ext; [eapply rmul_c_sem; eauto|].
        intros x Hx. cbn beta. symmetry. apply (olin_hom a W L c x Hx).
      - apply (mkRScal_sem false a c o W ltac:(discriminate) E'). }
    destruct a; try (apply Gen; exact E).
    (* OperatorRightScalarMult.__mul__ *)
    cbn [wf ofunc odom oran] in *. destruct W as (Wa & Fa).
    eapply sem_ext; [apply (mkRScal_sem false _ _ o Wa ltac:(discriminate) E)|].
    intros x Hx. cbn beta. cbn [eval]. rewrite (vscal_vscal Rth). reflexivity.
Qed.

(* A * v *)
Lemma mul_v_sem a v o : wf a -> mul_v a v = Ok o ->
  sem o (odom a) (oran a) (fun x => eval a (vmul v x)) /\ odom a = SV (length v).
Proof.
  intros W E. unfold mul_v in E. destruct (in_sp v (odom a)) eqn:I; [|discriminate].
  apply in_sp_eq in I. inversion E; subst o. split; [|assumption].
  sem_split; cbn [wf odom oran]; auto.
  intros x _. cbn [eval]. f_equal. apply (vmul_comm Rth).
Qed.

(* v * A *)
Lemma rmul_v_sem a v o : wf a -> rmul_v a v = Ok o ->
  sem o (odom a) (match oran a with SF => SV (length v) | r => r end)
      (fun x => match oran a with
                | SF => vscal (scalar_of (eval a x)) v
                | SV _ => vmul v (eval a x)
                end).
Proof.
  intros W E. unfold rmul_v in E. destruct (in_sp v (oran a)) eqn:I.
  - apply in_sp_eq in I. inversion E; subst o. rewrite I. sem_split; cbn [wf odom oran]; auto.
    intros x _. cbn [eval]. apply (vmul_comm Rth).
  - destruct (oran a) eqn:R; [discriminate|]. inversion E; subst o.
    sem_split; cbn [wf odom oran]; auto.
Qed.

(* A * B *)
Lemma mul_op_sem a b o : wf a -> wf b -> mul_op a b = Ok o ->
  sem o (odom b) (oran a) (fun x => eval a (eval b x)) /\ oran b = odom a.
Proof.
  intros Wa Wb E. unfold mul_op, mkFComp in E. destruct (ofunc a) eqn:F.
  - apply (mkComp_sem true a b o Wa Wb (fun _ => F) E).
  - apply (mkComp_sem false a b o Wa Wb ltac:(discriminate) E).
Qed.

(* A + B *)
Lemma add_op_sem a b o : wf a -> wf b -> add_op a b = Ok o ->
  sem o (odom a) (oran a) (fun x => vadd (eval a x) (eval b x)) /\ oran a = oran b /\ odom a = odom b.
Proof.
  intros Wa Wb E. unfold add_op in E.
  destruct (subclass_radd (ocls b) (ocls a)) eqn:S.
  - destruct (mkSum_sem false b a o Wb Wa ltac:(discriminate) E) as ((W & D & R & Ev) & Er & Ed).
    split; [|split; congruence]. sem_split; auto; try congruence.
    intros x Hx. rewrite Ev by congruence. apply (vadd_comm Rth).
  - destruct (ofunc a && ofunc b) eqn:F.
    + apply andb_true_iff in F as [Fa Fb]. unfold mkFSum in E. rewrite Fa, Fb in E. cbn in E.
      apply (mkSum_sem true a b o Wa Wb (fun _ => Fa) E).
    + apply (mkSum_sem false a b o Wa Wb ltac:(discriminate) E).
Qed.

(* A + v *)
Lemma add_v_sem a v o : wf a -> add_v a v = Ok o ->
  sem o (odom a) (oran a) (fun x => vadd (eval a x) v) /\ oran a = SV (length v).
Proof.
  intros W E. unfold add_v in E. destruct (in_sp v (oran a)) eqn:I; [|discriminate].
  apply in_sp_eq in I. unfold mkVecSum in E. rewrite I in E. inversion E; subst o.
  split; [|assumption]. sem_split; cbn [wf odom oran]; auto.
  split; [assumption|]. rewrite I. reflexivity.
Qed.

(* A + c *)
Lemma add_c_sem a c o : wf a -> add_c a c = Ok o ->
  sem o (odom a) (oran a) (fun x => map (fun u => u + c) (eval a x)).
Proof.
  intros W E. unfold Model.add_c in E. destruct (ofunc a) eqn:F.
  - inversion E; subst o. sem_split; cbn [wf odom oran]; auto.
    + symmetry; apply func_ran; auto.
    + intros x Hx. cbn [eval]. rewrite (eval_func_singleton a x W F Hx). reflexivity.
  - destruct (oran a) eqn:R.
    + inversion E; subst o. sem_split; cbn [wf odom oran]; auto.
      * split; [assumption|]. rewrite vscal_length. unfold vone. rewrite repeat_length, R. reflexivity.
      * intros x Hx. cbn [eval]. apply (vadd_const Rth).
        rewrite (eval_length a W x Hx), R. reflexivity.
    + destruct (v_vecsum_field vt); [|discriminate]. inversion E; subst o.
      sem_split; cbn [wf odom oran]; auto.
      * split; [assumption|]. rewrite R. reflexivity.
      * intros x Hx. cbn [eval]. rewrite (eval_SF_singleton a x W R Hx). reflexivity.
Qed.

(* A ** n *)
Lemma iter_fun_shift (f : vec -> vec) k x : iter_fun k f (f x) = f (iter_fun k f x).
Proof. induction k as [|k IH]; cbn [iter_fun]; [reflexivity | rewrite IH; reflexivity]. Qed.

Lemma pow_loop_sem k self op o : wf self -> wf op -> odom op = odom self -> oran op = oran self ->
  pow_loop k self op = Ok o ->
  sem o (odom self) (oran self) (fun x => iter_fun k (eval self) (eval op x))
  /\ (k <> O -> oran self = odom self).
Proof.
  revert op o. induction k as [|k IH]; intros op o Ws Wo Ed Er E; cbn [pow_loop] in E.
  - inversion E; subst o. split; [|congruence]. sem_split; auto.
  - unfold bind in E. destruct (mkComp false self op) as [op'|] eqn:M; [|discriminate].
    destruct (mkComp_sem false self op op' Ws Wo ltac:(discriminate) M) as ((W' & D' & R' & Ev') & Hr).
    destruct (IH op' o Ws W' ltac:(congruence) R' E) as ((W & D & R & Ev) & _).
    split; [|intros _; congruence].
    sem_split; auto. intros x Hx. rewrite (Ev x Hx), Ev' by congruence.
    cbn [iter_fun]. apply iter_fun_shift.
Qed.

Lemma pow_op_sem a n o : wf a -> pow_op a n = Ok o ->
  (0 < n)%Z /\ sem o (odom a) (oran a) (fun x => iter_fun (Z.to_nat n) (eval a) x)
  /\ ((1 < n)%Z -> oran a = odom a).
Proof.
  intros W E. unfold pow_op in E. destruct (n <=? 0)%Z eqn:Z0; [discriminate|].
  apply Z.leb_gt in Z0. split; [assumption|].
  destruct (pow_loop_sem _ a a o W W eq_refl eq_refl E) as (Sm & Hsq). split.
  - eapply sem_ext; [exact Sm|]. intros x Hx. cbn beta.
    remember (Z.to_nat n - 1)%nat as k eqn:Hk.
    replace (Z.to_nat n) with (S k) by lia. cbn [iter_fun]. apply iter_fun_shift.
  - intros H1. apply Hsq. lia.
Qed.

(* OperatorPointwiseProduct(A, B) *)
Lemma mkPtw_sem a b o : wf a -> wf b -> mkPtw a b = Ok o ->
  sem o (odom a) (oran a) (fun x => vmul (eval a x) (eval b x)) /\ oran a = oran b /\ odom a = odom b.
Proof.
  intros Wa Wb E. unfold mkPtw in E.
  destruct (sp_eqb (oran a) (oran b)) eqn:Er; cbn [negb] in E; [|discriminate].
  destruct (sp_eqb (odom a) (odom b)) eqn:Ed; cbn [negb] in E; [|discriminate].
  apply sp_eqb_eq in Er, Ed. inversion E; subst o. split; [|split; assumption]. sem_split; cbn [wf odom oran]; auto.
Qed.

(* ------------------------------------------------------------------ *)
(* in-place evaluation = out-of-place evaluation, for every object tree *)
Lemma eval_ip_eq o : forall x, eval_ip o x = eval o x.
Proof.
  induction o as [l|d c|d|fn a IHa b IHb|a IHa c|a IHa v|fn a IHa b IHb|fn a IHa c|fn a IHa c
                 |a IHa v|fn a IHa v|a IHa v|a IHa b IHb]; intros x; cbn [eval_ip eval];
    try reflexivity; rewrite ?IHb, ?IHa; try reflexivity.
  - apply (vadd_comm Rth).
  - apply (vmul_comm Rth).
Qed.

(* ------------------------------------------------------------------ *)
Fixpoint sleaves_ok (s : sexpr) : Prop :=
  match s with
  | SLeaf l => leaf_ok l
  | SConst d _ | SZero d => exists n, d = SV n
  | SAdd a b | SSub a b | SMul a b | SPtw a b => sleaves_ok a /\ sleaves_ok b
  | SNeg a | SPow a _ | SAddV a _ | SVAdd _ a | SSubV a _ | SVSub _ a | SMulV a _ | SVMul _ a
  | SAddC a _ | SCAdd _ a | SSubC a _ | SCSub _ a | SMulC a _ _ | SCMul _ a | SDivC a _ _ => sleaves_ok a
  end.

Lemma iter_ext (f g : vec -> vec) n k :
  (forall x, length x = n -> f x = g x) -> (forall x, length x = n -> length (f x) = n) ->
  forall x, length x = n -> iter_fun k f x = iter_fun k g x /\ length (iter_fun k f x) = n.
Proof.
  intros Hfg Hlen x Hx. induction k as [|k [IH1 IH2]]; cbn [iter_fun]; [auto|].
  rewrite <- IH1. split; [apply Hfg; exact IH2 | apply Hlen; exact IH2].
Qed.

Ltac unbind E :=
  unfold bind in E;
  repeat match type of E with
         | (match ?r with Ok _ => _ | Err _ => _ end) = _ =>
             let o := fresh "o" in let B := fresh "B" in destruct r as [o|] eqn:B; [|discriminate E]
         end.

(* THE MAIN INDUCTION: whatever object the overloads build from a source expression of any
   depth, it is well formed, has the domain/range implied by the expression, and evaluates
   to the documented table applied recursively. *)
Theorem build_sem : forall s o, sleaves_ok s -> build s = Ok o ->
  sem o (sdom s) (sran s) (denote s).
Proof.
  induction s as [l|d c|d|a IHa b IHb|a IHa b IHb|a IHa b IHb|a IHa|a IHa n|a IHa v|v a IHa|a IHa v
                 |v a IHa|a IHa v|v a IHa|a IHa c|c a IHa|a IHa c|c a IHa|a IHa c|c a IHa|a IHa c
                 |a IHa b IHb];
    intros o L E; cbn [Model.build] in E; cbn [sleaves_ok] in L; cbn [sdom sran denote].
  - (* leaf *) inversion E; subst o. sem_split; cbn [wf odom oran eval]; auto.
  - inversion E; subst o. sem_split; cbn [wf odom oran eval]; auto.
  - inversion E; subst o. sem_split; cbn [wf odom oran eval]; auto.
  - (* A + B *) destruct L as [La Lb]. unbind E.
    destruct (IHa _ La eq_refl) as (Wa & Da & Ra & Ea). destruct (IHb _ Lb eq_refl) as (Wb & Db & Rb & Eb).
    destruct (add_op_sem _ _ _ Wa Wb E) as ((W & D & R & Ev) & Er & Ed).
    sem_split; auto; try congruence.
    intros x Hx. rewrite Ev, Ea, Eb by congruence. reflexivity.
  - (* A - B *) destruct L as [La Lb]. unbind E.
    destruct (IHa _ La eq_refl) as (Wa & Da & Ra & Ea). destruct (IHb _ Lb eq_refl) as (Wb & Db & Rb & Eb).
    destruct (rmul_c_sem _ _ _ Wb B1) as (Wn & Dn & Rn & En).
    destruct (add_op_sem _ _ _ Wa Wn E) as ((W & D & R & Ev) & Er & Ed).
    sem_split; auto; try congruence.
    intros x Hx. rewrite Ev, En, Ea, Eb by congruence. apply (vadd_vscal_neg1 Rth).
  - (* A * B *) destruct L as [La Lb]. unbind E.
    destruct (IHa _ La eq_refl) as (Wa & Da & Ra & Ea). destruct (IHb _ Lb eq_refl) as (Wb & Db & Rb & Eb).
    destruct (mul_op_sem _ _ _ Wa Wb E) as ((W & D & R & Ev) & Er).
    sem_split; auto; try congruence.
    intros x Hx. rewrite Ev by congruence. rewrite <- Eb by congruence. apply Ea.
    rewrite (eval_length _ Wb x) by congruence. congruence.
  - (* -A *) unbind E. destruct (IHa _ L eq_refl) as (Wa & Da & Ra & Ea).
    destruct (rmul_c_sem _ _ _ Wa E) as (W & D & R & Ev).
    sem_split; auto; try congruence.
    intros x Hx. rewrite Ev, Ea by congruence. apply (vscal_neg1 Rth).
  - (* A ** n *) unbind E. destruct (IHa _ L eq_refl) as (Wa & Da & Ra & Ea).
    destruct (pow_op_sem _ _ _ Wa E) as (Hn & (W & D & R & Ev) & Hsq).
    sem_split; auto; try congruence.
    intros x Hx. rewrite Ev by congruence.
    destruct (Z.eq_dec n 1) as [->|Hn1].
    + cbn [Z.to_nat Pos.to_nat Pos.iter_op iter_fun]. apply Ea; assumption.
    + assert (Hsq' : oran o0 = odom o0) by (apply Hsq; lia).
      refine (proj1 (iter_ext (eval o0) (denote a) (dim (sdom a)) _ _ _ x Hx)).
      * intros y Hy. apply Ea; assumption.
      * intros y Hy. rewrite (eval_length _ Wa y) by congruence. congruence.
  - (* A + v *) unbind E. destruct (IHa _ L eq_refl) as (Wa & Da & Ra & Ea).
    destruct (add_v_sem _ _ _ Wa E) as ((W & D & R & Ev) & _).
    sem_split; auto; try congruence.
    intros x Hx. rewrite Ev, Ea by congruence. reflexivity.
  - (* v + A *) unbind E. destruct (IHa _ L eq_refl) as (Wa & Da & Ra & Ea).
    destruct (add_v_sem _ _ _ Wa E) as ((W & D & R & Ev) & _).
    sem_split; auto; try congruence.
    intros x Hx. rewrite Ev, Ea by congruence. reflexivity.
  - (* A - v *) unbind E. destruct (IHa _ L eq_refl) as (Wa & Da & Ra & Ea).
    destruct (add_v_sem _ _ _ Wa E) as ((W & D & R & Ev) & _).
    sem_split; auto; try congruence.
    intros x Hx. rewrite Ev, Ea by congruence. apply (vadd_vscal_neg1 Rth).
  - (* v - A *) unbind E. destruct (IHa _ L eq_refl) as (Wa & Da & Ra & Ea).
    destruct (rmul_c_sem _ _ _ Wa B0) as (Wn & Dn & Rn & En).
    destruct (add_v_sem _ _ _ Wn E) as ((W & D & R & Ev) & _).
    sem_split; auto; try congruence.
    intros x Hx. rewrite Ev, En, Ea by congruence. apply (vadd_vscal_neg1_l Rth).
  - (* A * v *) unbind E. destruct (IHa _ L eq_refl) as (Wa & Da & Ra & Ea).
    destruct (mul_v_sem _ _ _ Wa E) as ((W & D & R & Ev) & Dv).
    sem_split; auto; try congruence.
    intros x Hx. rewrite Ev by congruence. apply Ea.
    unfold vmul; rewrite vmap2_length, Hx, <- Da, Dv. cbn [dim]. apply Nat.min_id.
  - (* v * A *) unbind E. destruct (IHa _ L eq_refl) as (Wa & Da & Ra & Ea).
    destruct (rmul_v_sem _ _ _ Wa E) as (W & D & R & Ev). rewrite Ra in *.
    sem_split; auto; try congruence.
    intros x Hx. rewrite Ev by congruence. rewrite Ea by congruence. reflexivity.
  - (* A + c *) unbind E. destruct (IHa _ L eq_refl) as (Wa & Da & Ra & Ea).
    destruct (add_c_sem _ _ _ Wa E) as (W & D & R & Ev).
    sem_split; auto; try congruence.
    intros x Hx. rewrite Ev, Ea by congruence. reflexivity.
  - (* c + A *) unbind E. destruct (IHa _ L eq_refl) as (Wa & Da & Ra & Ea).
    destruct (add_c_sem _ _ _ Wa E) as (W & D & R & Ev).
    sem_split; auto; try congruence.
    intros x Hx. rewrite Ev, Ea by congruence. reflexivity.
  - (* A - c *) unbind E. destruct (IHa _ L eq_refl) as (Wa & Da & Ra & Ea).
    destruct (add_c_sem _ _ _ Wa E) as (W & D & R & Ev).
    sem_split; auto; try congruence.
    intros x Hx. rewrite Ev, Ea by congruence. apply (map_addc_opp Rth).
  - (* c - A *) unbind E. destruct (IHa _ L eq_refl) as (Wa & Da & Ra & Ea).
    destruct (rmul_c_sem _ _ _ Wa B0) as (Wn & Dn & Rn & En).
    destruct (add_c_sem _ _ _ Wn E) as (W & D & R & Ev).
    sem_split; auto; try congruence.
    intros x Hx. rewrite Ev, En, Ea by congruence. apply (map_addc_vscal_neg1 Rth).
  - (* A * c *) unbind E. destruct (IHa _ L eq_refl) as (Wa & Da & Ra & Ea).
    destruct (mul_c_sem _ _ _ _ Wa E) as (W & D & R & Ev).
    sem_split; auto; try congruence.
    intros x Hx. rewrite Ev by congruence. apply Ea. rewrite vscal_length. assumption.
  - (* c * A *) unbind E. destruct (IHa _ L eq_refl) as (Wa & Da & Ra & Ea).
    destruct (rmul_c_sem _ _ _ Wa E) as (W & D & R & Ev).
    sem_split; auto; try congruence.
    intros x Hx. rewrite Ev, Ea by congruence. reflexivity.
  - (* A / c *) unbind E. destruct (c =? nzero) eqn:Zc; [discriminate|].
    destruct (IHa _ L eq_refl) as (Wa & Da & Ra & Ea).
    destruct (mul_c_sem _ _ _ _ Wa E) as (W & D & R & Ev).
    sem_split; auto; try congruence.
    intros x Hx. rewrite Ev by congruence.
    replace (map (fun u => u / c) x) with (vscal (none_ / c) x)
      by (unfold vscal; apply map_ext; intros; symmetry; apply Hdiv).
    apply Ea. rewrite vscal_length. assumption.
  - (* pointwise product *) destruct L as [La Lb]. unbind E.
    destruct (IHa _ La eq_refl) as (Wa & Da & Ra & Ea). destruct (IHb _ Lb eq_refl) as (Wb & Db & Rb & Eb).
    destruct (mkPtw_sem _ _ _ Wa Wb E) as ((W & D & R & Ev) & Er & Ed).
    sem_split; auto; try congruence.
    intros x Hx. rewrite Ev, Ea, Eb by congruence. reflexivity.
Qed.

(* the statement in the words of the property *)
Corollary build_sound : forall s o, sleaves_ok s -> build s = Ok o ->
  forall x, length x = dim (sdom s) ->
    eval o x = denote s x /\ eval_ip o x = denote s x.
Proof.
  intros s o L E x Hx. destruct (build_sem s o L E) as (_ & _ & _ & Ev).
  rewrite eval_ip_eq. split; apply Ev; assumption.
Qed.

Corollary build_types : forall s o, sleaves_ok s -> build s = Ok o ->
  odom o = sdom s /\ oran o = sran s /\
  (forall x, length x = dim (sdom s) -> length (eval o x) = dim (sran s)).
Proof.
  intros s o L E. destruct (build_sem s o L E) as (W & D & R & _).
  split; [assumption|]. split; [assumption|].
  intros x Hx. rewrite (eval_length _ W x) by congruence. congruence.
Qed.

(* ------------------------------------------------------------------ *)
(* FLAGS.  (1) soundness: an object flagged linear denotes a linear map. *)
Theorem flag_sound : forall s o, sleaves_ok s -> build s = Ok o -> olin o = true ->
  homog (denote s) (dim (sdom s)) /\ additive (denote s) (dim (sdom s)).
Proof.
  intros s o L E Lin. destruct (build_sem s o L E) as (W & D & R & Ev). split.
  - intros c x Hx. rewrite <- !Ev by (rewrite ?vscal_length; assumption).
    apply (olin_hom o W Lin). congruence.
  - intros x y Hx Hy. rewrite <- !Ev by (try apply vadd_len; assumption).
    apply (olin_add o W Lin); congruence.
Qed.

(* (2) completeness w.r.t. the linearity implied by the expression [slin]. *)
Lemma mkLScal_lin fn a c o : mkLScal fn a c = Ok o -> olin o = olin a.
Proof. intros E. destruct (mkLScal_cases _ _ _ _ E) as [(f' & a' & c' & -> & ->)| ->]; reflexivity. Qed.
Lemma mkRScal_lin fn a c o : mkRScal fn a c = Ok o -> olin o = olin a.
Proof. intros E. destruct (mkRScal_cases _ _ _ _ E) as [(f' & a' & c' & -> & ->)| ->]; reflexivity. Qed.

Lemma rmul_c_lin a c o : rmul_c a c = Ok o -> olin a = true -> olin o = true.
Proof.
  unfold rmul_c, mkFLScal. intros E La. destruct (ofunc a).
  - destruct (c =? nzero); [inversion E; reflexivity|]. rewrite (mkLScal_lin _ _ _ _ E). assumption.
  - rewrite (mkLScal_lin _ _ _ _ E). assumption.
Qed.

Lemma mul_c_lin a c rl o : wf a -> mul_c a c rl = Ok o -> olin a = true -> olin o = true.
Proof.
  unfold Model.mul_c, mkFLScal, mkFRScal. intros W E La. rewrite La in E. destruct (ofunc a) eqn:F.
  - destruct (c =? nzero).
    + inversion E; subst o. cbn [Model.olin].
      destruct (dom_sv a W) as [n Dn].
      assert (Hz : eval a (vzero (dim (odom a))) = vscal nzero (eval a (vzero (dim (odom a))))).
      { rewrite <- (olin_hom a W La nzero) by apply repeat_length.
        rewrite (vscal_zero Rth). unfold vzero. rewrite repeat_length. reflexivity. }
      rewrite (eval_func_singleton a (vzero (dim (odom a))) W F (repeat_length _ _)) in Hz.
      cbn [vscal map] in Hz.
      inversion Hz as [Hz']. rewrite Hz'. replace (nzero * _) with (@nzero T N) by ring. apply Heqb_refl.
    + rewrite (mkLScal_lin _ _ _ _ E). assumption.
  - cbn [andb] in E.
    assert (G : forall a0 : oexpr, olin a0 = true ->
              (if rl then rmul_c a0 c else mkRScal false a0 c) = Ok o -> olin o = true).
    { intros a0 L0 E0. destruct rl;
        [apply (rmul_c_lin _ _ _ E0 L0) | rewrite (mkRScal_lin _ _ _ _ E0); exact L0]. }
    destruct a; try (apply (G _ La E)).
    rewrite (mkRScal_lin _ _ _ _ E). exact La.
Qed.

Lemma mkComp_lin fn a b o : mkComp fn a b = Ok o -> olin o = olin a && olin b.
Proof. unfold mkComp. destruct (sp_eqb _ _); intros E; inversion E; reflexivity. Qed.
Lemma mkSum_lin fn a b o : mkSum fn a b = Ok o -> olin o = olin a && olin b.
Proof.
  unfold mkSum. destruct (sp_eqb (oran a) (oran b)); cbn [negb]; [|discriminate].
  destruct (sp_eqb (odom a) (odom b)); cbn [negb]; [|discriminate]. intros E; inversion E; reflexivity.
Qed.
Lemma mul_op_lin a b o : mul_op a b = Ok o -> olin o = olin a && olin b.
Proof. unfold mul_op, mkFComp. destruct (ofunc a); apply mkComp_lin. Qed.
Lemma add_op_lin a b o : add_op a b = Ok o -> olin o = olin a && olin b.
Proof.
  unfold add_op, mkFSum. destruct (subclass_radd _ _).
  - intros E. rewrite (mkSum_lin _ _ _ _ E). apply andb_comm.
  - destruct (ofunc a && ofunc b) eqn:F.
    + apply andb_true_iff in F as [-> ->]. cbn. apply mkSum_lin.
    + apply mkSum_lin.
Qed.
Lemma pow_loop_lin k self op o : pow_loop k self op = Ok o -> olin self = true -> olin op = true ->
  olin o = true.
Proof.
  revert op o; induction k as [|k IH]; intros op o E Ls Lo; cbn [pow_loop] in E.
  - inversion E; subst; assumption.
  - unfold bind in E. destruct (mkComp false self op) as [op'|] eqn:M; [|discriminate].
    apply (IH op' o E Ls). rewrite (mkComp_lin _ _ _ _ M), Ls, Lo. reflexivity.
Qed.

(* expressions without `A * v` for a scalar-valued A (see flag_complete_refuted) *)
Fixpoint no_sf_rvec (s : sexpr) : Prop :=
  match s with
  | SLeaf _ | SConst _ _ | SZero _ => True
  | SAdd a b | SSub a b | SMul a b | SPtw a b => no_sf_rvec a /\ no_sf_rvec b
  | SMulV a _ => sran a <> SF /\ no_sf_rvec a
  | SNeg a | SPow a _ | SAddV a _ | SVAdd _ a | SSubV a _ | SVSub _ a | SVMul _ a
  | SAddC a _ | SCAdd _ a | SSubC a _ | SCSub _ a | SMulC a _ _ | SCMul _ a | SDivC a _ _ => no_sf_rvec a
  end.

(* [rvec_ok]: every `A * v` in s either has a vector-valued A, or the code keeps the flag *)
Fixpoint rvec_ok (s : sexpr) : Prop :=
  match s with
  | SLeaf _ | SConst _ _ | SZero _ => True
  | SAdd a b | SSub a b | SMul a b | SPtw a b => rvec_ok a /\ rvec_ok b
  | SMulV a _ => (v_frvec_lin vt = true \/ sran a <> SF) /\ rvec_ok a
  | SNeg a | SPow a _ | SAddV a _ | SVAdd _ a | SSubV a _ | SVSub _ a | SVMul _ a
  | SAddC a _ | SCAdd _ a | SSubC a _ | SCSub _ a | SMulC a _ _ | SCMul _ a | SDivC a _ _ => rvec_ok a
  end.
Lemma rvec_ok_of_no_sf s : no_sf_rvec s -> rvec_ok s.
Proof. induction s; cbn [no_sf_rvec rvec_ok]; tauto. Qed.
Lemma rvec_ok_of_variant s : v_frvec_lin vt = true -> rvec_ok s.
Proof. intros V; induction s; cbn [rvec_ok]; tauto. Qed.

Lemma flag_complete_gen : forall s o, sleaves_ok s -> build s = Ok o -> rvec_ok s ->
  slin s = true -> olin o = true.
Proof.
  induction s as [l|d c|d|a IHa b IHb|a IHa b IHb|a IHa b IHb|a IHa|a IHa n|a IHa v|v a IHa|a IHa v
                 |v a IHa|a IHa v|v a IHa|a IHa c|c a IHa|a IHa c|c a IHa|a IHa c|c a IHa|a IHa c
                 |a IHa b IHb];
    intros o L E NF SL; cbn [Model.build] in E; cbn [sleaves_ok] in L; cbn [rvec_ok] in NF;
    cbn [slin] in SL; try discriminate.
  - inversion E; subst; exact SL.
  - inversion E; subst; exact SL.
  - inversion E; subst; reflexivity.
  - destruct L as [La Lb], NF as [Na Nb]. apply andb_true_iff in SL as [Sa Sb]. unbind E.
    rewrite (add_op_lin _ _ _ E), (IHa _ La eq_refl Na Sa), (IHb _ Lb eq_refl Nb Sb). reflexivity.
  - destruct L as [La Lb], NF as [Na Nb]. apply andb_true_iff in SL as [Sa Sb]. unbind E.
    rewrite (add_op_lin _ _ _ E), (IHa _ La eq_refl Na Sa),
      (rmul_c_lin _ _ _ B1 (IHb _ Lb eq_refl Nb Sb)). reflexivity.
  - destruct L as [La Lb], NF as [Na Nb]. apply andb_true_iff in SL as [Sa Sb]. unbind E.
    rewrite (mul_op_lin _ _ _ E), (IHa _ La eq_refl Na Sa), (IHb _ Lb eq_refl Nb Sb). reflexivity.
  - unbind E. apply (rmul_c_lin _ _ _ E (IHa _ L eq_refl NF SL)).
  - unbind E. unfold pow_op in E. destruct (n <=? 0)%Z; [discriminate|].
    pose proof (IHa _ L eq_refl NF SL) as Lo. apply (pow_loop_lin _ _ _ _ E Lo Lo).
  - destruct NF as [NR Na]. unbind E. destruct (build_sem _ _ L B) as (Wa & Da & Ra & _).
    unfold mul_v in E. destruct (in_sp v (odom o0)); [|discriminate]. inversion E; subst o. cbn [Model.olin].
    destruct (ofunc o0) eqn:F.
    + destruct NR as [-> | NR]; [apply (IHa _ L eq_refl Na SL)|].
      exfalso. apply NR. rewrite <- Ra. apply func_ran; assumption.
    + apply (IHa _ L eq_refl Na SL).
  - unbind E. unfold rmul_v in E. pose proof (IHa _ L eq_refl NF SL) as Lo.
    destruct (in_sp v (oran o0)); [inversion E; subst; exact Lo|].
    destruct (oran o0); [discriminate|]. inversion E; subst; exact Lo.
  - unbind E. destruct (build_sem _ _ L B) as (Wa & _).
    apply (mul_c_lin _ _ _ _ Wa E (IHa _ L eq_refl NF SL)).
  - unbind E. apply (rmul_c_lin _ _ _ E (IHa _ L eq_refl NF SL)).
  - unbind E. destruct (c =? nzero); [discriminate|]. destruct (build_sem _ _ L B) as (Wa & _).
    apply (mul_c_lin _ _ _ _ Wa E (IHa _ L eq_refl NF SL)).
Qed.


Theorem flag_complete_partial : forall s o, sleaves_ok s -> build s = Ok o -> no_sf_rvec s ->
  slin s = true -> olin o = true.
Proof. intros s o L E NF. apply (flag_complete_gen s o L E (rvec_ok_of_no_sf s NF)). Qed.

(* the full statement, for the repaired FunctionalRightVectorMult *)
Theorem flag_complete_repaired : v_frvec_lin vt = true ->
  forall s o, sleaves_ok s -> build s = Ok o -> slin s = true -> olin o = true.
Proof. intros V s o L E. apply (flag_complete_gen s o L E (rvec_ok_of_variant s V)). Qed.

(* ------------------------------------------------------------------ *)
(* ACCEPTANCE: the overloads accept exactly the expressions that are well-typed by the
   documented rules [wt] (up to the recorded finding about scalar addition). *)
Lemma mkLScal_func fn (a : oexpr) c o : mkLScal fn a c = Ok o -> ofunc o = fn.
Proof. intros E. destruct (mkLScal_cases _ _ _ _ E) as [(f' & a' & c' & -> & ->)| ->]; reflexivity. Qed.
Lemma mkRScal_func fn (a : oexpr) c o : mkRScal fn a c = Ok o -> ofunc o = fn.
Proof. intros E. destruct (mkRScal_cases _ _ _ _ E) as [(f' & a' & c' & -> & ->)| ->]; reflexivity. Qed.
Lemma rmul_c_func (a : oexpr) c o : rmul_c a c = Ok o -> ofunc o = ofunc a.
Proof.
  unfold rmul_c, mkFLScal. destruct (ofunc a) eqn:F.
  - destruct (c =? nzero); intros E; [inversion E; reflexivity | apply (mkLScal_func _ _ _ _ E)].
  - apply mkLScal_func.
Qed.
Lemma mul_c_func (a : oexpr) c rl o : mul_c a c rl = Ok o -> ofunc o = ofunc a.
Proof.
  unfold Model.mul_c, mkFLScal, mkFRScal. destruct (ofunc a) eqn:F.
  - destruct (c =? nzero); [intros E; inversion E; reflexivity|].
    destruct (Model.olin vt a); [apply mkLScal_func | apply mkRScal_func].
  - assert (G : (if Model.olin vt a && rl then rmul_c a c else mkRScal false a c) = Ok o -> ofunc o = false).
    { destruct (Model.olin vt a && rl); intros E; [rewrite (rmul_c_func _ _ _ E); exact F | apply (mkRScal_func _ _ _ _ E)]. }
    destruct a; try exact G. apply mkRScal_func.
Qed.
Lemma mkSum_func fn (a b : oexpr) o : mkSum fn a b = Ok o -> ofunc o = fn.
Proof.
  unfold mkSum. destruct (sp_eqb (oran a) (oran b)); cbn [negb]; [|discriminate].
  destruct (sp_eqb (odom a) (odom b)); cbn [negb]; [|discriminate]. intros E; inversion E; reflexivity.
Qed.
Lemma subclass_radd_func (a b : oexpr) : subclass_radd (ocls b) (ocls a) = true -> ofunc a = false.
Proof.
  destruct a; cbn [ocls ofunc]; try (destruct fn); destruct b; cbn [ocls]; try (destruct fn);
    cbn [subclass_radd]; intros E; try discriminate; reflexivity.
Qed.
Lemma add_op_func (a b : oexpr) o : add_op a b = Ok o -> ofunc o = ofunc a && ofunc b.
Proof.
  unfold add_op, mkFSum. destruct (subclass_radd (ocls b) (ocls a)) eqn:S.
  - intros E. rewrite (mkSum_func _ _ _ _ E), (subclass_radd_func _ _ S). reflexivity.
  - destruct (ofunc a && ofunc b) eqn:F.
    + apply andb_true_iff in F as [Fa Fb]. rewrite Fa, Fb. cbn. apply mkSum_func.
    + apply mkSum_func.
Qed.
Lemma pow_loop_func k (self op : oexpr) o : pow_loop k self op = Ok o -> ofunc o = match k with O => ofunc op | _ => false end.
Proof.
  revert op o; induction k as [|k IH]; intros op o E; cbn [pow_loop] in E; [inversion E; reflexivity|].
  unfold bind in E. destruct (mkComp false self op) as [op'|] eqn:M; [|discriminate].
  rewrite (IH _ _ E). destruct k; [|reflexivity].
  unfold mkComp in M. destruct (sp_eqb _ _); inversion M; reflexivity.
Qed.

Theorem build_func : forall s o, build s = Ok o -> ofunc o = sfunc s.
Proof.
  induction s as [l|d c|d|a IHa b IHb|a IHa b IHb|a IHa b IHb|a IHa|a IHa n|a IHa v|v a IHa|a IHa v
                 |v a IHa|a IHa v|v a IHa|a IHa c|c a IHa|a IHa c|c a IHa|a IHa c|c a IHa|a IHa c
                 |a IHa b IHb];
    intros o E; cbn [Model.build] in E; cbn [sfunc]; try (inversion E; reflexivity); unbind E.
  - rewrite (add_op_func _ _ _ E), (IHa _ eq_refl), (IHb _ eq_refl). reflexivity.
  - rewrite (add_op_func _ _ _ E), (rmul_c_func _ _ _ B1), (IHa _ eq_refl), (IHb _ eq_refl). reflexivity.
  - unfold mul_op, mkFComp, mkComp in E. rewrite <- (IHa _ eq_refl).
    destruct (ofunc o0); destruct (sp_eqb _ _); inversion E; reflexivity.
  - rewrite (rmul_c_func _ _ _ E). apply IHa; reflexivity.
  - unfold pow_op in E. destruct (n <=? 0)%Z eqn:Z0; [discriminate|]. apply Z.leb_gt in Z0.
    rewrite (pow_loop_func _ _ _ _ E), <- (IHa _ eq_refl).
    destruct (Z.eqb_spec n 1) as [->|Hn].
    + cbn. rewrite andb_true_r. reflexivity.
    + rewrite andb_false_r. destruct (Z.to_nat n - 1)%nat eqn:K; [lia|reflexivity].
  - unfold add_v, mkVecSum in E. destruct (in_sp v (oran o0)); [|discriminate].
    destruct (oran o0); inversion E; reflexivity.
  - unfold add_v, mkVecSum in E. destruct (in_sp v (oran o0)); [|discriminate].
    destruct (oran o0); inversion E; reflexivity.
  - unfold add_v, mkVecSum in E. destruct (in_sp _ (oran o0)); [|discriminate].
    destruct (oran o0); inversion E; reflexivity.
  - unfold add_v, mkVecSum in E. destruct (in_sp v (oran o1)); [|discriminate].
    destruct (oran o1); inversion E; reflexivity.
  - unfold mul_v in E. destruct (in_sp v (odom o0)); inversion E. cbn [ofunc]. apply IHa; reflexivity.
  - unfold rmul_v in E. destruct (in_sp v (oran o0)); [inversion E; reflexivity|].
    destruct (oran o0); inversion E; reflexivity.
  - unfold Model.add_c in E. rewrite <- (IHa _ eq_refl). destruct (ofunc o0); [inversion E; reflexivity|].
    destruct (oran o0); [inversion E; reflexivity|]. destruct (v_vecsum_field vt); inversion E; reflexivity.
  - unfold Model.add_c in E. rewrite <- (IHa _ eq_refl). destruct (ofunc o0); [inversion E; reflexivity|].
    destruct (oran o0); [inversion E; reflexivity|]. destruct (v_vecsum_field vt); inversion E; reflexivity.
  - unfold Model.add_c in E. rewrite <- (IHa _ eq_refl). destruct (ofunc o0); [inversion E; reflexivity|].
    destruct (oran o0); [inversion E; reflexivity|]. destruct (v_vecsum_field vt); inversion E; reflexivity.
  - unfold Model.add_c in E. rewrite <- (IHa _ eq_refl), <- (rmul_c_func _ _ _ B0).
    destruct (ofunc o1); [inversion E; reflexivity|].
    destruct (oran o1); [inversion E; reflexivity|]. destruct (v_vecsum_field vt); inversion E; reflexivity.
  - rewrite (mul_c_func _ _ _ _ E). apply IHa; reflexivity.
  - rewrite (rmul_c_func _ _ _ E). apply IHa; reflexivity.
  - destruct (c =? nzero); [discriminate|]. rewrite (mul_c_func _ _ _ _ E). apply IHa; reflexivity.
  - unfold mkPtw in E. destruct (sp_eqb (oran o0) (oran o1)); cbn [negb] in E; [|discriminate].
    destruct (sp_eqb (odom o0) (odom o1)); cbn [negb] in E; [|discriminate]. inversion E; reflexivity.
Qed.

(* accepted => well-typed by the documented rules (the overloads never accept an ill-typed form) *)
Theorem accept_sound : forall s o, sleaves_ok s -> build s = Ok o -> wt s = true.
Proof.
  induction s as [l|d c|d|a IHa b IHb|a IHa b IHb|a IHa b IHb|a IHa|a IHa n|a IHa v|v a IHa|a IHa v
                 |v a IHa|a IHa v|v a IHa|a IHa c|c a IHa|a IHa c|c a IHa|a IHa c|c a IHa|a IHa c
                 |a IHa b IHb];
    intros o L E; cbn [Model.build] in E; cbn [sleaves_ok] in L; cbn [wt]; try reflexivity; unbind E.
  - destruct L as [La Lb]. destruct (build_sem _ _ La B) as (Wa & Da & Ra & _).
    destruct (build_sem _ _ Lb B0) as (Wb & Db & Rb & _).
    destruct (add_op_sem _ _ _ Wa Wb E) as (_ & Er & Ed).
    rewrite (IHa _ La eq_refl), (IHb _ Lb eq_refl). cbn [andb].
    apply andb_true_iff; split; apply sp_eqb_eq; congruence.
  - destruct L as [La Lb]. destruct (build_sem _ _ La B) as (Wa & Da & Ra & _).
    destruct (build_sem _ _ Lb B0) as (Wb & Db & Rb & _).
    destruct (rmul_c_sem _ _ _ Wb B1) as (Wn & Dn & Rn & _).
    destruct (add_op_sem _ _ _ Wa Wn E) as (_ & Er & Ed).
    rewrite (IHa _ La eq_refl), (IHb _ Lb eq_refl). cbn [andb].
    apply andb_true_iff; split; apply sp_eqb_eq; congruence.
  - destruct L as [La Lb]. destruct (build_sem _ _ La B) as (Wa & Da & Ra & _).
    destruct (build_sem _ _ Lb B0) as (Wb & Db & Rb & _).
    destruct (mul_op_sem _ _ _ Wa Wb E) as (_ & Er).
    rewrite (IHa _ La eq_refl), (IHb _ Lb eq_refl). cbn [andb]. apply sp_eqb_eq; congruence.
  - apply (IHa _ L eq_refl).
  - destruct (build_sem _ _ L B) as (Wa & Da & Ra & _).
    destruct (pow_op_sem _ _ _ Wa E) as (Hn & _ & Hsq).
    rewrite (IHa _ L eq_refl). cbn [andb]. apply andb_true_iff; split; [apply Z.ltb_lt; assumption|].
    destruct (Z.eqb_spec n 1) as [->|Hn1]; [reflexivity|]. cbn [orb].
    apply sp_eqb_eq. rewrite <- Da, <- Ra. apply Hsq. lia.
  - destruct (build_sem _ _ L B) as (Wa & Da & Ra & _). destruct (add_v_sem _ _ _ Wa E) as (_ & Er).
    rewrite (IHa _ L eq_refl). cbn [andb]. apply in_sp_eq. congruence.
  - destruct (build_sem _ _ L B) as (Wa & Da & Ra & _). destruct (add_v_sem _ _ _ Wa E) as (_ & Er).
    rewrite (IHa _ L eq_refl). cbn [andb]. apply in_sp_eq. congruence.
  - destruct (build_sem _ _ L B) as (Wa & Da & Ra & _). destruct (add_v_sem _ _ _ Wa E) as (_ & Er).
    rewrite (IHa _ L eq_refl). cbn [andb]. apply in_sp_eq. rewrite vscal_length in Er. congruence.
  - destruct (build_sem _ _ L B) as (Wa & Da & Ra & _).
    destruct (rmul_c_sem _ _ _ Wa B0) as (Wn & Dn & Rn & _). destruct (add_v_sem _ _ _ Wn E) as (_ & Er).
    rewrite (IHa _ L eq_refl). cbn [andb]. apply in_sp_eq. congruence.
  - destruct (build_sem _ _ L B) as (Wa & Da & Ra & _). destruct (mul_v_sem _ _ _ Wa E) as (_ & Ed).
    rewrite (IHa _ L eq_refl). cbn [andb]. apply in_sp_eq. congruence.
  - destruct (build_sem _ _ L B) as (Wa & Da & Ra & _).
    rewrite (IHa _ L eq_refl). cbn [andb]. unfold rmul_v in E. rewrite Ra in E.
    destruct (in_sp v (sran a)); [reflexivity|]. destruct (sran a); [discriminate|reflexivity].
  - apply (IHa _ L eq_refl).
  - apply (IHa _ L eq_refl).
  - apply (IHa _ L eq_refl).
  - apply (IHa _ L eq_refl).
  - apply (IHa _ L eq_refl).
  - apply (IHa _ L eq_refl).
  - destruct (c =? nzero); [discriminate|]. rewrite (IHa _ L eq_refl). reflexivity.
  - destruct L as [La Lb]. destruct (build_sem _ _ La B) as (Wa & Da & Ra & _).
    destruct (build_sem _ _ Lb B0) as (Wb & Db & Rb & _).
    destruct (mkPtw_sem _ _ _ Wa Wb E) as (_ & Er & Ed).
    rewrite (IHa _ La eq_refl), (IHb _ Lb eq_refl). cbn [andb].
    apply andb_true_iff; split; apply sp_eqb_eq; congruence.
Qed.

(* progress of each overload *)
Lemma mkLScal_ok fn (a : oexpr) c : exists o, mkLScal fn a c = Ok o.
Proof. unfold mkLScal; destruct a; eauto. Qed.
Lemma mkRScal_ok fn (a : oexpr) c : exists o, mkRScal fn a c = Ok o.
Proof. unfold mkRScal; destruct a; eauto. Qed.
Lemma rmul_c_ok (a : oexpr) c : exists o, rmul_c a c = Ok o.
Proof.
  unfold rmul_c, mkFLScal. destruct (ofunc a); [destruct (c =? nzero); [eauto|]|]; apply mkLScal_ok.
Qed.
Lemma mul_c_ok (a : oexpr) c rl : exists o, mul_c a c rl = Ok o.
Proof.
  unfold Model.mul_c, mkFLScal, mkFRScal. destruct (ofunc a) eqn:F.
  - destruct (c =? nzero); [eauto|]. destruct (Model.olin vt a); [apply mkLScal_ok | apply mkRScal_ok].
  - assert (G : exists o, (if Model.olin vt a && rl then rmul_c a c
                           else mkRScal false a c) = Ok o)
      by (destruct (Model.olin vt a && rl); [apply rmul_c_ok | apply mkRScal_ok]).
    destruct a; try exact G. apply mkRScal_ok.
Qed.
Lemma mkSum_ok fn (a b : oexpr) : oran a = oran b -> odom a = odom b -> exists o, mkSum fn a b = Ok o.
Proof.
  intros Er Ed. unfold mkSum. rewrite (proj2 (sp_eqb_eq _ _) Er), (proj2 (sp_eqb_eq _ _) Ed). cbn. eauto.
Qed.
Lemma add_op_ok (a b : oexpr) : oran a = oran b -> odom a = odom b -> exists o, add_op a b = Ok o.
Proof.
  intros Er Ed. unfold add_op, mkFSum. destruct (subclass_radd _ _); [apply mkSum_ok; congruence|].
  destruct (ofunc a && ofunc b) eqn:F; [|apply mkSum_ok; assumption].
  apply andb_true_iff in F as [-> ->]. cbn. apply mkSum_ok; assumption.
Qed.
Lemma mkComp_ok fn (a b : oexpr) : oran b = odom a -> exists o, mkComp fn a b = Ok o.
Proof. intros Er. unfold mkComp. rewrite (proj2 (sp_eqb_eq _ _) Er). eauto. Qed.
Lemma pow_loop_ok k (self op : oexpr) : oran self = odom self -> oran op = oran self ->
  exists o, pow_loop k self op = Ok o.
Proof.
  revert op; induction k as [|k IH]; intros op Es Eo; cbn [pow_loop]; [eauto|].
  destruct (mkComp_ok false self op ltac:(congruence)) as [op' M]. rewrite M. cbn [bind].
  apply IH; [assumption|]. unfold mkComp in M. destruct (sp_eqb _ _); inversion M. reflexivity.
Qed.

(* well-typed by the documented rules => accepted, up to the recorded scalar-addition finding *)
Theorem accept_complete : forall s, sleaves_ok s -> wt s = true -> scalar_add_ok s ->
  exists o, build s = Ok o.
Proof.
  induction s as [l|d c|d|a IHa b IHb|a IHa b IHb|a IHa b IHb|a IHa|a IHa n|a IHa v|v a IHa|a IHa v
                 |v a IHa|a IHa v|v a IHa|a IHa c|c a IHa|a IHa c|c a IHa|a IHa c|c a IHa|a IHa c
                 |a IHa b IHb];
    intros L W SA; cbn [sleaves_ok] in L; cbn [wt] in W; cbn [Model.scalar_add_ok] in SA; cbn [Model.build];
    try (eexists; reflexivity).
  - destruct L as [La Lb], SA as [Sa Sb]. apply andb_true_iff in W as [W Ed]. apply andb_true_iff in W as [W Er].
    apply andb_true_iff in W as [Wa Wb]. apply sp_eqb_eq in Er, Ed.
    destruct (IHa La Wa Sa) as [oa Ba], (IHb Lb Wb Sb) as [ob Bb]. rewrite Ba, Bb. cbn [bind].
    destruct (build_sem _ _ La Ba) as (_ & Da & Ra & _). destruct (build_sem _ _ Lb Bb) as (_ & Db & Rb & _).
    apply add_op_ok; congruence.
  - destruct L as [La Lb], SA as [Sa Sb]. apply andb_true_iff in W as [W Ed]. apply andb_true_iff in W as [W Er].
    apply andb_true_iff in W as [Wa Wb]. apply sp_eqb_eq in Er, Ed.
    destruct (IHa La Wa Sa) as [oa Ba], (IHb Lb Wb Sb) as [ob Bb]. rewrite Ba, Bb. cbn [bind].
    destruct (build_sem _ _ La Ba) as (_ & Da & Ra & _). destruct (build_sem _ _ Lb Bb) as (Wfb & Db & Rb & _).
    destruct (rmul_c_ok ob neg1) as [nb Bn]. rewrite Bn. cbn [bind].
    destruct (rmul_c_sem _ _ _ Wfb Bn) as (_ & Dn & Rn & _). apply add_op_ok; congruence.
  - destruct L as [La Lb], SA as [Sa Sb]. apply andb_true_iff in W as [W Er].
    apply andb_true_iff in W as [Wa Wb]. apply sp_eqb_eq in Er.
    destruct (IHa La Wa Sa) as [oa Ba], (IHb Lb Wb Sb) as [ob Bb]. rewrite Ba, Bb. cbn [bind].
    destruct (build_sem _ _ La Ba) as (_ & Da & Ra & _). destruct (build_sem _ _ Lb Bb) as (_ & Db & Rb & _).
    unfold mul_op, mkFComp. destruct (ofunc oa); apply mkComp_ok; congruence.
  - destruct (IHa L W SA) as [oa Ba]. rewrite Ba. cbn [bind]. apply rmul_c_ok.
  - apply andb_true_iff in W as [W Hsq]. apply andb_true_iff in W as [Wa Hn]. apply Z.ltb_lt in Hn.
    destruct (IHa L Wa SA) as [oa Ba]. rewrite Ba. cbn [bind].
    destruct (build_sem _ _ L Ba) as (_ & Da & Ra & _).
    unfold pow_op. destruct (n <=? 0)%Z eqn:Z0; [apply Z.leb_le in Z0; lia|].
    destruct (Z.eqb_spec n 1) as [->|Hn1]; [exists oa; reflexivity|].
    cbn [orb] in Hsq. apply sp_eqb_eq in Hsq.
    apply pow_loop_ok; congruence.
  - apply andb_true_iff in W as [Wa Iv]. destruct (IHa L Wa SA) as [oa Ba]. rewrite Ba. cbn [bind].
    destruct (build_sem _ _ L Ba) as (_ & Da & Ra & _). unfold add_v, mkVecSum. rewrite Ra, Iv.
    apply in_sp_eq in Iv. rewrite Iv. eauto.
  - apply andb_true_iff in W as [Wa Iv]. destruct (IHa L Wa SA) as [oa Ba]. rewrite Ba. cbn [bind].
    destruct (build_sem _ _ L Ba) as (_ & Da & Ra & _). unfold add_v, mkVecSum. rewrite Ra, Iv.
    apply in_sp_eq in Iv. rewrite Iv. eauto.
  - apply andb_true_iff in W as [Wa Iv]. destruct (IHa L Wa SA) as [oa Ba]. rewrite Ba. cbn [bind].
    destruct (build_sem _ _ L Ba) as (_ & Da & Ra & _). unfold add_v, mkVecSum. rewrite Ra.
    apply in_sp_eq in Iv. rewrite Iv. cbn [in_sp]. rewrite vscal_length, Nat.eqb_refl. eauto.
  - apply andb_true_iff in W as [Wa Iv]. destruct (IHa L Wa SA) as [oa Ba]. rewrite Ba. cbn [bind].
    destruct (build_sem _ _ L Ba) as (Wfa & Da & Ra & _).
    destruct (rmul_c_ok oa neg1) as [na Bn]. rewrite Bn. cbn [bind].
    destruct (rmul_c_sem _ _ _ Wfa Bn) as (_ & Dn & Rn & _). unfold add_v, mkVecSum. rewrite Rn, Ra, Iv.
    apply in_sp_eq in Iv. rewrite Iv. eauto.
  - apply andb_true_iff in W as [Wa Iv]. destruct (IHa L Wa SA) as [oa Ba]. rewrite Ba. cbn [bind].
    destruct (build_sem _ _ L Ba) as (_ & Da & Ra & _). unfold mul_v. rewrite Da, Iv. eauto.
  - apply andb_true_iff in W as [Wa Iv]. destruct (IHa L Wa SA) as [oa Ba]. rewrite Ba. cbn [bind].
    destruct (build_sem _ _ L Ba) as (_ & Da & Ra & _). unfold rmul_v. rewrite Ra.
    destruct (in_sp v (sran a)); [eauto|]. cbn [orb] in Iv. apply sp_eqb_eq in Iv. rewrite Iv. eauto.
  - destruct SA as [Sc Sa]. destruct (IHa L W Sa) as [oa Ba]. rewrite Ba. cbn [bind].
    destruct (build_sem _ _ L Ba) as (_ & Da & Ra & _). unfold Model.add_c.
    rewrite (build_func _ _ Ba), Ra. destruct (sfunc a); [eauto|]. destruct (sran a); [eauto|].
    destruct Sc as [-> | [F | F]]; [eauto | discriminate | congruence].
  - destruct SA as [Sc Sa]. destruct (IHa L W Sa) as [oa Ba]. rewrite Ba. cbn [bind].
    destruct (build_sem _ _ L Ba) as (_ & Da & Ra & _). unfold Model.add_c.
    rewrite (build_func _ _ Ba), Ra. destruct (sfunc a); [eauto|]. destruct (sran a); [eauto|].
    destruct Sc as [-> | [F | F]]; [eauto | discriminate | congruence].
  - destruct SA as [Sc Sa]. destruct (IHa L W Sa) as [oa Ba]. rewrite Ba. cbn [bind].
    destruct (build_sem _ _ L Ba) as (_ & Da & Ra & _). unfold Model.add_c.
    rewrite (build_func _ _ Ba), Ra. destruct (sfunc a); [eauto|]. destruct (sran a); [eauto|].
    destruct Sc as [-> | [F | F]]; [eauto | discriminate | congruence].
  - destruct SA as [Sc Sa]. destruct (IHa L W Sa) as [oa Ba]. rewrite Ba. cbn [bind].
    destruct (build_sem _ _ L Ba) as (Wfa & Da & Ra & _).
    destruct (rmul_c_ok oa neg1) as [na Bn]. rewrite Bn. cbn [bind].
    destruct (rmul_c_sem _ _ _ Wfa Bn) as (_ & Dn & Rn & _). unfold Model.add_c.
    rewrite (rmul_c_func _ _ _ Bn), (build_func _ _ Ba), Rn, Ra.
    destruct (sfunc a); [eauto|]. destruct (sran a); [eauto|].
    destruct Sc as [-> | [F | F]]; [eauto | discriminate | congruence].
  - destruct (IHa L W SA) as [oa Ba]. rewrite Ba. cbn [bind]. apply mul_c_ok.
  - destruct (IHa L W SA) as [oa Ba]. rewrite Ba. cbn [bind]. apply rmul_c_ok.
  - apply andb_true_iff in W as [Wa Hc]. destruct (IHa L Wa SA) as [oa Ba]. rewrite Ba. cbn [bind].
    destruct (c =? nzero); [discriminate|]. apply mul_c_ok.
  - destruct L as [La Lb], SA as [Sa Sb]. apply andb_true_iff in W as [W Ed]. apply andb_true_iff in W as [W Er].
    apply andb_true_iff in W as [Wa Wb]. apply sp_eqb_eq in Er, Ed.
    destruct (IHa La Wa Sa) as [oa Ba], (IHb Lb Wb Sb) as [ob Bb]. rewrite Ba, Bb. cbn [bind].
    destruct (build_sem _ _ La Ba) as (_ & Da & Ra & _). destruct (build_sem _ _ Lb Bb) as (_ & Db & Rb & _).
    unfold mkPtw. rewrite (proj2 (sp_eqb_eq (oran oa) (oran ob))), (proj2 (sp_eqb_eq (odom oa) (odom ob)))
      by congruence. cbn. eauto.
Qed.

Lemma scalar_add_ok_of_variant (s : sexpr) : v_vecsum_field vt = true -> scalar_add_ok s.
Proof. intros V; induction s; cbn [Model.scalar_add_ok]; tauto. Qed.

(* the property in one statement: a well-typed expression of any depth IS accepted and
   evaluates, out-of-place and in-place, to the table value *)
Theorem well_typed_evaluates : forall s, sleaves_ok s -> wt s = true -> scalar_add_ok s ->
  exists o, build s = Ok o /\ odom o = sdom s /\ oran o = sran s /\ ofunc o = sfunc s /\
    forall x, length x = dim (sdom s) -> eval o x = denote s x /\ eval_ip o x = denote s x.
Proof.
  intros s L W SA. destruct (accept_complete s L W SA) as [o E]. exists o.
  destruct (build_sem s o L E) as (_ & D & R & _).
  split; [assumption|]. split; [assumption|]. split; [assumption|]. split; [apply build_func; assumption|].
  apply (build_sound s o L E).
Qed.

(* ------------------------------------------------------------------ *)
(* the concrete pool of C04/Model.v meets the leaf premise (so it is satisfiable, and the
   theorems hold without any leaf premise for expressions over the pool) *)
Lemma dot_vscal_r c (r x : vec) : dot r (vscal c x) = c * dot r x.
Proof.
  revert x; induction r as [|a r IH]; intros [|b x]; unfold dot, vmul, vscal in *;
    cbn [vmap2 map sumf]; try ring.
  rewrite IH. ring.
Qed.
Lemma mvec_vscal c (m : list vec) (x : vec) : mvec m (vscal c x) = vscal c (mvec m x).
Proof.
  unfold mvec, vscal at 2. rewrite map_map. apply map_ext. intros r. apply dot_vscal_r.
Qed.

Lemma dot_vadd_r (r x y : vec) : length x = length y -> dot r (vadd x y) = dot r x + dot r y.
Proof.
  revert x y; induction r as [|a r IH]; intros [|b x] [|c y] E; cbn [length] in E; try discriminate;
    unfold dot, vmul, vadd in *; cbn [vmap2 sumf]; try ring.
  rewrite IH by congruence. ring.
Qed.
Lemma mvec_vadd (m : list vec) (x y : vec) : length x = length y ->
  mvec m (vadd x y) = vadd (mvec m x) (mvec m y).
Proof.
  intros E. induction m as [|r m IH]; [reflexivity|].
  unfold mvec, vadd in *. cbn [map vmap2]. rewrite IH. f_equal. apply dot_vadd_r; assumption.
Qed.

Inductive is_pool : leaf -> Prop :=
| P_Mat id nc m : is_pool (LMat id nc m)
| P_Aff id nc m b : length b = length m -> is_pool (LAff id nc m b)
| P_Sq id n b : length b = n -> is_pool (LSq id n b)
| P_Cube id n : is_pool (LCube id n)
| P_NSt id n b : length b = n -> is_pool (LNSt id n b)
| P_Abs id n : is_pool (LAbs id n)
| P_IP id w : is_pool (LIP id w)
| P_FLin id w : is_pool (FLin id w)
| P_FQuad id w b c : is_pool (FQuad id w b c)
| P_FL1 id n : is_pool (FL1 id n)
| P_NQuad id w c : is_pool (NQuad id w c).

Lemma is_pool_ok l : is_pool l -> leaf_ok l.
Proof.
  intros P; destruct P; constructor;
    unfold LMat, LAff, LSq, LCube, LNSt, LAbs, LIP, FLin, FQuad, FL1, NQuad;
    cbn [l_dom l_ran l_lin l_func l_fun dim];
    try (eexists; reflexivity); try discriminate; try reflexivity; try (intros; reflexivity).
  - intros x _. unfold mvec. apply map_length.
  - intros _ c x _. apply mvec_vscal.
  - intros _ x y Hx Hy. apply mvec_vadd. congruence.
  - intros x _. unfold vadd, mvec. rewrite vmap2_length, map_length, H. apply Nat.min_id.
  - intros x Hx. unfold vadd, vmul. rewrite !vmap2_length, Hx, H. rewrite !Nat.min_id. reflexivity.
  - intros x Hx. unfold vmul. rewrite !vmap2_length, Hx. rewrite !Nat.min_id. reflexivity.
  - intros x Hx. unfold vadd, vmul. rewrite !vmap2_length. cbn [length]. rewrite Hx, H. lia.
  - intros x Hx. rewrite map_length. assumption.
  - intros _ c x _. cbn [vscal map]. f_equal. apply dot_vscal_r.
  - intros _ x y Hx Hy. cbn [vadd vmap2]. f_equal. apply dot_vadd_r. congruence.
  - intros _ c x _. cbn [vscal map]. f_equal. apply dot_vscal_r.
  - intros _ x y Hx Hy. cbn [vadd vmap2]. f_equal. apply dot_vadd_r. congruence.
Qed.


Fixpoint sleaves_pool (s : sexpr) : Prop :=
  match s with
  | SLeaf l => is_pool l
  | SConst d _ | SZero d => exists n, d = SV n
  | SAdd a b | SSub a b | SMul a b | SPtw a b => sleaves_pool a /\ sleaves_pool b
  | SNeg a | SPow a _ | SAddV a _ | SVAdd _ a | SSubV a _ | SVSub _ a | SMulV a _ | SVMul _ a
  | SAddC a _ | SCAdd _ a | SSubC a _ | SCSub _ a | SMulC a _ _ | SCMul _ a | SDivC a _ _ => sleaves_pool a
  end.
Lemma sleaves_pool_ok s : sleaves_pool s -> sleaves_ok s.
Proof.
  induction s; cbn [sleaves_pool sleaves_ok]; intros P; try tauto. apply is_pool_ok; assumption.
Qed.

End Sound.
