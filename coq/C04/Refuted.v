(* C04/Refuted.v -- what two REPAIRED defects were, as statements about the explicit old
   variant of the model (both findings are fixed in /repo: 7ebf769, c9dadbb; the probes with
   the same keys now pass and would fail again if a defect returned). *)
From Coq Require Import ZArith Reals Lra List Bool.
From Verif Require Import Base.Num Base.Vec C04.Model C04.Proofs C04.Instances.
Import ListNotations.
Local Open Scope R_scope.

(* finding flag-FunctionalRightVectorMult-drops-linear:  for a LINEAR functional f, f * v is
   the linear map x |-> f(v*x), but FunctionalRightVectorMult.__init__ ends with
   Functional.__init__(self, space=func.domain), which resets is_linear to False. *)
Definition wit_f : leaf R := FLin 0 [1].
Definition wit_s : sexpr R := SMulV (SLeaf wit_f) [1].

Lemma flag_complete_refuted_R :
  exists (s : sexpr R) (o : oexpr R),
    sleaves_ok s /\ build variant_old s = Ok o /\ slin s = true /\ olin variant_old o = false.
Proof.
  exists wit_s, (ORVec true (OLeaf wit_f) [1]).
  split; [|split; [|split]]; try reflexivity.
  cbn [wit_s sleaves_ok]. apply (is_pool_ok R_ring). constructor.
Qed.

(* finding add-scalar-to-field-valued-operator-raises:  Operator.__add__ documents
   (A + a)(x) = A(x) + a for `a in A.range`; for an operator (not a Functional) whose range
   is the field, the overload builds OperatorVectorSum, whose __init__ rejects a field range:
   the expression is well-typed by the documentation but raises TypeError. *)
Definition wit_ip : leaf R := LIP 0 [1].
Lemma add_scalar_field_range_rejected_R :
  build variant_old (SAddC (SLeaf wit_ip) 1) = Err TypeErr.
Proof. reflexivity. Qed.

(* Fixed by 52720c8 (finding mixed-field:complex-right-scalar-shortcut-on-real-linear-operator):
   before it, Operator.__mul__ rewrote A*a to a*A for EVERY scalar of the range field.  ODL
   flags operators linear that are only real-linear (ImagPart, RealPart and whatever is composed
   with them); for such an A and a complex a the two objects differ in VALUE.  Witness over
   C = R*R: A = "imaginary part" (additive, homogeneous for real scalars), a = i, x = [1]:
   (a*A)(x) = i*Im(1) = 0   but   (A*a)(x) = Im(i*1) = 1. *)
From Verif Require Import C04.Cplx.
Definition im_leaf : leaf RC :=
  {| l_id := 0; l_dom := SV 1; l_ran := SV 1; l_lin := true; l_func := false;
     l_fun := map (fun z : RC => (snd z, 0)) |}.
Lemma im_leaf_real_linear :
  (forall (r : R) (x : list RC), l_fun im_leaf (vscal (r, 0) x) = vscal (r, 0) (l_fun im_leaf x))
  /\ (forall x y : list RC, length x = length y ->
        l_fun im_leaf (vadd x y) = vadd (l_fun im_leaf x) (l_fun im_leaf y)).
Proof.
  split.
  - intros r x. cbn [l_fun im_leaf]. unfold vscal. rewrite !map_map. apply map_ext. intros [a b].
    cbn [nmul Num_RC]. unfold rc_mul. cbn [fst snd]. f_equal; ring.
  - intros x. induction x as [|[a b] x IH]; intros [|[c d] y] E; cbn in E; try discriminate; [reflexivity|].
    cbn [l_fun im_leaf] in *. unfold vadd in *. cbn [vmap2 map nadd Num_RC]. unfold rc_add at 1 3. cbn [fst snd].
    rewrite IH by congruence. f_equal. f_equal. ring.
Qed.
Lemma complex_shortcut_old_rule_refuted_RC :
  let i : RC := (0, 1) in let x : list RC := [(1, 0)] in
  eval (OLScal false (OLeaf im_leaf) i) x <> eval (ORScal false (OLeaf im_leaf) i) x.
Proof.
  cbn [eval l_fun im_leaf vscal map nmul Num_RC]. unfold rc_mul. cbn [fst snd]. intros E.
  injection E as E1 _. lra.
Qed.
