(* C04/Refuted.v -- what two REPAIRED defects were, as statements about the explicit old
   variant of the model (both findings are fixed in /repo: 7ebf769, c9dadbb; the probes with
   the same keys now pass and would fail again if a defect returned). *)
From Coq Require Import ZArith Reals List Bool.
From Verif Require Import Base.Num Base.Vec C04.Model C04.Proofs C04.Instances.
Import ListNotations.
Local Open Scope R_scope.

(* finding flag-FunctionalRightVectorMult-drops-linear:  for a LINEAR functional f, f * v is
   the linear map x |-> f(v*x), but FunctionalRightVectorMult.__init__ ends with
   Functional.__init__(self, space=func.domain), which resets is_linear to False. *)
Definition wit_f : leaf R := FLin 0 [1].
Definition wit_s : sexpr R := SMulV (SLeaf wit_f) [1].

Lemma flag_complete_refuted_R :
  exists (s : sexpr R) (o : oexpr R),
    sleaves_ok s /\ build variant_old s = Ok o /\ slin s = true /\ olin variant_old o = false.
Proof.
  exists wit_s, (ORVec true (OLeaf wit_f) [1]).
  split; [|split; [|split]]; try reflexivity.
  cbn [wit_s sleaves_ok]. apply (is_pool_ok R_ring). constructor.
Qed.

(* finding add-scalar-to-field-valued-operator-raises:  Operator.__add__ documents
   (A + a)(x) = A(x) + a for `a in A.range`; for an operator (not a Functional) whose range
   is the field, the overload builds OperatorVectorSum, whose __init__ rejects a field range:
   the expression is well-typed by the documentation but raises TypeError. *)
Definition wit_ip : leaf R := LIP 0 [1].
Lemma add_scalar_field_range_rejected_R :
  build variant_old (SAddC (SLeaf wit_ip) 1) = Err TypeErr.
Proof. reflexivity. Qed.
