(* C04/ProofsIP.v -- the in-place evaluation on poisoned buffers yields the out-of-place
   value whatever `out` contained before, for every object tree. *)
From Coq Require Import ZArith List Bool Ring Lia.
From Verif Require Import Base.Num Base.Vec C04.Model C04.ModelIP C04.VecRing C04.Proofs.
Import ListNotations.
Local Open Scope num_scope.

Section IPProofs.
Context {T : Type} {N : Num T}.
Hypothesis Rth : ring_theory nzero none_ nadd nmul nsub nopp (@eq T).
Hypothesis Hdiv : forall u c : T, u / c = (none_ / c) * u.
Hypothesis Heqb : forall a b : T, (a =? b) = true -> a = b.
Notation vec := (list T).
Notation pvec := (list (option T)).

Lemma unp_pure (v : vec) : unp (pure v) = Some v.
Proof. unfold pure; induction v as [|a v IH]; cbn [map unp]; [reflexivity | rewrite IH; reflexivity]. Qed.
Lemma pmap2_pure f (x y : vec) : pmap2 f (pure x) (pure y) = pure (vmap2 f x y).
Proof.
  unfold pure; revert y; induction x as [|a x IH]; intros [|b y]; cbn [map pmap2 vmap2 plift2]; try reflexivity.
  f_equal. apply IH.
Qed.
Lemma map_plift1_pure f (x : vec) : map (plift1 f) (pure x) = pure (map f x).
Proof. unfold pure; rewrite !map_map; reflexivity. Qed.
Lemma papply_pure f n (x : vec) : papply f n (pure x) = pure (f x).
Proof. unfold papply; rewrite unp_pure; reflexivity. Qed.

(* For every well-formed vector-valued object, every point of the domain and EVERY initial
   content of `out` (poison included), the in-place call leaves exactly the value of the
   in-place body on defined data, i.e. the out-of-place value. *)
Theorem ipp_sound : forall (o : oexpr T), wf o -> (exists n, oran o = SV n) ->
  forall (x : vec) (out : pvec), length x = dim (odom o) ->
    ipp o (pure x) out = pure (eval_ip o x).
Proof.
  induction o as [l|d c|d|fn a IHa b IHb|a IHa c|a IHa v|fn a IHa b IHb|fn a IHa c|fn a IHa c
                 |a IHa v|fn a IHa v|a IHa v|a IHa b IHb]; cbn [wf oran odom]; intros W [n Rn] x out Hx;
    cbn [ipp eval_ip]; try discriminate.
  - apply papply_pure.
  - destruct W as (Wa & Wb & Er & Ed & _).
    assert (Rb : exists k, oran b = SV k) by (exists n; congruence).
    rewrite (IHa Wa (ex_intro _ n Rn)) by assumption.
    rewrite (IHb Wb Rb) by congruence.
    apply pmap2_pure.
  - destruct W as (Wa & _). rewrite (IHa Wa (ex_intro _ n Rn)) by assumption. apply pmap2_pure.
  - destruct W as (Wa & Wb & Er & _). destruct (dom_sv a Wa) as [m Dm].
    assert (Rb : exists k, oran b = SV k) by (exists m; congruence).
    rewrite (IHb Wb Rb) by assumption.
    apply (IHa Wa (ex_intro _ n Rn)).
    rewrite (eval_ip_eq Rth), (eval_length b Wb x Hx). congruence.
  - destruct W as (Wa & _). rewrite (IHa Wa (ex_intro _ n Rn)) by assumption. apply map_plift1_pure.
  - destruct W as (Wa & _). rewrite map_plift1_pure. apply (IHa Wa (ex_intro _ n Rn)).
    rewrite vscal_length. assumption.
  - destruct W as (Wa & _). rewrite (IHa Wa (ex_intro _ n Rn)) by assumption. apply pmap2_pure.
  - destruct W as (Wa & Ed & _). rewrite pmap2_pure. apply (IHa Wa (ex_intro _ n Rn)).
    unfold vmul. rewrite vmap2_length, Hx, Ed. cbn [dim]. apply Nat.min_id.
  - rewrite unp_pure. reflexivity.
  - destruct W as (Wa & Wb & Er & Ed).
    assert (Rb : exists k, oran b = SV k) by (exists n; congruence).
    rewrite (IHa Wa (ex_intro _ n Rn)) by assumption.
    rewrite (IHb Wb Rb) by congruence.
    apply pmap2_pure.
Qed.

(* ... hence for whatever the overloads build from a vector-valued expression *)
Theorem build_inplace_sound : forall (vt : variant) (s : sexpr T) (o : oexpr T),
  sleaves_ok s -> build vt s = Ok o -> (exists n, sran s = SV n) ->
  forall (x : vec) (out : pvec), length x = dim (sdom s) ->
    ipp o (pure x) out = pure (denote s x).
Proof.
  intros vt s o L E [n Rn] x out Hx.
  destruct (build_sem Rth Hdiv Heqb vt s o L E) as (W & D & R & Ev).
  assert (Ro : exists k, oran o = SV k) by (exists n; congruence).
  rewrite (ipp_sound o W Ro x out) by congruence.
  rewrite (eval_ip_eq Rth), Ev by assumption. reflexivity.
Qed.
End IPProofs.
