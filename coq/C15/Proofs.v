(* C15/Proofs.v -- lemmas about C15/Model.v (R instance, Z/nat index logic). *)
From Coq Require Import ZArith QArith Reals Lra Lia List Bool.
From Verif Require Import Base.Num Base.Vec Base.VecR C15.Syntax Gen.InterpWeights C15.Model.
Import ListNotations.
Local Open Scope R_scope.

(* ------------------------------------------------------------------ *)
(* ascending coordinate vectors                                        *)
Definition Asc (c : list R) : Prop :=
  forall i j, (i < j)%nat -> (j < length c)%nat -> nth i c 0 < nth j c 0.

Lemma Asc_tail a c : Asc (a :: c) -> Asc c.
Proof. intros Ha i j Hij Hj. apply (Ha (S i) (S j)); cbn; lia. Qed.

Lemma Asc_head a c j : Asc (a :: c) -> (j < length c)%nat -> a < nth j c 0.
Proof. intros Ha Hj. apply (Ha O (S j)); cbn; lia. Qed.

Lemma Asc_le c i j : Asc c -> (i <= j)%nat -> (j < length c)%nat -> nth i c 0 <= nth j c 0.
Proof.
  intros Ha Hij Hj. destruct (Nat.eq_dec i j) as [->|Hne]; [lra|].
  left; apply Ha; lia.
Qed.

Lemma ascending_Asc (c : list R) : ascending c = true -> Asc c.
Proof.
  induction c as [|a c IH]; intros Hb i j Hij Hj; [cbn in Hj; lia|].
  destruct c as [|b c]; [cbn in Hj; lia|].
  cbn [ascending] in Hb. apply andb_true_iff in Hb as [Hab Hc]. numR.
  destruct (Rltb_spec a b) as [Hlt|]; [|discriminate].
  specialize (IH Hc).
  destruct j as [|j]; [lia|]. destruct i as [|i].
  - cbn [nth]. destruct j as [|j]; [exact Hlt|].
    eapply Rlt_trans; [exact Hlt|]. apply (IH O (S j)); cbn in *; lia.
  - cbn [nth]. apply IH; cbn in *; lia.
Qed.

(* ------------------------------------------------------------------ *)
(* searchsorted: the prefix of entries < x                            *)
Lemma ssleft_le (c : list R) x : (ssleft c x <= length c)%nat.
Proof. induction c as [|a c IH]; cbn [ssleft length]; [lia|]. numR. destruct (Rltb a x); lia. Qed.

Lemma ssleft_below (c : list R) x j : (j < ssleft c x)%nat -> nth j c 0 < x.
Proof.
  revert j; induction c as [|a c IH]; intros j Hj; cbn in Hj; [lia|].
  numR. destruct (Rltb_spec a x) as [Hlt|]; [|lia].
  destruct j; cbn; [exact Hlt | apply IH; lia].
Qed.

Lemma ssleft_at (c : list R) x : (ssleft c x < length c)%nat -> x <= nth (ssleft c x) c 0.
Proof.
  induction c as [|a c IH]; cbn; [lia|]. numR.
  destruct (Rltb_spec a x) as [Hlt|Hge]; intros Hk; cbn [nth length] in *; [apply IH; lia | lra].
Qed.

Lemma ssleft_above (c : list R) x j : Asc c -> (ssleft c x <= j)%nat -> (j < length c)%nat -> x <= nth j c 0.
Proof.
  intros Ha Hk Hj. apply Rle_trans with (nth (ssleft c x) c 0); [apply ssleft_at; lia|]. apply Asc_le; assumption.
Qed.

(* the count is determined by the position of x among the nodes *)
Lemma ssleft_unique (c : list R) x k : Asc c -> (k <= length c)%nat ->
  (forall j, (j < k)%nat -> nth j c 0 < x) -> ((k < length c)%nat -> x <= nth k c 0) -> ssleft c x = k.
Proof.
  intros Ha Hk Hlo Hhi.
  destruct (lt_eq_lt_dec (ssleft c x) k) as [[Hlt|Heq]|Hgt]; [|exact Heq|].
  - pose proof (Hlo _ Hlt). pose proof (ssleft_at c x ltac:(lia)). lra.
  - pose proof (ssleft_below c x k Hgt). pose proof (ssleft_le c x). specialize (Hhi ltac:(lia)). lra.
Qed.

(* ------------------------------------------------------------------ *)
(* cell index and normalised distance                                  *)
Lemma pyget_nat (c : list R) (i : nat) : pyget c (Z.of_nat i) = nth i c 0.
Proof.
  unfold pyget, wrap. destruct (Z.ltb_spec (Z.of_nat i) 0); [lia|]. now rewrite Nat2Z.id.
Qed.
Lemma pyget_nat1 (c : list R) (i : nat) : pyget c (Z.of_nat i + 1) = nth (S i) c 0.
Proof. replace (Z.of_nat i + 1)%Z with (Z.of_nat (S i)) by lia. apply pyget_nat. Qed.

Lemma wrap_nat n (i : nat) : wrap n (Z.of_nat i) = i.
Proof. unfold wrap. destruct (Z.ltb_spec (Z.of_nat i) 0); [lia|]. apply Nat2Z.id. Qed.
Lemma wrap_nat1 n (i : nat) : wrap n (Z.of_nat i + 1) = S i.
Proof. replace (Z.of_nat i + 1)%Z with (Z.of_nat (S i)) by lia. apply wrap_nat. Qed.
Lemma wrap_m1 n : (1 <= n)%nat -> wrap n (-1) = (n - 1)%nat.
Proof. intros Hn. unfold wrap. change (-1 <? 0)%Z with true. cbv iota. lia. Qed.
Lemma wrap_0 n : wrap n 0 = O.
Proof. reflexivity. Qed.

Definition cellnat (c : list R) (x : R) : nat := Nat.min (Nat.pred (ssleft c x)) (length c - 2).

Lemma cell_index_nat (c : list R) x : (2 <= length c)%nat -> cell_index c x = Z.of_nat (cellnat c x).
Proof.
  intros Hn. unfold cell_index, gen_cell_index, cellnat. cbv zeta.
  repeat match goal with
  | |- context [(?a <? ?b)%Z] =>
      lazymatch a with context [if _ then _ else _] => fail | _ =>
      lazymatch b with context [if _ then _ else _] => fail | _ => destruct (Z.ltb_spec a b) end end
  end; lia.
Qed.

(* position of x relative to the grid, and what the search returns *)
Inductive position (c : list R) (x : R) (i : nat) : Prop :=
| PLow : x <= nth 0 c 0 -> i = O -> position c x i
| PIn : nth i c 0 < x -> x <= nth (S i) c 0 -> position c x i
| PHigh : nth (length c - 1) c 0 < x -> i = (length c - 2)%nat -> position c x i.

Lemma cell_position (c : list R) x : Asc c -> (2 <= length c)%nat ->
  (S (cellnat c x) < length c)%nat /\ position c x (cellnat c x).
Proof.
  intros Ha Hn. unfold cellnat. pose proof (ssleft_le c x) as Hk.
  split; [lia|].
  destruct (ssleft c x) as [|k] eqn:Ek.
  - apply PLow; [|cbn; lia]. pose proof (ssleft_at c x ltac:(lia)) as H0. now rewrite Ek in H0.
  - cbn [Nat.pred]. destruct (Nat.eq_dec (S k) (length c)) as [Hfull|Hnot].
    + apply PHigh; [|lia]. apply ssleft_below. lia.
    + replace (Nat.min k (length c - 2)) with k by lia.
      apply PIn; [apply ssleft_below; lia|]. rewrite <- Ek. apply ssleft_at. lia.
Qed.

Lemma norm_dist_nat (c : list R) x : (2 <= length c)%nat ->
  norm_dist c x = (x - nth (cellnat c x) c 0) / (nth (S (cellnat c x)) c 0 - nth (cellnat c x) c 0).
Proof.
  intros Hn. unfold norm_dist, gen_norm_dist. cbv zeta. rewrite (cell_index_nat c x Hn), pyget_nat, pyget_nat1. reflexivity.
Qed.

(* ------------------------------------------------------------------ *)
(* the three regimes of the weight/edge helpers                        *)
(* the proofs below are ABOUT THE REGENERATED helpers (Gen/InterpWeights.v): if the source of
   _compute_*_weights_edge / _find_indices / _NearestInterpolator._evaluate changes its rules,
   these lemmas are re-checked against the new text *)
Lemma nhalf_R : @of_Q R _ (1 # 2)%Q = 1 / 2.
Proof. unfold of_Q. numR. cbn. reflexivity. Qed.

Ltac unfold_gen :=
  unfold weights_edge, gen_weights_edge, gen_nearest_weights_edge, gen_linear_weights_edge; cbv zeta;
  rewrite ?nhalf_R; numR.

Lemma we_in s (i : Z) y : 0 <= y <= 1 ->
  weights_edge s i y =
  match s with
  | SNearest => mkax i (i + 1) (if Rltb y (1 / 2) then 1 else 0) (if Rltb y (1 / 2) then 0 else 1)
  | SLinear => mkax i (i + 1) (1 - y) y
  end.
Proof.
  intros Hy. destruct s; unfold_gen;
  (destruct (Rltb_spec y 0); [lra|]); (destruct (Rltb_spec 1 y); [lra|]); reflexivity.
Qed.

Lemma we_lo s (i : Z) y : y < 0 ->
  weights_edge s i y = mkax i 0 0 (match s with SNearest => 1 | SLinear => y + 1 end).
Proof.
  intros Hy. destruct s; unfold_gen;
  (destruct (Rltb_spec y 0); [|lra]); (destruct (Rltb_spec 1 y); [lra|]);
  try (destruct (Rltb y (1 / 2))); first [reflexivity | f_equal; lra].
Qed.

Lemma we_hi s (i : Z) y : 1 < y ->
  weights_edge s i y = mkax (-1) (i + 1) (match s with SNearest => 1 | SLinear => (1 - y) + 1 end) 0.
Proof.
  intros Hy. destruct s; unfold_gen;
  (destruct (Rltb_spec y 0); [lra|]); (destruct (Rltb_spec 1 y); [|lra]);
  try (destruct (Rltb y (1 / 2))); first [reflexivity | f_equal; lra].
Qed.

Lemma axis_data_ge2 s (c : list R) x : (2 <= length c)%nat ->
  axis_data s c x = weights_edge s (cell_index c x) (norm_dist c x).
Proof. destruct c as [|a [|b c]]; cbn [length]; intros Hn; try lia; reflexivity. Qed.

(* what one axis contributes: the two nodes read (after NumPy wrap-around) and their weights *)
Definition blend (n : nat) (a : axdat R) (G : nat -> R) : R :=
  w_lo a * G (wrap n (e_lo a)) + w_hi a * G (wrap n (e_hi a)).

(* regime analysis packaged: i = cell found, y = normalised distance *)
Lemma regime (c : list R) x : Asc c -> (2 <= length c)%nat ->
  let i := cellnat c x in let y := norm_dist c x in
  (S i < length c)%nat /\ nth i c 0 < nth (S i) c 0 /\
  y = (x - nth i c 0) / (nth (S i) c 0 - nth i c 0) /\
  ( (x < nth 0 c 0 /\ i = O /\ y < 0)
    \/ (nth 0 c 0 <= x <= nth (length c - 1) c 0 /\ nth i c 0 <= x <= nth (S i) c 0 /\ 0 <= y <= 1
        /\ (nth i c 0 = x -> i = O))
    \/ (nth (length c - 1) c 0 < x /\ i = (length c - 2)%nat /\ 1 < y) ).
Proof.
  intros Ha Hn i y. destruct (cell_position c x Ha Hn) as [Hi Hpos]. fold i in Hi, Hpos.
  assert (Hlt : nth i c 0 < nth (S i) c 0) by (apply Ha; lia).
  assert (Hy : y = (x - nth i c 0) / (nth (S i) c 0 - nth i c 0)) by (apply norm_dist_nat; exact Hn).
  split; [exact Hi|]. split; [exact Hlt|]. split; [exact Hy|].
  assert (Hd : 0 < nth (S i) c 0 - nth i c 0) by lra.
  destruct Hpos as [Hx H0 | Hlo Hhi | Hx Hlast].
  - destruct (Rle_lt_or_eq_dec _ _ Hx) as [Hxl|Hxe].
    + left. split; [exact Hxl|]. split; [exact H0|]. rewrite Hy, H0 in *.
      apply Rmult_lt_reg_r with (nth 1 c 0 - nth 0 c 0); [exact Hd|].
      unfold Rdiv. rewrite Rmult_assoc, Rinv_l by lra. lra.
    + right; left. rewrite H0 in *. split.
      { split; [lra|]. rewrite Hxe. apply Asc_le; [exact Ha|lia|lia]. }
      split; [lra|]. split; [|intros _; reflexivity].
      rewrite Hy, Hxe. unfold Rdiv. replace (nth 0 c 0 - nth 0 c 0) with 0 by lra. lra.
  - right; left. split.
    { split.
      - apply Rle_trans with (nth i c 0); [apply Asc_le; [exact Ha|lia|lia] | lra].
      - apply Rle_trans with (nth (S i) c 0); [exact Hhi | apply Asc_le; [exact Ha|lia|lia]]. }
    split; [lra|]. split; [|intros He; lra].
    rewrite Hy. split.
    + apply Rmult_le_reg_r with (nth (S i) c 0 - nth i c 0); [exact Hd|].
      unfold Rdiv. rewrite Rmult_assoc, Rinv_l by lra. lra.
    + apply Rmult_le_reg_r with (nth (S i) c 0 - nth i c 0); [exact Hd|].
      unfold Rdiv. rewrite Rmult_assoc, Rinv_l by lra. lra.
  - right; right. split; [exact Hx|]. split; [exact Hlast|].
    rewrite Hy. apply Rmult_lt_reg_r with (nth (S i) c 0 - nth i c 0); [exact Hd|].
    unfold Rdiv. rewrite Rmult_assoc, Rinv_l by lra.
    replace (S i) with (length c - 1)%nat in * by lia. lra.
Qed.

(* ------------------------------------------------------------------ *)
(* one axis: linear                                                    *)
(* inside the hull, for EVERY cell [c_i, c_{i+1}] that contains x (the search may pick the
   neighbouring one when x is a node; the value is the same) *)
Lemma blend_linear_in (c : list R) x (G : nat -> R) i : Asc c -> (S i < length c)%nat ->
  nth i c 0 <= x <= nth (S i) c 0 ->
  let t := (x - nth i c 0) / (nth (S i) c 0 - nth i c 0) in
  blend (length c) (axis_data SLinear c x) G = (1 - t) * G i + t * G (S i).
Proof.
  intros Ha Hi Hx t. assert (Hn : (2 <= length c)%nat) by lia.
  destruct (regime c x Ha Hn) as (Hi' & Hlt & Hy & Hreg).
  set (k := cellnat c x) in *. set (y := norm_dist c x) in *.
  assert (Hci : nth i c 0 < nth (S i) c 0) by (apply Ha; lia).
  destruct Hreg as [(Hxl & _ & _) | [(Hhull & Hcell & Hy01 & Hk0) | (Hxh & _ & _)]].
  - exfalso. pose proof (Asc_le c O i Ha ltac:(lia) ltac:(lia)). lra.
  - rewrite (axis_data_ge2 _ _ _ Hn). fold y. rewrite (cell_index_nat c x Hn). fold k.
    rewrite (we_in SLinear _ y Hy01). unfold blend. cbn [e_lo e_hi w_lo w_hi].
    rewrite wrap_nat, wrap_nat1.
    destruct (lt_eq_lt_dec i k) as [[Hik|Hik]|Hik].
    + (* i < k: then c_{i+1} <= c_k <= x <= c_{i+1}, so x = c_k, k = 0: impossible *)
      exfalso. pose proof (Asc_le c (S i) k Ha ltac:(lia) ltac:(lia)) as Hle.
      assert (Hkx : nth k c 0 = x) by lra. specialize (Hk0 Hkx). lia.
    + subst i. fold t. subst t. rewrite <- Hy. reflexivity.
    + (* k < i: c_{k+1} <= c_i <= x <= c_{k+1}: x = c_i = c_{k+1}, so i = k+1, y = 1, t = 0 *)
      pose proof (Asc_le c (S k) i Ha ltac:(lia) ltac:(lia)) as Hle.
      assert (Hxi : x = nth i c 0) by lra. assert (Hxk : x = nth (S k) c 0) by lra.
      assert (i = S k).
      { destruct (Nat.eq_dec i (S k)) as [|Hne]; [assumption|].
        pose proof (Ha (S k) i ltac:(lia) ltac:(lia)). lra. }
      subst i. assert (Hy1 : y = 1). { rewrite Hy, Hxk. field. lra. }
      assert (Ht0 : t = 0). { subst t. rewrite Hxi. unfold Rdiv. replace (nth (S k) c 0 - nth (S k) c 0) with 0 by lra. lra. }
      rewrite Hy1, Ht0. lra.
  - exfalso. pose proof (Asc_le c (S i) (length c - 1) Ha ltac:(lia) ltac:(lia)). lra.
Qed.

(* the documented extension outside the hull: linear decay to 0 over one cell width
   (and linear continuation beyond it) *)
Lemma blend_linear_low (c : list R) x (G : nat -> R) : Asc c -> (2 <= length c)%nat -> x < nth 0 c 0 ->
  blend (length c) (axis_data SLinear c x) G = (1 - (nth 0 c 0 - x) / (nth 1 c 0 - nth 0 c 0)) * G O.
Proof.
  intros Ha Hn Hx. destruct (regime c x Ha Hn) as (Hi' & Hlt & Hy & Hreg).
  set (k := cellnat c x) in *. set (y := norm_dist c x) in *.
  destruct Hreg as [(_ & Hk & Hy0) | [(Hhull & _) | (Hxh & _ & _)]].
  - rewrite (axis_data_ge2 _ _ _ Hn). fold y. rewrite (we_lo SLinear _ y Hy0).
    unfold blend. cbn [e_lo e_hi w_lo w_hi]. rewrite wrap_0, Hy, Hk. field. rewrite Hk in Hlt. lra.
  - lra.
  - pose proof (Asc_le c O (length c - 1) Ha ltac:(lia) ltac:(lia)). lra.
Qed.

Lemma blend_linear_high (c : list R) x (G : nat -> R) : Asc c -> (2 <= length c)%nat ->
  nth (length c - 1) c 0 < x ->
  blend (length c) (axis_data SLinear c x) G =
  (1 - (x - nth (length c - 1) c 0) / (nth (length c - 1) c 0 - nth (length c - 2) c 0)) * G (length c - 1)%nat.
Proof.
  intros Ha Hn Hx. destruct (regime c x Ha Hn) as (Hi' & Hlt & Hy & Hreg).
  set (k := cellnat c x) in *. set (y := norm_dist c x) in *.
  destruct Hreg as [(Hxl & _) | [(Hhull & _) | (_ & Hk & Hy1)]].
  - pose proof (Asc_le c O (length c - 1) Ha ltac:(lia) ltac:(lia)). lra.
  - lra.
  - rewrite (axis_data_ge2 _ _ _ Hn). fold y. rewrite (we_hi SLinear _ y Hy1).
    unfold blend. cbn [e_lo e_hi w_lo w_hi]. rewrite wrap_m1 by lia. rewrite Hy, Hk.
    assert (HS : S (length c - 2) = (length c - 1)%nat) by lia.
    rewrite Hk in Hlt. rewrite HS in *. field. lra.
Qed.

(* inside the hull the two weights are a convex pair and reproduce x *)
Lemma weights_in_hull s (c : list R) x : Asc c -> (2 <= length c)%nat ->
  nth 0 c 0 <= x <= nth (length c - 1) c 0 ->
  let a := axis_data s c x in
  w_lo a + w_hi a = 1 /\ 0 <= w_lo a /\ 0 <= w_hi a /\
  (s = SLinear -> w_lo a * nth (wrap (length c) (e_lo a)) c 0 + w_hi a * nth (wrap (length c) (e_hi a)) c 0 = x).
Proof.
  intros Ha Hn Hx a. destruct (regime c x Ha Hn) as (Hi' & Hlt & Hy & Hreg).
  set (k := cellnat c x) in *. set (y := norm_dist c x) in *.
  destruct Hreg as [(Hxl & _) | [(_ & Hcell & Hy01 & _) | (Hxh & _)]]; [lra| |lra].
  subst a. rewrite (axis_data_ge2 _ _ _ Hn). fold y. rewrite (cell_index_nat c x Hn). fold k.
  rewrite (we_in s _ y Hy01). destruct s; cbn [e_lo e_hi w_lo w_hi].
  - destruct (Rltb y (1 / 2)); repeat split; try lra; intros; discriminate.
  - repeat split; try lra. intros _. rewrite wrap_nat, wrap_nat1, Hy. field. lra.
Qed.

(* ------------------------------------------------------------------ *)
(* one axis: nearest                                                   *)
Definition nearest_nat (c : list R) (x : R) : nat :=
  match c with
  | [_] => O
  | _ => if Rltb (norm_dist c x) (1 / 2) then cellnat c x else S (cellnat c x)
  end.

Lemma nearest_nat_ge2 (c : list R) x : (2 <= length c)%nat ->
  nearest_nat c x = if Rltb (norm_dist c x) (1 / 2) then cellnat c x else S (cellnat c x).
Proof. destruct c as [|a [|b c]]; cbn [length]; intros Hn; try lia; reflexivity. Qed.

(* _NearestInterpolator's subscript *)
Lemma nearest_index_nat (c : list R) x : (1 <= length c)%nat ->
  nearest_index c x = Z.of_nat (nearest_nat c x).
Proof.
  intros Hn. destruct c as [|a [|b c]]; [cbn in Hn; lia | reflexivity |].
  unfold nearest_index, nearest_nat, gen_nearest_pick. rewrite nhalf_R. numR.
  rewrite cell_index_nat by (cbn; lia).
  destruct (Rltb _ _); lia.
Qed.

(* per-axis 'nearest' weights: in every regime exactly the node [nearest_nat] is read with weight 1 *)
Lemma blend_nearest (c : list R) x (G : nat -> R) : Asc c -> (1 <= length c)%nat ->
  blend (length c) (axis_data SNearest c x) G = G (nearest_nat c x).
Proof.
  intros Ha Hn. destruct (Nat.eq_dec (length c) 1) as [H1|H1].
  - destruct c as [|a [|b c]]; cbn in H1; try lia. unfold blend; cbn. lra.
  - assert (Hn2 : (2 <= length c)%nat) by lia.
    destruct (regime c x Ha Hn2) as (Hi' & Hlt & Hy & Hreg).
    rewrite (nearest_nat_ge2 c x Hn2), (axis_data_ge2 _ _ _ Hn2), (cell_index_nat c x Hn2).
    set (k := cellnat c x) in *. set (y := norm_dist c x) in *.
    destruct Hreg as [(_ & Hk & Hy0) | [(_ & _ & Hy01 & _) | (_ & Hk & Hy1)]].
    + rewrite (we_lo SNearest _ y Hy0). unfold blend; cbn [e_lo e_hi w_lo w_hi].
      destruct (Rltb_spec y (1 / 2)); [|lra]. rewrite wrap_0, Hk. lra.
    + rewrite (we_in SNearest _ y Hy01). unfold blend; cbn [e_lo e_hi w_lo w_hi].
      rewrite wrap_nat, wrap_nat1. destruct (Rltb y (1 / 2)); lra.
    + rewrite (we_hi SNearest _ y Hy1). unfold blend; cbn [e_lo e_hi w_lo w_hi].
      destruct (Rltb_spec y (1 / 2)); [lra|]. rewrite wrap_m1 by lia.
      replace (S k) with (length c - 1)%nat by lia. lra.
Qed.

(* the node that is read is a closest node, and the rightmost of the closest ones *)
Definition closest (c : list R) (x : R) (j : nat) : Prop :=
  (j < length c)%nat /\
  forall m, (m < length c)%nat ->
    Rabs (x - nth j c 0) <= Rabs (x - nth m c 0) /\ ((j < m)%nat -> Rabs (x - nth j c 0) < Rabs (x - nth m c 0)).

Lemma nearest_closest (c : list R) x : Asc c -> (1 <= length c)%nat -> closest c x (nearest_nat c x).
Proof.
  intros Ha Hn. destruct (Nat.eq_dec (length c) 1) as [H1|H1].
  - destruct c as [|a [|b c]]; cbn in H1; try lia. split; [cbn; lia|].
    intros m Hm. cbn in Hm. assert (m = O) by lia. subst m. cbn. split; [lra|lia].
  - assert (Hn2 : (2 <= length c)%nat) by lia.
    destruct (regime c x Ha Hn2) as (Hi' & Hlt & Hy & Hreg).
    rewrite (nearest_nat_ge2 c x Hn2).
    set (k := cellnat c x) in *. set (y := norm_dist c x) in *.
    assert (Hd : 0 < nth (S k) c 0 - nth k c 0) by lra.
    assert (Hyx : y * (nth (S k) c 0 - nth k c 0) = x - nth k c 0).
    { rewrite Hy. field. lra. }
    destruct (Rltb_spec y (1 / 2)) as [Hh|Hh].
    + (* closer to the lower node of the cell (or below the grid) *)
      split; [lia|]. intros m Hm.
      assert (Hxk : x - nth k c 0 < nth (S k) c 0 - x) by nra.
      destruct (le_lt_dec m k) as [Hmk|Hmk].
      * pose proof (Asc_le c m k Ha Hmk ltac:(lia)) as Hle. split; [|lia].
        destruct Hreg as [(Hx0 & Hk & _) | [(_ & Hcell & _) | (_ & _ & Hy1)]]; [| |lra].
        { assert (m = O) by lia. subst m. rewrite Hk. lra. }
        rewrite !Rabs_pos_eq by lra. lra.
      * pose proof (Asc_le c (S k) m Ha ltac:(lia) Hm) as Hle.
        assert (Hgoal : Rabs (x - nth k c 0) < Rabs (x - nth m c 0)).
        { rewrite (Rabs_left1 (x - nth m c 0)) by lra.
          unfold Rabs. destruct (Rcase_abs (x - nth k c 0)); lra. }
        split; [lra | intros _; exact Hgoal].
    + (* at least as close to the upper node (ties go right), or above the grid *)
      split; [lia|]. intros m Hm.
      assert (Hxk : nth (S k) c 0 - x <= x - nth k c 0) by nra.
      destruct (le_lt_dec m k) as [Hmk|Hmk].
      * pose proof (Asc_le c m k Ha Hmk ltac:(lia)) as Hle. split; [|lia].
        rewrite (Rabs_pos_eq (x - nth m c 0)) by lra.
        unfold Rabs. destruct (Rcase_abs (x - nth (S k) c 0)); lra.
      * destruct (Nat.eq_dec m (S k)) as [->|Hne]; [split; [lra|lia]|].
        pose proof (Ha (S k) m ltac:(lia) Hm) as Hlt2.
        destruct Hreg as [(_ & _ & Hy0) | [(_ & Hcell & _) | (Hxh & Hk & _)]]; [lra| |lia].
        assert (Hgoal : Rabs (x - nth (S k) c 0) < Rabs (x - nth m c 0)).
        { rewrite !Rabs_left1 by lra. lra. }
        split; [lra | intros _; exact Hgoal].
Qed.

Lemma closest_unique (c : list R) x j j' : closest c x j -> closest c x j' -> j = j'.
Proof.
  intros [Hj H1] [Hj' H2].
  destruct (lt_eq_lt_dec j j') as [[Hlt|Heq]|Hgt]; [|exact Heq|].
  - destruct (H1 j' Hj') as [_ Hs]. destruct (H2 j Hj) as [Hle _]. specialize (Hs Hlt). lra.
  - destruct (H2 j Hj) as [_ Hs]. destruct (H1 j' Hj') as [Hle _]. specialize (Hs Hgt). lra.
Qed.

(* ------------------------------------------------------------------ *)
(* the corner sum is a tensor product of the per-axis blends            *)
Lemma sumf_scale_corners (v : list Z -> R) e w (l : list (list Z * R)) :
  sumf (map (fun iw : list Z * R => v (e :: fst iw) * (w * snd iw)) l) =
  w * sumf (map (fun iw : list Z * R => v (e :: fst iw) * snd iw) l).
Proof.
  induction l as [|p l IH]; cbn [map sumf]; numR; [lra|]. rewrite IH. numR. lra.
Qed.

Lemma corner_sum_nil (v : list Z -> R) : corner_sum v [] = v [].
Proof. unfold corner_sum. cbn. numR. lra. Qed.

Lemma corner_sum_cons (v : list Z -> R) a r :
  corner_sum v (a :: r) =
  w_lo a * corner_sum (fun ix => v (e_lo a :: ix)) r + w_hi a * corner_sum (fun ix => v (e_hi a :: ix)) r.
Proof.
  unfold corner_sum. cbn [corners]. rewrite map_app, sumf_app, !map_map. cbn [fst snd]. numR.
  rewrite !sumf_scale_corners. reflexivity.
Qed.

Lemma corner_sum_wrapped_cons n sh (G : list nat -> R) a r :
  corner_sum (wrapped (n :: sh) G) (a :: r) =
  blend n a (fun j => corner_sum (wrapped sh (fun js => G (j :: js))) r).
Proof. rewrite corner_sum_cons. reflexivity. Qed.

(* axes as triples (scheme, coordinate vector, evaluation coordinate) *)
Definition axis := (scheme * list R * R)%type.
Definition a_s (t : axis) : scheme := fst (fst t).
Definition a_c (t : axis) : list R := snd (fst t).
Definition a_x (t : axis) : R := snd t.
Definition axd_of (t : axis) : axdat R := axis_data (a_s t) (a_c t) (a_x t).
Definition shape_of (axes : list axis) : list nat := map (fun t => length (a_c t)) axes.

Lemma map3_maps {A B C D E} (f : B -> C -> D -> E) (g1 : A -> B) (g2 : A -> C) (g3 : A -> D) (l : list A) :
  map3 f (map g1 l) (map g2 l) (map g3 l) = map (fun a => f (g1 a) (g2 a) (g3 a)) l.
Proof. induction l as [|a l IH]; cbn; [reflexivity | now rewrite IH]. Qed.
Lemma map2_maps {A B C E} (f : B -> C -> E) (g1 : A -> B) (g2 : A -> C) (l : list A) :
  map2 f (map g1 l) (map g2 l) = map (fun a => f (g1 a) (g2 a)) l.
Proof. induction l as [|a l IH]; cbn; [reflexivity | now rewrite IH]. Qed.

Lemma peraxis_point_axes (axes : list axis) (v : list Z -> R) :
  peraxis_point (map a_s axes) (map a_c axes) v (map a_x axes) = corner_sum v (map axd_of axes).
Proof. unfold peraxis_point. rewrite map3_maps. reflexivity. Qed.

(* the recursive (tensor-product) reading of the corner sum *)
Fixpoint tensor_eval (axes : list axis) (G : list nat -> R) : R :=
  match axes with
  | [] => G []
  | t :: r => blend (length (a_c t)) (axd_of t) (fun j => tensor_eval r (fun js => G (j :: js)))
  end.

Lemma blend_ext n a (G G' : nat -> R) : (forall j, G j = G' j) -> blend n a G = blend n a G'.
Proof. intros He. unfold blend. now rewrite !He. Qed.

Lemma corner_sum_tensor (axes : list axis) (G : list nat -> R) :
  corner_sum (wrapped (shape_of axes) G) (map axd_of axes) = tensor_eval axes G.
Proof.
  revert G; induction axes as [|t r IH]; intros G.
  - cbn [shape_of map tensor_eval]. rewrite corner_sum_nil. reflexivity.
  - cbn [shape_of map tensor_eval]. rewrite corner_sum_wrapped_cons.
    apply blend_ext. intros j. apply IH.
Qed.

Lemma peraxis_tensor (axes : list axis) (G : list nat -> R) :
  peraxis_point (map a_s axes) (map a_c axes) (wrapped (shape_of axes) G) (map a_x axes) = tensor_eval axes G.
Proof. rewrite peraxis_point_axes. apply corner_sum_tensor. Qed.

(* linear in the values (so real and imaginary parts are interpolated separately) *)
Lemma tensor_eval_linear (axes : list axis) (G H : list nat -> R) a b :
  tensor_eval axes (fun js => a * G js + b * H js) = a * tensor_eval axes G + b * tensor_eval axes H.
Proof.
  revert G H; induction axes as [|t r IH]; intros G H; cbn [tensor_eval]; [reflexivity|].
  unfold blend. rewrite !IH. lra.
Qed.

Lemma tensor_eval_ext (axes : list axis) (G H : list nat -> R) :
  (forall js, G js = H js) -> tensor_eval axes G = tensor_eval axes H.
Proof.
  revert G H; induction axes as [|t r IH]; intros G H He; cbn [tensor_eval]; [apply He|].
  apply blend_ext. intros j. apply IH. intros js. apply He.
Qed.

(* ------------------------------------------------------------------ *)
(* admissible axes                                                     *)
Definition good_axis (s : scheme) (c : list R) : Prop :=
  Asc c /\ ((2 <= length c)%nat \/ (s = SNearest /\ length c = 1%nat)).

Lemma nearest_nat_node (c : list R) j : Asc c -> (j < length c)%nat -> nearest_nat c (nth j c 0) = j.
Proof.
  intros Ha Hj. apply closest_unique with c (nth j c 0).
  - apply nearest_closest; [exact Ha | lia].
  - split; [exact Hj|]. intros m Hm. replace (nth j c 0 - nth j c 0) with 0 by lra. rewrite Rabs_R0.
    split; [apply Rabs_pos|]. intros Hjm. apply Rabs_pos_lt. pose proof (Ha j m Hjm Hm). lra.
Qed.

(* node reproduction on one axis, both schemes *)
Lemma blend_node s (c : list R) j (G : nat -> R) : good_axis s c -> (j < length c)%nat ->
  blend (length c) (axis_data s c (nth j c 0)) G = G j.
Proof.
  intros [Ha Hlen] Hj. destruct s.
  - rewrite blend_nearest by (assumption || lia). now rewrite nearest_nat_node.
  - destruct Hlen as [Hn|[Hs _]]; [|discriminate].
    destruct (Nat.eq_dec (S j) (length c)) as [Hlast|Hnl].
    + (* last node: cell [c_{j-1}, c_j], t = 1 *)
      destruct j as [|j']; [lia|].
      pose proof (Ha j' (S j') ltac:(lia) Hj) as Hlt.
      rewrite (blend_linear_in c (nth (S j') c 0) G j' Ha Hj) by lra.
      replace ((nth (S j') c 0 - nth j' c 0) / (nth (S j') c 0 - nth j' c 0)) with 1 by (field; lra). lra.
    + pose proof (Ha j (S j) ltac:(lia) ltac:(lia)) as Hlt.
      rewrite (blend_linear_in c (nth j c 0) G j Ha ltac:(lia)) by lra.
      replace ((nth j c 0 - nth j c 0) / (nth (S j) c 0 - nth j c 0)) with 0 by (field; lra). lra.
Qed.

(* ------------------------------------------------------------------ *)
(* d dimensions: node reproduction, any per-axis mix                    *)
Definition naxis := (scheme * list R * nat)%type.
Definition n_j (t : naxis) : nat := snd t.
Definition at_node (t : naxis) : axis := (fst (fst t), snd (fst t), nth (snd t) (snd (fst t)) 0).
Definition node_ok (t : naxis) : Prop := good_axis (fst (fst t)) (snd (fst t)) /\ (snd t < length (snd (fst t)))%nat.

Lemma tensor_eval_node (naxes : list naxis) (G : list nat -> R) :
  Forall node_ok naxes -> tensor_eval (map at_node naxes) G = G (map n_j naxes).
Proof.
  revert G; induction naxes as [|[[s c] j] r IH]; intros G Hok; [reflexivity|].
  inversion Hok as [|? ? [Hg Hj] Hr]; subst. cbn [map tensor_eval].
  unfold axd_of, a_s, a_c, a_x, at_node at 1 2 3 4. cbn [fst snd] in *.
  rewrite (blend_ext _ _ _ (fun j' => G (j' :: map n_j r))) by (intros j'; apply IH; exact Hr).
  rewrite blend_node by assumption. reflexivity.
Qed.

(* ------------------------------------------------------------------ *)
(* d dimensions: all axes nearest                                      *)
Definition nearest_ok (t : axis) : Prop := a_s t = SNearest /\ Asc (a_c t) /\ (1 <= length (a_c t))%nat.
Definition nearest_js (axes : list axis) : list nat := map (fun t => nearest_nat (a_c t) (a_x t)) axes.

Lemma tensor_eval_nearest (axes : list axis) (G : list nat -> R) :
  Forall nearest_ok axes -> tensor_eval axes G = G (nearest_js axes).
Proof.
  revert G; induction axes as [|t r IH]; intros G Hok; [reflexivity|].
  inversion Hok as [|? ? (Hs & Ha & Hn) Hr]; subst. cbn [tensor_eval nearest_js map].
  rewrite (blend_ext _ _ _ (fun j' => G (j' :: nearest_js r))) by (intros j'; apply IH; exact Hr).
  unfold axd_of. rewrite Hs. rewrite blend_nearest by assumption. reflexivity.
Qed.

Lemma nearest_point_axes (axes : list axis) (G : list nat -> R) :
  Forall nearest_ok axes ->
  nearest_point (map a_c axes) (wrapped (shape_of axes) G) (map a_x axes) = G (nearest_js axes).
Proof.
  intros Hok. unfold nearest_point, wrapped. f_equal. rewrite map2_maps. unfold shape_of, nearest_js.
  induction axes as [|t r IH]; [reflexivity|].
  inversion Hok as [|? ? (Hs & Ha & Hn) Hr]; subst. cbn [map map2].
  rewrite nearest_index_nat by exact Hn. rewrite wrap_nat. f_equal. apply IH. exact Hr.
Qed.

(* ------------------------------------------------------------------ *)
(* d dimensions: the multilinear / mixed blend inside the hull           *)
Definition lin_t (t : axis) (i : nat) : R :=
  (a_x t - nth i (a_c t) 0) / (nth (S i) (a_c t) 0 - nth i (a_c t) 0).

Fixpoint mblend (ca : list (axis * nat)) (G : list nat -> R) : R :=
  match ca with
  | [] => G []
  | (t, i) :: r =>
      match a_s t with
      | SLinear => (1 - lin_t t i) * mblend r (fun js => G (i :: js)) + lin_t t i * mblend r (fun js => G (S i :: js))
      | SNearest => mblend r (fun js => G (nearest_nat (a_c t) (a_x t) :: js))
      end
  end.

Definition cell_ok (ti : axis * nat) : Prop :=
  let t := fst ti in let i := snd ti in
  Asc (a_c t) /\
  match a_s t with
  | SLinear => (S i < length (a_c t))%nat /\ nth i (a_c t) 0 <= a_x t <= nth (S i) (a_c t) 0
  | SNearest => (1 <= length (a_c t))%nat
  end.

Lemma tensor_eval_mblend (ca : list (axis * nat)) (G : list nat -> R) :
  Forall cell_ok ca -> tensor_eval (map fst ca) G = mblend ca G.
Proof.
  revert G; induction ca as [|[t i] r IH]; intros G Hok; [reflexivity|].
  inversion Hok as [|? ? [Ha Hc] Hr]; subst. cbn [fst snd] in Ha, Hc.
  cbn [map fst tensor_eval mblend]. unfold axd_of.
  destruct (a_s t) eqn:Es.
  - rewrite blend_nearest by assumption. apply IH. exact Hr.
  - destruct Hc as [Hi Hx]. rewrite (blend_linear_in _ _ _ i Ha Hi Hx). unfold lin_t.
    rewrite !IH by exact Hr. reflexivity.
Qed.

(* ------------------------------------------------------------------ *)
(* which nodes an axis reads: always inside the array                    *)
Lemma axis_reads_in_range s (c : list R) x : Asc c -> (1 <= length c)%nat ->
  (wrap (length c) (e_lo (axis_data s c x)) < length c)%nat /\
  (wrap (length c) (e_hi (axis_data s c x)) < length c)%nat.
Proof.
  intros Ha Hn. destruct (Nat.eq_dec (length c) 1) as [H1|H1].
  - destruct c as [|a [|b c]]; cbn in H1; try lia. cbn. lia.
  - assert (Hn2 : (2 <= length c)%nat) by lia.
    destruct (regime c x Ha Hn2) as (Hi' & _ & _ & Hreg).
    rewrite (axis_data_ge2 _ _ _ Hn2), (cell_index_nat c x Hn2).
    set (k := cellnat c x) in *. set (y := norm_dist c x) in *.
    destruct Hreg as [(_ & _ & Hy0) | [(_ & _ & Hy01 & _) | (_ & _ & Hy1)]].
    + rewrite (we_lo s _ y Hy0). cbn [e_lo e_hi]. rewrite wrap_nat, wrap_0. lia.
    + rewrite (we_in s _ y Hy01). destruct s; cbn [e_lo e_hi]; rewrite wrap_nat, wrap_nat1; lia.
    + rewrite (we_hi s _ y Hy1). cbn [e_lo e_hi]. rewrite wrap_m1, wrap_nat1 by lia. lia.
Qed.

Lemma blend_ext_range s (c : list R) x (G G' : nat -> R) : Asc c -> (1 <= length c)%nat ->
  (forall j, (j < length c)%nat -> G j = G' j) ->
  blend (length c) (axis_data s c x) G = blend (length c) (axis_data s c x) G'.
Proof.
  intros Ha Hn He. destruct (axis_reads_in_range s c x Ha Hn) as [H1 H2].
  unfold blend. now rewrite (He _ H1), (He _ H2).
Qed.

(* ------------------------------------------------------------------ *)
(* d dimensions: constants (any mix) and affine functions (all linear)    *)
Definition hull_ok (t : axis) : Prop :=
  Asc (a_c t) /\ (2 <= length (a_c t))%nat /\ nth 0 (a_c t) 0 <= a_x t <= nth (length (a_c t) - 1) (a_c t) 0.

Definition in_range (axes : list axis) (js : list nat) : Prop :=
  Forall2 (fun t j => (j < length (a_c t))%nat) axes js.

Lemma blend_const s (c : list R) x k : Asc c -> (2 <= length c)%nat ->
  nth 0 c 0 <= x <= nth (length c - 1) c 0 -> blend (length c) (axis_data s c x) (fun _ => k) = k.
Proof.
  intros Ha Hn Hx. destruct (weights_in_hull s c x Ha Hn Hx) as (Hsum & _). unfold blend.
  rewrite <- Rmult_plus_distr_r, Hsum. lra.
Qed.

Lemma tensor_eval_const (axes : list axis) (G : list nat -> R) k :
  Forall hull_ok axes -> (forall js, in_range axes js -> G js = k) -> tensor_eval axes G = k.
Proof.
  revert G; induction axes as [|t r IH]; intros G Hok HG.
  - cbn. apply HG. constructor.
  - inversion Hok as [|? ? (Ha & Hn & Hx) Hr]; subst. cbn [tensor_eval]. unfold axd_of.
    rewrite (blend_ext_range _ _ _ _ (fun _ => k) Ha ltac:(lia)).
    + apply blend_const; assumption.
    + intros j Hj. apply IH; [exact Hr|]. intros js Hjs. apply HG. constructor; assumption.
Qed.

Fixpoint lincomb (al p : list R) : R :=
  match al, p with a :: al', x :: p' => a * x + lincomb al' p' | _, _ => 0 end.
Definition nodes_at (axes : list axis) (js : list nat) : list R :=
  map2 (fun t j => nth j (a_c t) 0) axes js.

Lemma blend_affine (c : list R) x k a : Asc c -> (2 <= length c)%nat ->
  nth 0 c 0 <= x <= nth (length c - 1) c 0 ->
  blend (length c) (axis_data SLinear c x) (fun j => k + a * nth j c 0) = k + a * x.
Proof.
  intros Ha Hn Hx. destruct (weights_in_hull SLinear c x Ha Hn Hx) as (Hsum & _ & _ & Hprec).
  specialize (Hprec eq_refl). unfold blend.
  set (wl := w_lo _) in *. set (wh := w_hi _) in *.
  set (cl := nth (wrap _ (e_lo _)) c 0) in *. set (ch := nth (wrap _ (e_hi _)) c 0) in *.
  replace (wl * (k + a * cl) + wh * (k + a * ch)) with ((wl + wh) * k + a * (wl * cl + wh * ch)) by ring.
  rewrite Hsum, Hprec. ring.
Qed.

Lemma tensor_eval_affine (axes : list axis) (G : list nat -> R) a0 al :
  Forall hull_ok axes -> Forall (fun t => a_s t = SLinear) axes ->
  (forall js, in_range axes js -> G js = a0 + lincomb al (nodes_at axes js)) ->
  tensor_eval axes G = a0 + lincomb al (map a_x axes).
Proof.
  revert G a0 al; induction axes as [|t r IH]; intros G a0 al Hok Hlin HG.
  - cbn [tensor_eval]. rewrite HG by constructor. destruct al; reflexivity.
  - inversion Hok as [|? ? (Ha & Hn & Hx) Hr]; subst. inversion Hlin as [|? ? Hs Hlr]; subst.
    cbn [tensor_eval]. unfold axd_of. rewrite Hs.
    destruct al as [|a al].
    + rewrite (blend_ext_range _ _ _ _ (fun _ => a0) Ha ltac:(lia)).
      * rewrite blend_const by assumption. cbn. lra.
      * intros j Hj. rewrite (IH _ a0 []); [cbn; lra | exact Hr | exact Hlr |].
        intros js Hjs. rewrite HG by (constructor; assumption). reflexivity.
    + rewrite (blend_ext_range _ _ _ _ (fun j => (a0 + lincomb al (map a_x r)) + a * nth j (a_c t) 0) Ha ltac:(lia)).
      * rewrite blend_affine by assumption. cbn [map lincomb]. lra.
      * intros j Hj. rewrite (IH _ (a0 + a * nth j (a_c t) 0) al); [lra | exact Hr | exact Hlr |].
        intros js Hjs. rewrite HG by (constructor; assumption). cbn [nodes_at map2 lincomb]. fold (nodes_at r js). lra.
Qed.

(* ------------------------------------------------------------------ *)
(* calling conventions: a mesh grid gives the point-wise results in C order *)
Definition maxis := (scheme * list R * list R)%type.
Definition m_s (t : maxis) : scheme := fst (fst t).
Definition m_c (t : maxis) : list R := snd (fst t).
Definition m_xs (t : maxis) : list R := snd t.

Lemma cart_axis_data (l : list maxis) :
  cart (map (fun t => map (axis_data (m_s t) (m_c t)) (m_xs t)) l) =
  map (map3 axis_data (map m_s l) (map m_c l)) (cart (map m_xs l)).
Proof.
  induction l as [|t r IH]; [reflexivity|].
  cbn [map cart]. rewrite IH. clear IH.
  induction (m_xs t) as [|x xs IHx]; [reflexivity|].
  cbn [map flat_map]. rewrite map_app, IHx. f_equal. rewrite !map_map. reflexivity.
Qed.

Lemma peraxis_mesh_pointwise (l : list maxis) (v : list Z -> R) :
  peraxis_mesh (map m_s l) (map m_c l) v (map m_xs l) =
  map (peraxis_point (map m_s l) (map m_c l) v) (cart (map m_xs l)).
Proof.
  unfold peraxis_mesh. rewrite map3_maps, cart_axis_data, map_map. reflexivity.
Qed.

Lemma cart_nearest_index (l : list maxis) :
  cart (map (fun t => map (nearest_index (m_c t)) (m_xs t)) l) =
  map (map2 nearest_index (map m_c l)) (cart (map m_xs l)).
Proof.
  induction l as [|t r IH]; [reflexivity|].
  cbn [map cart]. rewrite IH. clear IH.
  induction (m_xs t) as [|x xs IHx]; [reflexivity|].
  cbn [map flat_map]. rewrite map_app, IHx. f_equal. rewrite !map_map. reflexivity.
Qed.

Lemma nearest_mesh_pointwise (l : list maxis) (v : list Z -> R) :
  nearest_mesh (map m_c l) v (map m_xs l) = map (nearest_point (map m_c l) v) (cart (map m_xs l)).
Proof.
  unfold nearest_mesh. rewrite map2_maps, cart_nearest_index, map_map. reflexivity.
Qed.

(* ------------------------------------------------------------------ *)
(* sampling: entry (j_1..j_d) of the collocated array is f at node (c_1[j_1], .., c_d[j_d]) *)
Lemma cart_length {A} (cvs : list (list A)) : length (cart cvs) = prodn (map (@length A) cvs).
Proof.
  induction cvs as [|c r IH]; [reflexivity|]. cbn [cart map prodn fold_right].
  fold (prodn (map (@length A) r)). rewrite <- IH. clear IH.
  induction c as [|a c IHc]; [reflexivity|]. cbn [flat_map length]. rewrite app_length, map_length, IHc. reflexivity.
Qed.

Lemma nth_flat_map_blocks {A B} (g : A -> list B) (c : list A) P j k (dA : A) (dB : B) :
  (forall a, length (g a) = P) -> (j < length c)%nat -> (k < P)%nat ->
  nth (j * P + k) (flat_map g c) dB = nth k (g (nth j c dA)) dB.
Proof.
  intros HP. revert j; induction c as [|a c IH]; intros j Hj Hk; [cbn in Hj; lia|].
  cbn [flat_map]. destruct j as [|j].
  - cbn [Nat.mul Nat.add nth]. rewrite app_nth1 by (rewrite HP; exact Hk). reflexivity.
  - rewrite app_nth2 by (rewrite HP; nia). rewrite HP.
    replace (S j * P + k - P)%nat with (j * P + k)%nat by nia.
    cbn [nth]. apply IH; [cbn in Hj; lia | exact Hk].
Qed.

Definition node_at (cvs : list (list R)) (js : list nat) : list R := map2 (fun c j => nth j c 0) cvs js.

Lemma nat_index_cart (cvs : list (list R)) (js : list nat) :
  Forall2 (fun c j => (j < length c)%nat) cvs js ->
  (nat_index (map (@length R) cvs) js < prodn (map (@length R) cvs))%nat /\
  nth (nat_index (map (@length R) cvs) js) (cart cvs) [] = node_at cvs js.
Proof.
  intros HF. induction HF as [|c j cvs js Hj HF [IHlt IHnth]].
  - cbn. split; [lia | reflexivity].
  - cbn [map nat_index prodn fold_right cart node_at map2]. fold (prodn (map (@length R) cvs)).
    set (P := prodn (map (@length R) cvs)) in *. split; [nia|].
    rewrite (nth_flat_map_blocks _ c P j _ 0 []); [| intros a; rewrite map_length; apply cart_length | exact Hj | exact IHlt].
    rewrite (nth_indep _ [] (nth j c 0 :: [])) by (rewrite map_length, cart_length; exact IHlt).
    change (nth j c 0 :: []) with (cons (nth j c 0) []). rewrite map_nth. rewrite IHnth. reflexivity.
Qed.

Lemma collocate_nth (f : list R -> R) (cvs : list (list R)) (js : list nat) :
  Forall2 (fun c j => (j < length c)%nat) cvs js ->
  nth (nat_index (map (@length R) cvs) js) (collocate f cvs) 0 = f (node_at cvs js).
Proof.
  intros HF. destruct (nat_index_cart cvs js HF) as [Hlt Hnth]. unfold collocate.
  rewrite (nth_indep _ 0 (f [])) by (rewrite map_length, cart_length; exact Hlt).
  rewrite map_nth, Hnth. reflexivity.
Qed.

(* ------------------------------------------------------------------ *)
(* ties go to the right neighbour; closest-node witnesses in d dimensions  *)
Lemma tie_right (c : list R) i : Asc c -> (S i < length c)%nat ->
  nearest_nat c ((nth i c 0 + nth (S i) c 0) / 2) = S i.
Proof.
  intros Ha Hi. set (x := (nth i c 0 + nth (S i) c 0) / 2).
  apply closest_unique with c x; [apply nearest_closest; [exact Ha|lia]|].
  pose proof (Ha i (S i) ltac:(lia) Hi) as Hlt.
  split; [exact Hi|]. intros m Hm.
  assert (Hx : Rabs (x - nth (S i) c 0) = (nth (S i) c 0 - nth i c 0) / 2).
  { rewrite Rabs_left1 by (unfold x; lra). unfold x. lra. }
  rewrite Hx. destruct (le_lt_dec m i) as [Hmi|Hmi].
  - pose proof (Asc_le c m i Ha Hmi ltac:(lia)). split; [|lia].
    rewrite Rabs_pos_eq by (unfold x; lra). unfold x. lra.
  - destruct (Nat.eq_dec m (S i)) as [->|Hne].
    + split; [rewrite Hx; lra | lia].
    + pose proof (Ha (S i) m ltac:(lia) Hm).
      assert (Hg : (nth (S i) c 0 - nth i c 0) / 2 < Rabs (x - nth m c 0)).
      { rewrite Rabs_left1 by (unfold x; lra). unfold x. lra. }
      split; [lra | intros _; exact Hg].
Qed.

Lemma nearest_js_closest (axes : list axis) : Forall nearest_ok axes ->
  Forall2 (fun t j => closest (a_c t) (a_x t) j) axes (nearest_js axes).
Proof.
  induction 1 as [|t r (Hs & Ha & Hn) Hr IH]; [constructor|].
  cbn [nearest_js map]. constructor; [apply nearest_closest; assumption | exact IH].
Qed.

(* ------------------------------------------------------------------ *)
(* sampling followed by interpolation                                   *)
Lemma nodes_at_node_at (axes : list axis) js : nodes_at axes js = node_at (map a_c axes) js.
Proof.
  unfold nodes_at, node_at. revert js; induction axes as [|t r IH]; intros [|j js]; cbn; try reflexivity.
  now rewrite IH.
Qed.

Lemma in_range_Forall2 (axes : list axis) js :
  in_range axes js -> Forall2 (fun c j => (j < length c)%nat) (map a_c axes) js.
Proof. induction 1; cbn; constructor; assumption. Qed.

Lemma shape_of_lengths (axes : list axis) : shape_of axes = map (@length R) (map a_c axes).
Proof. unfold shape_of. now rewrite map_map. Qed.

Definition sampled (axes : list axis) (f : list R -> R) : list Z -> R :=
  vget (shape_of axes) (collocate f (map a_c axes)).

Lemma sampled_wrapped (axes : list axis) f :
  sampled axes f = wrapped (shape_of axes) (fun js => nth (nat_index (shape_of axes) js) (collocate f (map a_c axes)) 0).
Proof. reflexivity. Qed.

Lemma sample_interp_node (naxes : list naxis) (f : list R -> R) :
  Forall node_ok naxes ->
  let axes := map at_node naxes in
  peraxis_point (map a_s axes) (map a_c axes) (sampled axes f) (map a_x axes) = f (map a_x axes).
Proof.
  intros Hok axes. rewrite sampled_wrapped, peraxis_tensor. unfold axes.
  rewrite tensor_eval_node by exact Hok. fold axes.
  rewrite shape_of_lengths, collocate_nth.
  - f_equal. unfold axes, node_at. clear. induction naxes as [|[[s c] j] r IH]; [reflexivity|].
    cbn [map map2]. unfold a_c, a_x, at_node at 1 2 3, n_j at 1. cbn [fst snd]. f_equal. exact IH.
  - unfold axes. clear f axes. induction Hok as [|[[s c] j] r [_ Hj] Hr IH]; cbn [map]; constructor; [exact Hj | exact IH].
Qed.

Lemma sample_affine_linear (axes : list axis) a0 al :
  Forall hull_ok axes -> Forall (fun t => a_s t = SLinear) axes ->
  peraxis_point (map a_s axes) (map a_c axes) (sampled axes (fun p => a0 + lincomb al p)) (map a_x axes)
  = a0 + lincomb al (map a_x axes).
Proof.
  intros Hok Hlin. rewrite sampled_wrapped, peraxis_tensor.
  apply tensor_eval_affine; [exact Hok | exact Hlin |].
  intros js Hjs. rewrite shape_of_lengths, collocate_nth by (apply in_range_Forall2; exact Hjs).
  now rewrite nodes_at_node_at.
Qed.

(* ------------------------------------------------------------------ *)
(* one-dimensional corollaries in terms of the model's entry points      *)
Definition interp1 (s : scheme) (c v : list R) (x : R) : R :=
  peraxis_point [s] [c] (vget [length c] v) [x].

Lemma interp1_blend s (c v : list R) x :
  interp1 s c v x = blend (length c) (axis_data s c x) (fun j => nth j v 0).
Proof.
  unfold interp1.
  change (peraxis_point [s] [c] (vget [length c] v) [x]) with
    (peraxis_point (map a_s [(s, c, x)]) (map a_c [(s, c, x)])
       (wrapped (shape_of [(s, c, x)]) (fun js => nth (nat_index [length c] js) v 0)) (map a_x [(s, c, x)])).
  rewrite peraxis_tensor. cbn [tensor_eval]. unfold axd_of, a_s, a_c, a_x. cbn [fst snd].
  apply blend_ext. intros j. cbn [nat_index prodn fold_right]. f_equal. lia.
Qed.

Lemma interp1_linear_in (c v : list R) x i : Asc c -> (S i < length c)%nat ->
  nth i c 0 <= x <= nth (S i) c 0 ->
  interp1 SLinear c v x =
  (1 - (x - nth i c 0) / (nth (S i) c 0 - nth i c 0)) * nth i v 0
  + (x - nth i c 0) / (nth (S i) c 0 - nth i c 0) * nth (S i) v 0.
Proof. intros Ha Hi Hx. rewrite interp1_blend. apply (blend_linear_in c x (fun j => nth j v 0) i Ha Hi Hx). Qed.

Lemma interp1_linear_low (c v : list R) x : Asc c -> (2 <= length c)%nat -> x < nth 0 c 0 ->
  interp1 SLinear c v x = (1 - (nth 0 c 0 - x) / (nth 1 c 0 - nth 0 c 0)) * nth 0 v 0.
Proof. intros Ha Hn Hx. rewrite interp1_blend. apply (blend_linear_low c x (fun j => nth j v 0) Ha Hn Hx). Qed.

Lemma interp1_linear_high (c v : list R) x : Asc c -> (2 <= length c)%nat -> nth (length c - 1) c 0 < x ->
  interp1 SLinear c v x =
  (1 - (x - nth (length c - 1) c 0) / (nth (length c - 1) c 0 - nth (length c - 2) c 0)) * nth (length c - 1) v 0.
Proof. intros Ha Hn Hx. rewrite interp1_blend. apply (blend_linear_high c x (fun j => nth j v 0) Ha Hn Hx). Qed.

Lemma interp1_node s (c v : list R) j : good_axis s c -> (j < length c)%nat ->
  interp1 s c v (nth j c 0) = nth j v 0.
Proof. intros Hg Hj. rewrite interp1_blend. apply (blend_node s c j (fun j => nth j v 0) Hg Hj). Qed.

Lemma nearest_points_1d (c v : list R) x : (1 <= length c)%nat ->
  nearest_points [c] (vget [length c] v) [[x]] = [nth (nearest_nat c x) v 0].
Proof.
  intros Hn. unfold nearest_points, nearest_point, vget, wrapped. cbn [map map2].
  rewrite nearest_index_nat by exact Hn. rewrite wrap_nat. cbn [nat_index prodn fold_right]. do 2 f_equal. lia.
Qed.

Lemma interp1_nearest (c v : list R) x : Asc c -> (1 <= length c)%nat ->
  exists j, closest c x j /\ interp1 SNearest c v x = nth j v 0 /\
            nearest_points [c] (vget [length c] v) [[x]] = [nth j v 0].
Proof.
  intros Ha Hn. exists (nearest_nat c x). split; [apply nearest_closest; assumption|]. split.
  - rewrite interp1_blend. apply (blend_nearest c x (fun j => nth j v 0) Ha Hn).
  - apply nearest_points_1d. exact Hn.
Qed.

Lemma interp1_tie (c v : list R) i : Asc c -> (S i < length c)%nat ->
  interp1 SNearest c v ((nth i c 0 + nth (S i) c 0) / 2) = nth (S i) v 0.
Proof.
  intros Ha Hi. rewrite interp1_blend, (blend_nearest c _ (fun j => nth j v 0) Ha ltac:(lia)).
  now rewrite tie_right.
Qed.

Lemma interp1_affine (c v : list R) a b x : Asc c -> (2 <= length c)%nat ->
  (forall j, (j < length c)%nat -> nth j v 0 = a + b * nth j c 0) ->
  nth 0 c 0 <= x <= nth (length c - 1) c 0 ->
  interp1 SLinear c v x = a + b * x.
Proof.
  intros Ha Hn Hv Hx. rewrite interp1_blend.
  rewrite (blend_ext_range _ _ _ _ (fun j => a + b * nth j c 0) Ha ltac:(lia) Hv).
  apply blend_affine; assumption.
Qed.

(* a concrete non-uniform grid satisfying the hypotheses (used by the Examples in Props.v) *)
Lemma Asc_example : Asc [0; 1; 3].
Proof.
  intros i j Hij Hj. cbn [length] in Hj.
  destruct j as [|[|[|j]]]; try lia; destruct i as [|[|i]]; try lia; cbn; lra.
Qed.

(* ------------------------------------------------------------------ *)
(* the statements of Props.v in terms of the model's entry points          *)
Lemma find_indices_full (c : list R) (x : R) : Asc c -> (2 <= length c)%nat ->
  let i := cellnat c x in let y := norm_dist c x in
  cell_index c x = Z.of_nat i /\
  (S i < length c)%nat /\ nth i c 0 < nth (S i) c 0 /\
  y = (x - nth i c 0) / (nth (S i) c 0 - nth i c 0) /\
  ( (x < nth 0 c 0 /\ i = O /\ y < 0)
    \/ (nth 0 c 0 <= x <= nth (length c - 1) c 0 /\ nth i c 0 <= x <= nth (S i) c 0 /\ 0 <= y <= 1
        /\ (nth i c 0 = x -> i = O))
    \/ (nth (length c - 1) c 0 < x /\ i = (length c - 2)%nat /\ 1 < y) ).
Proof. intros Ha Hn. split; [exact (cell_index_nat c x Hn) | exact (regime c x Ha Hn)]. Qed.

Lemma peraxis_node_d (naxes : list naxis) (G : list nat -> R) : Forall node_ok naxes ->
  let axes := map at_node naxes in
  peraxis_point (map a_s axes) (map a_c axes) (wrapped (shape_of axes) G) (map a_x axes) = G (map n_j naxes).
Proof. intros Hok axes. unfold axes. rewrite peraxis_tensor. exact (tensor_eval_node naxes G Hok). Qed.

Lemma nearest_d (axes : list axis) (G : list nat -> R) : Forall nearest_ok axes ->
  exists js : list nat,
    Forall2 (fun t j => closest (a_c t) (a_x t) j) axes js /\
    nearest_point (map a_c axes) (wrapped (shape_of axes) G) (map a_x axes) = G js /\
    peraxis_point (map a_s axes) (map a_c axes) (wrapped (shape_of axes) G) (map a_x axes) = G js.
Proof.
  intros Hok. exists (nearest_js axes). split; [exact (nearest_js_closest axes Hok)|]. split.
  - exact (nearest_point_axes axes G Hok).
  - rewrite peraxis_tensor. exact (tensor_eval_nearest axes G Hok).
Qed.

Lemma peraxis_mblend_d (ca : list (axis * nat)) (G : list nat -> R) : Forall cell_ok ca ->
  let axes := map fst ca in
  peraxis_point (map a_s axes) (map a_c axes) (wrapped (shape_of axes) G) (map a_x axes) = mblend ca G.
Proof. intros Hok axes. unfold axes. rewrite peraxis_tensor. exact (tensor_eval_mblend ca G Hok). Qed.

Lemma peraxis_affine_d (axes : list axis) (G : list nat -> R) a0 al :
  Forall hull_ok axes -> Forall (fun t => a_s t = SLinear) axes ->
  (forall js, in_range axes js -> G js = a0 + lincomb al (nodes_at axes js)) ->
  peraxis_point (map a_s axes) (map a_c axes) (wrapped (shape_of axes) G) (map a_x axes)
  = a0 + lincomb al (map a_x axes).
Proof. intros Hok Hlin HG. rewrite peraxis_tensor. exact (tensor_eval_affine axes G a0 al Hok Hlin HG). Qed.

Lemma peraxis_const_d (axes : list axis) (G : list nat -> R) k :
  Forall hull_ok axes -> (forall js, in_range axes js -> G js = k) ->
  peraxis_point (map a_s axes) (map a_c axes) (wrapped (shape_of axes) G) (map a_x axes) = k.
Proof. intros Hok HG. rewrite peraxis_tensor. exact (tensor_eval_const axes G k Hok HG). Qed.

Lemma peraxis_linear_d (axes : list axis) (G H : list nat -> R) a b :
  peraxis_point (map a_s axes) (map a_c axes) (wrapped (shape_of axes) (fun js => a * G js + b * H js)) (map a_x axes)
  = a * peraxis_point (map a_s axes) (map a_c axes) (wrapped (shape_of axes) G) (map a_x axes)
  + b * peraxis_point (map a_s axes) (map a_c axes) (wrapped (shape_of axes) H) (map a_x axes).
Proof. rewrite !peraxis_tensor. exact (tensor_eval_linear axes G H a b). Qed.

Lemma hypotheses_example :
  Asc [0; 1; 3] /\ good_axis SLinear [0; 1; 3] /\ good_axis SNearest [0; 1; 3] /\
  hull_ok (SLinear, [0; 1; 3], 2).
Proof.
  pose proof Asc_example as Ha. unfold good_axis, hull_ok, a_c, a_x. cbn [fst snd length nth Nat.sub].
  repeat split; try exact Ha; try (left; repeat constructor); try (repeat constructor); lra.
Qed.

(* ------------------------------------------------------------------ *)
(* no overshoot inside the hull: a convex combination of array entries      *)
Lemma blend_bounds s (c : list R) x (G : nat -> R) lo hi : Asc c -> (2 <= length c)%nat ->
  nth 0 c 0 <= x <= nth (length c - 1) c 0 ->
  (forall j, (j < length c)%nat -> lo <= G j <= hi) ->
  lo <= blend (length c) (axis_data s c x) G <= hi.
Proof.
  intros Ha Hn Hx HG. destruct (weights_in_hull s c x Ha Hn Hx) as (Hsum & Hl & Hh & _).
  destruct (axis_reads_in_range s c x Ha ltac:(lia)) as [H1 H2].
  pose proof (HG _ H1) as B1. pose proof (HG _ H2) as B2. unfold blend.
  set (wl := w_lo _) in *. set (wh := w_hi _) in *.
  set (g1 := G _) in *. set (g2 := G (wrap _ (e_hi _))) in *.
  replace lo with ((wl + wh) * lo) by (rewrite Hsum; ring).
  replace hi with ((wl + wh) * hi) by (rewrite Hsum; ring).
  split; nra.
Qed.

Lemma tensor_eval_bounds (axes : list axis) (G : list nat -> R) lo hi :
  Forall hull_ok axes -> (forall js, in_range axes js -> lo <= G js <= hi) ->
  lo <= tensor_eval axes G <= hi.
Proof.
  revert G; induction axes as [|t r IH]; intros G Hok HG.
  - cbn. apply HG. constructor.
  - inversion Hok as [|? ? (Ha & Hn & Hx) Hr]; subst. cbn [tensor_eval]. unfold axd_of.
    apply blend_bounds; try assumption.
    intros j Hj. apply IH; [exact Hr|]. intros js Hjs. apply HG. constructor; assumption.
Qed.

Lemma peraxis_bounds_d (axes : list axis) (G : list nat -> R) lo hi :
  Forall hull_ok axes -> (forall js, in_range axes js -> lo <= G js <= hi) ->
  lo <= peraxis_point (map a_s axes) (map a_c axes) (wrapped (shape_of axes) G) (map a_x axes) <= hi.
Proof. intros Hok HG. rewrite peraxis_tensor. exact (tensor_eval_bounds axes G lo hi Hok HG). Qed.

(* ------------------------------------------------------------------ *)
(* resampling onto the same grid is the identity (Resampling(space, space, interp),
   linear_deform with zero displacement)                                   *)
Fixpoint unravel (shape : list nat) (k : nat) : list nat :=
  match shape with
  | [] => []
  | n :: sh => (k / prodn sh)%nat :: unravel sh (k mod prodn sh)
  end.

Lemma unravel_spec (cvs : list (list R)) k : (k < prodn (map (@length R) cvs))%nat ->
  Forall2 (fun c j => (j < length c)%nat) cvs (unravel (map (@length R) cvs) k) /\
  nat_index (map (@length R) cvs) (unravel (map (@length R) cvs) k) = k.
Proof.
  revert k; induction cvs as [|c r IH]; intros k Hk.
  - cbn in *. split; [constructor | lia].
  - cbn [map unravel nat_index prodn fold_right] in *. fold (prodn (map (@length R) r)) in *.
    set (P := prodn (map (@length R) r)) in *.
    assert (HP : (0 < P)%nat) by (destruct P; [rewrite Nat.mul_0_r in Hk; lia | lia]).
    destruct (IH (k mod P)%nat) as [HF Hidx]; [apply Nat.mod_upper_bound; lia|].
    split.
    + constructor; [|exact HF]. apply Nat.div_lt_upper_bound; [lia|]. rewrite Nat.mul_comm. exact Hk.
    + rewrite Hidx. rewrite (Nat.div_mod k P) at 3 by lia. lia.
Qed.

Definition resample_ok (t : scheme * list R) : Prop := good_axis (fst t) (snd t).

Lemma node_ok_of (l : list (scheme * list R)) js :
  Forall resample_ok l -> Forall2 (fun c j => (j < length c)%nat) (map snd l) js ->
  exists naxes : list naxis,
    Forall node_ok naxes /\ map at_node naxes = map (fun tj : (scheme * list R) * nat => (fst tj, nth (snd tj) (snd (fst tj)) 0)) (combine l js)
    /\ map n_j naxes = js /\ map a_s (map at_node naxes) = map fst l /\ map a_c (map at_node naxes) = map snd l
    /\ map a_x (map at_node naxes) = node_at (map snd l) js.
Proof.
  revert js; induction l as [|[s c] r IH]; intros js Hok HF.
  - inversion HF; subst. exists []. cbn. repeat split; constructor.
  - inversion Hok as [|? ? Hg Hr]; subst. cbn [map snd] in HF. inversion HF as [|? j ? js' Hj HF']; subst.
    destruct (IH js' Hr HF') as (na & Hna & Hmap & Hjs & Hs & Hc & Hx).
    exists ((s, c, j) :: na). cbn [map combine fst snd]. repeat split.
    + constructor; [split; [exact Hg | exact Hj] | exact Hna].
    + unfold at_node at 1. cbn [fst snd]. f_equal. exact Hmap.
    + unfold n_j at 1. cbn [snd]. f_equal. exact Hjs.
    + unfold a_s at 1, at_node at 1. cbn [fst snd]. f_equal. exact Hs.
    + unfold a_c at 1, at_node at 1. cbn [fst snd]. f_equal. exact Hc.
    + unfold a_x at 1, at_node at 1, node_at. cbn [fst snd map2]. f_equal. exact Hx.
Qed.

Lemma shape_of_at_node (na : list naxis) : shape_of (map at_node na) = map (@length R) (map a_c (map at_node na)).
Proof. apply shape_of_lengths. Qed.

Lemma resample_same_grid (l : list (scheme * list R)) (flat : list R) :
  Forall resample_ok l -> length flat = prodn (map (@length R) (map snd l)) ->
  peraxis_mesh (map fst l) (map snd l) (vget (map (@length R) (map snd l)) flat) (map snd l) = flat.
Proof.
  intros Hok Hlen.
  pose (ml := map (fun t : scheme * list R => (fst t, snd t, snd t)) l : list maxis).
  assert (Hs : map m_s ml = map fst l) by (unfold ml; rewrite map_map; reflexivity).
  assert (Hc : map m_c ml = map snd l) by (unfold ml; rewrite map_map; reflexivity).
  assert (Hx : map m_xs ml = map snd l) by (unfold ml; rewrite map_map; reflexivity).
  rewrite <- Hs at 1. rewrite <- Hc at 1. rewrite <- Hx at 2.
  rewrite peraxis_mesh_pointwise, Hs, Hc, Hx.
  apply (nth_ext _ _ 0 0).
  - rewrite map_length, cart_length. symmetry. exact Hlen.
  - intros k Hk. rewrite map_length, cart_length in Hk.
    destruct (unravel_spec (map snd l) k Hk) as [HF Hidx].
    set (js := unravel (map (@length R) (map snd l)) k) in *.
    destruct (nat_index_cart (map snd l) js HF) as [_ Hnth]. rewrite Hidx in Hnth.
    rewrite (nth_indep _ 0 (peraxis_point (map fst l) (map snd l) (vget (map (@length R) (map snd l)) flat) []))
      by (rewrite map_length, cart_length; exact Hk).
    rewrite map_nth, Hnth.
    destruct (node_ok_of l js Hok HF) as (na & Hna & _ & Hjs & Has & Hac & Hax).
    rewrite <- Has, <- Hac at 1. rewrite <- Hax.
    replace (vget (map (@length R) (map snd l)) flat)
      with (wrapped (shape_of (map at_node na)) (fun js' => nth (nat_index (map (@length R) (map snd l)) js') flat 0))
      by (rewrite shape_of_at_node, Hac; reflexivity).
    rewrite (peraxis_node_d na _ Hna). rewrite Hjs, Hidx. reflexivity.
Qed.

(* ------------------------------------------------------------------ *)
(* zero extension in d dimensions: a linear axis evaluated outside the hull multiplies the
   interpolant of the edge slice by the one-cell decay factor                *)
Lemma peraxis_low_d (c : list R) x (r : list axis) (G : list nat -> R) :
  Asc c -> (2 <= length c)%nat -> x < nth 0 c 0 ->
  let axes := (SLinear, c, x) :: r in
  peraxis_point (map a_s axes) (map a_c axes) (wrapped (shape_of axes) G) (map a_x axes) =
  (1 - (nth 0 c 0 - x) / (nth 1 c 0 - nth 0 c 0)) *
  peraxis_point (map a_s r) (map a_c r) (wrapped (shape_of r) (fun js => G (O :: js))) (map a_x r).
Proof.
  intros Ha Hn Hx axes. unfold axes. rewrite !peraxis_tensor. cbn [tensor_eval].
  unfold axd_of, a_s, a_c, a_x. cbn [fst snd].
  apply (blend_linear_low c x (fun j => tensor_eval r (fun js => G (j :: js))) Ha Hn Hx).
Qed.

Lemma peraxis_high_d (c : list R) x (r : list axis) (G : list nat -> R) :
  Asc c -> (2 <= length c)%nat -> nth (length c - 1) c 0 < x ->
  let axes := (SLinear, c, x) :: r in
  peraxis_point (map a_s axes) (map a_c axes) (wrapped (shape_of axes) G) (map a_x axes) =
  (1 - (x - nth (length c - 1) c 0) / (nth (length c - 1) c 0 - nth (length c - 2) c 0)) *
  peraxis_point (map a_s r) (map a_c r) (wrapped (shape_of r) (fun js => G ((length c - 1)%nat :: js))) (map a_x r).
Proof.
  intros Ha Hn Hx axes. unfold axes. rewrite !peraxis_tensor. cbn [tensor_eval].
  unfold axd_of, a_s, a_c, a_x. cbn [fst snd].
  apply (blend_linear_high c x (fun j => tensor_eval r (fun js => G (j :: js))) Ha Hn Hx).
Qed.

(* ------------------------------------------------------------------ *)
(* np.searchsorted is a binary search; on ascending vectors it returns the prefix count
   used by the model ([ssleft])                                            *)
Fixpoint bsearch (fuel : nat) (c : list R) (x : R) (lo hi : nat) : nat :=
  match fuel with
  | O => lo
  | S f =>
      if (lo <? hi)%nat then
        let mid := (lo + (hi - lo) / 2)%nat in
        if Rltb (nth mid c 0) x then bsearch f c x (S mid) hi else bsearch f c x lo mid
      else lo
  end.

Lemma bsearch_ssleft_gen (c : list R) x : Asc c ->
  forall fuel lo hi, (hi - lo <= fuel)%nat -> (lo <= hi)%nat -> (hi <= length c)%nat ->
  (forall j, (j < lo)%nat -> nth j c 0 < x) ->
  (forall j, (hi <= j)%nat -> (j < length c)%nat -> x <= nth j c 0) ->
  bsearch fuel c x lo hi = ssleft c x.
Proof.
  intros Ha. induction fuel as [|f IH]; intros lo hi Hf Hle Hhi Hbelow Habove.
  - cbn. assert (lo = hi) by lia. subst hi. symmetry.
    apply ssleft_unique; [exact Ha | lia | exact Hbelow | intros Hl; apply Habove; lia].
  - cbn [bsearch]. destruct (Nat.ltb_spec lo hi) as [Hlt|Hge].
    + set (mid := (lo + (hi - lo) / 2)%nat).
      assert (Hmid : (lo <= mid < hi)%nat).
      { unfold mid. pose proof (Nat.div_lt_upper_bound (hi - lo) 2 (hi - lo) ltac:(lia) ltac:(lia)). lia. }
      destruct (Rltb_spec (nth mid c 0) x) as [Hm|Hm].
      * apply IH; try lia.
        -- intros j Hj. destruct (Nat.eq_dec j mid) as [->|Hne]; [exact Hm|].
           destruct (le_lt_dec lo j) as [Hlj|Hlj]; [|apply Hbelow; exact Hlj].
           pose proof (Ha j mid ltac:(lia) ltac:(lia)). lra.
        -- exact Habove.
      * apply IH; try lia.
        -- exact Hbelow.
        -- intros j Hj Hjn. destruct (le_lt_dec hi j) as [Hhj|Hhj]; [apply Habove; assumption|].
           pose proof (Asc_le c mid j Ha Hj Hjn). lra.
    + assert (lo = hi) by lia. subst hi. symmetry.
      apply ssleft_unique; [exact Ha | lia | exact Hbelow | intros Hl; apply Habove; lia].
Qed.

Lemma bsearch_ssleft (c : list R) x : Asc c -> bsearch (length c) c x 0 (length c) = ssleft c x.
Proof.
  intros Ha. apply bsearch_ssleft_gen; try lia; try exact Ha; intros; lia.
Qed.

(* ------------------------------------------------------------------ *)
(* the whole call (C15/Call.v): outside the recorded defects it returns the values the
   theorems above speak about                                              *)
From Verif Require Import C15.Call.

Lemma malformed_false_rejected (cvs : list (list R)) i o : malformed cvs i o = false -> rejected cvs i o = None.
Proof. unfold malformed. destruct (rejected cvs i o); [discriminate | reflexivity]. Qed.

(* the regenerated per_axis dispatch: index-based exactly when no axis is linear *)
Lemma index_based_no_linear (ss : list scheme) : gen_peraxis_index_based ss = negb (has_linear ss).
Proof.
  unfold gen_peraxis_index_based, has_linear.
  induction ss as [|s r IH]; [reflexivity|]. cbn [forallb existsb]. destruct s; cbn [andb orb negb].
  - exact IH.
  - reflexivity.
Qed.

Lemma linear_scheme_is_linear : gen_linear_scheme = SLinear.
Proof. reflexivity. Qed.

Lemma interp_call_float_ok k ss (cvs : list (list R)) flat i :
  malformed cvs i None = false -> degenerate (schemes_of k ss cvs) cvs = false ->
  interp_call current k ss cvs DFloat flat i None = Ok (run current k ss cvs flat i).
Proof.
  intros Hm Hd. unfold interp_call. rewrite (malformed_false_rejected _ _ _ Hm).
  cbn [mesh1_raises current andb]. destruct k; try rewrite Hd; reflexivity.
Qed.

(* per_axis_interpolator with all-'nearest' schemes IS the nearest_interpolator call, for every value
   dtype (integer and string included), every input and every out argument *)
Lemma peraxis_all_nearest_call k_ss (cvs : list (list R)) dt flat i o :
  has_linear k_ss = false ->
  interp_call current KPerAxis k_ss cvs dt flat i o = interp_call current KNearest k_ss cvs dt flat i o.
Proof.
  intros Hl. unfold interp_call. destruct (rejected cvs i o) as [[|]|]; try reflexivity.
  cbn [mesh1_raises current andb int_raises orb schemes_of].
  assert (Hd : degenerate k_ss cvs = false).
  { unfold degenerate. clear -Hl. revert cvs. induction k_ss as [|s r IH]; intros [|c cvs]; try reflexivity.
    cbn [combine existsb fst snd]. cbn [has_linear existsb] in Hl. apply orb_false_elim in Hl as [Hs Hr].
    destruct s; [|discriminate]. cbn [orb]. apply IH. exact Hr. }
  assert (Hrun : run current KPerAxis k_ss cvs flat i = run current KNearest k_ss cvs flat i).
  { unfold run. cbn [int_raises current negb andb]. rewrite index_based_no_linear, Hl. reflexivity. }
  destruct dt; rewrite ?Hl, ?Hd, Hrun; reflexivity.
Qed.

(* admissible axes are never degenerate *)
Lemma good_not_degenerate (l : list (scheme * list R)) :
  Forall (fun t => good_axis (fst t) (snd t)) l -> degenerate (map fst l) (map snd l) = false.
Proof.
  unfold degenerate. induction 1 as [|[s c] r [Ha Hlen] Hr IH]; [reflexivity|].
  cbn [map combine existsb fst snd]. rewrite IH. cbn [fst snd] in Hlen.
  destruct s; [reflexivity|]. destruct c as [|a [|b c]]; try reflexivity.
  destruct Hlen as [Hn|[Hs _]]; [cbn in Hn; exfalso; apply (Nat.nle_succ_diag_l 1); exact Hn | discriminate].
Qed.

(* a mesh-grid call and the point-array call on the Cartesian product give the same outcome *)
Lemma mesh_call_equals_points (l : list (scheme * list R * list R)) (flat : list R) :
  let ss := map m_s l in let cvs := map m_c l in let mesh := map m_xs l in
  has_linear ss = true ->
  degenerate ss cvs = false -> malformed cvs (IPoints (cart mesh)) None = false ->
  interp_call current KPerAxis ss cvs DFloat flat (IMesh mesh) None
  = interp_call current KPerAxis ss cvs DFloat flat (IPoints (cart mesh)) None.
Proof.
  intros ss cvs mesh Hl Hd Hm.
  assert (Hmm : malformed cvs (IMesh mesh) None = false).
  { unfold malformed, rejected, cvs, mesh. rewrite !map_length, Nat.eqb_refl. reflexivity. }
  unfold interp_call. rewrite (malformed_false_rejected _ _ _ Hm), (malformed_false_rejected _ _ _ Hmm).
  cbn [mesh1_raises current andb schemes_of]. rewrite Hd.
  unfold run. cbn [int_raises current negb andb schemes_of]. rewrite index_based_no_linear, Hl. cbn [negb].
  unfold ss, cvs, mesh. rewrite peraxis_mesh_pointwise. reflexivity.
Qed.

Lemma nearest_mesh_call_equals_points (l : list (scheme * list R * list R)) dt (flat : list R) :
  let cvs := map m_c l in let mesh := map m_xs l in
  malformed cvs (IPoints (cart mesh)) None = false ->
  interp_call current KNearest [] cvs dt flat (IMesh mesh) None
  = interp_call current KNearest [] cvs dt flat (IPoints (cart mesh)) None.
Proof.
  intros cvs mesh Hm.
  assert (Hmm : malformed cvs (IMesh mesh) None = false).
  { unfold malformed, rejected, cvs, mesh. rewrite !map_length, Nat.eqb_refl. reflexivity. }
  unfold interp_call. rewrite (malformed_false_rejected _ _ _ Hm), (malformed_false_rejected _ _ _ Hmm).
  cbn [mesh1_raises current andb].
  unfold run. unfold cvs, mesh. rewrite nearest_mesh_pointwise. reflexivity.
Qed.


(* ------------------------------------------------------------------ *)
(* the complete textbook reference, for EVERY real evaluation point (the Coq counterpart of the
   probes' Python reference): nearest axes read the closest node (rightmost on ties), linear
   axes blend the cell found by an independent search (largest i <= n-2 with c_i <= x) inside
   the hull and decay linearly from the edge value outside                    *)
Fixpoint ssle (c : list R) (x : R) : nat :=
  match c with
  | [] => O
  | a :: c' => if Rleb a x then S (ssle c' x) else O
  end.
Definition ref_cell (c : list R) (x : R) : nat := Nat.min (Nat.pred (ssle c x)) (length c - 2).

Lemma ssle_le (c : list R) x : (ssle c x <= length c)%nat.
Proof. induction c as [|a c IH]; cbn [ssle length]; [lia|]. destruct (Rleb a x); lia. Qed.
Lemma ssle_below (c : list R) x j : (j < ssle c x)%nat -> nth j c 0 <= x.
Proof.
  revert j; induction c as [|a c IH]; intros j Hj; cbn [ssle] in Hj; [lia|].
  destruct (Rleb_spec a x) as [Hle|]; [|lia]. destruct j; cbn [nth]; [exact Hle | apply IH; lia].
Qed.
Lemma ssle_at (c : list R) x : (ssle c x < length c)%nat -> x < nth (ssle c x) c 0.
Proof.
  induction c as [|a c IH]; cbn [ssle length]; [lia|].
  destruct (Rleb_spec a x) as [Hle|Hgt]; intros Hk; cbn [nth]; [apply IH; lia | lra].
Qed.

Lemma ref_cell_contains (c : list R) x : (2 <= length c)%nat ->
  nth 0 c 0 <= x <= nth (length c - 1) c 0 ->
  (S (ref_cell c x) < length c)%nat /\ nth (ref_cell c x) c 0 <= x <= nth (S (ref_cell c x)) c 0.
Proof.
  intros Hn [Hlo Hhi]. unfold ref_cell. pose proof (ssle_le c x) as Hk.
  assert (H1 : (1 <= ssle c x)%nat).
  { destruct c as [|a c]; [cbn in Hn; lia|]. cbn [ssle nth] in *. destruct (Rleb_spec a x); [lia|lra]. }
  split; [lia|]. destruct (Nat.eq_dec (ssle c x) (length c)) as [Hfull|Hnot].
  - replace (Nat.min (Nat.pred (ssle c x)) (length c - 2)) with (length c - 2)%nat by lia.
    replace (S (length c - 2)) with (length c - 1)%nat by lia.
    split; [apply ssle_below; lia | exact Hhi].
  - replace (Nat.min (Nat.pred (ssle c x)) (length c - 2)) with (Nat.pred (ssle c x)) by lia.
    replace (S (Nat.pred (ssle c x))) with (ssle c x) by lia.
    split; [apply ssle_below; lia | left; apply ssle_at; lia].
Qed.

Definition ref_lin (c : list R) (x : R) (G : nat -> R) : R :=
  if Rltb x (nth 0 c 0) then (1 - (nth 0 c 0 - x) / (nth 1 c 0 - nth 0 c 0)) * G O
  else if Rltb (nth (length c - 1) c 0) x then
    (1 - (x - nth (length c - 1) c 0) / (nth (length c - 1) c 0 - nth (length c - 2) c 0)) * G (length c - 1)%nat
  else
    let i := ref_cell c x in
    let t := (x - nth i c 0) / (nth (S i) c 0 - nth i c 0) in
    (1 - t) * G i + t * G (S i).

Fixpoint ref_eval (axes : list axis) (js : list nat) (G : list nat -> R) : R :=
  match axes, js with
  | t :: r, j :: js' =>
      match a_s t with
      | SNearest => ref_eval r js' (fun ix => G (j :: ix))
      | SLinear => ref_lin (a_c t) (a_x t) (fun i => ref_eval r js' (fun ix => G (i :: ix)))
      end
  | _, _ => G []
  end.

Definition ref_ok (t : axis) (j : nat) : Prop :=
  Asc (a_c t) /\
  match a_s t with
  | SNearest => closest (a_c t) (a_x t) j
  | SLinear => (2 <= length (a_c t))%nat
  end.

Lemma blend_ref_lin (c : list R) x (G : nat -> R) : Asc c -> (2 <= length c)%nat ->
  blend (length c) (axis_data SLinear c x) G = ref_lin c x G.
Proof.
  intros Ha Hn. unfold ref_lin.
  destruct (Rltb_spec x (nth 0 c 0)) as [Hlo|Hlo]; [apply blend_linear_low; assumption|].
  destruct (Rltb_spec (nth (length c - 1) c 0) x) as [Hhi|Hhi]; [apply blend_linear_high; assumption|].
  destruct (ref_cell_contains c x Hn ltac:(lra)) as [Hi Hx].
  apply (blend_linear_in c x G (ref_cell c x) Ha Hi Hx).
Qed.

Lemma tensor_eval_ref (axes : list axis) (js : list nat) (G : list nat -> R) :
  Forall2 ref_ok axes js -> tensor_eval axes G = ref_eval axes js G.
Proof.
  intros HF. revert G. induction HF as [|t j r js' [Ha Hs] HF IH]; intros G; [reflexivity|].
  cbn [tensor_eval ref_eval]. unfold axd_of. destruct (a_s t) eqn:Es.
  - destruct Hs as [Hj Hc]. rewrite blend_nearest by (assumption || lia).
    assert (Hnj : nearest_nat (a_c t) (a_x t) = j).
    { apply closest_unique with (a_c t) (a_x t); [apply nearest_closest; [assumption|lia] | split; assumption]. }
    rewrite Hnj. apply IH.
  - rewrite blend_ref_lin by assumption. unfold ref_lin.
    repeat match goal with |- context [if ?b then _ else _] => destruct b end; cbv zeta; rewrite !IH; reflexivity.
Qed.

Lemma peraxis_textbook_d (axes : list axis) (js : list nat) (G : list nat -> R) :
  Forall2 ref_ok axes js ->
  peraxis_point (map a_s axes) (map a_c axes) (wrapped (shape_of axes) G) (map a_x axes) = ref_eval axes js G.
Proof. intros HF. rewrite peraxis_tensor. exact (tensor_eval_ref axes js G HF). Qed.

(* ------------------------------------------------------------------ *)
(* Resampling with linear interpolation is exact for (sampled) affine functions: the resampled
   array is the function sampled on the target grid, whenever the target nodes lie in the hull
   of the source nodes                                                        *)
Lemma cart_In {A} (mesh : list (list A)) (p : list A) :
  In p (cart mesh) -> Forall2 (fun xs x => In x xs) mesh p.
Proof.
  revert p; induction mesh as [|xs r IH]; intros p Hp; cbn [cart] in Hp.
  - destruct Hp as [<-|[]]. constructor.
  - apply in_flat_map in Hp as (a & Ha & Hp). apply in_map_iff in Hp as (q & <- & Hq).
    constructor; [exact Ha | apply IH; exact Hq].
Qed.

Definition src_tgt_ok (t : list R * list R) : Prop :=
  Asc (fst t) /\ (2 <= length (fst t))%nat /\
  Forall (fun x => nth 0 (fst t) 0 <= x <= nth (length (fst t) - 1) (fst t) 0) (snd t).

Lemma axes_of_point (l : list (list R * list R)) (p : list R) :
  Forall src_tgt_ok l -> Forall2 (fun xs x => In x xs) (map snd l) p ->
  exists axes : list axis,
    map a_s axes = map (fun _ => SLinear) l /\ map a_c axes = map fst l /\ map a_x axes = p /\
    Forall hull_ok axes /\ Forall (fun t => a_s t = SLinear) axes.
Proof.
  intros Hok. revert p; induction Hok as [|[c xs] r (Ha & Hn & Hxs) Hr IH]; intros p HF; cbn [map] in HF.
  - inversion HF; subst. exists []. repeat split; constructor.
  - inversion HF as [|? x ? q Hx HF']; subst. cbn [fst snd] in *.
    destruct (IH q HF') as (axes & Hs & Hc & Hp & Hh & Hl).
    exists ((SLinear, c, x) :: axes). cbn [map]. unfold a_s at 1, a_c at 1, a_x at 1. cbn [fst snd].
    rewrite Hs, Hc, Hp. repeat split; try reflexivity.
    + constructor; [|exact Hh]. unfold hull_ok, a_c, a_x. cbn [fst snd].
      repeat split; try assumption; rewrite Forall_forall in Hxs; apply (Hxs x Hx).
    + constructor; [reflexivity | exact Hl].
Qed.

Lemma resample_affine (l : list (list R * list R)) a0 al :
  Forall src_tgt_ok l ->
  let cvs := map fst l in let mesh := map snd l in
  let f := fun p : list R => a0 + lincomb al p in
  peraxis_mesh (map (fun _ => SLinear) l) cvs (vget (map (@length R) cvs) (collocate f cvs)) mesh
  = collocate f mesh.
Proof.
  intros Hok cvs mesh f.
  pose (ml := map (fun t : list R * list R => (SLinear, fst t, snd t)) l : list maxis).
  assert (Hs : map m_s ml = map (fun _ => SLinear) l) by (unfold ml; rewrite map_map; reflexivity).
  assert (Hc : map m_c ml = cvs) by (unfold ml, cvs; rewrite map_map; reflexivity).
  assert (Hx : map m_xs ml = mesh) by (unfold ml, mesh; rewrite map_map; reflexivity).
  rewrite <- Hs. rewrite <- Hc at 1. rewrite <- Hx at 1.
  rewrite peraxis_mesh_pointwise, Hs, Hc, Hx. unfold collocate at 2.
  apply map_ext_in. intros p Hp.
  destruct (axes_of_point l p Hok (cart_In mesh p Hp)) as (axes & Has & Hac & Hax & Hh & Hl).
  fold cvs in Hac. rewrite <- Has, <- Hax. rewrite <- Hac at 1.
  replace (vget (map (@length R) cvs) (collocate f cvs)) with (sampled axes f)
    by (unfold sampled; rewrite shape_of_lengths, Hac; reflexivity).
  apply (sample_affine_linear axes a0 al Hh Hl).
Qed.

Lemma reference_example :
  Forall2 ref_ok [(SLinear, [0; 1; 3], 2); (SNearest, [0; 1; 3], 2)] [0%nat; 2%nat].
Proof.
  pose proof Asc_example as Ha.
  constructor; [split; [exact Ha | cbn; repeat constructor]|].
  constructor; [|constructor]. split; [exact Ha|]. cbn [a_s a_c a_x fst snd].
  (* x = 2 is the midpoint of nodes 1 and 3: the right one (index 2) is the closest-rightmost *)
  assert (Hn : nearest_nat [0; 1; 3] 2 = 2%nat).
  { pose proof (tie_right [0; 1; 3] 1 Ha ltac:(cbn; repeat constructor)) as Ht. cbn [nth] in Ht.
    replace ((1 + 3) / 2) with 2 in Ht by lra. exact Ht. }
  pose proof (nearest_closest [0; 1; 3] 2 Ha ltac:(cbn; repeat constructor)) as Hc.
  rewrite Hn in Hc. exact Hc.
Qed.

(* ------------------------------------------------------------------ *)
(* calling conventions by shape: which non-meshgrid inputs are accepted, and what comes back.
   (gen_check_array_input, gen_is_valid_input_array, gen_out_shape_from_array are regenerated
   from _check_interp_input and odl/util/vectorization.py.)                     *)
Definition conv_ref (d : nat) (xshape : list nat) : option (list nat) :=
  if (d =? 1)%nat then
    match xshape with
    | [] => Some []                      (* a scalar: one point, scalar result *)
    | [n] => Some [n]                    (* n points *)
    | [a; n] => if (a =? 1)%nat then Some [n] else None     (* (1, n): n points *)
    | _ => None
    end
  else
    match xshape with
    | [a] => if (a =? d)%nat then Some [] else None         (* (d,): one point, scalar result *)
    | [a; n] => if (a =? d)%nat then Some [n] else None     (* (d, n): n points *)
    | _ => None
    end.

Lemma div_cancel_l d n : (1 <= d)%nat -> (d * (n * 1) / d = n)%nat.
Proof. intros Hd. rewrite Nat.mul_1_r, Nat.mul_comm. apply Nat.div_mul. lia. Qed.


Ltac sh := cbn [nats_eqb length nth fst snd prodn fold_right andb orb negb Nat.eqb].
Ltac sh2 := sh; rewrite ?andb_false_r, ?Nat.ltb_irrefl; sh.
Lemma array_call_shape_ref (d : nat) (xshape : list nat) : (1 <= d)%nat ->
  array_call_shape d xshape = conv_ref d xshape.
Proof.
  intros Hd. unfold array_call_shape, conv_ref, gen_check_array_input, gen_is_valid_input_array,
    gen_out_shape_from_array.
  destruct (Nat.eqb_spec d 1) as [-> | Hd1].
  - destruct xshape as [|a [|n [|c r]]]; sh2.
    + reflexivity.
    + rewrite !Nat.mul_1_r, Nat.mul_1_l, Nat.div_1_r. reflexivity.
    + destruct (a =? 1)%nat eqn:E; sh2; [|reflexivity].
      apply Nat.eqb_eq in E. subst a. rewrite !Nat.mul_1_r, Nat.mul_1_l, Nat.div_1_r. reflexivity.
    + reflexivity.
  - assert (H1 : (1 <? d)%nat = true) by (apply Nat.ltb_lt; lia).
    destruct xshape as [|a [|n [|c r]]]; sh2; rewrite ?H1; sh2.
    + reflexivity.
    + destruct (a =? d)%nat eqn:E; sh2; [|reflexivity]. rewrite ?Nat.eqb_refl. reflexivity.
    + destruct (a =? d)%nat eqn:E; sh2; [|reflexivity].
      apply Nat.eqb_eq in E. subst a. rewrite div_cancel_l by exact Hd. reflexivity.
    + reflexivity.
Qed.
