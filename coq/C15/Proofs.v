(* C15/Proofs.v -- lemmas about C15/Model.v (R instance, Z/nat index logic). *)
From Coq Require Import ZArith Reals Lra Lia List Bool.
From Verif Require Import Base.Num Base.Vec Base.VecR C15.Model.
Import ListNotations.
Local Open Scope R_scope.
