(* C15/Transfer.v -- the model executed at Q by the correspondence shards is the rational
   restriction of the model the theorems are about: Q2R commutes with every executable function
   of C15/Model.v and C15/Call.v (including the REGENERATED helpers of Gen/InterpWeights.v),
   for ALL inputs -- no side condition, because division is total in both carriers
   (x / 0 = 0 at Q and, by Rinv_0, at R). *)
From Coq Require Import ZArith QArith Qreals Reals Lra Lia List Bool.
From Verif Require Import Base.Num Base.Vec Base.Transfer C15.Syntax Gen.InterpWeights C15.Model C15.Call.
Import ListNotations.

Notation QR := (map Q2R).

(* division, without the nonzero side condition of Base.Transfer.Q2R_ndiv *)
Lemma Q2R_ndiv_total (a b : Q) : Q2R (ndiv a b) = ndiv (Q2R a) (Q2R b).
Proof.
  destruct (Qeq_dec b 0) as [Hb|Hb]; [|apply Q2R_ndiv, Hb].
  cbn [ndiv Num_Q Num_R]. unfold Qdiv'. rewrite Q2R_red. unfold Qdiv. rewrite Q2R_mult.
  assert (Hi : (/ b == 0)%Q).
  { destruct b as [[|p|p] d]; unfold Qeq in *; cbn in *; try reflexivity; discriminate. }
  rewrite (Qeq_eqR _ _ Hi), (Qeq_eqR _ _ Hb), Q2R_0. unfold Rdiv. rewrite Rinv_0. reflexivity.
Qed.

Lemma Q2R_if (b : bool) (u v : Q) : Q2R (if b then u else v) = if b then Q2R u else Q2R v.
Proof. destruct b; reflexivity. Qed.

(* push Q2R through an expression built from the class operations *)
Ltac q2r :=
  repeat first
    [ rewrite Q2R_nadd | rewrite Q2R_nsub | rewrite Q2R_nmul | rewrite Q2R_ndiv_total | rewrite Q2R_nopp
    | rewrite Q2R_nzero | rewrite Q2R_none | rewrite Q2R_of_Q | rewrite Q2R_of_Z | rewrite Q2R_if
    | rewrite Q2R_nltb | rewrite Q2R_nleb | rewrite Q2R_neqb ].

(* ---- index search ---- *)
Lemma ssleft_transfer (c : list Q) (x : Q) : ssleft c x = ssleft (QR c) (Q2R x).
Proof. induction c as [|a c IH]; cbn [ssleft map]; [reflexivity|]. rewrite Q2R_nltb, IH. reflexivity. Qed.

Lemma cell_index_transfer (c : list Q) (x : Q) : cell_index c x = cell_index (QR c) (Q2R x).
Proof. unfold cell_index. rewrite map_length, ssleft_transfer. reflexivity. Qed.

Lemma pyget_transfer (c : list Q) (i : Z) : Q2R (pyget c i) = pyget (QR c) i.
Proof. unfold pyget. rewrite map_length. apply Q2R_nth. Qed.

Lemma norm_dist_transfer (c : list Q) (x : Q) : Q2R (norm_dist c x) = norm_dist (QR c) (Q2R x).
Proof.
  unfold norm_dist, gen_norm_dist. cbv zeta. rewrite <- cell_index_transfer. q2r.
  rewrite !pyget_transfer. reflexivity.
Qed.

(* ---- the regenerated weight / edge helpers ---- *)
Definition axQ2R (a : axdat Q) : axdat R := mkax (e_lo a) (e_hi a) (Q2R (w_lo a)) (Q2R (w_hi a)).

Lemma weights_edge_transfer (s : scheme) (i : Z) (y : Q) :
  axQ2R (weights_edge s i y) = weights_edge s i (Q2R y).
Proof.
  unfold weights_edge, gen_weights_edge, axQ2R.
  destruct s; unfold gen_nearest_weights_edge, gen_linear_weights_edge; cbv zeta; cbn [e_lo e_hi w_lo w_hi];
    q2r; reflexivity.
Qed.

Lemma weights_cell_transfer (s : scheme) (c : list Q) (x : Q) :
  axQ2R (weights_edge s (cell_index c x) (norm_dist c x))
  = weights_edge s (cell_index (QR c) (Q2R x)) (norm_dist (QR c) (Q2R x)).
Proof. rewrite weights_edge_transfer, norm_dist_transfer, cell_index_transfer. reflexivity. Qed.

Lemma axis_data_transfer (s : scheme) (c : list Q) (x : Q) :
  axQ2R (axis_data s c x) = axis_data s (QR c) (Q2R x).
Proof.
  destruct c as [|a [|b c]]; [exact (weights_cell_transfer s [] x) | | exact (weights_cell_transfer s (a :: b :: c) x)].
  cbn [axis_data map]. unfold axQ2R. cbn [e_lo e_hi w_lo w_hi]. rewrite Q2R_nzero, Q2R_none. reflexivity.
Qed.

Lemma nearest_pick_cell (c : list Q) (x : Q) :
  gen_nearest_pick (cell_index c x) (norm_dist c x)
  = gen_nearest_pick (cell_index (QR c) (Q2R x)) (norm_dist (QR c) (Q2R x)).
Proof.
  rewrite <- cell_index_transfer, <- norm_dist_transfer. unfold gen_nearest_pick. q2r. reflexivity.
Qed.

Lemma nearest_index_transfer (c : list Q) (x : Q) : nearest_index c x = nearest_index (QR c) (Q2R x).
Proof.
  destruct c as [|a [|b c]]; [exact (nearest_pick_cell [] x) | reflexivity | exact (nearest_pick_cell (a :: b :: c) x)].
Qed.

(* ---- corner sum ---- *)
Lemma sumf_transfer (l : list Q) : Q2R (sumf l) = sumf (QR l).
Proof. induction l as [|a l IH]; cbn [sumf map]; [apply Q2R_nzero|]. rewrite Q2R_nadd, IH. reflexivity. Qed.

Lemma corners_transfer (axd : list (axdat Q)) :
  map (fun iw : list Z * Q => (fst iw, Q2R (snd iw))) (corners axd) = corners (map axQ2R axd).
Proof.
  induction axd as [|a r IH]; cbn [corners map].
  - cbn [fst snd]. rewrite Q2R_none. reflexivity.
  - rewrite map_app, !map_map. rewrite <- IH, !map_map. cbn [fst snd axQ2R e_lo e_hi w_lo w_hi].
    f_equal; apply map_ext; intros iw; rewrite Q2R_nmul; reflexivity.
Qed.

Lemma corner_sum_transfer (v : list Z -> Q) (v' : list Z -> R) (axd : list (axdat Q)) :
  (forall ix, Q2R (v ix) = v' ix) -> Q2R (corner_sum v axd) = corner_sum v' (map axQ2R axd).
Proof.
  intros Hv. unfold corner_sum. rewrite sumf_transfer, <- corners_transfer, !map_map. f_equal.
  apply map_ext. intros iw. cbn [fst snd]. rewrite Q2R_nmul, Hv. reflexivity.
Qed.

Lemma vget_transfer (shape : list nat) (flat : list Q) (ix : list Z) :
  Q2R (vget shape flat ix) = vget shape (QR flat) ix.
Proof. unfold vget, wrapped. apply Q2R_nth. Qed.

Lemma map3_axis_data_transfer (ss : list scheme) (cvs : list (list Q)) (x : list Q) :
  map axQ2R (map3 axis_data ss cvs x) = map3 axis_data ss (map QR cvs) (QR x).
Proof.
  revert cvs x; induction ss as [|s ss IH]; intros [|c cvs] [|a x]; try reflexivity.
  cbn [map3 map]. rewrite axis_data_transfer, IH. reflexivity.
Qed.

Lemma map2_nearest_index_transfer (cvs : list (list Q)) (x : list Q) :
  map2 nearest_index cvs x = map2 nearest_index (map QR cvs) (QR x).
Proof.
  revert x; induction cvs as [|c cvs IH]; intros [|a x]; try reflexivity.
  cbn [map2 map]. rewrite nearest_index_transfer, IH. reflexivity.
Qed.

(* ---- one point, point arrays, mesh grids ---- *)
Lemma peraxis_point_transfer ss (cvs : list (list Q)) shape flat (x : list Q) :
  Q2R (peraxis_point ss cvs (vget shape flat) x)
  = peraxis_point ss (map QR cvs) (vget shape (QR flat)) (QR x).
Proof.
  unfold peraxis_point. rewrite (corner_sum_transfer _ (vget shape (QR flat))) by (intros; apply vget_transfer).
  rewrite map3_axis_data_transfer. reflexivity.
Qed.

Lemma nearest_point_transfer (cvs : list (list Q)) shape flat (x : list Q) :
  Q2R (nearest_point cvs (vget shape flat) x) = nearest_point (map QR cvs) (vget shape (QR flat)) (QR x).
Proof. unfold nearest_point. rewrite vget_transfer, map2_nearest_index_transfer. reflexivity. Qed.

Lemma cart_map {A B} (f : A -> B) (xs : list (list A)) : cart (map (map f) xs) = map (map f) (cart xs).
Proof.
  induction xs as [|l r IH]; [reflexivity|]. cbn [map cart]. rewrite IH. clear IH.
  induction l as [|a l IHl]; [reflexivity|]. cbn [map flat_map]. rewrite map_app, IHl, !map_map. reflexivity.
Qed.

Lemma peraxis_points_transfer ss (cvs : list (list Q)) shape flat (pts : list (list Q)) :
  QR (peraxis_points ss cvs (vget shape flat) pts)
  = peraxis_points ss (map QR cvs) (vget shape (QR flat)) (map QR pts).
Proof.
  unfold peraxis_points. rewrite !map_map. apply map_ext. intros x. apply peraxis_point_transfer.
Qed.

Lemma nearest_points_transfer (cvs : list (list Q)) shape flat (pts : list (list Q)) :
  QR (nearest_points cvs (vget shape flat) pts)
  = nearest_points (map QR cvs) (vget shape (QR flat)) (map QR pts).
Proof.
  unfold nearest_points. rewrite !map_map. apply map_ext. intros x. apply nearest_point_transfer.
Qed.

Lemma mesh_axd_transfer (ss : list scheme) (cvs mesh : list (list Q)) :
  map (map axQ2R) (map3 (fun s c xs => map (axis_data s c) xs) ss cvs mesh)
  = map3 (fun s c xs => map (axis_data s c) xs) ss (map QR cvs) (map QR mesh).
Proof.
  revert cvs mesh; induction ss as [|s ss IH]; intros [|c cvs] [|xs mesh]; try reflexivity.
  cbn [map3 map]. rewrite IH. f_equal. rewrite !map_map. apply map_ext. intros a. apply axis_data_transfer.
Qed.

Lemma peraxis_mesh_transfer ss (cvs : list (list Q)) shape flat (mesh : list (list Q)) :
  QR (peraxis_mesh ss cvs (vget shape flat) mesh)
  = peraxis_mesh ss (map QR cvs) (vget shape (QR flat)) (map QR mesh).
Proof.
  unfold peraxis_mesh. rewrite <- mesh_axd_transfer, cart_map, !map_map. apply map_ext. intros axd.
  apply corner_sum_transfer. intros; apply vget_transfer.
Qed.

Lemma mesh_idx_transfer (cvs mesh : list (list Q)) :
  map2 (fun c xs => map (nearest_index c) xs) cvs mesh
  = map2 (fun c xs => map (nearest_index c) xs) (map QR cvs) (map QR mesh).
Proof.
  revert mesh; induction cvs as [|c cvs IH]; intros [|xs mesh]; try reflexivity.
  cbn [map2 map]. rewrite IH. f_equal. rewrite map_map. apply map_ext. intros a. apply nearest_index_transfer.
Qed.

Lemma nearest_mesh_transfer (cvs : list (list Q)) shape flat (mesh : list (list Q)) :
  QR (nearest_mesh cvs (vget shape flat) mesh)
  = nearest_mesh (map QR cvs) (vget shape (QR flat)) (map QR mesh).
Proof.
  unfold nearest_mesh. rewrite <- mesh_idx_transfer, map_map. apply map_ext. intros ix. apply vget_transfer.
Qed.

(* ---- collocation of the expression language ---- *)
Lemma feval_transfer (e : fexpr) (x : list Q) : Q2R (feval e x) = feval e (QR x).
Proof.
  induction e as [c | k | a IHa b IHb | a IHa b IHb | a IHa b IHb | k t a IHa b IHb]; cbn [feval].
  - apply Q2R_of_Q.
  - apply Q2R_nth.
  - rewrite Q2R_nadd, IHa, IHb. reflexivity.
  - rewrite Q2R_nsub, IHa, IHb. reflexivity.
  - rewrite Q2R_nmul, IHa, IHb. reflexivity.
  - rewrite Q2R_if, Q2R_nltb, Q2R_of_Q, Q2R_nth, IHa, IHb. reflexivity.
Qed.

Lemma collocate_transfer (e : fexpr) (cvs : list (list Q)) :
  QR (collocate (feval e) cvs) = collocate (feval e) (map QR cvs).
Proof.
  unfold collocate. rewrite cart_map, !map_map. apply map_ext. intros x. apply feval_transfer.
Qed.

(* ---- the whole call ---- *)
Definition inQ2R (i : @input Q) : @input R :=
  match i with IPoints pts => IPoints (map QR pts) | IMesh m => IMesh (map QR m) end.
Definition outQ2R (o : @outcome Q) : @outcome R :=
  match o with Ok r => Ok (QR r) | NonFinite => NonFinite | TypeErr => TypeErr | ValueErr => ValueErr end.

Lemma lengths_QR (cvs : list (list Q)) : map (@length R) (map QR cvs) = map (@length Q) cvs.
Proof. rewrite map_map. apply map_ext. intros c. apply map_length. Qed.

Lemma schemes_of_transfer k ss (cvs : list (list Q)) : schemes_of k ss (map QR cvs) = schemes_of k ss cvs.
Proof. destruct k; cbn [schemes_of]; rewrite ?map_map; reflexivity. Qed.

Lemma run_transfer var k ss (cvs : list (list Q)) flat i :
  QR (run var k ss cvs flat i) = run var k ss (map QR cvs) (QR flat) (inQ2R i).
Proof.
  unfold run. rewrite lengths_QR, schemes_of_transfer.
  destruct (match k with KNearest => true | KLinear => false
                    | KPerAxis => negb (int_raises var) && gen_peraxis_index_based ss end); destruct i; cbn [inQ2R].
  - apply nearest_points_transfer.
  - apply nearest_mesh_transfer.
  - apply peraxis_points_transfer.
  - apply peraxis_mesh_transfer.
Qed.

Lemma degenerate_transfer ss (cvs : list (list Q)) : degenerate ss (map QR cvs) = degenerate ss cvs.
Proof.
  unfold degenerate. revert cvs; induction ss as [|s ss IH]; intros [|c cvs]; try reflexivity.
  cbn [map combine existsb fst snd]. rewrite IH. destruct s; [reflexivity|].
  destruct c as [|a [|b c]]; reflexivity.
Qed.

Lemma rejected_transfer (cvs : list (list Q)) i o : rejected (map QR cvs) (inQ2R i) o = rejected cvs i o.
Proof.
  unfold rejected. rewrite map_length.
  assert (H1 : (match inQ2R i with
                | IPoints pts => existsb (fun p => negb (length p =? length cvs)%nat) pts
                | IMesh m => negb (length m =? length cvs)%nat end)
             = (match i with
                | IPoints pts => existsb (fun p => negb (length p =? length cvs)%nat) pts
                | IMesh m => negb (length m =? length cvs)%nat end)).
  { destruct i as [pts|m]; cbn [inQ2R]; [|rewrite map_length; reflexivity].
    induction pts as [|p pts IH]; [reflexivity|]. cbn [map existsb]. rewrite map_length, IH. reflexivity. }
  rewrite H1. destruct o as [[sh dt]|]; [|reflexivity].
  assert (H2 : out_shape (inQ2R i) = out_shape i).
  { destruct i; cbn [inQ2R out_shape]; [rewrite map_length; reflexivity|].
    rewrite map_map. apply map_ext. intros xs. apply map_length. }
  rewrite H2. reflexivity.
Qed.

Lemma existsb_len_transfer (m : list (list Q)) :
  existsb (fun xs : list R => negb (length xs =? 1)%nat) (map QR m)
  = existsb (fun xs : list Q => negb (length xs =? 1)%nat) m.
Proof. induction m as [|xs m IH]; [reflexivity|]. cbn [map existsb]. rewrite map_length, IH. reflexivity. Qed.

Lemma mesh1_transfer (i : @input Q) : mesh1 (inQ2R i) = mesh1 i.
Proof.
  destruct i as [pts|m]; [reflexivity|]. cbn [inQ2R]. destruct m as [|x0 r]; [reflexivity|].
  destruct x0 as [|a [|b x0]]; try reflexivity. destruct r as [|x1 r]; [reflexivity|].
  change (mesh1 (IMesh (map QR ([a] :: x1 :: r))))
    with (existsb (fun xs : list R => negb (length xs =? 1)%nat) (map QR ([a] :: x1 :: r))).
  rewrite existsb_len_transfer. reflexivity.
Qed.

(* The executed call is the rational restriction of the call the theorems are about. *)
Theorem interp_call_transfer var k ss (cvs : list (list Q)) dt flat i o :
  outQ2R (interp_call var k ss cvs dt flat i o)
  = interp_call var k ss (map QR cvs) dt (QR flat) (inQ2R i) o.
Proof.
  unfold interp_call. rewrite rejected_transfer, mesh1_transfer, schemes_of_transfer, degenerate_transfer.
  destruct (rejected cvs i o) as [[|]|]; try reflexivity.
  destruct (mesh1_raises var && mesh1 i); [reflexivity|].
  destruct k, dt; cbn [outQ2R];
    repeat match goal with |- context [if ?b then _ else _] => destruct b end;
    cbn [outQ2R]; rewrite ?run_transfer; reflexivity.
Qed.
