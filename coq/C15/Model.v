(* C15/Model.v -- sampling (collocation on the mesh) and interpolation
   (odl/discr/discr_utils.py: _Interpolator._find_indices,
   _compute_nearest_weights_edge, _compute_linear_weights_edge,
   _NearestInterpolator._evaluate, _PerAxisInterpolator._evaluate).
   Executable definitions only, polymorphic over the carrier; proofs are in
   C15/Proofs.v, statements in C15/Props.v. *)
From Coq Require Import ZArith QArith List Bool.
From Verif Require Import Base.Num Base.Vec C15.Syntax Gen.InterpWeights.
Import ListNotations.
Local Open Scope num_scope.

Section Model.
Context {T : Type} `{Num T}.

(* ---- _find_indices ---- *)
(* np.searchsorted(cvec, x) (side='left') on an ascending vector: the number
   of entries < x, which for an ascending vector is the length of the prefix
   of entries < x *)
Fixpoint ssleft (c : list T) (x : T) : nat :=
  match c with
  | [] => O
  | a :: c' => if a <? x then S (ssleft c' x) else O
  end.

(* idcs = searchsorted - 1;  idcs[idcs < 0] = 0;  idcs[idcs > n-2] = n-2
   -- the clamping is REGENERATED from _find_indices (Gen.InterpWeights.gen_cell_index) *)
Definition cell_index (c : list T) (x : T) : Z :=
  gen_cell_index (Z.of_nat (ssleft c x)) (Z.of_nat (length c)).

(* NumPy subscript: negative indices count from the end *)
Definition wrap (n : nat) (i : Z) : nat :=
  Z.to_nat (if (i <? 0)%Z then (i + Z.of_nat n)%Z else i).
Definition pyget (c : list T) (i : Z) : T := nth (wrap (length c) i) c nzero.

(* (xi - cvec[idcs]) / (cvec[idcs + 1] - cvec[idcs])  (regenerated: gen_norm_dist) *)
Definition norm_dist (c : list T) (x : T) : T :=
  let i := cell_index c x in
  gen_norm_dist x (pyget c i) (pyget c (i + 1)).

(* _compute_nearest_weights_edge / _compute_linear_weights_edge and the dispatch in
   _create_weight_edge_lists are REGENERATED from the source on every run
   (Gen.InterpWeights.gen_weights_edge, by translate/interp_weights.py) *)
Definition weights_edge (s : scheme) (i : Z) (y : T) : axdat T := gen_weights_edge s i y.

(* An axis with a single node: cvec[idcs+1] - cvec[idcs] = 0, the normalised
   distance is 0/0 or +-x/0 (nan / inf).  'nearest' still reads node 0 with
   weight 1 (every comparison with nan is False; +-inf take the lo/hi
   branches, all of which subscript the only node); 'linear' produces
   non-finite weights -- see [degenerate] below, the model does not assign a
   number to that case. *)
Definition axis_data (s : scheme) (c : list T) (x : T) : axdat T :=
  match c with
  | [_] => mkax (-1)%Z 0%Z nzero none_
  | _ => weights_edge s (cell_index c x) (norm_dist c x)
  end.

(* ---- _PerAxisInterpolator._evaluate, one evaluation point ----
   all 2^d combinations of (lo|hi) per axis, first axis slowest (itertools.product);
   each carries the subscript tuple and the product of the chosen weights *)
Fixpoint corners (axd : list (axdat T)) : list (list Z * T) :=
  match axd with
  | [] => [([], none_)]
  | a :: r =>
      map (fun iw : list Z * T => (e_lo a :: fst iw, w_lo a * snd iw)) (corners r) ++
      map (fun iw : list Z * T => (e_hi a :: fst iw, w_hi a * snd iw)) (corners r)
  end.

(* out = 0;  out += values[edge] * weight  for every corner *)
Definition corner_sum (v : list Z -> T) (axd : list (axdat T)) : T :=
  sumf (map (fun iw : list Z * T => v (fst iw) * snd iw) (corners axd)).

(* ---- _NearestInterpolator._evaluate: np.where(yi < .5, i, i + 1) per axis ---- *)
Definition nearest_index (c : list T) (x : T) : Z :=
  match c with
  | [_] => 0%Z
  | _ => gen_nearest_pick (cell_index c x) (norm_dist c x)     (* regenerated: np.where(yi < .5, i, i + 1) *)
  end.

Fixpoint map2 {A B C} (f : A -> B -> C) (l : list A) (m : list B) : list C :=
  match l, m with a :: l', b :: m' => f a b :: map2 f l' m' | _, _ => [] end.
Fixpoint map3 {A B C D} (f : A -> B -> C -> D) (l : list A) (m : list B) (k : list C) : list D :=
  match l, m, k with a :: l', b :: m', c :: k' => f a b c :: map3 f l' m' k' | _, _, _ => [] end.

(* one point x = (x_1 .. x_d) *)
Definition peraxis_point (ss : list scheme) (cvs : list (list T)) (v : list Z -> T) (x : list T) : T :=
  corner_sum v (map3 axis_data ss cvs x).
Definition nearest_point (cvs : list (list T)) (v : list Z -> T) (x : list T) : T :=
  v (map2 nearest_index cvs x).

(* ---- values: flat C-order list with a shape, NumPy subscripts per axis ---- *)
Fixpoint nat_index (shape : list nat) (js : list nat) : nat :=
  match shape, js with
  | n :: sh, j :: js' => (j * prodn sh + nat_index sh js')%nat
  | _, _ => O
  end.
(* the array as a function of NumPy subscripts: wrap each subscript, then C-order offset *)
Definition wrapped (shape : list nat) (G : list nat -> T) (idx : list Z) : T := G (map2 wrap shape idx).
Definition vget (shape : list nat) (flat : list T) : list Z -> T :=
  wrapped shape (fun js => nth (nat_index shape js) flat nzero).

(* ---- calling conventions ----
   point array of shape (d, N): N points, each evaluated on its own *)
Definition peraxis_points ss cvs v (pts : list (list T)) : list T := map (peraxis_point ss cvs v) pts.
Definition nearest_points cvs v (pts : list (list T)) : list T := map (nearest_point cvs v) pts.

(* mesh grid (x_1-vector, .., x_d-vector): the code computes the per-axis
   data ONCE per axis coordinate and lets broadcasting form the tensor
   product; the result has shape (N_1, .., N_d), here flat in C order *)
Fixpoint cart {A} (xs : list (list A)) : list (list A) :=
  match xs with
  | [] => [[]]
  | l :: r => flat_map (fun a => map (cons a) (cart r)) l
  end.
Definition peraxis_mesh ss cvs v (mesh : list (list T)) : list T :=
  map (corner_sum v) (cart (map3 (fun s c xs => map (axis_data s c) xs) ss cvs mesh)).
Definition nearest_mesh cvs v (mesh : list (list T)) : list T :=
  map v (cart (map2 (fun c xs => map (nearest_index c) xs) cvs mesh)).

(* inputs on which the code produces nan/inf instead of a number: a linearly
   interpolated axis with a single node *)
Definition degenerate (ss : list scheme) (cvs : list (list T)) : bool :=
  existsb (fun sc : scheme * list T =>
             match fst sc, snd sc with SLinear, [_] => true | _, _ => false end) (combine ss cvs).

(* ---- sampling: point_collocation(func, meshgrid): the function at every grid
   point, C order ---- *)
Definition collocate (f : list T -> T) (cvs : list (list T)) : list T := map f (cart cvs).

(* a small language of callables for the sampling correspondence: the value
   the callable's Python source denotes at a point *)
Inductive fexpr :=
| FConst (c : Q) | FCoord (k : nat)
| FAdd (a b : fexpr) | FSub (a b : fexpr) | FMul (a b : fexpr)
| FStep (k : nat) (t : Q) (a b : fexpr).      (* a if x_k < t else b *)
Fixpoint feval (e : fexpr) (x : list T) : T :=
  match e with
  | FConst c => of_Q c
  | FCoord k => nth k x nzero
  | FAdd a b => feval a x + feval b x
  | FSub a b => feval a x - feval b x
  | FMul a b => feval a x * feval b x
  | FStep k t a b => if nth k x nzero <? of_Q t then feval a x else feval b x
  end.

(* strictly ascending coordinate vector (what RectGrid guarantees), executable *)
Fixpoint ascending (c : list T) : bool :=
  match c with
  | a :: ((b :: _) as c') => (a <? b) && ascending c'
  | _ => true
  end.
End Model.
