(* C15/Props.v -- property theorems only. *)
From Coq Require Import ZArith Reals List Bool.
From Verif Require Import Base.Num Base.Vec C15.Model C15.Proofs.
Import ListNotations.
Local Open Scope R_scope.
