(* C15/Props.v -- property theorems only; each is closed by [exact] of a lemma from
   C15/Proofs.v and followed by Print Assumptions.

   The model (C15/Model.v) mirrors odl/discr/discr_utils.py:
     cell_index / norm_dist   = _Interpolator._find_indices (searchsorted - 1, clamped to [0, n-2])
     weights_edge / axis_data = _compute_nearest_weights_edge, _compute_linear_weights_edge (regenerated)
     corner_sum               = _PerAxisInterpolator._evaluate (sum over the 2^d corners)
     nearest_index/_point     = _NearestInterpolator._evaluate
     peraxis_points / _mesh   = point-array / mesh-grid calling conventions
     collocate                = point_collocation(func, space.meshgrid)
   and is tied to the current source by the translator (see below) and the correspondence run
   at Q (harness/c15.py).

   Vocabulary (definitions in C15/Proofs.v, repeated here for the reader):
     Asc c            : forall i < j < length c, c_i < c_j            (strictly ascending nodes)
     good_axis s c    : Asc c /\ (2 <= length c \/ (s = SNearest /\ length c = 1))
     closest c x j    : j < length c /\ forall m < length c,
                          |x - c_j| <= |x - c_m| /\ (j < m -> |x - c_j| < |x - c_m|)
                        (a closest node, and the RIGHTMOST of the closest ones)
     axis             : (scheme, coordinate vector, evaluation coordinate), accessors a_s a_c a_x
     shape_of axes    : the axis lengths
     wrapped shape G  : the array  idx |-> G (NumPy-wrapped idx); [vget shape flat] is the instance
                        for a flat C-order list, so every theorem below covers all arrays
     interp1 s c v x  : peraxis_point [s] [c] (vget [length c] v) [x]      (one dimension)
     cellnat c x      : min (pred (ssleft c x)) (length c - 2)   (the clamped cell as a nat)
     at_node (s,c,j)  : the axis (s, c, nth j c 0);  n_j (s,c,j) = j
     tensor_eval      : recursive reading of the corner sum: blend along the first axis of the
                        tensor_eval of the remaining axes
     mblend, lin_t    : the textbook recursive blend (unfoldings shown as Examples after T4)
     lincomb al p     : a_1*p_1 + .. (truncating);  nodes_at axes js / node_at cvs js : the grid
                        node with index tuple js
     m_s m_c m_xs     : accessors of (scheme, nodes, evaluation coordinates along this axis)
     bsearch          : lower-bound binary search (lo, hi, mid = lo + (hi-lo)/2, fuel = length)
   The weight/edge rules, the index clamping, the normalised distance and the nearest pick are
   not hand-written: Model.v calls Gen/InterpWeights.v, REGENERATED from discr_utils.py on every
   run by translate/interp_weights.py, so the theorems are re-checked against the current source. *)
From Coq Require Import ZArith QArith Reals List Bool.
From Coq Require Import Qreals.
From Verif Require Import Base.Num Base.Vec C15.Syntax Gen.InterpWeights C15.Model C15.Call C15.Proofs C15.Refuted C15.Transfer.
Import ListNotations.
Local Open Scope R_scope.

(* ------------------------------------------------------------------ *)
(* T1 (index search).  For every strictly ascending vector of n >= 2 nodes and every real x,
   _find_indices returns a cell i with i+1 < n and the normalised distance of x in it, in one
   of three regimes: below the grid (i = 0, y < 0), inside the hull (c_i <= x <= c_{i+1},
   0 <= y <= 1), above the grid (i = n-2, y > 1). *)
Theorem find_indices_spec : forall (c : list R) (x : R), Asc c -> (2 <= length c)%nat ->
  let i := cellnat c x in let y := norm_dist c x in
  cell_index c x = Z.of_nat i /\
  (S i < length c)%nat /\ nth i c 0 < nth (S i) c 0 /\
  y = (x - nth i c 0) / (nth (S i) c 0 - nth i c 0) /\
  ( (x < nth 0 c 0 /\ i = O /\ y < 0)
    \/ (nth 0 c 0 <= x <= nth (length c - 1) c 0 /\ nth i c 0 <= x <= nth (S i) c 0 /\ 0 <= y <= 1
        /\ (nth i c 0 = x -> i = O))
    \/ (nth (length c - 1) c 0 < x /\ i = (length c - 2)%nat /\ 1 < y) ).
Proof. exact find_indices_full. Qed.
Print Assumptions find_indices_spec.

(* ------------------------------------------------------------------ *)
(* T2 (node values are reproduced exactly; d dimensions, every per-axis mix of schemes, all
   axis lengths >= 2, and length-1 axes with 'nearest').  naxes lists (scheme, nodes, j) per
   axis; the evaluation point is the grid node (c_1[j_1], .., c_d[j_d]). *)
Theorem interpolation_reproduces_nodes : forall (naxes : list (scheme * list R * nat)) (G : list nat -> R),
  Forall (fun t : scheme * list R * nat =>
            good_axis (fst (fst t)) (snd (fst t)) /\ (snd t < length (snd (fst t)))%nat) naxes ->
  let axes := map at_node naxes in          (* (s, c, nth j c 0) *)
  peraxis_point (map a_s axes) (map a_c axes) (wrapped (shape_of axes) G) (map a_x axes)
  = G (map n_j naxes).
Proof. exact peraxis_node_d. Qed.
Print Assumptions interpolation_reproduces_nodes.

Theorem interp1_reproduces_nodes : forall s (c v : list R) (j : nat),
  good_axis s c -> (j < length c)%nat -> interp1 s c v (nth j c 0) = nth j v 0.
Proof. exact interp1_node. Qed.
Print Assumptions interp1_reproduces_nodes.

(* ------------------------------------------------------------------ *)
(* T3 (nearest).  In d dimensions with every axis 'nearest', both nearest_interpolator
   (_NearestInterpolator) and per_axis_interpolator(.., 'nearest') return the array entry
   whose index is, on every axis, a closest node and the right one on ties -- for every real
   evaluation point, inside or outside the grid. *)
Theorem nearest_returns_closest_node : forall (axes : list axis) (G : list nat -> R),
  Forall (fun t => a_s t = SNearest /\ Asc (a_c t) /\ (1 <= length (a_c t))%nat) axes ->
  exists js : list nat,
    Forall2 (fun t j => closest (a_c t) (a_x t) j) axes js /\
    nearest_point (map a_c axes) (wrapped (shape_of axes) G) (map a_x axes) = G js /\
    peraxis_point (map a_s axes) (map a_c axes) (wrapped (shape_of axes) G) (map a_x axes) = G js.
Proof. exact nearest_d. Qed.
Print Assumptions nearest_returns_closest_node.

(* the index is unique, so "closest, rightmost on ties" determines the result *)
Theorem closest_node_unique : forall (c : list R) x j j', closest c x j -> closest c x j' -> j = j'.
Proof. exact closest_unique. Qed.

Theorem nearest_1d : forall (c v : list R) x, Asc c -> (1 <= length c)%nat ->
  exists j, closest c x j /\ interp1 SNearest c v x = nth j v 0 /\
            nearest_points [c] (vget [length c] v) [[x]] = [nth j v 0].
Proof. exact interp1_nearest. Qed.
Print Assumptions nearest_1d.

(* at the midpoint of two neighbouring nodes the RIGHT neighbour is returned *)
Theorem nearest_tie_goes_right : forall (c v : list R) i, Asc c -> (S i < length c)%nat ->
  interp1 SNearest c v ((nth i c 0 + nth (S i) c 0) / 2) = nth (S i) v 0.
Proof. exact interp1_tie. Qed.
Print Assumptions nearest_tie_goes_right.

(* ------------------------------------------------------------------ *)
(* T4 (linear and per-axis mixed: the multilinear blend of the surrounding nodes, d dimensions).
   [mblend] is the textbook recursive blend: on a linear axis with cell i and
   t = (x - c_i)/(c_{i+1} - c_i):  (1-t) * (rest at i) + t * (rest at i+1); on a nearest axis:
   the rest at the closest node.  The code's sum over 2^d corners equals it for EVERY choice of
   cells containing the point (at a node either neighbouring cell may be named). *)
Theorem peraxis_is_multilinear_blend : forall (ca : list (axis * nat)) (G : list nat -> R),
  Forall (fun ti : axis * nat =>
    let t := fst ti in let i := snd ti in
    Asc (a_c t) /\
    match a_s t with
    | SLinear => (S i < length (a_c t))%nat /\ nth i (a_c t) 0 <= a_x t <= nth (S i) (a_c t) 0
    | SNearest => (1 <= length (a_c t))%nat
    end) ca ->
  let axes := map fst ca in
  peraxis_point (map a_s axes) (map a_c axes) (wrapped (shape_of axes) G) (map a_x axes) = mblend ca G.
Proof. exact peraxis_mblend_d. Qed.
Print Assumptions peraxis_is_multilinear_blend.

(* what [mblend] is, spelled out (definitional unfoldings) *)
Example mblend_linear_step : forall t i r (G : list nat -> R), a_s t = SLinear ->
  mblend ((t, i) :: r) G =
  (1 - (a_x t - nth i (a_c t) 0) / (nth (S i) (a_c t) 0 - nth i (a_c t) 0)) * mblend r (fun js => G (i :: js))
  + (a_x t - nth i (a_c t) 0) / (nth (S i) (a_c t) 0 - nth i (a_c t) 0) * mblend r (fun js => G (S i :: js)).
Proof. intros t i r G Hs. cbn [mblend]. rewrite Hs. reflexivity. Qed.
Example mblend_nearest_step : forall t i r (G : list nat -> R), a_s t = SNearest ->
  mblend ((t, i) :: r) G = mblend r (fun js => G (nearest_nat (a_c t) (a_x t) :: js)).
Proof. intros t i r G Hs. cbn [mblend]. rewrite Hs. reflexivity. Qed.
Example mblend_nil : forall G : list nat -> R, mblend [] G = G [].
Proof. reflexivity. Qed.

Theorem linear_1d : forall (c v : list R) x i, Asc c -> (S i < length c)%nat ->
  nth i c 0 <= x <= nth (S i) c 0 ->
  interp1 SLinear c v x =
  (1 - (x - nth i c 0) / (nth (S i) c 0 - nth i c 0)) * nth i v 0
  + (x - nth i c 0) / (nth (S i) c 0 - nth i c 0) * nth (S i) v 0.
Proof. exact interp1_linear_in. Qed.
Print Assumptions linear_1d.

(* ------------------------------------------------------------------ *)
(* T5 (exact on affine functions anywhere inside the hull; d dimensions, all axes linear).
   If the array holds  a0 + sum_k a_k * c_k[j_k]  at every grid index, the interpolated value
   at any point of the hull is  a0 + sum_k a_k * x_k. *)
Theorem linear_exact_on_affine : forall (axes : list axis) (G : list nat -> R) (a0 : R) (al : list R),
  Forall (fun t => Asc (a_c t) /\ (2 <= length (a_c t))%nat /\
                   nth 0 (a_c t) 0 <= a_x t <= nth (length (a_c t) - 1) (a_c t) 0) axes ->
  Forall (fun t => a_s t = SLinear) axes ->
  (forall js, Forall2 (fun t j => (j < length (a_c t))%nat) axes js ->
              G js = a0 + lincomb al (nodes_at axes js)) ->
  peraxis_point (map a_s axes) (map a_c axes) (wrapped (shape_of axes) G) (map a_x axes)
  = a0 + lincomb al (map a_x axes).
Proof. exact peraxis_affine_d. Qed.
Print Assumptions linear_exact_on_affine.

(* constants are reproduced inside the hull by every per-axis mix (weights sum to one) *)
Theorem peraxis_reproduces_constants : forall (axes : list axis) (G : list nat -> R) (k : R),
  Forall (fun t => Asc (a_c t) /\ (2 <= length (a_c t))%nat /\
                   nth 0 (a_c t) 0 <= a_x t <= nth (length (a_c t) - 1) (a_c t) 0) axes ->
  (forall js, Forall2 (fun t j => (j < length (a_c t))%nat) axes js -> G js = k) ->
  peraxis_point (map a_s axes) (map a_c axes) (wrapped (shape_of axes) G) (map a_x axes) = k.
Proof. exact peraxis_const_d. Qed.
Print Assumptions peraxis_reproduces_constants.

Theorem linear_1d_exact_on_affine : forall (c v : list R) a b x, Asc c -> (2 <= length c)%nat ->
  (forall j, (j < length c)%nat -> nth j v 0 = a + b * nth j c 0) ->
  nth 0 c 0 <= x <= nth (length c - 1) c 0 ->
  interp1 SLinear c v x = a + b * x.
Proof. exact interp1_affine. Qed.
Print Assumptions linear_1d_exact_on_affine.

(* ------------------------------------------------------------------ *)
(* T6 (the documented extension outside the hull, linear): the edge value decays linearly to 0
   over one (edge) cell width -- and, since the code does not clamp, continues linearly beyond. *)
Theorem linear_1d_below : forall (c v : list R) x, Asc c -> (2 <= length c)%nat -> x < nth 0 c 0 ->
  interp1 SLinear c v x = (1 - (nth 0 c 0 - x) / (nth 1 c 0 - nth 0 c 0)) * nth 0 v 0.
Proof. exact interp1_linear_low. Qed.
Theorem linear_1d_above : forall (c v : list R) x, Asc c -> (2 <= length c)%nat -> nth (length c - 1) c 0 < x ->
  interp1 SLinear c v x =
  (1 - (x - nth (length c - 1) c 0) / (nth (length c - 1) c 0 - nth (length c - 2) c 0)) * nth (length c - 1) v 0.
Proof. exact interp1_linear_high. Qed.
Print Assumptions linear_1d_below.
Print Assumptions linear_1d_above.

(* ------------------------------------------------------------------ *)
(* T7 (structure).  The sum over the 2^d corners IS the tensor product of the per-axis blends
   (no hypothesis: holds for every input), and it is linear in the values -- so complex
   arrays are interpolated in their real and imaginary parts separately. *)
Theorem corner_sum_is_tensor_product : forall (axes : list axis) (G : list nat -> R),
  peraxis_point (map a_s axes) (map a_c axes) (wrapped (shape_of axes) G) (map a_x axes) = tensor_eval axes G.
Proof. exact peraxis_tensor. Qed.
Print Assumptions corner_sum_is_tensor_product.

Theorem interpolation_linear_in_values : forall (axes : list axis) (G H : list nat -> R) a b,
  peraxis_point (map a_s axes) (map a_c axes) (wrapped (shape_of axes) (fun js => a * G js + b * H js)) (map a_x axes)
  = a * peraxis_point (map a_s axes) (map a_c axes) (wrapped (shape_of axes) G) (map a_x axes)
  + b * peraxis_point (map a_s axes) (map a_c axes) (wrapped (shape_of axes) H) (map a_x axes).
Proof. exact peraxis_linear_d. Qed.
Print Assumptions interpolation_linear_in_values.

(* ------------------------------------------------------------------ *)
(* T8 (calling conventions).  Evaluating on a mesh grid (per-axis data computed once per axis
   coordinate, combined by broadcasting) gives exactly the point-wise results on the Cartesian
   product in C order; a point array is evaluated point by point by definition
   (peraxis_points = map peraxis_point), a single point is a point array of length one. *)
Theorem mesh_equals_pointwise : forall (l : list (scheme * list R * list R)) (v : list Z -> R),
  peraxis_mesh (map m_s l) (map m_c l) v (map m_xs l)
  = peraxis_points (map m_s l) (map m_c l) v (cart (map m_xs l)).
Proof. exact peraxis_mesh_pointwise. Qed.
Print Assumptions mesh_equals_pointwise.

Theorem nearest_mesh_equals_pointwise : forall (l : list (scheme * list R * list R)) (v : list Z -> R),
  nearest_mesh (map m_c l) v (map m_xs l) = nearest_points (map m_c l) v (cart (map m_xs l)).
Proof. exact nearest_mesh_pointwise. Qed.
Print Assumptions nearest_mesh_equals_pointwise.

(* ------------------------------------------------------------------ *)
(* T9 (sampling).  Entry (j_1, .., j_d) (C order) of the collocated array is the function at the
   grid node (c_1[j_1], .., c_d[j_d]); sampling followed by interpolation (any per-axis mix)
   returns the function value at every node; and for an affine function, sampling followed by
   linear interpolation returns the function everywhere inside the hull. *)
Theorem collocation_gives_node_values : forall (f : list R -> R) (cvs : list (list R)) (js : list nat),
  Forall2 (fun c j => (j < length c)%nat) cvs js ->
  nth (nat_index (map (@length R) cvs) js) (collocate f cvs) 0 = f (node_at cvs js).
Proof. exact collocate_nth. Qed.
Print Assumptions collocation_gives_node_values.

Theorem sampling_then_interpolation_at_nodes : forall (naxes : list (scheme * list R * nat)) (f : list R -> R),
  Forall (fun t : scheme * list R * nat =>
            good_axis (fst (fst t)) (snd (fst t)) /\ (snd t < length (snd (fst t)))%nat) naxes ->
  let axes := map at_node naxes in
  peraxis_point (map a_s axes) (map a_c axes)
    (vget (shape_of axes) (collocate f (map a_c axes))) (map a_x axes) = f (map a_x axes).
Proof. exact sample_interp_node. Qed.
Print Assumptions sampling_then_interpolation_at_nodes.

Theorem sampling_affine_then_linear_is_exact : forall (axes : list axis) (a0 : R) (al : list R),
  Forall (fun t => Asc (a_c t) /\ (2 <= length (a_c t))%nat /\
                   nth 0 (a_c t) 0 <= a_x t <= nth (length (a_c t) - 1) (a_c t) 0) axes ->
  Forall (fun t => a_s t = SLinear) axes ->
  peraxis_point (map a_s axes) (map a_c axes)
    (vget (shape_of axes) (collocate (fun p => a0 + lincomb al p) (map a_c axes))) (map a_x axes)
  = a0 + lincomb al (map a_x axes).
Proof. exact sample_affine_linear. Qed.
Print Assumptions sampling_affine_then_linear_is_exact.

(* ------------------------------------------------------------------ *)
(* T10 (no overshoot).  Inside the hull every per-axis mix is a convex combination of array
   entries: bounds on the array are bounds on the interpolant. *)
Theorem interpolation_within_bounds : forall (axes : list axis) (G : list nat -> R) (lo hi : R),
  Forall (fun t => Asc (a_c t) /\ (2 <= length (a_c t))%nat /\
                   nth 0 (a_c t) 0 <= a_x t <= nth (length (a_c t) - 1) (a_c t) 0) axes ->
  (forall js, Forall2 (fun t j => (j < length (a_c t))%nat) axes js -> lo <= G js <= hi) ->
  lo <= peraxis_point (map a_s axes) (map a_c axes) (wrapped (shape_of axes) G) (map a_x axes) <= hi.
Proof. exact peraxis_bounds_d. Qed.
Print Assumptions interpolation_within_bounds.

(* ------------------------------------------------------------------ *)
(* T11 (Resampling onto the same grid / linear_deform with zero displacement is the identity).
   Evaluating any per-axis mix on the mesh grid of the array's own nodes returns the array,
   for every shape (flat C-order list of the right length) and all admissible axes. *)
Theorem resampling_same_grid_is_identity : forall (l : list (scheme * list R)) (flat : list R),
  Forall (fun t : scheme * list R => good_axis (fst t) (snd t)) l ->
  length flat = prodn (map (@length R) (map snd l)) ->
  peraxis_mesh (map fst l) (map snd l) (vget (map (@length R) (map snd l)) flat) (map snd l) = flat.
Proof. exact resample_same_grid. Qed.
Print Assumptions resampling_same_grid_is_identity.

(* ------------------------------------------------------------------ *)
(* T12 (zero extension in d dimensions).  A linearly interpolated axis evaluated below / above the
   hull multiplies the interpolant of the first / last slice by the one-cell decay factor
   (stated for the leading axis; the remaining axes r are arbitrary). *)
Theorem zero_extension_below_d : forall (c : list R) x (r : list axis) (G : list nat -> R),
  Asc c -> (2 <= length c)%nat -> x < nth 0 c 0 ->
  let axes := (SLinear, c, x) :: r in
  peraxis_point (map a_s axes) (map a_c axes) (wrapped (shape_of axes) G) (map a_x axes) =
  (1 - (nth 0 c 0 - x) / (nth 1 c 0 - nth 0 c 0)) *
  peraxis_point (map a_s r) (map a_c r) (wrapped (shape_of r) (fun js => G (O :: js))) (map a_x r).
Proof. exact peraxis_low_d. Qed.
Theorem zero_extension_above_d : forall (c : list R) x (r : list axis) (G : list nat -> R),
  Asc c -> (2 <= length c)%nat -> nth (length c - 1) c 0 < x ->
  let axes := (SLinear, c, x) :: r in
  peraxis_point (map a_s axes) (map a_c axes) (wrapped (shape_of axes) G) (map a_x axes) =
  (1 - (x - nth (length c - 1) c 0) / (nth (length c - 1) c 0 - nth (length c - 2) c 0)) *
  peraxis_point (map a_s r) (map a_c r) (wrapped (shape_of r) (fun js => G ((length c - 1)%nat :: js))) (map a_x r).
Proof. exact peraxis_high_d. Qed.
Print Assumptions zero_extension_below_d.
Print Assumptions zero_extension_above_d.

(* ------------------------------------------------------------------ *)
(* T13 (the model of np.searchsorted).  A textbook lower-bound binary search (what
   np.searchsorted(side='left') runs) returns, on every strictly ascending vector and every x,
   the prefix count [ssleft] the model uses. *)
Theorem binary_search_is_prefix_count : forall (c : list R) x, Asc c ->
  bsearch (length c) c x 0 (length c) = ssleft c x.
Proof. exact bsearch_ssleft. Qed.
Print Assumptions binary_search_is_prefix_count.

(* ------------------------------------------------------------------ *)
(* T14 (the complete textbook reference, every real evaluation point, d dimensions, any mix).
   [ref_eval axes js G] (definitions in C15/Proofs.v) is the recursion
     nearest axis : continue with the slice at j          (j = the given closest node)
     linear axis  : [ref_lin c x (fun i => rest at slice i)] where
        ref_lin c x g = (1 - (c_0 - x)/(c_1 - c_0)) * g 0                     if x < c_0
                      = (1 - (x - c_last)/(c_last - c_prev)) * g (n-1)        if x > c_last
                      = (1-t) * g i + t * g (i+1),  i = ref_cell c x,  t = (x - c_i)/(c_{i+1} - c_i)   otherwise
     with ref_cell found by an INDEPENDENT search (number of leading nodes <= x, minus one, capped at n-2).
   The code's index search + weight/edge rules + 2^d corner sum equal this reference everywhere. *)
Theorem peraxis_equals_textbook_reference : forall (axes : list axis) (js : list nat) (G : list nat -> R),
  Forall2 (fun t j => Asc (a_c t) /\
                      match a_s t with
                      | SNearest => closest (a_c t) (a_x t) j
                      | SLinear => (2 <= length (a_c t))%nat
                      end) axes js ->
  peraxis_point (map a_s axes) (map a_c axes) (wrapped (shape_of axes) G) (map a_x axes) = ref_eval axes js G.
Proof. exact peraxis_textbook_d. Qed.
Print Assumptions peraxis_equals_textbook_reference.

(* the independent search does find a cell containing x inside the hull *)
Theorem reference_cell_contains_point : forall (c : list R) x, (2 <= length c)%nat ->
  nth 0 c 0 <= x <= nth (length c - 1) c 0 ->
  (S (ref_cell c x) < length c)%nat /\ nth (ref_cell c x) c 0 <= x <= nth (S (ref_cell c x)) c 0.
Proof. exact ref_cell_contains. Qed.
Print Assumptions reference_cell_contains_point.

(* ------------------------------------------------------------------ *)
(* T15 (Resampling with linear interpolation is exact for affine functions).  l lists, per axis,
   (source nodes, target nodes); if every target node lies in the hull of the source nodes, then
   resampling the source-sampled affine function onto the target mesh IS the function sampled on
   the target grid (all dimensions, shapes, non-uniform nodes). *)
Theorem resampling_exact_on_affine : forall (l : list (list R * list R)) (a0 : R) (al : list R),
  Forall (fun t : list R * list R =>
            Asc (fst t) /\ (2 <= length (fst t))%nat /\
            Forall (fun x => nth 0 (fst t) 0 <= x <= nth (length (fst t) - 1) (fst t) 0) (snd t)) l ->
  let cvs := map fst l in let mesh := map snd l in
  let f := fun p : list R => a0 + lincomb al p in
  peraxis_mesh (map (fun _ => SLinear) l) cvs (vget (map (@length R) cvs) (collocate f cvs)) mesh
  = collocate f mesh.
Proof. exact resample_affine. Qed.
Print Assumptions resampling_exact_on_affine.

(* ------------------------------------------------------------------ *)
(* The whole call.

   [interp_call var kind schemes cvs dtype values input outarg] (C15/Call.v) is the public
   interpolator call including the inputs it rejects (ValueErr / TypeErr) and those on which it
   produces nan/inf (NonFinite).  [current] is the code today; [as_found] is the pinned snapshot,
   kept as an explicit variant after its two defects were repaired in /repo (e032ff0, d20d299).

   Still FALSE of the faithful model (open finding linear-interp-single-node-axis-nonfinite):
     (F1) forall axis lengths >= 1: linear interpolation reproduces node values
   Repaired; the positive statements are now theorems about [current], the refutations remain
   as statements about [as_found]:
     (F2) a mesh-grid call and the point-array call on the same points agree
     (F3) per-axis all-'nearest' returns the closest node value for integer / string values *)
Theorem F1_node_reproduction_single_node_axis_refuted :
  exists (c v : list R) (var : variants),
    length c = 1%nat /\ length v = 1%nat /\
    interp_call var KLinear [] [c] DFloat v (IPoints [[nth 0 c 0]]) None <> Ok [nth 0 v 0].
Proof. exact node_reproduction_single_node_axis_refuted. Qed.
(* F1_partial = interpolation_reproduces_nodes above (linear axes need >= 2 nodes), together with: *)
Theorem F1_partial_admissible_axes_never_degenerate : forall (l : list (scheme * list R)),
  Forall (fun t => good_axis (fst t) (snd t)) l -> degenerate (map fst l) (map snd l) = false.
Proof. exact good_not_degenerate. Qed.
Print Assumptions F1_partial_admissible_axes_never_degenerate.

(* F2, live: the two calling conventions give the same OUTCOME on every well-formed call *)
Theorem mesh_call_equals_points_call : forall (l : list (scheme * list R * list R)) (flat : list R),
  let ss := map m_s l in let cvs := map m_c l in let mesh := map m_xs l in
  has_linear ss = true ->
  degenerate ss cvs = false -> malformed cvs (IPoints (cart mesh)) None = false ->
  interp_call current KPerAxis ss cvs DFloat flat (IMesh mesh) None
  = interp_call current KPerAxis ss cvs DFloat flat (IPoints (cart mesh)) None.
Proof. exact mesh_call_equals_points. Qed.
Print Assumptions mesh_call_equals_points_call.
Theorem nearest_mesh_call_equals_points_call : forall (l : list (scheme * list R * list R)) dt (flat : list R),
  let cvs := map m_c l in let mesh := map m_xs l in
  malformed cvs (IPoints (cart mesh)) None = false ->
  interp_call current KNearest [] cvs dt flat (IMesh mesh) None
  = interp_call current KNearest [] cvs dt flat (IPoints (cart mesh)) None.
Proof. exact nearest_mesh_call_equals_points. Qed.
Print Assumptions nearest_mesh_call_equals_points_call.
Theorem F2_old_variant_mesh_convention_refuted :
  exists (cvs : list (list R)) (v : list R) (mesh : list (list R)),
    interp_call as_found KLinear [] cvs DFloat v (IMesh mesh) None = ValueErr /\
    exists r, interp_call as_found KLinear [] cvs DFloat v (IPoints (cart mesh)) None = Ok r.
Proof. exact mesh_convention_first_axis_singleton_refuted. Qed.

(* F3, live: per_axis_interpolator with all-'nearest' schemes IS the nearest_interpolator call, for
   every value dtype (integer, string), input and out argument; its values are characterised by
   nearest_returns_closest_node above *)
Theorem peraxis_all_nearest_call_is_nearest_call : forall k_ss (cvs : list (list R)) dt flat i o,
  has_linear k_ss = false ->
  interp_call current KPerAxis k_ss cvs dt flat i o = interp_call current KNearest k_ss cvs dt flat i o.
Proof. exact peraxis_all_nearest_call. Qed.
Print Assumptions peraxis_all_nearest_call_is_nearest_call.
Theorem F3_old_variant_peraxis_nearest_integer_values_refuted :
  exists (c v : list R) (x : R),
    interp_call as_found KPerAxis [SNearest] [c] DInt v (IPoints [[x]]) None = TypeErr /\
    exists r, interp_call as_found KNearest [] [c] DInt v (IPoints [[x]]) None = Ok r.
Proof. exact peraxis_nearest_integer_values_refuted. Qed.

(* the REGENERATED factory dispatch (Gen/InterpWeights.v, from per_axis_interp and
   _LinearInterpolator.__init__): per_axis_interpolator is served by the index-based evaluator
   exactly when no axis is 'linear', and linear_interpolator is per-axis 'linear' on every axis *)
Theorem peraxis_dispatch_index_based_iff_no_linear : forall ss : list scheme,
  gen_peraxis_index_based ss = negb (has_linear ss).
Proof. exact index_based_no_linear. Qed.
Theorem linear_interpolator_scheme : gen_linear_scheme = SLinear.
Proof. exact linear_scheme_is_linear. Qed.

(* the call returns the values the theorems above speak about *)
Theorem call_returns_model_values : forall k ss (cvs : list (list R)) flat i,
  malformed cvs i None = false -> degenerate (schemes_of k ss cvs) cvs = false ->
  interp_call current k ss cvs DFloat flat i None = Ok (run current k ss cvs flat i).
Proof. exact interp_call_float_ok. Qed.
Print Assumptions call_returns_model_values.

(* ------------------------------------------------------------------ *)
(* T17 (calling conventions by shape).  [array_call_shape d xshape] (C15/Call.v) composes the
   REGENERATED _check_interp_input / is_valid_input_array / out_shape_from_array with the
   reshape of _Interpolator.__call__: None = ValueError, Some [] = scalar, Some [N] = N values.
   For every grid dimension d >= 1 and EVERY input shape it equals the documented table
   [conv_ref]:  d = 1: () -> scalar, (n,) -> n values, (1, n) -> n values;
                d > 1: (d,) -> scalar, (d, n) -> n values;  everything else is rejected. *)
Theorem calling_conventions_by_shape : forall (d : nat) (xshape : list nat), (1 <= d)%nat ->
  array_call_shape d xshape =
  if (d =? 1)%nat then
    match xshape with
    | [] => Some []
    | [n] => Some [n]
    | [a; n] => if (a =? 1)%nat then Some [n] else None
    | _ => None
    end
  else
    match xshape with
    | [a] => if (a =? d)%nat then Some [] else None
    | [a; n] => if (a =? d)%nat then Some [n] else None
    | _ => None
    end.
Proof. exact array_call_shape_ref. Qed.
Print Assumptions calling_conventions_by_shape.

(* ------------------------------------------------------------------ *)
(* T16 (transfer).  What the correspondence shards execute at Q (vm_compute on the SAME
   polymorphic definitions, regenerated helpers included) is the rational restriction of what the
   theorems above are about at R: Q2R commutes with the whole interpolator call, with mesh
   evaluation and with collocation of the expression language -- for all inputs, no side
   condition (x / 0 = 0 in both carriers). *)
Theorem executed_call_is_restriction_of_proved_call :
  forall var k ss (cvs : list (list Q)) dt (flat : list Q) (i : @input Q) o,
  outQ2R (interp_call var k ss cvs dt flat i o)
  = interp_call var k ss (map (map Q2R) cvs) dt (map Q2R flat) (inQ2R i) o.
Proof. exact interp_call_transfer. Qed.
Print Assumptions executed_call_is_restriction_of_proved_call.

Theorem executed_mesh_is_restriction : forall ss (cvs : list (list Q)) shape flat (mesh : list (list Q)),
  map Q2R (peraxis_mesh ss cvs (vget shape flat) mesh)
  = peraxis_mesh ss (map (map Q2R) cvs) (vget shape (map Q2R flat)) (map (map Q2R) mesh).
Proof. exact peraxis_mesh_transfer. Qed.
Print Assumptions executed_mesh_is_restriction.

Theorem executed_collocation_is_restriction : forall (e : fexpr) (cvs : list (list Q)),
  map Q2R (collocate (feval e) cvs) = collocate (feval e) (map (map Q2R) cvs).
Proof. exact collocate_transfer. Qed.
Print Assumptions executed_collocation_is_restriction.

(* ------------------------------------------------------------------ *)
(* Non-vacuity: the hypotheses are satisfiable, and the same definitions run at Q. *)
Example hypotheses_satisfiable :
  Asc [0; 1; 3] /\ good_axis SLinear [0; 1; 3] /\ good_axis SNearest [0; 1; 3] /\
  hull_ok (SLinear, [0; 1; 3], 2).
Proof. exact hypotheses_example. Qed.
Example reference_hypotheses_satisfiable :
  Forall2 (fun t j => Asc (a_c t) /\
                      match a_s t with
                      | SNearest => closest (a_c t) (a_x t) j
                      | SLinear => (2 <= length (a_c t))%nat
                      end) [(SLinear, [0; 1; 3], 2); (SNearest, [0; 1; 3], 2)] [0%nat; 2%nat].
Proof. exact reference_example. Qed.
Local Close Scope R_scope.
Local Open Scope Q_scope.
Example model_runs_at_Q :
  @peraxis_point Q _ [SLinear] [[0; 1; 3]] (vget [3%nat] [1; 2; 5]) [2] = 7 # 2 /\
  @peraxis_point Q _ [SNearest] [[0; 1; 3]] (vget [3%nat] [1; 2; 5]) [2] = 5 /\            (* tie -> right *)
  @nearest_points Q _ [[0; 1; 3]] (vget [3%nat] [1; 2; 5]) [[2]] = [5] /\
  @peraxis_point Q _ [SLinear] [[0; 1; 3]] (vget [3%nat] [1; 2; 5]) [(-1) # 2] = 1 # 2 /\  (* decay below *)
  @peraxis_mesh Q _ [SLinear; SNearest] [[0; 2]; [0; 1; 3]] (vget [2%nat; 3%nat] [1; 2; 3; 5; 6; 7])
     [[0; 1]; [0; 3]] = [1; 3; 3; 5].
Proof. vm_compute. repeat split. Qed.
