(* C15/Call.v -- the public interpolator call as a whole: which inputs are rejected and with
   which error, which produce non-finite numbers, and the values otherwise.  Executable
   definitions only (polymorphic over the carrier); run at Q by the correspondence.
   nearest_interpolator / linear_interpolator / per_axis_interpolator (f, coord_vecs)(x[, out]). *)
From Coq Require Import ZArith QArith List Bool.
From Verif Require Import Base.Num Base.Vec C15.Syntax Gen.InterpWeights C15.Model.
Import ListNotations.

(* which public factory *)
Inductive ikind := KNearest | KLinear | KPerAxis.
(* value dtype class: floating (float32/64; complex = two real runs), integer, string *)
Inductive vdtype := DFloat | DInt | DStr.

(* Two defects of the pinned snapshot were repaired in /repo (e032ff0, d20d299).  The model is the
   REPAIRED code ([current]); the old behaviour stays expressible as the explicit variant [as_found]
   so that C15/Refuted.v can still say what was wrong with it. *)
Record variants := { int_raises : bool;      (* old: per-axis all-'nearest' evaluation used the arithmetic path *)
                     mesh1_raises : bool }.  (* old: mesh grid with one point along the FIRST axis raised *)
Definition current : variants := {| int_raises := false; mesh1_raises := false |}.
Definition as_found : variants := {| int_raises := true; mesh1_raises := true |}.

(* ---- calling conventions at the level of array SHAPES (no carrier involved) ----
   nearest_/linear_/per_axis_interp(x) for a non-meshgrid x of shape [xshape] on a d-dimensional
   grid: None = ValueError, Some [] = a scalar is returned, Some [N] = an array of N values.
   _check_interp_input (regenerated: gen_check_array_input) reshapes / classifies / rejects;
   _Interpolator.__call__ then does x.reshape([ndim, -1]) and out_shape_from_array (regenerated);
   the factory applies .item() when the input denoted a single point. *)
Definition array_call_shape (d : nat) (xshape : list nat) : option (list nat) :=
  match gen_check_array_input d xshape with
  | None => None
  | Some (sh, is_scalar) =>
      if is_scalar then Some []
      else Some (gen_out_shape_from_array [d; (prodn sh / d)%nat])
  end.

Section Call.
Context {T : Type} `{Num T}.

(* calling convention: single point / point array (a list of points) or mesh grid *)
Inductive input := IPoints (pts : list (list T)) | IMesh (axes : list (list T)).
Inductive outcome := Ok (r : list T) | NonFinite | TypeErr | ValueErr.

Definition schemes_of (k : ikind) (ss : list scheme) (cvs : list (list T)) : list scheme :=
  match k with
  | KLinear => map (fun _ => gen_linear_scheme) cvs      (* regenerated: interp=['linear'] * d *)
  | KNearest => map (fun _ => SNearest) cvs
  | KPerAxis => ss
  end.

Definition has_linear (ss : list scheme) : bool :=
  existsb (fun s => match s with SLinear => true | SNearest => false end) ss.

(* the values, per factory and calling convention.  per_axis_interpolator with all-'nearest'
   schemes is served by _NearestInterpolator (since d20d299; before: by the per-axis evaluator) *)
Definition run (var : variants) (k : ikind) (ss : list scheme) (cvs : list (list T)) (flat : list T) (i : input)
  : list T :=
  let v := vget (map (@length T) cvs) flat in
  let index_based := match k with
                     | KNearest => true
                     | KPerAxis => negb (int_raises var) && gen_peraxis_index_based ss   (* regenerated dispatch *)
                     | KLinear => false
                     end in
  match index_based, i with
  | true, IPoints pts => nearest_points cvs v pts
  | true, IMesh m => nearest_mesh cvs v m
  | false, IPoints pts => peraxis_points (schemes_of k ss cvs) cvs v pts
  | false, IMesh m => peraxis_mesh (schemes_of k ss cvs) cvs v m
  end.

(* mesh grid of d >= 2 axes with one point along the first axis, not all axes single:
   np.asarray(mesh, dtype=object) raised ValueError in the old variant (repaired by e032ff0) *)
Definition mesh1 (i : input) : bool :=
  match i with
  | IMesh ((x0 :: nil) :: (_ :: _) as m) => existsb (fun xs => negb (length xs =? 1)%nat) m
  | _ => false
  end.

(* _check_interp_input / _Interpolator.__call__ reject (ValueError): points whose dimension is
   not the grid dimension, and an out array of the wrong shape or dtype *)
Definition out_shape (i : input) : list nat :=
  match i with IPoints pts => [length pts] | IMesh m => map (@length T) m end.
(* the ordered `out` checks are REGENERATED from _Interpolator.__call__ (gen_out_check) *)
Definition rejected (cvs : list (list T)) (i : input) (outarg : option (list nat * bool)) : option errkind :=
  let d := length cvs in
  if (match i with
      | IPoints pts => existsb (fun p => negb (length p =? d)%nat) pts
      | IMesh m => negb (length m =? d)%nat
      end) then Some EValueErr
  else match outarg with
       | Some (sh, dt_ok) => gen_out_check true (nats_eqb sh (out_shape i)) dt_ok
       | None => None
       end.
Definition malformed (cvs : list (list T)) (i : input) (outarg : option (list nat * bool)) : bool :=
  match rejected cvs i outarg with Some _ => true | None => false end.

(* integer / string values: only index-based evaluation is defined; the per-axis evaluator does
   arithmetic on the values (TypeError) whenever some axis is 'linear' *)
Definition interp_call (var : variants) (k : ikind) (ss : list scheme) (cvs : list (list T)) (dt : vdtype)
           (flat : list T) (i : input) (outarg : option (list nat * bool)) : outcome :=
  match rejected cvs i outarg with
  | Some ETypeErr => TypeErr
  | Some EValueErr => ValueErr
  | None =>
  if mesh1_raises var && mesh1 i then ValueErr
  else match k, dt with
  | KNearest, _ => Ok (run var k ss cvs flat i)
  | _, DInt | _, DStr =>
      if int_raises var || has_linear (schemes_of k ss cvs) then TypeErr else Ok (run var k ss cvs flat i)
  | _, DFloat =>
      if degenerate (schemes_of k ss cvs) cvs then NonFinite else Ok (run var k ss cvs flat i)
  end
  end.
End Call.
