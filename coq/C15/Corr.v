(* C15/Corr.v -- correspondence checkers (executed at Q by the shards). *)
From Coq Require Import ZArith QArith List Bool.
From Verif Require Import Base.Num Base.Vec Base.Check C15.Syntax C15.Model.
Import ListNotations.

(* which public factory: nearest_interpolator | linear_interpolator | per_axis_interpolator *)
Inductive ikind := KNearest | KLinear | KPerAxis.
(* value dtype class: floating (float32/64, complex as two runs), integer, string (as codes) *)
Inductive vdtype := DFloat | DInt | DStr.
(* calling convention: single point / point array (both: a list of points) or mesh grid *)
Inductive inp := IPoints (pts : list (list Q)) | IMesh (axes : list (list Q)).
Inductive outc := OVals (re im : list Q) | ONonFinite | OTypeErr | OValueErr | OOtherErr.

Record case := {
  k_kind : ikind; k_ss : list scheme; k_cvs : list (list Q); k_dt : vdtype; k_cplx : bool;
  k_vre : list Q; k_vim : list Q; k_inp : inp;
  (* out= argument, if given: its shape and whether its dtype equals the values' dtype *)
  k_outarg : option (list nat * bool);
  (* measured variants of the two recorded defects (true = defect present) *)
  k_int_raises : bool;      (* per-axis evaluation on integer values raises *)
  k_mesh1_raises : bool;    (* mesh grid with exactly one point along the first axis raises *)
  k_out : outc }.

Definition tol : Q := 1 # 1000000000000.

Definition shape_of (cvs : list (list Q)) : list nat := map (@length Q) cvs.

Definition schemes_of (k : case) : list scheme :=
  match k_kind k with
  | KLinear => map (fun _ => SLinear) (k_cvs k)
  | KNearest => map (fun _ => SNearest) (k_cvs k)
  | KPerAxis => k_ss k
  end.

Definition run (k : case) (flat : list Q) : list Q :=
  let v := vget (shape_of (k_cvs k)) flat in
  match k_kind k, k_inp k with
  | KNearest, IPoints pts => nearest_points (k_cvs k) v pts
  | KNearest, IMesh m => nearest_mesh (k_cvs k) v m
  | _, IPoints pts => peraxis_points (schemes_of k) (k_cvs k) v pts
  | _, IMesh m => peraxis_mesh (schemes_of k) (k_cvs k) v m
  end.

(* mesh grid of d >= 2 axes with one point along the first axis, not all axes single *)
Definition mesh1 (i : inp) : bool :=
  match i with
  | IMesh ((x0 :: nil) :: (_ :: _) as m) => existsb (fun xs => negb (length xs =? 1)%nat) m
  | _ => false
  end.

Definition has_linear (ss : list scheme) : bool :=
  existsb (fun s => match s with SLinear => true | SNearest => false end) ss.

(* integer / string values: only index-based evaluation is defined.  The per-axis evaluator
   does arithmetic on the values (TypeError) -- for all-'nearest' schemes that is the recorded
   defect [k_int_raises]; once repaired, all-'nearest' per-axis evaluation returns node values. *)
(* _check_interp_input / _Interpolator.__call__ reject (ValueError): points whose dimension is not
   the grid dimension, and an out array of the wrong shape or dtype *)
Definition out_shape (i : inp) : list nat :=
  match i with IPoints pts => [length pts] | IMesh m => map (@length Q) m end.
Definition nats_eqb (a b : list nat) : bool := all2 Nat.eqb a b.
Definition malformed (k : case) : bool :=
  let d := length (k_cvs k) in
  (match k_inp k with
   | IPoints pts => existsb (fun p => negb (length p =? d)%nat) pts
   | IMesh m => negb (length m =? d)%nat
   end)
  || match k_outarg k with
     | Some (sh, dt_ok) => negb (nats_eqb sh (out_shape (k_inp k))) || negb dt_ok
     | None => false
     end.

Definition expected (k : case) : outc :=
  if malformed k then OValueErr
  else if k_mesh1_raises k && mesh1 (k_inp k) then OValueErr
  else match k_kind k, k_dt k with
  | KNearest, _ => OVals (run k (k_vre k)) (if k_cplx k then run k (k_vim k) else [])
  | _, DInt | _, DStr =>
      if k_int_raises k || has_linear (schemes_of k) then OTypeErr else OVals (run k (k_vre k)) []
  | _, DFloat =>
      if degenerate (schemes_of k) (k_cvs k) then ONonFinite
      else OVals (run k (k_vre k)) (if k_cplx k then run k (k_vim k) else [])
  end.

Definition check (k : case) : bool :=
  match expected k, k_out k with
  | OVals r i, OVals r' i' => Qsclose tol tol r' r && Qsclose tol tol i' i
  | ONonFinite, ONonFinite => true
  | OTypeErr, OTypeErr => true
  | OValueErr, OValueErr => true
  | _, _ => false
  end.

(* ---- sampling: space.element(callable).asarray() against the callable's
   denotation at the grid points (C order) ---- *)
Record scase := { s_cvs : list (list Q); s_re : fexpr; s_im : fexpr; s_cplx : bool;
                  s_out_re : list Q; s_out_im : list Q }.
Definition scheck (k : scase) : bool :=
  Qsclose tol tol (s_out_re k) (collocate (feval (s_re k)) (s_cvs k)) &&
  (negb (s_cplx k) || Qsclose tol tol (s_out_im k) (collocate (feval (s_im k)) (s_cvs k))).

(* ---- sample, then interpolate (Resampling of a sampled callable) ---- *)
Record rcase := { r_cvs : list (list Q); r_f : fexpr; r_ss : list scheme; r_mesh : list (list Q);
                  r_out : list Q }.
Definition rcheck (k : rcase) : bool :=
  Qsclose tol tol (r_out k)
    (peraxis_mesh (r_ss k) (r_cvs k) (vget (shape_of (r_cvs k)) (collocate (feval (r_f k)) (r_cvs k))) (r_mesh k)).
