(* C15/Corr.v -- correspondence checkers (executed at Q by the shards). *)
From Coq Require Import ZArith QArith List Bool.
From Verif Require Import Base.Num Base.Vec Base.Check C15.Syntax C15.Model C15.Call.
Import ListNotations.

(* implementation outcome: values (real and imaginary parts), non-finite, or an error class *)
Inductive outc := OVals (re im : list Q) | ONonFinite | OTypeErr | OValueErr | OOtherErr.

Record case := {
  k_kind : ikind; k_ss : list scheme; k_cvs : list (list Q); k_dt : vdtype; k_cplx : bool;
  k_vre : list Q; k_vim : list Q; k_inp : @input Q;
  (* out= argument, if given: its shape and whether its dtype equals the values' dtype *)
  k_outarg : option (list nat * bool);
  k_out : outc }.

Definition tol : Q := 1 # 1000000000000.

Definition call (k : case) (flat : list Q) : @outcome Q :=
  interp_call current (k_kind k) (k_ss k) (k_cvs k) (k_dt k) flat (k_inp k) (k_outarg k).

(* complex values: the real and the imaginary parts are interpolated separately
   (Props.interpolation_linear_in_values) *)
Definition expected (k : case) : outc :=
  match call k (k_vre k) with
  | Ok r => if k_cplx k then match call k (k_vim k) with Ok i => OVals r i | _ => OOtherErr end else OVals r []
  | NonFinite => ONonFinite
  | TypeErr => OTypeErr
  | ValueErr => OValueErr
  end.

Definition check (k : case) : bool :=
  match expected k, k_out k with
  | OVals r i, OVals r' i' => Qsclose tol tol r' r && Qsclose tol tol i' i
  | ONonFinite, ONonFinite => true
  | OTypeErr, OTypeErr => true
  | OValueErr, OValueErr => true
  | _, _ => false
  end.

(* ---- sampling: space.element(callable).asarray() against the callable's
   denotation at the grid points (C order) ---- *)
Record scase := { s_cvs : list (list Q); s_re : fexpr; s_im : fexpr; s_cplx : bool;
                  s_out_re : list Q; s_out_im : list Q }.
Definition scheck (k : scase) : bool :=
  Qsclose tol tol (s_out_re k) (collocate (feval (s_re k)) (s_cvs k)) &&
  (negb (s_cplx k) || Qsclose tol tol (s_out_im k) (collocate (feval (s_im k)) (s_cvs k))).

(* ---- sample, then interpolate (Resampling of a sampled callable) ---- *)
Record rcase := { r_cvs : list (list Q); r_f : fexpr; r_ss : list scheme; r_mesh : list (list Q);
                  r_out : list Q }.
Definition rcheck (k : rcase) : bool :=
  Qsclose tol tol (r_out k)
    (peraxis_mesh (r_ss k) (r_cvs k) (vget (map (@length Q) (r_cvs k)) (collocate (feval (r_f k)) (r_cvs k))) (r_mesh k)).

(* ---- calling conventions by shape: result shape / ValueError of interp(np.zeros(shape)) ---- *)
Record hcase := { h_d : nat; h_shape : list nat; h_out : option (list nat) }.
Definition hcheck (k : hcase) : bool :=
  match array_call_shape (h_d k) (h_shape k), h_out k with
  | None, None => true
  | Some a, Some b => nats_eqb a b
  | _, _ => false
  end.
