(* C15/Syntax.v -- types shared by the generated file Gen/InterpWeights.v and C15/Model.v. *)
From Coq Require Import ZArith List Bool.
Import ListNotations.

Inductive scheme := SNearest | SLinear.

(* per-axis data produced by the weight/edge helpers for ONE evaluation
   coordinate: the two node indices that are read (NumPy indices, -1 = last)
   and the weights they get *)
Record axdat (T : Type) := mkax { e_lo : Z; e_hi : Z; w_lo : T; w_hi : T }.
Arguments mkax {T}. Arguments e_lo {T}. Arguments e_hi {T}. Arguments w_lo {T}. Arguments w_hi {T}.

(* error classes of rejected calls *)
Inductive errkind := ETypeErr | EValueErr.

(* shapes *)
Definition prodn (l : list nat) : nat := fold_right Nat.mul 1%nat l.
Fixpoint nats_eqb (a b : list nat) : bool :=
  match a, b with
  | [], [] => true
  | x :: a', y :: b' => (x =? y)%nat && nats_eqb a' b'
  | _, _ => false
  end.
