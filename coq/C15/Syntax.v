(* C15/Syntax.v -- types shared by the generated file Gen/InterpWeights.v and C15/Model.v. *)
From Coq Require Import ZArith.

Inductive scheme := SNearest | SLinear.

(* per-axis data produced by the weight/edge helpers for ONE evaluation
   coordinate: the two node indices that are read (NumPy indices, -1 = last)
   and the weights they get *)
Record axdat (T : Type) := mkax { e_lo : Z; e_hi : Z; w_lo : T; w_hi : T }.
Arguments mkax {T}. Arguments e_lo {T}. Arguments e_hi {T}. Arguments w_lo {T}. Arguments w_hi {T}.

(* error classes of rejected calls *)
Inductive errkind := ETypeErr | EValueErr.
