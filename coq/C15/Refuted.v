(* C15/Refuted.v -- full statements of the property that are FALSE of the faithful model
   (C15/Call.v: the public interpolator call with its rejected / non-finite inputs), each with a
   witness found by computation.  Every one corresponds to an open entry of findings/C15.json;
   the provable restrictions are the theorems of Props.v (see the _partial theorems there). *)
From Coq Require Import ZArith QArith Reals Lra List Bool.
From Verif Require Import Base.Num Base.Vec C15.Syntax Gen.InterpWeights C15.Model C15.Call.
Import ListNotations.
Local Open Scope R_scope.

(* [current] = the code today (after the repairs e032ff0, d20d299); [as_found] = the pinned snapshot *)

(* "linear interpolation reproduces node values exactly, for all axis lengths >= 1":
   FALSE on an axis with a single node -- the call yields nan (finding
   linear-interp-single-node-axis-nonfinite).  Independent of the variant switches. *)
Lemma node_reproduction_single_node_axis_refuted :
  exists (c v : list R) (var : variants),
    length c = 1%nat /\ length v = 1%nat /\
    interp_call var KLinear [] [c] DFloat v (IPoints [[nth 0 c 0]]) None <> Ok [nth 0 v 0].
Proof.
  exists [2], [7], current. repeat split. cbv [interp_call rejected mesh1 mesh1_raises current gen_linear_scheme
    existsb length Nat.eqb negb orb andb degenerate schemes_of map combine fst snd]. discriminate.
Qed.

(* "results do not depend on whether points are passed as point arrays or as a mesh grid":
   was FALSE for the code as found (explicit old variant; REPAIRED, see Props.mesh_call_equals_points_call) -- a mesh grid with one point along the first axis is rejected
   while the same points as an array are evaluated (finding interp-meshgrid-first-axis-singleton). *)
Lemma mesh_convention_first_axis_singleton_refuted :
  exists (cvs : list (list R)) (v : list R) (mesh : list (list R)),
    interp_call as_found KLinear [] cvs DFloat v (IMesh mesh) None = ValueErr /\
    exists r, interp_call as_found KLinear [] cvs DFloat v (IPoints (cart mesh)) None = Ok r.
Proof.
  exists [[0; 1]; [0; 1]], [1; 2; 3; 4], [[0]; [0; 1]]. split.
  - cbv [interp_call rejected mesh1 mesh1_raises as_found existsb length Nat.eqb negb orb andb]. reflexivity.
  - eexists. cbv [interp_call rejected mesh1 mesh1_raises as_found existsb length Nat.eqb negb orb andb
                  cart flat_map map app degenerate schemes_of combine fst snd gen_linear_scheme]. reflexivity.
Qed.

(* "per-axis 'nearest' interpolation returns the value of the closest node, for integer
   values": was FALSE for the code as found (explicit old variant; REPAIRED, see
   Props.peraxis_all_nearest_call_is_nearest_call) -- per_axis_interpolator raises TypeError where
   nearest_interpolator returns the node value (finding per-axis-interp-integer-values-typeerror). *)
Lemma peraxis_nearest_integer_values_refuted :
  exists (c v : list R) (x : R),
    interp_call as_found KPerAxis [SNearest] [c] DInt v (IPoints [[x]]) None = TypeErr /\
    exists r, interp_call as_found KNearest [] [c] DInt v (IPoints [[x]]) None = Ok r.
Proof.
  exists [0; 1], [1; 2], 0. split.
  - cbv [interp_call rejected mesh1 mesh1_raises int_raises as_found existsb length Nat.eqb negb orb andb]. reflexivity.
  - eexists. cbv [interp_call rejected mesh1 mesh1_raises as_found existsb length Nat.eqb negb orb andb]. reflexivity.
Qed.
