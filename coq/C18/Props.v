(* C18/Props.v -- property theorems only; each is closed by [exact] of a lemma from
   C18/Proofs*.v and followed by Print Assumptions.  The models are C18/Model.v
   (Fourier part) and C18/ModelW.v (wavelet bookkeeping), tied to /repo by the
   correspondence shards (C18/Corr.v).  Carrier: R; [cx] = R * R. *)
From Coq Require Import QArith Qreals Reals List Bool Arith.
From Verif Require Import Base.Num Base.Vec Lib.Axis C18.Model C18.ModelW C18.ModelH C18.ProofsGrid C18.ProofsDFT C18.ProofsCx
  C18.ProofsAxis C18.ProofsFT C18.ProofsTrue C18.ProofsHC C18.ProofsTrueHC C18.ProofsSum C18.ProofsW C18.ProofsH C18.ProofsHN C18.ProofsHI Base.Transfer Gen.FtFormulas C18.Transfer.
Import ListNotations.
Local Open Scope R_scope.

(* ------------------------------------------------------------------ *)
(* G1: reciprocal_grid has stride 2 pi / (n s) on every transformed axis: every length >= 2,
   both parities, shifted or not, halved (half-complex last axis) or not. *)
Theorem reciprocal_stride : forall (pi : R) (a : @axis R) (sh half : bool),
  (2 <= a_n a)%nat -> stride a <> 0 ->
  stride (recip_axis pi a (Some sh) half) = 2 * pi / (INR (a_n a) * stride a).
Proof. exact recip_stride_all. Qed.
Print Assumptions reciprocal_stride.

(* G2: its points are xi_k = (k - n/2) D (shifted) or (k - (n-1)/2) D (unshifted), D = 2 pi/(n s):
   zero is a grid point exactly for (shifted, even n) and (unshifted, odd n). *)
Theorem reciprocal_points : forall (pi : R) (a : @axis R) (sh half : bool) (k : nat),
  (2 <= a_n a)%nat -> stride a <> 0 ->
  coord (recip_axis pi a (Some sh) half) k =
  (INR k - (if sh then INR (a_n a) / 2 else (INR (a_n a) - 1) / 2)) * (2 * pi / (INR (a_n a) * stride a)).
Proof. exact recip_coord. Qed.
Print Assumptions reciprocal_points.

(* G3: realspace_grid(reciprocal_grid(g), x0 = g.min_pt, parity of the halved axis) = g for
   grids of any dimension, any axes subset (in any order), any per-axis shifts, with or without
   half-complex; transformed axes need >= 2 points (the code raises otherwise, see
   [real_axis_ok] and the correspondence), the other axes are left alone. *)
Theorem realspace_of_reciprocal_grid : forall (pi : R) (g : list (@axis R)) (axes : list nat)
    (shifts : list bool) (hc : bool),
  pi <> 0 -> length shifts = length axes -> axes <> [] ->
  (forall i, In i axes -> (2 <= a_n (nth i g dax))%nat /\ stride (nth i g dax) <> 0) ->
  (forall i, (i < length g)%nat -> ~ In i axes -> plain_axis (nth i g dax)) ->
  real_grid pi (recip_grid pi g axes shifts hc) (map a_min g) axes
            (if hc then Some (Nat.odd (a_n (nth (last_axis axes) g dax))) else None) = g.
Proof. exact real_recip_grid_roundtrip. Qed.
Print Assumptions realspace_of_reciprocal_grid.

(* ... and the guard of realspace_grid accepts every reciprocal axis *)
Theorem realspace_accepts_reciprocal : forall (pi : R) (a : @axis R) (sh half : bool),
  pi <> 0 -> (2 <= a_n a)%nat -> stride a <> 0 ->
  real_axis_ok (recip_axis pi a (Some sh) half) true
               (if half then Some (Nat.odd (a_n a)) else None) = true.
Proof. exact real_axis_ok_recip. Qed.

(* with the wrong halfcx_parity the reconstructed axis has the wrong number of points *)
Theorem wrong_parity_changes_shape : forall n, (1 <= n)%nat ->
  real_n (n / 2 + 1) (Some (negb (Nat.odd n))) <> n.
Proof. exact real_n_recip_wrong. Qed.

(* G4: the frequencies at which dft_postprocess_data evaluates the interpolation kernel
   (its own fmin/fmax case analysis by shift, parity and half-complex) are exactly the
   reciprocal grid points times s / (2 pi) -- in every one of the parity/shift/half cases. *)
Theorem postprocess_frequencies_match_grid : forall (pi : R) (a : @axis R) (sh half : bool) (k : nat),
  pi <> 0 -> (2 <= a_n a)%nat -> stride a <> 0 ->
  freq (a_n a) (a_n (recip_axis pi a (Some sh) half)) sh k =
  coord (recip_axis pi a (Some sh) half) k * stride a / (2 * pi).
Proof. exact freq_is_normalised_xi. Qed.
Print Assumptions postprocess_frequencies_match_grid.

(* ------------------------------------------------------------------ *)
(* D1: Fourier inversion for the naive DFT over ANY commutative ring without zero divisors,
   every length n: if w is a primitive n-th root of unity with inverse wi and n is
   invertible, the transform with wi scaled by 1/n inverts the transform with w. *)
Theorem dft_inversion_abstract : forall (C : Type) (z0 z1 : C) (zadd zmul zsub : C -> C -> C) (zopp : C -> C),
  ring_theory z0 z1 zadd zmul zsub zopp eq ->
  (forall a b, zmul a b = z0 -> a = z0 \/ b = z0) ->
  forall (w wi : C) (n : nat),
  zmul w wi = z1 -> pw C z1 zmul w n = z1 ->
  (forall d, (0 < d < n)%nat -> pw C z1 zmul w d <> z1) ->
  forall ninv : C, zmul ninv (nC C z0 z1 zadd n) = z1 ->
  forall x : list C, length x = n ->
  map (fun a => zmul ninv a) (dft_gen z0 zadd zmul (pw C z1 zmul wi) (dft_gen z0 zadd zmul (pw C z1 zmul w) x)) = x.
Proof. exact dft_inversion. Qed.
Print Assumptions dft_inversion_abstract.

(* D2: the model's 1-d transforms (DiscreteFourierTransform / ...Inverse along one axis, with
   the ODL normalisation: forward unnormalised for both signs, inverse divided by n):
   inverse(sign -s) o forward(sign s) = id for EVERY length (even, odd, 1) and both signs,
   for any phase map obeying the exponential laws ... *)
Theorem dft_inverse_recovers_input : forall cispi : R -> @cx R,
  (forall a b, cispi (a + b) = cmul (cispi a) (cispi b)) -> cispi 0 = c1 -> cispi 2 = c1 ->
  (forall r, 0 < r < 2 -> cispi r <> c1) ->
  forall (sg : R) (x : list (@cx R)), sg = 1 \/ sg = -1 ->
  idft1 cispi (- sg) (dft1 cispi sg x) = x.
Proof. exact idft1_dft1. Qed.
Print Assumptions dft_inverse_recovers_input.

(* ... which the true a |-> exp(i pi a) does obey (the premises are satisfiable): *)
Theorem true_phase_map_laws :
  (forall a b, cis_true (a + b) = cmul (cis_true a) (cis_true b)) /\ cis_true 0 = c1 /\ cis_true 2 = c1
  /\ (forall r, 0 < r < 2 -> cis_true r <> c1).
Proof. exact (conj cis_true_add (conj cis_true_0 (conj cis_true_2 cis_true_prim))). Qed.
Print Assumptions true_phase_map_laws.

(* D3: N-d.  DiscreteFourierTransformInverse(sign -s) o DiscreteFourierTransform(sign s) = id on
   complex arrays of EVERY shape, for every list of axes (any subset, any order) and both
   signs.  (cis_true a = exp(i pi a); dft_forward/dft_inverse with halfcomplex = false.) *)
Theorem dft_nd_inverse_recovers_input : forall (shape axes : list nat) (sg : R) (x : list (@cx R)),
  sg = 1 \/ sg = -1 ->
  (forall ax, In ax axes -> (ax < length shape)%nat) -> length x = prodn shape ->
  dft_inverse cis_true (- sg) false shape axes (dft_forward cis_true sg false shape axes x) = x.
Proof. exact dftn_roundtrip_true. Qed.
Print Assumptions dft_nd_inverse_recovers_input.

(* generic tool behind D3/F1: a line map applied along an axis of a flat C-order array is undone
   by applying a left inverse of the line map along the same axis (any outer/inner sizes). *)
Theorem along_axis_inverse : forall (A : Type) (outer n inner n' : nat) (F G : list A -> list A) (x : list A),
  (forall l, length l = n -> length (F l) = n') ->
  (forall l, length l = n -> G (F l) = l) ->
  length x = (n * inner * outer)%nat ->
  along outer n' inner n G (along outer n inner n' F x) = x.
Proof. exact @along_inv. Qed.
Print Assumptions along_axis_inverse.

(* ------------------------------------------------------------------ *)
(* F1: the continuous transform.  FourierTransformInverse(sign -s) o FourierTransform(sign s) = id
   on complex spaces (no half-complex): every dimension and shape with >= 2 points on the
   transformed axes (the code rejects 1), every axes list, EVERY per-axis shift pattern, both
   signs, every grid offset and cell size.  The pre-processing phases (-1)^j or
   exp(-+ i pi (1-1/n) j), the post-processing phases exp(-+ i x0 xi_k) and the interpolation
   kernel sinc(f_k) s / sqrt(2 pi) (multiplied forward, divided backward) cancel exactly. *)
Theorem ft_inverse_recovers_input : forall (g : list (@axis R)) (axes : list nat) (shifts : list bool)
    (sg : R) (x : list (@cx R)),
  sg = 1 \/ sg = -1 ->
  (forall ax, In ax axes -> (ax < length g)%nat /\ (2 <= a_n (nth ax g dax))%nat /\ stride (nth ax g dax) <> 0) ->
  length x = prodn (map a_n g) ->
  ft_inverse PI (sqrt (2 * PI)) cis_true (mk_ft g axes shifts (- sg) false) false
             (ft_forward PI (sqrt (2 * PI)) cis_true (mk_ft g axes shifts sg false) x) = x.
Proof. exact ft_roundtrip_true. Qed.
Print Assumptions ft_inverse_recovers_input.

(* the kernel is never zero where the code evaluates it (so the backward division is defined) *)
Theorem interpolation_kernel_nonzero : forall (s : R) (n : nat) (sh : bool) (k : nat),
  s <> 0 -> (2 <= n)%nat -> (k < n)%nat ->
  kernel PI (sqrt (2 * PI)) cis_true s (freq n n sh k) <> 0.
Proof. exact kernel_true_nz. Qed.

(* ------------------------------------------------------------------ *)
(* W1: wavelet coefficient flattening.  For EVERY coefficient structure (any number of levels,
   any number of detail arrays per level, any shapes): unflattening the flat vector with the
   slices that precompute_raveled_slices derives from the shapes gives back every array. *)
Theorem wavelet_unflatten_flatten : forall (A : Type) (c : @coeffs A),
  wfc c -> unflatten (shapes_of c) (flatten c) = c.
Proof. exact @unflatten_flatten. Qed.
Print Assumptions wavelet_unflatten_flatten.

Theorem wavelet_flat_length : forall (A : Type) (c : @coeffs A),
  wfc c -> length (flatten c) = coeff_size (shapes_of c).
Proof. exact @flatten_length. Qed.

(* W2: reconstruction length.  For every even filter length F >= 2 (all PyWavelets families:
   checked per wavelet by the correspondence), both length rules (periodization or not), EVERY
   level count L >= 1 and every axis length n >= 1: waverecn never meets a length mismatch,
   returns n + (n mod 2) points, and ODL's crop rule (drop the last one iff it is n+1, raise
   otherwise) never raises and restores n. *)
Theorem wavelet_reconstruction_length : forall (per : bool) (F : nat),
  Nat.even F = true -> (2 <= F)%nat ->
  forall L n, (1 <= n)%nat ->
  let ls := level_lens per F (S L) n in
  waverec_len per F true (last ls n) (rev ls) = Some (n + n mod 2)%nat.
Proof. exact recon_len_levels. Qed.
Print Assumptions wavelet_reconstruction_length.

Theorem wavelet_crop_restores_shape : forall n,
  crop_rule (n + n mod 2) n <> CropError /\
  crop_len (n + n mod 2) (crop_rule (n + n mod 2) n) = n.
Proof. exact crop_restores. Qed.
Print Assumptions wavelet_crop_restores_shape.

(* ------------------------------------------------------------------ *)
(* H1: half-complex, one line: np.fft.irfft(np.fft.rfft(x), n) = x for every REAL line of every
   length n >= 1, even and odd (Hermitian extension of the kept n/2+1 entries). *)
Theorem rfft_inverse_recovers_input : forall x : list (@cx R), Forall is_real x ->
  irfft1 cis_true (length x) (rfft1 cis_true x) = x.
Proof. exact rfft_roundtrip_true. Qed.
Print Assumptions rfft_inverse_recovers_input.

(* H2: half-complex N-d: DiscreteFourierTransformInverse(halfcomplex) o DiscreteFourierTransform(halfcomplex)
   = id on real arrays of every shape (even and odd last transformed axis), every axes list.
   [irfftn WITH the target length: the numpy code path passes it since fix 021ba38; before, odd
   sizes raised.  A regression breaks the dft correspondence (odd sizes are generated).] *)
Theorem dft_halfcomplex_inverse_recovers_input : forall (shape axes : list nat) (x : list (@cx R)),
  axes <> [] -> (forall ax, In ax axes -> (ax < length shape)%nat) ->
  (1 <= nth (last_axis axes) shape 0%nat)%nat -> length x = prodn shape -> Forall is_real x ->
  dft_inverse cis_true 1 true shape axes (dft_forward cis_true (-1) true shape axes x) = x.
Proof. exact dft_hc_roundtrip_true. Qed.
Print Assumptions dft_halfcomplex_inverse_recovers_input.

(* F2 (partial -- exactly the calls the code can execute): FourierTransform on a REAL space,
   with or without half-complex, any shape/axes/sign, any shift pattern when not half-complex,
   ALL axes shifted when half-complex: the inverse recovers the input. *)
Theorem ft_real_inverse_recovers_input_partial : forall (g : list (@axis R)) (axes : list nat)
    (shifts : list bool) (hc : bool) (sg : R) (x : list (@cx R)),
  sg = 1 \/ sg = -1 -> (hc = true -> sg = -1) ->
  axes <> [] -> length shifts = length axes ->
  (hc = true -> all_true shifts = true) ->
  (forall ax, In ax axes -> (ax < length g)%nat /\ (2 <= a_n (nth ax g dax))%nat /\ stride (nth ax g dax) <> 0) ->
  length x = prodn (map a_n g) -> Forall is_real x ->
  ft_inverse PI (sqrt (2 * PI)) cis_true (mk_ft g axes shifts (- sg) hc) true
             (ft_forward PI (sqrt (2 * PI)) cis_true (mk_ft g axes shifts sg hc) x) = x.
Proof. exact ft_roundtrip_real_true. Qed.
Print Assumptions ft_real_inverse_recovers_input_partial.

(* The FULL statement "for every half-complex option and shift choice the inverse recovers the
   input" is still FALSE of the faithful model: the code accepts half-complex with an unshifted
   non-last axis at construction (only the last axis is checked) and then fails -- open finding
   ft-halfcomplex-unshifted-axis.  What the model (and the code, by the correspondence) does on
   such a configuration, with the variant switch set to "defect present" (first argument of
   ft_init_status; the harness measures it on every run): *)
Theorem ft_halfcomplex_unshifted_refuted :
  exists (shifts : list bool),
    @ft_init_status R _ false [mk_axis 0 3 4; mk_axis 0 4 5] [0; 1]%nat shifts true false = SOk
    /\ ft_inverse_status true true shifts = STypeErr          (* inverse raises on both back-ends *)
    /\ ft_forward_status true true true shifts = SOtherErr.   (* pyfftw: forward raises *)
Proof. exact ft_hc_unshifted_status. Qed.
(* The earlier refutations about the inverse DFT onto real spaces (pyfftw), odd half-complex
   lengths (numpy) and the real unshifted pyfftw inverse FT are gone: those defects were repaired
   in /repo and D3 / H2 / F2 are the live statements for them. *)

(* ------------------------------------------------------------------ *)
(* F3: PHASE CORRECTNESS (what a round trip cannot see: a consistently wrong phase cancels
   between the transform and its inverse).  Along one axis, for every length n >= 2 (even
   and odd), shifted or unshifted, both signs, every grid offset x0 and cell size s, entry k of
   FourierTransform(x) IS
       kernel(f_k) * sum_j x_j exp(sg i x_j xi_k),     x_j = x0 + j s,
   i.e. pre-processing (-1)^j resp. exp(-+ i pi (1-1/n) j), the DFT twiddles and the post-
   processing phase exp(sg i x0 xi_k) combine to exactly the Fourier kernel at the
   reciprocal grid point xi_k.  (cis_true a = exp(i pi a) and coord(recip_axis 1 ..) = xi_k/pi.) *)
Theorem ft_equals_defining_sum : forall (a : @axis R) (sh : bool) (sg : R) (x : list (@cx R)) (k : nat),
  sg = 1 \/ sg = -1 -> (2 <= a_n a)%nat -> stride a <> 0 -> length x = a_n a -> (k < a_n a)%nat ->
  nth k (ft_forward PI (sqrt (2 * PI)) cis_true (mk_ft [a] [0%nat] [sh] sg false) x) c0 =
  cscal (kernel PI (sqrt (2 * PI)) cis_true (stride a) (freq (a_n a) (a_n a) sh k))
        (rsum c0 cadd (fun j => cmul (nth j x c0)
                  (cis_true (sg * (a_min a + INR j * stride a) * coord (recip_axis 1 a (Some sh) false) k)))
              (a_n a)).
Proof. exact (ft_is_defining_sum cis_true cis_true_add cis_true_0 cis_true_2 cis_true_prim PI (sqrt (2 * PI))). Qed.
Print Assumptions ft_equals_defining_sum.

(* F3': the same for the half-complex transform of a real line (all-shifted, sign '-'): the kept
   entries k = 0..n/2, even and odd n, with the half-complex branch of the kernel frequencies. *)
Theorem ft_halfcomplex_equals_defining_sum : forall (a : @axis R) (x : list (@cx R)) (k : nat),
  (2 <= a_n a)%nat -> stride a <> 0 -> length x = a_n a -> Forall (fun z => snd z = 0) x ->
  (k < a_n a / 2 + 1)%nat ->
  nth k (ft_forward PI (sqrt (2 * PI)) cis_true (mk_ft [a] [0%nat] [true] (-1) true) x) c0 =
  cscal (kernel PI (sqrt (2 * PI)) cis_true (stride a) (freq (a_n a) (a_n a / 2 + 1) true k))
        (rsum c0 cadd (fun j => cmul (nth j x c0)
                  (cis_true (-1 * (a_min a + INR j * stride a) * coord (recip_axis 1 a (Some true) true) k)))
              (a_n a)).
Proof. exact (ft_is_defining_sum_hc cis_true cis_true_add cis_true_0 cis_true_2 cis_true_prim PI (sqrt (2 * PI))). Qed.
Print Assumptions ft_halfcomplex_equals_defining_sum.

(* ------------------------------------------------------------------ *)
(* W3: the Haar wavelet with periodic (periodization) extension, as PyWavelets computes it and
   WaveletTransform flattens it (model C18/ModelH.v, compared with the implementation for
   lengths 1..12 x levels 0..3 by the correspondence).
   (a) W.inverse(W(x)) = x for EVERY length (odd lengths at any level included: the repeated
       sample is cropped) and every level count. *)
Theorem haar_reconstruction : forall (L : nat) (x : list R),
  ihaar (sqrt 2) L (length x) (haar (sqrt 2) L x) = x.
Proof. exact ihaar_haar_sqrt2. Qed.
Print Assumptions haar_reconstruction.

(* (b) the adjoint identity with ODL's scaling (W.adjoint = inverse / cell_volume, domain inner
       product = cell_volume * dot, coefficient space unweighted), for every level count,
       whenever every level length is even (n divisible by 2^L): <W x, c> = <x, W.adjoint c>. *)
Theorem haar_adjoint_identity_partial : forall (L : nat) (x c : list R) (cv : R), cv <> 0 ->
  length c = length x -> even_chain L (length x) ->
  dot (haar (sqrt 2) L x) c = cv * dot x (vscal (1 / cv) (ihaar (sqrt 2) L (length x) c)).
Proof. exact haar_adjoint_sqrt2. Qed.
Print Assumptions haar_adjoint_identity_partial.

Theorem haar_is_orthogonal_on_even_levels : forall (L : nat) (x y : list R), length x = length y ->
  even_chain L (length x) -> dot (haar (sqrt 2) L x) (haar (sqrt 2) L y) = dot x y.
Proof. exact haar_parseval_sqrt2. Qed.

(* (c) the FULL statement (every size) is false of the faithful model: with an odd length the
       returned operator is not the adjoint (finding wavelet-adjoint-periodization-odd-length). *)
Theorem haar_adjoint_identity_odd_refuted :
  exists (x c : list R),
    dot (haar (sqrt 2) 1 x) c <> 1 * dot x (vscal (1 / 1) (ihaar (sqrt 2) 1 (length x) c)).
Proof. exact haar_adjoint_odd_refuted_sqrt2. Qed.
Example even_chain_example : even_chain 3 24.
Proof. cbn. repeat split. Qed.

(* ------------------------------------------------------------------ *)
(* W4: N-d, `axes=` option, different non-unit cell sides per axis (model haar_nd / inner_dom in
   C18/ModelH.v; compared with WaveletTransform(..., axes=subset) on anisotropic 1-3-d spaces by the
   correspondence, including the values returned by .adjoint, .inverse and .inverse.adjoint).
   (a) a pair of line maps that splits the dot product, applied along an axis of a flat array,
       splits the dot product of the arrays (any outer/inner sizes): the lifting lemma. *)
Theorem along_axis_splits_dot : forall (S D : list R -> list R) (outer n inner p q : nat) (x y : list R),
  (forall l, length l = n -> length (S l) = p) -> (forall l, length l = n -> length (D l) = q) ->
  (forall l l', length l = n -> length l' = n -> dot (S l) (S l') + dot (D l) (D l') = dot l l') ->
  length x = (n * inner * outer)%nat -> length y = (n * inner * outer)%nat ->
  dot (along outer n inner p S x) (along outer n inner p S y)
  + dot (along outer n inner q D x) (along outer n inner q D y) = dot x y.
Proof. exact along_parseval2. Qed.
Print Assumptions along_axis_splits_dot.

(* (b) the multi-level Haar/periodization transform over ANY list of axes of an array of ANY
       dimension is orthogonal whenever every transformed axis is even on every level. *)
Theorem haar_nd_is_orthogonal : forall (L : nat) (axes shape : list nat) (x y : list R),
  even_chain_nd L shape axes -> length x = prodn shape -> length y = prodn shape ->
  dot (haar_nd (sqrt 2) L shape axes x) (haar_nd (sqrt 2) L shape axes y) = dot x y.
Proof. exact haar_nd_parseval_sqrt2. Qed.
Print Assumptions haar_nd_is_orthogonal.

(* (c) the adjoint in the WEIGHTED spaces: domain inner product = (product of ALL cell sides) * dot,
       coefficient space unweighted.  For every right inverse Winv of W (W.inverse is one: checked
       by the correspondence; proved for 1-d, see haar_reconstruction / haar_adjoint_identity_partial)
       the operator (1 / FULL cell volume) * Winv satisfies the adjoint identity, for any axes subset
       and any cell sides ... *)
Theorem haar_nd_weighted_adjoint_identity : forall (L : nat) (shape axes : list nat) (sides : list R)
    (Winv : list R -> list R) (x c : list R),
  even_chain_nd L shape axes -> cell_volume sides <> 0 ->
  (forall c', length (Winv c') = prodn shape /\ haar_nd (sqrt 2) L shape axes (Winv c') = c') ->
  length x = prodn shape ->
  dot (haar_nd (sqrt 2) L shape axes x) c
  = inner_dom sides x (vscal (1 / cell_volume sides) (Winv c)).
Proof. exact haar_nd_weighted_adjoint_sqrt2. Qed.
Print Assumptions haar_nd_weighted_adjoint_identity.

(* (d) ... and NO other scale does: a scale built from the transformed axes' cell sides only (or any
       other constant) violates the identity on every pair with <W x, c> <> 0. *)
Theorem haar_nd_adjoint_scale_is_full_cell_volume : forall (L : nat) (shape axes : list nat)
    (sides : list R) (Winv : list R -> list R) (s : R) (x c : list R),
  even_chain_nd L shape axes -> cell_volume sides <> 0 ->
  (forall c', length (Winv c') = prodn shape /\ haar_nd (sqrt 2) L shape axes (Winv c') = c') ->
  length x = prodn shape -> dot (haar_nd (sqrt 2) L shape axes x) c <> 0 ->
  dot (haar_nd (sqrt 2) L shape axes x) c = inner_dom sides x (vscal s (Winv c)) ->
  s = 1 / cell_volume sides.
Proof. exact haar_nd_adjoint_scale_unique_sqrt2. Qed.
Print Assumptions haar_nd_adjoint_scale_is_full_cell_volume.

(* the right-inverse premise is satisfiable: on 1-d arrays haar_nd is haar, whose right inverse
   ihaar is proved in ProofsH *)
Theorem haar_nd_on_1d_is_haar : forall (L : nat) (x : list R),
  haar_nd (sqrt 2) L [length x] [0%nat] x = haar (sqrt 2) L x.
Proof. exact (haar_nd_1d (sqrt 2)). Qed.
Example even_chain_nd_example : even_chain_nd 2 [4; 3; 8]%nat [2; 0]%nat.
Proof. exact even_chain_nd_example_holds. Qed.

(* (e) the N-d inverse (model ihaar_nd, compared with W.inverse by the correspondence) IS a right
       inverse of W on every coefficient vector -- any dimension, axes list and level count (even
       chains) -- so (c), (d) hold without any premise about the inverse: *)
Theorem haar_nd_inverse_is_right_inverse : forall (axes : list nat) (L : nat) (shape : list nat) (c : list R),
  even_chain_nd L shape axes -> length c = haar_nd_size L shape axes ->
  length (ihaar_nd (sqrt 2) L shape axes c) = prodn shape /\
  haar_nd (sqrt 2) L shape axes (ihaar_nd (sqrt 2) L shape axes c) = c.
Proof. exact ihaar_nd_right_inverse_sqrt2. Qed.
Print Assumptions haar_nd_inverse_is_right_inverse.

Theorem wavelet_nd_adjoint_identity : forall (L : nat) (shape axes : list nat) (sides : list R) (x c : list R),
  even_chain_nd L shape axes -> cell_volume sides <> 0 ->
  length x = prodn shape -> length c = haar_nd_size L shape axes ->
  dot (haar_nd (sqrt 2) L shape axes x) c
  = inner_dom sides x (vscal (1 / cell_volume sides) (ihaar_nd (sqrt 2) L shape axes c)).
Proof. exact haar_nd_weighted_adjoint_full. Qed.
Print Assumptions wavelet_nd_adjoint_identity.

Theorem wavelet_nd_adjoint_scale_is_full_cell_volume : forall (L : nat) (shape axes : list nat)
    (sides : list R) (s : R) (x c : list R),
  even_chain_nd L shape axes -> cell_volume sides <> 0 ->
  length x = prodn shape -> length c = haar_nd_size L shape axes ->
  dot (haar_nd (sqrt 2) L shape axes x) c <> 0 ->
  dot (haar_nd (sqrt 2) L shape axes x) c = inner_dom sides x (vscal s (ihaar_nd (sqrt 2) L shape axes c)) ->
  s = 1 / cell_volume sides.
Proof. exact haar_nd_adjoint_scale_full. Qed.

(* ------------------------------------------------------------------ *)
(* T: TRANSFER.  The grid / frequency part of the model that the correspondence shards execute at Q
   (exact rationals) is the rational restriction of the model the theorems above are about at R:
   Q2R commutes with reciprocal_grid, realspace_grid (under the guard the code needs as well) and the
   post-processing frequencies, all built from the regenerated formulas. *)
Theorem reciprocal_grid_transfer : forall (pi : Q) (a : @axis Q) (tr : option bool) (half : bool),
  (1 <= a_n a)%nat ->
  axR (recip_axis pi a tr half) = recip_axis (Q2R pi) (axR a) tr half.
Proof. exact recip_axis_transfer. Qed.
Print Assumptions reciprocal_grid_transfer.
Theorem realspace_grid_transfer : forall (pi : Q) (r : @axis Q) (x0 : Q) (tr : bool) (half : option bool),
  (tr = true -> ~ (nmul (g_of_nat (real_n (a_n r) half)) (stride r) == 0)%Q) ->
  axR (real_axis pi r x0 tr half) = real_axis (Q2R pi) (axR r) (Q2R x0) tr half.
Proof. exact real_axis_transfer. Qed.
Theorem postprocess_frequency_transfer : forall (n rn : nat) (sh : bool) (k : nat), (1 <= n)%nat ->
  Q2R (freq n rn sh k) = freq n rn sh k.
Proof. exact freq_transfer. Qed.
Theorem grid_coordinate_transfer : forall (a : @axis Q) (k : nat), Q2R (coord a k) = coord (axR a) k.
Proof. exact coord_transfer. Qed.
