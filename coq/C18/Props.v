(* C18/Props.v -- property theorems only; each is closed by [exact] of a lemma from
   C18/Proofs*.v and followed by Print Assumptions.  The models are C18/Model.v
   (Fourier part) and C18/ModelW.v (wavelet bookkeeping), tied to /repo by the
   correspondence shards (C18/Corr.v).  Carrier: R; [cx] = R * R. *)
From Coq Require Import Reals List Bool Arith.
From Verif Require Import Base.Num C18.Model C18.ModelW C18.ProofsGrid C18.ProofsDFT C18.ProofsCx.
Import ListNotations.
Local Open Scope R_scope.

(* ------------------------------------------------------------------ *)
(* G1: reciprocal_grid has stride 2 pi / (n s) on every transformed axis: every length >= 2,
   both parities, shifted or not, halved (half-complex last axis) or not. *)
Theorem reciprocal_stride : forall (pi : R) (a : @axis R) (sh half : bool),
  (2 <= a_n a)%nat -> stride a <> 0 ->
  stride (recip_axis pi a (Some sh) half) = 2 * pi / (INR (a_n a) * stride a).
Proof. exact recip_stride_all. Qed.
Print Assumptions reciprocal_stride.

(* G2: its points are xi_k = (k - n/2) D (shifted) or (k - (n-1)/2) D (unshifted), D = 2 pi/(n s):
   zero is a grid point exactly for (shifted, even n) and (unshifted, odd n). *)
Theorem reciprocal_points : forall (pi : R) (a : @axis R) (sh half : bool) (k : nat),
  (2 <= a_n a)%nat -> stride a <> 0 ->
  coord (recip_axis pi a (Some sh) half) k =
  (INR k - (if sh then INR (a_n a) / 2 else (INR (a_n a) - 1) / 2)) * (2 * pi / (INR (a_n a) * stride a)).
Proof. exact recip_coord. Qed.
Print Assumptions reciprocal_points.

(* G3: realspace_grid(reciprocal_grid(g), x0 = g.min_pt, parity of the halved axis) = g for
   grids of any dimension, any axes subset (in any order), any per-axis shifts, with or without
   half-complex; transformed axes need >= 2 points (the code raises otherwise, see
   [real_axis_ok] and the correspondence), the other axes are left alone. *)
Theorem realspace_of_reciprocal_grid : forall (pi : R) (g : list (@axis R)) (axes : list nat)
    (shifts : list bool) (hc : bool),
  pi <> 0 -> length shifts = length axes -> axes <> [] ->
  (forall i, In i axes -> (2 <= a_n (nth i g dax))%nat /\ stride (nth i g dax) <> 0) ->
  (forall i, (i < length g)%nat -> ~ In i axes -> plain_axis (nth i g dax)) ->
  real_grid pi (recip_grid pi g axes shifts hc) (map a_min g) axes
            (if hc then Some (Nat.odd (a_n (nth (last_axis axes) g dax))) else None) = g.
Proof. exact real_recip_grid_roundtrip. Qed.
Print Assumptions realspace_of_reciprocal_grid.

(* ... and the guard of realspace_grid accepts every reciprocal axis *)
Theorem realspace_accepts_reciprocal : forall (pi : R) (a : @axis R) (sh half : bool),
  pi <> 0 -> (2 <= a_n a)%nat -> stride a <> 0 ->
  real_axis_ok (recip_axis pi a (Some sh) half) true
               (if half then Some (Nat.odd (a_n a)) else None) = true.
Proof. exact real_axis_ok_recip. Qed.

(* with the wrong halfcx_parity the reconstructed axis has the wrong number of points *)
Theorem wrong_parity_changes_shape : forall n, (1 <= n)%nat ->
  real_n (n / 2 + 1) (Some (negb (Nat.odd n))) <> n.
Proof. exact real_n_recip_wrong. Qed.

(* G4: the frequencies at which dft_postprocess_data evaluates the interpolation kernel
   (its own fmin/fmax case analysis by shift, parity and half-complex) are exactly the
   reciprocal grid points times s / (2 pi) -- in every one of the parity/shift/half cases. *)
Theorem postprocess_frequencies_match_grid : forall (pi : R) (a : @axis R) (sh half : bool) (k : nat),
  pi <> 0 -> (2 <= a_n a)%nat -> stride a <> 0 ->
  freq (a_n a) (a_n (recip_axis pi a (Some sh) half)) sh k =
  coord (recip_axis pi a (Some sh) half) k * stride a / (2 * pi).
Proof. exact freq_is_normalised_xi. Qed.
Print Assumptions postprocess_frequencies_match_grid.

(* ------------------------------------------------------------------ *)
(* D1: Fourier inversion for the naive DFT over ANY commutative ring without zero divisors,
   every length n: if w is a primitive n-th root of unity with inverse wi and n is
   invertible, the transform with wi scaled by 1/n inverts the transform with w. *)
Theorem dft_inversion_abstract : forall (C : Type) (z0 z1 : C) (zadd zmul zsub : C -> C -> C) (zopp : C -> C),
  ring_theory z0 z1 zadd zmul zsub zopp eq ->
  (forall a b, zmul a b = z0 -> a = z0 \/ b = z0) ->
  forall (w wi : C) (n : nat),
  zmul w wi = z1 -> pw C z1 zmul w n = z1 ->
  (forall d, (0 < d < n)%nat -> pw C z1 zmul w d <> z1) ->
  forall ninv : C, zmul ninv (nC C z0 z1 zadd n) = z1 ->
  forall x : list C, length x = n ->
  map (fun a => zmul ninv a) (dft_gen z0 zadd zmul (pw C z1 zmul wi) (dft_gen z0 zadd zmul (pw C z1 zmul w) x)) = x.
Proof. exact dft_inversion. Qed.
Print Assumptions dft_inversion_abstract.

(* D2: the model's 1-d transforms (DiscreteFourierTransform / ...Inverse along one axis, with
   the ODL normalisation: forward unnormalised for both signs, inverse divided by n):
   inverse(sign -s) o forward(sign s) = id for EVERY length (even, odd, 1) and both signs,
   for any phase map obeying the exponential laws ... *)
Theorem dft_inverse_recovers_input : forall cispi : R -> @cx R,
  (forall a b, cispi (a + b) = cmul (cispi a) (cispi b)) -> cispi 0 = c1 -> cispi 2 = c1 ->
  (forall r, 0 < r < 2 -> cispi r <> c1) ->
  forall (sg : R) (x : list (@cx R)), sg = 1 \/ sg = -1 ->
  idft1 cispi (- sg) (dft1 cispi sg x) = x.
Proof. exact idft1_dft1. Qed.
Print Assumptions dft_inverse_recovers_input.

(* ... which the true a |-> exp(i pi a) does obey (the premises are satisfiable): *)
Theorem true_phase_map_laws :
  (forall a b, cis_true (a + b) = cmul (cis_true a) (cis_true b)) /\ cis_true 0 = c1 /\ cis_true 2 = c1
  /\ (forall r, 0 < r < 2 -> cis_true r <> c1).
Proof. exact (conj cis_true_add (conj cis_true_0 (conj cis_true_2 cis_true_prim))). Qed.
Print Assumptions true_phase_map_laws.
