(* C18/Props.v -- placeholder, filled below *)
From Verif Require Import C18.Model C18.ModelW C18.Corr.
