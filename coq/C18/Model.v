(* C18/Model.v -- executable model of odl/trafos (Fourier part):
     odl/trafos/util/ft_utils.py : reciprocal_grid, realspace_grid,
                                   dft_preprocess_data, dft_postprocess_data, _interp_kernel_ft
     odl/trafos/fourier.py       : DiscreteFourierTransform(Inverse)._call_numpy,
                                   FourierTransform(Inverse)._call_numpy / _call_pyfftw
   Definitions only (proofs: C18/Proofs*.v).  Polymorphic over the carrier [Num T];
   complex numbers are pairs.  Three things the carrier cannot compute are explicit
   parameters:  [pi], [sq2pi] (= sqrt(2 pi)) and [cispi a] (= exp(i pi a)).
   At Q they are instantiated by C18/CisQ.v, at R by the true functions. *)
From Coq Require Import ZArith QArith List Bool Arith.
From Verif Require Import Base.Num Base.Vec Lib.Axis Gen.FtFormulas.
Import ListNotations.
Local Open Scope num_scope.

(* ------------------------------------------------------------------ *)
(* generic finite sums and the naive DFT over any carrier with + and * *)
Section Generic.
Context {C : Type}.
Variables (c0 : C) (cadd cmul : C -> C -> C).

(* sum_{i<n} f i *)
Fixpoint rsum (f : nat -> C) (n : nat) : C :=
  match n with O => c0 | S n' => cadd (rsum f n') (f n') end.

(* X_k = sum_j x_j * tw(j*k),  k = 0..n-1  (tw m = w^m for a root of unity w) *)
Definition dft_gen (tw : nat -> C) (x : list C) : list C :=
  let n := length x in
  map (fun k => rsum (fun j => cmul (nth j x c0) (tw (j * k)%nat)) n) (seq 0 n).
End Generic.

Inductive status := SOk | SValueErr | STypeErr | SOtherErr.

Section Model.
Context {T : Type} `{Num T}.

Definition of_nat (n : nat) : T := g_of_nat n.

(* ------------------------------------------------------------------ *)
(* complex numbers as pairs *)
Definition cx := (T * T)%type.
Definition c0 : cx := (nzero, nzero).
Definition c1 : cx := (none_, nzero).
Definition cadd (a b : cx) : cx := (fst a + fst b, snd a + snd b).
Definition csub (a b : cx) : cx := (fst a - fst b, snd a - snd b).
Definition cmul (a b : cx) : cx :=
  (fst a * fst b - snd a * snd b, fst a * snd b + snd a * fst b).
Definition cscal (r : T) (a : cx) : cx := (r * fst a, r * snd a).
Definition cdivr (a : cx) (r : T) : cx := (fst a / r, snd a / r).
Definition cconj (a : cx) : cx := (fst a, - snd a).
Definition cre (a : cx) : cx := (fst a, nzero).
Definition of_re (r : T) : cx := (r, nzero).

(* ------------------------------------------------------------------ *)
(* uniform grids, one record per axis: RectGrid made by uniform_grid(min,max,shape) *)
Record axis := mk_axis { a_min : T; a_max : T; a_n : nat }.

(* RectGrid.stride: extent/(n-1), 0.0 on a one-point axis *)
Definition stride (a : axis) : T :=
  if (a_n a <=? 1)%nat then nzero else (a_max a - a_min a) / of_nat (a_n a - 1).
(* coord_vectors = linspace(min, max, n) *)
Definition coord (a : axis) (k : nat) : T := a_min a + of_nat k * stride a.

(* reciprocal_grid, one axis.  tr = None: axis not in `axes`; Some shift otherwise.
   half: this is axes[-1] of a half-complex transform. *)
Definition stride1 (a : axis) : T := if stride a =? nzero then none_ else stride a.
Definition recip_axis (pi : T) (a : axis) (tr : option bool) (half : bool) : axis :=
  match tr with
  | None => a
  | Some sh =>
      (* formulas REGENERATED from reciprocal_grid: Gen/FtFormulas.v *)
      let s := stride1 a in
      let n := a_n a in
      let rmin := rg_rmin pi s n sh in
      if half then mk_axis rmin (rg_half_rmax pi s n sh) (rg_half_n n)
      else mk_axis rmin (rg_rmax pi s rmin n sh) n
  end.

(* which flag an axis gets from (axes, shift_list):  shifted[axes] = shift_list *)
Fixpoint tr_of (axes : list nat) (shifts : list bool) (i : nat) : option bool :=
  match axes, shifts with
  | ax :: axes', sh :: shifts' =>
      match tr_of axes' shifts' i with
      | Some b => Some b                      (* a later duplicate wins *)
      | None => if (ax =? i)%nat then Some sh else None
      end
  | _, _ => None
  end.
Definition last_axis (axes : list nat) : nat := last axes 0%nat.

Fixpoint recip_from (pi : T) (i : nat) (g : list axis) (axes : list nat) (shifts : list bool)
         (hc : bool) : list axis :=
  match g with
  | [] => []
  | a :: g' =>
      recip_axis pi a (tr_of axes shifts i) (hc && (i =? last_axis axes)%nat)
      :: recip_from pi (S i) g' axes shifts hc
  end.
Definition recip_grid (pi : T) (g : list axis) (axes : list nat) (shifts : list bool) (hc : bool)
  : list axis := recip_from pi 0 g axes shifts hc.

(* realspace_grid, one axis.  tr: axis in `axes`; half = Some odd?: halved axis and parity *)
Definition real_n (rn : nat) (half : option bool) : nat :=
  match half with
  | None => rn
  | Some odd => rs_n rn odd          (* regenerated parity rules 2 rn - 2 / 2 rn - 1 *)
  end.
Definition real_axis (pi : T) (r : axis) (x0 : T) (tr : bool) (half : option bool) : axis :=
  let n := real_n (a_n r) half in
  let st := if tr then rs_stride pi (stride r) n else stride r in
  mk_axis x0 (rs_max x0 st n) n.
(* the code divides by irshape*rstride: inf/NaN limits make uniform_grid raise ValueError *)
Definition real_axis_ok (r : axis) (tr : bool) (half : option bool) : bool :=
  negb tr || negb ((of_nat (real_n (a_n r) half) * stride r) =? nzero).

Fixpoint real_from (pi : T) (i : nat) (rg : list axis) (x0 : list T) (axes : list nat)
         (half : option bool) : list axis :=
  match rg, x0 with
  | r :: rg', x :: x0' =>
      real_axis pi r x (existsb (Nat.eqb i) axes)
                (if (i =? last_axis axes)%nat then half else None)
      :: real_from pi (S i) rg' x0' axes half
  | _, _ => []
  end.
Definition real_grid (pi : T) rg x0 axes half := real_from pi 0 rg x0 axes half.
Fixpoint real_ok_from (i : nat) (rg : list axis) (axes : list nat) (half : option bool) : bool :=
  match rg with
  | [] => true
  | r :: rg' =>
      real_axis_ok r (existsb (Nat.eqb i) axes) (if (i =? last_axis axes)%nat then half else None)
      && real_ok_from (S i) rg' axes half
  end.

(* ------------------------------------------------------------------ *)
(* phase factors.  sg = -1 for sign '-', +1 for sign '+'  (imag = sg * 1j) *)
Section Phases.
Variables (pi sq2pi : T) (cispi : T -> cx).

(* dft_preprocess_data._onedim_arr: (-1)^j on a shifted axis,
   exp(-imag*pi*(1-1/n)*j) on an unshifted one *)
Definition pre_fac (n : nat) (sh : bool) (sg : T) (j : nat) : cx :=
  if sh then (if Nat.even j then of_re pre_shift_even else of_re pre_shift_odd)
  else cispi (pre_arg sg n j).

(* np.linspace(lo, hi, num)[k] *)
Definition linspace (lo hi : T) (num k : nat) : T :=
  if (num <=? 1)%nat then lo else lo + of_nat k * ((hi - lo) / of_nat (num - 1)).

(* dft_postprocess_data: normalised frequencies fmin..fmax (len_dft points) *)
Definition fmin_of (n : nat) (sh : bool) : T := pp_fmin n sh.          (* regenerated *)
Definition fmax_of (n rn : nat) (sh : bool) : T := pp_fmax n rn sh.   (* regenerated *)
Definition freq (n rn : nat) (sh : bool) (k : nat) : T :=
  linspace (fmin_of n sh) (fmax_of n rn sh) rn k.

(* np.sinc(f) = sin(pi f)/(pi f), 1 at 0;  _interp_kernel_ft(.., 'nearest') * stride *)
Definition sinc (f : T) : T :=
  if f =? nzero then none_ else snd (cispi f) / (pi * f).
Definition kernel (s f : T) : T := pp_kernel (sinc f) sq2pi s false.

(* one entry of the 1-d post-processing array:
   exp(imag x0 xi_k) times (or over) the kernel;   xi_k/pi = coordinate of the reciprocal axis built with pi := 1 *)
Definition post_fac (real_ax : axis) (sh : bool) (half : bool) (sg : T) (divide : bool) (k : nat) : cx :=
  let n := a_n real_ax in
  let r1 := recip_axis none_ real_ax (Some sh) half in
  let ph := cispi (pp_arg sg (a_min real_ax) (coord r1 k)) in
  let ker := kernel (stride real_ax) (freq n (a_n r1) sh k) in
  if divide then cdivr ph ker else cscal ker ph.

(* interp='linear': the kernel is sinc^2 (FourierTransform itself always uses 'nearest') *)
Definition kernel_lin (s f : T) : T := pp_kernel (sinc f) sq2pi s true.
Definition post_fac_lin (real_ax : axis) (sh : bool) (half : bool) (sg : T) (divide : bool) (k : nat) : cx :=
  let n := a_n real_ax in
  let r1 := recip_axis none_ real_ax (Some sh) half in
  let ph := cispi (pp_arg sg (a_min real_ax) (coord r1 k)) in
  let ker := kernel_lin (stride real_ax) (freq n (a_n r1) sh k) in
  if divide then cdivr ph ker else cscal ker ph.

(* table of twiddles exp(sg * 2 pi i m / n), m < n, looked up modulo n *)
Definition tw_tab (sg : T) (n : nat) : nat -> cx :=
  let tab := map (fun m => cispi (sg * of_Z 2 * of_nat m / of_nat n)) (seq 0 n) in
  fun m => nth (m mod n) tab c0.

(* a function on 0..n-1 evaluated once into a table *)
Definition tabulate (n : nat) (f : nat -> cx) : nat -> cx :=
  let tab := map f (seq 0 n) in fun k => nth k tab c0.

(* unnormalised DFT of one line, exponent sign sg *)
Definition dft1 (sg : T) (x : list cx) : list cx :=
  dft_gen c0 cadd cmul (tw_tab sg (length x)) x.
Definition idft1 (sg : T) (x : list cx) : list cx :=
  map (fun a => cdivr a (of_nat (length x))) (dft1 sg x).
(* the same with the twiddle table of length n built once (used for all lines of an axis) *)
Definition dft1n (sg : T) (n : nat) : list cx -> list cx :=
  let tw := tw_tab sg n in fun x => dft_gen c0 cadd cmul tw x.
Definition idft1n (sg : T) (n : nat) : list cx -> list cx :=
  let F := dft1n sg n in fun x => map (fun a => cdivr a (of_nat n)) (F x).

(* np.fft.rfft: imaginary parts of the input are discarded (ComplexWarning), the
   first n/2+1 entries of the spectrum are kept *)
Definition rfft1 (x : list cx) : list cx :=
  firstn (length x / 2 + 1) (dft1 (- none_) (map cre x)).
Definition rfft1n (n : nat) : list cx -> list cx :=
  let F := dft1n (- none_) n in fun x => firstn (n / 2 + 1) (F (map cre x)).
(* np.fft.irfft(y, n): Hermitian extension, inverse transform, real part *)
Definition herm_ext (n : nat) (y : list cx) : list cx :=
  map (fun k => if (k <=? n / 2)%nat then nth k y c0 else cconj (nth (n - k) y c0)) (seq 0 n).
Definition irfft1 (n : nat) : list cx -> list cx :=
  let F := idft1n none_ n in fun y => map cre (F (herm_ext n y)).

(* ---------------- N-d arrays: flat C order + shape ---------------- *)
Definition inner_of (shape : list nat) (ax : nat) : nat := prodn (skipn (S ax) shape).
Definition axis_index (shape : list nat) (ax : nat) (i : nat) : nat :=
  (i / inner_of shape ax) mod (nth ax shape 1%nat).
Definition set_nth (shape : list nat) (ax : nat) (v : nat) : list nat :=
  firstn ax shape ++ v :: skipn (S ax) shape.

(* apply a line map along axis ax; the line length changes from nth ax shape to n' *)
Definition along_ax (shape : list nat) (ax : nat) (n' : nat) (F : list cx -> list cx)
           (x : list cx) : list cx :=
  along (prodn (firstn ax shape)) (nth ax shape 0%nat) (inner_of shape ax) n' F x.

(* np.fft.fftn(x, axes): 1-d passes (they commute in exact arithmetic; modelled
   last axis first) *)
Definition dftn (sg : T) (shape : list nat) (axes : list nat) (x : list cx) : list cx :=
  fold_right (fun ax acc => along_ax shape ax (nth ax shape 0%nat) (dft1n sg (nth ax shape 0%nat)) acc) x axes.
(* the inverse passes in the opposite order, each divided by its length *)
Definition idftn (sg : T) (shape : list nat) (axes : list nat) (x : list cx) : list cx :=
  fold_left (fun acc ax => along_ax shape ax (nth ax shape 0%nat) (idft1n sg (nth ax shape 0%nat)) acc) axes x.

Definition hc_shape (shape : list nat) (axes : list nat) : list nat :=
  let l := last_axis axes in set_nth shape l (nth l shape 0%nat / 2 + 1).
(* np.fft.rfftn: rfft along axes[-1], then fft along the others *)
Definition rfftn (shape : list nat) (axes : list nat) (x : list cx) : list cx :=
  let l := last_axis axes in
  let n := nth l shape 0%nat in
  dftn (- none_) (hc_shape shape axes) (removelast axes) (along_ax shape l (n / 2 + 1) (rfft1n n) x).
(* np.fft.irfftn(y, s): ifft along the others, then irfft along axes[-1] *)
Definition irfftn (shape : list nat) (axes : list nat) (y : list cx) : list cx :=
  let l := last_axis axes in
  let n := nth l shape 0%nat in
  along_ax (hc_shape shape axes) l n (irfft1 n)
           (idftn none_ (hc_shape shape axes) (removelast axes) y).

(* the np.fft routine named by the REGENERATED dispatch (Gen/FtFormulas.v: *_call) *)
Definition run_call (c : np_call) (shape axes : list nat) (x : list cx) : list cx :=
  match c with
  | Rfftn => rfftn shape axes x
  | Fftn => dftn (- none_) shape axes x
  | IfftnTimesN => dftn none_ shape axes x
  | IrfftnS => irfftn shape axes x
  | Ifftn => idftn none_ shape axes x
  | FftnOverN => idftn (- none_) shape axes x
  end.
Definition sign_minus (sg : T) : bool := sg <? nzero.
(* DiscreteFourierTransform._call_numpy / DiscreteFourierTransformInverse._call_numpy *)
Definition dft_forward (sg : T) (hc : bool) (shape axes : list _) (x : list cx) : list cx :=
  run_call (dft_fwd_call hc (sign_minus sg)) shape axes x.
Definition dft_inverse (sg : T) (hc : bool) (shape axes : list _) (y : list cx) : list cx :=
  run_call (dft_inv_call hc (sign_minus sg)) shape axes y.
(* the transform step of FourierTransform._call_numpy / FourierTransformInverse._call_numpy *)
Definition ftc_forward (sg : T) (hc : bool) (shape axes : list _) (x : list cx) : list cx :=
  run_call (ft_fwd_call hc (sign_minus sg)) shape axes x.
Definition ftc_inverse (sg : T) (hc : bool) (shape axes : list _) (y : list cx) : list cx :=
  run_call (ft_inv_call hc (sign_minus sg)) shape axes y.

(* fast_1d_tensor_mult(out, onedim_arrs, axes): out[i] *= prod_a arr_a[index of i along a] *)
Fixpoint tensor_fac (shape : list nat) (facs : list (nat * (nat -> cx))) (i : nat) : cx :=
  match facs with
  | [] => c1
  | (ax, f) :: facs' => cmul (f (axis_index shape ax i)) (tensor_fac shape facs' i)
  end.
Definition tensor_mult (shape : list nat) (facs : list (nat * (nat -> cx))) (x : list cx) : list cx :=
  map (fun ix => cmul (snd ix) (tensor_fac shape facs (fst ix))) (combine (seq 0 (length x)) x).

(* the continuous transform: configuration *)
Record ftcfg := mk_ft {
  f_grid : list axis;        (* real-space grid (domain of the forward transform) *)
  f_axes : list nat;
  f_shifts : list bool;      (* one per entry of f_axes *)
  f_sg : T;                  (* sign of THIS operator: -1 for '-', +1 for '+' *)
  f_hc : bool }.
Definition f_shape (c : ftcfg) : list nat := map a_n (f_grid c).
Definition f_rshape (c : ftcfg) : list nat :=
  if f_hc c then hc_shape (f_shape c) (f_axes c) else f_shape c.

Fixpoint pre_facs (g : list axis) (axes : list nat) (shifts : list bool) (sg : T)
  : list (nat * (nat -> cx)) :=
  match axes, shifts with
  | ax :: axes', sh :: shifts' =>
      (let n := a_n (nth ax g (mk_axis nzero nzero 0)) in (ax, tabulate n (pre_fac n sh sg)))
        :: pre_facs g axes' shifts' sg
  | _, _ => []
  end.
Fixpoint post_facs (g : list axis) (axes : list nat) (shifts : list bool) (lastax : nat) (hc : bool)
         (sg : T) (divide : bool) : list (nat * (nat -> cx)) :=
  match axes, shifts with
  | ax :: axes', sh :: shifts' =>
      (let a := nth ax g (mk_axis nzero nzero 0) in
       let half := hc && (ax =? lastax)%nat in
       (ax, tabulate (if half then a_n a / 2 + 1 else a_n a) (post_fac a sh half sg divide)))
        :: post_facs g axes' shifts' lastax hc sg divide
  | _, _ => []
  end.

(* FourierTransform._call_numpy: preprocess, (r)fftn [sign '+': ifftn * N], postprocess *)
Definition ft_forward (c : ftcfg) (x : list cx) : list cx :=
  let sh := f_shape c in
  let pre := tensor_mult sh (pre_facs (f_grid c) (f_axes c) (f_shifts c) (f_sg c)) x in
  let y := ftc_forward (f_sg c) (f_hc c) sh (f_axes c) pre in
  tensor_mult (f_rshape c)
              (post_facs (f_grid c) (f_axes c) (f_shifts c) (last_axis (f_axes c)) (f_hc c) (f_sg c) false) y.

(* FourierTransformInverse._call_numpy (c describes the inverse operator: f_sg is ITS sign,
   f_grid the real-space grid = its range): divide-postprocess, inverse DFT, preprocess;
   real range: real part *)
Definition ft_inverse (c : ftcfg) (real_range : bool) (y : list cx) : list cx :=
  let sh := f_shape c in
  let pre := tensor_mult (f_rshape c)
               (post_facs (f_grid c) (f_axes c) (f_shifts c) (last_axis (f_axes c)) (f_hc c) (f_sg c) true) y in
  let x := ftc_inverse (f_sg c) (f_hc c) sh (f_axes c) pre in
  let r := tensor_mult sh (pre_facs (f_grid c) (f_axes c) (f_shifts c) (f_sg c)) x in
  if real_range then map cre r else r.
End Phases.

(* ---------------- which calls the code rejects ---------------- *)
Definition all_true (l : list bool) : bool := forallb (fun b => b) l.
(* DiscreteFourierTransformBase.__init__ with range=None builds
   uniform_discr([0..], shape-1, shape, nodes_on_bdry=True): a frequency-side axis with one
   point has zero extent, the cell volume is 0 and the weighting constructor raises *)
Definition dft_init_status (shape axes : list nat) (hc : bool) (default_range : bool) : status :=
  let rshape := if hc then hc_shape shape axes else shape in
  if default_range && existsb (fun n => (n =? 1)%nat) rshape then SValueErr else SOk.
(* VARIANT SWITCH.  One recorded defect of the current code is still open
   (findings/C18.json, ft-halfcomplex-unshifted-axis); ft_init_status takes a boolean
   v_hc_needs_all_shifts = "the constructor already rejects it", measured by the harness on the
   finding's repro input on every run, so that neither the defect nor its later repair breaks the
   correspondence.  The defects of the inverse DFT / real inverse FT recorded earlier were repaired
   in /repo (021ba38, cc7c4de, 22e4f07, a36e1cd, 1202362, b0c1ccf): every call of
   DiscreteFourierTransformInverse now succeeds, so it has no status function any more. *)
(* FourierTransformBase.__init__ *)
Definition ft_init_status (v_hc_needs_all_shifts : bool) (g : list axis) (axes : list nat)
           (shifts : list bool) (hc : bool) (sg_fwd_plus : bool) : status :=
  if hc && sg_fwd_plus then SValueErr
  else if hc && (if v_hc_needs_all_shifts then negb (all_true shifts) else negb (last shifts true))
       then SValueErr
  else if existsb (fun ax => (a_n (nth ax g (mk_axis nzero nzero 0)) <=? 1)%nat) axes then SValueErr
  else SOk.
(* what the CURRENT code does when called (see findings/C18.json):
   pyfftw=false: numpy back-end *)
Definition ft_forward_status (pyfftw real_dom hc : bool) (shifts : list bool) : status :=
  if pyfftw && real_dom && hc && negb (all_true shifts) then SOtherErr   (* assert is_real_dtype(preproc) *)
  else SOk.
Definition ft_inverse_status (real_dom hc : bool) (shifts : list bool) : status :=
  if real_dom && negb (all_true shifts) && hc
  then STypeErr  (* half-complex with an unshifted axis: complex factor into the real c2r output *)
  else SOk.
End Model.
