(* C18/ProofsHI.v -- the N-d inverse Haar transform is a right inverse of haar_nd (even chains),
   so the weighted adjoint identity needs no premise about W.inverse. *)
From Coq Require Import Reals Lra Lia List Arith Bool.
From Verif Require Import Base.Num Base.Vec Base.VecR Lib.Axis C18.Model C18.ModelH
  C18.ProofsAxis C18.ProofsFT C18.ProofsHC C18.ProofsH C18.ProofsHN.
Import ListNotations.
Local Open Scope R_scope.

(* ---------- map2 / rect ---------- *)
Lemma map2_length {A B C} (f : A -> B -> C) l m : length l = length m -> length (map2 f l m) = length l.
Proof. revert m; induction l as [|a l IH]; intros [|b m] H; cbn in *; try lia. rewrite IH; lia. Qed.

Lemma map2_rect (F : list R -> list R -> list R) r n n' (L L' : Rmat) :
  (forall u v, length u = n -> length v = n -> length (F u v) = n') ->
  rectR r n L -> rectR r n L' -> rectR r n' (map2 F L L').
Proof.
  intros HF. revert r L'; induction L as [|l L IH]; intros r [|l' L'] [Hl Hf] [Hl' Hf']; cbn [length] in *; subst r;
    try discriminate; cbn [map2]; [split; [reflexivity | constructor]|].
  inversion Hf as [|? ? H1 H2]; inversion Hf' as [|? ? H3 H4].
  destruct (IH (length L) L') as [E1 E2]; [split; [reflexivity|assumption] | split; [lia|assumption] |].
  split; [cbn [length]; lia | constructor; [apply HF; assumption | exact E2]].
Qed.

Lemma map_map2_l (S : list R -> list R) (F : list R -> list R -> list R) r n (L L' : Rmat) :
  (forall u v, length u = n -> length v = n -> S (F u v) = u) ->
  rectR r n L -> rectR r n L' -> map S (map2 F L L') = L.
Proof.
  intros HS. revert r L'; induction L as [|l L IH]; intros r [|l' L'] [Hl Hf] [Hl' Hf']; cbn [length] in *; subst r;
    try discriminate; cbn [map2 map]; [reflexivity|].
  inversion Hf as [|? ? H1 H2]; inversion Hf' as [|? ? H3 H4].
  rewrite HS by assumption. f_equal. apply (IH (length L) L'); split; first [reflexivity | assumption | lia].
Qed.
Lemma map_map2_r (D : list R -> list R) (F : list R -> list R -> list R) r n (L L' : Rmat) :
  (forall u v, length u = n -> length v = n -> D (F u v) = v) ->
  rectR r n L -> rectR r n L' -> map D (map2 F L L') = L'.
Proof.
  intros HS. revert r L'; induction L as [|l L IH]; intros r [|l' L'] [Hl Hf] [Hl' Hf']; cbn [length] in *; subst r;
    try discriminate; cbn [map2 map]; [reflexivity|].
  inversion Hf as [|? ? H1 H2]; inversion Hf' as [|? ? H3 H4].
  rewrite HS by assumption. f_equal. apply (IH (length L) L'); split; first [reflexivity | assumption | lia].
Qed.

(* ---------- along2 followed by along ---------- *)
Section Along2.
Variables (G : list R -> list R -> list R) (n inner n' : nat).
Hypothesis G_len : forall u v, length u = n -> length v = n -> length (G u v) = n'.

Lemma along_block2_length (bx byy : list R) : length bx = (inner * n)%nat -> length byy = (inner * n)%nat ->
  length (along_block2 n inner n' G bx byy) = (n' * inner)%nat.
Proof.
  intros Hx Hy. unfold along_block2. apply concat_rect_length. apply transp_rect.
  apply (map2_rect G inner n n'); [exact G_len | |]; apply transp_rect; apply chunks_rect; assumption.
Qed.

Lemma along_block2_split (F : list R -> list R) (p : nat) (pick : list R -> list R -> list R) (bx byy : list R) :
  (forall u v, length u = n -> length v = n -> F (G u v) = pick u v) ->
  (forall (Lx Ly : Rmat), rectR inner n Lx -> rectR inner n Ly -> map F (map2 G Lx Ly) = map2 pick Lx Ly) ->
  True.
Proof. trivial. Qed.

Lemma along_block_of_block2_l (S : list R -> list R) (bx byy : list R) :
  (forall u v, length u = n -> length v = n -> S (G u v) = u) ->
  length bx = (inner * n)%nat -> length byy = (inner * n)%nat ->
  along_block n' inner n S (along_block2 n inner n' G bx byy) = bx.
Proof.
  intros HS Hx Hy. unfold along_block, along_block2.
  set (Lx := transp inner (chunks inner n bx)). set (Ly := transp inner (chunks inner n byy)).
  assert (HLx : rectR inner n Lx) by (apply transp_rect, chunks_rect; exact Hx).
  assert (HLy : rectR inner n Ly) by (apply transp_rect, chunks_rect; exact Hy).
  assert (HL2 : rectR inner n' (map2 G Lx Ly)) by (apply (map2_rect G inner n n'); assumption).
  rewrite chunks_concat by (apply transp_rect; exact HL2).
  rewrite transp_transp by exact HL2.
  rewrite (map_map2_l S G inner n) by assumption.
  unfold Lx. rewrite transp_transp by (apply chunks_rect; exact Hx). apply concat_chunks. exact Hx.
Qed.
Lemma along_block_of_block2_r (D : list R -> list R) (bx byy : list R) :
  (forall u v, length u = n -> length v = n -> D (G u v) = v) ->
  length bx = (inner * n)%nat -> length byy = (inner * n)%nat ->
  along_block n' inner n D (along_block2 n inner n' G bx byy) = byy.
Proof.
  intros HS Hx Hy. unfold along_block, along_block2.
  set (Lx := transp inner (chunks inner n bx)). set (Ly := transp inner (chunks inner n byy)).
  assert (HLx : rectR inner n Lx) by (apply transp_rect, chunks_rect; exact Hx).
  assert (HLy : rectR inner n Ly) by (apply transp_rect, chunks_rect; exact Hy).
  assert (HL2 : rectR inner n' (map2 G Lx Ly)) by (apply (map2_rect G inner n n'); assumption).
  rewrite chunks_concat by (apply transp_rect; exact HL2).
  rewrite transp_transp by exact HL2.
  rewrite (map_map2_r D G inner n) by assumption.
  unfold Ly. rewrite transp_transp by (apply chunks_rect; exact Hy). apply concat_chunks. exact Hy.
Qed.

Variable outer : nat.
Lemma along2_length (x y : list R) : length x = (n * inner * outer)%nat -> length y = (n * inner * outer)%nat ->
  length (along2 outer n inner n' G x y) = (n' * inner * outer)%nat.
Proof.
  intros Hx Hy. unfold along2.
  rewrite (concat_rect_length outer (n' * inner)); [lia|].
  apply (map2_rect (along_block2 n inner n' G) outer (n * inner) (n' * inner)).
  - intros u v Hu Hv. apply along_block2_length; lia.
  - apply chunks_rect; exact Hx.
  - apply chunks_rect; exact Hy.
Qed.

Lemma along_of_along2_l (S : list R -> list R) (x y : list R) :
  (forall u v, length u = n -> length v = n -> S (G u v) = u) ->
  length x = (n * inner * outer)%nat -> length y = (n * inner * outer)%nat ->
  along outer n' inner n S (along2 outer n inner n' G x y) = x.
Proof.
  intros HS Hx Hy. unfold along, along2.
  set (Bx := chunks (n * inner) outer x). set (By := chunks (n * inner) outer y).
  assert (HBx : rectR outer (n * inner) Bx) by (apply chunks_rect; exact Hx).
  assert (HBy : rectR outer (n * inner) By) by (apply chunks_rect; exact Hy).
  assert (HB2 : rectR outer (n' * inner) (map2 (along_block2 n inner n' G) Bx By)).
  { apply (map2_rect _ outer (n * inner) (n' * inner)); try assumption.
    intros u v Hu Hv. apply along_block2_length; lia. }
  rewrite chunks_concat by exact HB2.
  rewrite (map_map2_l (along_block n' inner n S) (along_block2 n inner n' G) outer (n * inner)); try assumption.
  - apply concat_chunks. exact Hx.
  - intros u v Hu Hv. apply along_block_of_block2_l; [exact HS | lia | lia].
Qed.
Lemma along_of_along2_r (D : list R -> list R) (x y : list R) :
  (forall u v, length u = n -> length v = n -> D (G u v) = v) ->
  length x = (n * inner * outer)%nat -> length y = (n * inner * outer)%nat ->
  along outer n' inner n D (along2 outer n inner n' G x y) = y.
Proof.
  intros HS Hx Hy. unfold along, along2.
  set (Bx := chunks (n * inner) outer x). set (By := chunks (n * inner) outer y).
  assert (HBx : rectR outer (n * inner) Bx) by (apply chunks_rect; exact Hx).
  assert (HBy : rectR outer (n * inner) By) by (apply chunks_rect; exact Hy).
  assert (HB2 : rectR outer (n' * inner) (map2 (along_block2 n inner n' G) Bx By)).
  { apply (map2_rect _ outer (n * inner) (n' * inner)); try assumption.
    intros u v Hu Hv. apply along_block2_length; lia. }
  rewrite chunks_concat by exact HB2.
  rewrite (map_map2_r (along_block n' inner n D) (along_block2 n inner n' G) outer (n * inner)); try assumption.
  - apply concat_chunks. exact Hy.
  - intros u v Hu Hv. apply along_block_of_block2_r; [exact HS | lia | lia].
Qed.
End Along2.

(* ------------------------------------------------------------------ *)
Section HaarInv.
Variable r2 : R.
Hypothesis r2_sq : r2 * r2 = 2.

Lemma even_m n : Nat.even n = true -> (2 * ((n + 1) / 2) = n)%nat.
Proof. intros He. rewrite (even_half n He). apply even_double. exact He. Qed.

(* the line maps of one axis *)
Definition Gline (n : nat) (u v : list R) : list R := firstn n (ihaar_step r2 u v).

Lemma Gline_full n (u v : list R) : Nat.even n = true -> length u = ((n + 1) / 2)%nat -> length v = ((n + 1) / 2)%nat ->
  Gline n u v = ihaar_step r2 u v.
Proof.
  intros He Hu Hv. unfold Gline. rewrite <- (even_m n He) at 1. rewrite <- Hu.
  rewrite <- (ihaar_step_length r2 u v) by congruence. apply firstn_all.
Qed.
Lemma Gline_length n (u v : list R) : Nat.even n = true -> length u = ((n + 1) / 2)%nat -> length v = ((n + 1) / 2)%nat ->
  length (Gline n u v) = n.
Proof.
  intros He Hu Hv. rewrite Gline_full by assumption. rewrite ihaar_step_length by congruence.
  rewrite Hu. apply even_m. exact He.
Qed.
Lemma S_Gline n (u v : list R) : Nat.even n = true -> length u = ((n + 1) / 2)%nat -> length v = ((n + 1) / 2)%nat ->
  fst (haar_step r2 (Gline n u v)) = u.
Proof. intros He Hu Hv. rewrite Gline_full by assumption. rewrite (step_right_inv r2 r2_sq) by congruence. reflexivity. Qed.
Lemma D_Gline n (u v : list R) : Nat.even n = true -> length u = ((n + 1) / 2)%nat -> length v = ((n + 1) / 2)%nat ->
  snd (haar_step r2 (Gline n u v)) = v.
Proof. intros He Hu Hv. rewrite Gline_full by assumption. rewrite (step_right_inv r2 r2_sq) by congruence. reflexivity. Qed.

Lemma pow2_half k : (2 ^ S k / 2 = 2 ^ k)%nat.
Proof. cbn [Nat.pow]. rewrite Nat.mul_comm. apply Nat.div_mul. lia. Qed.

Definition wf_bands (shape axes : list nat) (bands : Rmat) : Prop :=
  length bands = (2 ^ length axes)%nat /\ Forall (fun b => length b = prodn (shape_after shape axes)) bands.

Lemma wf_bands_split shape ax rest (bands : Rmat) :
  wf_bands shape (ax :: rest) bands ->
  let shape' := set_nth shape ax ((nth ax shape 0%nat + 1) / 2) in
  let h := (length bands / 2)%nat in
  wf_bands shape' rest (firstn h bands) /\ wf_bands shape' rest (skipn h bands).
Proof.
  intros [Hl Hf] shape' h. cbn [length shape_after] in *. fold shape' in Hf.
  assert (Hh : h = (2 ^ length rest)%nat) by (unfold h; rewrite Hl; apply pow2_half).
  destruct (Forall_firstn_skipn _ h bands Hf) as [F1 F2].
  split; split; try assumption.
  - rewrite firstn_length, Hl, Hh. cbn [Nat.pow]. lia.
  - rewrite skipn_length, Hl, Hh. cbn [Nat.pow]. lia.
Qed.

Lemma istep_axes_length (axes : list nat) : forall (shape : list nat) (bands : Rmat),
  evens shape axes -> wf_bands shape axes bands ->
  length (istep_axes r2 shape axes bands) = prodn shape.
Proof.
  induction axes as [|ax rest IH]; intros shape bands Hev Hwf.
  - destruct Hwf as [Hl Hf]. cbn [length Nat.pow shape_after] in *.
    destruct bands as [|b [|b' bs]]; cbn [length] in Hl; try lia. cbn [istep_axes hd].
    inversion Hf; assumption.
  - cbn [evens] in Hev. destruct Hev as [Hax [He Hev]].
    destruct (wf_bands_split shape ax rest bands Hwf) as [W1 W2].
    cbn [istep_axes]. set (nn := nth ax shape 0%nat) in *. set (m := ((nn + 1) / 2)%nat) in *.
    set (shape' := set_nth shape ax m) in *.
    pose proof (IH shape' _ Hev W1) as L1. pose proof (IH shape' _ Hev W2) as L2.
    assert (Hp' : prodn shape' = (m * inner_of shape ax * prodn (firstn ax shape))%nat)
      by (unfold shape'; apply prodn_set_nth; exact Hax).
    rewrite (along2_length (Gline nn) m (inner_of shape ax) nn).
    + symmetry. apply prodn_split. exact Hax.
    + intros u v Hu Hv. apply Gline_length; assumption.
    + rewrite L1. exact Hp'.
    + rewrite L2. exact Hp'.
Qed.

(* one level: decomposing the reconstruction gives the sub-bands back *)
Lemma step_istep (axes : list nat) : forall (shape : list nat) (bands : Rmat),
  evens shape axes -> wf_bands shape axes bands ->
  fst (step_axes r2 shape axes (istep_axes r2 shape axes bands)) = bands.
Proof.
  induction axes as [|ax rest IH]; intros shape bands Hev Hwf.
  - destruct Hwf as [Hl Hf]. cbn [length Nat.pow] in Hl.
    destruct bands as [|b [|b' bs]]; cbn [length] in Hl; try lia. reflexivity.
  - pose proof Hev as Hev0. cbn [evens] in Hev. destruct Hev as [Hax [He Hev]].
    destruct (wf_bands_split shape ax rest bands Hwf) as [W1 W2].
    cbn [istep_axes step_axes fst snd]. set (nn := nth ax shape 0%nat) in *. set (m := ((nn + 1) / 2)%nat) in *.
    set (shape' := set_nth shape ax m) in *. set (h := (length bands / 2)%nat) in *.
    set (s := istep_axes r2 shape' rest (firstn h bands)). set (d := istep_axes r2 shape' rest (skipn h bands)).
    assert (Hp' : prodn shape' = (m * inner_of shape ax * prodn (firstn ax shape))%nat)
      by (unfold shape'; apply prodn_set_nth; exact Hax).
    assert (Ls : length s = (m * inner_of shape ax * prodn (firstn ax shape))%nat)
      by (unfold s; rewrite istep_axes_length by assumption; exact Hp').
    assert (Ld : length d = (m * inner_of shape ax * prodn (firstn ax shape))%nat)
      by (unfold d; rewrite istep_axes_length by assumption; exact Hp').
    unfold along_axT. fold nn.
    rewrite (along_of_along2_l (Gline nn) m (inner_of shape ax) nn); try assumption.
    2:{ intros u v Hu Hv. apply Gline_length; assumption. }
    2:{ intros u v Hu Hv. apply S_Gline; assumption. }
    rewrite (along_of_along2_r (Gline nn) m (inner_of shape ax) nn); try assumption.
    2:{ intros u v Hu Hv. apply Gline_length; assumption. }
    2:{ intros u v Hu Hv. apply D_Gline; assumption. }
    unfold s, d. rewrite !IH by assumption. apply firstn_skipn.
Qed.

Lemma pow2_pos k : (1 <= 2 ^ k)%nat.
Proof. pose proof (Nat.pow_nonzero 2 k ltac:(lia)). lia. Qed.

(* W (W^-1 c) = c for every coefficient vector: any dimension, axes list, level count (even chains) *)
Theorem ihaar_nd_right_inverse (axes : list nat) (L : nat) : forall (shape : list nat) (c : list R),
  even_chain_nd L shape axes -> length c = haar_nd_size L shape axes ->
  length (ihaar_nd r2 L shape axes c) = prodn shape /\
  haar_nd r2 L shape axes (ihaar_nd r2 L shape axes c) = c.
Proof.
  induction L as [|L IH]; intros shape c Hev Hc; [split; [exact Hc | reflexivity]|].
  cbn [even_chain_nd] in Hev. destruct Hev as [He Hev]. cbn [haar_nd_size] in Hc.
  cbn [ihaar_nd].
  set (sh' := shape_after shape axes) in *. set (B := prodn sh') in *.
  set (k := haar_nd_size L sh' axes) in *. set (K := (2 ^ length axes - 1)%nat) in *.
  set (c1 := firstn k c). set (rest := skipn k c).
  assert (Hc1 : length c1 = k) by (unfold c1; rewrite firstn_length; lia).
  assert (Hrest : length rest = (B * K)%nat) by (unfold rest; rewrite skipn_length; lia).
  destruct (IH sh' c1 Hev Hc1) as [La Ra].
  set (a := ihaar_nd r2 L sh' axes c1) in *.
  set (ds := chunks B K rest).
  assert (Hds : rectR K B ds) by (apply chunks_rect; exact Hrest).
  assert (Hwf : wf_bands shape axes (a :: ds)).
  { split.
    - cbn [length]. rewrite (proj1 Hds). unfold K. pose proof (pow2_pos (length axes)). lia.
    - constructor; [exact La | exact (proj2 Hds)]. }
  split; [apply istep_axes_length; assumption|].
  cbn [haar_nd].
  pose proof (step_istep axes shape (a :: ds) He Hwf) as E.
  pose proof (step_axes_wf r2 axes shape (istep_axes r2 shape axes (a :: ds)) He
                (istep_axes_length axes shape (a :: ds) He Hwf)) as [E1 _].
  rewrite E, E1. fold sh'. rewrite Ra. unfold ds. rewrite concat_chunks by exact Hrest.
  apply firstn_skipn.
Qed.
End HaarInv.

(* ---- with sqrt 2: the weighted adjoint identity, no premise about the inverse ---- *)
Definition ihaar_nd_right_inverse_sqrt2 := ihaar_nd_right_inverse (sqrt 2) sqrt2_sq.

Lemma haar_nd_weighted_adjoint_full (L : nat) (shape axes : list nat) (sides : list R) (x c : list R) :
  even_chain_nd L shape axes -> cell_volume sides <> 0 ->
  length x = prodn shape -> length c = haar_nd_size L shape axes ->
  dot (haar_nd (sqrt 2) L shape axes x) c
  = inner_dom sides x (vscal (1 / cell_volume sides) (ihaar_nd (sqrt 2) L shape axes c)).
Proof.
  intros Hev Hv Hx Hc.
  apply (weighted_adjoint (haar_nd (sqrt 2) L shape axes) (ihaar_nd (sqrt 2) L shape axes)
           (fun z => length z = prodn shape) (fun z => length z = haar_nd_size L shape axes)); try assumption.
  - intros a b Ha Hb. apply haar_nd_parseval_sqrt2; assumption.
  - intros c' Hc'. apply ihaar_nd_right_inverse_sqrt2; assumption.
Qed.

Lemma haar_nd_adjoint_scale_full (L : nat) (shape axes : list nat) (sides : list R) (s : R) (x c : list R) :
  even_chain_nd L shape axes -> cell_volume sides <> 0 ->
  length x = prodn shape -> length c = haar_nd_size L shape axes ->
  dot (haar_nd (sqrt 2) L shape axes x) c <> 0 ->
  dot (haar_nd (sqrt 2) L shape axes x) c = inner_dom sides x (vscal s (ihaar_nd (sqrt 2) L shape axes c)) ->
  s = 1 / cell_volume sides.
Proof.
  intros Hev Hv Hx Hc Hnz E.
  apply (weighted_adjoint_scale_unique (haar_nd (sqrt 2) L shape axes) (ihaar_nd (sqrt 2) L shape axes)
           (fun z => length z = prodn shape) (fun z => length z = haar_nd_size L shape axes))
    with (x := x) (c := c); try assumption.
  - intros a b Ha Hb. apply haar_nd_parseval_sqrt2; assumption.
  - intros c' Hc'. apply ihaar_nd_right_inverse_sqrt2; assumption.
Qed.
