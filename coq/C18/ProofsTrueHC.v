(* C18/ProofsTrueHC.v -- real-space and half-complex round trips with the true constants. *)
From Coq Require Import ZArith Reals Lra Lia List Bool Arith.
From Verif Require Import Base.Num Lib.Axis Gen.FtFormulas C18.Model C18.ProofsGrid C18.ProofsDFT C18.ProofsCx C18.ProofsFT
  C18.ProofsTrue C18.ProofsHC.
Import ListNotations.
Local Open Scope R_scope.

Lemma cis_true_conj a : cconj (cis_true a) = cis_true (- a).
Proof.
  unfold cis_true, cconj. cbn [fst snd]. numR.
  replace (PI * - a) with (- (PI * a)) by lra. rewrite cos_neg, sin_neg. reflexivity.
Qed.

Lemma recip_n_le (a : Raxis) sh half : (a_n (recip_axis 1%R a (Some sh) half) <= a_n a)%nat \/ (a_n a = 0)%nat.
Proof.
  rewrite recip_n. destruct half; [|left; lia].
  pose proof (Nat.div_mod_eq (a_n a) 2). pose proof (Nat.mod_upper_bound (a_n a) 2 ltac:(lia)).
  destruct (a_n a) as [|[|m]] eqn:E; [right; reflexivity | left; cbn; lia | left; lia].
Qed.

Lemma freq_range_gen (a : Raxis) sh half k : (2 <= a_n a)%nat -> stride a <> 0 ->
  (k < a_n (recip_axis 1%R a (Some sh) half))%nat ->
  -1 / 2 <= freq (a_n a) (a_n (recip_axis 1%R a (Some sh) half)) sh k <= 1 / 2.
Proof.
  intros Hn Hs Hk.
  rewrite (freq_is_normalised_xi 1 a sh half k) by (try assumption; lra).
  rewrite recip_coord by assumption.
  destruct (recip_n_le a sh half) as [Hle|H0]; [|lia].
  set (n := a_n a) in *. set (s := stride a) in *.
  assert (Hn2 : 2 <= INR n) by (change 2 with (INR 2); apply le_INR; exact Hn).
  assert (Hk0 : 0 <= INR k) by apply pos_INR.
  assert (Hk1 : INR k <= INR n - 1).
  { replace (INR n - 1) with (INR (n - 1)) by (rewrite minus_INR by lia; simpl; lra). apply le_INR. lia. }
  assert (Hn0 : 0 < INR n) by lra.
  assert (E : forall c, (INR k - c) * (2 * 1 / (INR n * s)) * s / (2 * 1) = (INR k - c) / INR n)
    by (intros; field; split; lra).
  assert (Hdiv : forall y, y / INR n * INR n = y) by (intros; field; lra).
  rewrite E. destruct sh; split; apply (Rmult_le_reg_r (INR n)); try exact Hn0; rewrite Hdiv; lra.
Qed.

Lemma kernel_true_nz_gen (a : Raxis) sh half k : (2 <= a_n a)%nat -> stride a <> 0 ->
  (k < a_n (recip_axis 1%R a (Some sh) half))%nat ->
  kernel PI (sqrt (2 * PI)) cis_true (stride a) (freq (a_n a) (a_n (recip_axis 1%R a (Some sh) half)) sh k) <> 0.
Proof.
  intros Hn Hs Hk. unfold kernel, pp_kernel. numR.
  pose proof (sinc_true_nz _ (freq_range_gen a sh half k Hn Hs Hk)) as Hsn.
  pose proof sqrt_2pi_pos as Hq.
  unfold Rdiv. repeat apply Rmult_integral_contrapositive_currified; try assumption.
  apply Rinv_neq_0_compat. lra.
Qed.

(* FourierTransform on a REAL space, half-complex or not: the inverse recovers the input whenever
   the calls are ones the code can execute at all (see ft_inverse_status): all axes shifted if
   half-complex. *)
Theorem ft_roundtrip_real_true (g : list Raxis) (axes : list nat) (shifts : list bool) (hc : bool) (sg : R)
    (x : list Cx) :
  sg = 1 \/ sg = -1 -> (hc = true -> sg = -1) ->
  axes <> [] -> length shifts = length axes ->
  (hc = true -> all_true shifts = true) ->
  (forall ax, In ax axes -> (ax < length g)%nat /\ (2 <= a_n (nth ax g dax))%nat /\ stride (nth ax g dax) <> 0) ->
  length x = prodn (map a_n g) -> Forall is_real x ->
  ft_inverse PI (sqrt (2 * PI)) cis_true (mk_ft g axes shifts (- sg) hc) true
             (ft_forward PI (sqrt (2 * PI)) cis_true (mk_ft g axes shifts sg hc) x) = x.
Proof.
  intros Hs Hsg Hne Hls Hall Hax Hx Hreal.
  apply (ft_roundtrip_real cis_true cis_true_add cis_true_0 cis_true_2 cis_true_prim cis_true_conj);
    try assumption.
  - intros ax Hin. destruct (Hax ax Hin) as [H1 [H2 _]]. split; [exact H1 | lia].
  - intros ax sh k Hin Hk a. destruct (Hax ax Hin) as [H1 [H2 H3]].
    apply kernel_true_nz_gen; try assumption.
    rewrite recip_n. fold a.
    (* the bound on k is the frequency-side length of this axis *)
    assert (Hlast : In (last_axis axes) axes) by (apply last_in; exact Hne).
    assert (Hlt : forall ax', In ax' axes -> (ax' < length (map a_n g))%nat)
      by (intros ax' Hin'; rewrite map_length; apply Hax; exact Hin').
    assert (Hnth : forall d, nth ax (map a_n g) d = a_n a).
    { intros d. rewrite (nth_indep _ d (a_n dax)) by (rewrite map_length; exact H1).
      rewrite (map_nth a_n). reflexivity. }
    destruct hc; cbn [andb] in *.
    + unfold hc_shape in Hk. destruct (Nat.eqb_spec ax (last_axis axes)) as [E|E].
      * rewrite E in Hk. rewrite nth_set_nth in Hk by (apply Hlt; exact Hlast).
        rewrite <- E in Hk. rewrite Hnth in Hk. exact Hk.
      * rewrite nth_set_nth_other in Hk by (try assumption; apply Hlt; exact Hlast).
        rewrite Hnth in Hk. exact Hk.
    + rewrite Hnth in Hk. exact Hk.
Qed.

Theorem dft_hc_roundtrip_true (shape axes : list nat) (x : list Cx) :
  axes <> [] -> (forall ax, In ax axes -> (ax < length shape)%nat) ->
  (1 <= nth (last_axis axes) shape 0%nat)%nat -> length x = prodn shape -> Forall is_real x ->
  dft_inverse cis_true 1 true shape axes (dft_forward cis_true (-1) true shape axes x) = x.
Proof.
  intros.
  rewrite (dft_forward_unfold cis_true) by (right; reflexivity).
  rewrite (dft_inverse_unfold cis_true) by (left; reflexivity).
  apply (irfftn_rfftn cis_true cis_true_add cis_true_0 cis_true_2 cis_true_prim cis_true_conj); assumption.
Qed.

Theorem rfft_roundtrip_true (x : list Cx) : Forall is_real x ->
  irfft1 cis_true (length x) (rfft1 cis_true x) = x.
Proof. apply (irfft1_rfft1 cis_true cis_true_add cis_true_0 cis_true_2 cis_true_prim cis_true_conj). Qed.

(* ---- what the status functions (validated against the code) say on the open finding's input ---- *)
Lemma ft_hc_unshifted_status :
  exists (shifts : list bool),
    @ft_init_status R _ false [mk_axis 0 3 4; mk_axis 0 4 5] [0; 1]%nat shifts true false = SOk
    /\ ft_inverse_status true true shifts = STypeErr
    /\ ft_forward_status true true true shifts = SOtherErr.
Proof. exists [false; true]. repeat split; reflexivity. Qed.
