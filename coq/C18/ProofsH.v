(* C18/ProofsH.v -- Haar/periodization: perfect reconstruction for every length and level count;
   orthogonality and the adjoint identity exactly when every level length is even. *)
From Coq Require Import Reals Lra Lia List Arith Bool.
From Verif Require Import Base.Num Base.Vec Base.VecR C18.ModelH.
Import ListNotations.
Local Open Scope R_scope.

Section HaarR.
Variable r2 : R.
Hypothesis r2_sq : r2 * r2 = 2.

Lemma r2_nz : r2 <> 0.
Proof. intro E. rewrite E in r2_sq. lra. Qed.

Lemma half_sum a b : ((a + b) / r2 + (a - b) / r2) / r2 = a.
Proof.
  pose proof r2_nz. replace (((a + b) / r2 + (a - b) / r2) / r2) with (2 * a / (r2 * r2)) by (field; assumption).
  rewrite r2_sq. field.
Qed.
Lemma half_diff a b : ((a + b) / r2 - (a - b) / r2) / r2 = b.
Proof.
  pose proof r2_nz. replace (((a + b) / r2 - (a - b) / r2) / r2) with (2 * b / (r2 * r2)) by (field; assumption).
  rewrite r2_sq. field.
Qed.

(* induction two elements at a time *)
Lemma list_ind2 (P : list R -> Prop) :
  P [] -> (forall a, P [a]) -> (forall a b l, P l -> P (a :: b :: l)) -> forall l, P l.
Proof.
  intros H0 H1 H2. fix IH 1. intros [|a [|b l]]; [exact H0 | apply H1 | apply H2, IH].
Qed.

Lemma haar_step_cons2 a b (x : list R) :
  haar_step r2 (a :: b :: x) =
  ((a + b) / r2 :: fst (haar_step r2 x), (a - b) / r2 :: snd (haar_step r2 x)).
Proof. reflexivity. Qed.

Lemma haar_step_lengths (x : list R) :
  length (fst (haar_step r2 x)) = ((length x + 1) / 2)%nat /\
  length (snd (haar_step r2 x)) = ((length x + 1) / 2)%nat.
Proof.
  induction x as [| a | a b l [IH1 IH2]] using list_ind2; [split; reflexivity | split; reflexivity |].
  rewrite haar_step_cons2. cbn [fst snd length]. rewrite IH1, IH2.
  replace (S (S (length l)) + 1)%nat with (length l + 1 + 1 * 2)%nat by lia.
  rewrite Nat.div_add by lia. split; lia.
Qed.

(* one level: reconstruction, cropped to the original length *)
Lemma step_inv (x : list R) :
  firstn (length x) (ihaar_step r2 (fst (haar_step r2 x)) (snd (haar_step r2 x))) = x.
Proof.
  induction x as [| a | a b l IH] using list_ind2; [reflexivity | |].
  - cbn. numR. rewrite half_sum. reflexivity.
  - rewrite haar_step_cons2. cbn [fst snd ihaar_step length firstn]. numR.
    rewrite half_sum, half_diff, IH. reflexivity.
Qed.

(* W.inverse(W(x)) = x: every length (odd lengths at any level included), every level count *)
Theorem ihaar_haar (L : nat) : forall x : list R, ihaar r2 L (length x) (haar r2 L x) = x.
Proof.
  induction L as [|L IH]; intros x; [reflexivity|].
  cbn [haar ihaar]. destruct (haar_step_lengths x) as [Hs Hd].
  set (s := fst (haar_step r2 x)) in *. set (d := snd (haar_step r2 x)) in *.
  rewrite app_length, Hd. replace (length (haar r2 L s) + (length x + 1) / 2 - (length x + 1) / 2)%nat
    with (length (haar r2 L s)) by lia.
  rewrite firstn_app, Nat.sub_diag, firstn_O, app_nil_r, firstn_all.
  rewrite skipn_app, Nat.sub_diag, skipn_all. cbn [skipn app].
  rewrite <- Hs, IH. apply step_inv.
Qed.

(* ---------- even levels: orthogonality ---------- *)
Lemma dot_app (u u' v v' : list R) : length u = length u' ->
  dot (u ++ v) (u' ++ v') = dot u u' + dot v v'.
Proof.
  revert u'; induction u as [|a u IH]; intros [|a' u'] Hl; cbn [length] in Hl; try lia; cbn [app].
  - unfold dot at 2. cbn. numR. lra.
  - rewrite !dot_cons, IH by lia. lra.
Qed.

Lemma even_length_ind (P : list R -> list R -> Prop) :
  P [] [] -> (forall a b l a' b' l', P l l' -> P (a :: b :: l) (a' :: b' :: l')) ->
  forall l l', length l = length l' -> Nat.even (length l) = true -> P l l'.
Proof.
  intros H0 H2. fix IH 1. intros [|a [|b l]] [|a' [|b' l']] Hl He; cbn in Hl, He; try lia; try discriminate.
  - exact H0.
  - apply H2, IH; [lia | exact He].
Qed.

Lemma step_parseval (x y : list R) : length x = length y -> Nat.even (length x) = true ->
  dot (fst (haar_step r2 x)) (fst (haar_step r2 y)) + dot (snd (haar_step r2 x)) (snd (haar_step r2 y))
  = dot x y.
Proof.
  intros Hl He. revert x y Hl He.
  apply (even_length_ind (fun x y =>
    dot (fst (haar_step r2 x)) (fst (haar_step r2 y)) + dot (snd (haar_step r2 x)) (snd (haar_step r2 y)) = dot x y)).
  - cbn. unfold dot. cbn. numR. lra.
  - intros a b l a' b' l' IH. rewrite !haar_step_cons2. cbn [fst snd]. rewrite !dot_cons. numR.
    pose proof r2_nz.
    replace ((a + b) / r2 * ((a' + b') / r2)) with ((a + b) * (a' + b') / (r2 * r2)) by (field; assumption).
    replace ((a - b) / r2 * ((a' - b') / r2)) with ((a - b) * (a' - b') / (r2 * r2)) by (field; assumption).
    rewrite r2_sq. lra.
Qed.

Lemma even_half n : Nat.even n = true -> ((n + 1) / 2 = n / 2)%nat.
Proof.
  intros He. apply Nat.even_spec in He as [m ->].
  replace (2 * m + 1)%nat with (1 + m * 2)%nat by lia. rewrite Nat.div_add by lia.
  replace (2 * m)%nat with (0 + m * 2)%nat by lia. rewrite Nat.div_add by lia. reflexivity.
Qed.

(* <W x, W y> = <x, y> when every level length is even *)
Theorem haar_parseval (L : nat) : forall x y : list R, length x = length y ->
  even_chain L (length x) -> dot (haar r2 L x) (haar r2 L y) = dot x y.
Proof.
  induction L as [|L IH]; intros x y Hl Hev; [reflexivity|].
  cbn [even_chain] in Hev. destruct Hev as [He Hev].
  cbn [haar]. destruct (haar_step_lengths x) as [Hsx Hdx]. destruct (haar_step_lengths y) as [Hsy Hdy].
  rewrite dot_app.
  - rewrite IH; [apply step_parseval; assumption | congruence |].
    rewrite Hsx, even_half by exact He. exact Hev.
  - clear IH. revert x y Hl Hev He Hsx Hdx Hsy Hdy. intros.
    (* lengths of the flat coefficient vectors of the approximations agree *)
    assert (Hgen : forall L' (u v : list R), length u = length v -> length (haar r2 L' u) = length (haar r2 L' v)).
    { induction L' as [|L' IHL]; intros u v Huv; [exact Huv|]. cbn [haar]. rewrite !app_length.
      destruct (haar_step_lengths u) as [Hu1 Hu2]. destruct (haar_step_lengths v) as [Hv1 Hv2].
      rewrite (IHL _ (fst (haar_step r2 v))) by congruence. congruence. }
    apply Hgen. congruence.
Qed.

(* ---------- even levels: W (W^-1 c) = c ---------- *)
Lemma step_right_inv (s d : list R) : length s = length d ->
  haar_step r2 (ihaar_step r2 s d) = (s, d).
Proof.
  revert d; induction s as [|a s IH]; intros [|b d] Hl; cbn [length] in Hl; try lia; [reflexivity|].
  cbn [ihaar_step]. rewrite haar_step_cons2, IH by lia. cbn [fst snd]. numR.
  rewrite half_sum, half_diff. reflexivity.
Qed.
Lemma ihaar_step_length (s d : list R) : length s = length d -> length (ihaar_step r2 s d) = (2 * length s)%nat.
Proof.
  revert d; induction s as [|a s IH]; intros [|b d] Hl; cbn [length] in Hl; try lia; [reflexivity|].
  cbn [ihaar_step length]. rewrite IH by lia. lia.
Qed.

Lemma even_double n : Nat.even n = true -> (2 * (n / 2) = n)%nat.
Proof. intros He. apply Nat.even_spec in He as [m ->]. rewrite (Nat.mul_comm 2 m), Nat.div_mul by lia. lia. Qed.

Lemma ihaar_length_and_right_inv (L : nat) : forall n (c : list R), length c = n -> even_chain L n ->
  length (ihaar r2 L n c) = n /\ haar r2 L (ihaar r2 L n c) = c.
Proof.
  induction L as [|L IH]; intros n c Hc Hev; [split; [exact Hc | reflexivity]|].
  cbn [even_chain] in Hev. destruct Hev as [He Hev].
  cbn [ihaar haar]. rewrite even_half by exact He. set (m := (n / 2)%nat) in *.
  assert (Hn : (2 * m = n)%nat) by (apply even_double; exact He).
  rewrite Hc. replace (n - m)%nat with m by lia.
  set (c1 := firstn m c). set (c2 := skipn m c).
  assert (Hc1 : length c1 = m) by (unfold c1; rewrite firstn_length; lia).
  assert (Hc2 : length c2 = m) by (unfold c2; rewrite skipn_length; lia).
  destruct (IH m c1 Hc1 Hev) as [Hl1 Hr1].
  assert (Hlen : length (ihaar_step r2 (ihaar r2 L m c1) c2) = n)
    by (rewrite ihaar_step_length by congruence; lia).
  assert (Hf : firstn n (ihaar_step r2 (ihaar r2 L m c1) c2) = ihaar_step r2 (ihaar r2 L m c1) c2)
    by (rewrite <- Hlen; apply firstn_all).
  rewrite Hf. split; [exact Hlen|].
  rewrite step_right_inv by congruence. cbn [fst snd]. rewrite Hr1.
  apply firstn_skipn.
Qed.

(* the adjoint identity with ODL's scaling: <W x, c> = cv * <x, (1/cv) W^-1 c> *)
Theorem haar_adjoint (L : nat) (x c : list R) (cv : R) : cv <> 0 ->
  length c = length x -> even_chain L (length x) ->
  dot (haar r2 L x) c = cv * dot x (vscal (1 / cv) (ihaar r2 L (length x) c)).
Proof.
  intros Hcv Hc Hev.
  destruct (ihaar_length_and_right_inv L (length x) c Hc Hev) as [Hl Hr].
  rewrite <- Hr at 1. rewrite haar_parseval by (try assumption; congruence).
  rewrite (dot_comm x (vscal _ _)), dot_vscal_l, (dot_comm _ x). field. exact Hcv.
Qed.
(* with an odd length the scaled inverse is NOT the adjoint (finding
   wavelet-adjoint-periodization-odd-length): x = [1], c = W x *)
Lemma haar_adjoint_odd_refuted :
  exists (x c : list R), dot (haar r2 1 x) c <> 1 * dot x (vscal (1 / 1) (ihaar r2 1 (length x) c)).
Proof.
  exists [1], (haar r2 1 [1]). cbn [haar haar_step fst snd app length ihaar Nat.add Nat.div Nat.divmod Nat.sub
                               firstn skipn ihaar_step vscal map].
  unfold dot, vmul. cbn [vmap2 sumf]. numR. pose proof r2_nz as Hnz.
  intro E.
  assert (E1 : (1 + 1) / r2 * ((1 + 1) / r2) = 4 / (r2 * r2)) by (field; assumption).
  assert (E2 : ((1 + 1) / r2 + (1 - 1) / r2) / r2 = 2 / (r2 * r2)) by (field; assumption).
  assert (E3 : (1 - 1) / r2 * ((1 - 1) / r2) = 0) by (field; assumption).
  rewrite r2_sq in E1, E2.
  cbn in E. numR. rewrite E1, E3, E2 in E. lra.
Qed.
End HaarR.

(* the hypothesis r2 * r2 = 2 is satisfied by sqrt 2 *)
Lemma sqrt2_sq : sqrt 2 * sqrt 2 = 2.
Proof. apply sqrt_sqrt. lra. Qed.
Definition ihaar_haar_sqrt2 := ihaar_haar (sqrt 2) sqrt2_sq.
Definition haar_adjoint_sqrt2 := haar_adjoint (sqrt 2) sqrt2_sq.
Definition haar_parseval_sqrt2 := haar_parseval (sqrt 2) sqrt2_sq.
Definition haar_adjoint_odd_refuted_sqrt2 := haar_adjoint_odd_refuted (sqrt 2) sqrt2_sq.
