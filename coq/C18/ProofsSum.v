(* C18/ProofsSum.v -- phase correctness: on one axis the continuous transform of the model IS
   the kernel-weighted defining sum  kernel_k * sum_j x_j exp(sg i (x0 + j s) xi_k)
   for every length, parity, shift choice and sign. *)
From Coq Require Import ZArith Reals Lra Lia List Bool Arith.
From Verif Require Import Base.Num Lib.Axis Gen.FtFormulas C18.Model C18.ProofsGrid C18.ProofsDFT C18.ProofsCx C18.ProofsAxis C18.ProofsFT.
Import ListNotations.
Local Open Scope R_scope.

(* ---------- a 1-d array: "along the only axis" is the line map itself ---------- *)
Section OneD.
Context {A : Type}.
Lemma chunks_one (x : list A) : chunks 1 (length x) x = map (fun a => [a]) x.
Proof. induction x as [|a x IH]; cbn [chunks length map]; [reflexivity|]. cbn [firstn skipn]. rewrite IH. reflexivity. Qed.
Lemma transp_one_col (x : list A) : transp 1 (map (fun a => [a]) x) = [x].
Proof. induction x as [|a x IH]; cbn [map transp]; [reflexivity|]. rewrite IH. reflexivity. Qed.
Lemma transp_one_row (y : list A) : transp (length y) [y] = map (fun a => [a]) y.
Proof.
  cbn [transp]. induction y as [|a y IH]; cbn [length repeat zipcons map]; [reflexivity|]. rewrite IH. reflexivity.
Qed.
Lemma concat_singletons (y : list A) : concat (map (fun a => [a]) y) = y.
Proof. induction y as [|a y IH]; cbn [map concat app]; [reflexivity|]. rewrite IH. reflexivity. Qed.

Lemma along_1d (F : list A -> list A) (x : list A) n' : length (F x) = n' ->
  along 1 (length x) 1 n' F x = F x.
Proof.
  intros HF. unfold along. rewrite Nat.mul_1_r. cbn [chunks map concat]. rewrite app_nil_r.
  rewrite firstn_all. unfold along_block.
  rewrite chunks_one, transp_one_col. cbn [map]. rewrite <- HF, transp_one_row. apply concat_singletons.
Qed.
End OneD.

Section DefSum.
Variable cispi : R -> Cx.
Hypothesis cis_add : forall a b, cispi (a + b) = cmul (cispi a) (cispi b).
Hypothesis cis_0 : cispi 0 = c1.
Hypothesis cis_2 : cispi 2 = c1.
Hypothesis cis_prim : forall r, 0 < r < 2 -> cispi r <> c1.
Variables (pi sq2pi : R).

Notation csum := (rsum (@c0 R _) cadd).

(* exp(i pi) = -1 follows from the laws *)
Lemma cis_1 : cispi 1 = cscal (-1) c1.
Proof.
  assert (H : cmul (cispi 1) (cispi 1) = c1) by (rewrite <- cis_add; replace (1 + 1) with 2 by lra; exact cis_2).
  assert (Hne : cispi 1 <> c1) by (apply cis_prim; lra).
  destruct (cispi 1) as [a b] eqn:E. cx_simpl. injection H as H1 H2.
  (* (a+ib)^2 = 1: b (2a) = 0 and a^2 - b^2 = 1 *)
  assert (Hab : a * b = 0) by lra.
  assert (Hb : b = 0).
  { apply Rmult_integral in Hab as [Ha0|Hb0]; [|exact Hb0]. subst a. pose proof (Rle_0_sqr b) as Hq.
    unfold Rsqr in Hq. lra. }
  subst b.
  assert (Ha : a = 1 \/ a = -1).
  { assert (Hf : (a - 1) * (a + 1) = 0) by lra. apply Rmult_integral in Hf as [Hf|Hf]; [left|right]; lra. }
  destruct Ha as [-> | ->]; [exfalso; apply Hne; reflexivity|]. apply cx_eq; cbn [fst snd]; lra.
Qed.
Lemma cis_m1 : cispi (-1) = cscal (-1) c1.
Proof.
  assert (H : cmul (cispi 1) (cispi (-1)) = c1) by (rewrite <- cis_add; replace (1 + -1) with 0 by lra; exact cis_0).
  rewrite cis_1 in H.
  destruct (cispi (-1)) as [a b]. cx_simpl. injection H as H1 H2. apply cx_eq; cbn [fst snd]; lra.
Qed.
Lemma cis_int_sign n sg j : is_sign sg -> cispi (- sg * INR j) = pre_fac cispi n true sg j.
Proof.
  intros Hs. unfold pre_fac. induction j as [|j IH].
  - simpl (INR 0). replace (- sg * 0) with 0 by lra. rewrite cis_0. cbn [Nat.even]. unfold of_re; genR. reflexivity.
  - rewrite S_INR. replace (- sg * (INR j + 1)) with (- sg * INR j + - sg) by lra.
    rewrite cis_add, IH. rewrite Nat.even_succ, <- Nat.negb_even.
    assert (Hm : cispi (- sg) = cscal (-1) c1).
    { destruct Hs as [-> | ->]; [exact cis_m1 | replace (- -1) with 1 by lra; exact cis_1]. }
    rewrite Hm. destruct (Nat.even j); cbn [negb]; unfold of_re; genR; cx_simpl; apply cx_eq; cbn [fst snd]; lra.
Qed.

(* the three phase factors multiply to the phase of the defining sum *)
Lemma phase_product (a : Raxis) (sh half : bool) (sg : R) (j k : nat) : is_sign sg ->
  (2 <= a_n a)%nat -> stride a <> 0 ->
  cmul (cmul (pre_fac cispi (a_n a) sh sg j) (tw_tab cispi sg (a_n a) (j * k)))
       (cispi (sg * a_min a * coord (recip_axis 1 a (Some sh) half) k))
  = cispi (sg * (a_min a + INR j * stride a) * coord (recip_axis 1 a (Some sh) half) k).
Proof.
  intros Hs Hn Hst.
  rewrite (tw_tab_root cispi cis_add cis_0 cis_2) by (try assumption; lia).
  unfold root. rewrite <- (cis_nat_mul cispi cis_add cis_0).
  rewrite recip_coord by assumption.
  set (n := a_n a) in *. set (s := stride a) in *. set (x0 := a_min a).
  assert (Hn0 : 0 < INR n) by (apply INR_pos_ge1; lia).
  rewrite mult_INR.
  unfold pre_fac. destruct sh.
  - fold (pre_fac cispi n true sg j). rewrite <- (cis_int_sign n sg j Hs). rewrite <- !cis_add. f_equal. field. split; lra.
  - genR. rewrite <- !cis_add. f_equal. field. split; lra.
Qed.

Lemma cscal_cmul_r (r : R) (a b : Cx) : cmul a (cscal r b) = cscal r (cmul a b).
Proof. destruct a, b. cx_simpl. apply cx_eq; cbn [fst snd]; lra. Qed.

Lemma axis_index_1d n i : (i < n)%nat -> axis_index [n] 0 i = i.
Proof.
  intros Hi. unfold axis_index, inner_of. cbn [skipn prodn fold_right nth].
  rewrite Nat.div_1_r. apply Nat.mod_small. exact Hi.
Qed.

Theorem ft_is_defining_sum (a : Raxis) (sh : bool) (sg : R) (x : list Cx) (k : nat) :
  is_sign sg -> (2 <= a_n a)%nat -> stride a <> 0 -> length x = a_n a -> (k < a_n a)%nat ->
  nth k (ft_forward pi sq2pi cispi (mk_ft [a] [0%nat] [sh] sg false) x) c0 =
  cscal (kernel pi sq2pi cispi (stride a) (freq (a_n a) (a_n a) sh k))
        (csum (fun j => cmul (nth j x c0)
                             (cispi (sg * (a_min a + INR j * stride a) * coord (recip_axis 1 a (Some sh) false) k)))
              (a_n a)).
Proof.
  intros Hs Hn Hst Hx Hk.
  set (n := a_n a) in *.
  unfold ft_forward, f_rshape, f_shape. rewrite (ftc_forward_unfold cispi) by exact Hs.
  cbn [f_grid f_axes f_shifts f_sg f_hc map].
  fold n. cbn [pre_facs post_facs nth last_axis last andb]. fold n.
  set (pre := tensor_mult [n] [(0%nat, tabulate n (pre_fac cispi n sh sg))] x).
  assert (Hpre : length pre = n) by (unfold pre; rewrite tensor_mult_length; exact Hx).
  (* the 1-d DFT pass *)
  assert (Hd : dftn cispi sg [n] [0%nat] pre = dft1 cispi sg pre).
  { unfold dftn. cbn [fold_right]. unfold along_ax, inner_of. cbn [firstn skipn prodn fold_right nth].
    rewrite <- Hpre at 1. rewrite along_1d by (rewrite dft1n_length; exact Hpre).
    apply dft1n_eq. exact Hpre. }
  rewrite Hd.
  rewrite tensor_mult_nth by (rewrite (dft1_length cispi); lia).
  cbn [tensor_fac]. rewrite axis_index_1d by exact Hk. rewrite cmul_1_r.
  rewrite tabulate_nth by exact Hk.
  unfold dft1. rewrite (dft_gen_nth Cx c0 cadd cmul) by lia. rewrite Hpre.
  unfold post_fac, pp_arg, rg_half_n. cbv zeta. cbn [a_n recip_axis]. fold n.
  rewrite cscal_cmul_r. f_equal.
  rewrite <- (sum_scal_r Cx c0 c1 cadd cmul csub copp cx_ring).
  apply (sum_ext Cx c0 cadd). intros j Hj.
  unfold pre. rewrite tensor_mult_nth by lia. cbn [tensor_fac]. rewrite axis_index_1d by exact Hj.
  rewrite cmul_1_r, tabulate_nth by exact Hj.
  rewrite !cmul_assoc. f_equal.
  rewrite <- cmul_assoc. apply (phase_product a sh false sg j k Hs Hn Hst).
Qed.

Lemma nth_firstn {A} (l : list A) m k d : (k < m)%nat -> nth k (firstn m l) d = nth k l d.
Proof.
  revert m k; induction l as [|a l IH]; intros [|m] [|k] H; cbn [firstn nth]; try lia; try reflexivity.
  apply IH. lia.
Qed.

(* the same for the half-complex transform of a REAL line (all-shifted, sign '-'): entries
   k = 0 .. n/2 of the half spectrum *)
Theorem ft_is_defining_sum_hc (a : Raxis) (x : list Cx) (k : nat) :
  (2 <= a_n a)%nat -> stride a <> 0 -> length x = a_n a -> Forall (fun z => snd z = 0) x ->
  (k < a_n a / 2 + 1)%nat ->
  nth k (ft_forward pi sq2pi cispi (mk_ft [a] [0%nat] [true] (-1) true) x) c0 =
  cscal (kernel pi sq2pi cispi (stride a) (freq (a_n a) (a_n a / 2 + 1) true k))
        (csum (fun j => cmul (nth j x c0)
                             (cispi (-1 * (a_min a + INR j * stride a) * coord (recip_axis 1 a (Some true) true) k)))
              (a_n a)).
Proof.
  intros Hn Hst Hx Hreal Hk.
  assert (Hs : is_sign (-1)) by (right; reflexivity).
  set (n := a_n a) in *.
  assert (Hkn : (k < n)%nat).
  { pose proof (Nat.div_mod_eq n 2). pose proof (Nat.mod_upper_bound n 2 ltac:(lia)). lia. }
  unfold ft_forward, f_rshape, f_shape. rewrite (ftc_forward_unfold cispi) by exact Hs.
  unfold rfftn, hc_shape, set_nth.
  cbn [f_grid f_axes f_shifts f_sg f_hc map last_axis last removelast nth firstn skipn app].
  fold n. cbn [pre_facs post_facs nth andb Nat.eqb]. fold n.
  set (pre := tensor_mult [n] [(0%nat, tabulate n (pre_fac cispi n true (-1)))] x).
  assert (Hpre : length pre = n) by (unfold pre; rewrite tensor_mult_length; exact Hx).
  assert (Hprer : map cre pre = pre).
  { apply (nth_ext _ _ c0 c0); [rewrite map_length; reflexivity|]. intros i Hi. rewrite map_length in Hi.
    rewrite (nth_indep _ c0 (cre c0)) by (rewrite map_length; exact Hi). rewrite (map_nth cre).
    unfold pre in *. rewrite tensor_mult_length in Hi. rewrite tensor_mult_nth by exact Hi.
    cbn [tensor_fac]. rewrite axis_index_1d by lia. rewrite cmul_1_r, tabulate_nth by lia.
    assert (Hxi : snd (nth i x c0) = 0) by (rewrite Forall_forall in Hreal; apply Hreal, nth_In; exact Hi).
    destruct (nth i x c0) as [xr xi]. cbn [snd] in Hxi. subst xi.
    unfold pre_fac. destruct (Nat.even i); unfold of_re; genR; cx_simpl; apply cx_eq; cbn [fst snd]; lra. }
  assert (Hd : dftn cispi (- none_)%num [(n / 2 + 1)%nat] [] (along_ax [n] 0 (n / 2 + 1) (rfft1n cispi n) pre)
               = firstn (n / 2 + 1) (dft1 cispi (-1) pre)).
  { cbn [dftn fold_right]. unfold along_ax, inner_of. cbn [firstn skipn prodn fold_right nth].
    rewrite <- Hpre at 1.
    rewrite along_1d.
    - unfold rfft1n. cbv zeta. rewrite Hprer. rewrite dft1n_eq by exact Hpre.
      replace (- none_)%num with (-1) by (numR; lra). reflexivity.
    - unfold rfft1n. cbv zeta. rewrite firstn_length, dft1n_length, map_length, Hpre.
      pose proof (Nat.div_mod_eq n 2). pose proof (Nat.mod_upper_bound n 2 ltac:(lia)). lia. }
  rewrite Hd.
  assert (Hlen : length (firstn (n / 2 + 1) (dft1 cispi (-1) pre)) = (n / 2 + 1)%nat).
  { rewrite firstn_length, (dft1_length cispi), Hpre.
    pose proof (Nat.div_mod_eq n 2). pose proof (Nat.mod_upper_bound n 2 ltac:(lia)). lia. }
  rewrite tensor_mult_nth by (rewrite Hlen; exact Hk).
  cbn [tensor_fac]. rewrite axis_index_1d by exact Hk. rewrite cmul_1_r.
  rewrite tabulate_nth by exact Hk.
  rewrite nth_firstn by exact Hk.
  unfold dft1. rewrite (dft_gen_nth Cx c0 cadd cmul) by lia. rewrite Hpre.
  unfold post_fac, pp_arg, rg_half_n. cbv zeta. cbn [a_n recip_axis]. fold n.
  rewrite cscal_cmul_r. f_equal.
  rewrite <- (sum_scal_r Cx c0 c1 cadd cmul csub copp cx_ring).
  apply (sum_ext Cx c0 cadd). intros j Hj.
  unfold pre. rewrite tensor_mult_nth by lia. cbn [tensor_fac]. rewrite axis_index_1d by exact Hj.
  rewrite cmul_1_r, tabulate_nth by exact Hj.
  rewrite !cmul_assoc. f_equal.
  rewrite <- cmul_assoc. apply (phase_product a true true (-1) j k Hs Hn Hst).
Qed.
End DefSum.
