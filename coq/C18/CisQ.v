(* C18/CisQ.v -- the Q instantiation of the three non-rational parameters of
   C18/Model.v:  pi, sqrt(2 pi) and cispi a = exp(i pi a).
   cispiQ reduces its (rational) argument modulo 2 EXACTLY, returns exact values at
   multiples of 1/2 and otherwise a truncated Taylor series on |angle| <= pi/4
   evaluated in 56-bit fixed point (integers scaled by 2^56, products shifted
   right); error < 1e-15.  (Trusted as an approximation of cos/sin; the
   correspondence additionally compares it with libm on every run.) *)
From Coq Require Import ZArith QArith Qround List.
Import ListNotations.
Local Open Scope Q_scope.

Definition piQ : Q := 884279719003555 # 281474976710656.        (* the double nearest to pi; |error| < 1.3e-16 *)
(* the double nearest to sqrt(2 pi); relative error < 1.2e-16 *)
Definition sq2piQ : Q := 5644425081792261 # 2251799813685248.

Local Open Scope Z_scope.
Definition S64 : Z := 72057594037927936.                     (* 2^56 *)
Definition pi_fx : Z := 226375608064910088.                   (* floor(pi * 2^56) *)
Definition fmul (a b : Z) : Z := Z.shiftr (a * b) 56.
(* 1 - t*inv_k1 (1 - t*inv_k2 (...)), inv_k = floor(2^56 / k) *)
Fixpoint horner (t : Z) (invs : list Z) : Z :=
  match invs with
  | [] => S64
  | i :: invs' => S64 - fmul (fmul t (horner t invs')) i
  end.
(* cos: k = (2m-1)(2m), sin: k = (2m)(2m+1), m = 1..9 *)
Definition cos_invs : list Z := [36028797018963968; 6004799503160661; 2401919801264264; 1286742750677284; 800639933754754; 545890863923696; 395920846362241; 300239975158033; 235482333457280]%Z.
Definition sin_invs : list Z := [12009599006321322; 3602879701896396; 1715657000903046; 1000799917193443; 655069036708435; 461907654089281; 343131400180609; 264917625139440; 210694719409146]%Z.

(* |p/q| <= 1/4:  (cos, sin)(pi p/q) scaled by 2^56 *)
Definition cis_small_fx (r : Q) : Z * Z :=
  let th := (pi_fx * Qnum r) / Zpos (Qden r) in
  let t := fmul th th in
  (horner t cos_invs, fmul th (horner t sin_invs)).
Local Open Scope Q_scope.
Definition two64 : positive := 72057594037927936.
Definition cis_small (r : Q) : Q * Q :=
  let '(c, s) := cis_small_fx r in (c # two64, s # two64).
(* |r| < 1/2: octant reduction *)
Definition cis_mid (r : Q) : Q * Q :=
  if Qle_bool (1 # 4) r then let '(c, s) := cis_small (Qred ((1 # 2) - r)) in (s, c)
  else if Qle_bool r (-1 # 4) then let '(c, s) := cis_small (Qred ((1 # 2) + r)) in (s, - c)
  else cis_small r.

Definition cispiQ (a : Q) : Q * Q :=
  let r := Qred (a - (2 # 1) * (Qfloor ((a + 1) / (2 # 1)) # 1)) in   (* r in [-1, 1) *)
  if Qeq_bool r 0 then (1, 0)
  else if Qeq_bool r (1 # 2) then (0, 1)
  else if Qeq_bool r (-1 # 2) then (0, -1)
  else if Qeq_bool r (-1 # 1) then (-1, 0)
  else if Qle_bool r (-1 # 2) then let '(c, s) := cis_mid (Qred (r + 1)) in (- c, - s)
  else if Qle_bool (1 # 2) r then let '(c, s) := cis_mid (Qred (r - 1)) in (- c, - s)
  else cis_mid r.
